import itertools
def occ(P,h,s,e):
    return [(i,st,st+len(p)) for i,p in enumerate(P) for st in range(s,e+1) if st+len(p)<=e and h[st:st+len(p)]==p]
def iter_std(P,h):
    out=[];s=0
    while True:
        o=occ(P,h,s,len(h))
        if not o: return out
        m=min(o,key=lambda m:(m[2],-(m[2]-m[1]),m[0])); out.append(m); s=m[2]
class Std:
    def __init__(s,P): s.P=P
    def ispref(s,u): return any(p.startswith(u) for p in s.P)
    def step(s,u,c):
        w=u+c
        for i in range(len(w)+1):
            if s.ispref(w[i:]): return w[i:]
    def out(s,u):
        l=[(i,p) for i,p in enumerate(s.P) if u.endswith(p)]; l.sort(key=lambda x:(-len(x[1]),x[0])); return [i for i,_ in l]
class EOFx(Exception): pass
def run(P,S,sched,spare,fail_at=None):
    """transcription of StreamChunkIter::next loop; sched = list of requested read sizes (cycled)"""
    A=Std(P); mn=max(1,max(len(p) for p in P)); cap=mn+spare
    buf=[None]*cap; end=0; rd=0; calls=0
    sid='';apos=0;bpos=0;rep=0
    chunks=[]
    def read(free):
        nonlocal rd,calls
        assert free>0,"read with empty buffer"
        if fail_at is not None and calls==fail_at: calls+=1; raise IOError
        want=sched[calls%len(sched)]; calls+=1
        n=min(want,free,len(S)-rd); data=S[rd:rd+n]; rd+=n; return data
    def fill():
        nonlocal end
        readany=False
        while True:
            d=read(cap-end)
            if len(d)==0: return readany
            readany=True
            buf[end:end+len(d)]=list(d); end+=len(d)
            if end>=mn: return True
    steps=0
    while True:
        steps+=1; assert steps<10000
        if A.out(sid):
            pid=A.out(sid)[0]; L=len(P[pid]); mat=(pid,apos-L,apos)
            assert bpos-L>=0
            if bpos-L>rep:
                chunks.append(('N',''.join(buf[rep:bpos-L]))); rep=bpos-L; continue
            assert rep==bpos-L,(rep,bpos,L)
            sid=''
            chunks.append(('M',''.join(buf[bpos-L:bpos]),mat)); rep+=L; continue
        if bpos>=end:
            e2=max(0,end-mn)
            if rep<e2:
                chunks.append(('N',''.join(buf[rep:e2]))); rep=e2; continue
            if end>=mn:
                bpos=mn
                assert rep>=end-mn
                rep-=end-mn
                rs=end-mn; buf[0:mn]=buf[rs:rs+mn]; end=mn
            try: r=fill()
            except IOError:
                chunks.append(('E',)); return chunks
            if not r:
                if rep<end:
                    chunks.append(('N',''.join(buf[rep:end]))); rep=end; continue
                return chunks
        start=apos
        for c in buf[bpos:end]:
            sid=A.step(sid,c); apos+=1
            if A.out(sid): break
        bpos+=apos-start
bad=0;n=0
alpha='ab'
strs=[''.join(t) for k in (1,2,3) for t in itertools.product(alpha,repeat=k)]
sets=[[a] for a in strs]+[[a,b] for a in strs for b in strs if hash((a,b))%3==0]
for P in sets:
  for L in range(0,8):
    for S in map(''.join,itertools.product(alpha,repeat=L)):
      exp=iter_std(P,S)
      for spare in (1,2,3):
        for sched in ([1],[2],[3],[1,2],[2,1],[3,1],[1,3],[7],[1,1,2]):
          n+=1
          ch=run(P,S,sched,spare)
          cat=''.join(c[1] for c in ch); ms=[c[2] for c in ch if c[0]=='M']
          ok = cat==S and ms==exp and all(S[c[2][1]:c[2][2]]==c[1] for c in ch if c[0]=='M')
          if not ok:
            bad+=1
            if bad<10: print('BAD',P,S,spare,sched,ch,exp)
print('cases',n,'bad',bad)
# fault prefix check
bad=0;n=0
for P in (['ab','b'],['aba'],['a','bab']):
  for S in map(''.join,itertools.product(alpha,repeat=6)):
    for spare in (1,2):
      for sched in ([1],[2,1],[3]):
        full=run(P,S,sched,spare)
        for k in range(0,8):
          f=run(P,S,sched,spare,fail_at=k); n+=1
          if f[-1]==('E',):
            if full[:len(f)-1]!=f[:-1]: bad+=1; print('PFX',P,S,spare,sched,k)
          else:
            if f!=full: bad+=1
print('fault cases',n,'bad',bad)
