"""Design-time prototype (not part of the checking machinery): the L1 closed
forms of DESIGN.md 3.2 + the engine loops, compared with the L0 spec.
Result at design time: 1 009 560 cases, 0 disagreements."""
import itertools
def occ(P,h,s,e):
    return [(i,st,st+len(p)) for i,p in enumerate(P) for st in range(s,e+1) if st+len(p)<=e and h[st:st+len(p)]==p]
def best(kind,o):
    if not o: return None
    if kind=='LF': return min(o,key=lambda m:(m[1],m[0]))
    if kind=='LL': return min(o,key=lambda m:(m[1],-(m[2]-m[1]),m[0]))
    return min(o,key=lambda m:(m[2],-(m[2]-m[1]),m[0]))
def find_spec(kind,P,h,s,e,anch):
    o=occ(P,h,s,e)
    if anch: o=[m for m in o if m[1]==s]
    return best(kind,o)
DEAD=None
class Ideal:
    def __init__(self,P,kind):
        self.P=P; self.kind=kind
        if kind=='LF':   # build_trie's saw_match rule: drop patterns with an earlier proper prefix
            self.Q={i:p for i,p in enumerate(P) if not any(len(P[j])<len(p) and p.startswith(P[j]) for j in range(i))}
        else: self.Q=dict(enumerate(P))
    def ispref(self,u): return any(p.startswith(u) for p in self.Q.values())
    def lsp(self,w):
        for i in range(len(w)+1):
            if self.ispref(w[i:]): return w[i:]
    def occ_in(self,u):  # start positions of pattern occurrences inside u (eps included, at every position)
        return [st for p in self.Q.values() for st in range(len(u)+1) if u[st:st+len(p)]==p and st+len(p)<=len(u)]
    def step(self,u,c,anch):
        if u is DEAD: return DEAD
        if self.ispref(u+c): return u+c
        if anch: return DEAD
        v=self.lsp(u+c)
        if self.kind=='Std': return v
        k=len(u)+1-len(v)
        if any(st<k for st in self.occ_in(u)): return DEAD      # blocked u k
        return v
    def out(self,u):
        if u is DEAD: return []
        if self.kind=='Std':
            l=[(i,p) for i,p in self.Q.items() if u.endswith(p)]
            l.sort(key=lambda x:(-len(x[1]),x[0])); return [i for i,_ in l]
        sufs=[p for p in self.Q.values() if u.endswith(p)]
        if not sufs: return []
        q=max(sufs,key=len)
        if any(st<len(u)-len(q) for st in self.occ_in(u)): return []
        return sorted(i for i,p in self.Q.items() if p==q)
def engine_find(A,h,s,e,anch,earliest):
    if s>e: return None
    earliest = earliest or A.kind=='Std'
    u=''; at=s; mat=None
    o=A.out(u)
    if o:
        mat=(o[0],at-len(A.P[o[0]]),at)
        if earliest: return mat
    while at<e:
        u=A.step(u,h[at],anch)
        if u is DEAD: return mat
        o=A.out(u)
        if o:
            m=(o[0],at+1-len(A.P[o[0]]),at+1)
            if not(anch and m[1]>s):
                mat=m
                if earliest: return mat
        at+=1
    return mat
def overlap(A,h,s,e,anch):   # specified behaviour (with the anchored filter, F3 repaired)
    res=[]; u=''
    for pid in A.out(u): res.append((pid,s-len(A.P[pid]),s))
    at=s
    while at<e:
        u=A.step(u,h[at],anch)
        if u is DEAD: break
        for pid in A.out(u):
            m=(pid,at+1-len(A.P[pid]),at+1)
            if anch and m[1]>s: continue
            res.append(m)
        at+=1
    return res
if __name__=='__main__':
    alpha='ab'
    strs=['']+[''.join(t) for n in (1,2,3) for t in itertools.product(alpha,repeat=n)]
    hays=['']+[''.join(t) for n in range(1,6) for t in itertools.product(alpha,repeat=n)]
    sets=[[a] for a in strs]+[[a,b] for a in strs for b in strs]+[[a,b,c] for a in strs for b in strs for c in strs if (hash((a,b,c))%5==0)]
    bad=0;n=0
    for P in sets:
      for kind in ('Std','LF','LL'):
        A=Ideal(P,kind)
        for h in hays:
          for anch in (False,True):
            for (s,e) in ((0,len(h)),(1,len(h)),(0,max(0,len(h)-1))):
              if s>len(h) or e>len(h) or s>e: continue
              n+=1
              g=engine_find(A,h,s,e,anch,False); x=find_spec(kind,P,h,s,e,anch)
              if g!=x: bad+=1; print('FIND',kind,P,h,s,e,anch,g,x)
              if kind=='Std':
                g=overlap(A,h,s,e,anch); o=occ(P,h,s,e)
                if anch:o=[m for m in o if m[1]==s]
                o.sort(key=lambda m:(m[2],-(m[2]-m[1]),m[0]))
                if g!=o: bad+=1; print('OVL',P,h,s,e,anch,g,o)
              else:
                ge=engine_find(A,h,s,e,anch,True)
                if (ge is None)!=(x is None) or (ge and (ge not in occ(P,h,s,e) or ge[2]>x[2])):
                  bad+=1; print('EARLY',kind,P,h,s,e,anch,ge,x)
    print('cases',n,'bad',bad)
