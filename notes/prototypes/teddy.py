import random, itertools
def occ(P,h,s,e): return [(i,st,st+len(p)) for i,p in enumerate(P) for st in range(s,e+1) if st+len(p)<=e and h[st:st+len(p)]==p]
def spec(kind,P,h,s,e):
    o=occ(P,h,s,e)
    if not o: return None
    return min(o,key=(lambda m:(m[1],m[0])) if kind=='LF' else (lambda m:(m[1],-(m[2]-m[1]),m[0])))
def order(P,kind):
    ids=list(range(len(P)))
    if kind=='LL': ids.sort(key=lambda i:-len(P[i]))  # stable
    return ids
class Teddy:
    def __init__(s,P,kind,B,V,W):  # B buckets (8 slim /16 fat), V vector bytes, W window stride (V slim, V/2 fat)
        s.P=P;s.B=B;s.V=V;s.W=W
        s.N=min(4,min(len(p) for p in P))
        s.buckets=[[] for _ in range(B)]; mp={}
        for i in order(P,kind):
            key=bytes(b&15 for b in P[i][:s.N])
            if key in mp: s.buckets[mp[key]].append(i)
            else:
                b=(B-1)-(i%B); s.buckets[b].append(i); mp[key]=b
        # masks: per byte index, lo[16], hi[16] as B-bit ints
        s.lo=[[0]*16 for _ in range(s.N)]; s.hi=[[0]*16 for _ in range(s.N)]
        for bi,bk in enumerate(s.buckets):
            for pid in bk:
                for i in range(s.N):
                    byte=P[pid][i]; s.lo[i][byte&15]|=1<<bi; s.hi[i][byte>>4]|=1<<bi
    def minimum_len(s): return s.W+s.N-1
    def members(s,chunk):  # chunk: W bytes -> N lists of W bucket-bitsets
        return [[s.lo[i][b&15]&s.hi[i][b>>4] for b in chunk] for i in range(s.N)]
    def find(s,h,start,end):
        N,W=s.N,s.W; full=(1<<s.B)-1
        assert end-start>=s.minimum_len()
        cur=start+N-1; prev=[[full]*W for _ in range(N-1)]
        def one(cur,prev):
            assert start<=cur-(N-1) and cur+W<=end
            res=s.members(h[cur:cur+W])
            # res[i] shifted in by (N-1-i) bytes with carry from prev[i]
            c=[full]*W
            for i in range(N):
                k=N-1-i
                sh = res[i] if k==0 else (prev[i][W-k:]+res[i][:W-k])
                c=[x&y for x,y in zip(c,sh)]
            for i in range(N-1): prev[i]=res[i]
            if any(c):
                base=cur-(N-1)
                for lane in range(W):      # position-major
                    for b in range(s.B):   # bucket-minor
                        if c[lane]>>b&1:
                            p=base+lane
                            for pid in s.buckets[b]:
                                pat=s.P[pid]
                                if len(pat)<=end-p and h[p:p+len(pat)]==pat: return (pid,p,p+len(pat))
            return None
        while cur<=end-W:
            m=one(cur,prev)
            if m: return m
            cur+=W
        if cur<end:
            cur=end-W; prev=[[full]*W for _ in range(N-1)]
            m=one(cur,prev)
            if m: return m
        return None
random.seed(1); bad=0;n=0
for trial in range(4000):
    kind=random.choice(['LF','LL'])
    B,V,W=random.choice([(8,16,16),(8,32,32),(16,32,16)])
    minlen=random.choice([1,2,3,4,5])
    al=random.choice([b'ab',b'abc',bytes([0x61,0x71,0x41,0x62])])  # same low nybble collisions (a,q,A)
    np_=random.choice([1,2,3,5,9,17,20])
    P=[bytes(random.choice(al) for _ in range(random.randint(minlen,minlen+3))) for _ in range(np_)]
    T=Teddy(P,kind,B,V,W)
    for _ in range(20):
        L=random.randint(T.minimum_len(),3*W+8); pre=random.randint(0,3)
        h=bytes(random.choice(al+b'zz') for _ in range(pre+L))
        if random.random()<0.5:
            p=random.choice(P); pos=random.randint(pre,max(pre,len(h)-len(p))); h=h[:pos]+p+h[pos+len(p):]; h=h[:pre+L]
            h=bytes(0x7a if (i<pos and random.random()<0.7) else b for i,b in enumerate(h))
        n+=1
        g=T.find(h,pre,len(h)); x=spec(kind,P,h,pre,len(h))
        if g!=x:
            bad+=1
            if bad<6: print('BAD',kind,B,V,W,P,h,pre,g,x)
print('cases',n,'bad',bad)
