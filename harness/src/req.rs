//! Request line codec.  A request is `<op> key=value key=value ...`.
use std::collections::BTreeMap;

#[derive(Debug, Clone)]
pub struct Req {
    pub op: String,
    pub kv: BTreeMap<String, String>,
}

pub fn unhex(s: &str) -> Result<Vec<u8>, String> {
    if s == "_" || s.is_empty() {
        return Ok(vec![]);
    }
    if s.len() % 2 != 0 {
        return Err(format!("odd hex {}", s));
    }
    let b = s.as_bytes();
    let mut out = Vec::with_capacity(b.len() / 2);
    let val = |c: u8| -> Result<u8, String> {
        match c {
            b'0'..=b'9' => Ok(c - b'0'),
            b'a'..=b'f' => Ok(c - b'a' + 10),
            b'A'..=b'F' => Ok(c - b'A' + 10),
            _ => Err(format!("bad hex char {}", c as char)),
        }
    };
    for i in (0..b.len()).step_by(2) {
        out.push(val(b[i])? * 16 + val(b[i + 1])?);
    }
    Ok(out)
}

pub fn hex(b: &[u8]) -> String {
    if b.is_empty() {
        return "_".to_string();
    }
    let mut s = String::with_capacity(b.len() * 2);
    for x in b {
        s.push_str(&format!("{:02x}", x));
    }
    s
}

/// `.` is the empty list, otherwise comma separated hex strings with `_` for
/// the empty byte string.
pub fn unhex_list(s: &str) -> Result<Vec<Vec<u8>>, String> {
    if s == "." {
        return Ok(vec![]);
    }
    s.split(',').map(unhex).collect()
}

impl Req {
    pub fn parse(line: &str) -> Result<Req, String> {
        let mut it = line.split_whitespace();
        let op = it.next().ok_or("empty")?.to_string();
        let mut kv = BTreeMap::new();
        for tok in it {
            let (k, v) = tok.split_once('=').ok_or(format!("token {}", tok))?;
            kv.insert(k.to_string(), v.to_string());
        }
        Ok(Req { op, kv })
    }
    pub fn s(&self, k: &str) -> Result<&str, String> {
        self.kv.get(k).map(|s| s.as_str()).ok_or(format!("missing {}", k))
    }
    pub fn s_or<'a>(&'a self, k: &str, d: &'a str) -> &'a str {
        self.kv.get(k).map(|s| s.as_str()).unwrap_or(d)
    }
    pub fn n(&self, k: &str) -> Result<usize, String> {
        self.s(k)?.parse::<usize>().map_err(|e| format!("{}: {}", k, e))
    }
    pub fn n_or(&self, k: &str, d: usize) -> usize {
        self.kv.get(k).and_then(|s| s.parse::<usize>().ok()).unwrap_or(d)
    }
    pub fn b(&self, k: &str) -> bool {
        self.kv.get(k).map(|s| s == "1").unwrap_or(false)
    }
    pub fn bytes(&self, k: &str) -> Result<Vec<u8>, String> {
        unhex(self.s(k)?)
    }
    pub fn list(&self, k: &str) -> Result<Vec<Vec<u8>>, String> {
        unhex_list(self.s(k)?)
    }
    /// list of numbers: `.` empty, else comma separated
    pub fn nums(&self, k: &str) -> Result<Vec<usize>, String> {
        let s = self.s(k)?;
        if s == "." {
            return Ok(vec![]);
        }
        s.split(',')
            .map(|x| x.parse::<usize>().map_err(|e| format!("{}: {}", k, e)))
            .collect()
    }
}
