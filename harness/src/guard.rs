//! C15: run searches on haystacks placed flush against PROT_NONE pages.
use crate::req::Req;

pub struct Guarded {
    base: *mut u8,
    total: usize,
    pub ptr: *mut u8,
    pub len: usize,
}

impl Guarded {
    /// `right = true`: the haystack ends exactly at an inaccessible page;
    /// `right = false`: it begins exactly after one.
    pub fn new(data: &[u8], right: bool) -> Guarded {
        unsafe {
            let page = libc::sysconf(libc::_SC_PAGESIZE) as usize;
            let body = ((data.len() + page - 1) / page).max(1) * page;
            let total = body + 2 * page;
            let base = libc::mmap(
                std::ptr::null_mut(),
                total,
                libc::PROT_READ | libc::PROT_WRITE,
                libc::MAP_PRIVATE | libc::MAP_ANONYMOUS,
                -1,
                0,
            ) as *mut u8;
            assert!(base as isize != -1, "mmap failed");
            let ptr = if right {
                base.add(page + body - data.len())
            } else {
                base.add(page)
            };
            std::ptr::copy_nonoverlapping(data.as_ptr(), ptr, data.len());
            assert_eq!(libc::mprotect(base as *mut _, page, libc::PROT_NONE), 0);
            assert_eq!(
                libc::mprotect(base.add(page + body) as *mut _, page, libc::PROT_NONE),
                0
            );
            Guarded { base, total, ptr, len: data.len() }
        }
    }
    pub fn slice(&self) -> &[u8] {
        unsafe { std::slice::from_raw_parts(self.ptr, self.len) }
    }
}

impl Drop for Guarded {
    fn drop(&mut self) {
        unsafe {
            libc::munmap(self.base as *mut _, self.total);
        }
    }
}

/// Runs the request's op with the haystack placed against a guard page on
/// the right and then on the left.  A stray read is a SIGSEGV of this child
/// process (the parent sees the last BEGIN line).  Output is the ordinary
/// response, which the orchestrator also compares with the model.
pub fn run(r: &Req) -> Vec<(String, String)> {
    let hay = match r.bytes("hay") {
        Ok(h) => h,
        Err(e) => return vec![("-".into(), format!("bad-request:{}", e))],
    };
    let mut out = vec![];
    for right in [true, false] {
        let g = Guarded::new(&hay, right);
        let side = if right { "R" } else { "L" };
        if r.op == "packed" {
            for variant in r.s_or("pcfg", "default").split(';') {
                let res = std::panic::catch_unwind(std::panic::AssertUnwindSafe(|| {
                    let s = match crate::exec::build_packed(r, variant) {
                        Err(e) => return format!("bad-request:{}", e),
                        Ok(None) => return "unavailable".into(),
                        Ok(Some(s)) => s,
                    };
                    let st = r.n_or("s", 0);
                    let en = r.n_or("e", hay.len());
                    crate::exec::fmt_opt(&s.find_in(
                        g.slice(),
                        aho_corasick::Span { start: st, end: en },
                    ))
                }));
                out.push((
                    format!("{}{}", variant, side),
                    res.unwrap_or_else(|_| "panic".into()),
                ));
            }
        } else {
            let cfgs = match crate::exec::cfgs_of(r) {
                Ok(c) => c,
                Err(e) => return vec![("-".into(), format!("bad-request:{}", e))],
            };
            for c in cfgs {
                let res = std::panic::catch_unwind(std::panic::AssertUnwindSafe(|| {
                    let b = match crate::exec::build(r, &c) {
                        Ok(b) => b,
                        Err(e) => return e,
                    };
                    let input = match crate::exec::mk_input(r, g.slice()) {
                        Ok(i) => i,
                        Err(e) => return format!("bad-request:{}", e),
                    };
                    crate::exec::with_srch(&b, &mut |s| match r.op.as_str() {
                        "iter" => match s.iter(input.clone()) {
                            Err(e) => crate::exec::err_name(&e),
                            Ok(v) => crate::exec::fmt_list(
                                &v.iter().map(crate::exec::fmt_match).collect::<Vec<_>>(),
                            ),
                        },
                        _ => match s.find(input.clone()) {
                            Err(e) => crate::exec::err_name(&e),
                            Ok(m) => crate::exec::fmt_opt(&m),
                        },
                    })
                }));
                out.push((
                    format!("{}{}", c.name, side),
                    res.unwrap_or_else(|_| "panic".into()),
                ));
            }
        }
    }
    out
}
