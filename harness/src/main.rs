//! Correspondence harness: executes request lines against the real
//! aho-corasick crate (path dependency on /repo, built with
//! `--cfg aho_corasick_verif`) and prints one canonical response line per
//! (request, configuration).  See /verif/DESIGN.md section 4.
mod dump;
mod exec;
mod guard;
mod req;

use std::io::{BufRead, Write};

fn main() {
    let args: Vec<String> = std::env::args().collect();
    if args.len() < 2 {
        eprintln!("usage: acharness exec <reqfile> | guardchild <reqfile>");
        std::process::exit(2);
    }
    // Panics are caught per request; keep stderr quiet.
    std::panic::set_hook(Box::new(|_| {}));
    match args[1].as_str() {
        "exec" => {
            // A search that does not terminate or allocates without bound must kill THIS process (quickly), not the
            // machine: cap the address space; the parent notices the death and names the request.
            unsafe {
                let gb: u64 = std::env::var("ACHARNESS_AS_GB").ok().and_then(|x| x.parse().ok()).unwrap_or(16);
                let lim = libc::rlimit { rlim_cur: gb << 30, rlim_max: gb << 30 };
                libc::setrlimit(libc::RLIMIT_AS, &lim);
            }
            let f = std::fs::File::open(&args[2]).expect("open reqfile");
            let rdr = std::io::BufReader::new(f);
            let out = std::io::stdout();
            let mut out = std::io::BufWriter::new(out.lock());
            for (i, line) in rdr.lines().enumerate() {
                let line = line.expect("read line");
                let line = line.trim();
                if line.is_empty() || line.starts_with('#') {
                    continue;
                }
                let r = match req::Req::parse(line) {
                    Ok(r) => r,
                    Err(e) => {
                        writeln!(out, "{} - bad-request:{}", i, e).unwrap();
                        continue;
                    }
                };
                for (cfg, resp) in exec::run(&r) {
                    writeln!(out, "{} {} {}", i, cfg, resp).unwrap();
                }
                // one flush per request: if the next request kills the process, everything before it is out
                out.flush().unwrap();
            }
            out.flush().unwrap();
        }
        "guardchild" => {
            // Runs requests with guard-page placed haystacks; prints progress
            // so the parent can tell which request crashed.
            let f = std::fs::File::open(&args[2]).expect("open reqfile");
            let rdr = std::io::BufReader::new(f);
            let out = std::io::stdout();
            let mut out = out.lock();
            for (i, line) in rdr.lines().enumerate() {
                let line = line.expect("read line");
                let line = line.trim();
                if line.is_empty() || line.starts_with('#') {
                    continue;
                }
                let r = match req::Req::parse(line) {
                    Ok(r) => r,
                    Err(e) => {
                        writeln!(out, "{} - bad-request:{}", i, e).unwrap();
                        continue;
                    }
                };
                writeln!(out, "BEGIN {}", i).unwrap();
                out.flush().unwrap();
                for (cfg, resp) in guard::run(&r) {
                    writeln!(out, "{} {} {}", i, cfg, resp).unwrap();
                }
                out.flush().unwrap();
            }
        }
        _ => {
            eprintln!("unknown subcommand");
            std::process::exit(2);
        }
    }
}
