//! Correspondence harness: executes request lines against the real
//! aho-corasick crate (path dependency on /repo, built with
//! `--cfg aho_corasick_verif`) and prints one canonical response line per
//! (request, configuration).  See /verif/DESIGN.md section 4.
mod dump;
mod exec;
mod guard;
mod req;

use std::io::{BufRead, Write};

thread_local! {
    static REQ_CLOCK: std::cell::RefCell<Option<(std::time::Instant, std::sync::Arc<std::sync::atomic::AtomicU64>)>> =
        std::cell::RefCell::new(None);
}

fn main() {
    let args: Vec<String> = std::env::args().collect();
    if args.len() < 2 {
        eprintln!("usage: acharness exec <reqfile> | guardchild <reqfile>");
        std::process::exit(2);
    }
    // Panics are caught per request; keep stderr quiet.
    std::panic::set_hook(Box::new(|_| {}));
    match args[1].as_str() {
        "exec" => {
            // A search that does not terminate or allocates without bound must kill THIS process (quickly), not the
            // machine: cap the address space; the parent notices the death and names the request.
            unsafe {
                let gb: u64 = std::env::var("ACHARNESS_AS_GB").ok().and_then(|x| x.parse().ok()).unwrap_or(16);
                let lim = libc::rlimit { rlim_cur: gb << 30, rlim_max: gb << 30 };
                libc::setrlimit(libc::RLIMIT_AS, &lim);
            }
            // ... and a request that never returns (an endless loop that allocates nothing) must not hold the run for
            // longer than a per-request limit: a watchdog thread aborts the process, the parent names the request.
            let started = std::sync::Arc::new(std::sync::atomic::AtomicU64::new(0));
            {
                let watched = started.clone();
                let limit: u64 =
                    std::env::var("ACHARNESS_REQ_TIMEOUT_S").ok().and_then(|x| x.parse().ok()).unwrap_or(60);
                let t0 = std::time::Instant::now();
                std::thread::spawn(move || loop {
                    std::thread::sleep(std::time::Duration::from_millis(500));
                    let s = watched.load(std::sync::atomic::Ordering::Relaxed);
                    if s != 0 && t0.elapsed().as_secs() > s + limit {
                        std::process::abort();
                    }
                });
                // `started` holds (seconds since t0 when the current request began) + 1, 0 = idle
                REQ_CLOCK.with(|c| *c.borrow_mut() = Some((t0, started.clone())));
            }
            let f = std::fs::File::open(&args[2]).expect("open reqfile");
            let rdr = std::io::BufReader::new(f);
            let out = std::io::stdout();
            let mut out = std::io::BufWriter::new(out.lock());
            for (i, line) in rdr.lines().enumerate() {
                let line = line.expect("read line");
                let line = line.trim();
                if line.is_empty() || line.starts_with('#') {
                    continue;
                }
                let r = match req::Req::parse(line) {
                    Ok(r) => r,
                    Err(e) => {
                        writeln!(out, "{} - bad-request:{}", i, e).unwrap();
                        continue;
                    }
                };
                REQ_CLOCK.with(|c| {
                    if let Some((t0, st)) = c.borrow().as_ref() {
                        st.store(t0.elapsed().as_secs() + 1, std::sync::atomic::Ordering::Relaxed);
                    }
                });
                for (cfg, resp) in exec::run(&r) {
                    writeln!(out, "{} {} {}", i, cfg, resp).unwrap();
                }
                // one flush per request: if the next request kills the process, everything before it is out
                out.flush().unwrap();
            }
            out.flush().unwrap();
        }
        "guardchild" => {
            // Runs requests with guard-page placed haystacks; prints progress
            // so the parent can tell which request crashed.
            let f = std::fs::File::open(&args[2]).expect("open reqfile");
            let rdr = std::io::BufReader::new(f);
            let out = std::io::stdout();
            let mut out = out.lock();
            for (i, line) in rdr.lines().enumerate() {
                let line = line.expect("read line");
                let line = line.trim();
                if line.is_empty() || line.starts_with('#') {
                    continue;
                }
                let r = match req::Req::parse(line) {
                    Ok(r) => r,
                    Err(e) => {
                        writeln!(out, "{} - bad-request:{}", i, e).unwrap();
                        continue;
                    }
                };
                writeln!(out, "BEGIN {}", i).unwrap();
                out.flush().unwrap();
                for (cfg, resp) in guard::run(&r) {
                    writeln!(out, "{} {} {}", i, cfg, resp).unwrap();
                }
                out.flush().unwrap();
            }
        }
        _ => {
            eprintln!("unknown subcommand");
            std::process::exit(2);
        }
    }
}
