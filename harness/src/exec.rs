//! Executes one request against the real crate, once per configuration.
use crate::req::{hex, Req};
use aho_corasick::{
    automaton::{Automaton, OverlappingState},
    dfa, nfa, AhoCorasick, AhoCorasickBuilder, AhoCorasickKind, Anchored,
    Input, Match, MatchError, MatchErrorKind, MatchKind, StartKind,
};
use std::io::{Read, Write};
use std::panic::{catch_unwind, AssertUnwindSafe};

#[derive(Clone, Debug)]
pub struct Cfg {
    pub name: String,
    pub kind: String, // nc c dfa | tnc tc tdfa auto
    pub dd: Option<usize>,
    pub bc: bool,
    pub pf: bool,
    pub sk: StartKind,
}

pub fn parse_cfg(s: &str) -> Result<Cfg, String> {
    let p: Vec<&str> = s.split('.').collect();
    if p.len() != 5 {
        return Err(format!("cfg {}", s));
    }
    let dd = if p[1] == "d" {
        None
    } else {
        Some(p[1].parse::<usize>().map_err(|e| e.to_string())?)
    };
    let sk = match p[4] {
        "u" => StartKind::Unanchored,
        "a" => StartKind::Anchored,
        "b" => StartKind::Both,
        _ => return Err(format!("cfg sk {}", s)),
    };
    Ok(Cfg {
        name: s.to_string(),
        kind: p[0].to_string(),
        dd,
        bc: p[2] == "1",
        pf: p[3] == "1",
        sk,
    })
}

pub fn cfgs_of(r: &Req) -> Result<Vec<Cfg>, String> {
    r.s_or("cfgs", "nc.d.1.0.b").split(';').map(parse_cfg).collect()
}

pub fn match_kind(r: &Req) -> Result<MatchKind, String> {
    Ok(match r.s_or("mk", "std") {
        "std" => MatchKind::Standard,
        "lf" => MatchKind::LeftmostFirst,
        "ll" => MatchKind::LeftmostLongest,
        x => return Err(format!("mk {}", x)),
    })
}

pub enum Built {
    Nc(nfa::noncontiguous::NFA),
    C(nfa::contiguous::NFA),
    Dfa(dfa::DFA),
    Top(AhoCorasick),
}

pub fn build(r: &Req, c: &Cfg) -> Result<Built, String> {
    let pats = r.list("pats")?;
    let mk = match_kind(r)?;
    let fold = r.b("fold");
    match c.kind.as_str() {
        "nc" => {
            let mut b = nfa::noncontiguous::Builder::new();
            b.match_kind(mk).ascii_case_insensitive(fold).prefilter(c.pf);
            if let Some(d) = c.dd {
                b.dense_depth(d);
            }
            b.build(&pats).map(Built::Nc).map_err(|e| format!("build-err:{}", e))
        }
        "c" => {
            let mut b = nfa::contiguous::Builder::new();
            b.match_kind(mk)
                .ascii_case_insensitive(fold)
                .prefilter(c.pf)
                .byte_classes(c.bc);
            if let Some(d) = c.dd {
                b.dense_depth(d);
            }
            b.build(&pats).map(Built::C).map_err(|e| format!("build-err:{}", e))
        }
        "dfa" => {
            let mut b = dfa::Builder::new();
            b.match_kind(mk)
                .ascii_case_insensitive(fold)
                .prefilter(c.pf)
                .byte_classes(c.bc)
                .start_kind(c.sk);
            b.build(&pats).map(Built::Dfa).map_err(|e| format!("build-err:{}", e))
        }
        "tnc" | "tc" | "tdfa" | "auto" => {
            let mut b = AhoCorasickBuilder::new();
            b.match_kind(mk)
                .ascii_case_insensitive(fold)
                .prefilter(c.pf)
                .byte_classes(c.bc)
                .start_kind(c.sk);
            if let Some(d) = c.dd {
                b.dense_depth(d);
            }
            b.kind(match c.kind.as_str() {
                "tnc" => Some(AhoCorasickKind::NoncontiguousNFA),
                "tc" => Some(AhoCorasickKind::ContiguousNFA),
                "tdfa" => Some(AhoCorasickKind::DFA),
                _ => None,
            });
            b.build(&pats).map(Built::Top).map_err(|e| format!("build-err:{}", e))
        }
        x => Err(format!("kind {}", x)),
    }
}

pub fn err_name(e: &MatchError) -> String {
    match e.kind() {
        MatchErrorKind::InvalidInputAnchored => "err-anchored".into(),
        MatchErrorKind::InvalidInputUnanchored => "err-unanchored".into(),
        MatchErrorKind::UnsupportedStream { .. } => "err-stream".into(),
        MatchErrorKind::UnsupportedOverlapping { .. } => {
            "err-overlapping".into()
        }
        MatchErrorKind::UnsupportedEmpty => "err-empty".into(),
        _ => "err-other".into(),
    }
}

/// If an io::Error wraps a MatchError (stream replace constructors), name it.
pub fn io_class(r: &std::io::Result<()>) -> Option<String> {
    match r {
        Ok(()) => None,
        Err(e) => e
            .get_ref()
            .and_then(|inner| inner.downcast_ref::<MatchError>())
            .map(err_name),
    }
}

pub fn fmt_match(m: &Match) -> String {
    format!("{}:{}:{}", m.pattern().as_usize(), m.start(), m.end())
}
pub fn fmt_opt(m: &Option<Match>) -> String {
    match m {
        None => "none".into(),
        Some(m) => fmt_match(m),
    }
}
pub fn fmt_list(v: &[String]) -> String {
    format!("[{}]", v.join(","))
}

// ---------------------------------------------------------------------
// Scheduled reader / limited writer for the stream operations.

pub struct SchedReader {
    pub data: Vec<u8>,
    pub pos: usize,
    pub sched: Vec<usize>,
    pub calls: usize,
    pub fail_at: Option<usize>,
    pub empty_buf_calls: usize,
    /// kind of the injected read failure (an error is an error, whatever its kind)
    pub fail_kind: std::io::ErrorKind,
}

impl Read for SchedReader {
    fn read(&mut self, buf: &mut [u8]) -> std::io::Result<usize> {
        let call = self.calls;
        self.calls += 1;
        if buf.is_empty() {
            self.empty_buf_calls += 1;
        }
        if self.fail_at == Some(call) {
            return Err(std::io::Error::new(self.fail_kind, "injected read failure"));
        }
        let want = self.sched.get(call).copied().unwrap_or(usize::MAX);
        let n = want.min(buf.len()).min(self.data.len() - self.pos);
        buf[..n].copy_from_slice(&self.data[self.pos..self.pos + n]);
        self.pos += n;
        Ok(n)
    }
}

pub struct LimitWriter {
    pub out: Vec<u8>,
    pub limit: Option<usize>,
}

impl Write for LimitWriter {
    fn write(&mut self, buf: &[u8]) -> std::io::Result<usize> {
        let room = match self.limit {
            None => buf.len(),
            Some(l) => l.saturating_sub(self.out.len()).min(buf.len()),
        };
        if room == 0 && !buf.is_empty() {
            return Err(std::io::Error::new(
                std::io::ErrorKind::Other,
                "injected write failure",
            ));
        }
        self.out.extend_from_slice(&buf[..room]);
        Ok(room)
    }
    fn flush(&mut self) -> std::io::Result<()> {
        Ok(())
    }
}

// ---------------------------------------------------------------------
// A uniform view of the search API over the low-level automata (through the
// `Automaton` trait) and the top-level `AhoCorasick`.

thread_local! {
    /// `replace_all_with(_bytes)` APPEND to a caller-supplied buffer: (bytes already in it, spare capacity)
    pub static DST_PRE: std::cell::RefCell<(Vec<u8>, usize)> = std::cell::RefCell::new((vec![], 0));
}

fn dst_bytes() -> Vec<u8> {
    DST_PRE.with(|d| {
        let d = d.borrow();
        let mut v = Vec::with_capacity(d.0.len() + d.1);
        v.extend_from_slice(&d.0);
        v
    })
}

fn dst_string() -> String {
    DST_PRE.with(|d| {
        let d = d.borrow();
        let mut v = String::with_capacity(d.0.len() + d.1);
        v.push_str(&String::from_utf8_lossy(&d.0));
        v
    })
}

/// what was in the buffer before the call must still be there, untouched, in front of the output
fn strip_pre(out: &[u8]) -> Result<Vec<u8>, String> {
    DST_PRE.with(|d| {
        let d = d.borrow();
        let pre = String::from_utf8_lossy(&d.0).to_string().into_bytes();
        if out.len() >= pre.len() && out[..pre.len()] == pre[..] {
            Ok(out[pre.len()..].to_vec())
        } else {
            Err("dst-prefix-corrupted".to_string())
        }
    })
}

thread_local! {
    /// a stream iterator can yield at most one match per byte (set from the stream length before each run)
    pub static STREAM_ITEM_CAP: std::cell::Cell<usize> = std::cell::Cell::new(usize::MAX);
    pub static STREAM_RESUME: std::cell::Cell<bool> = std::cell::Cell::new(false);
}

/// a non-overlapping iterator yields at most one match per position of the span (+1 for the end); anything beyond that
/// is a runaway iterator: the answer is cut there (and so differs from every correct answer) instead of eating memory
fn iter_cap(i: &Input<'_>) -> usize {
    i.get_span().end.saturating_sub(i.get_span().start) + 3
}

fn ovl_cap(i: &Input<'_>, npats: usize) -> usize {
    (i.get_span().end.saturating_sub(i.get_span().start) + 2) * (npats + 1) + 3
}

fn bounded<I: Iterator<Item = Match>>(it: I, cap: usize) -> Result<Vec<Match>, MatchError> {
    Ok(it.take(cap).collect())
}

pub trait Srch {
    fn find(&self, i: Input<'_>) -> Result<Option<Match>, MatchError>;
    fn iter(&self, i: Input<'_>) -> Result<Vec<Match>, MatchError>;
    fn ovl(
        &self,
        i: &Input<'_>,
        st: &mut OverlappingState,
    ) -> Result<(), MatchError>;
    fn ovl_iter(&self, i: Input<'_>) -> Result<Vec<Match>, MatchError>;
    fn replace_bytes(
        &self,
        hay: &[u8],
        repl: &[Vec<u8>],
    ) -> Result<Vec<u8>, MatchError>;
    fn replace_with_bytes(
        &self,
        hay: &[u8],
        f: &mut dyn FnMut(&Match, &[u8], &mut Vec<u8>) -> bool,
    ) -> Result<Vec<u8>, MatchError>;
    fn replace_str(
        &self,
        hay: &str,
        repl: &[String],
    ) -> Result<String, MatchError>;
    fn replace_with_str(
        &self,
        hay: &str,
        f: &mut dyn FnMut(&Match, &str, &mut String) -> bool,
    ) -> Result<String, MatchError>;
    fn stream_find(
        &self,
        rdr: &mut SchedReader,
    ) -> Result<Vec<Result<Match, ()>>, MatchError>;
    fn stream_replace(
        &self,
        rdr: &mut SchedReader,
        wtr: &mut LimitWriter,
        repl: &[Vec<u8>],
    ) -> std::io::Result<()>;
    fn stream_replace_with(
        &self,
        rdr: &mut SchedReader,
        wtr: &mut LimitWriter,
        f: &mut dyn FnMut(&Match, &[u8], &mut LimitWriter) -> std::io::Result<()>,
    ) -> std::io::Result<()>;
    fn meta(&self) -> String;
}

fn plens<F: Fn(usize) -> usize>(n: usize, f: F) -> String {
    if n == 0 {
        return ".".into();
    }
    (0..n).map(|i| f(i).to_string()).collect::<Vec<_>>().join(",")
}

fn mk_name(k: MatchKind) -> &'static str {
    match k {
        MatchKind::Standard => "std",
        MatchKind::LeftmostFirst => "lf",
        MatchKind::LeftmostLongest => "ll",
        _ => "other",
    }
}

pub struct Low<A>(pub A);

impl<A: Automaton> Srch for Low<A> {
    fn find(&self, i: Input<'_>) -> Result<Option<Match>, MatchError> {
        self.0.try_find(&i)
    }
    fn iter(&self, i: Input<'_>) -> Result<Vec<Match>, MatchError> {
        let cap = iter_cap(&i);
        bounded(self.0.try_find_iter(i)?, cap)
    }
    fn ovl(
        &self,
        i: &Input<'_>,
        st: &mut OverlappingState,
    ) -> Result<(), MatchError> {
        self.0.try_find_overlapping(i, st)
    }
    fn ovl_iter(&self, i: Input<'_>) -> Result<Vec<Match>, MatchError> {
        let cap = ovl_cap(&i, self.0.patterns_len());
        bounded(self.0.try_find_overlapping_iter(i)?, cap)
    }
    fn replace_bytes(
        &self,
        hay: &[u8],
        repl: &[Vec<u8>],
    ) -> Result<Vec<u8>, MatchError> {
        self.0.try_replace_all_bytes(hay, repl)
    }
    fn replace_with_bytes(
        &self,
        hay: &[u8],
        f: &mut dyn FnMut(&Match, &[u8], &mut Vec<u8>) -> bool,
    ) -> Result<Vec<u8>, MatchError> {
        let mut dst = dst_bytes();
        self.0.try_replace_all_with_bytes(hay, &mut dst, |m, b, d| f(m, b, d))?;
        Ok(dst)
    }
    fn replace_str(
        &self,
        hay: &str,
        repl: &[String],
    ) -> Result<String, MatchError> {
        self.0.try_replace_all(hay, repl)
    }
    fn replace_with_str(
        &self,
        hay: &str,
        f: &mut dyn FnMut(&Match, &str, &mut String) -> bool,
    ) -> Result<String, MatchError> {
        let mut dst = dst_string();
        self.0.try_replace_all_with(hay, &mut dst, |m, b, d| f(m, b, d))?;
        Ok(dst)
    }
    fn stream_find(
        &self,
        rdr: &mut SchedReader,
    ) -> Result<Vec<Result<Match, ()>>, MatchError> {
        let it = self.0.try_stream_find_iter(rdr)?;
        let mut out = vec![];
        for item in it {
            if out.len() > STREAM_ITEM_CAP.with(|c| c.get()) {
                break; // runaway iterator: more items than the stream has bytes
            }
            match item {
                Ok(m) => out.push(Ok(m)),
                Err(_) => {
                    out.push(Err(()));
                    // `resume=1`: the caller keeps pulling after the error item (a transient fault)
                    if !STREAM_RESUME.with(|c| c.get()) {
                        break;
                    }
                }
            }
        }
        Ok(out)
    }
    fn stream_replace(
        &self,
        rdr: &mut SchedReader,
        wtr: &mut LimitWriter,
        repl: &[Vec<u8>],
    ) -> std::io::Result<()> {
        self.0.try_stream_replace_all(rdr, wtr, repl)
    }
    fn stream_replace_with(
        &self,
        rdr: &mut SchedReader,
        wtr: &mut LimitWriter,
        f: &mut dyn FnMut(&Match, &[u8], &mut LimitWriter) -> std::io::Result<()>,
    ) -> std::io::Result<()> {
        self.0.try_stream_replace_all_with(rdr, wtr, |m, b, w| f(m, b, w))
    }
    fn meta(&self) -> String {
        let a = &self.0;
        let n = a.patterns_len();
        format!(
            "n={} min={} max={} mk={} plens={} pre={}",
            n,
            a.min_pattern_len(),
            a.max_pattern_len(),
            mk_name(a.match_kind()),
            plens(n, |i| a.pattern_len(aho_corasick::PatternID::must(i))),
            if a.prefilter().is_some() { 1 } else { 0 },
        )
    }
}

impl Srch for AhoCorasick {
    fn find(&self, i: Input<'_>) -> Result<Option<Match>, MatchError> {
        self.try_find(i)
    }
    fn iter(&self, i: Input<'_>) -> Result<Vec<Match>, MatchError> {
        let cap = iter_cap(&i);
        bounded(self.try_find_iter(i)?, cap)
    }
    fn ovl(
        &self,
        i: &Input<'_>,
        st: &mut OverlappingState,
    ) -> Result<(), MatchError> {
        self.try_find_overlapping(i.clone(), st)
    }
    fn ovl_iter(&self, i: Input<'_>) -> Result<Vec<Match>, MatchError> {
        let cap = ovl_cap(&i, self.patterns_len());
        bounded(self.try_find_overlapping_iter(i)?, cap)
    }
    fn replace_bytes(
        &self,
        hay: &[u8],
        repl: &[Vec<u8>],
    ) -> Result<Vec<u8>, MatchError> {
        self.try_replace_all_bytes(hay, repl)
    }
    fn replace_with_bytes(
        &self,
        hay: &[u8],
        f: &mut dyn FnMut(&Match, &[u8], &mut Vec<u8>) -> bool,
    ) -> Result<Vec<u8>, MatchError> {
        let mut dst = dst_bytes();
        self.try_replace_all_with_bytes(hay, &mut dst, |m, b, d| f(m, b, d))?;
        Ok(dst)
    }
    fn replace_str(
        &self,
        hay: &str,
        repl: &[String],
    ) -> Result<String, MatchError> {
        self.try_replace_all(hay, repl)
    }
    fn replace_with_str(
        &self,
        hay: &str,
        f: &mut dyn FnMut(&Match, &str, &mut String) -> bool,
    ) -> Result<String, MatchError> {
        let mut dst = dst_string();
        self.try_replace_all_with(hay, &mut dst, |m, b, d| f(m, b, d))?;
        Ok(dst)
    }
    fn stream_find(
        &self,
        rdr: &mut SchedReader,
    ) -> Result<Vec<Result<Match, ()>>, MatchError> {
        let it = self.try_stream_find_iter(rdr)?;
        let mut out = vec![];
        for item in it {
            if out.len() > STREAM_ITEM_CAP.with(|c| c.get()) {
                break; // runaway iterator: more items than the stream has bytes
            }
            match item {
                Ok(m) => out.push(Ok(m)),
                Err(_) => {
                    out.push(Err(()));
                    // `resume=1`: the caller keeps pulling after the error item (a transient fault)
                    if !STREAM_RESUME.with(|c| c.get()) {
                        break;
                    }
                }
            }
        }
        Ok(out)
    }
    fn stream_replace(
        &self,
        rdr: &mut SchedReader,
        wtr: &mut LimitWriter,
        repl: &[Vec<u8>],
    ) -> std::io::Result<()> {
        self.try_stream_replace_all(rdr, wtr, repl)
    }
    fn stream_replace_with(
        &self,
        rdr: &mut SchedReader,
        wtr: &mut LimitWriter,
        f: &mut dyn FnMut(&Match, &[u8], &mut LimitWriter) -> std::io::Result<()>,
    ) -> std::io::Result<()> {
        self.try_stream_replace_all_with(rdr, wtr, |m, b, w| f(m, b, w))
    }
    fn meta(&self) -> String {
        let n = self.patterns_len();
        format!(
            "n={} min={} max={} mk={} sk={} kind={}",
            n,
            self.min_pattern_len(),
            self.max_pattern_len(),
            mk_name(self.match_kind()),
            match self.start_kind() {
                StartKind::Unanchored => "u",
                StartKind::Anchored => "a",
                StartKind::Both => "b",
            },
            match self.kind() {
                AhoCorasickKind::NoncontiguousNFA => "nc",
                AhoCorasickKind::ContiguousNFA => "c",
                AhoCorasickKind::DFA => "dfa",
                _ => "other",
            },
        )
    }
}

pub fn with_srch<R>(b: &Built, f: &mut dyn FnMut(&dyn Srch) -> R) -> R {
    match b {
        Built::Nc(a) => f(&Low(a)),
        Built::C(a) => f(&Low(a)),
        Built::Dfa(a) => f(&Low(a)),
        Built::Top(a) => f(a),
    }
}

pub fn mk_input<'h>(r: &Req, hay: &'h [u8]) -> Result<Input<'h>, String> {
    let s = r.n_or("s", 0);
    let e = r.n_or("e", hay.len());
    if !(e <= hay.len() && s <= e + 1) {
        return Err(format!("bad span {}..{}", s, e));
    }
    Ok(Input::new(hay)
        .span(s..e)
        .anchored(if r.b("anch") { Anchored::Yes } else { Anchored::No })
        .earliest(r.b("earliest")))
}

fn res_list(r: Result<Vec<Match>, MatchError>) -> String {
    match r {
        Err(e) => err_name(&e),
        Ok(v) => fmt_list(&v.iter().map(fmt_match).collect::<Vec<_>>()),
    }
}

/// Execute one op on one built searcher.
pub fn run_op(r: &Req, b: &Built) -> Result<String, String> {
    let op = r.op.as_str();
    match op {
        "find" => {
            let hay = r.bytes("hay")?;
            let input = mk_input(r, &hay)?;
            Ok(with_srch(b, &mut |s| match s.find(input.clone()) {
                Err(e) => err_name(&e),
                Ok(m) => fmt_opt(&m),
            }))
        }
        "ismatch" => {
            let hay = r.bytes("hay")?;
            let input = mk_input(r, &hay)?;
            Ok(match b {
                Built::Top(ac) => format!("{}", ac.is_match(input.clone())),
                _ => with_srch(b, &mut |s| {
                    match s.find(input.clone().earliest(true)) {
                        Err(e) => err_name(&e),
                        Ok(m) => format!("{}", m.is_some()),
                    }
                }),
            })
        }
        "iter" => {
            let hay = r.bytes("hay")?;
            let input = mk_input(r, &hay)?;
            Ok(with_srch(b, &mut |s| res_list(s.iter(input.clone()))))
        }
        "ovliter" => {
            let hay = r.bytes("hay")?;
            let input = mk_input(r, &hay)?;
            Ok(with_srch(b, &mut |s| res_list(s.ovl_iter(input.clone()))))
        }
        "ovl" => {
            let hay = r.bytes("hay")?;
            let input = mk_input(r, &hay)?;
            let n = r.n("n")?;
            Ok(with_srch(b, &mut |s| {
                let mut st = OverlappingState::start();
                let mut out = vec![];
                for _ in 0..n {
                    match s.ovl(&input, &mut st) {
                        Err(e) => {
                            out.push(err_name(&e));
                            break;
                        }
                        Ok(()) => out.push(match st.get_match() {
                            None => "-".to_string(),
                            Some(m) => fmt_match(&m),
                        }),
                    }
                }
                fmt_list(&out)
            }))
        }
        "replace" => {
            // variant: bytes | withbytes | str | withstr ; repl list;
            // stop = index of the match at which the closure returns false
            let hay = r.bytes("hay")?;
            let repl = r.list("repl")?;
            let variant = r.s_or("variant", "bytes");
            let stop = r.kv.get("stop").and_then(|x| x.parse::<usize>().ok());
            let dstpre = if r.kv.contains_key("dstpre") { r.bytes("dstpre")? } else { vec![] };
            DST_PRE.with(|d| *d.borrow_mut() = (dstpre, r.n_or("dstcap", 0)));
            let out = with_srch(b, &mut |s| match variant {
                "bytes" => match s.replace_bytes(&hay, &repl) {
                    Err(e) => err_name(&e),
                    Ok(o) => hex(&o),
                },
                "withbytes" => {
                    let mut k = 0usize;
                    let mut log = vec![];
                    let res = s.replace_with_bytes(
                        &hay,
                        &mut |m: &Match, bs: &[u8], dst: &mut Vec<u8>| {
                            log.push(format!("{}/{}", fmt_match(m), hex(bs)));
                            dst.extend_from_slice(
                                &repl[m.pattern().as_usize() % repl.len().max(1)],
                            );
                            let go = Some(k) != stop;
                            k += 1;
                            go
                        },
                    );
                    match res {
                        Err(e) => err_name(&e),
                        Ok(o) => match strip_pre(&o) {
                            Ok(o) => format!("{} {}", hex(&o), fmt_list(&log)),
                            Err(e) => e,
                        },
                    }
                }
                "str" => {
                    let h = match std::str::from_utf8(&hay) {
                        Ok(h) => h,
                        Err(_) => return "bad-utf8".to_string(),
                    };
                    let rs: Vec<String> = repl
                        .iter()
                        .map(|x| String::from_utf8_lossy(x).to_string())
                        .collect();
                    match s.replace_str(h, &rs) {
                        Err(e) => err_name(&e),
                        Ok(o) => {
                            // String is always valid UTF-8 by type; re-check
                            // to observe rather than assume.
                            let ok = std::str::from_utf8(o.as_bytes()).is_ok();
                            format!("{} utf8={}", hex(o.as_bytes()), ok as u8)
                        }
                    }
                }
                "withstr" => {
                    let h = match std::str::from_utf8(&hay) {
                        Ok(h) => h,
                        Err(_) => return "bad-utf8".to_string(),
                    };
                    let rs: Vec<String> = repl
                        .iter()
                        .map(|x| String::from_utf8_lossy(x).to_string())
                        .collect();
                    let mut k = 0usize;
                    let mut log = vec![];
                    let res = s.replace_with_str(
                        h,
                        &mut |m: &Match, bs: &str, dst: &mut String| {
                            log.push(format!(
                                "{}/{}",
                                fmt_match(m),
                                hex(bs.as_bytes())
                            ));
                            dst.push_str(
                                &rs[m.pattern().as_usize() % rs.len().max(1)],
                            );
                            let go = Some(k) != stop;
                            k += 1;
                            go
                        },
                    );
                    match res {
                        Err(e) => err_name(&e),
                        Ok(o) => match strip_pre(o.as_bytes()) {
                            Ok(ob) => format!(
                                "{} utf8={} {}",
                                hex(&ob),
                                std::str::from_utf8(o.as_bytes()).is_ok() as u8,
                                fmt_list(&log)
                            ),
                            Err(e) => e,
                        },
                    }
                }
                _ => "bad-variant".to_string(),
            });
            DST_PRE.with(|d| *d.borrow_mut() = (vec![], 0));
            Ok(out)
        }
        "stream" | "streamrep" | "streamrepwith" => {
            let data = r.bytes("hay")?;
            let sched = r.nums("sched")?;
            let spare = r.kv.get("spare").and_then(|x| x.parse::<usize>().ok());
            let rfail = r.kv.get("rfail").and_then(|x| x.parse::<usize>().ok());
            let wlimit = r.kv.get("wlimit").and_then(|x| x.parse::<usize>().ok());
            let repl = if op == "stream" { vec![] } else { r.list("repl")? };
            aho_corasick::verif::set_stream_spare(spare);
            STREAM_ITEM_CAP.with(|c| c.set(data.len() + 3));
            STREAM_RESUME.with(|c| c.set(op == "stream" && r.kv.get("resume").map(|x| x == "1").unwrap_or(false)));
            let mut rdr = SchedReader {
                data,
                pos: 0,
                sched,
                calls: 0,
                fail_at: rfail,
                empty_buf_calls: 0,
                fail_kind: match r.s_or("rkind", "other") {
                    "interrupted" => std::io::ErrorKind::Interrupted,
                    "wouldblock" => std::io::ErrorKind::WouldBlock,
                    "eof" => std::io::ErrorKind::UnexpectedEof,
                    _ => std::io::ErrorKind::Other,
                },
            };
            let mut wtr = LimitWriter { out: vec![], limit: wlimit };
            let out = with_srch(b, &mut |s| match op {
                "stream" => match s.stream_find(&mut rdr) {
                    Err(e) => err_name(&e),
                    Ok(v) => fmt_list(
                        &v.iter()
                            .map(|x| match x {
                                Ok(m) => fmt_match(m),
                                Err(()) => "io-err".to_string(),
                            })
                            .collect::<Vec<_>>(),
                    ),
                },
                "streamrep" => {
                    let res = s.stream_replace(&mut rdr, &mut wtr, &repl);
                    match io_class(&res) {
                        Some(e) => e,
                        None => format!(
                            "{} {}",
                            hex(&wtr.out),
                            if res.is_ok() { "ok" } else { "io-err" }
                        ),
                    }
                }
                _ => {
                    let mut log = vec![];
                    let res = s.stream_replace_with(
                        &mut rdr,
                        &mut wtr,
                        &mut |m: &Match, bs: &[u8], w: &mut LimitWriter| {
                            log.push(format!("{}/{}", fmt_match(m), hex(bs)));
                            w.write_all(
                                &repl[m.pattern().as_usize() % repl.len().max(1)],
                            )
                        },
                    );
                    match io_class(&res) {
                        Some(e) => e,
                        None => format!(
                            "{} {} {}",
                            hex(&wtr.out),
                            if res.is_ok() { "ok" } else { "io-err" },
                            fmt_list(&log)
                        ),
                    }
                }
            });
            aho_corasick::verif::set_stream_spare(None);
            // A read on a zero-length buffer would be indistinguishable from
            // EOF; the model proves it never happens, the harness observes it.
            Ok(format!("{} emptyreads={}", out, rdr.empty_buf_calls))
        }
        "streamself" => {
            let data = r.bytes("hay")?;
            let sched = r.nums("sched")?;
            let repl = if r.kv.contains_key("repl") { r.list("repl")? } else { vec![] };
            aho_corasick::verif::set_stream_spare(None);
            STREAM_ITEM_CAP.with(|c| c.set(data.len() + 3));
            let mk = |data: &Vec<u8>| SchedReader {
                data: data.clone(),
                pos: 0,
                sched: sched.clone(),
                calls: 0,
                fail_at: None,
                empty_buf_calls: 0,
                fail_kind: std::io::ErrorKind::Other,
            };
            Ok(with_srch(b, &mut |s| {
                let mut rdr = mk(&data);
                let st = match s.stream_find(&mut rdr) {
                    Err(e) => return err_name(&e),
                    Ok(v) => v
                        .iter()
                        .map(|x| match x {
                            Ok(m) => fmt_match(m),
                            Err(()) => "io-err".to_string(),
                        })
                        .collect::<Vec<_>>(),
                };
                let mem = match s.iter(Input::new(&data)) {
                    Err(e) => return err_name(&e),
                    Ok(v) => v.iter().map(fmt_match).collect::<Vec<_>>(),
                };
                if st != mem {
                    let k = st.iter().zip(mem.iter()).take_while(|(a, b)| a == b).count();
                    return format!(
                        "diff find stream_n={} mem_n={} first_diff_index={} stream={} mem={}",
                        st.len(),
                        mem.len(),
                        k,
                        st.get(k).cloned().unwrap_or("-".into()),
                        mem.get(k).cloned().unwrap_or("-".into())
                    );
                }
                if !repl.is_empty() {
                    let mut rdr = mk(&data);
                    let mut wtr = LimitWriter { out: vec![], limit: None };
                    let res = s.stream_replace(&mut rdr, &mut wtr, &repl);
                    if let Some(e) = io_class(&res) {
                        return e;
                    }
                    let memr = match s.replace_bytes(&data, &repl) {
                        Ok(v) => v,
                        Err(e) => return err_name(&e),
                    };
                    if !res.is_ok() || wtr.out != memr {
                        let k = wtr.out.iter().zip(memr.iter()).take_while(|(a, b)| a == b).count();
                        return format!(
                            "diff replace ok={} stream_len={} mem_len={} first_diff_offset={}",
                            res.is_ok() as u8,
                            wtr.out.len(),
                            memr.len(),
                            k
                        );
                    }
                }
                "same".to_string()
            }))
        }
        "memusage" => Ok(match b {
            // (only without a prefilter: the prefilter's own memory is not part of the modelled sizes)
            Built::Nc(a) if a.prefilter().is_none() => format!("mem={}", a.memory_usage()),
            Built::C(a) if a.prefilter().is_none() => format!("mem={}", a.memory_usage()),
            Built::Dfa(a) if a.prefilter().is_none() => format!("mem={}", a.memory_usage()),
            _ => "n/a".to_string(),
        }),
        "meta" => Ok(with_srch(b, &mut |s| s.meta())),
        "threads" => crate::exec::threads(r, b),
        "selfcheck" => {
            // C20 (exploration half): after a build that did not panic, every sampled
            // pattern embedded in a haystack is found as a genuine occurrence with a
            // valid id, and the searcher's pattern count mirrors the input.
            let pats = r.list("pats")?;
            let mk = match_kind(r)?;
            let n = pats.len();
            let step = (n / 25).max(1);
            Ok(with_srch(b, &mut |s| {
                let mut i = 0;
                while i < n {
                    let p = &pats[i];
                    // two embeddings: between zero bytes, and after a partial occurrence broken by 0xFF (the search
                    // must recover from a non-start state on the highest byte value)
                    let mut hay1 = vec![0u8];
                    hay1.extend_from_slice(p);
                    hay1.push(0);
                    let mut hay2 = p[..p.len().saturating_sub(1)].to_vec();
                    hay2.push(0xFF);
                    let at2 = hay2.len();
                    hay2.extend_from_slice(p);
                    hay2.push(0xFF);
                    // every copy of the pattern (identical, or equal under case folding) must be reported with its own
                    // id by the overlapping enumeration (standard semantics only)
                    if matches!(mk, MatchKind::Standard) && !p.is_empty() {
                        let fold = r.b("fold");
                        let eq = |a: &[u8], b: &[u8]| {
                            a.len() == b.len()
                                && a.iter().zip(b).all(|(x, y)| {
                                    if fold { x.to_ascii_lowercase() == y.to_ascii_lowercase() } else { x == y }
                                })
                        };
                        if let Ok(ms) = s.ovl_iter(Input::new(&hay1)) {
                            for (j, q) in pats.iter().enumerate() {
                                if eq(q, p)
                                    && !ms.iter().any(|m| {
                                        m.pattern().as_usize() == j && m.start() == 1 && m.end() == 1 + p.len()
                                    })
                                {
                                    return format!("bad:copy-{}-of-{}-not-reported", j, i);
                                }
                            }
                        }
                    }
                    for (hay, at) in [(hay1, 1usize), (hay2, at2)] {
                    let mut res = s.find(Input::new(&hay));
                    if matches!(&res, Err(e) if err_name(e) == "err-unanchored") {
                        // anchored-only searcher: anchor at the embedded pattern
                        res = s.find(
                            Input::new(&hay)
                                .span(at..hay.len())
                                .anchored(Anchored::Yes),
                        );
                    }
                    match res {
                        Err(e) => return err_name(&e),
                        Ok(None) => return format!("bad:none-for-{}", i),
                        Ok(Some(m)) => {
                            let pid = m.pattern().as_usize();
                            let fold = r.b("fold");
                            let same = |a: &[u8], b: &[u8]| {
                                a.len() == b.len()
                                    && a.iter().zip(b).all(|(x, y)| {
                                        if fold {
                                            x.to_ascii_lowercase()
                                                == y.to_ascii_lowercase()
                                        } else {
                                            x == y
                                        }
                                    })
                            };
                            if pid >= n
                                || m.end() > hay.len()
                                || !same(&hay[m.start()..m.end()], &pats[pid][..])
                            {
                                return format!("bad:wrong-match-for-{}", i);
                            }
                            let _ = mk;
                        }
                    }
                    }
                    i += step;
                }
                "ok".to_string()
            }))
        }
        "cost" => {
            let hay = r.bytes("hay")?;
            let input = mk_input(r, &hay)?;
            let which = r.s_or("api", "find");
            if which == "stream" {
                // a whole stream search: matches and the number of automaton transitions
                let sched = r.nums("sched")?;
                let spare = r.kv.get("spare").and_then(|x| x.parse::<usize>().ok());
                aho_corasick::verif::set_stream_spare(spare);
                STREAM_ITEM_CAP.with(|c| c.set(hay.len() + 3));
                let out = with_srch(b, &mut |s| {
                    let mut rdr = SchedReader {
                        data: hay.clone(),
                        pos: 0,
                        sched: sched.clone(),
                        calls: 0,
                        fail_at: None,
                        empty_buf_calls: 0,
                        fail_kind: std::io::ErrorKind::Other,
                    };
                    aho_corasick::verif::reset_counters();
                    match s.stream_find(&mut rdr) {
                        Err(e) => format!("{} t=0", err_name(&e)),
                        Ok(v) => format!(
                            "{} t={}",
                            fmt_list(
                                &v.iter()
                                    .map(|x| match x {
                                        Ok(m) => fmt_match(m),
                                        Err(()) => "io-err".to_string(),
                                    })
                                    .collect::<Vec<_>>()
                            ),
                            aho_corasick::verif::counters().0
                        ),
                    }
                });
                aho_corasick::verif::set_stream_spare(None);
                return Ok(out);
            }
            Ok(with_srch(b, &mut |s| {
                aho_corasick::verif::reset_counters();
                let res = match which {
                    "find" => match s.find(input.clone()) {
                        Err(e) => err_name(&e),
                        Ok(m) => fmt_opt(&m),
                    },
                    _ => {
                        // one overlapping call sequence: per-call counters
                        let n = r.n_or("n", 1);
                        let mut st = OverlappingState::start();
                        let mut outs = vec![];
                        for _ in 0..n {
                            aho_corasick::verif::reset_counters();
                            match s.ovl(&input, &mut st) {
                                Err(e) => {
                                    outs.push(err_name(&e));
                                    break;
                                }
                                Ok(()) => {
                                    let (t, f) = aho_corasick::verif::counters();
                                    outs.push(format!("{}/{}/{}", t, f, aho_corasick::verif::prescan()));
                                }
                            }
                        }
                        return fmt_list(&outs);
                    }
                };
                let (t, f) = aho_corasick::verif::counters();
                format!("{} t={} f={} p={}", res, t, f, aho_corasick::verif::prescan())
            }))
        }
        "cert" => match b {
            Built::Nc(a) => crate::dump::dump(a),
            Built::C(a) => crate::dump::dump(a),
            Built::Dfa(a) => crate::dump::dump(a),
            Built::Top(_) => Err("cert needs a low-level automaton".into()),
        },
        "recipe" => {
            let hay = r.bytes("hay")?;
            Ok(match b {
                Built::Nc(a) => crate::dump::recipe(a, &hay),
                Built::C(a) => crate::dump::recipe(a, &hay),
                Built::Dfa(a) => crate::dump::recipe(a, &hay),
                Built::Top(_) => "n/a".into(),
            })
        }
        "pre" => {
            let hay = r.bytes("hay")?;
            let s = r.n_or("s", 0);
            let e = r.n_or("e", hay.len());
            let f = |p: Option<&aho_corasick::automaton::Prefilter>| -> String {
                match p {
                    None => "nopre".to_string(),
                    Some(p) => {
                        let c = p.find_in(
                            &hay,
                            aho_corasick::Span { start: s, end: e },
                        );
                        let dbg = format!("{:?}", p);
                        let variant = prefilter_variant(&dbg);
                        format!("{} {}", variant, fmt_candidate(&c))
                    }
                }
            };
            Ok(match b {
                Built::Nc(a) => f(a.prefilter()),
                Built::C(a) => f(a.prefilter()),
                Built::Dfa(a) => f(a.prefilter()),
                Built::Top(_) => "n/a".into(),
            })
        }
        "gate" => Ok(crate::exec::gate(r, b)?),
        _ => Err(format!("unknown op {}", op)),
    }
}

pub fn fmt_candidate(c: &aho_corasick::automaton::Candidate) -> String {
    use aho_corasick::automaton::Candidate;
    match c {
        Candidate::None => "cnone".into(),
        Candidate::Match(m) => format!("cmatch:{}", fmt_match(m)),
        Candidate::PossibleStartOfMatch(i) => format!("cpos:{}", i),
    }
}

pub fn prefilter_variant(dbg: &str) -> &'static str {
    // The Debug output names the concrete prefilter type.
    for (needle, name) in [
        ("Memmem", "memmem"),
        ("StartBytesOne", "start1"),
        ("StartBytesTwo", "start2"),
        ("StartBytesThree", "start3"),
        ("RareBytesOne", "rare1"),
        ("RareBytesTwo", "rare2"),
        ("RareBytesThree", "rare3"),
        ("Packed", "packed"),
    ] {
        if dbg.contains(needle) {
            return name;
        }
    }
    "unknown"
}

/// C13: classify the outcome of one public API call: ok / err-* / panic.
pub fn gate(r: &Req, b: &Built) -> Result<String, String> {
    let api = r.s("api")?.to_string();
    let hay = r.bytes("hay")?;
    let input = mk_input(r, &hay)?;
    let repl: Vec<Vec<u8>> = {
        let n = r.list("pats")?.len();
        (0..n).map(|_| b"x".to_vec()).collect()
    };
    let repls: Vec<String> = repl.iter().map(|_| "x".to_string()).collect();
    let hs = String::from_utf8_lossy(&hay).to_string();
    let cls = |e: Result<(), MatchError>| match e {
        Ok(()) => "ok".to_string(),
        Err(e) => err_name(&e),
    };
    let clsio = |e: std::io::Result<()>| match io_class(&e) {
        Some(n) => n,
        None => {
            if e.is_ok() {
                "ok".to_string()
            } else {
                "io-err".to_string()
            }
        }
    };
    let res = catch_unwind(AssertUnwindSafe(|| -> String {
        match b {
            Built::Top(ac) => match api.as_str() {
                "is_match" => {
                    ac.is_match(input.clone());
                    "ok".into()
                }
                "find" => {
                    ac.find(input.clone());
                    "ok".into()
                }
                "find_overlapping" => {
                    let mut st = OverlappingState::start();
                    ac.find_overlapping(input.clone(), &mut st);
                    "ok".into()
                }
                "find_iter" => {
                    ac.find_iter(input.clone()).count();
                    "ok".into()
                }
                "find_overlapping_iter" => {
                    ac.find_overlapping_iter(input.clone()).count();
                    "ok".into()
                }
                "replace_all" => {
                    ac.replace_all(&hs, &repls);
                    "ok".into()
                }
                "replace_all_bytes" => {
                    ac.replace_all_bytes(&hay, &repl);
                    "ok".into()
                }
                "replace_all_with" => {
                    let mut d = String::new();
                    ac.replace_all_with(&hs, &mut d, |_, _, _| true);
                    "ok".into()
                }
                "replace_all_with_bytes" => {
                    let mut d = vec![];
                    ac.replace_all_with_bytes(&hay, &mut d, |_, _, _| true);
                    "ok".into()
                }
                "stream_find_iter" => {
                    ac.stream_find_iter(&hay[..]).count();
                    "ok".into()
                }
                "try_find" => cls(ac.try_find(input.clone()).map(|_| ())),
                "try_find_overlapping" => {
                    let mut st = OverlappingState::start();
                    cls(ac.try_find_overlapping(input.clone(), &mut st))
                }
                "try_find_iter" => {
                    cls(ac.try_find_iter(input.clone()).map(|it| {
                        it.count();
                    }))
                }
                "try_find_overlapping_iter" => cls(ac
                    .try_find_overlapping_iter(input.clone())
                    .map(|it| {
                        it.count();
                    })),
                "try_replace_all" => {
                    cls(ac.try_replace_all(&hs, &repls).map(|_| ()))
                }
                "try_replace_all_bytes" => {
                    cls(ac.try_replace_all_bytes(&hay, &repl).map(|_| ()))
                }
                "try_replace_all_with" => {
                    let mut d = String::new();
                    cls(ac.try_replace_all_with(&hs, &mut d, |_, _, _| true))
                }
                "try_replace_all_with_bytes" => {
                    let mut d = vec![];
                    cls(ac.try_replace_all_with_bytes(&hay, &mut d, |_, _, _| {
                        true
                    }))
                }
                "try_stream_find_iter" => {
                    cls(ac.try_stream_find_iter(&hay[..]).map(|it| {
                        it.count();
                    }))
                }
                "try_stream_replace_all" => {
                    let mut w = vec![];
                    clsio(ac.try_stream_replace_all(&hay[..], &mut w, &repl))
                }
                "try_stream_replace_all_with" => {
                    let mut w = vec![];
                    clsio(ac.try_stream_replace_all_with(
                        &hay[..],
                        &mut w,
                        |_, _, _| Ok(()),
                    ))
                }
                _ => "bad-api".into(),
            },
            _ => with_srch(b, &mut |s| match api.as_str() {
                "try_find" => cls(s.find(input.clone()).map(|_| ())),
                "try_find_overlapping" => {
                    let mut st = OverlappingState::start();
                    cls(s.ovl(&input, &mut st))
                }
                "try_find_iter" => cls(s.iter(input.clone()).map(|_| ())),
                "try_find_overlapping_iter" => {
                    cls(s.ovl_iter(input.clone()).map(|_| ()))
                }
                "try_replace_all_bytes" => {
                    cls(s.replace_bytes(&hay, &repl).map(|_| ()))
                }
                "try_replace_all" => {
                    cls(s.replace_str(&hs, &repls).map(|_| ()))
                }
                "try_stream_find_iter" => {
                    let mut rdr = SchedReader {
                        data: hay.clone(),
                        pos: 0,
                        sched: vec![],
                        calls: 0,
                        fail_at: None,
                        empty_buf_calls: 0,
                        fail_kind: std::io::ErrorKind::Other,
                    };
                    cls(s.stream_find(&mut rdr).map(|_| ()))
                }
                "try_stream_replace_all" => {
                    let mut rdr = SchedReader {
                        data: hay.clone(),
                        pos: 0,
                        sched: vec![],
                        calls: 0,
                        fail_at: None,
                        empty_buf_calls: 0,
                        fail_kind: std::io::ErrorKind::Other,
                    };
                    let mut w = LimitWriter { out: vec![], limit: None };
                    clsio(s.stream_replace(&mut rdr, &mut w, &repl))
                }
                _ => "n/a".into(),
            }),
        }
    }));
    Ok(res.unwrap_or_else(|_| "panic".to_string()))
}

pub fn run(r: &Req) -> Vec<(String, String)> {
    // (per-request state of the harness itself must never leak into the next request)
    STREAM_ITEM_CAP.with(|c| c.set(usize::MAX));
    STREAM_RESUME.with(|c| c.set(false));
    // `topfind` / `topiter` / `topismatch` / `topovl`: the same real methods, compared with the capstone model
    let stripped;
    let r = if matches!(
        r.op.as_str(),
        "topfind" | "topiter" | "topismatch" | "topovl" | "topstream" | "topstreamrep" | "topstreamrepwith"
    ) {
        let mut r2 = r.clone();
        r2.op = r.op[3..].to_string();
        stripped = r2;
        &stripped
    } else {
        r
    };
    let cfgs = match cfgs_of(r) {
        Ok(c) => c,
        Err(e) => return vec![("-".into(), format!("bad-request:{}", e))],
    };
    if r.op == "packed" {
        return crate::exec::run_packed(r);
    }
    if r.op == "cpu" {
        #[cfg(target_arch = "x86_64")]
        let s = format!(
            "avx2={} ssse3={}",
            std::is_x86_feature_detected!("avx2") as u8,
            std::is_x86_feature_detected!("ssse3") as u8
        );
        #[cfg(not(target_arch = "x86_64"))]
        let s = "avx2=0 ssse3=0".to_string();
        return vec![("-".into(), s)];
    }
    if r.op == "rawnnfa" {
        // Tie for L1cMemCompile: the raw vectors of the real noncontiguous NFA just before `shuffle` (hook H5)
        let res = (|| -> Result<String, String> {
            let pats = r.list("pats")?;
            let mk = match_kind(r)?;
            aho_corasick::verif::enable_preshuffle(true);
            let built = aho_corasick::nfa::noncontiguous::Builder::new()
                .match_kind(mk)
                .ascii_case_insensitive(r.b("fold"))
                .prefilter(false)
                .build(&pats);
            aho_corasick::verif::enable_preshuffle(false);
            let raw = aho_corasick::verif::take_preshuffle();
            match (built, raw) {
                (Ok(_), Some(s)) => Ok(s),
                (Err(e), _) => Ok(format!("build-error:{}", e)),
                (Ok(_), None) => Ok("no-record".to_string()),
            }
        })();
        return vec![("-".into(), res.unwrap_or_else(|e| format!("bad-request:{}", e)))];
    }
    if r.op == "bufcap" {
        // Tie C by observation: the (min, capacity) of the roll buffer the real code creates
        aho_corasick::verif::set_stream_spare(None);
        let res = match r.nums("mins") {
            Err(e) => format!("bad-request:{}", e),
            Ok(mins) => format!(
                "caps={}",
                mins.iter()
                    .map(|&m| {
                        let (mn, cap) = aho_corasick::verif::stream_buffer_capacity(m);
                        format!("{}/{}", mn, cap)
                    })
                    .collect::<Vec<_>>()
                    .join(",")
            ),
        };
        return vec![("-".into(), res)];
    }
    // `streamself`: stream search / replacement against the in-memory search of the same real
    // searcher, with an optional synthetic long pattern (`big=N`: N bytes 'q'; the token `B` in
    // `parts` stands for it) that is too long for the line protocol and the model
    let expanded;
    let r = if r.op == "streamself" {
        let mut r2 = r.clone();
        let big = vec![b'q'; r.n_or("big", 0)];
        let mut pats = r.s_or("pats", ".").to_string();
        if !big.is_empty() {
            pats = if pats == "." { hex(&big) } else { format!("{},{}", pats, hex(&big)) };
        }
        let mut hay = vec![];
        for part in r.s_or("parts", "_").split(',') {
            if part == "B" {
                hay.extend_from_slice(&big);
            } else {
                match crate::req::unhex(part) {
                    Ok(b) => hay.extend_from_slice(&b),
                    Err(e) => return vec![("-".into(), format!("bad-request:{}", e))],
                }
            }
        }
        r2.kv.insert("pats".into(), pats);
        r2.kv.insert("hay".into(), hex(&hay));
        expanded = r2;
        &expanded
    } else {
        r
    };
    let mut out = vec![];
    for c in cfgs {
        let res = catch_unwind(AssertUnwindSafe(|| -> String {
            let b = match build(r, &c) {
                Ok(b) => b,
                Err(e) => return e,
            };
            match run_op(r, &b) {
                Ok(s) => s,
                Err(e) => format!("bad-request:{}", e),
            }
        }));
        out.push((c.name.clone(), res.unwrap_or_else(|_| "panic".to_string())));
    }
    out
}

// ---------------------------------------------------------------------
// packed searcher ops: pcfg=<variant list>; variants:
//   rk | teddy | slim128 | slim256 | fat | default
pub fn build_packed(
    r: &Req,
    variant: &str,
) -> Result<Option<aho_corasick::packed::Searcher>, String> {
    use aho_corasick::packed::{Config, MatchKind as PK};
    let pats = r.list("pats")?;
    let mk = match r.s_or("mk", "lf") {
        "lf" => PK::LeftmostFirst,
        "ll" => PK::LeftmostLongest,
        x => return Err(format!("packed mk {}", x)),
    };
    let mut c = Config::new();
    c.match_kind(mk);
    // The fine-grained selectors are doc(hidden) but public.
    match variant {
        "default" => {}
        "rk" => {
            c.only_rabin_karp(true);
        }
        "teddy" => {
            c.only_teddy(true);
        }
        "slim128" => {
            c.only_teddy(true).only_teddy_fat(Some(false)).only_teddy_256bit(Some(false));
        }
        "slim256" => {
            c.only_teddy(true).only_teddy_fat(Some(false)).only_teddy_256bit(Some(true));
        }
        "fat" => {
            c.only_teddy(true).only_teddy_fat(Some(true)).only_teddy_256bit(Some(true));
        }
        x => return Err(format!("packed variant {}", x)),
    }
    if r.b("nolimits") {
        c.heuristic_pattern_limits(false);
    }
    let mut b = c.builder();
    b.extend(pats.iter());
    Ok(b.build())
}

pub fn run_packed(r: &Req) -> Vec<(String, String)> {
    let mut out = vec![];
    for variant in r.s_or("pcfg", "default").split(';') {
        let res = catch_unwind(AssertUnwindSafe(|| -> String {
            let s = match build_packed(r, variant) {
                Err(e) => return format!("bad-request:{}", e),
                Ok(None) => return "unavailable".into(),
                Ok(Some(s)) => s,
            };
            let hay = match r.bytes("hay") {
                Ok(h) => h,
                Err(e) => return format!("bad-request:{}", e),
            };
            let st = r.n_or("s", 0);
            let en = r.n_or("e", hay.len());
            if !(st <= en && en <= hay.len()) {
                return "bad-request:span".into();
            }
            match r.s_or("api", "find") {
                "find" => fmt_opt(&s.find_in(
                    &hay,
                    aho_corasick::Span { start: st, end: en },
                )),
                "iter" => {
                    // find_iter searches the whole haystack
                    let v: Vec<String> =
                        s.find_iter(&hay).take(hay.len() + 3).map(|m| fmt_match(&m)).collect();
                    fmt_list(&v)
                }
                "minlen" => format!("{}", s.minimum_len()),
                _ => "bad-api".into(),
            }
        }));
        out.push((
            variant.to_string(),
            res.unwrap_or_else(|_| "panic".to_string()),
        ));
    }
    out
}


// ---------------------------------------------------------------------
// C17: one searcher shared by several threads (and clones of it), every
// thread executing a seeded sequence of mixed operations; every result is
// compared with the result of the same operation executed alone, before and
// after the concurrent phase.
/// operations per haystack in the purity runs: find, iterate, overlapping / earliest, anchored find
const OPS: usize = 4;

fn one_op(s: &dyn Srch, op: usize, hay: &[u8], std: bool) -> String {
    let input = Input::new(hay);
    match op % OPS {
        0 => match s.find(input) {
            Err(e) => err_name(&e),
            Ok(m) => fmt_opt(&m),
        },
        1 => res_list(s.iter(input)),
        3 => {
            // anchored search (an unsupported anchored mode answers with its error, which is a result too)
            match s.find(input.anchored(Anchored::Yes)) {
                Err(e) => err_name(&e),
                Ok(m) => fmt_opt(&m),
            }
        }
        _ => {
            if std {
                let mut st = OverlappingState::start();
                let mut out = vec![];
                // (bounded: a runaway call sequence must not eat memory)
                for _ in 0..(hay.len() + 2) * 64 {
                    match s.ovl(&input, &mut st) {
                        Err(e) => {
                            out.push(err_name(&e));
                            break;
                        }
                        Ok(()) => match st.get_match() {
                            None => break,
                            Some(m) => out.push(fmt_match(&m)),
                        },
                    }
                }
                fmt_list(&out)
            } else {
                match s.find(input.earliest(true)) {
                    Err(e) => err_name(&e),
                    Ok(m) => fmt_opt(&m),
                }
            }
        }
    }
}

pub fn threads(r: &Req, b: &Built) -> Result<String, String> {
    let hays: Vec<Vec<u8>> = r
        .s("hays")?
        .split('|')
        .map(crate::req::unhex)
        .collect::<Result<_, _>>()?;
    let nthreads = r.n_or("threads", 8);
    let reps = r.n_or("reps", 20);
    let seed = r.n_or("seed", 1) as u64;
    let std = matches!(match_kind(r)?, MatchKind::Standard);
    let nops = hays.len() * OPS;
    let run_seq = |s: &dyn Srch| -> Vec<String> {
        (0..nops).map(|k| one_op(s, k, &hays[k / OPS], std)).collect()
    };
    // the concurrent phase is generic over the concrete searcher type
    fn conc<S: Srch + Sync + Clone + Send>(
        s: &S,
        nthreads: usize,
        reps: usize,
        seed: u64,
        hays: &[Vec<u8>],
        std: bool,
        expect: &[String],
    ) -> Option<String> {
        let nops = hays.len() * OPS;
        let barrier = std::sync::Barrier::new(nthreads);
        let bad = std::sync::Mutex::new(None::<String>);
        std::thread::scope(|sc| {
            for t in 0..nthreads {
                let barrier = &barrier;
                let bad = &bad;
                let shared = s;
                sc.spawn(move || {
                    // odd threads work on their own clone
                    let own = shared.clone();
                    let me: &S = if t % 2 == 1 { &own } else { shared };
                    let mut x = seed
                        .wrapping_add(t as u64)
                        .wrapping_mul(0x9E3779B97F4A7C15)
                        | 1;
                    barrier.wait();
                    for _ in 0..reps {
                        for _ in 0..nops {
                            x ^= x << 13;
                            x ^= x >> 7;
                            x ^= x << 17;
                            let k = (x % nops as u64) as usize;
                            let got = one_op(me, k, &hays[k / OPS], std);
                            if got != expect[k] {
                                *bad.lock().unwrap() = Some(format!(
                                    "thread{}-op{}:{}!={}",
                                    t, k, got, expect[k]
                                ));
                                return;
                            }
                            if x & 31 == 0 {
                                std::thread::yield_now();
                            }
                        }
                    }
                });
            }
        });
        let r = bad.lock().unwrap().clone();
        r
    }
    let before: Vec<String>;
    let after: Vec<String>;
    let bad: Option<String>;
    match b {
        Built::Nc(a) => {
            let s = Low(a.clone());
            before = run_seq(&s);
            bad = conc(&s, nthreads, reps, seed, &hays, std, &before);
            after = run_seq(&s);
        }
        Built::C(a) => {
            let s = Low(a.clone());
            before = run_seq(&s);
            bad = conc(&s, nthreads, reps, seed, &hays, std, &before);
            after = run_seq(&s);
        }
        Built::Dfa(a) => {
            let s = Low(a.clone());
            before = run_seq(&s);
            bad = conc(&s, nthreads, reps, seed, &hays, std, &before);
            after = run_seq(&s);
        }
        Built::Top(a) => {
            before = run_seq(a);
            bad = conc(a, nthreads, reps, seed, &hays, std, &before);
            after = run_seq(a);
        }
    }
    // history / aliasing phase: ONE buffer is refilled in place with each haystack in turn and
    // searched; a result that depends on an earlier search over the same memory shows here
    let mut alias_bad: Option<String> = None;
    {
        let maxlen = hays.iter().map(|h| h.len()).max().unwrap_or(0);
        let mut buf = vec![0u8; maxlen.max(1)];
        let mut run_alias = |s: &dyn Srch| {
            for round in 0..OPS {
                for (h, hay) in hays.iter().enumerate() {
                    buf[..hay.len()].copy_from_slice(hay);
                    let k = h * OPS + (round + h) % OPS;
                    let got = one_op(s, k, &buf[..hay.len()], std);
                    if got != before[k] && alias_bad.is_none() {
                        alias_bad = Some(format!("inplace-op{}:{}!={}", k, got, before[k]));
                    }
                }
            }
        };
        match b {
            Built::Nc(a) => run_alias(&Low(a)),
            Built::C(a) => run_alias(&Low(a)),
            Built::Dfa(a) => run_alias(&Low(a)),
            Built::Top(a) => run_alias(a),
        }
    }
    let bad = bad.or(alias_bad);
    let finds: Vec<String> = (0..hays.len()).map(|h| before[h * OPS].clone()).collect();
    let conc_s = match bad {
        Some(d) => format!("diff:{}", d),
        None => {
            if before != after {
                "diff:after-phase".to_string()
            } else {
                "ok".to_string()
            }
        }
    };
    Ok(format!("seq=[{}] conc={}", finds.join(";"), conc_s))
}

impl<A: Clone> Clone for Low<A> {
    fn clone(&self) -> Self {
        Low(self.0.clone())
    }
}
