//! Tie A: walk every state reachable through the public `Automaton` trait and
//! dump flags, match lists and all 256 successors under both anchoring
//! arguments.  State ids are renumbered in BFS discovery order.
use aho_corasick::{automaton::{Automaton, StateID}, Anchored, MatchKind, PatternID};
use std::collections::HashMap;

fn rle(v: &[usize]) -> String {
    let mut out = vec![];
    let mut i = 0;
    while i < v.len() {
        let mut j = i;
        while j < v.len() && v[j] == v[i] {
            j += 1;
        }
        out.push(format!("{}*{}", v[i], j - i));
        i = j;
    }
    out.join(",")
}

/// pseudo state standing for "the automaton panicked on this step"
const PANIC_STATE: StateID = StateID::MAX;

pub fn dump<A: Automaton>(a: &A) -> Result<String, String> {
    let mut idx: HashMap<StateID, usize> = HashMap::new();
    let mut order: Vec<StateID> = vec![];
    let mut intern = |sid: StateID, order: &mut Vec<StateID>| -> usize {
        if let Some(&i) = idx.get(&sid) {
            return i;
        }
        let i = order.len();
        idx.insert(sid, i);
        order.push(sid);
        i
    };
    let s_no = a.start_state(Anchored::No).ok();
    let s_yes = a.start_state(Anchored::Yes).ok();
    let start_no = s_no.map(|s| intern(s, &mut order));
    let start_yes = s_yes.map(|s| intern(s, &mut order));
    let mut states: Vec<String> = vec![];
    let mut i = 0;
    let mut triples = 0usize;
    while i < order.len() {
        let sid = order[i];
        let mut tn = Vec::with_capacity(256);
        let mut ty = Vec::with_capacity(256);
        let mut fl = Vec::with_capacity(256);
        for b in 0..=255u8 {
            aho_corasick::verif::reset_counters();
            // a `next_state` that panics (an index out of range inside the automaton) is dumped as a step to a
            // pseudo state (id usize::MAX: not special, no match, loops to itself), so that the certificate fails AT
            // this (state, byte) with its path instead of the whole dump being lost
            let step = |anch: Anchored| {
                if sid == PANIC_STATE {
                    return PANIC_STATE;
                }
                std::panic::catch_unwind(std::panic::AssertUnwindSafe(|| a.next_state(anch, sid, b)))
                    .unwrap_or(PANIC_STATE)
            };
            let n = step(Anchored::No);
            fl.push(aho_corasick::verif::counters().1 as usize);
            tn.push(intern(n, &mut order));
            aho_corasick::verif::reset_counters();
            let y = step(Anchored::Yes);
            if aho_corasick::verif::counters().1 != 0 {
                return Err("anchored-next_state-followed-failure-link".into());
            }
            ty.push(intern(y, &mut order));
            triples += 2;
        }
        if sid == PANIC_STATE {
            let tys = "=".to_string();
            states.push(format!("0000/./{}/{}/{}", rle(&tn), tys, rle(&fl)));
            i += 1;
            continue;
        }
        let flags = format!(
            "{}{}{}{}",
            a.is_special(sid) as u8,
            a.is_dead(sid) as u8,
            a.is_match(sid) as u8,
            a.is_start(sid) as u8
        );
        // (a match list that cannot be read – a panic in `match_len` / `match_pattern`, or an absurd length – is
        // dumped as the impossible pattern id 4294967295, so that the certificate fails AT THIS STATE with its path)
        let listed = std::panic::catch_unwind(std::panic::AssertUnwindSafe(|| {
            let ml = if a.is_match(sid) { a.match_len(sid) } else { 0 };
            if ml > a.patterns_len().max(1) * 4 + 16 {
                return None;
            }
            Some((0..ml).map(|k| a.match_pattern(sid, k).as_usize()).collect::<Vec<_>>())
        }));
        let matches = match listed {
            Ok(Some(v)) if v.is_empty() => ".".to_string(),
            Ok(Some(v)) => v.iter().map(|x| x.to_string()).collect::<Vec<_>>().join(","),
            _ => "4294967295".to_string(),
        };
        let tys = if ty == tn { "=".to_string() } else { rle(&ty) };
        states.push(format!("{}/{}/{}/{}/{}", flags, matches, rle(&tn), tys, rle(&fl)));
        i += 1;
    }
    let n = a.patterns_len();
    let plens = if n == 0 {
        ".".to_string()
    } else {
        (0..n)
            .map(|k| a.pattern_len(PatternID::must(k)).to_string())
            .collect::<Vec<_>>()
            .join(",")
    };
    let opt = |x: Option<usize>| x.map(|v| v.to_string()).unwrap_or("-".into());
    Ok(format!(
        "dump n={} startno={} startyes={} npat={} plens={} min={} max={} pre={} triples={} states={}",
        order.len(),
        opt(start_no),
        opt(start_yes),
        n,
        plens,
        a.min_pattern_len(),
        a.max_pattern_len(),
        a.prefilter().is_some() as u8,
        triples,
        states.join(";")
    ))
}

/// The unanchored search loop from the `Automaton` trait documentation,
/// transcribed (C16).  Returns the canonical match string.
pub fn recipe<A: Automaton>(aut: &A, haystack: &[u8]) -> String {
    let mut sid = match aut.start_state(Anchored::No) {
        Ok(s) => s,
        Err(e) => return crate::exec::err_name(&e),
    };
    let mut at = 0;
    let mut mat = None;
    let get_match = |sid: StateID, at: usize| {
        let pid = aut.match_pattern(sid, 0);
        let len = aut.pattern_len(pid);
        aho_corasick::Match::new(pid, (at - len)..at)
    };
    // Start states can be match states!
    if aut.is_match(sid) {
        mat = Some(get_match(sid, at));
        // Standard semantics require matches to be reported as soon as
        // they're seen. Otherwise, we continue until we see a dead state
        // or the end of the haystack.
        if aut.match_kind() == MatchKind::Standard {
            return crate::exec::fmt_opt(&mat);
        }
    }
    while at < haystack.len() {
        sid = aut.next_state(Anchored::No, sid, haystack[at]);
        if aut.is_special(sid) {
            if aut.is_dead(sid) {
                break;
            } else if aut.is_match(sid) {
                mat = Some(get_match(sid, at + 1));
                if aut.match_kind() == MatchKind::Standard {
                    break;
                }
            }
        }
        at += 1;
    }
    crate::exec::fmt_opt(&mat)
}
