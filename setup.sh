#!/bin/sh
# Builds the framework from files on disk only (offline).
set -e
cd "$(dirname "$0")"
export CARGO_NET_OFFLINE=true
cp -n /repo/Cargo.lock harness/Cargo.lock 2>/dev/null || true
(cd harness && cargo build --release --offline 2>&1 | tail -2)
(cd lean/AcVerif && lake build 2>&1 | grep -v conda | tail -3)
echo setup-ok
