import AcVerif.Driver
open AcVerif

partial def loop (h : IO.FS.Stream) (out : IO.FS.Stream) (n : Nat) : IO Unit := do
  let line ← h.getLine
  if line.isEmpty then return ()
  for l in respond n line do
    out.putStrLn l
  loop h out (n + 1)

def main : IO Unit := do
  let stdin ← IO.getStdin
  let stdout ← IO.getStdout
  loop stdin stdout 0
  stdout.flush
