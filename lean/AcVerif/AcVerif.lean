-- This module serves as the root of the `AcVerif` library.
-- Import modules here that should be built as part of the library.
import AcVerif.Basic
