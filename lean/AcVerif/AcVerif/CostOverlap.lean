import AcVerif.Cost
import AcVerif.Engine.Overlap
/-!
# Work counters of the stepwise overlapping search (C19)

`ovlCost` is `ovlLoop` on the ideal automaton with the two counters of `findCost` threaded
through (ghost state: `C19_overlap_result`); `ovlImpCost` / `ovlCallsCost` are
`try_find_overlapping_fwd(_imp)` returning the counters of each call, which is what the
instrumented real code reports call by call.
-/
namespace AcVerif
namespace CostP
variable {α : Type} [DecidableEq α]

/-- `ovlLoop` over the ideal automaton with the two counters of `findCost` (same conventions:
`g` is the byte map, `A` is `ideal …` or `(ideal …).comap g`) -/
def ovlCost (k : MatchKind) (Q : PatSet α) (A : Aut (St α) α) (g : α → α) (hay : List α)
    (s e : Nat) (he : e ≤ hay.length) (pre : Option (Prefilter α)) (anch : Bool)
    (sid : St α) (at_ : Nat) (cost : Cost) : OState (St α) × Cost :=
  if h : at_ < e then
    let c := hay[at_]'(Nat.lt_of_lt_of_le h he)
    let cost := { transitions := cost.transitions + 1,
                  fails := cost.fails + Ideal.hops k Q anch sid (g c) }
    let sid := A.next anch sid c
    if A.isSpecial sid then
      if A.isDead sid then
        ({ mat := Option.none, id := some sid, at_ := at_, nextIdx := Option.none }, cost)
      else if A.isMatch sid then
        let m := getMatch A sid 0 (at_ + 1)
        if !(anch && decide (m.start > s)) then
          ({ mat := some m, id := some sid, at_ := at_, nextIdx := some 1 }, cost)
        else ovlCost k Q A g hay s e he pre anch sid (at_ + 1) cost
      else
        match pre with
        | some p =>
          match (p hay at_ e).intoOption with
          | Option.none =>
            ({ mat := Option.none, id := some sid, at_ := at_, nextIdx := Option.none }, cost)
          | some i =>
            if i > at_ then ovlCost k Q A g hay s e he pre anch sid i cost
            else ovlCost k Q A g hay s e he pre anch sid (at_ + 1) cost
        | Option.none => ovlCost k Q A g hay s e he pre anch sid (at_ + 1) cost
    else ovlCost k Q A g hay s e he pre anch sid (at_ + 1) cost
  else ({ mat := Option.none, id := some sid, at_ := at_, nextIdx := Option.none }, cost)
termination_by e - at_
decreasing_by all_goals omega


/-- `try_find_overlapping_fwd_imp` with the counters of this one call -/
def ovlImpCost (k : MatchKind) (Q : PatSet α) (A : Aut (St α) α) (g : α → α) (i : Input α)
    (pre : Option (Prefilter α)) (st : OState (St α)) : Except MatchErr (OState (St α) × Cost) :=
  match st.id with
  | Option.none =>
    match A.start i.anch with
    | Option.none => .error (if i.anch then .invalidInputAnchored else .invalidInputUnanchored)
    | some sid =>
      let idx := st.nextIdx.getD 0
      if A.isMatch sid && decide (idx < (A.mpats sid).length) then
        .ok ({ st with nextIdx := some (idx + 1), mat := some (getMatch A sid idx i.s) }, {})
      else
        .ok (ovlCost k Q A g i.hay i.s i.e i.valid.1 pre i.anch sid i.s {})
  | some sid =>
    match st.nextIdx with
    | some idx =>
      let m := getMatch A sid idx (st.at_ + 1)
      if decide (idx < (A.mpats sid).length) && !(i.anch && decide (m.start > i.s)) then
        .ok ({ st with nextIdx := some (idx + 1), mat := some m }, {})
      else
        .ok (ovlCost k Q A g i.hay i.s i.e i.valid.1 pre i.anch sid (st.at_ + 1) {})
    | Option.none => .ok (ovlCost k Q A g i.hay i.s i.e i.valid.1 pre i.anch sid st.at_ {})

/-- `try_find_overlapping_fwd` with the counters of this one call -/
def tryOvlCost (k : MatchKind) (Q : PatSet α) (A : Aut (St α) α) (g : α → α)
    (pre : Option (Prefilter α)) (i : Input α) (st : OState (St α)) :
    Except MatchErr (OState (St α) × Cost) :=
  let st := { st with mat := Option.none }
  if A.kind != .std then .error .unsupportedOverlapping
  else if i.isDone then
    match A.start i.anch with
    | Option.none => .error (if i.anch then .invalidInputAnchored else .invalidInputUnanchored)
    | some _ => .ok (st, {})
  else if i.anch then ovlImpCost k Q A g i Option.none st else ovlImpCost k Q A g i pre st

/-- the counters of `n` successive calls on one state, stopping at the first error -/
def ovlCallsCost (k : MatchKind) (Q : PatSet α) (A : Aut (St α) α) (g : α → α)
    (pre : Option (Prefilter α)) (i : Input α) : Nat → OState (St α) → List (Except MatchErr Cost)
  | 0, _ => []
  | n + 1, st =>
    match tryOvlCost k Q A g pre i st with
    | .error e => [.error e]
    | .ok (st', c) => .ok c :: ovlCallsCost k Q A g pre i n st'

end CostP
end AcVerif
