import AcVerif.DfaIds
import AcVerif.DenseModel
/-!
# L1c-ids: the noncontiguous NFA *as stored* (`nfa/noncontiguous.rs`): shuffled ids and `Special`

`Compiler.lean` numbers the states in allocation order (0 dead, 1 fail, 2 unanchored start,
3 anchored start, trie nodes) and `CNfa.toAut` reads the flags off the per-state match lists.  The
real `noncontiguous::NFA` is what `Compiler::compile` leaves behind after `Compiler::shuffle`:

* the match states with id `≥ 4` are swapped to the positions `4, 5, …` (`next_avail`), then the
  anchored start state is swapped with position `next_avail - 1` and the unanchored start state
  with `next_avail - 2` (`shuffleOrder` of `ContigModel.lean` is this swap sequence:
  `order[newpos] = old id`), so the layout is `DEAD, FAIL, MATCH…, START-U, START-A, NON-MATCH…`;
* `Remapper::remap` then rewrites every state id stored in the automaton – the failure link and
  every transition target of every state (and the dense rows) – through the inverse permutation
  (`Remapper::swap` applies every swap to its own `map` vector, which therefore equals `order`;
  the cycle-chasing loop of `Remapper::remap` inverts it; `remapperMap` below transcribes that
  loop, `shufflePos` is the inverse table computed directly);
* `special.max_match_id = next_avail - 3`, or `start_anchored_id` when the start states are match
  states themselves (an empty pattern); `special.start_unanchored_id = next_avail - 2`;
  `special.start_anchored_id = next_avail - 1`; and, back in `compile`,
  `special.max_special_id = start_anchored_id` if a prefilter was built, else `max_match_id`;
* the `Automaton` methods decide by id range: `is_special(sid) = sid <= max_special_id`,
  `is_dead = sid == 0`, `is_match = sid != 0 && sid <= max_match_id`,
  `is_start = sid == start_unanchored_id || sid == start_anchored_id`; `match_len` /
  `match_pattern` walk the state's match list; `next_state` is the `follow_transition` / failure
  link loop on the stored states.

Transcription conventions.  The state at index `i` of `NfaI.states` is the pre-shuffle state
`order[i]` with its transition targets and its failure link mapped through `pos` (`remapState`).
As in `DfaIds.lean`, the failure links of `DEAD`, `FAIL` and the unanchored start state are the
image of the link `SU` that `CNfa.init` gives them; in the crate these three states are allocated
while `special.start_unanchored_id` is still `0`, so their link is `DEAD`.  No search can read
these links (`DEAD` and the unanchored start state have all 256 transitions, `FAIL` is never
entered).  `densify` runs *before* `shuffle` and `NFA::remap` maps the dense rows with the same
function; `buildDenseIds` / `NfaI.nextD` describe the stored rows.
-/
namespace AcVerif
open CNfa

structure NfaI where
  /-- the states in stored (post-shuffle) order, every id inside them remapped -/
  states : Array CState
  maxSpecialId : Nat
  maxMatchId : Nat
  startU : Nat
  startA : Nat

/-- `NFA::remap` on one state: the failure link and every transition target -/
def remapState (map : Nat → Nat) (st : CState) : CState :=
  { trans := st.trans.map fun t => (t.1, map t.2), fail := map st.fail, matches_ := st.matches_ }

/-- `Compiler::shuffle` (the swap sequence, `Remapper::remap`, `Special`) followed by the
assignment of `max_special_id` in `Compiler::compile` -/
def buildNfaIds (n : CNfa) (hasPre : Bool) : NfaI :=
  let so := shuffleOrder n
  let order := so.1
  let na := so.2
  let pos := shufflePos n order
  { states := (Array.range n.size).map fun i =>
      remapState (fun t => pos.getD t 0) (n.getD (order.getD i 0) {})
    maxSpecialId := nfaMaxSpecial n na hasPre
    maxMatchId := nfaMaxMatch n na
    startU := na - 2
    startA := na - 1 }

/-- the cycle-chasing loop of `Remapper::remap`: `oldmap` is the frozen `map` (= `order`, the
swaps applied to the identity); for every `i` with `oldmap[i] ≠ i` the chain
`oldmap[i], oldmap[oldmap[i]], …` is followed until the entry holding `i` is found, and `map[i]`
becomes the *index* of that entry.  (The real loop has no bound; `fuel` = number of states.) -/
def remapperChase (oldmap : Array Nat) (i : Nat) : Nat → Nat → Nat
  | 0, newId => newId
  | fuel + 1, newId =>
    let id := oldmap.getD newId 0
    if id == i then newId else remapperChase oldmap i fuel id

def remapperMap (oldmap : Array Nat) : Array Nat :=
  (List.range oldmap.size).foldl (fun (map : Array Nat) i =>
    let newId := oldmap.getD i 0
    if newId == i then map else map.set! i (remapperChase oldmap i oldmap.size newId)) oldmap

/-! ## the `Automaton` methods -/

/-- `next_state`: the loop of `CNfa.nextState` on the stored states, with the hop counter -/
def NfaI.nextState (m : NfaI) (anch : Bool) (fuel sid : Nat) (b : UInt8) (hops : Nat) : Nat × Nat :=
  CNfa.nextState m.states anch fuel sid b hops

def NfaI.next (m : NfaI) (anch : Bool) (fuel sid : Nat) (b : UInt8) : Nat :=
  (m.nextState anch fuel sid b 0).1

/-- `next_state` with every index checked: `none` if `states[sid]` is out of range at any
iteration (the state given, or a failure link that was followed), and also if the loop has not
returned after `fuel` iterations -/
def NfaI.next? (m : NfaI) (anch : Bool) : Nat → Nat → UInt8 → Option Nat
  | 0, _, _ => none
  | fuel + 1, sid, b =>
    match m.states[sid]? with
    | none => none
    | some st =>
      let next := match st.trans.find? (·.1 == b) with
        | some t => t.2
        | none => FAIL
      if next != FAIL then some next
      else if anch then some DEAD
      else m.next? anch fuel st.fail b

def NfaI.isSpecial (m : NfaI) (sid : Nat) : Bool := decide (sid ≤ m.maxSpecialId)

def NfaI.isDead (_m : NfaI) (sid : Nat) : Bool := sid == 0

def NfaI.isMatch (m : NfaI) (sid : Nat) : Bool := sid != 0 && decide (sid ≤ m.maxMatchId)

def NfaI.isStart (m : NfaI) (sid : Nat) : Bool := sid == m.startU || sid == m.startA

/-- `[match_pattern(sid, i) | i < match_len(sid)]`: the match list of the state -/
def NfaI.matchList (m : NfaI) (sid : Nat) : List Nat := (m.states.getD sid {}).matches_

/-- … with the `states[sid]` index check of `iter_matches` -/
def NfaI.matchList? (m : NfaI) (sid : Nat) : Option (List Nat) := (m.states[sid]?).map (·.matches_)

def NfaI.toAut (m : NfaI) (k : MatchKind) (P : List (List UInt8)) (hasPre : Bool) : Aut Nat UInt8 where
  start := fun anch => some (if anch then m.startA else m.startU)
  next := fun anch sid b => m.next anch (m.states.size + 1) sid b
  isDead := m.isDead
  isMatch := m.isMatch
  isStart := m.isStart
  isSpecial := m.isSpecial
  mpats := m.matchList
  patLen := fun pid => (P.getD pid []).length
  patternsLen := P.length
  minLen := (P.map List.length).foldl min 18446744073709551615
  maxLen := (P.map List.length).foldl max 0
  kind := k
  hasPre := hasPre

/-! ## the dense rows as stored -/

/-- the dense rows after `densify` + `shuffle`: the row of the state at stored index `i` is the row
of the pre-shuffle state `order[i]` with every entry remapped -/
def buildDenseIds (n : CNfa) (denseDepth : Nat) : Array (Option (Array Nat)) :=
  let so := shuffleOrder n
  let order := so.1
  let pos := shufflePos n order
  let rows := denseRows n denseDepth
  (Array.range n.size).map fun i =>
    (rows.getD (order.getD i 0) none).map fun row => row.map fun t => pos.getD t 0

/-- `follow_transition` on the stored automaton (`classOf`: the byte classes of the NFA) -/
def NfaI.followD (m : NfaI) (classOf : UInt8 → Nat) (rows : Array (Option (Array Nat)))
    (sid : Nat) (b : UInt8) : Nat :=
  match rows.getD sid none with
  | none => CNfa.follow m.states sid b
  | some row => row.getD (classOf b) FAIL

/-- `next_state` reading through `follow_transition` -/
def NfaI.nextStateD (m : NfaI) (classOf : UInt8 → Nat) (rows : Array (Option (Array Nat)))
    (anch : Bool) : Nat → Nat → UInt8 → Nat → Nat × Nat
  | 0, sid, _, hops => (sid, hops)
  | fuel + 1, sid, b, hops =>
    let next := m.followD classOf rows sid b
    if next != FAIL then (next, hops)
    else if anch then (DEAD, hops)
    else m.nextStateD classOf rows anch fuel (m.states.getD sid {}).fail b (hops + 1)

/-- the stored automaton reading through its dense rows -/
def NfaI.toAutD (m : NfaI) (classOf : UInt8 → Nat) (rows : Array (Option (Array Nat)))
    (k : MatchKind) (P : List (List UInt8)) (hasPre : Bool) : Aut Nat UInt8 :=
  { m.toAut k P hasPre with
    next := fun anch sid b => (m.nextStateD classOf rows anch (m.states.size + 1) sid b 0).1 }

end AcVerif
