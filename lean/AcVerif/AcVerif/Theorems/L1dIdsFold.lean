import AcVerif.Proofs.DfaIdsFoldWrites
import AcVerif.Theorems.L1dIds
import AcVerif.Theorems.L1dFold
/-!
# L1d-ids (fold) – the DFA *as stored*, built from the NFA compiled with
`ascii_case_insensitive(true)`

`buildDfaIds N sk bc hasPre` (premultiplied ids, flat table, `Special` id ranges) applied to
`N = CNfa.compile k true P`: all statements of `Theorems/L1dIds.lean`, for **every** pattern
list, match kind, start kind, both settings of `byte_classes`, with or without prefilter – a start
state exactly for the supported anchoring modes (`L1dIdsFold_start`), observational equivalence
with the NFA run on RAW bytes and with the abstract DFA of L1dFold (`L1dIdsFold_obsEquiv_nfa`,
`L1dIdsFold_obsEquiv`), `StartEquiv` with the specification of the case-insensitive searcher
`(ideal k (P.map (·.map foldByte)) sk hasPre).comap foldByte` (`L1dIdsFold_startEquiv`), the engine
corollaries, in-bounds reads (`L1dIdsFold_inbounds`), the `is_special` contract
(`L1dIdsFold_special_contract`) and `set_matches` never panicking (`L1dIdsFold_setMatches_ok_*`).
Proofs: `AcVerif/Proofs/DfaIdsFold*.lean` (the `FS`-dependent lemmas of `DfaIds*.lean` ported to
`FSf`).
-/
namespace AcVerif
open AcVerif.L1cP AcVerif.L1dP AcVerif.L1eP AcVerif.L1dIdsP AcVerif.CNfa
open AcVerif.L1cFoldP AcVerif.L1dFoldP AcVerif.L1eFoldP AcVerif.L1dIdsFoldP

/-! ## the run, as the image of the NFA run -/

/-- the start id of a supported mode is the id of the NFA's start state, and after any input the
stored DFA is at the id of the state the NFA is at (which is related to an ideal state) -/
theorem L1dIdsFold_run (k : MatchKind) (P : List (List UInt8)) (sk : StartKind) (bc hasPre anch : Bool)
    (h : supportsAnch sk anch) (w : List UInt8) :
    ∃ L q', FSf k (patSet k (P.map (·.map foldByte))) L (CNfa.compile k true P) ∧
      Sim (CNfa.compile k true P) L hasPre (buildDfaIds (CNfa.compile k true P) sk bc hasPre) anch
        (gOf (CNfa.compile k true P) sk bc anch) ∧
      ((buildDfaIds (CNfa.compile k true P) sk bc hasPre).toAut k P hasPre).start anch =
        some (gOf (CNfa.compile k true P) sk bc anch (startOf anch)) ∧
      Rel L anch (((CNfa.compile k true P).toAut k P hasPre).runFrom anch (startOf anch) w) q' ∧
      ((buildDfaIds (CNfa.compile k true P) sk bc hasPre).toAut k P hasPre).runFrom anch
          (gOf (CNfa.compile k true P) sk bc anch (startOf anch)) w =
        gOf (CNfa.compile k true P) sk bc anch
          (((CNfa.compile k true P).toAut k P hasPre).runFrom anch (startOf anch) w) := by
  obtain ⟨L, hFS⟩ := compile_spec_f k P
  have hS := sim_of_FSf hFS sk bc hasPre anch h
  obtain ⟨q', h1, h2⟩ := hS.run_f hFS w _ _ (Rel_start L anch)
  exact ⟨L, q', hFS, hS, hS.toAut_start P, h1, h2⟩

/-! ## the start states -/

theorem L1dIdsFold_start (k : MatchKind) (P : List (List UInt8)) (sk : StartKind) (bc hasPre anch : Bool) :
    (((buildDfaIds (CNfa.compile k true P) sk bc hasPre).toAut k P hasPre).start anch).isSome ↔
      supportsAnch sk anch := by
  constructor
  · intro hs
    by_cases h : supportsAnch sk anch
    · exact h
    · exfalso
      have h0 := start_unsupported (CNfa.compile k true P) sk bc hasPre anch h
      have : ((buildDfaIds (CNfa.compile k true P) sk bc hasPre).toAut k P hasPre).start anch =
          none := by
        show (if ((if anch then (buildDfaIds (CNfa.compile k true P) sk bc hasPre).startA
          else (buildDfaIds (CNfa.compile k true P) sk bc hasPre).startU) == 0) = true then none
          else some _) = none
        rw [h0]; rfl
      rw [this] at hs
      cases hs
  · intro h
    obtain ⟨L, q', _, _, h0, _, _⟩ := L1dIdsFold_run k P sk bc hasPre anch h []
    rw [h0]; rfl

theorem L1dIdsFold_start_none (k : MatchKind) (P : List (List UInt8)) (sk : StartKind)
    (bc hasPre anch : Bool) (h : ¬ supportsAnch sk anch) :
    ((buildDfaIds (CNfa.compile k true P) sk bc hasPre).toAut k P hasPre).start anch = none := by
  cases hs : ((buildDfaIds (CNfa.compile k true P) sk bc hasPre).toAut k P hasPre).start anch with
  | none => rfl
  | some x => exact absurd ((L1dIdsFold_start k P sk bc hasPre anch).1 (by rw [hs]; rfl)) h

/-! ## stored DFA = NFA = abstract DFA -/

/-- the start state of a supported mode is observationally equivalent to the NFA's -/
theorem L1dIdsFold_obsEquiv_nfa (k : MatchKind) (P : List (List UInt8)) (sk : StartKind)
    (bc hasPre anch : Bool) (h : supportsAnch sk anch) :
    ∃ s0, ((buildDfaIds (CNfa.compile k true P) sk bc hasPre).toAut k P hasPre).start anch = some s0 ∧
      ObsEquiv ((buildDfaIds (CNfa.compile k true P) sk bc hasPre).toAut k P hasPre)
        ((CNfa.compile k true P).toAut k P hasPre) false anch s0 (if anch then CNfa.SA else CNfa.SU) := by
  obtain ⟨L, _, hFS, hS, h0, _, _⟩ := L1dIdsFold_run k P sk bc hasPre anch h []
  refine ⟨_, h0, ?_⟩
  intro w
  obtain ⟨q', h1, h2⟩ := hS.run_f hFS w _ _ (Rel_start L anch)
  show Aut.obs _ false (Aut.runFrom _ anch _ w) =
    Aut.obs _ false (Aut.runFrom _ anch (startOf anch) w)
  rw [h2]
  exact hS.obs_f hFS P (LvA_of_Rel h1)

/-- the abstract DFA of L1d, in the same form -/
theorem L1dIdsFold_abstract_obsEquiv_nfa (k : MatchKind) (P : List (List UInt8)) (sk : StartKind)
    (bc hasPre anch : Bool) (h : supportsAnch sk anch) :
    ∃ m0, ((buildDfa (CNfa.compile k true P) sk bc).toAut k P hasPre).start anch = some m0 ∧
      ObsEquiv ((buildDfa (CNfa.compile k true P) sk bc).toAut k P hasPre)
        ((CNfa.compile k true P).toAut k P hasPre) false anch m0 (if anch then CNfa.SA else CNfa.SU) := by
  cases sk with
  | unanchored =>
    have := supportsAnch_unanchored h
    subst this
    exact ⟨CNfa.SU, rfl, L1dFold_obsEquiv_unanchored k P hasPre bc⟩
  | anchored =>
    have := supportsAnch_anchored h
    subst this
    exact ⟨CNfa.SA, rfl, L1dFold_obsEquiv_anchored k P hasPre bc⟩
  | both => exact L1dFold_obsEquiv_both k P hasPre bc anch

/-- **stored DFA = abstract DFA**: for a supported mode both have a start state, and the two are
observationally equivalent -/
theorem L1dIdsFold_obsEquiv (k : MatchKind) (P : List (List UInt8)) (sk : StartKind)
    (bc hasPre anch : Bool) (h : supportsAnch sk anch) :
    ∃ s0 m0,
      ((buildDfaIds (CNfa.compile k true P) sk bc hasPre).toAut k P hasPre).start anch = some s0 ∧
      ((buildDfa (CNfa.compile k true P) sk bc).toAut k P hasPre).start anch = some m0 ∧
      ObsEquiv ((buildDfaIds (CNfa.compile k true P) sk bc hasPre).toAut k P hasPre)
        ((buildDfa (CNfa.compile k true P) sk bc).toAut k P hasPre) false anch s0 m0 := by
  obtain ⟨s0, h0, h1⟩ := L1dIdsFold_obsEquiv_nfa k P sk bc hasPre anch h
  obtain ⟨m0, g0, g1⟩ := L1dIdsFold_abstract_obsEquiv_nfa k P sk bc hasPre anch h
  exact ⟨s0, m0, h0, g0, fun w => (h1 w).trans (g1 w).symm⟩

/-! ## stored DFA = ideal automaton -/

theorem L1dIdsFold_obsEquiv_ideal (k : MatchKind) (P : List (List UInt8)) (sk : StartKind)
    (bc hasPre anch : Bool) (h : supportsAnch sk anch) :
    ∃ s0, ((buildDfaIds (CNfa.compile k true P) sk bc hasPre).toAut k P hasPre).start anch = some s0 ∧
      ObsEquiv ((buildDfaIds (CNfa.compile k true P) sk bc hasPre).toAut k P hasPre)
        ((ideal k (P.map (·.map foldByte)) sk hasPre).comap foldByte) false anch s0 (.at []) := by
  obtain ⟨s0, h0, h1⟩ := L1dIdsFold_obsEquiv_nfa k P sk bc hasPre anch h
  exact ⟨s0, h0, (h1.trans (L1cFold_obsEquiv k P hasPre anch)).ideal_comap_sk _⟩

/-- `StartEquiv` with the ideal automaton of the same start kind, for **every** anchoring mode:
equivalent start states if the mode is supported, both reject it otherwise -/
theorem L1dIdsFold_startEquiv (k : MatchKind) (P : List (List UInt8)) (sk : StartKind)
    (bc hasPre anch : Bool) :
    StartEquiv ((buildDfaIds (CNfa.compile k true P) sk bc hasPre).toAut k P hasPre)
      ((ideal k (P.map (·.map foldByte)) sk hasPre).comap foldByte) false anch := by
  unfold StartEquiv
  by_cases h : supportsAnch sk anch
  · obtain ⟨s0, h0, h1⟩ := L1dIdsFold_obsEquiv_ideal k P sk bc hasPre anch h
    have hB : ((ideal k (P.map (·.map foldByte)) sk hasPre).comap foldByte).start anch = some (.at []) := by
      rcases h with h | ⟨h, h'⟩ | ⟨h, h'⟩
      · subst h; cases anch <;> rfl
      · subst h; subst h'; rfl
      · subst h; subst h'; rfl
    rw [h0, hB]
    exact h1
  · have hA := L1dIdsFold_start_none k P sk bc hasPre anch h
    have hB : ((ideal k (P.map (·.map foldByte)) sk hasPre).comap foldByte).start anch = none := by
      cases sk with
      | unanchored =>
        cases anch
        · exact absurd (Or.inr (Or.inl ⟨rfl, rfl⟩)) h
        · rfl
      | anchored =>
        cases anch
        · rfl
        · exact absurd (Or.inr (Or.inr ⟨rfl, rfl⟩)) h
      | both => exact absurd (Or.inl rfl) h
    rw [hA, hB]
    trivial

/-! ## corollaries: every search result transfers -/

theorem L1dIdsFold_patLen (k : MatchKind) (P : List (List UInt8)) (sk : StartKind)
    (bc hasPre : Bool) (pid : Nat) :
    ((buildDfaIds (CNfa.compile k true P) sk bc hasPre).toAut k P hasPre).patLen pid =
      ((ideal k (P.map (·.map foldByte)) sk hasPre).comap foldByte).patLen pid :=
  (C11_ids P pid).2.symm

theorem L1dIdsFold_kind (k : MatchKind) (P : List (List UInt8)) (sk : StartKind)
    (bc hasPre : Bool) :
    ((buildDfaIds (CNfa.compile k true P) sk bc hasPre).toAut k P hasPre).kind =
      ((ideal k (P.map (·.map foldByte)) sk hasPre).comap foldByte).kind := rfl

theorem L1dIdsFold_find (k : MatchKind) (P : List (List UInt8)) (sk : StartKind) (bc hasPre : Bool)
    (pre : Option (Prefilter UInt8)) (i : Input UInt8) :
    tryFindFwd ((buildDfaIds (CNfa.compile k true P) sk bc hasPre).toAut k P hasPre) pre i =
      tryFindFwd ((ideal k (P.map (·.map foldByte)) sk hasPre).comap foldByte) pre i :=
  C04_find_transfer _ _ pre i (L1dIdsFold_kind k P sk bc hasPre)
    (L1dIdsFold_patLen k P sk bc hasPre)
    (C04_StartEquiv_false_true _ _ _ (L1dIdsFold_startEquiv k P sk bc hasPre i.anch))

theorem L1dIdsFold_iter (k : MatchKind) (P : List (List UInt8)) (sk : StartKind) (bc hasPre : Bool)
    (pre : Option (Prefilter UInt8)) (i : Input UInt8) :
    findIter ((buildDfaIds (CNfa.compile k true P) sk bc hasPre).toAut k P hasPre) pre i =
      findIter ((ideal k (P.map (·.map foldByte)) sk hasPre).comap foldByte) pre i :=
  C04_iter_transfer _ _ pre i (L1dIdsFold_kind k P sk bc hasPre)
    (L1dIdsFold_patLen k P sk bc hasPre)
    (C04_StartEquiv_false_true _ _ _ (L1dIdsFold_startEquiv k P sk bc hasPre i.anch))

theorem L1dIdsFold_overlap (k : MatchKind) (P : List (List UInt8)) (sk : StartKind) (bc hasPre : Bool)
    (pre : Option (Prefilter UInt8)) (i : Input UInt8) (n : Nat) :
    ovlCalls ((buildDfaIds (CNfa.compile k true P) sk bc hasPre).toAut k P hasPre) pre i n
        OState.start =
      ovlCalls ((ideal k (P.map (·.map foldByte)) sk hasPre).comap foldByte) pre i n OState.start :=
  C04_overlap_transfer _ _ pre i (L1dIdsFold_kind k P sk bc hasPre)
    (L1dIdsFold_patLen k P sk bc hasPre) (L1dIdsFold_startEquiv k P sk bc hasPre i.anch) n

theorem L1dIdsFold_overlap_iter (k : MatchKind) (P : List (List UInt8)) (sk : StartKind)
    (bc hasPre : Bool) (pre : Option (Prefilter UInt8)) (i : Input UInt8) (fuel : Nat) :
    ovlIterAux ((buildDfaIds (CNfa.compile k true P) sk bc hasPre).toAut k P hasPre) pre i fuel
        OState.start =
      ovlIterAux ((ideal k (P.map (·.map foldByte)) sk hasPre).comap foldByte) pre i fuel OState.start :=
  C04_overlap_iter_transfer _ _ pre i (L1dIdsFold_kind k P sk bc hasPre)
    (L1dIdsFold_patLen k P sk bc hasPre) (L1dIdsFold_startEquiv k P sk bc hasPre i.anch) fuel

/-! ## … and the stored case-insensitive DFA meets the specification (C11): occurrences are read on
the folded patterns and the folded haystack -/

/-- standard semantics (C02 through C11) -/
theorem L1dIdsFold_find_std (P : List (List UInt8)) (bc : Bool) (sk : StartKind) (i : Input UInt8)
    (h : supportsAnch sk i.anch) :
    ∃ r, tryFindFwd ((buildDfaIds (CNfa.compile .std true P) sk bc false).toAut .std P false)
        none i = .ok r ∧
      IsFind .std (P.map (·.map foldByte)) (i.hay.map foldByte) i.s i.e i.anch r := by
  rw [L1dIdsFold_find]
  exact C11_find_std P sk i h

/-- leftmost-longest (C01 through C11) -/
theorem L1dIdsFold_find_ll (P : List (List UInt8)) (bc : Bool) (sk : StartKind) (i : Input UInt8)
    (he : i.earliest = false) (h : supportsAnch sk i.anch) :
    ∃ r, tryFindFwd ((buildDfaIds (CNfa.compile .ll true P) sk bc false).toAut .ll P false)
        none i = .ok r ∧
      IsFind .ll (P.map (·.map foldByte)) (i.hay.map foldByte) i.s i.e i.anch r := by
  rw [L1dIdsFold_find]
  exact C11_find_ll P sk i he h

/-- leftmost-first (C01 through C11) -/
theorem L1dIdsFold_find_lf (P : List (List UInt8)) (bc : Bool) (sk : StartKind) (i : Input UInt8)
    (he : i.earliest = false) (h : supportsAnch sk i.anch) :
    ∃ r, tryFindFwd ((buildDfaIds (CNfa.compile .lf true P) sk bc false).toAut .lf P false)
        none i = .ok r ∧
      IsFind .lf (P.map (·.map foldByte)) (i.hay.map foldByte) i.s i.e i.anch r := by
  rw [L1dIdsFold_find]
  exact C11_find_lf P sk i he h

/-- overlapping search (C03 through C11) -/
theorem L1dIdsFold_overlap_calls (P : List (List UInt8)) (bc : Bool) (sk : StartKind)
    (i : Input UInt8) (h : supportsAnch sk i.anch) :
    ∃ l, IsOverlapList (P.map (·.map foldByte)) (i.hay.map foldByte) i.s i.e i.anch l ∧
      ∀ n, ovlCalls ((buildDfaIds (CNfa.compile .std true P) sk bc false).toAut .std P false)
          none i n OState.start =
        (l.take n).map (fun m => Except.ok (some m)) ++
          List.replicate (n - l.length) (Except.ok none) := by
  obtain ⟨l, h1, h2⟩ := C11_overlap_std P sk i h
  exact ⟨l, h1, fun n => by rw [L1dIdsFold_overlap]; exact h2 n⟩

/-! ## every read is in bounds -/

/-- at every state reachable from a supported start state: the table read of every byte is in
bounds, the id is a multiple of the stride with index `< state_len`; at a match state the
`matches` read is in bounds (no underflow of `- 2`, index `< matches.len()`), the list is
non-empty and holds pattern ids `< P.length` -/
theorem L1dIdsFold_inbounds (k : MatchKind) (P : List (List UInt8)) (sk : StartKind)
    (bc hasPre anch : Bool) (s0 : Nat)
    (hs : ((buildDfaIds (CNfa.compile k true P) sk bc hasPre).toAut k P hasPre).start anch = some s0)
    (w : List UInt8) :
    let D := buildDfaIds (CNfa.compile k true P) sk bc hasPre
    let q := (D.toAut k P hasPre).runFrom anch s0 w
    (∀ b, D.next? q b = some (D.next q b)) ∧
      q % 2 ^ D.stride2 = 0 ∧ q >>> D.stride2 < D.stateLen ∧
      (D.isMatch q = true →
        D.matchList? q = some (D.matchList q) ∧ D.matchList q ≠ [] ∧
          ∀ p ∈ D.matchList q, p < P.length) := by
  intro D q
  have hsup : supportsAnch sk anch := (L1dIdsFold_start k P sk bc hasPre anch).1 (by rw [hs]; rfl)
  obtain ⟨L, q', hFS, hS, h0, h1, h2⟩ := L1dIdsFold_run k P sk bc hasPre anch hsup w
  have e : s0 = gOf (CNfa.compile k true P) sk bc anch (startOf anch) :=
    Option.some.inj (hs.symm.trans h0)
  have hq : q = gOf (CNfa.compile k true P) sk bc anch
      (((CNfa.compile k true P).toAut k P hasPre).runFrom anch (startOf anch) w) := by
    show Aut.runFrom _ anch s0 w = _
    rw [e]; exact h2
  have hv := LvA_of_Rel h1
  obtain ⟨i, hi, hgi⟩ := hS.idx _ hv
  have hpos : 0 < 2 ^ D.stride2 := Nat.two_pow_pos _
  rw [hq]
  refine ⟨?_, ?_, ?_, ?_⟩
  · intro b
    show D.trans[_ + D.classOf b]? = some (D.trans.getD (_ + D.classOf b) 0)
    apply getElem?_eq_some_getD
    rw [hS.size, hgi]
    exact flatTable_lt _ _ hi (hS.cls b)
  · rw [hgi]; exact Nat.mul_mod_left _ _
  · rw [hgi, Nat.shiftRight_eq_div_pow, Nat.mul_div_cancel _ hpos]; exact hi
  · intro hm
    have hml := hS.mlist _ hv hm
    have hl := matchList_of_some hml
    rw [hl]
    refine ⟨hml, ?_, ?_⟩
    · have := hS.isMatch _ hv
      rw [hm] at this
      have : CNfa.isMatch (CNfa.compile k true P)
          (((CNfa.compile k true P).toAut k P hasPre).runFrom anch (startOf anch) w) = true := by
        have h' := this.symm
        simp only [Bool.and_eq_true] at h'
        exact h'.2
      exact mats_ne_nil_of_match this
    · intro p hp
      rw [Rel_mats_f hFS h1] at hp
      have := mem_out_lt hp
      rwa [List.length_map] at this

/-! ## the `is_special` contract -/

/-- at every state reachable from a supported start state, `is_special` holds exactly for the
dead state, the match states and (with a prefilter) the start states; and every transition of the
dead state leads to the dead state -/
theorem L1dIdsFold_special_contract (k : MatchKind) (P : List (List UInt8)) (sk : StartKind)
    (bc hasPre anch : Bool) (s0 : Nat)
    (hs : ((buildDfaIds (CNfa.compile k true P) sk bc hasPre).toAut k P hasPre).start anch = some s0)
    (w : List UInt8) :
    let D := buildDfaIds (CNfa.compile k true P) sk bc hasPre
    let q := (D.toAut k P hasPre).runFrom anch s0 w
    (D.isSpecial q = true ↔
        (D.isDead q = true ∨ D.isMatch q = true ∨ (hasPre = true ∧ D.isStart q = true))) ∧
      (D.isDead q = true → ∀ b, D.next q b = 0) := by
  intro D q
  have hsup : supportsAnch sk anch := (L1dIdsFold_start k P sk bc hasPre anch).1 (by rw [hs]; rfl)
  obtain ⟨L, q', hFS, hS, h0, h1, h2⟩ := L1dIdsFold_run k P sk bc hasPre anch hsup w
  have e : s0 = gOf (CNfa.compile k true P) sk bc anch (startOf anch) :=
    Option.some.inj (hs.symm.trans h0)
  have hq : q = gOf (CNfa.compile k true P) sk bc anch
      (((CNfa.compile k true P).toAut k P hasPre).runFrom anch (startOf anch) w) := by
    show Aut.runFrom _ anch s0 w = _
    rw [e]; exact h2
  have hv := LvA_of_Rel h1
  rw [hq]
  generalize ((CNfa.compile k true P).toAut k P hasPre).runFrom anch (startOf anch) w = s at hv
  have eS := hS.isSpecial s hv
  have eM := hS.isMatch s hv
  have eD : D.isDead (gOf (CNfa.compile k true P) sk bc anch s) = true ↔ s = 0 := by
    show (gOf (CNfa.compile k true P) sk bc anch s == 0) = true ↔ _
    rw [beq_iff_eq]; exact hS.dead s hv
  have eO := LvA.ne_other_f hFS hv
  have hst0 : startOf anch ≠ 0 := by cases anch <;> simp [startOf, SU, SA]
  constructor
  · rw [eS, eM, eD, eO]
    simp only [Bool.or_eq_true, Bool.and_eq_true, beq_iff_eq, bne_iff_ne, ne_eq]
    constructor
    · rintro ((e0 | hm) | ⟨hp, est⟩)
      · exact Or.inl e0
      · by_cases e0 : s = DEAD
        · exact Or.inl e0
        · exact Or.inr (Or.inl ⟨e0, hm⟩)
      · refine Or.inr (Or.inr ⟨hp, ?_⟩)
        have hs0 : s ≠ 0 := by rw [est]; exact hst0
        exact (hS.isStart s hv hs0).2 est
    · rintro (e0 | ⟨_, hm⟩ | ⟨hp, hst⟩)
      · exact Or.inl (Or.inl e0)
      · exact Or.inl (Or.inr hm)
      · by_cases e0 : s = 0
        · exact Or.inl (Or.inl e0)
        · exact Or.inr ⟨hp, (hS.isStart s hv e0).1 hst⟩
  · intro hd b
    have e0 := eD.1 hd
    subst e0
    rw [hS.step 0 hv b]
    have : (nextState (CNfa.compile k true P) anch ((CNfa.compile k true P).size + 1) 0 b 0).1 = 0 := by
      have := nextState_dead (CNfa.compile k true P) anch ((CNfa.compile k true P).size + 1) b 0
        (hFS.goto_dead b)
      exact congrArg Prod.fst this
    rw [this]
    exact (hS.dead 0 hv).2 rfl

/-! ## `set_matches` never panics -/

/-- one start kind: a match state of the shuffled NFA at position `i` has the DFA id `i << stride2`,
and `set_matches` indexes `matches` with `i - 2`: no underflow, in range -/
theorem L1dIdsFold_setMatches_ok_one (k : MatchKind) (P : List (List UInt8)) (sk : StartKind)
    (bc hasPre : Bool) (hsk : sk ≠ .both) (i : Nat) (hi : i < (CNfa.compile k true P).size)
    (hm : CNfa.isMatch (CNfa.compile k true P)
      ((shuffleOrder (CNfa.compile k true P)).1.getD i 0) = true) :
    let D := buildDfaIds (CNfa.compile k true P) sk bc hasPre
    (i <<< D.stride2) >>> D.stride2 = i ∧ 2 ≤ i ∧ i - 2 < D.matches_.size := by
  intro D
  obtain ⟨h2, hle⟩ := match_pos_range_f k P hi hm
  have hsz : D.matches_.size =
      nfaMaxMatch (CNfa.compile k true P) (cNa (CNfa.compile k true P)) - 1 := by
    cases sk with
    | unanchored => exact matchTable_size _ _
    | anchored => exact matchTable_size _ _
    | both => exact absurd rfl hsk
  refine ⟨?_, h2, by rw [hsz]; omega⟩
  rw [Nat.shiftLeft_eq, Nat.shiftRight_eq_div_pow, Nat.mul_div_cancel _ (Nat.two_pow_pos _)]

/-- start kind `Both`: the DFA state indices handed out to position `i` are
`cntB na i ≤ x < cntB na (i + 1)` (`remFoldB_spec`); for a match state each of them is `≥ 2` and
`x - 2` is in range of `matches` -/
theorem L1dIdsFold_setMatches_ok_both (k : MatchKind) (P : List (List UInt8)) (bc hasPre : Bool)
    (i : Nat) (hi : i < (CNfa.compile k true P).size)
    (hm : CNfa.isMatch (CNfa.compile k true P)
      ((shuffleOrder (CNfa.compile k true P)).1.getD i 0) = true)
    (x : Nat) (hx1 : cntB (shuffleOrder (CNfa.compile k true P)).2 i ≤ x)
    (hx2 : x < cntB (shuffleOrder (CNfa.compile k true P)).2 (i + 1)) :
    2 ≤ x ∧ x - 2 < (buildDfaIds (CNfa.compile k true P) .both bc hasPre).matches_.size := by
  obtain ⟨h2, hle⟩ := match_pos_range_f k P hi hm
  obtain ⟨L, hFS⟩ := compile_spec_f k P
  have hS := shufOK _ hFS.four_le_size
  have h4 : 4 ≤ (shuffleOrder (CNfa.compile k true P)).2 := hS.na_ge
  have hsz : (buildDfaIds (CNfa.compile k true P) .both bc hasPre).matches_.size =
      (nfaMaxMatch (CNfa.compile k true P) (cNa (CNfa.compile k true P)) - 1) * 2 :=
    matchTable_size _ _
  have a := cntB_ge_two h4 h2
  have b := cntB_mono h4 (show i + 1 ≤
    nfaMaxMatch (CNfa.compile k true P) (cNa (CNfa.compile k true P)) + 1 by omega)
  have c := cntB_le_two_mul h4 (show 2 ≤
    nfaMaxMatch (CNfa.compile k true P) (cNa (CNfa.compile k true P)) + 1 by omega)
  have e : cNa (CNfa.compile k true P) = (shuffleOrder (CNfa.compile k true P)).2 := rfl
  rw [e] at b c hsz
  refine ⟨by omega, by rw [hsz]; omega⟩

/-! ## non-vacuity: `"aB"`, `"Ab"`, start kind `Both`, byte classes on, no prefilter: 7 classes,
stride 8; after `x A B` and after `a b` the stored DFA is at the same match state, listing both
pattern ids -/

set_option maxRecDepth 1000000

example :
    let D := buildDfaIds (CNfa.compile .std true [[0x61, 0x42], [0x41, 0x62]]) .both true false
    (D.stride2, D.alphabetLen) = (3, 7) ∧
      (D.toAut .std [[0x61, 0x42], [0x41, 0x62]] false).start false = some D.startU ∧
      (D.toAut .std [[0x61, 0x42], [0x41, 0x62]] false).runFrom false D.startU [0x78, 0x41, 0x42] =
        (D.toAut .std [[0x61, 0x42], [0x41, 0x62]] false).runFrom false D.startU [0x61, 0x62] ∧
      D.matchList? ((D.toAut .std [[0x61, 0x42], [0x41, 0x62]] false).runFrom false D.startU
        [0x61, 0x62]) = some [0, 1] := by
  decide +kernel

end AcVerif
