import AcVerif.Proofs.DfaFoldBothSim
import AcVerif.Theorems.L1d
import AcVerif.Theorems.L1cFold
/-!
# L1d (fold) – the DFA built from the NFA compiled with `ascii_case_insensitive(true)`

`buildDfa N sk byteClasses` applied to `N = CNfa.compile k true P` (both-case edges in the trie) is,
for **every** pattern list, match kind, start kind and both settings of `byte_classes`,
observationally equivalent to `N` run on the RAW input bytes (`L1dFold_obsEquiv_*`) and hence (with
L1cFold) to the specification of the case-insensitive searcher (C11), the ideal automaton of the
FOLDED patterns fed FOLDED bytes, `(ideal k (P.map (·.map foldByte)) sk hasPre).comap foldByte`
(`L1dFold_obsEquiv_ideal`, `L1dFold_startEquiv`); it supports exactly the anchoring modes of its
start kind (`L1dFold_start`).  So every search result transfers (`L1dFold_find`, `L1dFold_iter`,
`L1dFold_overlap`, `L1dFold_overlap_iter`), including the error for an unsupported anchoring mode,
and the DFA meets the specification read on folded patterns and folded haystack
(`L1dFold_find_std`, `L1dFold_find_ll`, `L1dFold_find_lf`, `L1dFold_overlap_calls`).

The proof (`AcVerif/Proofs/DfaFold*.lean`, namespace `AcVerif.L1dFoldP`) is the one of L1d with the
specification `FSf` of the folding compiler in place of `FS`.  The only point where folding
matters is the key lemma "byte classes are a congruence of the NFA": the `ByteClassSet` is
computed from `trieBytes N`, the bytes that carry an explicit edge in `N` itself, and with folding
BOTH cases of a letter carry one (`FSf.edge_mem`: an edge to `u ++ [foldByte b]` puts the raw byte
`b` into `trieBytes N`), so two different bytes of one class still have no edge at any live state
(`follow_cong_VU_f`, `follow_cong_VA_f`, `nextState_cong_f`).  In particular `A` and `a` may share
a class only if neither occurs (in either case) in a pattern.
-/
namespace AcVerif
open AcVerif.L1cP AcVerif.L1dP AcVerif.L1cFoldP AcVerif.L1dFoldP AcVerif.CNfa

/-! ## DFA = NFA -/

/-- start kind `Unanchored`: the DFA equals the NFA observationally (unanchored searches) -/
theorem L1dFold_obsEquiv_unanchored (k : MatchKind) (P : List (List UInt8)) (hasPre bc : Bool) :
    ObsEquiv ((buildDfa (CNfa.compile k true P) .unanchored bc).toAut k P hasPre)
      ((CNfa.compile k true P).toAut k P hasPre) false false CNfa.SU CNfa.SU := by
  rw [buildDfa_unanchored]
  exact buildOne_obsEquivU_f k P hasPre (classOK_clsOf _ bc)

/-- start kind `Anchored`: the DFA equals the NFA observationally (anchored searches) -/
theorem L1dFold_obsEquiv_anchored (k : MatchKind) (P : List (List UInt8)) (hasPre bc : Bool) :
    ObsEquiv ((buildDfa (CNfa.compile k true P) .anchored bc).toAut k P hasPre)
      ((CNfa.compile k true P).toAut k P hasPre) false true CNfa.SA CNfa.SA := by
  rw [buildDfa_anchored]
  exact buildOne_obsEquivA_f k P hasPre (classOK_clsOf _ bc)

/-- start kind `Both`: the DFA has a start state for either mode, observationally equal to the
NFA's start state of that mode -/
theorem L1dFold_obsEquiv_both (k : MatchKind) (P : List (List UInt8)) (hasPre bc : Bool)
    (anch : Bool) :
    ∃ s0, ((buildDfa (CNfa.compile k true P) .both bc).toAut k P hasPre).start anch = some s0 ∧
      ObsEquiv ((buildDfa (CNfa.compile k true P) .both bc).toAut k P hasPre)
        ((CNfa.compile k true P).toAut k P hasPre) false anch s0
        (if anch then CNfa.SA else CNfa.SU) := by
  obtain ⟨L, hFS⟩ := compile_spec_f k P
  rw [buildDfa_both]
  cases anch with
  | false =>
    exact ⟨2, both_startU_f (classOf := clsOf (CNfa.compile k true P) bc)
      (nc := ncOf (CNfa.compile k true P) bc) hFS, both_obsEquivU_f k P hasPre (classOK_clsOf _ bc)⟩
  | true =>
    exact ⟨3, both_startA_f (classOf := clsOf (CNfa.compile k true P) bc)
      (nc := ncOf (CNfa.compile k true P) bc) hFS, both_obsEquivA_f k P hasPre (classOK_clsOf _ bc)⟩

/-- all start kinds at once: for a supported anchoring mode the DFA has a start state,
observationally equal to the NFA's start state of that mode -/
theorem L1dFold_obsEquiv (k : MatchKind) (P : List (List UInt8)) (hasPre bc : Bool)
    (sk : StartKind) (anch : Bool) (h : supportsAnch sk anch) :
    ∃ s0, ((buildDfa (CNfa.compile k true P) sk bc).toAut k P hasPre).start anch = some s0 ∧
      ObsEquiv ((buildDfa (CNfa.compile k true P) sk bc).toAut k P hasPre)
        ((CNfa.compile k true P).toAut k P hasPre) false anch s0
        (if anch then CNfa.SA else CNfa.SU) := by
  cases sk with
  | unanchored =>
    have ha : anch = false := by
      rcases h with h | ⟨_, h⟩ | ⟨h, _⟩
      · cases h
      · exact h
      · cases h
    subst ha
    exact ⟨CNfa.SU, rfl, L1dFold_obsEquiv_unanchored k P hasPre bc⟩
  | anchored =>
    have ha : anch = true := by
      rcases h with h | ⟨h, _⟩ | ⟨_, h⟩
      · cases h
      · cases h
      · exact h
    subst ha
    exact ⟨CNfa.SA, rfl, L1dFold_obsEquiv_anchored k P hasPre bc⟩
  | both => exact L1dFold_obsEquiv_both k P hasPre bc anch

/-! ## the start states -/

/-- unsupported anchoring modes are rejected by the DFA exactly like the ideal automaton with that
start kind -/
theorem L1dFold_start (k : MatchKind) (P : List (List UInt8)) (hasPre bc : Bool) (sk : StartKind)
    (anch : Bool) :
    (((buildDfa (CNfa.compile k true P) sk bc).toAut k P hasPre).start anch).isSome ↔
      supportsAnch sk anch := by
  cases sk with
  | unanchored =>
    cases anch
    · exact ⟨fun _ => Or.inr (Or.inl ⟨rfl, rfl⟩), fun _ => rfl⟩
    · refine ⟨fun h => (by cases h), fun h => ?_⟩
      rcases h with h | ⟨_, h⟩ | ⟨h, _⟩ <;> cases h
  | anchored =>
    cases anch
    · refine ⟨fun h => (by cases h), fun h => ?_⟩
      rcases h with h | ⟨h, _⟩ | ⟨_, h⟩ <;> cases h
    · exact ⟨fun _ => Or.inr (Or.inr ⟨rfl, rfl⟩), fun _ => rfl⟩
  | both =>
    obtain ⟨s0, h0, _⟩ := L1dFold_obsEquiv_both k P hasPre bc anch
    rw [h0]
    exact ⟨fun _ => Or.inl rfl, fun _ => rfl⟩

theorem L1dFold_start_none (k : MatchKind) (P : List (List UInt8)) (hasPre bc : Bool)
    (sk : StartKind) (anch : Bool) (h : ¬ supportsAnch sk anch) :
    ((buildDfa (CNfa.compile k true P) sk bc).toAut k P hasPre).start anch = none := by
  cases hs : ((buildDfa (CNfa.compile k true P) sk bc).toAut k P hasPre).start anch with
  | none => rfl
  | some x =>
    exact absurd ((L1dFold_start k P hasPre bc sk anch).1 (by rw [hs]; rfl)) h

/-! ## DFA = case-insensitive ideal automaton -/

/-- the start kind of the (case-insensitive) ideal automaton only matters for `start` -/
theorem ideal_comap_obs_run_sk (k : MatchKind) (P : List (List UInt8)) (sk : StartKind)
    (hasPre anch : Bool) (g : UInt8 → UInt8) (w : List UInt8) : ∀ q : St UInt8,
    ((ideal k P sk hasPre).comap g).obs false (((ideal k P sk hasPre).comap g).runFrom anch q w) =
      ((ideal k P .both hasPre).comap g).obs false
        (((ideal k P .both hasPre).comap g).runFrom anch q w) := by
  induction w with
  | nil => intro q; rfl
  | cons c w ih => intro q; exact ih (Ideal.next k (patSet k P) anch q (g c))

theorem ObsEquiv.ideal_comap_sk {σ : Type} {A : Aut σ UInt8} {k : MatchKind}
    {P : List (List UInt8)} {hasPre : Bool} {anch : Bool} {g : UInt8 → UInt8} {a : σ}
    {q : St UInt8} (sk : StartKind)
    (h : ObsEquiv A ((ideal k P .both hasPre).comap g) false anch a q) :
    ObsEquiv A ((ideal k P sk hasPre).comap g) false anch a q :=
  fun w => (h w).trans (ideal_comap_obs_run_sk k P sk hasPre anch g w q).symm

/-- the DFA's start state of a supported mode is observationally equivalent to the start state
of the case-insensitive ideal automaton -/
theorem L1dFold_obsEquiv_ideal (k : MatchKind) (P : List (List UInt8)) (hasPre bc : Bool)
    (sk : StartKind) (anch : Bool) (h : supportsAnch sk anch) :
    ∃ s0, ((buildDfa (CNfa.compile k true P) sk bc).toAut k P hasPre).start anch = some s0 ∧
      ObsEquiv ((buildDfa (CNfa.compile k true P) sk bc).toAut k P hasPre)
        ((ideal k (P.map (·.map foldByte)) sk hasPre).comap foldByte) false anch s0 (.at []) := by
  obtain ⟨s0, h0, h1⟩ := L1dFold_obsEquiv k P hasPre bc sk anch h
  exact ⟨s0, h0, (h1.trans (L1cFold_obsEquiv k P hasPre anch)).ideal_comap_sk sk⟩

/-- `StartEquiv` with the case-insensitive ideal automaton of the same start kind, for **every**
anchoring mode: equivalent start states if the mode is supported, both reject it otherwise -/
theorem L1dFold_startEquiv (k : MatchKind) (P : List (List UInt8)) (hasPre bc : Bool)
    (sk : StartKind) (anch : Bool) :
    StartEquiv ((buildDfa (CNfa.compile k true P) sk bc).toAut k P hasPre)
      ((ideal k (P.map (·.map foldByte)) sk hasPre).comap foldByte) false anch := by
  unfold StartEquiv
  by_cases h : supportsAnch sk anch
  · obtain ⟨s0, h0, h1⟩ := L1dFold_obsEquiv_ideal k P hasPre bc sk anch h
    have hB : ((ideal k (P.map (·.map foldByte)) sk hasPre).comap foldByte).start anch =
        some (.at []) := by
      rcases h with h | ⟨h, h'⟩ | ⟨h, h'⟩
      · subst h; cases anch <;> rfl
      · subst h; subst h'; rfl
      · subst h; subst h'; rfl
    rw [h0, hB]
    exact h1
  · have hA := L1dFold_start_none k P hasPre bc sk anch h
    have hB : ((ideal k (P.map (·.map foldByte)) sk hasPre).comap foldByte).start anch = none := by
      cases sk with
      | unanchored =>
        cases anch
        · exact absurd (Or.inr (Or.inl ⟨rfl, rfl⟩)) h
        · rfl
      | anchored =>
        cases anch
        · rfl
        · exact absurd (Or.inr (Or.inr ⟨rfl, rfl⟩)) h
      | both => exact absurd (Or.inl rfl) h
    rw [hA, hB]
    trivial

/-- pattern lengths agree (folding keeps lengths), as the engine transfer theorems require -/
theorem L1dFold_patLen (k : MatchKind) (P : List (List UInt8)) (hasPre bc : Bool) (sk : StartKind)
    (pid : Nat) :
    ((buildDfa (CNfa.compile k true P) sk bc).toAut k P hasPre).patLen pid =
      ((ideal k (P.map (·.map foldByte)) sk hasPre).comap foldByte).patLen pid :=
  (C11_ids P pid).2.symm

theorem L1dFold_kind (k : MatchKind) (P : List (List UInt8)) (hasPre bc : Bool) (sk : StartKind) :
    ((buildDfa (CNfa.compile k true P) sk bc).toAut k P hasPre).kind =
      ((ideal k (P.map (·.map foldByte)) sk hasPre).comap foldByte).kind := rfl

/-! ## corollaries: every search result transfers (for every input: a supported anchoring mode
gives the result of the case-insensitive ideal automaton, an unsupported one the same error) -/

theorem L1dFold_find (k : MatchKind) (P : List (List UInt8)) (hasPre bc : Bool) (sk : StartKind)
    (pre : Option (Prefilter UInt8)) (i : Input UInt8) :
    tryFindFwd ((buildDfa (CNfa.compile k true P) sk bc).toAut k P hasPre) pre i =
      tryFindFwd ((ideal k (P.map (·.map foldByte)) sk hasPre).comap foldByte) pre i :=
  C04_find_transfer _ _ pre i (L1dFold_kind k P hasPre bc sk) (L1dFold_patLen k P hasPre bc sk)
    (C04_StartEquiv_false_true _ _ _ (L1dFold_startEquiv k P hasPre bc sk i.anch))

/-- the error case made explicit -/
theorem L1dFold_find_unsupported (k : MatchKind) (P : List (List UInt8)) (hasPre bc : Bool)
    (sk : StartKind) (pre : Option (Prefilter UInt8)) (i : Input UInt8)
    (h : ¬ supportsAnch sk i.anch) (hd : i.isDone = true) :
    tryFindFwd ((buildDfa (CNfa.compile k true P) sk bc).toAut k P hasPre) pre i =
      .error (if i.anch then .invalidInputAnchored else .invalidInputUnanchored) := by
  have hA := L1dFold_start_none k P hasPre bc sk i.anch h
  unfold tryFindFwd
  rw [if_pos hd, hA]

theorem L1dFold_iter (k : MatchKind) (P : List (List UInt8)) (hasPre bc : Bool) (sk : StartKind)
    (pre : Option (Prefilter UInt8)) (i : Input UInt8) :
    findIter ((buildDfa (CNfa.compile k true P) sk bc).toAut k P hasPre) pre i =
      findIter ((ideal k (P.map (·.map foldByte)) sk hasPre).comap foldByte) pre i :=
  C04_iter_transfer _ _ pre i (L1dFold_kind k P hasPre bc sk) (L1dFold_patLen k P hasPre bc sk)
    (C04_StartEquiv_false_true _ _ _ (L1dFold_startEquiv k P hasPre bc sk i.anch))

theorem L1dFold_overlap (k : MatchKind) (P : List (List UInt8)) (hasPre bc : Bool) (sk : StartKind)
    (pre : Option (Prefilter UInt8)) (i : Input UInt8) (n : Nat) :
    ovlCalls ((buildDfa (CNfa.compile k true P) sk bc).toAut k P hasPre) pre i n OState.start =
      ovlCalls ((ideal k (P.map (·.map foldByte)) sk hasPre).comap foldByte) pre i n
        OState.start :=
  C04_overlap_transfer _ _ pre i (L1dFold_kind k P hasPre bc sk) (L1dFold_patLen k P hasPre bc sk)
    (L1dFold_startEquiv k P hasPre bc sk i.anch) n

theorem L1dFold_overlap_iter (k : MatchKind) (P : List (List UInt8)) (hasPre bc : Bool)
    (sk : StartKind) (pre : Option (Prefilter UInt8)) (i : Input UInt8) (fuel : Nat) :
    ovlIterAux ((buildDfa (CNfa.compile k true P) sk bc).toAut k P hasPre) pre i fuel
        OState.start =
      ovlIterAux ((ideal k (P.map (·.map foldByte)) sk hasPre).comap foldByte) pre i fuel
        OState.start :=
  C04_overlap_iter_transfer _ _ pre i (L1dFold_kind k P hasPre bc sk)
    (L1dFold_patLen k P hasPre bc sk) (L1dFold_startEquiv k P hasPre bc sk i.anch) fuel

/-! ## … and the case-insensitive DFA meets the specification (C11): occurrences are read on the
folded patterns and the folded haystack -/

/-- standard semantics (C02 through C11) -/
theorem L1dFold_find_std (P : List (List UInt8)) (bc : Bool) (sk : StartKind) (i : Input UInt8)
    (h : supportsAnch sk i.anch) :
    ∃ r, tryFindFwd ((buildDfa (CNfa.compile .std true P) sk bc).toAut .std P false) none i =
        .ok r ∧
      IsFind .std (P.map (·.map foldByte)) (i.hay.map foldByte) i.s i.e i.anch r := by
  rw [L1dFold_find]
  exact C11_find_std P sk i h

/-- leftmost-longest (C01 through C11) -/
theorem L1dFold_find_ll (P : List (List UInt8)) (bc : Bool) (sk : StartKind) (i : Input UInt8)
    (he : i.earliest = false) (h : supportsAnch sk i.anch) :
    ∃ r, tryFindFwd ((buildDfa (CNfa.compile .ll true P) sk bc).toAut .ll P false) none i =
        .ok r ∧
      IsFind .ll (P.map (·.map foldByte)) (i.hay.map foldByte) i.s i.e i.anch r := by
  rw [L1dFold_find]
  exact C11_find_ll P sk i he h

/-- leftmost-first (C01 through C11) -/
theorem L1dFold_find_lf (P : List (List UInt8)) (bc : Bool) (sk : StartKind) (i : Input UInt8)
    (he : i.earliest = false) (h : supportsAnch sk i.anch) :
    ∃ r, tryFindFwd ((buildDfa (CNfa.compile .lf true P) sk bc).toAut .lf P false) none i =
        .ok r ∧
      IsFind .lf (P.map (·.map foldByte)) (i.hay.map foldByte) i.s i.e i.anch r := by
  rw [L1dFold_find]
  exact C11_find_lf P sk i he h

/-- overlapping search (C03 through C11) -/
theorem L1dFold_overlap_calls (P : List (List UInt8)) (bc : Bool) (sk : StartKind)
    (i : Input UInt8) (h : supportsAnch sk i.anch) :
    ∃ l, IsOverlapList (P.map (·.map foldByte)) (i.hay.map foldByte) i.s i.e i.anch l ∧
      ∀ n, ovlCalls ((buildDfa (CNfa.compile .std true P) sk bc).toAut .std P false) none i n
          OState.start =
        (l.take n).map (fun m => Except.ok (some m)) ++
          List.replicate (n - l.length) (Except.ok none) := by
  obtain ⟨l, h1, h2⟩ := C11_overlap_std P sk i h
  exact ⟨l, h1, fun n => by rw [L1dFold_overlap]; exact h2 n⟩

/-! ## non-vacuity: patterns `"aB"`, `"Ab"`, start kind `Both`, byte classes on

NFA states: 4 = `a`, 5 = `ab` (names = folded strings).  The trie bytes are `A`, `a`, `B`, `b`, so
the classes are `0 ↦ [0, 0x40]`, `1 ↦ A`, `2 ↦ B`, `3 ↦ [0x43, 0x60]`, `4 ↦ a`, `5 ↦ b`,
`6 ↦ [0x63, 0xFF]`: the two cases of a letter are in DIFFERENT classes with EQUAL row entries.
DFA ids: 0 dead, 1 fail, 2 / 3 the start states, (4, 5) for `a`, (6, 7) for `ab`. -/

set_option maxRecDepth 1000000

/-- the classes of `@ A B C a b c` -/
example : ([0x40, 0x41, 0x42, 0x43, 0x61, 0x62, 0x63].map
    (buildDfa (CNfa.compile .std true [[0x61, 0x42], [0x41, 0x62]]) .both true).classOf) =
    [0, 1, 2, 3, 4, 5, 6] := by decide +kernel

/-- the unanchored start row: `A` and `a` lead to the node `a` (id 4), all else back to 2 -/
example : ((buildDfa (CNfa.compile .std true [[0x61, 0x42], [0x41, 0x62]]) .both true).rows.getD
    2 #[]).toList = [2, 4, 2, 2, 4, 2, 2] := by decide +kernel

/-- the anchored row of the node `a`: `B` and `b` lead to the anchored copy of `ab` (id 7) -/
example : ((buildDfa (CNfa.compile .std true [[0x61, 0x42], [0x41, 0x62]]) .both true).rows.getD
    5 #[]).toList = [0, 0, 7, 0, 0, 7, 0] := by decide +kernel

/-- the start states, and the match lists: both copies of `ab` list BOTH pattern ids -/
example : (buildDfa (CNfa.compile .std true [[0x61, 0x42], [0x41, 0x62]]) .both true).startU =
      some 2 ∧
    (buildDfa (CNfa.compile .std true [[0x61, 0x42], [0x41, 0x62]]) .both true).startA = some 3 ∧
    (buildDfa (CNfa.compile .std true [[0x61, 0x42], [0x41, 0x62]]) .both true).matches_.toList =
      [[], [], [], [], [], [], [0, 1], [0, 1]] := by decide +kernel

end AcVerif
