import AcVerif.Engine.History
/-!
# C17 – searches are pure (model part)

In the model a searcher is an immutable value, so these theorems are close to
definitional; their role is to *state* what the concurrent differential run
compares: (1) a plain search in any history returns what it returns alone;
(2) what a caller observes on one of its own handles depends only on the
operations issued on that handle, not on anything interleaved with them.
Absence of data races in the compiled code is not expressible in the model:
it is checked by a source audit (no interior mutability outside the
cfg-guarded hooks; `Send + Sync` bounds) and observed by the concurrent run.
-/
namespace AcVerif
variable {σ α : Type}

/-- a plain search never changes caller-owned state and returns what it returns alone -/
theorem C17_find_pure (A : Aut σ α) (pre : Option (Prefilter α)) (st : Nat → OState σ)
    (i : Input α) : stepOp A pre st (.find i) = (st, .found (tryFindFwd A pre i)) := rfl

/-- an operation on another handle leaves handle `h` untouched -/
theorem stepOp_other (A : Aut σ α) (pre : Option (Prefilter α)) (st : Nat → OState σ)
    (k h : Nat) (hk : k ≠ h) (i : Input α) : (stepOp A pre st (.ovl k i)).1 h = st h := by
  simp only [stepOp]
  cases tryFindOverlappingFwd A pre i (st k) with
  | ok s' => simp [Ne.symm hk]
  | error e => rfl

/-- the result of an operation on handle `h` depends only on that handle's state -/
theorem stepOp_local (A : Aut σ α) (pre : Option (Prefilter α)) (st st' : Nat → OState σ)
    (h : Nat) (i : Input α) (heq : st h = st' h) :
    (stepOp A pre st (.ovl h i)).2 = (stepOp A pre st' (.ovl h i)).2 ∧
    (stepOp A pre st (.ovl h i)).1 h = (stepOp A pre st' (.ovl h i)).1 h := by
  simp only [stepOp, heq]
  cases tryFindOverlappingFwd A pre i (st' h) with
  | ok s' => simp
  | error e => exact ⟨rfl, heq⟩

/-- **Handles are independent.**  The results a caller sees on handle `h` in an
arbitrary history (operations of other callers interleaved in any way) are
exactly the results of running only its own operations. -/
theorem C17_handles_independent (A : Aut σ α) (pre : Option (Prefilter α)) (h : Nat)
    (ops : List (Op α)) (st st' : Nat → OState σ) (heq : st h = st' h) :
    resultsOn A pre h st ops = resultsOn A pre h st' (onHandle h ops) := by
  induction ops generalizing st st' with
  | nil => rfl
  | cons op ops ih =>
    cases op with
    | find i =>
      simp only [resultsOn, onHandle]
      exact ih _ _ (by rw [C17_find_pure]; exact heq)
    | ovl k i =>
      by_cases hk : k = h
      · subst hk
        simp only [resultsOn, onHandle, if_true]
        obtain ⟨h1, h2⟩ := stepOp_local A pre st st' k i heq
        rw [h1]
        exact congrArg _ (ih _ _ h2)
      · simp only [resultsOn, onHandle, if_neg hk]
        exact ih _ _ (by rw [stepOp_other A pre st k h hk i]; exact heq)

/-- in particular every plain search of a history returns its stand-alone answer -/
theorem C17_finds_in_history (A : Aut σ α) (pre : Option (Prefilter α)) (ops : List (Op α))
    (st : Nat → OState σ) (n : Nat) (i : Input α) (hn : ops[n]? = some (.find i)) :
    (runHist A pre st ops)[n]? = some (.found (tryFindFwd A pre i)) := by
  induction ops generalizing st n with
  | nil => simp at hn
  | cons op ops ih =>
    cases n with
    | zero =>
      simp only [List.getElem?_cons_zero, Option.some.injEq] at hn
      subst hn
      simp [runHist, stepOp]
    | succ n =>
      simp only [List.getElem?_cons_succ] at hn
      simp only [runHist, List.getElem?_cons_succ]
      exact ih _ _ hn

end AcVerif
