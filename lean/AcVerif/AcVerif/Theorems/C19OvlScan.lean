import AcVerif.Proofs.OvlScanBounds
import AcVerif.Proofs.OvlScanTransfer
import AcVerif.Proofs.OvlScanSingle
import AcVerif.Theorems.C19Scan
import AcVerif.Theorems.C05
/-!
# C19 – the prefilter work of ONE CALL of the stepwise overlapping search

`tryOvlScan A pre i st` (AcVerif/PreScan.lean) is the total haystack extent the prefilter answers
of one call of `try_find_overlapping_fwd` account for; `ovlCallsScan A pre i n st` lists it for
every call of a call history.  The instrumented real code reports the same per-call numbers.

Side condition on the state (`OvlReach i st`: `st.id = none ∨ i.s ≤ st.at_`): it holds for
`OState.start` and every call preserves it (`C19_ovl_reach_start`, `C19_ovl_reach_step`), so it
holds along every call history from `OState.start`.

For ANY automaton record `A`:

* `C19_ovl_prescan_call_le`: `PreWithin pre` and `PreNoMtch pre` (the prefilter never confirms a
  match – the candidate half of `PreUniform`): one call's extent is `≤ i.e - i.s`.
* `C19_ovl_prescan_call_le_len`: `PreWithin pre` and `PreMtchLen L pre`:
  `≤ (i.e - i.s) + L * (i.e - i.s - 1)`.  This is the statement for a confirming prefilter.
* `C19_ovl_prescan_mtch_exceeds`, `C19_ovl_prescan_call_not_le_of_uniform`:
  **`PreWithin ∧ PreUniform` does NOT give `≤ i.e - i.s` for one overlapping call.**  In
  `findScan` a confirming prefilter ends the search on its initial answer and never reaches the
  loop; the overlapping search has no initial call, the confirming prefilter is consulted inside
  the loop, the stretch is counted to `m.stop` while the loop resumes at `m.start`.  The example
  attains the `L`-slack bound (`9 = 5 + 1 * 4`).
* `C19_ovl_prescan_calls`, `C19_ovl_prescan_calls_len`: the same for every entry of
  `ovlCallsScan A pre i n OState.start`.

The builder's prefilters under standard semantics (`buildPrefilter K .std …`): never the packed
searcher; `memmem` only for one case-sensitive pattern.

* `C19_builder_ovl_prescan_le`: a choice other than `memmem` – for every automaton record every
  call's extent is `≤ i.e - i.s`.  `…_fold` (case-insensitive) and `…_multi` (not exactly one
  pattern) discharge the proviso.
* `memmem` (single pattern `p`): for an arbitrary automaton record only the `L = |p|` slack
  bound holds (`C19_builder_ovl_prescan_memmem_len`) and `≤ i.e - i.s` is FALSE
  (`C19_builder_ovl_memmem_any_aut_exceeds`).  For the automaton of the pattern
  (`ideal .std [p] sk hasPre`) and every automaton record observationally equivalent to it
  (`StartEquiv`, which is what the L1 theorems give for the compiled automata) `≤ i.e - i.s`
  holds: a call contains at most one confirmed match (`C19_builder_ovl_prescan_memmem_ideal`,
  `C19_builder_ovl_prescan_memmem_tied`).
* `C19_builder_ovl_prescan_tied`: all together – any choice of the case-sensitive builder, any
  automaton record tied to `ideal .std pats sk hasPre`.
-/
namespace AcVerif
open AcVerif.ScanP AcVerif.EngP
variable {σ α : Type}

/-- the prefilter never confirms a match (the second alternative of `PreUniform`) -/
def PreNoMtch (pre : Option (Prefilter α)) : Prop :=
  ∀ p, pre = some p → ∀ hay a e m, p hay a e ≠ .mtch m

theorem PreNoMtch.uniform {pre : Option (Prefilter α)} (h : PreNoMtch pre) : PreUniform pre :=
  fun p hp => Or.inr (h p hp)

theorem PreNoMtch.mtchLen {pre : Option (Prefilter α)} (h : PreNoMtch pre) :
    PreMtchLen 0 pre :=
  fun p hp hay a e m hc => absurd hc (h p hp hay a e m)

/-- a `PreUniform` prefilter that does report a candidate somewhere never confirms a match -/
theorem PreUniform.noMtch_of_pos {pre : Option (Prefilter α)} (h : PreUniform pre)
    (hpos : ∀ p, pre = some p → ∃ hay a e j, p hay a e = .pos j) : PreNoMtch pre := by
  intro p hp
  rcases h p hp with h1 | h1
  · obtain ⟨hay, a, e, j, hj⟩ := hpos p hp
    exact absurd hj (h1 hay a e j)
  · exact h1

/-! ## the side condition -/

theorem C19_ovl_reach_start (i : Input α) : OvlReach i (OState.start : OState σ) :=
  OvlReach.start i

/-- every call (whatever automaton, whatever prefilter) keeps `st.id = none ∨ i.s ≤ st.at_` -/
theorem C19_ovl_reach_step (A : Aut σ α) (pre : Option (Prefilter α)) (i : Input α)
    (st st' : OState σ) (hr : OvlReach i st) (h : tryFindOverlappingFwd A pre i st = .ok st') :
    OvlReach i st' :=
  OvlReach.step A pre i st st' hr h

/-! ## one call -/

private theorem loopOk_anch {pre : Option (Prefilter α)} (hw : PreWithin pre) {L : Nat}
    (hl : PreMtchLen L pre) (anch : Bool) (hay : List α) (e : Nat) (he : e ≤ hay.length) :
    LoopOk L (if anch then Option.none else pre) hay e := by
  cases anch
  · exact hw.loopOk hl hay e he
  · intro p hp; cases hp

/-- **One call, confirmed matches at most `L` long.**  For any automaton record. -/
theorem C19_ovl_prescan_call_le_len (A : Aut σ α) (pre : Option (Prefilter α)) (L : Nat)
    (hpre : PreWithin pre) (hlen : PreMtchLen L pre) (i : Input α) (st : OState σ)
    (hr : OvlReach i st) :
    tryOvlScan A pre i st ≤ (i.e - i.s) + L * (i.e - i.s - 1) := by
  refine tryOvlScan_le_of A pre i st _ ?_
  intro hse _ sid at_ h0 h1
  have hat : i.s ≤ at_ := by
    rcases hr with hr | hr
    · rw [h0 hr]; exact Nat.le_refl _
    · by_cases hid : st.id = Option.none
      · rw [h0 hid]; exact Nat.le_refl _
      · exact Nat.le_trans hr (h1 hid)
  have h := ovlScanLoop_le A i.hay i.s i.e i.valid.1 _ L
    (loopOk_anch hpre hlen i.anch i.hay i.e i.valid.1) i.anch _ sid at_ 0 rfl
  have hm := scanBound_mono L (show i.e - at_ ≤ i.e - i.s by omega)
  unfold scanBound at h hm
  omega

/-- **C19, one call of the overlapping search.**  For any automaton record, a prefilter whose
answers stay inside the span it is given and that never confirms a match does at most
`i.e - i.s` work in one call, from every state satisfying the side condition. -/
theorem C19_ovl_prescan_call_le (A : Aut σ α) (pre : Option (Prefilter α))
    (hpre : PreWithin pre) (hnm : PreNoMtch pre) (i : Input α) (st : OState σ)
    (hr : OvlReach i st) :
    tryOvlScan A pre i st ≤ i.e - i.s := by
  have := C19_ovl_prescan_call_le_len A pre 0 hpre hnm.mtchLen i st hr
  simpa using this

/-- the side condition spelled out -/
theorem C19_ovl_prescan_call_le' (A : Aut σ α) (pre : Option (Prefilter α))
    (hpre : PreWithin pre) (hnm : PreNoMtch pre) (i : Input α) (st : OState σ)
    (hr : st.id = Option.none ∨ i.s ≤ st.at_) :
    tryOvlScan A pre i st ≤ i.e - i.s :=
  C19_ovl_prescan_call_le A pre hpre hnm i st hr

/-! ## a call history -/

/-- every call of a call history from `OState.start` -/
theorem C19_ovl_prescan_calls (A : Aut σ α) (pre : Option (Prefilter α))
    (hpre : PreWithin pre) (hnm : PreNoMtch pre) (i : Input α) (n : Nat) :
    ∀ x ∈ ovlCallsScan A pre i n OState.start, x ≤ i.e - i.s :=
  ovlCallsScan_forall_le A pre i _ (C19_ovl_prescan_call_le A pre hpre hnm i) n _
    (OvlReach.start i)

theorem C19_ovl_prescan_calls_len (A : Aut σ α) (pre : Option (Prefilter α)) (L : Nat)
    (hpre : PreWithin pre) (hlen : PreMtchLen L pre) (i : Input α) (n : Nat) :
    ∀ x ∈ ovlCallsScan A pre i n OState.start, x ≤ (i.e - i.s) + L * (i.e - i.s - 1) :=
  ovlCallsScan_forall_le A pre i _ (C19_ovl_prescan_call_le_len A pre L hpre hlen i) n _
    (OvlReach.start i)

/-- … and from any state satisfying the side condition -/
theorem C19_ovl_prescan_calls_from (A : Aut σ α) (pre : Option (Prefilter α))
    (hpre : PreWithin pre) (hnm : PreNoMtch pre) (i : Input α) (n : Nat) (st : OState σ)
    (hr : OvlReach i st) :
    ∀ x ∈ ovlCallsScan A pre i n st, x ≤ i.e - i.s :=
  ovlCallsScan_forall_le A pre i _ (C19_ovl_prescan_call_le A pre hpre hnm i) n st hr

/-- the per-call extents are the same on observationally equivalent automaton records -/
theorem C19_ovl_prescan_transfer {τ : Type} (A : Aut σ α) (B : Aut τ α)
    (pre : Option (Prefilter α)) (i : Input α) (hk : A.kind = B.kind)
    (hl : ∀ pid, A.patLen pid = B.patLen pid) (h : StartEquiv A B false i.anch) (n : Nat) :
    ovlCallsScan A pre i n OState.start = ovlCallsScan B pre i n OState.start :=
  ovlCallsScan_transfer A B pre i hk hl h n _ _ (ORel.start A B i.anch)

end AcVerif

/-! ## the prefilters of the builder model, standard semantics -/
namespace AcVerif
open AcVerif.ScanP AcVerif.PreP AcVerif.EngP
variable {σ : Type}

/-- the byte-set prefilters never confirm a match -/
theorem C19_choice_noMtch (c : PreChoice) (hm : ∀ needle, c ≠ .memmem needle)
    (hp : ∀ s, c ≠ .packed s) : PreNoMtch (some c.findIn) := by
  intro p hp'
  injection hp' with hp'
  subst hp'
  cases c with
  | memmem needle => exact absurd rfl (hm needle)
  | startBytes bs =>
    intro hay a e m h
    simp only [PreChoice.findIn] at h
    split at h <;> cases h
  | rareBytes bs offs =>
    intro hay a e m h
    simp only [PreChoice.findIn] at h
    split at h <;> cases h
  | packed srch => exact absurd rfl (hp srch)

/-- the builder never returns a prefilter when some pattern is empty -/
theorem C19_builder_pats_ne {K : Consts} {k : MatchKind} {fold : Bool} {freq : UInt8 → Nat}
    {pats : List (List UInt8)} {avx2 ssse3 : Bool} {ch : PreChoice}
    (hb : buildPrefilter K k fold freq pats avx2 ssse3 = some ch) : ∀ p ∈ pats, p ≠ [] := by
  intro p hp hnil
  subst hnil
  rw [(C05_builder_gates K k fold freq pats avx2 ssse3).1 hp] at hb
  cases hb

/-- `memmem` is only chosen by the case-sensitive builder, for exactly one pattern -/
theorem C19_builder_memmem_single {K : Consts} {k : MatchKind} {fold : Bool}
    {freq : UInt8 → Nat} {pats : List (List UInt8)} {avx2 ssse3 : Bool} {needle : List UInt8}
    (hb : buildPrefilter K k fold freq pats avx2 ssse3 = some (.memmem needle)) :
    fold = false ∧ pats = [needle] ∧ needle ≠ [] := by
  cases fold with
  | true =>
    exact absurd rfl ((((C05_builder_gates K k true freq pats avx2 ssse3).2 _ hb).1 rfl).1 needle)
  | false =>
    have hne := C19_builder_pats_ne hb
    have := (C05_memmem_sound K k freq pats avx2 ssse3 hne _ hb needle rfl).1
    subst this
    exact ⟨rfl, rfl, hne needle (List.mem_singleton.2 rfl)⟩

/-- under standard semantics a choice other than `memmem` stays inside the span and never
confirms a match -/
theorem C19_builder_ovl_noMtch (K : Consts) (fold : Bool) (freq : UInt8 → Nat)
    (pats : List (List UInt8)) (avx2 ssse3 : Bool) (ch : PreChoice)
    (hb : buildPrefilter K .std fold freq pats avx2 ssse3 = some ch)
    (hmm : ∀ needle, ch ≠ .memmem needle) :
    PreWithin (some ch.findIn) ∧ PreNoMtch (some ch.findIn) :=
  ⟨(C19_builder_within K .std fold freq pats avx2 ssse3 ch hb).1,
    C19_choice_noMtch ch hmm (((C05_builder_gates K .std fold freq pats avx2 ssse3).2 ch hb).2 rfl)⟩

/-- **C19 for the builder's prefilters, overlapping search**: a choice other than `memmem`;
whatever the automaton record, every call's prefilter extent is at most the span length. -/
theorem C19_builder_ovl_prescan_le (K : Consts) (fold : Bool) (freq : UInt8 → Nat)
    (pats : List (List UInt8)) (avx2 ssse3 : Bool) (ch : PreChoice)
    (hb : buildPrefilter K .std fold freq pats avx2 ssse3 = some ch)
    (hmm : ∀ needle, ch ≠ .memmem needle)
    (A : Aut σ UInt8) (i : Input UInt8) (n : Nat) :
    ∀ x ∈ ovlCallsScan A (some ch.findIn) i n OState.start, x ≤ i.e - i.s :=
  have h := C19_builder_ovl_noMtch K fold freq pats avx2 ssse3 ch hb hmm
  C19_ovl_prescan_calls A _ h.1 h.2 i n

/-- … one call from any state satisfying the side condition -/
theorem C19_builder_ovl_prescan_call_le (K : Consts) (fold : Bool) (freq : UInt8 → Nat)
    (pats : List (List UInt8)) (avx2 ssse3 : Bool) (ch : PreChoice)
    (hb : buildPrefilter K .std fold freq pats avx2 ssse3 = some ch)
    (hmm : ∀ needle, ch ≠ .memmem needle)
    (A : Aut σ UInt8) (i : Input UInt8) (st : OState σ) (hr : OvlReach i st) :
    tryOvlScan A (some ch.findIn) i st ≤ i.e - i.s :=
  have h := C19_builder_ovl_noMtch K fold freq pats avx2 ssse3 ch hb hmm
  C19_ovl_prescan_call_le A _ h.1 h.2 i st hr

/-- the case-insensitive builder never chooses `memmem` -/
theorem C19_builder_ovl_prescan_le_fold (K : Consts) (freq : UInt8 → Nat)
    (pats : List (List UInt8)) (avx2 ssse3 : Bool) (ch : PreChoice)
    (hb : buildPrefilter K .std true freq pats avx2 ssse3 = some ch)
    (A : Aut σ UInt8) (i : Input UInt8) (n : Nat) :
    ∀ x ∈ ovlCallsScan A (some ch.findIn) i n OState.start, x ≤ i.e - i.s :=
  C19_builder_ovl_prescan_le K true freq pats avx2 ssse3 ch hb
    (((C05_builder_gates K .std true freq pats avx2 ssse3).2 ch hb).1 rfl).1 A i n

/-- not exactly one pattern: never `memmem` -/
theorem C19_builder_ovl_prescan_le_multi (K : Consts) (fold : Bool) (freq : UInt8 → Nat)
    (pats : List (List UInt8)) (avx2 ssse3 : Bool) (ch : PreChoice)
    (hb : buildPrefilter K .std fold freq pats avx2 ssse3 = some ch) (hlen : pats.length ≠ 1)
    (A : Aut σ UInt8) (i : Input UInt8) (n : Nat) :
    ∀ x ∈ ovlCallsScan A (some ch.findIn) i n OState.start, x ≤ i.e - i.s := by
  refine C19_builder_ovl_prescan_le K fold freq pats avx2 ssse3 ch hb ?_ A i n
  intro needle hch
  subst hch
  have := (C19_builder_memmem_single hb).2.1
  rw [this] at hlen
  exact hlen rfl

/-! ### `memmem` (one case-sensitive pattern) -/

theorem memmem_mtchLen (needle : List UInt8) :
    PreMtchLen needle.length (some (PreChoice.memmem needle).findIn) := by
  intro p hp hay a e m hc
  injection hp with hp
  subst hp
  simp only [PreChoice.findIn] at hc
  split at hc
  · cases hc
  · injection hc with hc
    subst hc
    exact Nat.le_refl _

theorem memmem_memLike (needle : List UInt8) (hay : List UInt8) (e : Nat) :
    MemLike needle (PreChoice.memmem needle).findIn hay e := by
  intro a _
  simp only [PreChoice.findIn]
  cases hm : memmemIn needle hay a e with
  | none => trivial
  | some q =>
    obtain ⟨h1, h2, h3, _⟩ := memmemIn_some hm
    exact ⟨h1, rfl, h2, h3⟩

/-- `memmem`, ANY automaton record: the slack is one needle length per further in-loop call -/
theorem C19_builder_ovl_prescan_memmem_len (needle : List UInt8) (A : Aut σ UInt8)
    (i : Input UInt8) (n : Nat) :
    ∀ x ∈ ovlCallsScan A (some (PreChoice.memmem needle).findIn) i n OState.start,
      x ≤ (i.e - i.s) + needle.length * (i.e - i.s - 1) :=
  C19_ovl_prescan_calls_len A _ needle.length
    (C19_choice_within (.memmem needle) (fun _ h => by cases h)) (memmem_mtchLen needle) i n

/-- one call of the automaton of a single pattern with a prefilter confirming its occurrences:
at most one confirmed match, so at most the span length -/
theorem C19_ovl_prescan_call_single (p : List UInt8) (hne : p ≠ []) (sk : StartKind)
    (hasPre : Bool) (pre : Prefilter UInt8) (hpre : ∀ hay e, MemLike p pre hay e)
    (i : Input UInt8) (st : OState (St UInt8)) (hr : OvlReach i st) :
    tryOvlScan (ideal .std [p] sk hasPre) (some pre) i st ≤ i.e - i.s := by
  refine tryOvlScan_le_of _ _ i st _ ?_
  intro hse _ sid at_ h0 h1
  have hat : i.s ≤ at_ := by
    rcases hr with hr | hr
    · rw [h0 hr]; exact Nat.le_refl _
    · by_cases hid : st.id = Option.none
      · rw [h0 hid]; exact Nat.le_refl _
      · exact Nat.le_trans hr (h1 hid)
  cases hanch : i.anch with
  | true =>
    simp only [if_true]
    have h := ovlScanLoop_le (ideal .std [p] sk hasPre) i.hay i.s i.e i.valid.1 Option.none 0
      (fun p hp => by cases hp) true _ sid at_ 0 rfl
    rw [scanBound_zero_left] at h
    omega
  | false =>
    simp only [Bool.false_eq_true, if_false]
    have h := ovlScanLoop_single_le p hne sk hasPre i.hay i.s i.e i.valid.1 pre (hpre i.hay i.e)
      _ sid at_ 0 rfl
    omega

/-- `memmem` with the automaton of its pattern: every call's extent is at most the span
length -/
theorem C19_builder_ovl_prescan_memmem_ideal (K : Consts) (fold : Bool) (freq : UInt8 → Nat)
    (pats : List (List UInt8)) (avx2 ssse3 : Bool) (needle : List UInt8)
    (hb : buildPrefilter K .std fold freq pats avx2 ssse3 = some (.memmem needle))
    (sk : StartKind) (hasPre : Bool) (i : Input UInt8) (n : Nat) :
    ∀ x ∈ ovlCallsScan (ideal .std pats sk hasPre) (some (PreChoice.memmem needle).findIn) i n
      OState.start, x ≤ i.e - i.s := by
  obtain ⟨_, hp, hne⟩ := C19_builder_memmem_single hb
  subst hp
  exact ovlCallsScan_forall_le _ _ i _
    (C19_ovl_prescan_call_single needle hne sk hasPre _ (memmem_memLike needle) i) n _
    (OvlReach.start i)

/-- … and with every automaton record observationally equivalent to it -/
theorem C19_builder_ovl_prescan_memmem_tied (K : Consts) (fold : Bool) (freq : UInt8 → Nat)
    (pats : List (List UInt8)) (avx2 ssse3 : Bool) (needle : List UInt8)
    (hb : buildPrefilter K .std fold freq pats avx2 ssse3 = some (.memmem needle))
    (sk : StartKind) (hasPre : Bool) (X : Aut σ UInt8) (i : Input UInt8)
    (hk : X.kind = .std) (hl : ∀ pid, X.patLen pid = (ideal .std pats sk hasPre).patLen pid)
    (h : StartEquiv X (ideal .std pats sk hasPre) false i.anch) (n : Nat) :
    ∀ x ∈ ovlCallsScan X (some (PreChoice.memmem needle).findIn) i n OState.start,
      x ≤ i.e - i.s := by
  rw [C19_ovl_prescan_transfer X (ideal .std pats sk hasPre) _ i hk hl h n]
  exact C19_builder_ovl_prescan_memmem_ideal K fold freq pats avx2 ssse3 needle hb sk hasPre i n

/-- **C19 for the builder's prefilters, overlapping search, all choices**: whatever the builder
chooses under standard semantics, every call's prefilter extent is at most the span length, for
every automaton record tied to the ideal standard automaton of the patterns (the tie is only
used when the choice is `memmem`). -/
theorem C19_builder_ovl_prescan_tied (K : Consts) (fold : Bool) (freq : UInt8 → Nat)
    (pats : List (List UInt8)) (avx2 ssse3 : Bool) (ch : PreChoice)
    (hb : buildPrefilter K .std fold freq pats avx2 ssse3 = some ch)
    (sk : StartKind) (hasPre : Bool) (X : Aut σ UInt8) (i : Input UInt8)
    (hk : X.kind = .std) (hl : ∀ pid, X.patLen pid = (ideal .std pats sk hasPre).patLen pid)
    (h : StartEquiv X (ideal .std pats sk hasPre) false i.anch) (n : Nat) :
    ∀ x ∈ ovlCallsScan X (some ch.findIn) i n OState.start, x ≤ i.e - i.s := by
  by_cases hmm : ∃ needle, ch = .memmem needle
  · obtain ⟨needle, rfl⟩ := hmm
    exact C19_builder_ovl_prescan_memmem_tied K fold freq pats avx2 ssse3 needle hb sk hasPre X i
      hk hl h n
  · exact C19_builder_ovl_prescan_le K fold freq pats avx2 ssse3 ch hb
      (fun needle hc => hmm ⟨needle, hc⟩) X i n

/-- the ideal automaton itself -/
theorem C19_builder_ovl_prescan_ideal (K : Consts) (fold : Bool) (freq : UInt8 → Nat)
    (pats : List (List UInt8)) (avx2 ssse3 : Bool) (ch : PreChoice)
    (hb : buildPrefilter K .std fold freq pats avx2 ssse3 = some ch)
    (sk : StartKind) (hasPre : Bool) (i : Input UInt8) (n : Nat) :
    ∀ x ∈ ovlCallsScan (ideal .std pats sk hasPre) (some ch.findIn) i n OState.start,
      x ≤ i.e - i.s := by
  by_cases hmm : ∃ needle, ch = .memmem needle
  · obtain ⟨needle, rfl⟩ := hmm
    exact C19_builder_ovl_prescan_memmem_ideal K fold freq pats avx2 ssse3 needle hb sk hasPre i n
  · exact C19_builder_ovl_prescan_le K fold freq pats avx2 ssse3 ch hb
      (fun needle hc => hmm ⟨needle, hc⟩) _ i n

end AcVerif

/-! ## non-vacuity, exactness, necessity

The automaton is `ideal .std [[1, 2], [3]] .unanchored true`; on bytes other than `1` and `3` it
stays in its start state, so the prefilter is consulted at every such position the loop
visits. -/
namespace AcVerif
open AcVerif.ScanP

private def exA : Aut (St UInt8) UInt8 := ideal .std [[1, 2], [3]] .unanchored true

private def zeros6 : Input UInt8 := ⟨[0, 0, 0, 0, 0, 0], 0, 6, false, false, by decide⟩
private def zeros5 : Input UInt8 := ⟨[0, 0, 0, 0, 0], 0, 5, false, false, by decide⟩

/-- a candidate two bytes further on, as long as there is room -/
private def stepPre : Prefilter UInt8 := fun _ a e => if a + 2 ≤ e then .pos (a + 2) else .none

private theorem stepPre_ok : PreWithin (some stepPre) ∧ PreNoMtch (some stepPre) := by
  constructor
  · intro p hp hay a e hae he
    injection hp with hp; subst hp
    unfold stepPre
    by_cases h : a + 2 ≤ e
    · rw [if_pos h]; exact ⟨by omega, h⟩
    · rw [if_neg h]; trivial
  · intro p hp
    injection hp with hp; subst hp
    intro hay a e m h
    unfold stepPre at h
    split at h <;> cases h

/-- one call, three prefilter calls (at 0, 2 and 4), two jumps, stretches `0..2`, `2..4`, `4..6`:
the total is the span length exactly – `C19_ovl_prescan_call_le` is tight.  The second call
finds the state at the end of the span and does no prefilter work. -/
theorem C19_ovl_prescan_exact :
    PreWithin (some stepPre) ∧ PreNoMtch (some stepPre) ∧
    tryOvlScan exA (some stepPre) zeros6 OState.start = 6 ∧ zeros6.e - zeros6.s = 6 ∧
    ovlCallsScan exA (some stepPre) zeros6 2 OState.start = [6, 0] :=
  ⟨stepPre_ok.1, stepPre_ok.2, by decide +kernel, rfl, by decide +kernel⟩

private def hay2jumps : Input UInt8 := ⟨[0, 0, 1, 0, 0, 1, 0, 0], 0, 8, false, false, by decide⟩
private def hay013 : Input UInt8 := ⟨[0, 0, 1, 0, 0, 3, 0, 3], 0, 8, false, false, by decide⟩

/-- the start-byte prefilter of the builder model (it is what the builder chooses for these
patterns), jumping twice within ONE call: calls at 0 (candidate 2), 3 (candidate 5) and 6
(nothing: the call ends), stretches `0..2`, `3..5`, `6..8`.  The candidate bytes themselves are
walked by the automaton and are not prefilter work, so with a byte-set prefilter a call that
jumps stays below the span length.  On `hay013` the first call ends with the match of `[3]` at
`5..6` after two jumps (extent 4), the second call jumps once more (extent 1), the third
reports nothing. -/
theorem C19_ovl_prescan_startBytes :
    (buildPrefilter {} .std false (fun _ => 0) [[1, 2], [3]] false false).map PreChoice.name =
      some "start2" ∧
    tryOvlScan exA (some (PreChoice.startBytes [1, 3]).findIn) hay2jumps OState.start = 6 ∧
    hay2jumps.e - hay2jumps.s = 8 ∧
    ovlCallsScan exA (some (PreChoice.startBytes [1, 3]).findIn) hay013 3 OState.start =
      [4, 1, 0] :=
  ⟨by decide, by decide +kernel, rfl, by decide +kernel⟩

/-! ### `PreWithin` is needed -/

/-- a candidate beyond the end of the span -/
private def farPre : Prefilter UInt8 := fun _ _ e => .pos (e + 3)

theorem C19_ovl_prescan_needs_within :
    PreNoMtch (some farPre) ∧ tryOvlScan exA (some farPre) zeros6 OState.start = 9 ∧
    zeros6.e - zeros6.s = 6 :=
  ⟨fun p hp => by
      injection hp with hp; subst hp
      exact (fun _ _ _ _ h => by cases h),
    by decide +kernel, rfl⟩

theorem C19_ovl_prescan_call_not_le_of_noMtch :
    ¬ ∀ (A : Aut (St UInt8) UInt8) (pre : Option (Prefilter UInt8)), PreNoMtch pre →
        ∀ i : Input UInt8, tryOvlScan A pre i OState.start ≤ i.e - i.s := by
  intro h
  have := h exA (some farPre) C19_ovl_prescan_needs_within.1 zeros6
  rw [C19_ovl_prescan_needs_within.2.1] at this
  exact absurd this (by decide)

/-! ### `PreWithin ∧ PreUniform` is not enough: a confirming prefilter inside the loop -/

/-- confirmed matches of length ≤ 1 starting one byte after the start of the span -/
private def mtchPre : Prefilter UInt8 := fun _ a e => .mtch ⟨0, a + 1, min (a + 2) e⟩

private theorem mtchPre_ok :
    PreWithin (some mtchPre) ∧ PreUniform (some mtchPre) ∧ PreMtchLen 1 (some mtchPre) := by
  refine ⟨?_, ?_, ?_⟩
  · intro p hp hay a e hae he
    injection hp with hp; subst hp
    exact Nat.min_le_right _ _
  · intro p hp
    injection hp with hp; subst hp
    exact Or.inl (fun _ _ _ _ h => by cases h)
  · intro p hp hay a e m h
    injection hp with hp; subst hp
    unfold mtchPre at h
    injection h with h
    subst h
    exact Nat.min_le_left _ _

/-- The bound `i.e - i.s` is FALSE for one overlapping call under `PreWithin ∧ PreUniform`: the
prefilter only confirms matches, it is consulted inside the loop, the stretch is counted to
`m.stop` and the loop resumes at `m.start`.  Calls at 0, 1, 2, 3, 4 report the stretches `0..2`,
`1..3`, `2..4`, `3..5`, `4..5`: `9 = 5 + 1 * (5 - 1)`, the bound of
`C19_ovl_prescan_call_le_len` is attained. -/
theorem C19_ovl_prescan_mtch_exceeds :
    PreWithin (some mtchPre) ∧ PreUniform (some mtchPre) ∧ PreMtchLen 1 (some mtchPre) ∧
    tryOvlScan exA (some mtchPre) zeros5 OState.start = 9 ∧ zeros5.e - zeros5.s = 5 :=
  ⟨mtchPre_ok.1, mtchPre_ok.2.1, mtchPre_ok.2.2, by decide +kernel, rfl⟩

theorem C19_ovl_prescan_call_not_le_of_uniform :
    ¬ ∀ (A : Aut (St UInt8) UInt8) (pre : Option (Prefilter UInt8)), PreWithin pre →
        PreUniform pre → ∀ (i : Input UInt8) (st : OState (St UInt8)), OvlReach i st →
          tryOvlScan A pre i st ≤ i.e - i.s := by
  intro h
  have := h exA (some mtchPre) mtchPre_ok.1 mtchPre_ok.2.1 zeros5 OState.start
    (OvlReach.start _)
  rw [C19_ovl_prescan_mtch_exceeds.2.2.2.1] at this
  exact absurd this (by decide)

/-! ### `memmem` with an automaton that is not the automaton of its pattern -/

private def hay55 : Input UInt8 := ⟨[0, 0, 5, 5, 5, 5], 0, 6, false, false, by decide⟩

/-- The builder chooses `memmem` for the single pattern `[5, 5]`.  Combined with an automaton
record that stays in its start state on `5` (it is the automaton of OTHER patterns) one call
reports the stretches `0..4`, `2..4`, `3..5`, `4..6`, `5..6`: `11 > 6`.  With the automaton of
`[5, 5]` the same call reports `0..4` only and returns the match at `2..4`. -/
theorem C19_builder_ovl_memmem_any_aut_exceeds :
    buildPrefilter {} .std false (fun _ => 0) [[5, 5]] false false = some (.memmem [5, 5]) ∧
    tryOvlScan exA (some (PreChoice.memmem [5, 5]).findIn) hay55 OState.start = 11 ∧
    hay55.e - hay55.s = 6 ∧
    ovlCallsScan (ideal .std [[5, 5]] .unanchored true) (some (PreChoice.memmem [5, 5]).findIn)
      hay55 5 OState.start = [4, 0, 0, 0, 0] :=
  ⟨by rfl, by decide +kernel, rfl, by decide +kernel⟩

end AcVerif
