import AcVerif.Theorems.C07
/-!
# C08 – chunks reproduce the stream; stream replace = in-memory replace

The chunks of `StreamChunkIter` are consecutive slices of the stream
(`StreamP.Spec`): concatenated they give back the stream, each match chunk
carries exactly the matched bytes, and `try_stream_replace_all_with` writes
what `try_replace_all_with_bytes` computes in memory from the in-memory
iterator's matches, calling the closure with the same arguments.
-/
namespace AcVerif
open AcVerif.StreamP AcVerif.StdP
variable {α : Type} [DecidableEq α]

/-- concatenating all chunk bytes gives back the stream, and each match chunk
carries exactly the matched bytes (any buffer constants with `min < cap`) -/
theorem C08_chunks_concat (P : List (List α)) (_hP : P ≠ []) (hne : ∀ p ∈ P, p ≠ [])
    (sk : StartKind) (hsk : supportsAnch sk false) (data : List α) (sched : List Nat)
    (hs : ∀ x ∈ sched, 1 ≤ x) (spare : Option Nat) (minFactor defaultCap : Nat)
    (hcap : (Buffer.new (α := α) (ideal .std P sk false).maxLen spare minFactor defaultCap).min <
        (Buffer.new (α := α) (ideal .std P sk false).maxLen spare minFactor defaultCap).cap) :
    ∃ it cs,
      ChunkIter.new (ideal .std P sk false) { data := data, sched := sched } spare
        minFactor defaultCap = .ok it ∧
      ChunkIter.drain (ideal .std P sk false) (drainFuel data) it = (cs, false, 0) ∧
      (cs.flatMap fun c => match c with | .nonMatch b => b | .mtch b _ => b) = data ∧
      ∀ b m, Chunk.mtch b m ∈ cs → b = (data.take m.stop).drop m.start := by
  obtain ⟨it, cs, err, hnew, hd, hsp, he, _⟩ :=
    stream_master P sk hsk hne data sched hs spare minFactor defaultCap hcap none
  have herr := he rfl
  subst herr
  have H := hyp_ideal P sk hsk hne data sched hs spare minFactor defaultCap hcap
  obtain ⟨h1, h2⟩ := spec_concat H.FOK hsp (Nat.zero_le _)
  refine ⟨it, cs, hnew, hd, ?_, h2⟩
  have e : (fun c : Chunk α => match c with | .nonMatch b => b | .mtch b _ => b) = chunkBytes := by
    funext c; cases c <;> rfl
  rw [e, h1]
  rfl

theorem C08_replace_eq (P : List (List α)) (_hP : P ≠ []) (hne : ∀ p ∈ P, p ≠ [])
    (sk : StartKind) (hsk : supportsAnch sk false) (data : List α) (sched : List Nat)
    (hs : ∀ x ∈ sched, 1 ≤ x) (spare : Option Nat) (minFactor defaultCap : Nat)
    (hcap : (Buffer.new (α := α) (ideal .std P sk false).maxLen spare minFactor defaultCap).min <
        (Buffer.new (α := α) (ideal .std P sk false).maxLen spare minFactor defaultCap).cap)
    (repl : Mat → List α) :
    ∃ ms,
      findIter (ideal .std P sk false) none
        { hay := data, s := 0, e := data.length, anch := false, earliest := false,
          valid := ⟨Nat.le_refl _, Nat.zero_le _⟩ } = .ok ms ∧
      streamReplaceWith (ideal .std P sk false) { data := data, sched := sched } spare {} repl
        minFactor defaultCap =
        .ok ({ out := (replaceBytes data ms repl none).1 },
          (replaceBytes data ms repl none).2, true, 0) := by
  obtain ⟨it, cs, err, hnew, hd, hsp, he, hgo⟩ :=
    stream_master P sk hsk hne data sched hs spare minFactor defaultCap hcap none
  have herr := he rfl
  subst herr
  have H := hyp_ideal P sk hsk hne data sched hs spare minFactor defaultCap hcap
  have hm := (spec_mats H.FOK hsp (Nat.zero_le _)).2 rfl
  refine ⟨_, findIter_eq P sk hsk data, ?_⟩
  rw [iter_findAt P sk hsk hne data, ← hm]
  have hr := spec_replace repl hsp (Nat.le_refl _) 0 [] []
  rw [slice_self, List.append_nil] at hr
  simp only [streamReplaceWith, hnew, hgo]
  rw [hr]
  rfl

/-! ## corollaries: the default constants, any factor `≥ 2`, explicit spare room -/

/-- the default constants (factor 8, 64 KiB) -/
theorem C08_chunks_concat_default (P : List (List α)) (_hP : P ≠ []) (hne : ∀ p ∈ P, p ≠ [])
    (sk : StartKind) (hsk : supportsAnch sk false) (data : List α) (sched : List Nat)
    (hs : ∀ x ∈ sched, 1 ≤ x) (spare : Option Nat) :
    ∃ it cs,
      ChunkIter.new (ideal .std P sk false) { data := data, sched := sched } spare = .ok it ∧
      ChunkIter.drain (ideal .std P sk false) (drainFuel data) it = (cs, false, 0) ∧
      (cs.flatMap fun c => match c with | .nonMatch b => b | .mtch b _ => b) = data ∧
      ∀ b m, Chunk.mtch b m ∈ cs → b = (data.take m.stop).drop m.start :=
  C08_chunks_concat P _hP hne sk hsk data sched hs spare 8 (64 * 1024) (hcap_default _ spare)

/-- production-shaped capacity `max (min * minFactor) defaultCap`, any `minFactor ≥ 2` -/
theorem C08_chunks_concat_factor (P : List (List α)) (_hP : P ≠ []) (hne : ∀ p ∈ P, p ≠ [])
    (sk : StartKind) (hsk : supportsAnch sk false) (data : List α) (sched : List Nat)
    (hs : ∀ x ∈ sched, 1 ≤ x) (minFactor defaultCap : Nat) (hf : 2 ≤ minFactor) :
    ∃ it cs,
      ChunkIter.new (ideal .std P sk false) { data := data, sched := sched } none
        minFactor defaultCap = .ok it ∧
      ChunkIter.drain (ideal .std P sk false) (drainFuel data) it = (cs, false, 0) ∧
      (cs.flatMap fun c => match c with | .nonMatch b => b | .mtch b _ => b) = data ∧
      ∀ b m, Chunk.mtch b m ∈ cs → b = (data.take m.stop).drop m.start :=
  C08_chunks_concat P _hP hne sk hsk data sched hs none minFactor defaultCap
    (hcap_factor _ minFactor defaultCap hf)

/-- explicit spare room `min + max 1 sp`, whatever the constants -/
theorem C08_chunks_concat_spare (P : List (List α)) (_hP : P ≠ []) (hne : ∀ p ∈ P, p ≠ [])
    (sk : StartKind) (hsk : supportsAnch sk false) (data : List α) (sched : List Nat)
    (hs : ∀ x ∈ sched, 1 ≤ x) (sp minFactor defaultCap : Nat) :
    ∃ it cs,
      ChunkIter.new (ideal .std P sk false) { data := data, sched := sched } (some sp)
        minFactor defaultCap = .ok it ∧
      ChunkIter.drain (ideal .std P sk false) (drainFuel data) it = (cs, false, 0) ∧
      (cs.flatMap fun c => match c with | .nonMatch b => b | .mtch b _ => b) = data ∧
      ∀ b m, Chunk.mtch b m ∈ cs → b = (data.take m.stop).drop m.start :=
  C08_chunks_concat P _hP hne sk hsk data sched hs (some sp) minFactor defaultCap
    (hcap_spare _ sp minFactor defaultCap)

theorem C08_replace_eq_default (P : List (List α)) (_hP : P ≠ []) (hne : ∀ p ∈ P, p ≠ [])
    (sk : StartKind) (hsk : supportsAnch sk false) (data : List α) (sched : List Nat)
    (hs : ∀ x ∈ sched, 1 ≤ x) (spare : Option Nat) (repl : Mat → List α) :
    ∃ ms,
      findIter (ideal .std P sk false) none
        { hay := data, s := 0, e := data.length, anch := false, earliest := false,
          valid := ⟨Nat.le_refl _, Nat.zero_le _⟩ } = .ok ms ∧
      streamReplaceWith (ideal .std P sk false) { data := data, sched := sched } spare {} repl =
        .ok ({ out := (replaceBytes data ms repl none).1 },
          (replaceBytes data ms repl none).2, true, 0) :=
  C08_replace_eq P _hP hne sk hsk data sched hs spare 8 (64 * 1024) (hcap_default _ spare) repl

theorem C08_replace_eq_factor (P : List (List α)) (_hP : P ≠ []) (hne : ∀ p ∈ P, p ≠ [])
    (sk : StartKind) (hsk : supportsAnch sk false) (data : List α) (sched : List Nat)
    (hs : ∀ x ∈ sched, 1 ≤ x) (minFactor defaultCap : Nat) (hf : 2 ≤ minFactor)
    (repl : Mat → List α) :
    ∃ ms,
      findIter (ideal .std P sk false) none
        { hay := data, s := 0, e := data.length, anch := false, earliest := false,
          valid := ⟨Nat.le_refl _, Nat.zero_le _⟩ } = .ok ms ∧
      streamReplaceWith (ideal .std P sk false) { data := data, sched := sched } none {} repl
        minFactor defaultCap =
        .ok ({ out := (replaceBytes data ms repl none).1 },
          (replaceBytes data ms repl none).2, true, 0) :=
  C08_replace_eq P _hP hne sk hsk data sched hs none minFactor defaultCap
    (hcap_factor _ minFactor defaultCap hf) repl

theorem C08_replace_eq_spare (P : List (List α)) (_hP : P ≠ []) (hne : ∀ p ∈ P, p ≠ [])
    (sk : StartKind) (hsk : supportsAnch sk false) (data : List α) (sched : List Nat)
    (hs : ∀ x ∈ sched, 1 ≤ x) (sp minFactor defaultCap : Nat) (repl : Mat → List α) :
    ∃ ms,
      findIter (ideal .std P sk false) none
        { hay := data, s := 0, e := data.length, anch := false, earliest := false,
          valid := ⟨Nat.le_refl _, Nat.zero_le _⟩ } = .ok ms ∧
      streamReplaceWith (ideal .std P sk false) { data := data, sched := sched } (some sp) {} repl
        minFactor defaultCap =
        .ok ({ out := (replaceBytes data ms repl none).1 },
          (replaceBytes data ms repl none).2, true, 0) :=
  C08_replace_eq P _hP hne sk hsk data sched hs (some sp) minFactor defaultCap
    (hcap_spare _ sp minFactor defaultCap) repl

/-! ## non-vacuity: a match split across reads, capacity `min + 1` -/

/-- the hypotheses are satisfiable -/
example (repl : Mat → List Nat) : ∃ ms,
    findIter (ideal .std [[1, 2, 3], [3, 4]] .both false) none
      { hay := [0, 1, 2, 3, 4, 1, 2, 3], s := 0, e := 8, anch := false, earliest := false,
        valid := ⟨Nat.le_refl _, Nat.zero_le _⟩ } = .ok ms ∧
    streamReplaceWith (ideal .std [[1, 2, 3], [3, 4]] .both false)
      { data := [0, 1, 2, 3, 4, 1, 2, 3], sched := [2, 1, 3, 1] } (some 1) {} repl =
      .ok ({ out := (replaceBytes [0, 1, 2, 3, 4, 1, 2, 3] ms repl none).1 },
        (replaceBytes [0, 1, 2, 3, 4, 1, 2, 3] ms repl none).2, true, 0) :=
  C08_replace_eq_default [[1, 2, 3], [3, 4]] (by decide) (by decide) .both (Or.inl rfl)
    [0, 1, 2, 3, 4, 1, 2, 3] [2, 1, 3, 1] (by decide) (some 1) repl

/-- the general theorem's `hcap` is satisfiable with non-default constants
(factor 2, default capacity 0: a 6-byte buffer for `min = 3`) -/
example (repl : Mat → List Nat) : ∃ ms,
    findIter (ideal .std [[1, 2, 3], [3, 4]] .both false) none
      { hay := [0, 1, 2, 3, 4, 1, 2, 3], s := 0, e := 8, anch := false, earliest := false,
        valid := ⟨Nat.le_refl _, Nat.zero_le _⟩ } = .ok ms ∧
    streamReplaceWith (ideal .std [[1, 2, 3], [3, 4]] .both false)
      { data := [0, 1, 2, 3, 4, 1, 2, 3], sched := [2, 1, 3, 1] } none {} repl 2 0 =
      .ok ({ out := (replaceBytes [0, 1, 2, 3, 4, 1, 2, 3] ms repl none).1 },
        (replaceBytes [0, 1, 2, 3, 4, 1, 2, 3] ms repl none).2, true, 0) :=
  C08_replace_eq [[1, 2, 3], [3, 4]] (by decide) (by decide) .both (Or.inl rfl)
    [0, 1, 2, 3, 4, 1, 2, 3] [2, 1, 3, 1] (by decide) none 2 0 (by decide) repl

/-- the chunk sequence: reads of 2, 1, 3, 1, … bytes into a 4-byte buffer -/
example : (ChunkIter.new (ideal .std [[1, 2, 3], [3, 4]] .both false)
      { data := [0, 1, 2, 3, 4, 1, 2, 3], sched := [2, 1, 3, 1] } (some 1)).toOption.map
      (fun it => ChunkIter.drain (ideal .std [[1, 2, 3], [3, 4]] .both false) 20 it) =
    some ([.nonMatch [0], .mtch [1, 2, 3] ⟨0, 1, 4⟩, .nonMatch [4], .mtch [1, 2, 3] ⟨0, 5, 8⟩],
      false, 0) := by rfl

/-- replacing each match by `[9, pid]` -/
example : streamReplaceWith (ideal .std [[1, 2, 3], [3, 4]] .both false)
    { data := [0, 1, 2, 3, 4, 1, 2, 3], sched := [2, 1, 3, 1] } (some 1) {}
    (fun m => [9, m.pid]) =
    .ok ({ out := [0, 9, 0, 4, 9, 0] },
      [(⟨0, 1, 4⟩, [1, 2, 3]), (⟨0, 5, 8⟩, [1, 2, 3])], true, 0) := by rfl

end AcVerif
