import AcVerif.Proofs.LmTop
/-!
# C01 – unanchored, non-earliest search with the leftmost match kinds

`tryFindFwd` on the ideal leftmost automaton returns *the* leftmost-longest
(resp. leftmost-first) occurrence of the span, `none` iff there is none.
-/
namespace AcVerif
variable {α : Type} [DecidableEq α]

theorem C01_find_ll (P : List (List α)) (sk : StartKind) (i : Input α)
    (ha : i.anch = false) (he : i.earliest = false) (h : supportsAnch sk false) :
    ∃ r, tryFindFwd (ideal .ll P sk false) none i = .ok r ∧
      IsFind .ll P i.hay i.s i.e false r := by
  have := LmP.find_ll P sk i he (ha ▸ h)
  rwa [ha] at this

theorem C01_find_lf (P : List (List α)) (sk : StartKind) (i : Input α)
    (ha : i.anch = false) (he : i.earliest = false) (h : supportsAnch sk false) :
    ∃ r, tryFindFwd (ideal .lf P sk false) none i = .ok r ∧
      IsFind .lf P i.hay i.s i.e false r := by
  have := LmP.find_lf P sk i he (ha ▸ h)
  rwa [ha] at this

/-! Non-vacuity: nested, duplicate and empty patterns.  (`findLoop` is a well-founded
recursion, so the evaluation goes through the proved structural form `findQ`.) -/

/-- nested + duplicate patterns: leftmost start 1, longest there is `[1,2,3]` (id 4) -/
example : tryFindFwd (ideal .ll [[2], [1, 2], [1, 2], [3], [1, 2, 3], [1, 2, 3]] .both false) none
    { hay := [0, 1, 2, 3, 0], s := 0, e := 5, valid := by decide } =
    .ok (some ⟨4, 1, 4⟩) := by
  rw [LmP.tryFind_ideal _ (Or.inl rfl) _ _ _ (Or.inl rfl) (by decide)]; rfl

/-- same patterns, leftmost-first: the earliest supplied pattern at start 1 is `[1,2]` (id 1) -/
example : tryFindFwd (ideal .lf [[2], [1, 2], [1, 2], [3], [1, 2, 3], [1, 2, 3]] .both false) none
    { hay := [0, 1, 2, 3, 0], s := 0, e := 5, valid := by decide } =
    .ok (some ⟨1, 1, 3⟩) := by
  rw [LmP.tryFind_ideal _ (Or.inr rfl) _ _ _ (Or.inl rfl) (by decide)]; rfl

/-- with an empty pattern, on a sub-span: longest at the span start wins under `.ll` … -/
example : tryFindFwd (ideal .ll [[1], [], [1, 2], [1, 2]] .unanchored false) none
    { hay := [9, 1, 2, 3], s := 1, e := 4, valid := by decide } =
    .ok (some ⟨2, 1, 3⟩) := by
  rw [LmP.tryFind_ideal _ (Or.inl rfl) _ _ _ (Or.inr (Or.inl ⟨rfl, rfl⟩)) (by decide)]; rfl

/-- … and the first supplied one under `.lf`; the span end cuts longer patterns -/
example : tryFindFwd (ideal .lf [[1, 2, 3], [], [1, 2], [1]] .unanchored false) none
    { hay := [9, 1, 2, 3], s := 1, e := 3, valid := by decide } =
    .ok (some ⟨1, 1, 1⟩) := by
  rw [LmP.tryFind_ideal _ (Or.inr rfl) _ _ _ (Or.inr (Or.inl ⟨rfl, rfl⟩)) (by decide)]; rfl

end AcVerif
