import AcVerif.Theorems.C11
import AcVerif.Proofs.LmTop
/-!
# C11 – case-insensitive search with the leftmost match kinds

The case-insensitive searcher (automaton of the folded patterns, input bytes
folded on the way in) returns THE leftmost-longest / leftmost-first answer of
the specification read on the folded patterns and the folded haystack, in
both anchoring modes.
-/
namespace AcVerif
open AcVerif.MiscP

theorem C11_find_ll (P : List (List UInt8)) (sk : StartKind) (i : Input UInt8)
    (he : i.earliest = false) (h : supportsAnch sk i.anch) :
    ∃ r, tryFindFwd ((ideal .ll (P.map (·.map foldByte)) sk false).comap foldByte) none i
          = .ok r ∧
       IsFind .ll (P.map (·.map foldByte)) (i.hay.map foldByte) i.s i.e i.anch r := by
  obtain ⟨r, h1, h2⟩ := LmP.find_ll (P.map (·.map foldByte)) sk (i.mapHay foldByte) he h
  exact ⟨r, (tryFindFwd_comap _ foldByte i).trans h1, h2⟩

theorem C11_find_lf (P : List (List UInt8)) (sk : StartKind) (i : Input UInt8)
    (he : i.earliest = false) (h : supportsAnch sk i.anch) :
    ∃ r, tryFindFwd ((ideal .lf (P.map (·.map foldByte)) sk false).comap foldByte) none i
          = .ok r ∧
       IsFind .lf (P.map (·.map foldByte)) (i.hay.map foldByte) i.s i.e i.anch r := by
  obtain ⟨r, h1, h2⟩ := LmP.find_lf (P.map (·.map foldByte)) sk (i.mapHay foldByte) he h
  exact ⟨r, (tryFindFwd_comap _ foldByte i).trans h1, h2⟩

end AcVerif
