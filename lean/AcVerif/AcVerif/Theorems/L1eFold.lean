import AcVerif.Proofs.ContigFoldSim
import AcVerif.Theorems.L1e
import AcVerif.Theorems.L1dFold
/-!
# L1e (fold) – the contiguous NFA built from the NFA compiled with `ascii_case_insensitive(true)`

`buildContig N dd bc hasPre` applied to `N = CNfa.compile k true P` (both-case edges in the trie)
is, for **every** pattern list (`P.length < 2^31`, as in L1e), match kind, dense depth, both
settings of `byte_classes`, with or without prefilter, and both anchoring modes observationally
equivalent to `N` run on the RAW input bytes (`L1eFold_obsEquiv`), follows exactly as many failure
links (`L1eFold_hops`; with L1cFold: `Ideal.hops` of the folded patterns on the folded byte,
`L1eFold_hops_ideal`), and hence is equivalent to the specification of the case-insensitive
searcher (C11), `(ideal k (P.map (·.map foldByte)) .both hasPre).comap foldByte`
(`L1eFold_obsEquiv_ideal`, `L1eFold_startEquiv`).  So every search result transfers
(`L1eFold_find`, `L1eFold_iter`, `L1eFold_overlap`, `L1eFold_overlap_iter`) and the contiguous NFA
meets the specification read on folded patterns and folded haystack (`L1eFold_find_std`,
`L1eFold_find_ll`, `L1eFold_find_lf`, `L1eFold_overlap_calls`).

The proof (`AcVerif/Proofs/ContigFold*.lean`, namespace `AcVerif.L1eFoldP`) is the one of L1e with
`FSf` in place of `FS`: `compile_specX_f` (the list-level facts `FX` – sorted transition lists, no
`FAIL` target at trie nodes, full start states – hold for the folding compiler too), `Lv.cong_f`
(the byte classes, computed from the edges of `N` itself, are a congruence at live states; this is
what `State::write` needs to store one target per class), `step_same_f`, `obs_live_f`,
`contig_run_f`.  Shuffle, layout and decoding lemmas are independent of the compiler and re-used.
-/
namespace AcVerif
open AcVerif.L1cP AcVerif.L1dP AcVerif.L1eP AcVerif.L1cFoldP AcVerif.L1dFoldP AcVerif.L1eFoldP
open AcVerif.CNfa

/-- the start ids of the contiguous NFA are the new ids of the two start states -/
theorem L1eFold_start (k : MatchKind) (P : List (List UInt8)) (hasPre bc : Bool) (dd : Nat) (anch : Bool) :
    (if anch then (buildContig (CNfa.compile k true P) dd bc hasPre).startA
      else (buildContig (CNfa.compile k true P) dd bc hasPre).startU) =
      cNewId (CNfa.compile k true P) dd bc (if anch then CNfa.SA else CNfa.SU) := by
  obtain ⟨L, hFS, _⟩ := compile_specX_f k P
  have hS := shufOK _ hFS.four_le_size
  rw [buildContig_eq]
  cases anch
  · exact startU_eq hS dd bc hasPre
  · exact startA_eq hS dd bc hasPre

/-- the run of the contiguous NFA is the image under `newId` of the run of the noncontiguous NFA,
which stays in the simulation relation of L1c -/
theorem L1eFold_run (k : MatchKind) (P : List (List UInt8)) (hasPre bc : Bool) (dd : Nat) (anch : Bool)
    (w : List UInt8) :
    ∃ L q', FSf k (patSet k (P.map (·.map foldByte))) L (CNfa.compile k true P) ∧ FX L (CNfa.compile k true P) ∧
      Rel L anch (((CNfa.compile k true P).toAut k P hasPre).runFrom anch
        (if anch then CNfa.SA else CNfa.SU) w) q' ∧
      ((buildContig (CNfa.compile k true P) dd bc hasPre).toAut k P hasPre).runFrom anch
          (if anch then (buildContig (CNfa.compile k true P) dd bc hasPre).startA
            else (buildContig (CNfa.compile k true P) dd bc hasPre).startU) w =
        cNewId (CNfa.compile k true P) dd bc
          (((CNfa.compile k true P).toAut k P hasPre).runFrom anch
            (if anch then CNfa.SA else CNfa.SU) w) := by
  obtain ⟨L, hFS, hX⟩ := compile_specX_f k P
  have h0 : Rel L anch (if anch then CNfa.SA else CNfa.SU) (.at []) := by
    simp only [Rel, if_true]
  obtain ⟨q', h1, h2⟩ := contig_run_f k P hasPre bc dd anch hFS hX w _ _ h0
  refine ⟨L, q', hFS, hX, h1, ?_⟩
  rw [L1eFold_start, buildContig_eq]
  exact h2

/-- the contiguous NFA equals the noncontiguous NFA it was built from, observationally (flags by
id range, ordered match lists decoded from the words), for both anchoring modes -/
theorem L1eFold_obsEquiv (k : MatchKind) (P : List (List UInt8)) (hasPre bc : Bool) (dd : Nat)
    (hP : P.length < 2147483648) (anch : Bool) :
    ObsEquiv ((buildContig (CNfa.compile k true P) dd bc hasPre).toAut k P hasPre)
      ((CNfa.compile k true P).toAut k P hasPre) false anch
      (if anch then (buildContig (CNfa.compile k true P) dd bc hasPre).startA
        else (buildContig (CNfa.compile k true P) dd bc hasPre).startU)
      (if anch then CNfa.SA else CNfa.SU) := by
  intro w
  obtain ⟨L, q', hFS, _, h1, h2⟩ := L1eFold_run k P hasPre bc dd anch w
  rw [h2, buildContig_eq]
  apply obs_live_f dd bc hasPre hFS P (LvA_of_Rel h1).lv
  rw [Rel_mats_f hFS h1]
  have := out_length_le k (P.map (·.map foldByte)) q'
  rw [List.length_map] at this
  omega

/-- it follows exactly as many failure links -/
theorem L1eFold_hops (k : MatchKind) (P : List (List UInt8)) (hasPre bc : Bool) (dd : Nat)
    (w : List UInt8) (c : UInt8) :
    ((buildContig (CNfa.compile k true P) dd bc hasPre).nextState false
        ((buildContig (CNfa.compile k true P) dd bc hasPre).repr.size + 1)
        (((buildContig (CNfa.compile k true P) dd bc hasPre).toAut k P hasPre).runFrom false
          (buildContig (CNfa.compile k true P) dd bc hasPre).startU w) c (0, 0)).2 =
      (CNfa.nextState (CNfa.compile k true P) false ((CNfa.compile k true P).size + 1)
        (((CNfa.compile k true P).toAut k P hasPre).runFrom false CNfa.SU w) c 0).2 := by
  obtain ⟨L, q', hFS, hX, h1, h2⟩ := L1eFold_run k P hasPre bc dd false w
  simp only [Bool.false_eq_true, if_false] at h1 h2
  rw [h2, buildContig_eq, step_live_f dd bc hasPre hFS hX false c (LvA_of_Rel h1)]

/-- … and the state it reaches is the new id of the state the noncontiguous NFA reaches -/
theorem L1eFold_next (k : MatchKind) (P : List (List UInt8)) (hasPre bc : Bool) (dd : Nat) (anch : Bool)
    (w : List UInt8) (c : UInt8) :
    ((buildContig (CNfa.compile k true P) dd bc hasPre).toAut k P hasPre).next anch
        (((buildContig (CNfa.compile k true P) dd bc hasPre).toAut k P hasPre).runFrom anch
          (if anch then (buildContig (CNfa.compile k true P) dd bc hasPre).startA
            else (buildContig (CNfa.compile k true P) dd bc hasPre).startU) w) c =
      cNewId (CNfa.compile k true P) dd bc
        (((CNfa.compile k true P).toAut k P hasPre).next anch
          (((CNfa.compile k true P).toAut k P hasPre).runFrom anch
            (if anch then CNfa.SA else CNfa.SU) w) c) := by
  obtain ⟨L, q', hFS, hX, h1, h2⟩ := L1eFold_run k P hasPre bc dd anch w
  rw [h2, buildContig_eq]
  show (ContigM.nextState _ anch _ _ c (0, 0)).1 = _
  rw [step_live_f dd bc hasPre hFS hX anch c (LvA_of_Rel h1)]
  rfl

/-- composed with L1cFold: equivalent to the ideal automaton -/
theorem L1eFold_obsEquiv_ideal (k : MatchKind) (P : List (List UInt8)) (hasPre bc : Bool) (dd : Nat)
    (hP : P.length < 2147483648) (anch : Bool) :
    ObsEquiv ((buildContig (CNfa.compile k true P) dd bc hasPre).toAut k P hasPre)
      ((ideal k (P.map (·.map foldByte)) .both hasPre).comap foldByte) false anch
      (if anch then (buildContig (CNfa.compile k true P) dd bc hasPre).startA
        else (buildContig (CNfa.compile k true P) dd bc hasPre).startU) (.at []) :=
  (L1eFold_obsEquiv k P hasPre bc dd hP anch).trans (L1cFold_obsEquiv k P hasPre anch)

/-- … hence `StartEquiv`, so every engine result transfers -/
theorem L1eFold_startEquiv (k : MatchKind) (P : List (List UInt8)) (hasPre bc : Bool) (dd : Nat)
    (hP : P.length < 2147483648) (anch : Bool) :
    StartEquiv ((buildContig (CNfa.compile k true P) dd bc hasPre).toAut k P hasPre)
      ((ideal k (P.map (·.map foldByte)) .both hasPre).comap foldByte) false anch := by
  have h := L1eFold_obsEquiv_ideal k P hasPre bc dd hP anch
  unfold StartEquiv
  have hA : ((buildContig (CNfa.compile k true P) dd bc hasPre).toAut k P hasPre).start anch =
      some (if anch then (buildContig (CNfa.compile k true P) dd bc hasPre).startA
        else (buildContig (CNfa.compile k true P) dd bc hasPre).startU) := rfl
  have hB : ((ideal k (P.map (·.map foldByte)) .both hasPre).comap foldByte).start anch = some (.at []) := by cases anch <;> rfl
  rw [hA, hB]
  exact h

/-- the hop count is the ideal chain length of the folded patterns on the folded byte -/
theorem L1eFold_hops_ideal (k : MatchKind) (P : List (List UInt8)) (hasPre bc : Bool) (dd : Nat)
    (w : List UInt8) (c : UInt8) :
    ((buildContig (CNfa.compile k true P) dd bc hasPre).nextState false
        ((buildContig (CNfa.compile k true P) dd bc hasPre).repr.size + 1)
        (((buildContig (CNfa.compile k true P) dd bc hasPre).toAut k P hasPre).runFrom false
          (buildContig (CNfa.compile k true P) dd bc hasPre).startU w) c (0, 0)).2 =
      Ideal.hops k (patSet k (P.map (·.map foldByte))) false
        (((ideal k (P.map (·.map foldByte)) .both hasPre).comap foldByte).runFrom false
          (.at []) w) (foldByte c) :=
  (L1eFold_hops k P hasPre bc dd w c).trans (L1cFold_hops k P hasPre w c)

theorem L1eFold_patLen (k : MatchKind) (P : List (List UInt8)) (hasPre bc : Bool) (dd : Nat)
    (pid : Nat) :
    ((buildContig (CNfa.compile k true P) dd bc hasPre).toAut k P hasPre).patLen pid =
      ((ideal k (P.map (·.map foldByte)) .both hasPre).comap foldByte).patLen pid :=
  (C11_ids P pid).2.symm

theorem L1eFold_kind (k : MatchKind) (P : List (List UInt8)) (hasPre bc : Bool) (dd : Nat) :
    ((buildContig (CNfa.compile k true P) dd bc hasPre).toAut k P hasPre).kind =
      ((ideal k (P.map (·.map foldByte)) .both hasPre).comap foldByte).kind := rfl

/-! ## corollaries: every search result transfers -/

theorem L1eFold_find (k : MatchKind) (P : List (List UInt8)) (hasPre bc : Bool) (dd : Nat)
    (hP : P.length < 2147483648) (pre : Option (Prefilter UInt8)) (i : Input UInt8) :
    tryFindFwd ((buildContig (CNfa.compile k true P) dd bc hasPre).toAut k P hasPre) pre i =
      tryFindFwd ((ideal k (P.map (·.map foldByte)) .both hasPre).comap foldByte) pre i :=
  C04_find_transfer _ _ pre i (L1eFold_kind k P hasPre bc dd) (L1eFold_patLen k P hasPre bc dd)
    (C04_StartEquiv_false_true _ _ _ (L1eFold_startEquiv k P hasPre bc dd hP i.anch))

theorem L1eFold_iter (k : MatchKind) (P : List (List UInt8)) (hasPre bc : Bool) (dd : Nat)
    (hP : P.length < 2147483648) (pre : Option (Prefilter UInt8)) (i : Input UInt8) :
    findIter ((buildContig (CNfa.compile k true P) dd bc hasPre).toAut k P hasPre) pre i =
      findIter ((ideal k (P.map (·.map foldByte)) .both hasPre).comap foldByte) pre i :=
  C04_iter_transfer _ _ pre i (L1eFold_kind k P hasPre bc dd) (L1eFold_patLen k P hasPre bc dd)
    (C04_StartEquiv_false_true _ _ _ (L1eFold_startEquiv k P hasPre bc dd hP i.anch))

theorem L1eFold_overlap (k : MatchKind) (P : List (List UInt8)) (hasPre bc : Bool) (dd : Nat)
    (hP : P.length < 2147483648) (pre : Option (Prefilter UInt8)) (i : Input UInt8) (n : Nat) :
    ovlCalls ((buildContig (CNfa.compile k true P) dd bc hasPre).toAut k P hasPre) pre i n
        OState.start =
      ovlCalls ((ideal k (P.map (·.map foldByte)) .both hasPre).comap foldByte) pre i n
        OState.start :=
  C04_overlap_transfer _ _ pre i (L1eFold_kind k P hasPre bc dd) (L1eFold_patLen k P hasPre bc dd)
    (L1eFold_startEquiv k P hasPre bc dd hP i.anch) n

theorem L1eFold_overlap_iter (k : MatchKind) (P : List (List UInt8)) (hasPre bc : Bool) (dd : Nat)
    (hP : P.length < 2147483648) (pre : Option (Prefilter UInt8)) (i : Input UInt8) (fuel : Nat) :
    ovlIterAux ((buildContig (CNfa.compile k true P) dd bc hasPre).toAut k P hasPre) pre i fuel
        OState.start =
      ovlIterAux ((ideal k (P.map (·.map foldByte)) .both hasPre).comap foldByte) pre i fuel
        OState.start :=
  C04_overlap_iter_transfer _ _ pre i (L1eFold_kind k P hasPre bc dd)
    (L1eFold_patLen k P hasPre bc dd) (L1eFold_startEquiv k P hasPre bc dd hP i.anch) fuel

/-! ## … and the case-insensitive contiguous NFA meets the specification (C11): occurrences are
read on the folded patterns and the folded haystack -/

/-- standard semantics (C02 through C11) -/
theorem L1eFold_find_std (P : List (List UInt8)) (bc : Bool) (dd : Nat)
    (hP : P.length < 2147483648) (i : Input UInt8) :
    ∃ r, tryFindFwd ((buildContig (CNfa.compile .std true P) dd bc false).toAut .std P false)
        none i = .ok r ∧
      IsFind .std (P.map (·.map foldByte)) (i.hay.map foldByte) i.s i.e i.anch r := by
  rw [L1eFold_find _ _ _ _ _ hP]
  exact C11_find_std P .both i (Or.inl rfl)

/-- leftmost-longest (C01 through C11), both anchoring modes -/
theorem L1eFold_find_ll (P : List (List UInt8)) (bc : Bool) (dd : Nat)
    (hP : P.length < 2147483648) (i : Input UInt8) (he : i.earliest = false) :
    ∃ r, tryFindFwd ((buildContig (CNfa.compile .ll true P) dd bc false).toAut .ll P false)
        none i = .ok r ∧
      IsFind .ll (P.map (·.map foldByte)) (i.hay.map foldByte) i.s i.e i.anch r := by
  rw [L1eFold_find _ _ _ _ _ hP]
  exact C11_find_ll P .both i he (Or.inl rfl)

/-- leftmost-first (C01 through C11), both anchoring modes -/
theorem L1eFold_find_lf (P : List (List UInt8)) (bc : Bool) (dd : Nat)
    (hP : P.length < 2147483648) (i : Input UInt8) (he : i.earliest = false) :
    ∃ r, tryFindFwd ((buildContig (CNfa.compile .lf true P) dd bc false).toAut .lf P false)
        none i = .ok r ∧
      IsFind .lf (P.map (·.map foldByte)) (i.hay.map foldByte) i.s i.e i.anch r := by
  rw [L1eFold_find _ _ _ _ _ hP]
  exact C11_find_lf P .both i he (Or.inl rfl)

/-- overlapping search (C03 through C11) -/
theorem L1eFold_overlap_calls (P : List (List UInt8)) (bc : Bool) (dd : Nat)
    (hP : P.length < 2147483648) (i : Input UInt8) :
    ∃ l, IsOverlapList (P.map (·.map foldByte)) (i.hay.map foldByte) i.s i.e i.anch l ∧
      ∀ n, ovlCalls ((buildContig (CNfa.compile .std true P) dd bc false).toAut .std P false)
          none i n OState.start =
        (l.take n).map (fun m => Except.ok (some m)) ++
          List.replicate (n - l.length) (Except.ok none) := by
  obtain ⟨l, h1, h2⟩ := C11_overlap_std P .both i (Or.inl rfl)
  exact ⟨l, h1, fun n => by rw [L1eFold_overlap _ _ _ _ _ hP]; exact h2 n⟩

/-! ## non-vacuity: patterns `"aB"`, `"Ab"`, dense depth 0, byte classes on, no prefilter

Seven classes (`A`, `B`, `a`, `b` are singletons).  The node `a` (old id 4) has the two edges `B`,
`b` to the shared leaf `ab`; the leaf lists both pattern ids. -/

set_option maxRecDepth 1000000

example :
    let m := buildContig (CNfa.compile .std true [[0x61, 0x42], [0x41, 0x62]]) 0 true false
    m.alphabetLen = 7 ∧
      (m.toAut .std [[0x61, 0x42], [0x41, 0x62]] false).runFrom false m.startU [0x78, 0x41, 0x42] =
        (m.toAut .std [[0x61, 0x42], [0x41, 0x62]] false).runFrom false m.startU [0x61, 0x62] ∧
      m.matchList ((m.toAut .std [[0x61, 0x42], [0x41, 0x62]] false).runFrom false m.startU
        [0x61, 0x62]) = [0, 1] := by
  decide +kernel

end AcVerif
