import AcVerif.Proofs.LmTop
import AcVerif.Theorems.C02
import AcVerif.Theorems.C03
/-!
# C09 – anchored search with the leftmost match kinds

An anchored search only admits occurrences that begin at the span start; among
those it returns the longest (`.ll`) resp. the earliest supplied (`.lf`).
(The standard kind is handled separately.)
-/
namespace AcVerif
variable {α : Type} [DecidableEq α]

theorem C09_find_ll (P : List (List α)) (sk : StartKind) (i : Input α)
    (ha : i.anch = true) (he : i.earliest = false) (h : supportsAnch sk true) :
    ∃ r, tryFindFwd (ideal .ll P sk false) none i = .ok r ∧
      IsFind .ll P i.hay i.s i.e true r := by
  have := LmP.find_ll P sk i he (ha ▸ h)
  rwa [ha] at this

theorem C09_find_lf (P : List (List α)) (sk : StartKind) (i : Input α)
    (ha : i.anch = true) (he : i.earliest = false) (h : supportsAnch sk true) :
    ∃ r, tryFindFwd (ideal .lf P sk false) none i = .ok r ∧
      IsFind .lf P i.hay i.s i.e true r := by
  have := LmP.find_lf P sk i he (ha ▸ h)
  rwa [ha] at this

/-- the standard kind, anchored: earliest-ending occurrence among those that begin at the span start -/
theorem C09_find_std (P : List (List α)) (sk : StartKind) (i : Input α)
    (ha : i.anch = true) (h : supportsAnch sk true) :
    ∃ r, tryFindFwd (ideal .std P sk false) none i = .ok r ∧
      IsFind .std P i.hay i.s i.e true r := by
  have := C02_find P sk i (ha ▸ h)
  rwa [ha] at this

/-- stepwise anchored overlapping search: exactly the occurrences that begin at the span
start, each once, in end order, then `none` forever -/
theorem C09_overlap (P : List (List α)) (sk : StartKind) (i : Input α)
    (ha : i.anch = true) (h : supportsAnch sk true) :
    ∃ l, IsOverlapList P i.hay i.s i.e true l ∧
      ∀ n, ovlCalls (ideal .std P sk false) none i n OState.start =
        (l.take n).map (fun m => Except.ok (some m)) ++
          List.replicate (n - l.length) (Except.ok none) := by
  have := C03_calls P sk i (ha ▸ h)
  rwa [ha] at this

omit [DecidableEq α] in
/-- every answer of an anchored search begins exactly at the start of the searched span -/
theorem C09_starts_at_span_start (k : MatchKind) (P : List (List α)) (hay : List α) (s e : Nat)
    (m : Mat) (h : IsFind k P hay s e true (some m)) : m.start = s :=
  h.1.2 rfl

omit [DecidableEq α] in
/-- … and so does every match of the anchored overlapping enumeration -/
theorem C09_overlap_starts_at_span_start (P : List (List α)) (hay : List α) (s e : Nat)
    (l : List Mat) (h : IsOverlapList P hay s e true l) (m : Mat) (hm : m ∈ l) : m.start = s :=
  ((h.2 m).1 hm).2 rfl

/-! Non-vacuity (evaluation through the proved structural form `findQ`). -/

/-- anchored at `s = 1`: `[2]` (occurring at 2) is not admissible; longest prefix pattern wins -/
example : tryFindFwd (ideal .ll [[2], [1], [1, 2], [1, 2], [1, 2, 4], []] .both false) none
    { hay := [0, 1, 2, 3, 0], s := 1, e := 5, anch := true, valid := by decide } =
    .ok (some ⟨2, 1, 3⟩) := by
  rw [LmP.tryFind_ideal _ (Or.inl rfl) _ _ _ (Or.inl rfl) (by decide)]; rfl

/-- leftmost-first: the earliest supplied pattern that is a prefix of the span -/
example : tryFindFwd (ideal .lf [[2], [1, 2], [1], [1, 2], []] .anchored false) none
    { hay := [0, 1, 2, 3, 0], s := 1, e := 5, anch := true, valid := by decide } =
    .ok (some ⟨1, 1, 3⟩) := by
  rw [LmP.tryFind_ideal _ (Or.inr rfl) _ _ _ (Or.inr (Or.inr ⟨rfl, rfl⟩)) (by decide)]; rfl

/-- no pattern starts at the anchor: `none`, although `[1,2]` occurs later -/
example : tryFindFwd (ideal .ll [[2], [1, 2], [1, 2]] .anchored false) none
    { hay := [0, 1, 2, 3, 0], s := 0, e := 5, anch := true, valid := by decide } =
    .ok none := by
  rw [LmP.tryFind_ideal _ (Or.inl rfl) _ _ _ (Or.inr (Or.inr ⟨rfl, rfl⟩)) (by decide)]; rfl

end AcVerif
