import AcVerif.Theorems.TopLevel
import AcVerif.Proofs.TopLevelPreEarliest
/-!
# The capstone with prefilters: `AhoCorasick::builder()…build(patterns)` with `.prefilter(true)`

`Theorems/TopLevel.lean` treats searchers built without a prefilter.  Here the searcher carries the
prefilter `prefilter::Builder::build` returns (`acBuildP`, model `buildPrefilter`: memmem, start
bytes, rare bytes or a packed searcher, chosen by the heuristics of `util/prefilter.rs`), for
**every** frequency table, constant set and CPU feature combination.

* `TopP_*`: the method theorems of `TopLevel.lean` for a searcher built with *any* prefilter function
  that is sound for the patterns (`PreOK` / `PreOKOvl`: `PrefilterSoundAt` for every haystack, and no
  empty pattern); `pre = none` gives back `Top_*`.
* `Top_builder_prefilter_sound`: the prefilter the builder attaches always satisfies `PreOK` (and
  `PreOKOvl` for the standard kind) – composed from C05 (`C05_builder_sound(_fold)`,
  `C05_builder_sound_ovl(_fold)`), C06 (`C06_packed`) and `TopP.build_packed_exact` (a packed
  prefilter is the packed searcher of exactly the supplied patterns and the matching kind), so the
  hypothesis `hC06` of `C05_builder_sound` is discharged.
* `TopB_spec`, `TopB_capstone`: hence `TopSpec` holds for `acBuildP`, with no hypothesis about the
  prefilter.

`is_match` (a search in earliest mode) on a *leftmost* searcher with a confirming prefilter may
see the prefilter return the normal instead of the earliest match (documented in `C05_transparent`,
which therefore excludes that case); its truth value is unaffected, which is proved here
(`TopP.ref_is_match_pre`, `Proofs/TopLevelPreEarliest.lean`).  So the specification `TopSpec` of
`TopLevel.lean` holds verbatim for searchers with prefilters.  The stream search does not consult the
prefilter at all.
-/
namespace AcVerif
open AcVerif.TopP AcVerif.MiscP AcVerif.BuildP

/-! ## building -/

theorem TopP_build (cfg : BuildCfg) (pre : Option (Prefilter UInt8)) (P : List (List UInt8))
    (hP : P.length ≤ 1000) (hT : totalLen P ≤ 1000000) :
    ∃ s, acBuild {} cfg pre P = .ok s ∧ s.kind = chosenKind cfg P.length ∧
      s.pats = P ∧ s.pre = pre ∧ s.cfg = { cfg with hasPre := pre.isSome } := by
  have h := C20_build_ok_default { cfg with hasPre := pre.isSome } P hP hT
  exact ⟨_, acBuild_eq_of h, buildUnchecked_kind _ _ _, rfl, rfl, rfl⟩

theorem TopB_build (K : Consts) (cfg : BuildCfg) (freq : UInt8 → Nat) (avx2 ssse3 : Bool)
    (P : List (List UInt8)) (hP : P.length ≤ 1000) (hT : totalLen P ≤ 1000000) :
    ∃ s, acBuildP {} K cfg freq avx2 ssse3 P = .ok s ∧ s.kind = chosenKind cfg P.length ∧
      s.pats = P ∧
      s.pre = (buildPrefilter K cfg.matchKind cfg.fold freq P avx2 ssse3).map PreChoice.findIn :=
  by
  obtain ⟨s, h1, h2, h3, h4, _⟩ := TopP_build cfg
    ((buildPrefilter K cfg.matchKind cfg.fold freq P avx2 ssse3).map PreChoice.findIn) P hP hT
  exact ⟨s, h1, h2, h3, h4⟩

/-- the prefilter the builder attaches is sound, always -/
theorem Top_builder_prefilter_sound (K : Consts) (cfg : BuildCfg) (freq : UInt8 → Nat)
    (avx2 ssse3 : Bool) (P : List (List UInt8)) :
    PreOK cfg.fold cfg.matchKind P
        ((buildPrefilter K cfg.matchKind cfg.fold freq P avx2 ssse3).map PreChoice.findIn) ∧
    (cfg.matchKind = .std → PreOKOvl cfg.fold P
        ((buildPrefilter K cfg.matchKind cfg.fold freq P avx2 ssse3).map PreChoice.findIn)) := by
  refine ⟨builder_ok K cfg.matchKind cfg.fold freq P avx2 ssse3, fun hk => ?_⟩
  rw [hk]
  exact builder_ok_ovl K cfg.fold freq P avx2 ssse3

/-- what `PreOK` says, spelled out -/
theorem PreOK_iff (f : Bool) (k : MatchKind) (P : List (List UInt8))
    (pre : Option (Prefilter UInt8)) :
    PreOK f k P pre ↔ ∀ p, pre = some p →
      (∀ q ∈ P, q ≠ []) ∧ ∀ hay, PrefilterSoundAt k (specPats f P) (p hay) (specHay f hay) := by
  cases pre with
  | none => exact ⟨fun _ p hp => (by cases hp), fun _ => trivial⟩
  | some p =>
    exact ⟨fun h q hq => (by cases hq; exact h), fun h => h p rfl⟩

/-! ## the methods, for any sound prefilter -/

section anypre
variable (cfg : BuildCfg) (pre : Option (Prefilter UInt8)) (P : List (List UInt8)) {s : Searcher}
  (hs : acBuild {} cfg pre P = .ok s)
include hs

/-- **`try_find`** -/
theorem TopP_find (hok : PreOK cfg.fold cfg.matchKind P pre) (i : Input UInt8) :
    (supportsAnch cfg.startKind i.anch → (cfg.matchKind = .std ∨ i.earliest = false) →
      ∃ r, topFind s i = .ok r ∧
        IsFind cfg.matchKind (specPats cfg.fold P) (specHay cfg.fold i.hay) i.s i.e i.anch r) ∧
    (¬ supportsAnch cfg.startKind i.anch → topFind s i = .error (anchErr i.anch)) := by
  obtain ⟨hg, hc, hp, hpre⟩ := acBuild_good (Nat.le_refl _) hs
  refine ⟨fun h he => ?_, fun h => api_find_err s i (by rw [hc]; exact h)⟩
  cases pre with
  | none =>
    have := api_find hg hpre i (by rw [hc]; exact h) (by rw [hc]; exact he)
    rw [hc, hp] at this
    exact this
  | some p =>
    have := api_find_pre hg hpre (by rw [hp]; exact hok.1) (by rw [hc, hp]; exact hok.2) i
      (by rw [hc]; exact h) (by rw [hc]; exact he)
    rw [hc, hp] at this
    exact this

/-- **`is_match`** -/
theorem TopP_is_match (hok : PreOK cfg.fold cfg.matchKind P pre) (i : Input UInt8) :
    (supportsAnch cfg.startKind i.anch →
      ∃ b, topIsMatch s i = .ok b ∧
        (b = true ↔
          ∃ m, IsOccA (specPats cfg.fold P) (specHay cfg.fold i.hay) i.s i.e i.anch m)) ∧
    (¬ supportsAnch cfg.startKind i.anch → topIsMatch s i = .error (anchErr i.anch)) := by
  obtain ⟨hg, hc, hp, hpre⟩ := acBuild_good (Nat.le_refl _) hs
  refine ⟨fun h => ?_, fun h => api_is_match_err s i (by rw [hc]; exact h)⟩
  cases pre with
  | none =>
    have := api_is_match hg hpre i (by rw [hc]; exact h)
    rw [hc, hp] at this
    exact this
  | some p =>
    have := api_is_match_pre_all hg hpre (by rw [hp]; exact hok.1) (by rw [hc, hp]; exact hok.2) i
      (by rw [hc]; exact h)
    rw [hc, hp] at this
    exact this

/-- **`try_find_iter`** -/
theorem TopP_find_iter (hok : PreOK cfg.fold cfg.matchKind P pre) (i : Input UInt8) :
    (supportsAnch cfg.startKind i.anch → (cfg.matchKind = .std ∨ i.earliest = false) →
      ∃ F, (∀ st, st ≤ i.e + 1 →
          IsFind cfg.matchKind (specPats cfg.fold P) (specHay cfg.fold i.hay) st i.e i.anch
            (F st)) ∧
        topFindIter s i = .ok (iterSpec F i.s i.e)) ∧
    (¬ supportsAnch cfg.startKind i.anch → topFindIter s i = .error (anchErr i.anch)) := by
  obtain ⟨hg, hc, hp, hpre⟩ := acBuild_good (Nat.le_refl _) hs
  refine ⟨fun h he => ?_, fun h => api_iter_err s i (by rw [hc]; exact h)⟩
  cases pre with
  | none =>
    have := api_iter hg hpre i (by rw [hc]; exact h) (by rw [hc]; exact he)
    rw [hc, hp] at this
    exact this
  | some p =>
    have := api_iter_pre hg hpre (by rw [hp]; exact hok.1) (by rw [hc, hp]; exact hok.2) i
      (by rw [hc]; exact h) (by rw [hc]; exact he)
    rw [hc, hp] at this
    exact this

/-- **`try_find_overlapping`**, called `n` times on one `OverlappingState` -/
theorem TopP_overlapping (hok : cfg.matchKind = .std → PreOKOvl cfg.fold P pre)
    (i : Input UInt8) :
    (supportsAnch cfg.startKind i.anch → cfg.matchKind = .std →
      ∃ l, IsOverlapList (specPats cfg.fold P) (specHay cfg.fold i.hay) i.s i.e i.anch l ∧
        ∀ n, topOverlapping s i n =
          (l.take n).map (fun m => Except.ok (some m)) ++
            List.replicate (n - l.length) (Except.ok none)) ∧
    (supportsAnch cfg.startKind i.anch → cfg.matchKind ≠ .std →
      ∀ n, topOverlapping s i (n + 1) = [.error .unsupportedOverlapping]) ∧
    (¬ supportsAnch cfg.startKind i.anch →
      ∀ n, topOverlapping s i (n + 1) = [.error (anchErr i.anch)]) := by
  obtain ⟨hg, hc, hp, hpre⟩ := acBuild_good (Nat.le_refl _) hs
  refine ⟨fun h hk => ?_,
    fun h hk n => api_overlap_nonstd s i (by rw [hc]; exact h) (by rw [hc]; exact hk) n,
    fun h n => api_overlap_err s i (by rw [hc]; exact h) n⟩
  cases pre with
  | none =>
    have := api_overlap hg hpre (by rw [hc]; exact hk) i (by rw [hc]; exact h)
    rw [hc, hp] at this
    exact this
  | some p =>
    have := api_overlap_pre hg hpre (by rw [hp]; exact (hok hk).1) (by rw [hc]; exact hk)
      (by rw [hc, hp]; exact (hok hk).2) i (by rw [hc]; exact h)
    rw [hc, hp] at this
    exact this

/-- **`try_find_overlapping_iter`**, drained with enough calls -/
theorem TopP_overlapping_iter (hok : cfg.matchKind = .std → PreOKOvl cfg.fold P pre)
    (i : Input UInt8) :
    (supportsAnch cfg.startKind i.anch → cfg.matchKind = .std → i.anch = false →
      ∃ l, IsOverlapList (specPats cfg.fold P) (specHay cfg.fold i.hay) i.s i.e i.anch l ∧
        ∀ fuel, l.length < fuel → topOverlappingIter s i fuel = .ok l) ∧
    (∀ fuel,
      (¬ supportsAnch cfg.startKind i.anch →
        topOverlappingIter s i fuel = .error (anchErr i.anch)) ∧
      (supportsAnch cfg.startKind i.anch → cfg.matchKind ≠ .std →
        topOverlappingIter s i fuel = .error .unsupportedOverlapping) ∧
      (supportsAnch cfg.startKind i.anch → cfg.matchKind = .std → i.anch = true →
        topOverlappingIter s i fuel = .error .invalidInputAnchored)) := by
  obtain ⟨hg, hc, hp, hpre⟩ := acBuild_good (Nat.le_refl _) hs
  refine ⟨fun h hk ha => ?_, fun fuel => ?_⟩
  · cases pre with
    | none =>
      have := api_overlap_iter hg hpre (by rw [hc]; exact hk) i (by rw [hc]; exact h) ha
      rw [hc, hp] at this
      exact this
    | some p =>
      have := api_overlap_iter_pre hg hpre (by rw [hp]; exact (hok hk).1) (by rw [hc]; exact hk)
        (by rw [hc, hp]; exact (hok hk).2) i (by rw [hc]; exact h) ha
      rw [hc, hp] at this
      exact this
  · have := api_overlap_iter_err s i fuel
    rw [hc] at this
    exact this

/-- **`try_replace_all_with_bytes`** -/
theorem TopP_replace_all_with_bytes (hok : PreOK cfg.fold cfg.matchKind P pre)
    (hay : List UInt8) (repl : Mat → List UInt8) (stop : Option Nat) :
    (supportsAnch cfg.startKind false →
      ∃ F, (∀ st, st ≤ hay.length + 1 →
          IsFind cfg.matchKind (specPats cfg.fold P) (specHay cfg.fold hay) st hay.length false
            (F st)) ∧
        topFindIter s (Input.whole hay) = .ok (iterSpec F 0 hay.length) ∧
        topReplaceAllWithBytes s hay repl stop =
          .ok (replaceBytes hay (iterSpec F 0 hay.length) repl stop) ∧
        (replaceBytes hay (iterSpec F 0 hay.length) repl none).1 =
          spliceSpec hay repl 0 (iterSpec F 0 hay.length) ∧
        (replaceBytes hay (iterSpec F 0 hay.length) repl none).2 =
          (iterSpec F 0 hay.length).map fun m => (m, (hay.take m.stop).drop m.start)) ∧
    (¬ supportsAnch cfg.startKind false →
      topReplaceAllWithBytes s hay repl stop = .error .invalidInputUnanchored) := by
  obtain ⟨hg, hc, hp, hpre⟩ := acBuild_good (Nat.le_refl _) hs
  refine ⟨fun h => ?_, fun h => api_replace_err s hay repl stop (by rw [hc]; exact h)⟩
  cases pre with
  | none =>
    obtain ⟨F, h1, h2, h3⟩ := api_replace hg hpre hay repl stop (by rw [hc]; exact h)
    rw [hc, hp] at h1
    exact ⟨F, h1, h2, h3, C12_bytes hay _ repl, C12_log hay _ repl⟩
  | some p =>
    obtain ⟨F, h1, h2, h3⟩ := api_replace_pre hg hpre (by rw [hp]; exact hok.1)
      (by rw [hc, hp]; exact hok.2) hay repl stop (by rw [hc]; exact h)
    rw [hc, hp] at h1
    exact ⟨F, h1, h2, h3, C12_bytes hay _ repl, C12_log hay _ repl⟩

/-- **`try_replace_all_bytes`** -/
theorem TopP_replace_all_bytes (hok : PreOK cfg.fold cfg.matchKind P pre)
    (hay : List UInt8) (replaceWith : List (List UInt8)) :
    (supportsAnch cfg.startKind false →
      ∃ ms, topFindIter s (Input.whole hay) = .ok ms ∧
        topReplaceAllBytes s hay replaceWith =
          .ok (spliceSpec hay (fun m => replaceWith.getD m.pid []) 0 ms) ∧
        ∀ m ∈ ms, m.pid < P.length) ∧
    (¬ supportsAnch cfg.startKind false →
      topReplaceAllBytes s hay replaceWith = .error .invalidInputUnanchored) := by
  refine ⟨fun h => ?_, fun h => ?_⟩
  · obtain ⟨F, hF, h1, h2, h3, _⟩ :=
      (TopP_replace_all_with_bytes cfg pre P hs hok hay
        (fun m => replaceWith.getD m.pid []) none).1 h
    refine ⟨_, h1, ?_, fun m hm => ?_⟩
    · unfold topReplaceAllBytes
      rw [h2, ← h3]
    · obtain ⟨⟨p, hp, _⟩, _⟩ := iter_occ hF (Nat.zero_le _) m hm
      have := (List.getElem?_eq_some_iff.1 hp).1
      rwa [specPats_length] at this
  · unfold topReplaceAllBytes
    rw [(TopP_replace_all_with_bytes cfg pre P hs hok hay _ none).2 h]

/-- **`try_stream_find_iter`** (the stream search never consults the prefilter) -/
theorem TopP_stream_find (hok : PreOK cfg.fold cfg.matchKind P pre) (hk : cfg.matchKind = .std)
    (hne : ∀ p ∈ P, p ≠ []) (h : supportsAnch cfg.startKind false) (data : List UInt8)
    (sched : List Nat) (hsch : ∀ x ∈ sched, 1 ≤ x) (spare : Option Nat)
    (minFactor defaultCap : Nat)
    (hcap : (Buffer.new (α := UInt8) (maxPatLen P) spare minFactor defaultCap).min <
        (Buffer.new (α := UInt8) (maxPatLen P) spare minFactor defaultCap).cap) :
    ∃ F, (∀ st, st ≤ data.length + 1 →
        IsFind .std (specPats cfg.fold P) (specHay cfg.fold data) st data.length false (F st)) ∧
      topFindIter s (Input.whole data) = .ok (iterSpec F 0 data.length) ∧
      topStreamFind s { data := data, sched := sched } spare minFactor defaultCap =
        .ok (iterSpec F 0 data.length, false, 0) := by
  obtain ⟨hg, hc, hp, hpre⟩ := acBuild_good (Nat.le_refl _) hs
  obtain ⟨F, hF, h3⟩ := (TopP_find_iter cfg pre P hs hok (Input.whole data)).1 h (Or.inl hk)
  rw [hk] at hF
  refine ⟨F, hF, h3, ?_⟩
  cases pre with
  | none =>
    obtain ⟨ms, h1, h2⟩ := api_stream hg hpre (by rw [hc]; exact hk) (by rw [hp]; exact hne)
      (by rw [hc]; exact h) data sched hsch spare minFactor defaultCap (by rw [hp]; exact hcap)
    rw [h3] at h1
    cases h1
    exact h2
  | some p =>
    obtain ⟨ms, h1, h2⟩ := api_stream_pre hg hpre (by rw [hp]; exact hne) (by rw [hc]; exact hk)
      (by rw [hc, hp]; exact hok.2) (by rw [hc]; exact h) data sched hsch spare minFactor
      defaultCap (by rw [hp]; exact hcap)
    rw [h3] at h1
    cases h1
    exact h2

/-- the rejected stream searches -/
theorem TopP_stream_find_rejected (rdr : Reader UInt8) (spare : Option Nat)
    (minFactor defaultCap : Nat) :
    (¬ supportsAnch cfg.startKind false →
      topStreamFind s rdr spare minFactor defaultCap = .error .invalidInputUnanchored) ∧
    (supportsAnch cfg.startKind false → cfg.matchKind ≠ .std →
      topStreamFind s rdr spare minFactor defaultCap = .error .unsupportedStream) ∧
    (supportsAnch cfg.startKind false → cfg.matchKind = .std → [] ∈ P →
      topStreamFind s rdr spare minFactor defaultCap = .error .unsupportedEmpty) := by
  obtain ⟨_, hc, hp, _⟩ := acBuild_good (Nat.le_refl _) hs
  have := api_stream_err s rdr spare minFactor defaultCap
  rw [hc, hp] at this
  exact this

end anypre

/-! ## the searcher with the builder's own prefilter -/

/-- whatever a successful build **with the builder's prefilter** returns meets the specification,
for every frequency table, constant set and CPU feature combination -/
theorem TopB_spec (K : Consts) (cfg : BuildCfg) (freq : UInt8 → Nat) (avx2 ssse3 : Bool)
    (P : List (List UInt8)) {s : Searcher}
    (hs : acBuildP {} K cfg freq avx2 ssse3 P = .ok s) : TopSpec cfg P s := by
  obtain ⟨hok, hokO⟩ := Top_builder_prefilter_sound K cfg freq avx2 ssse3 P
  exact
    { find := TopP_find cfg _ P hs hok
      isMatch := TopP_is_match cfg _ P hs hok
      findIter := TopP_find_iter cfg _ P hs hok
      overlapping := TopP_overlapping cfg _ P hs hokO
      replaceAllBytes := TopP_replace_all_bytes cfg _ P hs hok
      streamFind := fun hk hne h data sched hsch spare minFactor defaultCap hcap => by
        obtain ⟨F, _, h1, h2⟩ := TopP_stream_find cfg _ P hs hok hk hne h data sched hsch spare
          minFactor defaultCap hcap
        exact ⟨_, h1, h2⟩ }

/-- **The capstone, with prefilters.**  For every configuration, every frequency table, constant
set and CPU feature combination, and every collection of at most 1000 patterns with at most 10^6
bytes in total, the build with the builder's own prefilter succeeds, with the kind the
configuration asks for, and the public search methods answer as the specification says. -/
theorem TopB_capstone (K : Consts) (cfg : BuildCfg) (freq : UInt8 → Nat) (avx2 ssse3 : Bool)
    (P : List (List UInt8)) (hP : P.length ≤ 1000) (hT : totalLen P ≤ 1000000) :
    ∃ s, acBuildP {} K cfg freq avx2 ssse3 P = .ok s ∧ s.kind = chosenKind cfg P.length ∧
      TopSpec cfg P s := by
  obtain ⟨s, hs, hk, _⟩ := TopB_build K cfg freq avx2 ssse3 P hP hT
  exact ⟨s, hs, hk, TopB_spec K cfg freq avx2 ssse3 P hs⟩

end AcVerif
