import AcVerif.Theorems.C16
import AcVerif.Theorems.L1d
import AcVerif.Theorems.L1e
import AcVerif.Theorems.L1cFold
/-!
# C16 (all pattern lists) – the `Automaton` contract holds at every state of the ideal automaton,
and at every reachable state of every transcribed automaton

`C16.lean` shows that the *local check* `Table.contractOk` of a dumped table is sound.  Here the
same conditions are proved outright, for **every** pattern list, match kind and start kind:

* `C16_ideal_contract`: at every state of the ideal automaton (generic alphabet) dead and match
  states are special, a special state is dead, match or start, a state is a match state iff it
  lists a pattern, no state is dead and match, and every listed id is `< P.length`;
  `C16_ideal_dead_absorbing`: the dead state is absorbing.
* transferred along the observational equivalences L1c / L1d / L1e / L1cFold to the state reached
  after **any** byte string from a start state of a supported anchoring mode:
  `C16_contract_nfa`, `C16_contract_dfa`, `C16_contract_contig` (`P.length < 2^31`),
  `C16_contract_nfa_fold`.  The clause `special ⇒ dead ∨ match ∨ start` mentions `is_start`, which
  is not an observation; it is proved from the definitions of the transcriptions
  (`C16_start_nfa`, `C16_start_dfa`: at every state id; `C16_start_contig`: at every reachable
  state, using where the shuffle puts the start states).
* `C16_dead_absorbing_nfa/_dfa/_contig/_nfa_fold`: once a reachable state reports `is_dead`, so does
  the state after every continuation.
-/
namespace AcVerif
open AcVerif.L1cP AcVerif.L1dP AcVerif.L1eP AcVerif.CNfa

variable {σ τ α : Type}

/-- the part of the contract that is visible in an observation, `n` = number of patterns -/
def Obs.Contract (o : Obs) (n : Nat) : Prop :=
  ((o.dead = true ∨ o.isMatch = true) → o.special = true) ∧
  (o.isMatch = true ↔ o.pats ≠ []) ∧
  ¬ (o.dead = true ∧ o.isMatch = true) ∧
  (∀ p ∈ o.pats, p < n)

/-- the contract at a state of an automaton record (everything except the `is_start` clause) -/
def Aut.ContractAt (A : Aut σ α) (q : σ) : Prop :=
  ((A.isDead q = true ∨ A.isMatch q = true) → A.isSpecial q = true) ∧
  (A.isMatch q = true ↔ A.mpats q ≠ []) ∧
  ¬ (A.isDead q = true ∧ A.isMatch q = true) ∧
  (∀ p ∈ A.mpats q, p < A.patternsLen)

theorem Aut.contractAt_iff_obs (A : Aut σ α) (q : σ) :
    A.ContractAt q ↔ (A.obs false q).Contract A.patternsLen := Iff.rfl

/-- the contract transfers along equal observations -/
theorem Aut.ContractAt.of_obs_eq {A : Aut σ α} {B : Aut τ α} {a : σ} {b : τ}
    (hn : A.patternsLen = B.patternsLen) (ho : A.obs false a = B.obs false b)
    (hB : B.ContractAt b) : A.ContractAt a := by
  rw [Aut.contractAt_iff_obs] at hB ⊢
  rw [ho, hn]
  exact hB

/-! ## the ideal automaton -/

section ideal
variable [DecidableEq α]

theorem mem_idsOf_patSet_lt {k : MatchKind} {P : List (List α)} {v : List α} {pid : Nat}
    (h : pid ∈ idsOf (patSet k P) v) : pid < P.length := by
  simp only [idsOf, List.mem_map, List.mem_filter] at h
  obtain ⟨q, ⟨hq, _⟩, rfl⟩ := h
  have := LmP.mem_patSet hq
  exact (List.getElem?_eq_some_iff.1 this).1

theorem mem_outStd_patSet_lt {k : MatchKind} {P : List (List α)} {u : List α} {pid : Nat}
    (h : pid ∈ outStd (patSet k P) u) : pid < P.length := by
  simp only [outStd, List.mem_flatMap] at h
  obtain ⟨_, _, h⟩ := h
  exact mem_idsOf_patSet_lt h

theorem mem_outLm_patSet_lt {k : MatchKind} {P : List (List α)} {u : List α} {pid : Nat}
    (h : pid ∈ outLm (patSet k P) u) : pid < P.length := by
  unfold outLm at h
  split at h
  · cases h
  · split at h
    · cases h
    · exact mem_idsOf_patSet_lt h

/-- every id listed by a state of the ideal automaton is a valid pattern id -/
theorem mem_out_lt {k : MatchKind} {P : List (List α)} {q : St α} {pid : Nat}
    (h : pid ∈ Ideal.out k (patSet k P) q) : pid < P.length := by
  cases q with
  | dead => cases h
  | «at» u =>
    cases k with
    | std => exact mem_outStd_patSet_lt h
    | lf => exact mem_outLm_patSet_lt h
    | ll => exact mem_outLm_patSet_lt h

theorem out_dead (k : MatchKind) (Q : PatSet α) : Ideal.out k Q .dead = [] := rfl

theorem isEmpty_not_iff {β : Type} (l : List β) : (!l.isEmpty) = true ↔ l ≠ [] := by
  cases l <;> simp

/-- **C16 for the ideal automaton.**  At every state: dead and match states are special; a
special state is dead, match or start; match iff the list is non-empty; never dead and match;
every listed id is a pattern id. -/
theorem C16_ideal_contract (k : MatchKind) (P : List (List α)) (sk : StartKind) (hasPre : Bool)
    (q : St α) :
    (((ideal k P sk hasPre).isDead q = true ∨ (ideal k P sk hasPre).isMatch q = true) →
        (ideal k P sk hasPre).isSpecial q = true) ∧
    ((ideal k P sk hasPre).isSpecial q = true →
        (ideal k P sk hasPre).isDead q = true ∨ (ideal k P sk hasPre).isMatch q = true ∨
          (ideal k P sk hasPre).isStart q = true) ∧
    ((ideal k P sk hasPre).isMatch q = true ↔ (ideal k P sk hasPre).mpats q ≠ []) ∧
    ¬ ((ideal k P sk hasPre).isDead q = true ∧ (ideal k P sk hasPre).isMatch q = true) ∧
    (∀ p ∈ (ideal k P sk hasPre).mpats q, p < P.length) := by
  refine ⟨?_, ?_, ?_, ?_, ?_⟩
  · show ((q == St.dead) = true ∨ (!(Ideal.out k (patSet k P) q).isEmpty) = true) →
      ((q == St.dead) || !(Ideal.out k (patSet k P) q).isEmpty || (hasPre && q == St.at [])) = true
    rintro (h | h)
    · rw [h]; rfl
    · rw [h]; simp
  · show ((q == St.dead) || !(Ideal.out k (patSet k P) q).isEmpty || (hasPre && q == St.at [])) = true →
      ((q == St.dead) = true ∨ (!(Ideal.out k (patSet k P) q).isEmpty) = true ∨
        (q == St.at []) = true)
    intro h
    simp only [Bool.or_eq_true, Bool.and_eq_true] at h
    rcases h with (h | h) | h
    · exact Or.inl h
    · exact Or.inr (Or.inl h)
    · exact Or.inr (Or.inr h.2)
  · exact isEmpty_not_iff _
  · show ¬ ((q == St.dead) = true ∧ (!(Ideal.out k (patSet k P) q).isEmpty) = true)
    rintro ⟨h1, h2⟩
    have e : q = .dead := by simpa using h1
    subst e
    rw [out_dead] at h2
    cases h2
  · intro p hp
    exact mem_out_lt (k := k) (P := P) (q := q) hp

/-- the dead state of the ideal automaton is absorbing -/
theorem C16_ideal_dead_absorbing (k : MatchKind) (P : List (List α)) (sk : StartKind)
    (hasPre anch : Bool) (c : α) : (ideal k P sk hasPre).next anch .dead c = .dead := rfl

/-- … along every word -/
theorem C16_ideal_dead_run (k : MatchKind) (P : List (List α)) (sk : StartKind)
    (hasPre anch : Bool) (w : List α) : (ideal k P sk hasPre).runFrom anch .dead w = .dead := by
  induction w with
  | nil => rfl
  | cons c w ih => exact ih

/-- the observable part, packaged -/
theorem ideal_contractAt (k : MatchKind) (P : List (List α)) (sk : StartKind) (hasPre : Bool)
    (q : St α) : (ideal k P sk hasPre).ContractAt q := by
  obtain ⟨h1, _, h3, h4, h5⟩ := C16_ideal_contract k P sk hasPre q
  exact ⟨h1, h3, h4, h5⟩

/-- the same for the case-insensitive specification automaton (ideal automaton of the mapped
patterns reading mapped symbols): `comap` changes only `next` -/
theorem ideal_comap_contractAt (k : MatchKind) (P : List (List α)) (sk : StartKind) (hasPre : Bool)
    (g : α → α) (q : St α) : ((ideal k P sk hasPre).comap g).ContractAt q :=
  ideal_contractAt k P sk hasPre q

end ideal

/-- transfer along `ObsEquiv`: every state reached from `a` satisfies the contract if the
corresponding state of `B` does -/
theorem ObsEquiv.contractAt {A : Aut σ α} {B : Aut τ α} {anch : Bool} {a : σ} {b : τ}
    (h : ObsEquiv A B false anch a b) (hn : A.patternsLen = B.patternsLen)
    (hB : ∀ q, B.ContractAt q) (w : List α) : A.ContractAt (A.runFrom anch a w) :=
  Aut.ContractAt.of_obs_eq hn (h w) (hB _)

/-! ## the transcribed automata -/

/-- the noncontiguous NFA: the contract holds at the state reached after any byte string, for both
anchoring modes -/
theorem C16_contract_nfa (k : MatchKind) (P : List (List UInt8)) (hasPre anch : Bool) (s0 : Nat)
    (hs : ((CNfa.compile k false P).toAut k P hasPre).start anch = some s0) (w : List UInt8) :
    ((CNfa.compile k false P).toAut k P hasPre).ContractAt
      (((CNfa.compile k false P).toAut k P hasPre).runFrom anch s0 w) := by
  have e : s0 = if anch then CNfa.SA else CNfa.SU := (Option.some.inj hs).symm
  subst e
  exact (L1c_obsEquiv k P hasPre anch).contractAt rfl (ideal_contractAt k P .both hasPre) w

/-- `special ⇒ dead ∨ match ∨ start` for the noncontiguous NFA record: at every state id, for
every `CNfa` -/
theorem C16_start_nfa (n : CNfa) (k : MatchKind) (P : List (List UInt8)) (hasPre : Bool) (q : Nat)
    (h : (n.toAut k P hasPre).isSpecial q = true) :
    (n.toAut k P hasPre).isDead q = true ∨ (n.toAut k P hasPre).isMatch q = true ∨
      (n.toAut k P hasPre).isStart q = true := by
  have h' : (q == CNfa.DEAD || CNfa.isMatch n q || (hasPre && (q == CNfa.SU || q == CNfa.SA))) = true := h
  show (q == CNfa.DEAD) = true ∨ (q != CNfa.DEAD && CNfa.isMatch n q) = true ∨
    (q == CNfa.SU || q == CNfa.SA) = true
  cases hd : (q == CNfa.DEAD)
  · rw [hd] at h'
    simp only [Bool.false_or, Bool.or_eq_true, Bool.and_eq_true] at h'
    rcases h' with h' | h'
    · refine Or.inr (Or.inl ?_)
      show ((!(q == CNfa.DEAD)) && CNfa.isMatch n q) = true
      rw [hd, h']; rfl
    · exact Or.inr (Or.inr (by simpa using h'.2))
  · exact Or.inl rfl

/-- the DFA, every start kind, both settings of `byte_classes` -/
theorem C16_contract_dfa (k : MatchKind) (P : List (List UInt8)) (hasPre bc : Bool) (sk : StartKind)
    (anch : Bool) (s0 : Nat)
    (hs : ((buildDfa (CNfa.compile k false P) sk bc).toAut k P hasPre).start anch = some s0)
    (w : List UInt8) :
    ((buildDfa (CNfa.compile k false P) sk bc).toAut k P hasPre).ContractAt
      (((buildDfa (CNfa.compile k false P) sk bc).toAut k P hasPre).runFrom anch s0 w) := by
  have hsup : supportsAnch sk anch := (L1d_start k P hasPre bc sk anch).1 (by rw [hs]; rfl)
  obtain ⟨s1, h1, h2⟩ := L1d_obsEquiv_ideal k P hasPre bc sk anch hsup
  have e : s0 = s1 := Option.some.inj (hs.symm.trans h1)
  subst e
  exact h2.contractAt rfl (ideal_contractAt k P sk hasPre) w

/-- `special ⇒ dead ∨ match ∨ start` for the DFA record: at every state id, for every `DfaM` -/
theorem C16_start_dfa (d : DfaM) (k : MatchKind) (P : List (List UInt8)) (hasPre : Bool) (q : Nat)
    (h : (d.toAut k P hasPre).isSpecial q = true) :
    (d.toAut k P hasPre).isDead q = true ∨ (d.toAut k P hasPre).isMatch q = true ∨
      (d.toAut k P hasPre).isStart q = true := by
  have h' : (q == d.dead || !(d.matches_.getD q []).isEmpty ||
      (hasPre && (some q == d.startU || some q == d.startA))) = true := h
  show (q == d.dead) = true ∨ (q != d.dead && !(d.matches_.getD q []).isEmpty) = true ∨
    (some q == d.startU || some q == d.startA) = true
  cases hd : (q == d.dead)
  · rw [hd] at h'
    simp only [Bool.false_or, Bool.or_eq_true, Bool.and_eq_true] at h'
    rcases h' with h' | h'
    · refine Or.inr (Or.inl ?_)
      show ((!(q == d.dead)) && !(d.matches_.getD q []).isEmpty) = true
      rw [hd, h']; rfl
    · exact Or.inr (Or.inr (by simpa using h'.2))
  · exact Or.inl rfl

/-- the contiguous NFA (word level), every dense depth, both settings of `byte_classes` -/
theorem C16_contract_contig (k : MatchKind) (P : List (List UInt8)) (hasPre bc : Bool) (dd : Nat)
    (hP : P.length < 2147483648) (anch : Bool) (s0 : Nat)
    (hs : ((buildContig (CNfa.compile k false P) dd bc hasPre).toAut k P hasPre).start anch = some s0)
    (w : List UInt8) :
    ((buildContig (CNfa.compile k false P) dd bc hasPre).toAut k P hasPre).ContractAt
      (((buildContig (CNfa.compile k false P) dd bc hasPre).toAut k P hasPre).runFrom anch s0 w) := by
  have e : s0 = if anch then (buildContig (CNfa.compile k false P) dd bc hasPre).startA
      else (buildContig (CNfa.compile k false P) dd bc hasPre).startU := (Option.some.inj hs).symm
  subst e
  exact (L1e_obsEquiv_ideal k P hasPre bc dd hP anch).contractAt rfl
    (ideal_contractAt k P .both hasPre) w

/-- `special ⇒ dead ∨ match ∨ start` at every reachable state of the contiguous NFA -/
theorem C16_start_contig (k : MatchKind) (P : List (List UInt8)) (hasPre bc : Bool) (dd : Nat)
    (hP : P.length < 2147483648) (anch : Bool) (s0 : Nat)
    (hs : ((buildContig (CNfa.compile k false P) dd bc hasPre).toAut k P hasPre).start anch = some s0)
    (w : List UInt8)
    (h : ((buildContig (CNfa.compile k false P) dd bc hasPre).toAut k P hasPre).isSpecial
      (((buildContig (CNfa.compile k false P) dd bc hasPre).toAut k P hasPre).runFrom anch s0 w) = true) :
    ((buildContig (CNfa.compile k false P) dd bc hasPre).toAut k P hasPre).isDead
        (((buildContig (CNfa.compile k false P) dd bc hasPre).toAut k P hasPre).runFrom anch s0 w) = true ∨
      ((buildContig (CNfa.compile k false P) dd bc hasPre).toAut k P hasPre).isMatch
        (((buildContig (CNfa.compile k false P) dd bc hasPre).toAut k P hasPre).runFrom anch s0 w) = true ∨
      ((buildContig (CNfa.compile k false P) dd bc hasPre).toAut k P hasPre).isStart
        (((buildContig (CNfa.compile k false P) dd bc hasPre).toAut k P hasPre).runFrom anch s0 w) = true := by
  have e : s0 = if anch then (buildContig (CNfa.compile k false P) dd bc hasPre).startA
      else (buildContig (CNfa.compile k false P) dd bc hasPre).startU := (Option.some.inj hs).symm
  subst e
  have hobs := L1e_obsEquiv k P hasPre bc dd hP anch w
  obtain ⟨L, q', hFS, _, _, hrun⟩ := L1e_run k P hasPre bc dd anch w
  have hS := shufOK _ hFS.four_le_size
  have hsp := congrArg Obs.special hobs
  have hdd := congrArg Obs.dead hobs
  have hmm := congrArg Obs.isMatch hobs
  change ((buildContig (CNfa.compile k false P) dd bc hasPre).toAut k P hasPre).isSpecial _ =
    ((CNfa.compile k false P).toAut k P hasPre).isSpecial _ at hsp
  change ((buildContig (CNfa.compile k false P) dd bc hasPre).toAut k P hasPre).isDead _ =
    ((CNfa.compile k false P).toAut k P hasPre).isDead _ at hdd
  change ((buildContig (CNfa.compile k false P) dd bc hasPre).toAut k P hasPre).isMatch _ =
    ((CNfa.compile k false P).toAut k P hasPre).isMatch _ at hmm
  rw [hsp] at h
  rw [hdd, hmm]
  rcases C16_start_nfa _ k P hasPre _ h with h1 | h1 | h1
  · exact Or.inl h1
  · exact Or.inr (Or.inl h1)
  · refine Or.inr (Or.inr ?_)
    rw [hrun]
    have hU := startU_eq hS dd bc hasPre
    have hA := startA_eq hS dd bc hasPre
    rw [← buildContig_eq] at hU hA
    show (_ == (buildContig (CNfa.compile k false P) dd bc hasPre).startU ||
      _ == (buildContig (CNfa.compile k false P) dd bc hasPre).startA) = true
    rw [hU, hA]
    have h1' : ((((CNfa.compile k false P).toAut k P hasPre).runFrom anch
        (if anch then CNfa.SA else CNfa.SU) w) == CNfa.SU ||
      (((CNfa.compile k false P).toAut k P hasPre).runFrom anch
        (if anch then CNfa.SA else CNfa.SU) w) == CNfa.SA) = true := h1
    simp only [Bool.or_eq_true, beq_iff_eq] at h1' ⊢
    rcases h1' with e | e
    · exact Or.inl (congrArg _ e)
    · exact Or.inr (congrArg _ e)

/-- the noncontiguous NFA compiled with `ascii_case_insensitive(true)` -/
theorem C16_contract_nfa_fold (k : MatchKind) (P : List (List UInt8)) (hasPre anch : Bool) (s0 : Nat)
    (hs : ((CNfa.compile k true P).toAut k P hasPre).start anch = some s0) (w : List UInt8) :
    ((CNfa.compile k true P).toAut k P hasPre).ContractAt
      (((CNfa.compile k true P).toAut k P hasPre).runFrom anch s0 w) := by
  have e : s0 = if anch then CNfa.SA else CNfa.SU := (Option.some.inj hs).symm
  subst e
  have hn : ((CNfa.compile k true P).toAut k P hasPre).patternsLen =
      ((ideal k (P.map (·.map foldByte)) .both hasPre).comap foldByte).patternsLen := by
    show P.length = (P.map (·.map foldByte)).length
    rw [List.length_map]
  have hB : ∀ q, ((ideal k (P.map (·.map foldByte)) .both hasPre).comap foldByte).ContractAt q := by
    intro q
    have := ideal_comap_contractAt k (P.map (·.map foldByte)) .both hasPre foldByte q
    exact this
  have hO := L1cFold_obsEquiv k P hasPre anch
  exact Aut.ContractAt.of_obs_eq hn (hO w) (hB _)

/-! ## the dead state is absorbing, at every reachable state of every transcribed automaton -/

/-- an automaton whose dead states stay dead along every word -/
def Aut.DeadAbsorbing (A : Aut σ α) (anch : Bool) : Prop :=
  ∀ q, A.isDead q = true → ∀ v, A.isDead (A.runFrom anch q v) = true

theorem ideal_deadAbsorbing [DecidableEq α] (k : MatchKind) (P : List (List α)) (sk : StartKind)
    (hasPre anch : Bool) : (ideal k P sk hasPre).DeadAbsorbing anch := by
  intro q hq v
  have e : q = .dead := by
    have hq' : (q == St.dead) = true := hq
    simpa using hq'
  subst e
  rw [C16_ideal_dead_run]
  rfl

theorem ideal_comap_deadAbsorbing [DecidableEq α] (k : MatchKind) (P : List (List α))
    (sk : StartKind) (hasPre anch : Bool) (g : α → α) :
    ((ideal k P sk hasPre).comap g).DeadAbsorbing anch := by
  intro q hq v
  have e : q = .dead := by
    have hq' : (q == St.dead) = true := hq
    simpa using hq'
  subst e
  have : ((ideal k P sk hasPre).comap g).runFrom anch .dead v = .dead := by
    induction v with
    | nil => rfl
    | cons c v ih => exact ih
  rw [this]
  rfl

/-- transfer: once the observed automaton reports `is_dead`, it does so after every continuation -/
theorem ObsEquiv.dead_absorbing {A : Aut σ α} {B : Aut τ α} {anch : Bool} {a : σ} {b : τ}
    (h : ObsEquiv A B false anch a b) (hB : B.DeadAbsorbing anch) (w v : List α)
    (hd : A.isDead (A.runFrom anch a w) = true) :
    A.isDead (A.runFrom anch a (w ++ v)) = true := by
  have h1 : A.isDead (A.runFrom anch a w) = B.isDead (B.runFrom anch b w) :=
    congrArg Obs.dead (h w)
  have h2 : A.isDead (A.runFrom anch a (w ++ v)) = B.isDead (B.runFrom anch b (w ++ v)) :=
    congrArg Obs.dead (h (w ++ v))
  rw [h2, Aut.runFrom_append]
  exact hB _ (h1 ▸ hd) v

theorem C16_dead_absorbing_nfa (k : MatchKind) (P : List (List UInt8)) (hasPre anch : Bool)
    (w v : List UInt8)
    (hd : ((CNfa.compile k false P).toAut k P hasPre).isDead
      (((CNfa.compile k false P).toAut k P hasPre).runFrom anch (if anch then CNfa.SA else CNfa.SU) w) = true) :
    ((CNfa.compile k false P).toAut k P hasPre).isDead
      (((CNfa.compile k false P).toAut k P hasPre).runFrom anch (if anch then CNfa.SA else CNfa.SU)
        (w ++ v)) = true :=
  (L1c_obsEquiv k P hasPre anch).dead_absorbing (ideal_deadAbsorbing k P .both hasPre anch) w v hd

theorem C16_dead_absorbing_dfa (k : MatchKind) (P : List (List UInt8)) (hasPre bc : Bool)
    (sk : StartKind) (anch : Bool) (s0 : Nat)
    (hs : ((buildDfa (CNfa.compile k false P) sk bc).toAut k P hasPre).start anch = some s0)
    (w v : List UInt8)
    (hd : ((buildDfa (CNfa.compile k false P) sk bc).toAut k P hasPre).isDead
      (((buildDfa (CNfa.compile k false P) sk bc).toAut k P hasPre).runFrom anch s0 w) = true) :
    ((buildDfa (CNfa.compile k false P) sk bc).toAut k P hasPre).isDead
      (((buildDfa (CNfa.compile k false P) sk bc).toAut k P hasPre).runFrom anch s0 (w ++ v)) = true := by
  have hsup : supportsAnch sk anch := (L1d_start k P hasPre bc sk anch).1 (by rw [hs]; rfl)
  obtain ⟨s1, h1, h2⟩ := L1d_obsEquiv_ideal k P hasPre bc sk anch hsup
  have e : s0 = s1 := Option.some.inj (hs.symm.trans h1)
  subst e
  exact h2.dead_absorbing (ideal_deadAbsorbing k P sk hasPre anch) w v hd

theorem C16_dead_absorbing_contig (k : MatchKind) (P : List (List UInt8)) (hasPre bc : Bool)
    (dd : Nat) (hP : P.length < 2147483648) (anch : Bool) (w v : List UInt8)
    (hd : ((buildContig (CNfa.compile k false P) dd bc hasPre).toAut k P hasPre).isDead
      (((buildContig (CNfa.compile k false P) dd bc hasPre).toAut k P hasPre).runFrom anch
        (if anch then (buildContig (CNfa.compile k false P) dd bc hasPre).startA
          else (buildContig (CNfa.compile k false P) dd bc hasPre).startU) w) = true) :
    ((buildContig (CNfa.compile k false P) dd bc hasPre).toAut k P hasPre).isDead
      (((buildContig (CNfa.compile k false P) dd bc hasPre).toAut k P hasPre).runFrom anch
        (if anch then (buildContig (CNfa.compile k false P) dd bc hasPre).startA
          else (buildContig (CNfa.compile k false P) dd bc hasPre).startU) (w ++ v)) = true :=
  (L1e_obsEquiv_ideal k P hasPre bc dd hP anch).dead_absorbing
    (ideal_deadAbsorbing k P .both hasPre anch) w v hd

theorem C16_dead_absorbing_nfa_fold (k : MatchKind) (P : List (List UInt8)) (hasPre anch : Bool)
    (w v : List UInt8)
    (hd : ((CNfa.compile k true P).toAut k P hasPre).isDead
      (((CNfa.compile k true P).toAut k P hasPre).runFrom anch (if anch then CNfa.SA else CNfa.SU) w) = true) :
    ((CNfa.compile k true P).toAut k P hasPre).isDead
      (((CNfa.compile k true P).toAut k P hasPre).runFrom anch (if anch then CNfa.SA else CNfa.SU)
        (w ++ v)) = true := by
  have hB : ((ideal k (P.map (·.map foldByte)) .both hasPre).comap foldByte).DeadAbsorbing anch := by
    have := ideal_comap_deadAbsorbing k (P.map (·.map foldByte)) .both hasPre anch foldByte
    exact this
  have hO := L1cFold_obsEquiv k P hasPre anch
  exact hO.dead_absorbing hB w v hd

/-- what `ContractAt` says, spelled out (so that the statements above can be read without
unfolding): for the noncontiguous NFA -/
theorem C16_contract_nfa_spelled (k : MatchKind) (P : List (List UInt8)) (hasPre anch : Bool)
    (w : List UInt8) :
    let A := (CNfa.compile k false P).toAut k P hasPre
    let q := A.runFrom anch (if anch then CNfa.SA else CNfa.SU) w
    ((A.isDead q = true ∨ A.isMatch q = true) → A.isSpecial q = true) ∧
    (A.isSpecial q = true → A.isDead q = true ∨ A.isMatch q = true ∨ A.isStart q = true) ∧
    (A.isMatch q = true ↔ A.mpats q ≠ []) ∧
    ¬ (A.isDead q = true ∧ A.isMatch q = true) ∧
    (∀ p ∈ A.mpats q, p < P.length) := by
  intro A q
  have h : A.ContractAt q := C16_contract_nfa k P hasPre anch (if anch then CNfa.SA else CNfa.SU) rfl w
  exact ⟨h.1, C16_start_nfa _ k P hasPre q, h.2.1, h.2.2.1, h.2.2.2⟩

end AcVerif
