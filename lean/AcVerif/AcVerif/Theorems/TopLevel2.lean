import AcVerif.Theorems.TopLevelPre
import AcVerif.Theorems.C10
import AcVerif.Proofs.TopLevel2Stream
import AcVerif.Proofs.TopLevel2Span
import AcVerif.Proofs.TopLevel2Reject
import AcVerif.Proofs.TopLevel2Earliest
import AcVerif.Proofs.TopLevel2EarliestPre
/-!
# The capstone, part 2: C08 / C18 / C10 / C13 / C14 / C17 at the top level

`Theorems/TopLevel.lean` (`Top_*`, searchers without prefilter) and `Theorems/TopLevelPre.lean`
(`TopP_*` any sound prefilter, `TopB_*` the builder's own prefilter) state one theorem per public
search method.  This file lifts the remaining properties of the list to the same level – the built
searcher `s` of `acBuild {} cfg pre P = .ok s` (model `AcVerif/TopLevel.lean`, additions
`AcVerif/TopLevel2.lean`) – with the same three flavours:

1. **C08 / C18** `try_stream_replace_all_with`, `try_stream_replace_all`
   (`Top(P|B)_stream_replace_all_with`, `…_stream_replace_all`): standard kind, no empty pattern,
   unanchored searches supported, every schedule (entries `≥ 1`), every capacity with `hcap`: the
   writer receives `replaceBytes data ms repl none` for the matches `ms` of the in-memory iterator
   (what `try_replace_all_with_bytes` returns on the same data, the splice `spliceSpec`), the
   closure log is (match, raw matched bytes); a replacement table of the wrong length panics.
   `…_stream_read_fault`, `…_stream_write_fault`: a read failure at call `k` / a writer accepting
   `l` bytes: the matches / written bytes are a prefix of the fault-free ones, and an error is
   reported unless nothing was lost.  Both `ascii_case_insensitive` settings.
2. **C10** `…_find_span`, `…_find_frame`, `…_find_iter_span`, `…_find_iter_frame`: searching the span
   `[i.s, i.e]` is searching the sub-slice (`Input.slice`) with the offsets translated by `i.s`,
   and does not depend on the bytes outside the span (`cfg.matchKind = .std ∨ i.earliest = false`,
   the domain of `Top_find`; `Top_find_frame_any`: every mode, searcher without prefilter).
3. **C14** `Top(P)_find_earliest`: leftmost kinds with `earliest = true` (excluded from `Top_find`):
   the answer is a genuine admissible occurrence, present iff one exists, ending no later than THE
   normal answer – also with a (confirming) prefilter, which may return the normal match itself
   (`Proofs/TopLevel2EarliestPre.lean`).
4. **C17** `Top_pure`, `Top_clone`.
5. **C13** `Top(P)_rejection_iff` (`TopReject`): for every method, *the* error it returns (or none)
   is `gate` (`Engine/Gates.lean`) of `cfg.matchKind`, `cfg.startKind`, the requested anchoring and
   "`P` contains the empty pattern" – never of the automaton kind, the prefilter or the haystack;
   `gate_explicit` writes `gate` out per method, `C13_rejected_iff` gives its four clauses.
6. `TopSpec2`, `Top_spec2` / `TopB_spec2`, `Top_capstone2`, `TopB_capstone2`.
-/
namespace AcVerif
open AcVerif.TopP AcVerif.MiscP AcVerif.BuildP

/-- the hypothesis on the prefilter, transported to the fields of the built searcher -/
theorem preOK_built {cfg : BuildCfg} {pre : Option (Prefilter UInt8)} {P : List (List UInt8)}
    {s : Searcher} (hs : acBuild {} cfg pre P = .ok s) (hok : PreOK cfg.fold cfg.matchKind P pre) :
    PreOK s.cfg.fold s.cfg.matchKind s.pats s.pre := by
  obtain ⟨_, hc, hp, hpre⟩ := acBuild_good (Nat.le_refl _) hs
  rw [hc, hp, hpre]
  exact hok

/-! ## 5. which requests are rejected, and with which error (C13) -/

/-- **Rejection depends only on the configuration.**  For each public method, the `MatchError` it
returns (`none`: it returns `Ok`) is the verdict `gate` of the match kind, the start kind, the
requested anchoring mode and whether the pattern list contains the empty pattern. -/
structure TopReject (cfg : BuildCfg) (P : List (List UInt8)) (s : Searcher) : Prop where
  find : ∀ i : Input UInt8,
    matchErrOf (topFind s i) = gate .find cfg.matchKind cfg.startKind i.anch (hasEmptyPat P)
  isMatch : ∀ i : Input UInt8,
    matchErrOf (topIsMatch s i) = gate .isMatch cfg.matchKind cfg.startKind i.anch (hasEmptyPat P)
  findIter : ∀ i : Input UInt8,
    matchErrOf (topFindIter s i) =
      gate .findIter cfg.matchKind cfg.startKind i.anch (hasEmptyPat P)
  /-- every call of `try_find_overlapping`, whatever the `OverlappingState` handed in -/
  overlapping : ∀ (i : Input UInt8) (st : OState Nat),
    matchErrOf (topOvlCall s i st) =
      gate .findOverlapping cfg.matchKind cfg.startKind i.anch (hasEmptyPat P)
  /-- … hence the call history is a single error iff the gate rejects -/
  overlappingCalls : ∀ (i : Input UInt8) (n : Nat) (e : MatchErr),
    topOverlapping s i (n + 1) = [.error e] ↔
      gate .findOverlapping cfg.matchKind cfg.startKind i.anch (hasEmptyPat P) = some e
  overlappingIter : ∀ (i : Input UInt8) (fuel : Nat),
    matchErrOf (topOverlappingIter s i fuel) =
      gate .findOverlappingIter cfg.matchKind cfg.startKind i.anch (hasEmptyPat P)
  replaceAllWithBytes : ∀ (hay : List UInt8) (repl : Mat → List UInt8) (stop : Option Nat),
    matchErrOf (topReplaceAllWithBytes s hay repl stop) =
      gate .replaceAllWithBytes cfg.matchKind cfg.startKind false (hasEmptyPat P)
  replaceAllBytes : ∀ (hay : List UInt8) (replaceWith : List (List UInt8)),
    matchErrOf (topReplaceAllBytes s hay replaceWith) =
      gate .replaceAllBytes cfg.matchKind cfg.startKind false (hasEmptyPat P)
  streamFind : ∀ (rdr : Reader UInt8) (spare : Option Nat) (minFactor defaultCap : Nat),
    matchErrOf (topStreamFind s rdr spare minFactor defaultCap) =
      gate .streamFindIter cfg.matchKind cfg.startKind false (hasEmptyPat P)
  streamReplaceAllWith : ∀ (rdr : Reader UInt8) (spare : Option Nat) (w : Writer UInt8)
      (repl : Mat → List UInt8) (minFactor defaultCap : Nat),
    matchErrOf (topStreamReplaceAllWith s rdr spare w repl minFactor defaultCap) =
      gate .streamReplaceAllWith cfg.matchKind cfg.startKind false (hasEmptyPat P)
  streamReplaceAll : ∀ (rdr : Reader UInt8) (spare : Option Nat) (w : Writer UInt8)
      (replaceWith : List (List UInt8)) (minFactor defaultCap : Nat),
    replaceWith.length = P.length →
    matchErrOf (topStreamReplaceAll s rdr spare w replaceWith minFactor defaultCap) =
      gate .streamReplaceAll cfg.matchKind cfg.startKind false (hasEmptyPat P)
  /-- a replacement table of the wrong length: the anchoring gate first, then the panic of
  `assert_eq!(replace_with.len(), patterns_len())`, whatever the match kind and the patterns -/
  streamReplaceAllPanic : ∀ (rdr : Reader UInt8) (spare : Option Nat) (w : Writer UInt8)
      (replaceWith : List (List UInt8)) (minFactor defaultCap : Nat),
    replaceWith.length ≠ P.length →
    (supportsAnch cfg.startKind false →
      topStreamReplaceAll s rdr spare w replaceWith minFactor defaultCap = .ok .panic) ∧
    (¬ supportsAnch cfg.startKind false →
      topStreamReplaceAll s rdr spare w replaceWith minFactor defaultCap =
        .error .invalidInputUnanchored)

/-- **C13 at the top level**, for a searcher built with any prefilter function (no hypothesis on
the prefilter: rejection never consults it) -/
theorem TopP_rejection_iff (cfg : BuildCfg) (pre : Option (Prefilter UInt8))
    (P : List (List UInt8)) {s : Searcher} (hs : acBuild {} cfg pre P = .ok s) :
    TopReject cfg P s := by
  obtain ⟨hg, hc, hp, _⟩ := acBuild_good (Nat.le_refl _) hs
  have hmk : s.cfg.matchKind = cfg.matchKind := by rw [hc]
  have hsk : s.cfg.startKind = cfg.startKind := by rw [hc]
  exact
    { find := fun i => by
        have := rej_find hg i (hasEmptyPat P); rwa [hmk, hsk] at this
      isMatch := fun i => by
        have := rej_is_match hg i (hasEmptyPat P); rwa [hmk, hsk] at this
      findIter := fun i => by
        have := rej_find_iter hg i (hasEmptyPat P); rwa [hmk, hsk] at this
      overlapping := fun i st => by
        have := rej_overlapping hg i st (hasEmptyPat P); rwa [hmk, hsk] at this
      overlappingCalls := fun i n e => by
        have := rej_overlapping hg i OState.start (hasEmptyPat P)
        rw [hmk, hsk] at this
        rw [topOverlapping_err_iff, this]
      overlappingIter := fun i fuel => by
        have := rej_overlapping_iter hg i fuel (hasEmptyPat P); rwa [hmk, hsk] at this
      replaceAllWithBytes := fun hay repl stop => by
        have := rej_replace_with_bytes hg hay repl stop false (hasEmptyPat P)
        rwa [hmk, hsk] at this
      replaceAllBytes := fun hay replaceWith => by
        have := rej_replace_bytes hg hay replaceWith false (hasEmptyPat P)
        rwa [hmk, hsk] at this
      streamFind := fun rdr spare minFactor defaultCap => by
        have := rej_stream_find hg rdr spare minFactor defaultCap false
        rwa [hmk, hsk, hp] at this
      streamReplaceAllWith := fun rdr spare w repl minFactor defaultCap => by
        have := rej_stream_replace_with hg rdr spare w repl minFactor defaultCap false
        rwa [hmk, hsk, hp] at this
      streamReplaceAll := fun rdr spare w replaceWith minFactor defaultCap hl => by
        have := (rej_stream_replace hg rdr spare w replaceWith minFactor defaultCap false).1
          (by rw [hp]; exact hl)
        rwa [hmk, hsk, hp] at this
      streamReplaceAllPanic := fun rdr spare w replaceWith minFactor defaultCap hl => by
        have := (rej_stream_replace hg rdr spare w replaceWith minFactor defaultCap false).2
          (by rw [hp]; exact hl)
        rwa [hsk] at this }

/-- … for the searcher without prefilter -/
theorem Top_rejection_iff (cfg : BuildCfg) (P : List (List UInt8)) {s : Searcher}
    (hs : acBuild {} cfg none P = .ok s) : TopReject cfg P s :=
  TopP_rejection_iff cfg none P hs

/-- … for the searcher with the builder's own prefilter -/
theorem TopB_rejection_iff (K : Consts) (cfg : BuildCfg) (freq : UInt8 → Nat) (avx2 ssse3 : Bool)
    (P : List (List UInt8)) {s : Searcher}
    (hs : acBuildP {} K cfg freq avx2 ssse3 P = .ok s) : TopReject cfg P s :=
  TopP_rejection_iff cfg _ P hs

/-- `gate`, written out for each group of methods: the anchoring gate
(`enforce_anchored_consistency`, `Top_gate`) first; then, for the overlapping methods, the match
kind and (iterator only) the anchored request; for the stream methods, the match kind and the empty
pattern.  `C13_rejected_iff` states the same as the four clauses of the property. -/
theorem gate_explicit (mk : MatchKind) (sk : StartKind) (a he : Bool) :
    (gate .find mk sk a he = anchoredGate sk a ∧
      gate .isMatch mk sk a he = anchoredGate sk a ∧
      gate .findIter mk sk a he = anchoredGate sk a ∧
      gate .replaceAllBytes mk sk a he = anchoredGate sk false ∧
      gate .replaceAllWithBytes mk sk a he = anchoredGate sk false) ∧
    (gate .findOverlapping mk sk a he =
      match anchoredGate sk a with
      | some e => some e
      | none => if mk != .std then some .unsupportedOverlapping else none) ∧
    (gate .findOverlappingIter mk sk a he =
      match anchoredGate sk a with
      | some e => some e
      | none =>
        if mk != .std then some .unsupportedOverlapping
        else if a then some .invalidInputAnchored else none) ∧
    (∀ api : Api, api.isStream = true →
      gate api mk sk a he =
        match anchoredGate sk false with
        | some e => some e
        | none =>
          if mk != .std then some .unsupportedStream
          else if he then some .unsupportedEmpty else none) := by
  have h := gate_plain mk sk a he
  exact ⟨⟨h.1, h.2.1, h.2.2.1, h.2.2.2.2.1, h.2.2.2.2.2.2⟩, gate_overlapping mk sk a he,
    gate_overlapping_iter mk sk a he, fun api hapi => gate_stream api hapi mk sk a he⟩

/-! ## the methods, for any sound prefilter -/

section anypre
variable (cfg : BuildCfg) (pre : Option (Prefilter UInt8)) (P : List (List UInt8)) {s : Searcher}
  (hs : acBuild {} cfg pre P = .ok s)
include hs

/-! ### 1. stream replace (C08) and stream faults (C18) -/

/-- **`AhoCorasick::try_stream_replace_all_with`**: the writer receives what
`try_replace_all_with_bytes` computes in memory from the matches of `try_find_iter` on the whole
stream – the specification's iterator –, i.e. the splice `spliceSpec`; the closure is handed each
match with the raw matched bytes; no I/O error, no `read` into an empty buffer -/
theorem TopP_stream_replace_all_with (hok : PreOK cfg.fold cfg.matchKind P pre)
    (hk : cfg.matchKind = .std) (hne : ∀ p ∈ P, p ≠ []) (h : supportsAnch cfg.startKind false)
    (data : List UInt8) (sched : List Nat) (hsch : ∀ x ∈ sched, 1 ≤ x) (spare : Option Nat)
    (minFactor defaultCap : Nat)
    (hcap : (Buffer.new (α := UInt8) (maxPatLen P) spare minFactor defaultCap).min <
        (Buffer.new (α := UInt8) (maxPatLen P) spare minFactor defaultCap).cap)
    (repl : Mat → List UInt8) :
    ∃ F, (∀ st, st ≤ data.length + 1 →
        IsFind .std (specPats cfg.fold P) (specHay cfg.fold data) st data.length false (F st)) ∧
      topFindIter s (Input.whole data) = .ok (iterSpec F 0 data.length) ∧
      topStreamReplaceAllWith s { data := data, sched := sched } spare {} repl minFactor
          defaultCap =
        .ok ({ out := (replaceBytes data (iterSpec F 0 data.length) repl none).1 },
          (replaceBytes data (iterSpec F 0 data.length) repl none).2, true, 0) ∧
      topReplaceAllWithBytes s data repl none =
        .ok (replaceBytes data (iterSpec F 0 data.length) repl none) ∧
      (replaceBytes data (iterSpec F 0 data.length) repl none).1 =
        spliceSpec data repl 0 (iterSpec F 0 data.length) ∧
      (replaceBytes data (iterSpec F 0 data.length) repl none).2 =
        (iterSpec F 0 data.length).map fun m => (m, (data.take m.stop).drop m.start) := by
  obtain ⟨hg, hc, hp, _⟩ := acBuild_good (Nat.le_refl _) hs
  obtain ⟨F, hF, hi, hr, hb, hl⟩ :=
    (TopP_replace_all_with_bytes cfg pre P hs hok data repl none).1 h
  rw [hk] at hF
  obtain ⟨ms, h1, h2⟩ := api_stream_replace_with hg (preOK_built hs hok) (by rw [hc]; exact hk)
    (by rw [hp]; exact hne) (by rw [hc]; exact h) data sched hsch spare minFactor defaultCap
    (by rw [hp]; exact hcap) repl
  rw [hi] at h1
  cases h1
  exact ⟨F, hF, hi, h2, hr, hb, hl⟩

/-- **`AhoCorasick::try_stream_replace_all`**: with a replacement for every pattern, the writer
receives the output of `try_replace_all_bytes` on the same data (the splice of
`replace_with[mat.pattern()]`, every index in bounds); with a table of another length the method
panics (`assert_eq!`) -/
theorem TopP_stream_replace_all (hok : PreOK cfg.fold cfg.matchKind P pre)
    (hk : cfg.matchKind = .std) (hne : ∀ p ∈ P, p ≠ []) (h : supportsAnch cfg.startKind false)
    (data : List UInt8) (sched : List Nat) (hsch : ∀ x ∈ sched, 1 ≤ x) (spare : Option Nat)
    (minFactor defaultCap : Nat)
    (hcap : (Buffer.new (α := UInt8) (maxPatLen P) spare minFactor defaultCap).min <
        (Buffer.new (α := UInt8) (maxPatLen P) spare minFactor defaultCap).cap)
    (replaceWith : List (List UInt8)) :
    (replaceWith.length = P.length →
      ∃ ms out, topFindIter s (Input.whole data) = .ok ms ∧
        topReplaceAllBytes s data replaceWith = .ok out ∧
        topStreamReplaceAll s { data := data, sched := sched } spare {} replaceWith minFactor
          defaultCap = .ok (.ret ({ out := out }, true, 0)) ∧
        out = spliceSpec data (fun m => replaceWith.getD m.pid []) 0 ms ∧
        ∀ m ∈ ms, m.pid < replaceWith.length) ∧
    (replaceWith.length ≠ P.length →
      topStreamReplaceAll s { data := data, sched := sched } spare {} replaceWith minFactor
        defaultCap = .ok .panic) := by
  obtain ⟨hg, hc, hp, _⟩ := acBuild_good (Nat.le_refl _) hs
  refine ⟨fun hl => ?_, fun hl => ?_⟩
  · obtain ⟨ms, hi, hr, hpid⟩ := (TopP_replace_all_bytes cfg pre P hs hok data replaceWith).1 h
    obtain ⟨ms', h1, h2⟩ := api_stream_replace hg (preOK_built hs hok) (by rw [hc]; exact hk)
      (by rw [hp]; exact hne) (by rw [hc]; exact h) data sched hsch spare minFactor defaultCap
      (by rw [hp]; exact hcap) replaceWith (by rw [hp]; exact hl)
    rw [hi] at h1
    cases h1
    refine ⟨ms, _, hi, hr, ?_, rfl, fun m hm => by rw [hl]; exact hpid m hm⟩
    rw [h2, C12_bytes]
  · exact ((TopP_rejection_iff cfg pre P hs).streamReplaceAllPanic _ spare {} replaceWith
      minFactor defaultCap hl).1 h

/-- **A read failure at call `k`** of the stream iterator: the matches yielded before the error are
a prefix of the fault-free ones – the matches of `try_find_iter` on the whole stream –, `read` is
never called with an empty buffer, and an error is reported unless no match was lost -/
theorem TopP_stream_read_fault (hok : PreOK cfg.fold cfg.matchKind P pre)
    (hk : cfg.matchKind = .std) (hne : ∀ p ∈ P, p ≠ []) (h : supportsAnch cfg.startKind false)
    (data : List UInt8) (sched : List Nat) (hsch : ∀ x ∈ sched, 1 ≤ x) (spare : Option Nat)
    (minFactor defaultCap : Nat)
    (hcap : (Buffer.new (α := UInt8) (maxPatLen P) spare minFactor defaultCap).min <
        (Buffer.new (α := UInt8) (maxPatLen P) spare minFactor defaultCap).cap)
    (k : Nat) :
    ∃ ms ms' err er,
      topFindIter s (Input.whole data) = .ok ms ∧
      topStreamFind s { data := data, sched := sched } spare minFactor defaultCap =
        .ok (ms, false, 0) ∧
      topStreamFind s { data := data, sched := sched, failAt := some k } spare minFactor
        defaultCap = .ok (ms', err, er) ∧
      ms' <+: ms ∧ er = 0 ∧ (err = false → ms' = ms) := by
  obtain ⟨hg, hc, hp, _⟩ := acBuild_good (Nat.le_refl _) hs
  obtain ⟨F, _, hi, hsf⟩ := TopP_stream_find cfg pre P hs hok hk hne h data sched hsch spare
    minFactor defaultCap hcap
  obtain ⟨ms, ms', err, er, h1, h2, h3⟩ := api_stream_read_fault hg (by rw [hc]; exact hk)
    (by rw [hp]; exact hne) (by rw [hc]; exact h) data sched hsch spare minFactor defaultCap
    (by rw [hp]; exact hcap) k
  rw [hsf] at h1
  cases h1
  exact ⟨_, ms', err, er, hi, hsf, h2, h3⟩

/-- **A writer that accepts only `l` bytes** in `try_stream_replace_all_with`: what it accepted is a
prefix, of length at most `l`, of the fault-free output – the output of
`try_replace_all_with_bytes` –, and an error is reported unless the output is complete -/
theorem TopP_stream_write_fault (hok : PreOK cfg.fold cfg.matchKind P pre)
    (hk : cfg.matchKind = .std) (hne : ∀ p ∈ P, p ≠ []) (h : supportsAnch cfg.startKind false)
    (data : List UInt8) (sched : List Nat) (hsch : ∀ x ∈ sched, 1 ≤ x) (spare : Option Nat)
    (minFactor defaultCap : Nat)
    (hcap : (Buffer.new (α := UInt8) (maxPatLen P) spare minFactor defaultCap).min <
        (Buffer.new (α := UInt8) (maxPatLen P) spare minFactor defaultCap).cap)
    (repl : Mat → List UInt8) (l : Nat) :
    ∃ out log w' log' ok',
      topReplaceAllWithBytes s data repl none = .ok (out, log) ∧
      topStreamReplaceAllWith s { data := data, sched := sched } spare {} repl minFactor
        defaultCap = .ok ({ out := out }, log, true, 0) ∧
      topStreamReplaceAllWith s { data := data, sched := sched } spare { limit := some l } repl
        minFactor defaultCap = .ok (w', log', ok', 0) ∧
      w'.out <+: out ∧ w'.out.length ≤ l ∧ (ok' = true → w'.out = out) := by
  obtain ⟨hg, hc, hp, _⟩ := acBuild_good (Nat.le_refl _) hs
  obtain ⟨F, _, _, hsr, hr, _, _⟩ := TopP_stream_replace_all_with cfg pre P hs hok hk hne h data
    sched hsch spare minFactor defaultCap hcap repl
  obtain ⟨w, w', log, log', ok', h1, h2, h3⟩ := api_stream_write_fault hg (by rw [hc]; exact hk)
    (by rw [hp]; exact hne) (by rw [hc]; exact h) data sched hsch spare minFactor defaultCap
    (by rw [hp]; exact hcap) repl l
  rw [hsr] at h1
  cases h1
  exact ⟨_, _, w', log', ok', hr, hsr, h2, h3⟩

/-! ### 2. a span is the sub-slice (C10) -/

/-- **`try_find` on a span is `try_find` on the sub-slice**, offsets translated by the span
start; a rejected request is rejected on both -/
theorem TopP_find_span (hok : PreOK cfg.fold cfg.matchKind P pre) (i : Input UInt8)
    (hse : i.s ≤ i.e) :
    (supportsAnch cfg.startKind i.anch → (cfg.matchKind = .std ∨ i.earliest = false) →
      ∃ r, topFind s i.slice = .ok r ∧ topFind s i = .ok (r.map (·.shift i.s))) ∧
    (¬ supportsAnch cfg.startKind i.anch →
      topFind s i.slice = .error (anchErr i.anch) ∧ topFind s i = .error (anchErr i.anch)) := by
  refine ⟨fun h he => ?_, fun h => ?_⟩
  · obtain ⟨r1, h1, f1⟩ := (TopP_find cfg pre P hs hok i).1 h he
    obtain ⟨r, h2, f2⟩ := (TopP_find cfg pre P hs hok i.slice).1 h he
    refine ⟨r, h2, ?_⟩
    have f2' : IsFind cfg.matchKind (specPats cfg.fold P)
        (((specHay cfg.fold i.hay).take i.e).drop i.s) 0 (i.e - i.s) i.anch r := by
      rw [← specHay_slice]; exact f2
    have f3 := (C10_find_slice cfg.matchKind (specPats cfg.fold P) (specHay cfg.fold i.hay) i.s
      i.e hse (by rw [specHay_length]; exact i.valid.1) i.anch r).1 f2'
    rw [h1, IsFind_unique _ _ _ _ _ _ _ _ f1 f3]
  · exact ⟨(TopP_find cfg pre P hs hok i.slice).2 h, (TopP_find cfg pre P hs hok i).2 h⟩

/-- **`try_find` does not depend on the bytes outside the span**: two inputs with the same span,
anchoring and `earliest` flag whose haystacks agree on the span get the same answer -/
theorem TopP_find_frame (hok : PreOK cfg.fold cfg.matchKind P pre) (i i' : Input UInt8)
    (hs' : i'.s = i.s) (he' : i'.e = i.e) (ha : i'.anch = i.anch)
    (hea : i'.earliest = i.earliest)
    (hsame : (i.hay.take i.e).drop i.s = (i'.hay.take i.e).drop i.s)
    (hk : cfg.matchKind = .std ∨ i.earliest = false) :
    topFind s i = topFind s i' := by
  by_cases h : supportsAnch cfg.startKind i.anch
  · obtain ⟨r, h1, f1⟩ := (TopP_find cfg pre P hs hok i).1 h hk
    obtain ⟨r', h2, f2⟩ := (TopP_find cfg pre P hs hok i').1 (by rw [ha]; exact h)
      (by rw [hea]; exact hk)
    rw [hs', he', ha] at f2
    have hsame' : ((specHay cfg.fold i.hay).take i.e).drop i.s =
        ((specHay cfg.fold i'.hay).take i.e).drop i.s := by
      rw [← specHay_slice, ← specHay_slice, hsame]
    have f3 := (C10_find_frame cfg.matchKind (specPats cfg.fold P) (specHay cfg.fold i.hay)
      (specHay cfg.fold i'.hay) i.s i.e (by rw [specHay_length]; exact i.valid.1)
      (by rw [specHay_length, ← he']; exact i'.valid.1) hsame' i.anch r').2 f2
    rw [h1, h2, IsFind_unique _ _ _ _ _ _ _ _ f1 f3]
  · rw [(TopP_find cfg pre P hs hok i).2 h, (TopP_find cfg pre P hs hok i').2 (by rw [ha]; exact h),
      ha]

/-- **`try_find_iter` on a span is `try_find_iter` on the sub-slice**, offsets translated -/
theorem TopP_find_iter_span (hok : PreOK cfg.fold cfg.matchKind P pre) (i : Input UInt8)
    (hse : i.s ≤ i.e) :
    (supportsAnch cfg.startKind i.anch → (cfg.matchKind = .std ∨ i.earliest = false) →
      ∃ l, topFindIter s i.slice = .ok l ∧ topFindIter s i = .ok (l.map (·.shift i.s))) ∧
    (¬ supportsAnch cfg.startKind i.anch →
      topFindIter s i.slice = .error (anchErr i.anch) ∧
        topFindIter s i = .error (anchErr i.anch)) := by
  refine ⟨fun h he => ?_, fun h => ?_⟩
  · obtain ⟨F, hF, h1⟩ := (TopP_find_iter cfg pre P hs hok i).1 h he
    obtain ⟨F', hF', h2⟩ := (TopP_find_iter cfg pre P hs hok i.slice).1 h he
    refine ⟨_, h2, ?_⟩
    have hF'' : ∀ st, st ≤ (i.e - i.s) + 1 → IsFind cfg.matchKind (specPats cfg.fold P)
        (((specHay cfg.fold i.hay).take i.e).drop i.s) st (i.e - i.s) i.anch (F' st) := by
      intro st hst
      rw [← specHay_slice]; exact hF' st hst
    rw [h1]
    exact congrArg Except.ok (iter_slice hse hF hF'')
  · exact ⟨(TopP_find_iter cfg pre P hs hok i.slice).2 h, (TopP_find_iter cfg pre P hs hok i).2 h⟩

/-- **`try_find_iter` does not depend on the bytes outside the span** -/
theorem TopP_find_iter_frame (hok : PreOK cfg.fold cfg.matchKind P pre) (i i' : Input UInt8)
    (hs' : i'.s = i.s) (he' : i'.e = i.e) (ha : i'.anch = i.anch)
    (hea : i'.earliest = i.earliest)
    (hsame : (i.hay.take i.e).drop i.s = (i'.hay.take i.e).drop i.s)
    (hk : cfg.matchKind = .std ∨ i.earliest = false) :
    topFindIter s i = topFindIter s i' := by
  by_cases h : supportsAnch cfg.startKind i.anch
  · obtain ⟨F, hF, h1⟩ := (TopP_find_iter cfg pre P hs hok i).1 h hk
    obtain ⟨F', hF', h2⟩ := (TopP_find_iter cfg pre P hs hok i').1 (by rw [ha]; exact h)
      (by rw [hea]; exact hk)
    rw [hs', he'] at h2
    rw [he', ha] at hF'
    have hsame' : ((specHay cfg.fold i.hay).take i.e).drop i.s =
        ((specHay cfg.fold i'.hay).take i.e).drop i.s := by
      rw [← specHay_slice, ← specHay_slice, hsame]
    rw [h1, h2]
    exact congrArg Except.ok (iter_frame hsame' i.valid.2 hF hF')
  · rw [(TopP_find_iter cfg pre P hs hok i).2 h,
      (TopP_find_iter cfg pre P hs hok i').2 (by rw [ha]; exact h), ha]

/-! ### 3. earliest mode on the leftmost kinds (C14) -/

/-- **`try_find` with `earliest(true)` on a leftmost searcher** (the case `Top_find` excludes): it
succeeds; it reports something exactly when the normal search does, i.e. exactly when an admissible
occurrence exists; what it reports is a genuine admissible occurrence, and it ends no later than
THE leftmost answer `r'` of the normal search.  (With a confirming – packed – prefilter the
reported match may be the normal one instead of the earliest; the statement covers it: it ends no
later than itself.) -/
theorem TopP_find_earliest (hok : PreOK cfg.fold cfg.matchKind P pre)
    (hk : cfg.matchKind ≠ .std) (i : Input UInt8) (h : supportsAnch cfg.startKind i.anch) :
    ∃ r r', topFind s { i with earliest := true } = .ok r ∧
      topFind s { i with earliest := false } = .ok r' ∧
      IsFind cfg.matchKind (specPats cfg.fold P) (specHay cfg.fold i.hay) i.s i.e i.anch r' ∧
      r.isSome = r'.isSome ∧
      (r.isSome = true ↔
        ∃ m, IsOccA (specPats cfg.fold P) (specHay cfg.fold i.hay) i.s i.e i.anch m) ∧
      ∀ m, r = some m →
        IsOccA (specPats cfg.fold P) (specHay cfg.fold i.hay) i.s i.e i.anch m ∧
          ∀ m', r' = some m' → m.stop ≤ m'.stop := by
  obtain ⟨hg, hc, hp, hpre⟩ := acBuild_good (Nat.le_refl _) hs
  have key : ∃ r r', topFind s { i with earliest := true } = .ok r ∧
      topFind s { i with earliest := false } = .ok r' ∧
      IsFind s.cfg.matchKind (specPats s.cfg.fold s.pats) (specHay s.cfg.fold i.hay)
        i.s i.e i.anch r' ∧
      EarliestOK (specPats s.cfg.fold s.pats) (specHay s.cfg.fold i.hay) i.s i.e i.anch r r' := by
    cases pre with
    | none =>
      exact api_find_earliest hg hpre (by rw [hc]; exact hk) i (by rw [hc]; exact h)
    | some p =>
      exact api_find_earliest_pre hg hpre (by rw [hp]; exact hok.1)
        (by rw [hc, hp]; exact hok.2) (by rw [hc]; exact hk) i (by rw [hc]; exact h)
  obtain ⟨r, r', h1, h2, h3, h4, h5⟩ := key
  rw [hc, hp] at h3 h5
  refine ⟨r, r', h1, h2, h3, h4, ?_, h5⟩
  rw [h4]
  exact isFind_isSome_iff h3

end anypre

/-! ## 4. the methods are functions of (searcher, input) (C17) -/

/-- **Purity.**  The builder is a function – two builds from the same arguments return the same
searcher –, and the answers to a family of inputs do not depend on the order in which they are
asked: along any permutation of the inputs the (input, answers) pairs are permuted alike, and the
`j`-th answer of a batch is the stand-alone answer to the `j`-th input. -/
theorem Top_pure (L : Limits) (cfg : BuildCfg) (pre : Option (Prefilter UInt8))
    (P : List (List UInt8)) {s : Searcher} (hs : acBuild L cfg pre P = .ok s) :
    (∀ s', acBuild L cfg pre P = .ok s' → s' = s) ∧
    (∀ l l' : List (Input UInt8), l.Perm l' →
      (l.map fun i => (i, topFind s i, topIsMatch s i, topFindIter s i)).Perm
        (l'.map fun i => (i, topFind s i, topIsMatch s i, topFindIter s i))) ∧
    (∀ (l : List (Input UInt8)) (j : Nat) (h : j < l.length),
      (l.map (topFind s))[j]? = some (topFind s l[j])) := by
  refine ⟨fun s' hs' => ?_, fun l l' hp => hp.map _, fun l j h => ?_⟩
  · rw [hs] at hs'; injection hs' with hs'; exact hs'.symm
  · rw [List.getElem?_map, List.getElem?_eq_getElem h]; rfl

/-- **A clone answers identically**: the methods read nothing but the record -/
theorem Top_clone (s s' : Searcher) (h : s' = s) :
    topFind s' = topFind s ∧ topIsMatch s' = topIsMatch s ∧ topFindIter s' = topFindIter s ∧
    topOverlapping s' = topOverlapping s ∧ topOverlappingIter s' = topOverlappingIter s ∧
    topReplaceAllWithBytes s' = topReplaceAllWithBytes s ∧
    topReplaceAllBytes s' = topReplaceAllBytes s ∧
    @topStreamFind s' = @topStreamFind s ∧
    @topStreamReplaceAllWith s' = @topStreamReplaceAllWith s ∧
    @topStreamReplaceAll s' = @topStreamReplaceAll s := by
  subst h
  exact ⟨rfl, rfl, rfl, rfl, rfl, rfl, rfl, rfl, rfl, rfl⟩

/-! ## the searcher without prefilter: `Top_*` -/

section nopre
variable (cfg : BuildCfg) (P : List (List UInt8)) {s : Searcher}
  (hs : acBuild {} cfg none P = .ok s)
include hs

/-- **`AhoCorasick::try_stream_replace_all_with`** (C08) -/
theorem Top_stream_replace_all_with (hk : cfg.matchKind = .std) (hne : ∀ p ∈ P, p ≠ [])
    (h : supportsAnch cfg.startKind false) (data : List UInt8) (sched : List Nat)
    (hsch : ∀ x ∈ sched, 1 ≤ x) (spare : Option Nat) (minFactor defaultCap : Nat)
    (hcap : (Buffer.new (α := UInt8) (maxPatLen P) spare minFactor defaultCap).min <
        (Buffer.new (α := UInt8) (maxPatLen P) spare minFactor defaultCap).cap)
    (repl : Mat → List UInt8) :
    ∃ F, (∀ st, st ≤ data.length + 1 →
        IsFind .std (specPats cfg.fold P) (specHay cfg.fold data) st data.length false (F st)) ∧
      topFindIter s (Input.whole data) = .ok (iterSpec F 0 data.length) ∧
      topStreamReplaceAllWith s { data := data, sched := sched } spare {} repl minFactor
          defaultCap =
        .ok ({ out := (replaceBytes data (iterSpec F 0 data.length) repl none).1 },
          (replaceBytes data (iterSpec F 0 data.length) repl none).2, true, 0) ∧
      topReplaceAllWithBytes s data repl none =
        .ok (replaceBytes data (iterSpec F 0 data.length) repl none) ∧
      (replaceBytes data (iterSpec F 0 data.length) repl none).1 =
        spliceSpec data repl 0 (iterSpec F 0 data.length) ∧
      (replaceBytes data (iterSpec F 0 data.length) repl none).2 =
        (iterSpec F 0 data.length).map fun m => (m, (data.take m.stop).drop m.start) :=
  TopP_stream_replace_all_with cfg none P hs trivial hk hne h data sched hsch spare minFactor
    defaultCap hcap repl

/-- … with the production constants (`max(8·min, 64 KiB)`, or explicit spare room) -/
theorem Top_stream_replace_all_with_default (hk : cfg.matchKind = .std) (hne : ∀ p ∈ P, p ≠ [])
    (h : supportsAnch cfg.startKind false) (data : List UInt8) (sched : List Nat)
    (hsch : ∀ x ∈ sched, 1 ≤ x) (spare : Option Nat) (repl : Mat → List UInt8) :
    ∃ ms, topFindIter s (Input.whole data) = .ok ms ∧
      topStreamReplaceAllWith s { data := data, sched := sched } spare {} repl =
        .ok ({ out := (replaceBytes data ms repl none).1 }, (replaceBytes data ms repl none).2,
          true, 0) ∧
      topReplaceAllWithBytes s data repl none = .ok (replaceBytes data ms repl none) := by
  obtain ⟨F, _, h1, h2, h3, _⟩ := Top_stream_replace_all_with cfg P hs hk hne h data sched hsch
    spare 8 (64 * 1024) (StreamP.hcap_default _ spare) repl
  exact ⟨_, h1, h2, h3⟩

/-- **`AhoCorasick::try_stream_replace_all`** (C08; the `assert_eq!` panic) -/
theorem Top_stream_replace_all (hk : cfg.matchKind = .std) (hne : ∀ p ∈ P, p ≠ [])
    (h : supportsAnch cfg.startKind false) (data : List UInt8) (sched : List Nat)
    (hsch : ∀ x ∈ sched, 1 ≤ x) (spare : Option Nat) (minFactor defaultCap : Nat)
    (hcap : (Buffer.new (α := UInt8) (maxPatLen P) spare minFactor defaultCap).min <
        (Buffer.new (α := UInt8) (maxPatLen P) spare minFactor defaultCap).cap)
    (replaceWith : List (List UInt8)) :
    (replaceWith.length = P.length →
      ∃ ms out, topFindIter s (Input.whole data) = .ok ms ∧
        topReplaceAllBytes s data replaceWith = .ok out ∧
        topStreamReplaceAll s { data := data, sched := sched } spare {} replaceWith minFactor
          defaultCap = .ok (.ret ({ out := out }, true, 0)) ∧
        out = spliceSpec data (fun m => replaceWith.getD m.pid []) 0 ms ∧
        ∀ m ∈ ms, m.pid < replaceWith.length) ∧
    (replaceWith.length ≠ P.length →
      topStreamReplaceAll s { data := data, sched := sched } spare {} replaceWith minFactor
        defaultCap = .ok .panic) :=
  TopP_stream_replace_all cfg none P hs trivial hk hne h data sched hsch spare minFactor
    defaultCap hcap replaceWith

/-- **a read failure at call `k`** (C18) -/
theorem Top_stream_read_fault (hk : cfg.matchKind = .std) (hne : ∀ p ∈ P, p ≠ [])
    (h : supportsAnch cfg.startKind false) (data : List UInt8) (sched : List Nat)
    (hsch : ∀ x ∈ sched, 1 ≤ x) (spare : Option Nat) (minFactor defaultCap : Nat)
    (hcap : (Buffer.new (α := UInt8) (maxPatLen P) spare minFactor defaultCap).min <
        (Buffer.new (α := UInt8) (maxPatLen P) spare minFactor defaultCap).cap)
    (k : Nat) :
    ∃ ms ms' err er,
      topFindIter s (Input.whole data) = .ok ms ∧
      topStreamFind s { data := data, sched := sched } spare minFactor defaultCap =
        .ok (ms, false, 0) ∧
      topStreamFind s { data := data, sched := sched, failAt := some k } spare minFactor
        defaultCap = .ok (ms', err, er) ∧
      ms' <+: ms ∧ er = 0 ∧ (err = false → ms' = ms) :=
  TopP_stream_read_fault cfg none P hs trivial hk hne h data sched hsch spare minFactor
    defaultCap hcap k

/-- **a writer that accepts only `l` bytes** (C18) -/
theorem Top_stream_write_fault (hk : cfg.matchKind = .std) (hne : ∀ p ∈ P, p ≠ [])
    (h : supportsAnch cfg.startKind false) (data : List UInt8) (sched : List Nat)
    (hsch : ∀ x ∈ sched, 1 ≤ x) (spare : Option Nat) (minFactor defaultCap : Nat)
    (hcap : (Buffer.new (α := UInt8) (maxPatLen P) spare minFactor defaultCap).min <
        (Buffer.new (α := UInt8) (maxPatLen P) spare minFactor defaultCap).cap)
    (repl : Mat → List UInt8) (l : Nat) :
    ∃ out log w' log' ok',
      topReplaceAllWithBytes s data repl none = .ok (out, log) ∧
      topStreamReplaceAllWith s { data := data, sched := sched } spare {} repl minFactor
        defaultCap = .ok ({ out := out }, log, true, 0) ∧
      topStreamReplaceAllWith s { data := data, sched := sched } spare { limit := some l } repl
        minFactor defaultCap = .ok (w', log', ok', 0) ∧
      w'.out <+: out ∧ w'.out.length ≤ l ∧ (ok' = true → w'.out = out) :=
  TopP_stream_write_fault cfg none P hs trivial hk hne h data sched hsch spare minFactor
    defaultCap hcap repl l

/-- **`try_find` on a span is `try_find` on the sub-slice** (C10) -/
theorem Top_find_span (i : Input UInt8) (hse : i.s ≤ i.e) :
    (supportsAnch cfg.startKind i.anch → (cfg.matchKind = .std ∨ i.earliest = false) →
      ∃ r, topFind s i.slice = .ok r ∧ topFind s i = .ok (r.map (·.shift i.s))) ∧
    (¬ supportsAnch cfg.startKind i.anch →
      topFind s i.slice = .error (anchErr i.anch) ∧ topFind s i = .error (anchErr i.anch)) :=
  TopP_find_span cfg none P hs trivial i hse

/-- **`try_find` does not depend on the bytes outside the span** (C10) -/
theorem Top_find_frame (i i' : Input UInt8)
    (hs' : i'.s = i.s) (he' : i'.e = i.e) (ha : i'.anch = i.anch)
    (hea : i'.earliest = i.earliest)
    (hsame : (i.hay.take i.e).drop i.s = (i'.hay.take i.e).drop i.s)
    (hk : cfg.matchKind = .std ∨ i.earliest = false) :
    topFind s i = topFind s i' :=
  TopP_find_frame cfg none P hs trivial i i' hs' he' ha hea hsame hk

/-- … in **every** mode, `earliest(true)` on a leftmost searcher included: the prefilter-free
search loop reads the haystack only inside the span -/
theorem Top_find_frame_any (i i' : Input UInt8)
    (hs' : i'.s = i.s) (he' : i'.e = i.e) (ha : i'.anch = i.anch)
    (hea : i'.earliest = i.earliest)
    (hsame : (i.hay.take i.e).drop i.s = (i'.hay.take i.e).drop i.s) :
    topFind s i = topFind s i' :=
  topFind_frame_nopre s (Top_build_fields hs).2.2 i i' hs' he' ha hea hsame

/-- **`try_find_iter` on a span is `try_find_iter` on the sub-slice** (C10) -/
theorem Top_find_iter_span (i : Input UInt8) (hse : i.s ≤ i.e) :
    (supportsAnch cfg.startKind i.anch → (cfg.matchKind = .std ∨ i.earliest = false) →
      ∃ l, topFindIter s i.slice = .ok l ∧ topFindIter s i = .ok (l.map (·.shift i.s))) ∧
    (¬ supportsAnch cfg.startKind i.anch →
      topFindIter s i.slice = .error (anchErr i.anch) ∧
        topFindIter s i = .error (anchErr i.anch)) :=
  TopP_find_iter_span cfg none P hs trivial i hse

/-- **`try_find_iter` does not depend on the bytes outside the span** (C10) -/
theorem Top_find_iter_frame (i i' : Input UInt8)
    (hs' : i'.s = i.s) (he' : i'.e = i.e) (ha : i'.anch = i.anch)
    (hea : i'.earliest = i.earliest)
    (hsame : (i.hay.take i.e).drop i.s = (i'.hay.take i.e).drop i.s)
    (hk : cfg.matchKind = .std ∨ i.earliest = false) :
    topFindIter s i = topFindIter s i' :=
  TopP_find_iter_frame cfg none P hs trivial i i' hs' he' ha hea hsame hk

/-- **`try_find` with `earliest(true)` on a leftmost searcher** (C14) -/
theorem Top_find_earliest (hk : cfg.matchKind ≠ .std) (i : Input UInt8)
    (h : supportsAnch cfg.startKind i.anch) :
    ∃ r r', topFind s { i with earliest := true } = .ok r ∧
      topFind s { i with earliest := false } = .ok r' ∧
      IsFind cfg.matchKind (specPats cfg.fold P) (specHay cfg.fold i.hay) i.s i.e i.anch r' ∧
      r.isSome = r'.isSome ∧
      (r.isSome = true ↔
        ∃ m, IsOccA (specPats cfg.fold P) (specHay cfg.fold i.hay) i.s i.e i.anch m) ∧
      ∀ m, r = some m →
        IsOccA (specPats cfg.fold P) (specHay cfg.fold i.hay) i.s i.e i.anch m ∧
          ∀ m', r' = some m' → m.stop ≤ m'.stop :=
  TopP_find_earliest cfg none P hs trivial hk i h

end nopre

/-! ## 6. everything as one statement -/

/-- the second half of the specification of a searcher for configuration `cfg` and patterns `P`
(the first half is `TopSpec`) -/
structure TopSpec2 (cfg : BuildCfg) (P : List (List UInt8)) (s : Searcher) : Prop where
  /-- C08 -/
  streamReplaceAllWith : cfg.matchKind = .std → (∀ p ∈ P, p ≠ []) →
    supportsAnch cfg.startKind false →
    ∀ (data : List UInt8) (sched : List Nat), (∀ x ∈ sched, 1 ≤ x) →
    ∀ (spare : Option Nat) (minFactor defaultCap : Nat),
      (Buffer.new (α := UInt8) (maxPatLen P) spare minFactor defaultCap).min <
        (Buffer.new (α := UInt8) (maxPatLen P) spare minFactor defaultCap).cap →
    ∀ repl : Mat → List UInt8,
      ∃ ms, topFindIter s (Input.whole data) = .ok ms ∧
        topStreamReplaceAllWith s { data := data, sched := sched } spare {} repl minFactor
            defaultCap =
          .ok ({ out := (replaceBytes data ms repl none).1 }, (replaceBytes data ms repl none).2,
            true, 0) ∧
        topReplaceAllWithBytes s data repl none = .ok (replaceBytes data ms repl none) ∧
        (replaceBytes data ms repl none).2 =
          ms.map fun m => (m, (data.take m.stop).drop m.start)
  /-- C08, the table variant and its panic -/
  streamReplaceAll : cfg.matchKind = .std → (∀ p ∈ P, p ≠ []) →
    supportsAnch cfg.startKind false →
    ∀ (data : List UInt8) (sched : List Nat), (∀ x ∈ sched, 1 ≤ x) →
    ∀ (spare : Option Nat) (minFactor defaultCap : Nat),
      (Buffer.new (α := UInt8) (maxPatLen P) spare minFactor defaultCap).min <
        (Buffer.new (α := UInt8) (maxPatLen P) spare minFactor defaultCap).cap →
    ∀ replaceWith : List (List UInt8),
      (replaceWith.length = P.length →
        ∃ ms out, topFindIter s (Input.whole data) = .ok ms ∧
          topReplaceAllBytes s data replaceWith = .ok out ∧
          topStreamReplaceAll s { data := data, sched := sched } spare {} replaceWith minFactor
            defaultCap = .ok (.ret ({ out := out }, true, 0)) ∧
          out = spliceSpec data (fun m => replaceWith.getD m.pid []) 0 ms ∧
          ∀ m ∈ ms, m.pid < replaceWith.length) ∧
      (replaceWith.length ≠ P.length →
        topStreamReplaceAll s { data := data, sched := sched } spare {} replaceWith minFactor
          defaultCap = .ok .panic)
  /-- C18, reader -/
  streamReadFault : cfg.matchKind = .std → (∀ p ∈ P, p ≠ []) →
    supportsAnch cfg.startKind false →
    ∀ (data : List UInt8) (sched : List Nat), (∀ x ∈ sched, 1 ≤ x) →
    ∀ (spare : Option Nat) (minFactor defaultCap : Nat),
      (Buffer.new (α := UInt8) (maxPatLen P) spare minFactor defaultCap).min <
        (Buffer.new (α := UInt8) (maxPatLen P) spare minFactor defaultCap).cap →
    ∀ k : Nat,
      ∃ ms ms' err er,
        topFindIter s (Input.whole data) = .ok ms ∧
        topStreamFind s { data := data, sched := sched } spare minFactor defaultCap =
          .ok (ms, false, 0) ∧
        topStreamFind s { data := data, sched := sched, failAt := some k } spare minFactor
          defaultCap = .ok (ms', err, er) ∧
        ms' <+: ms ∧ er = 0 ∧ (err = false → ms' = ms)
  /-- C18, writer -/
  streamWriteFault : cfg.matchKind = .std → (∀ p ∈ P, p ≠ []) →
    supportsAnch cfg.startKind false →
    ∀ (data : List UInt8) (sched : List Nat), (∀ x ∈ sched, 1 ≤ x) →
    ∀ (spare : Option Nat) (minFactor defaultCap : Nat),
      (Buffer.new (α := UInt8) (maxPatLen P) spare minFactor defaultCap).min <
        (Buffer.new (α := UInt8) (maxPatLen P) spare minFactor defaultCap).cap →
    ∀ (repl : Mat → List UInt8) (l : Nat),
      ∃ out log w' log' ok',
        topReplaceAllWithBytes s data repl none = .ok (out, log) ∧
        topStreamReplaceAllWith s { data := data, sched := sched } spare {} repl minFactor
          defaultCap = .ok ({ out := out }, log, true, 0) ∧
        topStreamReplaceAllWith s { data := data, sched := sched } spare { limit := some l } repl
          minFactor defaultCap = .ok (w', log', ok', 0) ∧
        w'.out <+: out ∧ w'.out.length ≤ l ∧ (ok' = true → w'.out = out)
  /-- C10 -/
  findSpan : ∀ i : Input UInt8, i.s ≤ i.e →
    (supportsAnch cfg.startKind i.anch → (cfg.matchKind = .std ∨ i.earliest = false) →
      ∃ r, topFind s i.slice = .ok r ∧ topFind s i = .ok (r.map (·.shift i.s))) ∧
    (¬ supportsAnch cfg.startKind i.anch →
      topFind s i.slice = .error (anchErr i.anch) ∧ topFind s i = .error (anchErr i.anch))
  findFrame : ∀ i i' : Input UInt8, i'.s = i.s → i'.e = i.e → i'.anch = i.anch →
    i'.earliest = i.earliest → (i.hay.take i.e).drop i.s = (i'.hay.take i.e).drop i.s →
    (cfg.matchKind = .std ∨ i.earliest = false) → topFind s i = topFind s i'
  findIterSpan : ∀ i : Input UInt8, i.s ≤ i.e →
    (supportsAnch cfg.startKind i.anch → (cfg.matchKind = .std ∨ i.earliest = false) →
      ∃ l, topFindIter s i.slice = .ok l ∧ topFindIter s i = .ok (l.map (·.shift i.s))) ∧
    (¬ supportsAnch cfg.startKind i.anch →
      topFindIter s i.slice = .error (anchErr i.anch) ∧
        topFindIter s i = .error (anchErr i.anch))
  findIterFrame : ∀ i i' : Input UInt8, i'.s = i.s → i'.e = i.e → i'.anch = i.anch →
    i'.earliest = i.earliest → (i.hay.take i.e).drop i.s = (i'.hay.take i.e).drop i.s →
    (cfg.matchKind = .std ∨ i.earliest = false) → topFindIter s i = topFindIter s i'
  /-- C14 -/
  findEarliest : cfg.matchKind ≠ .std → ∀ i : Input UInt8, supportsAnch cfg.startKind i.anch →
    ∃ r r', topFind s { i with earliest := true } = .ok r ∧
      topFind s { i with earliest := false } = .ok r' ∧
      IsFind cfg.matchKind (specPats cfg.fold P) (specHay cfg.fold i.hay) i.s i.e i.anch r' ∧
      r.isSome = r'.isSome ∧
      (r.isSome = true ↔
        ∃ m, IsOccA (specPats cfg.fold P) (specHay cfg.fold i.hay) i.s i.e i.anch m) ∧
      ∀ m, r = some m →
        IsOccA (specPats cfg.fold P) (specHay cfg.fold i.hay) i.s i.e i.anch m ∧
          ∀ m', r' = some m' → m.stop ≤ m'.stop
  /-- C13 -/
  reject : TopReject cfg P s

/-- whatever a successful build with a sound prefilter (or none) returns meets `TopSpec2` -/
theorem TopP_spec2 (cfg : BuildCfg) (pre : Option (Prefilter UInt8)) (P : List (List UInt8))
    {s : Searcher} (hs : acBuild {} cfg pre P = .ok s) (hok : PreOK cfg.fold cfg.matchKind P pre) :
    TopSpec2 cfg P s where
  streamReplaceAllWith := fun hk hne h data sched hsch spare minFactor defaultCap hcap repl => by
    obtain ⟨F, _, h1, h2, h3, _, h5⟩ := TopP_stream_replace_all_with cfg pre P hs hok hk hne h
      data sched hsch spare minFactor defaultCap hcap repl
    exact ⟨_, h1, h2, h3, h5⟩
  streamReplaceAll := fun hk hne h data sched hsch spare minFactor defaultCap hcap replaceWith =>
    TopP_stream_replace_all cfg pre P hs hok hk hne h data sched hsch spare minFactor defaultCap
      hcap replaceWith
  streamReadFault := fun hk hne h data sched hsch spare minFactor defaultCap hcap k =>
    TopP_stream_read_fault cfg pre P hs hok hk hne h data sched hsch spare minFactor defaultCap
      hcap k
  streamWriteFault := fun hk hne h data sched hsch spare minFactor defaultCap hcap repl l =>
    TopP_stream_write_fault cfg pre P hs hok hk hne h data sched hsch spare minFactor defaultCap
      hcap repl l
  findSpan := TopP_find_span cfg pre P hs hok
  findFrame := TopP_find_frame cfg pre P hs hok
  findIterSpan := TopP_find_iter_span cfg pre P hs hok
  findIterFrame := TopP_find_iter_frame cfg pre P hs hok
  findEarliest := TopP_find_earliest cfg pre P hs hok
  reject := TopP_rejection_iff cfg pre P hs

/-- … without a prefilter -/
theorem Top_spec2 (cfg : BuildCfg) (P : List (List UInt8)) {s : Searcher}
    (hs : acBuild {} cfg none P = .ok s) : TopSpec2 cfg P s :=
  TopP_spec2 cfg none P hs trivial

/-- … with the builder's own prefilter, for every frequency table, constant set and CPU feature
combination -/
theorem TopB_spec2 (K : Consts) (cfg : BuildCfg) (freq : UInt8 → Nat) (avx2 ssse3 : Bool)
    (P : List (List UInt8)) {s : Searcher}
    (hs : acBuildP {} K cfg freq avx2 ssse3 P = .ok s) : TopSpec2 cfg P s :=
  TopP_spec2 cfg _ P hs (Top_builder_prefilter_sound K cfg freq avx2 ssse3 P).1

/-- **The capstone, both halves.**  For every configuration and every collection of at most 1000
patterns with at most 10^6 bytes in total, `AhoCorasick::builder().prefilter(false)…build(patterns)`
succeeds, with the kind the configuration asks for, and the result meets `TopSpec` and `TopSpec2`. -/
theorem Top_capstone2 (cfg : BuildCfg) (P : List (List UInt8))
    (hP : P.length ≤ 1000) (hT : totalLen P ≤ 1000000) :
    ∃ s, acBuild {} cfg none P = .ok s ∧ s.kind = chosenKind cfg P.length ∧
      TopSpec cfg P s ∧ TopSpec2 cfg P s := by
  obtain ⟨s, hs, hk, _⟩ := Top_build cfg P hP hT
  exact ⟨s, hs, hk, Top_spec cfg P hs, Top_spec2 cfg P hs⟩

/-- **The capstone with prefilters, both halves.** -/
theorem TopB_capstone2 (K : Consts) (cfg : BuildCfg) (freq : UInt8 → Nat) (avx2 ssse3 : Bool)
    (P : List (List UInt8)) (hP : P.length ≤ 1000) (hT : totalLen P ≤ 1000000) :
    ∃ s, acBuildP {} K cfg freq avx2 ssse3 P = .ok s ∧ s.kind = chosenKind cfg P.length ∧
      TopSpec cfg P s ∧ TopSpec2 cfg P s := by
  obtain ⟨s, hs, hk, _⟩ := TopB_build K cfg freq avx2 ssse3 P hP hT
  exact ⟨s, hs, hk, TopB_spec K cfg freq avx2 ssse3 P hs, TopB_spec2 K cfg freq avx2 ssse3 P hs⟩

end AcVerif
