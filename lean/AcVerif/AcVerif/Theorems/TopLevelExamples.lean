import AcVerif.Theorems.TopLevel
import AcVerif.Theorems.TopLevelPre
import AcVerif.Proofs.TopLevelEval
/-!
# The capstone, non-vacuity: concrete configurations, built and searched

For three configurations – an explicitly requested contiguous NFA (leftmost-first, both start
kinds), the automatic choice (a DFA; standard semantics, `ascii_case_insensitive`), and an explicitly
requested noncontiguous NFA with dense rows (leftmost-longest, anchored start kind) –

* `Top_find` is instantiated (its hypotheses are satisfiable: the build succeeds, `Top_build`), and
* the top-level function itself is evaluated by the kernel on the searcher the build returns
  (`topFind_eq_S`: the well-founded search loop in its structural form; `decide +kernel`), and the
  value agrees with the specification.
-/
namespace AcVerif
open AcVerif.TopP AcVerif.BuildP

set_option maxRecDepth 1000000
deriving instance DecidableEq for Except

/-- the searcher an `acBuild … none` returns for a collection within the bounds, by `Top_build`'s
argument: the unchecked transcription of the chosen kind -/
theorem acBuild_small (cfg : BuildCfg) (P : List (List UInt8)) (hP : P.length ≤ 1000)
    (hT : totalLen P ≤ 1000000) :
    acBuild {} cfg none P =
      .ok (Searcher.mk { cfg with hasPre := (none : Option (Prefilter UInt8)).isSome } P
        (buildUnchecked { cfg with hasPre := (none : Option (Prefilter UInt8)).isSome } P
          (chosenKind cfg P.length)) none) :=
  acBuild_eq_of (pre := none)
    (C20_build_ok_default { cfg with hasPre := (none : Option (Prefilter UInt8)).isSome } P hP hT)

/-! ## 1. `"ab"`, `"b"`, `"a"`; leftmost-first; `StartKind::Both`; `kind(Some(ContiguousNFA))` -/

def ex1Cfg : BuildCfg := { matchKind := .lf, startKind := .both, kind := some .contiguous }
def ex1Pats : List (List UInt8) := [[97, 98], [98], [97]]
/-- haystack `"xab"`, whole span, unanchored -/
def ex1I : Input UInt8 := ⟨[120, 97, 98], 0, 3, false, false, by decide⟩
/-- the same, anchored at offset 2 -/
def ex1A : Input UInt8 := ⟨[120, 97, 98], 2, 3, true, false, by decide⟩

/-- `Top_find` instantiated: the build succeeds and `try_find` returns THE leftmost-first answer -/
example : ∃ s, acBuild {} ex1Cfg none ex1Pats = .ok s ∧ s.kind = .contiguous ∧
    ∃ r, topFind s ex1I = .ok r ∧ IsFind .lf ex1Pats [120, 97, 98] 0 3 false r := by
  obtain ⟨s, hs, hk, _⟩ := Top_build ex1Cfg ex1Pats (by decide) (by decide)
  exact ⟨s, hs, hk, (Top_find ex1Cfg ex1Pats hs ex1I).1 (Or.inl rfl) (Or.inr rfl)⟩

/-- … and the top-level function evaluated: `"ab"` (pattern 0) at `[1, 3)`; anchored at 2: `"b"` -/
example (s : Searcher) (hs : acBuild {} ex1Cfg none ex1Pats = .ok s) :
    topFind s ex1I = .ok (some ⟨0, 1, 3⟩) ∧ topFind s ex1A = .ok (some ⟨1, 2, 3⟩) := by
  rw [acBuild_small ex1Cfg ex1Pats (by decide) (by decide)] at hs
  cases hs
  rw [topFind_eq_S _ rfl, topFind_eq_S _ rfl]
  decide +kernel

/-! ## 2. `"aB"`, `"b"`; standard; `ascii_case_insensitive(true)`; automatic choice (a DFA) -/

def ex2Cfg : BuildCfg := { fold := true }
def ex2Pats : List (List UInt8) := [[97, 66], [98]]
/-- haystack `"xAb"` -/
def ex2I : Input UInt8 := ⟨[120, 65, 98], 0, 3, false, false, by decide⟩
def ex2A : Input UInt8 := ⟨[120, 65, 98], 0, 3, true, false, by decide⟩

/-- `Top_find` instantiated: occurrences are read on the lower-cased patterns and haystack -/
example : ∃ s, acBuild {} ex2Cfg none ex2Pats = .ok s ∧ s.kind = .dfa ∧
    ∃ r, topFind s ex2I = .ok r ∧
      IsFind .std ([[97, 98], [98]] : List (List UInt8)) [120, 97, 98] 0 3 false r := by
  obtain ⟨s, hs, hk, _⟩ := Top_build ex2Cfg ex2Pats (by decide) (by decide)
  refine ⟨s, hs, hk, ?_⟩
  have e1 : specPats true ex2Pats = [[97, 98], [98]] := by decide +kernel
  have e2 : specHay true [120, 65, 98] = [120, 97, 98] := by decide +kernel
  have := (Top_find ex2Cfg ex2Pats hs ex2I).1 (Or.inr (Or.inl ⟨rfl, rfl⟩)) (Or.inl rfl)
  rw [show specPats ex2Cfg.fold ex2Pats = [[97, 98], [98]] from e1,
    show specHay ex2Cfg.fold ex2I.hay = [120, 97, 98] from e2] at this
  exact this

/-- … evaluated: at end 3 both patterns match; the longer one (`"aB"`, pattern 0) is reported.  The
start kind is `Unanchored`: the anchored request is rejected with the error naming it. -/
example (s : Searcher) (hs : acBuild {} ex2Cfg none ex2Pats = .ok s) :
    topFind s ex2I = .ok (some ⟨0, 1, 3⟩) ∧ topFind s ex2A = .error .invalidInputAnchored := by
  rw [acBuild_small ex2Cfg ex2Pats (by decide) (by decide)] at hs
  cases hs
  rw [topFind_eq_S _ rfl, topFind_eq_S _ rfl]
  decide +kernel

/-- the same rejection from the theorem -/
example (s : Searcher) (hs : acBuild {} ex2Cfg none ex2Pats = .ok s) :
    topFind s ex2A = .error .invalidInputAnchored :=
  (Top_find ex2Cfg ex2Pats hs ex2A).2 (by simp [supportsAnch, ex2Cfg, ex2A])

/-! ## 3. `"a"`, `"ab"`, `"abc"`, `""`; leftmost-longest; `StartKind::Anchored`;
`kind(Some(NoncontiguousNFA))`, dense depth 2 -/

def ex3Cfg : BuildCfg :=
  { matchKind := .ll, startKind := .anchored, kind := some .noncontiguous, nncDenseDepth := 2 }
def ex3Pats : List (List UInt8) := [[97], [97, 98], [97, 98, 99], []]
/-- haystack `"zabx"`, anchored at offset 1 -/
def ex3I : Input UInt8 := ⟨[122, 97, 98, 120], 1, 4, true, false, by decide⟩
/-- … and at offset 0, where only the empty pattern matches -/
def ex3E : Input UInt8 := ⟨[122, 97, 98, 120], 0, 4, true, false, by decide⟩
def ex3U : Input UInt8 := ⟨[122, 97, 98, 120], 0, 4, false, false, by decide⟩

example : ∃ s, acBuild {} ex3Cfg none ex3Pats = .ok s ∧ s.kind = .noncontiguous ∧
    ∃ r, topFind s ex3I = .ok r ∧ IsFind .ll ex3Pats [122, 97, 98, 120] 1 4 true r := by
  obtain ⟨s, hs, hk, _⟩ := Top_build ex3Cfg ex3Pats (by decide) (by decide)
  exact ⟨s, hs, hk, (Top_find ex3Cfg ex3Pats hs ex3I).1 (Or.inr (Or.inr ⟨rfl, rfl⟩)) (Or.inr rfl)⟩

/-- evaluated (the searcher reads its transitions through the stored dense rows): the longest
pattern starting at 1 is `"ab"`; at 0 only `""`; an unanchored request is rejected -/
example (s : Searcher) (hs : acBuild {} ex3Cfg none ex3Pats = .ok s) :
    topFind s ex3I = .ok (some ⟨1, 1, 3⟩) ∧ topFind s ex3E = .ok (some ⟨3, 0, 0⟩) ∧
      topFind s ex3U = .error .invalidInputUnanchored := by
  rw [acBuild_small ex3Cfg ex3Pats (by decide) (by decide)] at hs
  cases hs
  rw [topFind_eq_S _ rfl, topFind_eq_S _ rfl, topFind_eq_S _ rfl]
  decide +kernel

/-! ## the capstone's hypotheses are satisfiable, and the bound is not needed for correctness -/

example : ∃ s, acBuild {} ex1Cfg none ex1Pats = .ok s ∧ s.kind = chosenKind ex1Cfg ex1Pats.length ∧
    TopSpec ex1Cfg ex1Pats s :=
  Top_capstone ex1Cfg ex1Pats (by decide) (by decide)

/-! ## 4. with the builder's prefilter: `"ab"`, `"ac"`; leftmost-first; contiguous NFA

`prefilter::Builder` chooses the start-byte prefilter for `a` (all byte ranks equal, no vector
unit).  The search loop with a prefilter has no structural form to evaluate; the value of the
top-level function is obtained from the theorems: it is THE answer (`TopB_spec`), the prefilter-free
searcher returns THE answer (`Top_find`) and evaluates to `"ac"` at `[2, 4)`, and THE answer is
unique (`IsFind_unique`). -/

def ex4Cfg : BuildCfg := { matchKind := .lf, kind := some .contiguous }
def ex4Pats : List (List UInt8) := [[97, 98], [97, 99]]
/-- haystack `"xbac"` -/
def ex4I : Input UInt8 := ⟨[120, 98, 97, 99], 0, 4, false, false, by decide⟩

/-- the searcher built for the same configuration without prefilter -/
def ex4S0 : Searcher :=
  Searcher.mk { ex4Cfg with hasPre := (none : Option (Prefilter UInt8)).isSome } ex4Pats
    (buildUnchecked { ex4Cfg with hasPre := (none : Option (Prefilter UInt8)).isSome } ex4Pats
      (chosenKind ex4Cfg ex4Pats.length)) none

example (s : Searcher)
    (hs : acBuildP {} {} ex4Cfg (fun _ => 0) false false ex4Pats = .ok s) :
    s.pre.isSome = true ∧ topFind s ex4I = .ok (some ⟨1, 2, 4⟩) := by
  have hpre : s.pre = (buildPrefilter {} ex4Cfg.matchKind ex4Cfg.fold (fun _ => 0) ex4Pats false
      false).map PreChoice.findIn := (acBuild_good (Nat.le_refl _) hs).2.2.2
  refine ⟨?_, ?_⟩
  · rw [hpre, Option.isSome_map]
    decide
  · -- the searcher with prefilter returns THE answer …
    obtain ⟨r, h1, h2⟩ := ((TopB_spec {} ex4Cfg (fun _ => 0) false false ex4Pats hs).find ex4I).1
      (Or.inr (Or.inl ⟨rfl, rfl⟩)) (Or.inr rfl)
    -- … so does the searcher without, whose value the kernel computes
    have h0 : acBuild {} ex4Cfg none ex4Pats = .ok ex4S0 :=
      acBuild_small ex4Cfg ex4Pats (by decide) (by decide)
    obtain ⟨r0, h3, h4⟩ := (Top_find ex4Cfg ex4Pats h0 ex4I).1 (Or.inr (Or.inl ⟨rfl, rfl⟩))
      (Or.inr rfl)
    have h5 : topFind ex4S0 ex4I = .ok (some ⟨1, 2, 4⟩) :=
      (topFind_eq_S ex4S0 rfl ex4I).trans (by decide +kernel)
    rw [h5] at h3
    injection h3 with h3
    rw [h1, IsFind_unique _ _ _ _ _ _ _ _ h2 h4, ← h3]

end AcVerif
