import AcVerif.Proofs.SpecUniqueAux
/-!
# The specification's answers are unique

`IsFind` and `IsOverlapList` are stated as predicates; these theorems justify
reading them as "*the* answer".
-/
namespace AcVerif
variable {α : Type}

theorem IsFind_unique (k : MatchKind) (P : List (List α)) (hay : List α) (s e : Nat) (anch : Bool)
    (r r' : Option Mat) (h : IsFind k P hay s e anch r) (h' : IsFind k P hay s e anch r') :
    r = r' := by
  cases r with
  | none =>
    cases r' with
    | none => rfl
    | some m' => exact absurd h'.1 (h m')
  | some m =>
    cases r' with
    | none => exact absurd h.1 (h' m)
    | some m' =>
      obtain ⟨h1, h2⟩ := h
      obtain ⟨h1', h2'⟩ := h'
      rw [EngP.better_antisymm k h1.1 h1'.1 (h2 m' h1') (h2' m h1)]

theorem IsOverlapList_unique (P : List (List α)) (hay : List α) (s e : Nat) (anch : Bool)
    (l l' : List Mat) (h : IsOverlapList P hay s e anch l) (h' : IsOverlapList P hay s e anch l') :
    l = l' :=
  EngP.sorted_unique ovlBefore EngP.ovlBefore_asymm l l' h.1 h'.1
    (fun m => (h.2 m).trans (h'.2 m).symm)

end AcVerif

