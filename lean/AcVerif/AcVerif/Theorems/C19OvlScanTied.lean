import AcVerif.Theorems.C19OvlScan
import AcVerif.Theorems.L1dIds
import AcVerif.Theorems.L1cDense
import AcVerif.Theorems.L1d
import AcVerif.Theorems.L1e
/-!
# C19, overlapping search: the per-call prefilter bound on the transcribed automata

`C19_builder_ovl_prescan_tied` (Theorems/C19OvlScan.lean) needs an automaton record
observationally equivalent to the ideal standard automaton of the patterns (only when the
builder chose `memmem`).  The L1 theorems provide that for every transcribed automaton, so for
each of them, whatever the (case-sensitive or not) builder chose under standard semantics, every
call of the stepwise overlapping search does at most `i.e - i.s` prefilter work.
-/
namespace AcVerif

/-- the compiled noncontiguous NFA (sparse transitions) -/
theorem C19_ovl_prescan_L1c (K : Consts) (fold : Bool) (freq : UInt8 → Nat)
    (pats : List (List UInt8)) (avx2 ssse3 : Bool) (ch : PreChoice)
    (hb : buildPrefilter K .std fold freq pats avx2 ssse3 = some ch)
    (hasPre : Bool) (i : Input UInt8) (n : Nat) :
    ∀ x ∈ ovlCallsScan ((CNfa.compile .std false pats).toAut .std pats hasPre) (some ch.findIn) i n
      OState.start, x ≤ i.e - i.s :=
  C19_builder_ovl_prescan_tied K fold freq pats avx2 ssse3 ch hb .both hasPre
    ((CNfa.compile .std false pats).toAut .std pats hasPre) i rfl
    (fun _ => rfl) (L1c_startEquiv .std pats hasPre i.anch) n

/-- the compiled noncontiguous NFA reading its dense rows -/
theorem C19_ovl_prescan_L1cDense (K : Consts) (fold : Bool) (freq : UInt8 → Nat)
    (pats : List (List UInt8)) (avx2 ssse3 : Bool) (ch : PreChoice)
    (hb : buildPrefilter K .std fold freq pats avx2 ssse3 = some ch)
    (dd : Nat) (hasPre : Bool) (i : Input UInt8) (n : Nat) :
    ∀ x ∈ ovlCallsScan ((CNfa.compile .std false pats).toAutD
        (denseRows (CNfa.compile .std false pats) dd) .std pats hasPre) (some ch.findIn) i n
      OState.start, x ≤ i.e - i.s :=
  C19_builder_ovl_prescan_tied K fold freq pats avx2 ssse3 ch hb .both hasPre
    ((CNfa.compile .std false pats).toAutD (denseRows (CNfa.compile .std false pats) dd) .std pats
      hasPre) i rfl
    (fun _ => rfl) (L1cDense_startEquiv .std pats dd hasPre i.anch) n

/-- the transcribed DFA -/
theorem C19_ovl_prescan_L1d (K : Consts) (fold : Bool) (freq : UInt8 → Nat)
    (pats : List (List UInt8)) (avx2 ssse3 : Bool) (ch : PreChoice)
    (hb : buildPrefilter K .std fold freq pats avx2 ssse3 = some ch)
    (hasPre bc : Bool) (sk : StartKind) (i : Input UInt8) (n : Nat) :
    ∀ x ∈ ovlCallsScan ((buildDfa (CNfa.compile .std false pats) sk bc).toAut .std pats hasPre)
      (some ch.findIn) i n OState.start, x ≤ i.e - i.s :=
  C19_builder_ovl_prescan_tied K fold freq pats avx2 ssse3 ch hb sk hasPre
    ((buildDfa (CNfa.compile .std false pats) sk bc).toAut .std pats hasPre) i rfl
    (fun _ => rfl) (L1d_startEquiv .std pats hasPre bc sk i.anch) n

/-- the id-level DFA -/
theorem C19_ovl_prescan_L1dIds (K : Consts) (fold : Bool) (freq : UInt8 → Nat)
    (pats : List (List UInt8)) (avx2 ssse3 : Bool) (ch : PreChoice)
    (hb : buildPrefilter K .std fold freq pats avx2 ssse3 = some ch)
    (sk : StartKind) (bc hasPre : Bool) (i : Input UInt8) (n : Nat) :
    ∀ x ∈ ovlCallsScan ((buildDfaIds (CNfa.compile .std false pats) sk bc hasPre).toAut .std pats
      hasPre) (some ch.findIn) i n OState.start, x ≤ i.e - i.s :=
  C19_builder_ovl_prescan_tied K fold freq pats avx2 ssse3 ch hb sk hasPre
    ((buildDfaIds (CNfa.compile .std false pats) sk bc hasPre).toAut .std pats hasPre) i rfl
    (fun _ => rfl) (L1dIds_startEquiv .std pats sk bc hasPre i.anch) n

/-- the contiguous NFA -/
theorem C19_ovl_prescan_L1e (K : Consts) (fold : Bool) (freq : UInt8 → Nat)
    (pats : List (List UInt8)) (avx2 ssse3 : Bool) (ch : PreChoice)
    (hb : buildPrefilter K .std fold freq pats avx2 ssse3 = some ch)
    (hasPre bc : Bool) (dd : Nat) (hPl : pats.length < 2147483648) (i : Input UInt8) (n : Nat) :
    ∀ x ∈ ovlCallsScan ((buildContig (CNfa.compile .std false pats) dd bc hasPre).toAut .std pats
      hasPre) (some ch.findIn) i n OState.start, x ≤ i.e - i.s :=
  C19_builder_ovl_prescan_tied K fold freq pats avx2 ssse3 ch hb .both hasPre
    ((buildContig (CNfa.compile .std false pats) dd bc hasPre).toAut .std pats hasPre) i rfl
    (fun _ => rfl) (L1e_ideal .std pats hasPre bc dd hPl i.anch) n

end AcVerif
