import AcVerif.Theorems.C02
import AcVerif.Theorems.C03
import AcVerif.Proofs.Comap
import AcVerif.Proofs.FoldFacts
/-!
# C11 – ASCII case-insensitive search

(a) The byte-level facts about `foldByte` (ASCII lower-casing) and
`opposite_ascii_case`, each established by a complete case analysis over all
256 bytes.

(b) The case-insensitive searcher is the automaton of the folded patterns whose
transition function folds the input byte first (`Aut.comap foldByte`).  By
`tryFindFwd_comap` / `ovlCalls_comap` (valid for every automaton and every
map) searching with it is searching the folded haystack, so the standard
theorems C02/C03 apply with "pattern and haystack compared after folding
both" as the reading of an occurrence.  Pattern ids, starts and lengths are
those of the supplied patterns (`C11_ids`).
-/
namespace AcVerif
open AcVerif.MiscP

/-! ## (a) the fold, byte by byte -/

theorem C11_fold_letters (b : UInt8) :
    foldByte b = if 0x41 ≤ b ∧ b ≤ 0x5A then b + 32 else b := rfl

theorem C11_fold_idem (b : UInt8) : foldByte (foldByte b) = foldByte b := fold_idem b

theorem C11_fold_nonletter (b : UInt8)
    (h : ¬ ((0x41 ≤ b ∧ b ≤ 0x5A) ∨ (0x61 ≤ b ∧ b ≤ 0x7A))) :
    foldByte b = b ∧ oppositeAsciiCase b = b := fold_nonletter b h

theorem C11_opp_involution (b : UInt8) : oppositeAsciiCase (oppositeAsciiCase b) = b :=
  opp_involution b

theorem C11_fold_opp (b : UInt8) : foldByte (oppositeAsciiCase b) = foldByte b := fold_opp b

theorem C11_fold_eq_iff (a b : UInt8) :
    foldByte a = foldByte b ↔ a = b ∨ a = oppositeAsciiCase b := fold_eq_iff a b

/-! ## (b) the case-insensitive searcher -/

/-- occurrence "read this way": pattern and haystack compared after folding both -/
theorem C11_find_std (P : List (List UInt8)) (sk : StartKind) (i : Input UInt8)
    (h : supportsAnch sk i.anch) :
    ∃ r, tryFindFwd ((ideal .std (P.map (·.map foldByte)) sk false).comap foldByte) none i
          = .ok r ∧
       IsFind .std (P.map (·.map foldByte)) (i.hay.map foldByte) i.s i.e i.anch r := by
  obtain ⟨r, h1, h2⟩ := C02_find (P.map (·.map foldByte)) sk (i.mapHay foldByte) h
  exact ⟨r, (tryFindFwd_comap _ foldByte i).trans h1, h2⟩

theorem C11_overlap_std (P : List (List UInt8)) (sk : StartKind) (i : Input UInt8)
    (h : supportsAnch sk i.anch) :
    ∃ l, IsOverlapList (P.map (·.map foldByte)) (i.hay.map foldByte) i.s i.e i.anch l ∧
      ∀ n, ovlCalls ((ideal .std (P.map (·.map foldByte)) sk false).comap foldByte) none i n
          OState.start =
        (l.take n).map (fun m => Except.ok (some m)) ++
          List.replicate (n - l.length) (Except.ok none) := by
  obtain ⟨l, hl, hn⟩ := C03_calls (P.map (·.map foldByte)) sk (i.mapHay foldByte) h
  refine ⟨l, hl, fun n => ?_⟩
  exact (ovlCalls_comap _ foldByte i n).trans (hn n)

/-- pattern identifiers still refer to the supplied patterns: folding keeps
positions and lengths -/
theorem C11_ids (P : List (List UInt8)) (pid : Nat) :
    (P.map (·.map foldByte))[pid]? = (P[pid]?).map (·.map foldByte) ∧
    ((P.map (·.map foldByte)).getD pid []).length = (P.getD pid []).length := by
  refine ⟨List.getElem?_map .., ?_⟩
  rw [List.getD_eq_getElem?_getD, List.getD_eq_getElem?_getD, List.getElem?_map]
  cases P[pid]? <;> simp

/-! ## non-vacuity: pattern `"aB"` (and `"B"`) in haystack `"xAb"`, case-insensitively -/

private def exI : Input UInt8 := ⟨[0x78, 0x41, 0x62], 0, 3, false, false, by decide⟩

example : tryFindFwd ((ideal .std ([[0x61, 0x42], [0x42]].map (·.map foldByte)) .both false).comap
    foldByte) none exI = .ok (some ⟨0, 1, 3⟩) := by
  rw [tryFindFwd_comap,
    StdP.tryFindFwd_eq (StdP.stdLike_ideal _ _) (exI.mapHay foldByte) (q0 := .at []) rfl rfl]
  exact congrArg Except.ok (by decide +kernel)

example : ∃ r, tryFindFwd ((ideal .std ([[0x61, 0x42], [0x42]].map (·.map foldByte)) .both
    false).comap foldByte) none exI = .ok r ∧
    IsFind .std ([[0x61, 0x42], [0x42]].map (·.map foldByte)) (exI.hay.map foldByte)
      exI.s exI.e exI.anch r :=
  C11_find_std _ _ exI (Or.inl rfl)

end AcVerif
