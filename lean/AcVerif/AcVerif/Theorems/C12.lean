import AcVerif.Proofs.Splice
import AcVerif.Proofs.IterFacts
/-!
# C12 – `replace_all*`

The in-memory replace routines, given the list `ms` of matches the
non-overlapping iterator yields, produce the splice `spliceSpec`: the haystack
bytes before each match, the closure's output for it, and so on, then the
remaining bytes.  When the closure returns `false` at its `k`-th call
(counting from 0) the first `k + 1` matches are spliced and the rest of the
haystack is copied verbatim.  The closure sees exactly the match and the
matched bytes, in iterator order.  Splicing back the matched bytes themselves
reproduces the haystack, so untouched bytes are preserved in order.  The
string variant replaces exactly the matches whose two bounds are character
boundaries, and every `&str` slice it takes is legal.
-/
namespace AcVerif
open AcVerif.MiscP
variable {α : Type}

theorem C12_bytes (hay : List α) (ms : List Mat) (repl : Mat → List α) :
    (replaceBytes hay ms repl none).1 = spliceSpec hay repl 0 ms := by
  have h := spliceLoop_fst hay repl none (fun _ => true) ms 0 0 [] [] (by intro K h; cases h)
  simpa [replaceBytes, cut, filter_const_true] using h

/-- closure returning false at its k-th call: splice of the first k+1 matches,
remainder verbatim -/
theorem C12_with_stop (hay : List α) (ms : List Mat) (repl : Mat → List α) (k : Nat) :
    (replaceBytes hay ms repl (some k)).1 = spliceSpec hay repl 0 (ms.take (k + 1)) := by
  have h := spliceLoop_fst hay repl (some k) (fun _ => true) ms 0 0 [] []
    (by intro K _; exact Nat.zero_le _)
  simpa [replaceBytes, cut, filter_const_true] using h

/-- the closure is handed exactly the match and the matched bytes, in iterator order -/
theorem C12_log (hay : List α) (ms : List Mat) (repl : Mat → List α) :
    (replaceBytes hay ms repl none).2 = ms.map fun m => (m, (hay.take m.stop).drop m.start) := by
  have h := spliceLoop_snd hay repl none (fun _ => true) ms 0 0 [] [] (by intro K h; cases h)
  simpa [replaceBytes, cut, filter_const_true] using h

/-- … and only for the first `k + 1` matches when it returns `false` at call `k` -/
theorem C12_log_with_stop (hay : List α) (ms : List Mat) (repl : Mat → List α) (k : Nat) :
    (replaceBytes hay ms repl (some k)).2 =
      (ms.take (k + 1)).map fun m => (m, (hay.take m.stop).drop m.start) := by
  have h := spliceLoop_snd hay repl (some k) (fun _ => true) ms 0 0 [] []
    (by intro K _; exact Nat.zero_le _)
  simpa [replaceBytes, cut, filter_const_true] using h

/-- untouched bytes are preserved in order: replacing every match by the bytes
it matched gives back the haystack, for any ascending non-overlapping in-range
match list (which iterator outputs are, see `C12_iter_hyps`).
(`m.stop ≤ hay.length` is not needed for this; it is kept because it is what
the iterator guarantees.) -/
theorem C12_identity (hay : List α) (ms : List Mat)
    (hsorted : ms.Pairwise (fun a b => a.stop ≤ b.start))
    (hin : ∀ m ∈ ms, m.start ≤ m.stop ∧ m.stop ≤ hay.length) :
    spliceSpec hay (fun m => (hay.take m.stop).drop m.start) 0 ms = hay :=
  spliceSpec_identity hay ms 0 hsorted (fun m hm => (hin m hm).1) (fun _ _ => Nat.zero_le _)

/-- string variant: exactly the matches whose two bounds are character boundaries are replaced -/
theorem C12_str (hay : List UInt8) (ms : List Mat) (repl : Mat → List UInt8) :
    (replaceStr hay ms repl none).1 =
      spliceSpec hay repl 0
        (ms.filter fun m => isCharBoundary hay m.start && isCharBoundary hay m.stop) := by
  have h := spliceLoop_fst hay repl none
    (fun m => isCharBoundary hay m.start && isCharBoundary hay m.stop) ms 0 0 [] []
    (by intro K h; cases h)
  simpa [replaceStr, cut] using h

theorem C12_str_with_stop (hay : List UInt8) (ms : List Mat) (repl : Mat → List UInt8) (k : Nat) :
    (replaceStr hay ms repl (some k)).1 =
      spliceSpec hay repl 0
        ((ms.filter fun m => isCharBoundary hay m.start && isCharBoundary hay m.stop).take
          (k + 1)) := by
  have h := spliceLoop_fst hay repl (some k)
    (fun m => isCharBoundary hay m.start && isCharBoundary hay m.stop) ms 0 0 [] []
    (by intro K _; exact Nat.zero_le _)
  simpa [replaceStr, cut] using h

/-- **No `&str` slice of the string routine can panic.**

`SlicesOK hay last l` lists the slices taken while splicing the match list `l`
starting with `last_match = last`: for each match `&hay[last..m.start]` (the
copied gap) and `&hay[m.start..m.stop]` (the closure argument), then
`last := m.stop`, and at the end `&hay[last..]`.  `SliceOK hay a b` is the
exact non-panic condition of `&hay[a..b]` on a `str`: `a ≤ b ≤ len` and both
are character boundaries.  For any ascending, non-overlapping, well-formed
match list (iterator outputs are, by `iter_nonoverlap`) the matches that pass
the boundary filter – the ones `C12_str` says are spliced – satisfy it, from
`last = 0`. -/
theorem C12_str_slices_ok (hay : List UInt8) (ms : List Mat)
    (hsorted : ms.Pairwise (fun a b => a.stop ≤ b.start))
    (hin : ∀ m ∈ ms, m.start ≤ m.stop ∧ m.stop ≤ hay.length) :
    SlicesOK hay 0
      (ms.filter fun m => isCharBoundary hay m.start && isCharBoundary hay m.stop) :=
  slicesOK_filter hay ms 0 hsorted (fun m hm => (hin m hm).1) (fun _ _ => Nat.zero_le _)
    (isCharBoundary_zero hay)

/-- the same from an arbitrary boundary `last` not after the first match, and
when the closure stops the loop early -/
theorem C12_str_slices_ok_gen (hay : List UInt8) (ms : List Mat) (last n : Nat)
    (hsorted : ms.Pairwise (fun a b => a.stop ≤ b.start))
    (hin : ∀ m ∈ ms, m.start ≤ m.stop ∧ m.stop ≤ hay.length)
    (hlast : isCharBoundary hay last = true) (hle : ∀ m ∈ ms, last ≤ m.start) :
    SlicesOK hay last
      ((ms.filter fun m => isCharBoundary hay m.start && isCharBoundary hay m.stop).take n) :=
  slicesOK_take hay _ last n
    (slicesOK_filter hay ms last hsorted (fun m hm => (hin m hm).1) hle hlast)

/-- what `SlicesOK` says, spelled out: each spliced match has boundary bounds and
`last ≤ m.start ≤ m.stop ≤ len` -/
theorem C12_slicesOK_unfold (hay : List UInt8) (last : Nat) (m : Mat) (l : List Mat)
    (h : SlicesOK hay last (m :: l)) :
    isCharBoundary hay last = true ∧ isCharBoundary hay m.start = true ∧
      isCharBoundary hay m.stop = true ∧ last ≤ m.start ∧ m.start ≤ m.stop ∧
      m.stop ≤ hay.length ∧ SlicesOK hay m.stop l :=
  ⟨h.1.1, h.1.2.1, h.2.1.2.1, h.1.2.2.1, h.2.1.2.2.1, h.2.1.2.2.2, h.2.2⟩

/-- the hypotheses of `C12_identity` / `C12_str_slices_ok` hold for every
iterator output over `IsFind` answers (in particular for `C02_iter`) -/
theorem C12_iter_hyps {k : MatchKind} {P : List (List α)} {hay : List α} {s e : Nat} {anch : Bool}
    {F : Nat → Option Mat} (hF : ∀ st, st ≤ e + 1 → IsFind k P hay st e anch (F st))
    (hs : s ≤ e + 1) (he : e ≤ hay.length) :
    (iterSpec F s e).Pairwise (fun a b => a.stop ≤ b.start) ∧
      ∀ m ∈ iterSpec F s e, m.start ≤ m.stop ∧ m.stop ≤ hay.length :=
  ⟨iter_nonoverlap hF hs, fun m hm =>
    have q := iter_in_range hF hs m hm
    ⟨q.2.1, Nat.le_trans q.2.2 he⟩⟩

/-! ## non-vacuity -/

example : (replaceBytes [1, 2, 3, 4, 5] [⟨0, 1, 2⟩, ⟨0, 3, 4⟩] (fun _ => [9, 9]) none).1
    = [1, 9, 9, 3, 9, 9, 5] := by decide
example : (replaceBytes [1, 2, 3, 4, 5] [⟨0, 1, 2⟩, ⟨0, 3, 4⟩] (fun _ => [9, 9]) (some 0)).1
    = [1, 9, 9, 3, 4, 5] := by decide

end AcVerif
