import AcVerif.Proofs.Std
/-!
# C03 – overlapping search

On the ideal standard automaton (no prefilter) successive calls of
`try_find_overlapping_fwd` on one state report exactly the overlapping
enumeration (every admissible occurrence once, ordered by end, then longer
first, then supply order) and then `None` for ever; the iterator built on it
yields that list.
-/
namespace AcVerif
open AcVerif.StdP
variable {α : Type} [DecidableEq α]

theorem C03_calls (P : List (List α)) (sk : StartKind) (i : Input α)
    (h : supportsAnch sk i.anch) :
    ∃ l, IsOverlapList P i.hay i.s i.e i.anch l ∧
      ∀ n, ovlCalls (ideal .std P sk false) none i n OState.start =
        (l.take n).map (fun m => Except.ok (some m)) ++
          List.replicate (n - l.length) (Except.ok none) := by
  cases hd : i.isDone with
  | true =>
    refine ⟨[], isOverlapList_nil_of_done P i hd, ?_⟩
    intro n
    simp [ovlCalls_done (stdLike_ideal P sk) i (ideal_start P h) hd]
  | false =>
    refine ⟨_, isOverlapList_allMatches P sk i hd, ?_⟩
    intro n
    rw [ovlCalls_eq (stdLike_ideal P sk) i (ideal_start P h) hd, pending_start]

theorem C03_iter (P : List (List α)) (sk : StartKind) (i : Input α)
    (h : supportsAnch sk i.anch) :
    ∃ l, IsOverlapList P i.hay i.s i.e i.anch l ∧
      ∀ fuel, l.length < fuel →
        ovlIterAux (ideal .std P sk false) none i fuel OState.start = l := by
  cases hd : i.isDone with
  | true =>
    refine ⟨[], isOverlapList_nil_of_done P i hd, ?_⟩
    intro fuel _
    exact ovlIterAux_done (stdLike_ideal P sk) i (ideal_start P h) hd fuel _
  | false =>
    refine ⟨_, isOverlapList_allMatches P sk i hd, ?_⟩
    intro fuel hf
    rw [← pending_start] at hf ⊢
    exact ovlIterAux_eq (stdLike_ideal P sk) i (ideal_start P h) hd fuel _ hf

/-! ## non-vacuity: concrete instances (nested, duplicate and empty patterns)

Evaluated through `ovlCalls_eq` / `ovlIterAux_eq` (the call sequence is read
off the structural `allMatches`) and closed by `rfl` / `decide`. -/

private def ex1 : Input Nat := ⟨[0, 1, 2], 0, 3, false, false, by decide⟩
private def ex2 : Input Nat := ⟨[0, 1, 2], 1, 3, true, false, by decide⟩

/-- the hypotheses of `C03_calls` / `C03_iter` are satisfiable -/
example : ∃ l, IsOverlapList [[1, 2], [2], [], [2]] ex1.hay ex1.s ex1.e ex1.anch l ∧
    ∀ fuel, l.length < fuel →
      ovlIterAux (ideal .std [[1, 2], [2], [], [2]] .both false) none ex1 fuel OState.start = l :=
  C03_iter _ _ ex1 (Or.inl rfl)

example : ovlCalls (ideal .std [[1, 2], [2], [], [2]] .both false) none ex1 9 OState.start =
    [.ok (some ⟨2, 0, 0⟩), .ok (some ⟨2, 1, 1⟩), .ok (some ⟨2, 2, 2⟩), .ok (some ⟨0, 1, 3⟩),
     .ok (some ⟨1, 2, 3⟩), .ok (some ⟨3, 2, 3⟩), .ok (some ⟨2, 3, 3⟩), .ok none, .ok none] := by
  rw [ovlCalls_eq (stdLike_ideal _ _) ex1 (q0 := .at []) rfl rfl, pending_start]; rfl

example : ovlIterAux (ideal .std [[1, 2], [2], [], [2]] .both false) none ex1 9 OState.start =
    [⟨2, 0, 0⟩, ⟨2, 1, 1⟩, ⟨2, 2, 2⟩, ⟨0, 1, 3⟩, ⟨1, 2, 3⟩, ⟨3, 2, 3⟩, ⟨2, 3, 3⟩] := by
  have h : (pending (ideal .std [[1, 2], [2], [], [2]] .both false) ex1 (.at [])
      OState.start).length < 9 := by rw [pending_start]; decide
  rw [ovlIterAux_eq (stdLike_ideal _ _) ex1 (q0 := .at []) rfl rfl 9 _ h, pending_start]; rfl

/-- anchored at 1: only occurrences starting at 1, longest-first at equal end -/
example : ovlCalls (ideal .std [[2], [1, 2], [1], [1], []] .both false) none ex2 6 OState.start =
    [.ok (some ⟨4, 1, 1⟩), .ok (some ⟨2, 1, 2⟩), .ok (some ⟨3, 1, 2⟩), .ok (some ⟨1, 1, 3⟩),
     .ok none, .ok none] := by
  rw [ovlCalls_eq (stdLike_ideal _ _) ex2 (q0 := .at []) rfl rfl, pending_start]; rfl

end AcVerif
