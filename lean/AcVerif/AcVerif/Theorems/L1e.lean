import AcVerif.Proofs.ContigSim
import AcVerif.Theorems.L1d
/-!
# L1e – the word-level contiguous NFA agrees with the noncontiguous NFA it was built from

`buildContig N dd bc hasPre` (`noncontiguous::Compiler::shuffle`: match states first, then the two
start states; `contiguous::Builder::build_from_noncontiguous`: `State::write` with its dense /
one-transition / sparse layouts, classes packed four to a word with the last class repeated as
padding, the match list inline (`2^31 + pid`) or length-prefixed, `State::remap` through the
offset table) applied to the compiled noncontiguous NFA `N = CNfa.compile k false P`, read back
by the contiguous `next_state` (three state kinds, failure link in the second word), `is_match` /
`is_special` by id range and `match_len` / `match_pattern` on the words, is for **every** pattern
list, match kind, dense depth, both settings of `byte_classes`, with or without prefilter, and
both anchoring modes observationally equivalent to `N` (`L1e_obsEquiv`), follows exactly as many
failure links (`L1e_hops`), and hence (with L1c) is equivalent to the ideal automaton
(`L1e_ideal`), so every search result transfers (`L1e_find`, `L1e_iter`, `L1e_overlap`,
`L1e_overlap_iter`).

The only size hypothesis is `P.length < 2^31`: the model stores natural numbers, so offsets,
classes and pattern ids always "fit"; but a match list with at least two entries is stored as
`length :: ids` and decoded as such only if `length < 2^31` (a first word `≥ 2^31` is read as a
single inline pattern id).  A match list has at most `P.length` entries (`out_length_le`).
`L1e_hops` needs no hypothesis.

Structure of the proof (`AcVerif/Proofs/Contig*.lean`, namespace `AcVerif.L1eP`):
`buildContig_eq` (named pieces), `shufOK` (the shuffle is a permutation; where the match and
start states sit), `compile_specX` (`FS` plus list-level facts `FX`: sorted transition lists, no
`FAIL` targets at trie nodes, full start states), `writeState_dense/one/sparse`, `cOffsets_eq`,
`cRepr_slice`, `slice_state` (the words at `newId s` are `State::write` of `s`), `cNewId_ne_one`
(no state has offset 1 = the `FAIL` sentinel of dense rows), `flag_match`, `flag_special`,
`sparseScan_spec` (padding never matches first), `decode_found`, `decode_fail`, `decode_matches`,
`step_same` (hop by hop), `obs_live`, `contig_run` (simulation `q = newId s`).
-/
namespace AcVerif
open AcVerif.L1cP AcVerif.L1dP AcVerif.L1eP AcVerif.CNfa

/-- the start ids of the contiguous NFA are the new ids of the two start states -/
theorem L1e_start (k : MatchKind) (P : List (List UInt8)) (hasPre bc : Bool) (dd : Nat) (anch : Bool) :
    (if anch then (buildContig (CNfa.compile k false P) dd bc hasPre).startA
      else (buildContig (CNfa.compile k false P) dd bc hasPre).startU) =
      cNewId (CNfa.compile k false P) dd bc (if anch then CNfa.SA else CNfa.SU) := by
  obtain ⟨L, hFS, _⟩ := compile_specX k P
  have hS := shufOK _ hFS.four_le_size
  rw [buildContig_eq]
  cases anch
  · exact startU_eq hS dd bc hasPre
  · exact startA_eq hS dd bc hasPre

/-- the run of the contiguous NFA is the image under `newId` of the run of the noncontiguous NFA,
which stays in the simulation relation of L1c -/
theorem L1e_run (k : MatchKind) (P : List (List UInt8)) (hasPre bc : Bool) (dd : Nat) (anch : Bool)
    (w : List UInt8) :
    ∃ L q', FS k (patSet k P) L (CNfa.compile k false P) ∧ FX L (CNfa.compile k false P) ∧
      Rel L anch (((CNfa.compile k false P).toAut k P hasPre).runFrom anch
        (if anch then CNfa.SA else CNfa.SU) w) q' ∧
      ((buildContig (CNfa.compile k false P) dd bc hasPre).toAut k P hasPre).runFrom anch
          (if anch then (buildContig (CNfa.compile k false P) dd bc hasPre).startA
            else (buildContig (CNfa.compile k false P) dd bc hasPre).startU) w =
        cNewId (CNfa.compile k false P) dd bc
          (((CNfa.compile k false P).toAut k P hasPre).runFrom anch
            (if anch then CNfa.SA else CNfa.SU) w) := by
  obtain ⟨L, hFS, hX⟩ := compile_specX k P
  have h0 : Rel L anch (if anch then CNfa.SA else CNfa.SU) (.at []) := by
    simp only [Rel, if_true]
  obtain ⟨q', h1, h2⟩ := contig_run k P hasPre bc dd anch hFS hX w _ _ h0
  refine ⟨L, q', hFS, hX, h1, ?_⟩
  rw [L1e_start, buildContig_eq]
  exact h2

/-- the contiguous NFA equals the noncontiguous NFA it was built from, observationally (flags by
id range, ordered match lists decoded from the words), for both anchoring modes -/
theorem L1e_obsEquiv (k : MatchKind) (P : List (List UInt8)) (hasPre bc : Bool) (dd : Nat)
    (hP : P.length < 2147483648) (anch : Bool) :
    ObsEquiv ((buildContig (CNfa.compile k false P) dd bc hasPre).toAut k P hasPre)
      ((CNfa.compile k false P).toAut k P hasPre) false anch
      (if anch then (buildContig (CNfa.compile k false P) dd bc hasPre).startA
        else (buildContig (CNfa.compile k false P) dd bc hasPre).startU)
      (if anch then CNfa.SA else CNfa.SU) := by
  intro w
  obtain ⟨L, q', hFS, _, h1, h2⟩ := L1e_run k P hasPre bc dd anch w
  rw [h2, buildContig_eq]
  apply obs_live dd bc hasPre hFS P (LvA_of_Rel h1).lv
  rw [Rel_mats hFS h1]
  have := out_length_le k P q'
  omega

/-- it follows exactly as many failure links -/
theorem L1e_hops (k : MatchKind) (P : List (List UInt8)) (hasPre bc : Bool) (dd : Nat)
    (w : List UInt8) (c : UInt8) :
    ((buildContig (CNfa.compile k false P) dd bc hasPre).nextState false
        ((buildContig (CNfa.compile k false P) dd bc hasPre).repr.size + 1)
        (((buildContig (CNfa.compile k false P) dd bc hasPre).toAut k P hasPre).runFrom false
          (buildContig (CNfa.compile k false P) dd bc hasPre).startU w) c (0, 0)).2 =
      (CNfa.nextState (CNfa.compile k false P) false ((CNfa.compile k false P).size + 1)
        (((CNfa.compile k false P).toAut k P hasPre).runFrom false CNfa.SU w) c 0).2 := by
  obtain ⟨L, q', hFS, hX, h1, h2⟩ := L1e_run k P hasPre bc dd false w
  simp only [Bool.false_eq_true, if_false] at h1 h2
  rw [h2, buildContig_eq, step_live dd bc hasPre hFS hX false c (LvA_of_Rel h1)]

/-- … and the state it reaches is the new id of the state the noncontiguous NFA reaches -/
theorem L1e_next (k : MatchKind) (P : List (List UInt8)) (hasPre bc : Bool) (dd : Nat) (anch : Bool)
    (w : List UInt8) (c : UInt8) :
    ((buildContig (CNfa.compile k false P) dd bc hasPre).toAut k P hasPre).next anch
        (((buildContig (CNfa.compile k false P) dd bc hasPre).toAut k P hasPre).runFrom anch
          (if anch then (buildContig (CNfa.compile k false P) dd bc hasPre).startA
            else (buildContig (CNfa.compile k false P) dd bc hasPre).startU) w) c =
      cNewId (CNfa.compile k false P) dd bc
        (((CNfa.compile k false P).toAut k P hasPre).next anch
          (((CNfa.compile k false P).toAut k P hasPre).runFrom anch
            (if anch then CNfa.SA else CNfa.SU) w) c) := by
  obtain ⟨L, q', hFS, hX, h1, h2⟩ := L1e_run k P hasPre bc dd anch w
  rw [h2, buildContig_eq]
  show (ContigM.nextState _ anch _ _ c (0, 0)).1 = _
  rw [step_live dd bc hasPre hFS hX anch c (LvA_of_Rel h1)]
  rfl

/-- composed with L1c: equivalent to the ideal automaton -/
theorem L1e_obsEquiv_ideal (k : MatchKind) (P : List (List UInt8)) (hasPre bc : Bool) (dd : Nat)
    (hP : P.length < 2147483648) (anch : Bool) :
    ObsEquiv ((buildContig (CNfa.compile k false P) dd bc hasPre).toAut k P hasPre)
      (ideal k P .both hasPre) false anch
      (if anch then (buildContig (CNfa.compile k false P) dd bc hasPre).startA
        else (buildContig (CNfa.compile k false P) dd bc hasPre).startU) (.at []) :=
  (L1e_obsEquiv k P hasPre bc dd hP anch).trans (L1c_obsEquiv k P hasPre anch)

/-- … hence `StartEquiv`, so every engine result transfers -/
theorem L1e_ideal (k : MatchKind) (P : List (List UInt8)) (hasPre bc : Bool) (dd : Nat)
    (hP : P.length < 2147483648) (anch : Bool) :
    StartEquiv ((buildContig (CNfa.compile k false P) dd bc hasPre).toAut k P hasPre)
      (ideal k P .both hasPre) false anch := by
  have h := L1e_obsEquiv_ideal k P hasPre bc dd hP anch
  unfold StartEquiv
  have hA : ((buildContig (CNfa.compile k false P) dd bc hasPre).toAut k P hasPre).start anch =
      some (if anch then (buildContig (CNfa.compile k false P) dd bc hasPre).startA
        else (buildContig (CNfa.compile k false P) dd bc hasPre).startU) := rfl
  have hB : (ideal k P .both hasPre).start anch = some (.at []) := by cases anch <;> rfl
  rw [hA, hB]
  exact h

/-! ## corollaries: every search result transfers -/

theorem L1e_find (k : MatchKind) (P : List (List UInt8)) (hasPre bc : Bool) (dd : Nat)
    (hP : P.length < 2147483648) (pre : Option (Prefilter UInt8)) (i : Input UInt8) :
    tryFindFwd ((buildContig (CNfa.compile k false P) dd bc hasPre).toAut k P hasPre) pre i =
      tryFindFwd (ideal k P .both hasPre) pre i :=
  C04_find_transfer _ _ pre i rfl (fun _ => rfl)
    (C04_StartEquiv_false_true _ _ _ (L1e_ideal k P hasPre bc dd hP i.anch))

theorem L1e_iter (k : MatchKind) (P : List (List UInt8)) (hasPre bc : Bool) (dd : Nat)
    (hP : P.length < 2147483648) (pre : Option (Prefilter UInt8)) (i : Input UInt8) :
    findIter ((buildContig (CNfa.compile k false P) dd bc hasPre).toAut k P hasPre) pre i =
      findIter (ideal k P .both hasPre) pre i :=
  C04_iter_transfer _ _ pre i rfl (fun _ => rfl)
    (C04_StartEquiv_false_true _ _ _ (L1e_ideal k P hasPre bc dd hP i.anch))

theorem L1e_overlap (k : MatchKind) (P : List (List UInt8)) (hasPre bc : Bool) (dd : Nat)
    (hP : P.length < 2147483648) (pre : Option (Prefilter UInt8)) (i : Input UInt8) (n : Nat) :
    ovlCalls ((buildContig (CNfa.compile k false P) dd bc hasPre).toAut k P hasPre) pre i n
        OState.start =
      ovlCalls (ideal k P .both hasPre) pre i n OState.start :=
  C04_overlap_transfer ((buildContig (CNfa.compile k false P) dd bc hasPre).toAut k P hasPre)
    (ideal k P .both hasPre) pre i rfl (fun _ => rfl) (L1e_ideal k P hasPre bc dd hP i.anch) n

theorem L1e_overlap_iter (k : MatchKind) (P : List (List UInt8)) (hasPre bc : Bool) (dd : Nat)
    (hP : P.length < 2147483648) (pre : Option (Prefilter UInt8)) (i : Input UInt8) (fuel : Nat) :
    ovlIterAux ((buildContig (CNfa.compile k false P) dd bc hasPre).toAut k P hasPre) pre i fuel
        OState.start =
      ovlIterAux (ideal k P .both hasPre) pre i fuel OState.start :=
  C04_overlap_iter_transfer ((buildContig (CNfa.compile k false P) dd bc hasPre).toAut k P hasPre)
    (ideal k P .both hasPre) pre i rfl (fun _ => rfl) (L1e_ideal k P hasPre bc dd hP i.anch) fuel

/-- … and the contiguous NFA meets the specification (standard semantics, C02) -/
theorem L1e_find_std (P : List (List UInt8)) (bc : Bool) (dd : Nat) (hP : P.length < 2147483648)
    (i : Input UInt8) :
    ∃ r, tryFindFwd ((buildContig (CNfa.compile .std false P) dd bc false).toAut .std P false) none i =
        .ok r ∧ IsFind .std P i.hay i.s i.e i.anch r := by
  rw [L1e_find _ _ _ _ _ hP]
  exact C02_find P .both i (Or.inl rfl)

/-! ## non-vacuity: `[1, 2]`, `[2]`, dense depth 0, byte classes on, no prefilter

Classes: `0 ↦ 0`, `1 ↦ 1`, `2 ↦ 2`, everything else `3` (alphabet length 4).  Shuffled order
(new position → old id): `0, 1, 5, 6, 2, 3, 4`.  Words:
offset 0 the dead state (dense), 6 the node `12` (sparse, no transition, two matches `0, 1` with a
length prefix), 11 the node `2` (one inline match `2^31 + 1`), 14 / 20 the unanchored / anchored
start state (dense; in the anchored one `1` = `FAIL` marks "no transition"), 26 the node `1`
(`KIND_ONE`, class 2 in bits 8–15, target 6). -/

set_option maxRecDepth 1000000

example : (buildContig (CNfa.compile .std false [[1, 2], [2]]) 0 true false).repr.toList =
    [255, 14, 0, 0, 0, 0,  0, 11, 2, 0, 1,  0, 14, 2147483649,  255, 14, 14, 26, 11, 14,
      255, 0, 1, 26, 11, 1,  766, 14, 6] := by decide +kernel

example :
    let m := buildContig (CNfa.compile .std false [[1, 2], [2]]) 0 true false
    (m.startU, m.startA, m.maxMatchId, m.maxSpecialId, m.alphabetLen) = (14, 20, 11, 11, 4) := by
  decide +kernel

/-- after `1 2` the automaton is at offset 6 (the node `12`), which lists patterns 0 and 1; on
byte `1` it follows two failure links (6 → 11 → 14) and lands on the node `1` at offset 26 -/
example :
    let m := buildContig (CNfa.compile .std false [[1, 2], [2]]) 0 true false
    (m.toAut .std [[1, 2], [2]] false).runFrom false m.startU [1, 2] = 6 ∧
      m.matchList 6 = [0, 1] ∧ m.nextState false (m.repr.size + 1) 6 1 (0, 0) = (26, 2) := by
  decide +kernel

end AcVerif
