import AcVerif.Proofs.StreamCostFacts
import AcVerif.Theorems.C07Transfer
import AcVerif.Theorems.C07Fold
/-!
# C19 for the stream search: every stream byte is fed to the automaton exactly once

`streamTransitions A rdr spare minFactor defaultCap` (`AcVerif/StreamCost.lean`) is the final
`absolute_pos` of a whole `StreamChunkIter` run = the number of `next_state` calls it makes (the
instrumented real code is compared with this number on every run).

For every pattern list `P` (non-empty, no empty pattern), every start kind supporting unanchored
search, every stream `data`, read schedule `sched` (entries `≥ 1`), spare room and buffer constants
leaving one byte of room beyond `min` (`hcap`, literally the hypothesis of `C07_stream_eq_iter`):

* `C19_stream_transitions`: a fault-free stream search makes exactly `data.length` transitions –
  rolling the buffer never moves `absolute_pos` back, so no byte is fed twice and none is skipped,
  whatever the schedule and the capacity;
* `C19_stream_transitions_fault`: if `read` call `k` fails, the search has made at most
  `data.length` transitions when it stops;
* `C19_stream_transitions_transfer` / `_transfer_match`: the number of transitions depends on the
  automaton only through what `StreamChunkIter` reads of it (equal kind, pattern lengths, min/max
  length, `StartEquiv · · true false` or the weaker `StreamX.MStart`), for every reader (any
  schedule, with or without a fault) and all constants; `StreamTied.streamTransitions`,
  `C19_stream_transitions_tied`, `C19_stream_transitions_fault_tied` for an automaton tied to the
  ideal one, hence `L1c_`, `L1cDense_`, `L1d_`, `L1dIds_`, `L1e_stream_transitions(_fault)` for
  the transcribed builders;
* the case-insensitive searcher `(ideal .std (P.map (·.map foldByte)) sk false).comap foldByte`:
  `C19Fold_stream_transitions(_fault)`, `StreamTiedTo.streamTransitions`, the `_tied` versions and
  `L1cFold_`, `L1dFold_`, `L1dIdsFold_`, `L1eFold_stream_transitions(_fault)`.

The proof (`Proofs/StreamCostFacts.lean`) is the invariant of `StreamChunkIter` (`StreamP.Inv`:
`absPos = rdr.pos - buf.len + bufPos`) plus what holds of the iterator returned with `.done`
(reader exhausted, buffer scanned to its end) and with `.ioErr` (`Inv` still holds).
-/
namespace AcVerif
open AcVerif.StreamX AcVerif.StreamP AcVerif.StdP AcVerif.MiscP AcVerif.CNfa

/-! ## the ideal standard automaton -/
section ideal
variable {σ α : Type} [DecidableEq α]

/-- a fault-free stream search feeds every byte of the stream to the automaton exactly once -/
theorem C19_stream_transitions (P : List (List α)) (_hP : P ≠ []) (hne : ∀ p ∈ P, p ≠ [])
    (sk : StartKind) (hsk : supportsAnch sk false) (data : List α) (sched : List Nat)
    (hs : ∀ x ∈ sched, 1 ≤ x) (spare : Option Nat) (minFactor defaultCap : Nat)
    (hcap : (Buffer.new (α := α) (ideal .std P sk false).maxLen spare minFactor defaultCap).min <
        (Buffer.new (α := α) (ideal .std P sk false).maxLen spare minFactor defaultCap).cap) :
    streamTransitions (ideal .std P sk false) { data := data, sched := sched } spare
      minFactor defaultCap = .ok data.length := by
  obtain ⟨t, h1, _, h3⟩ :=
    streamTransitions_ideal P sk hsk hne data sched hs spare minFactor defaultCap hcap none
  rw [h1, h3 rfl]

/-- with a failing `read` call the search has made at most `data.length` transitions -/
theorem C19_stream_transitions_fault (P : List (List α)) (_hP : P ≠ []) (hne : ∀ p ∈ P, p ≠ [])
    (sk : StartKind) (hsk : supportsAnch sk false) (data : List α) (sched : List Nat)
    (hs : ∀ x ∈ sched, 1 ≤ x) (spare : Option Nat) (minFactor defaultCap : Nat)
    (hcap : (Buffer.new (α := α) (ideal .std P sk false).maxLen spare minFactor defaultCap).min <
        (Buffer.new (α := α) (ideal .std P sk false).maxLen spare minFactor defaultCap).cap)
    (k : Nat) :
    ∃ t, streamTransitions (ideal .std P sk false)
        { data := data, sched := sched, failAt := some k } spare minFactor defaultCap = .ok t ∧
      t ≤ data.length := by
  obtain ⟨t, h1, h2, _⟩ :=
    streamTransitions_ideal P sk hsk hne data sched hs spare minFactor defaultCap hcap (some k)
  exact ⟨t, h1, h2⟩

/-- the default constants (factor 8, 64 KiB) -/
theorem C19_stream_transitions_default (P : List (List α)) (_hP : P ≠ [])
    (hne : ∀ p ∈ P, p ≠ []) (sk : StartKind) (hsk : supportsAnch sk false) (data : List α)
    (sched : List Nat) (hs : ∀ x ∈ sched, 1 ≤ x) (spare : Option Nat) :
    streamTransitions (ideal .std P sk false) { data := data, sched := sched } spare =
      .ok data.length :=
  C19_stream_transitions P _hP hne sk hsk data sched hs spare 8 (64 * 1024) (hcap_default _ spare)

end ideal

/-! ## transfer -/
section transfer
variable {σ τ α : Type}

/-- the number of transitions depends on the automaton only through its observations -/
theorem C19_stream_transitions_transfer (A : Aut σ α) (B : Aut τ α)
    (hk : A.kind = B.kind) (hl : ∀ pid, A.patLen pid = B.patLen pid)
    (hmin : A.minLen = B.minLen) (hmax : A.maxLen = B.maxLen)
    (h : StartEquiv A B true false)
    (rdr : Reader α) (spare : Option Nat) (minFactor defaultCap : Nat) :
    streamTransitions A rdr spare minFactor defaultCap =
      streamTransitions B rdr spare minFactor defaultCap :=
  streamTransitions_transfer A B hk hl hmin hmax (MStart.of_startEquiv h) rdr spare minFactor
    defaultCap

/-- … in fact only through `is_match` and the first listed pattern of the states reachable from
the unanchored start state -/
theorem C19_stream_transitions_transfer_match (A : Aut σ α) (B : Aut τ α)
    (hk : A.kind = B.kind) (hl : ∀ pid, A.patLen pid = B.patLen pid)
    (hmin : A.minLen = B.minLen) (hmax : A.maxLen = B.maxLen) (h : MStart A B)
    (rdr : Reader α) (spare : Option Nat) (minFactor defaultCap : Nat) :
    streamTransitions A rdr spare minFactor defaultCap =
      streamTransitions B rdr spare minFactor defaultCap :=
  streamTransitions_transfer A B hk hl hmin hmax h rdr spare minFactor defaultCap

theorem StreamTiedTo.streamTransitions {X : Aut σ α} {B : Aut τ α} (h : StreamTiedTo X B)
    (rdr : Reader α) (spare : Option Nat) (minFactor defaultCap : Nat) :
    streamTransitions X rdr spare minFactor defaultCap =
      AcVerif.streamTransitions B rdr spare minFactor defaultCap :=
  streamTransitions_transfer _ _ h.kind h.patLen h.minLen h.maxLen h.start rdr spare minFactor
    defaultCap

end transfer

section tied
variable {σ α : Type} [DecidableEq α]

theorem StreamTied.streamTransitions {X : Aut σ α} {P : List (List α)} {sk : StartKind}
    (h : StreamTied X P sk) (rdr : Reader α) (spare : Option Nat) (minFactor defaultCap : Nat) :
    streamTransitions X rdr spare minFactor defaultCap =
      AcVerif.streamTransitions (ideal .std P sk false) rdr spare minFactor defaultCap :=
  streamTransitions_transfer _ _ h.kind h.patLen h.minLen h.maxLen h.start rdr spare minFactor
    defaultCap

theorem C19_stream_transitions_tied {X : Aut σ α} (P : List (List α)) (hP : P ≠ [])
    (hne : ∀ p ∈ P, p ≠ []) (sk : StartKind) (hsk : supportsAnch sk false)
    (hX : StreamTied X P sk) (data : List α) (sched : List Nat)
    (hs : ∀ x ∈ sched, 1 ≤ x) (spare : Option Nat) (minFactor defaultCap : Nat)
    (hcap : (Buffer.new (α := α) (ideal .std P sk false).maxLen spare minFactor defaultCap).min <
        (Buffer.new (α := α) (ideal .std P sk false).maxLen spare minFactor defaultCap).cap) :
    streamTransitions X { data := data, sched := sched } spare minFactor defaultCap =
      .ok data.length :=
  (hX.streamTransitions _ _ _ _).trans
    (C19_stream_transitions P hP hne sk hsk data sched hs spare minFactor defaultCap hcap)

theorem C19_stream_transitions_fault_tied {X : Aut σ α} (P : List (List α)) (hP : P ≠ [])
    (hne : ∀ p ∈ P, p ≠ []) (sk : StartKind) (hsk : supportsAnch sk false)
    (hX : StreamTied X P sk) (data : List α) (sched : List Nat)
    (hs : ∀ x ∈ sched, 1 ≤ x) (spare : Option Nat) (minFactor defaultCap : Nat)
    (hcap : (Buffer.new (α := α) (ideal .std P sk false).maxLen spare minFactor defaultCap).min <
        (Buffer.new (α := α) (ideal .std P sk false).maxLen spare minFactor defaultCap).cap)
    (k : Nat) :
    ∃ t, streamTransitions X { data := data, sched := sched, failAt := some k } spare minFactor
        defaultCap = .ok t ∧ t ≤ data.length := by
  obtain ⟨t, h1, h2⟩ :=
    C19_stream_transitions_fault P hP hne sk hsk data sched hs spare minFactor defaultCap hcap k
  exact ⟨t, (hX.streamTransitions _ _ _ _).trans h1, h2⟩

end tied

/-! ## the transcribed builders -/

/-- a fault-free stream search on the compiled noncontiguous NFA (sparse transitions) makes exactly `data.length` transitions -/
theorem L1c_stream_transitions (P : List (List UInt8)) (hP : P ≠ []) (hne : ∀ p ∈ P, p ≠ [])
    (hasPre : Bool)
    (data : List UInt8) (sched : List Nat)
    (hs : ∀ x ∈ sched, 1 ≤ x) (spare : Option Nat) (minFactor defaultCap : Nat)
    (hcap : (Buffer.new (α := UInt8) (ideal .std P .both false).maxLen spare minFactor defaultCap).min <
        (Buffer.new (α := UInt8) (ideal .std P .both false).maxLen spare minFactor defaultCap).cap) :
    streamTransitions ((CNfa.compile .std false P).toAut .std P hasPre)
      { data := data, sched := sched } spare minFactor defaultCap = .ok data.length :=
  C19_stream_transitions_tied P hP hne .both (Or.inl rfl) (L1c_tied P hasPre) data sched hs spare minFactor
    defaultCap hcap

/-- a read failure at call `k` on the compiled noncontiguous NFA (sparse transitions): at most `data.length` transitions -/
theorem L1c_stream_transitions_fault (P : List (List UInt8)) (hP : P ≠ []) (hne : ∀ p ∈ P, p ≠ [])
    (hasPre : Bool)
    (data : List UInt8) (sched : List Nat)
    (hs : ∀ x ∈ sched, 1 ≤ x) (spare : Option Nat) (minFactor defaultCap : Nat)
    (hcap : (Buffer.new (α := UInt8) (ideal .std P .both false).maxLen spare minFactor defaultCap).min <
        (Buffer.new (α := UInt8) (ideal .std P .both false).maxLen spare minFactor defaultCap).cap)
    (k : Nat) :
    ∃ t, streamTransitions ((CNfa.compile .std false P).toAut .std P hasPre)
        { data := data, sched := sched, failAt := some k } spare minFactor defaultCap = .ok t ∧
      t ≤ data.length :=
  C19_stream_transitions_fault_tied P hP hne .both (Or.inl rfl) (L1c_tied P hasPre) data sched hs spare minFactor
    defaultCap hcap k

/-- a fault-free stream search on the compiled noncontiguous NFA reading its dense rows (any dense depth) makes exactly `data.length` transitions -/
theorem L1cDense_stream_transitions (P : List (List UInt8)) (hP : P ≠ []) (hne : ∀ p ∈ P, p ≠ [])
    (dd : Nat) (hasPre : Bool)
    (data : List UInt8) (sched : List Nat)
    (hs : ∀ x ∈ sched, 1 ≤ x) (spare : Option Nat) (minFactor defaultCap : Nat)
    (hcap : (Buffer.new (α := UInt8) (ideal .std P .both false).maxLen spare minFactor defaultCap).min <
        (Buffer.new (α := UInt8) (ideal .std P .both false).maxLen spare minFactor defaultCap).cap) :
    streamTransitions ((CNfa.compile .std false P).toAutD (denseRows (CNfa.compile .std false P) dd) .std P hasPre)
      { data := data, sched := sched } spare minFactor defaultCap = .ok data.length :=
  C19_stream_transitions_tied P hP hne .both (Or.inl rfl) (L1cDense_tied P dd hasPre) data sched hs spare minFactor
    defaultCap hcap

/-- a read failure at call `k` on the compiled noncontiguous NFA reading its dense rows (any dense depth): at most `data.length` transitions -/
theorem L1cDense_stream_transitions_fault (P : List (List UInt8)) (hP : P ≠ []) (hne : ∀ p ∈ P, p ≠ [])
    (dd : Nat) (hasPre : Bool)
    (data : List UInt8) (sched : List Nat)
    (hs : ∀ x ∈ sched, 1 ≤ x) (spare : Option Nat) (minFactor defaultCap : Nat)
    (hcap : (Buffer.new (α := UInt8) (ideal .std P .both false).maxLen spare minFactor defaultCap).min <
        (Buffer.new (α := UInt8) (ideal .std P .both false).maxLen spare minFactor defaultCap).cap)
    (k : Nat) :
    ∃ t, streamTransitions ((CNfa.compile .std false P).toAutD (denseRows (CNfa.compile .std false P) dd) .std P hasPre)
        { data := data, sched := sched, failAt := some k } spare minFactor defaultCap = .ok t ∧
      t ≤ data.length :=
  C19_stream_transitions_fault_tied P hP hne .both (Or.inl rfl) (L1cDense_tied P dd hasPre) data sched hs spare minFactor
    defaultCap hcap k

/-- a fault-free stream search on the transcribed DFA makes exactly `data.length` transitions -/
theorem L1d_stream_transitions (P : List (List UInt8)) (hP : P ≠ []) (hne : ∀ p ∈ P, p ≠ [])
    (hasPre bc : Bool) (sk : StartKind) (hsk : supportsAnch sk false)
    (data : List UInt8) (sched : List Nat)
    (hs : ∀ x ∈ sched, 1 ≤ x) (spare : Option Nat) (minFactor defaultCap : Nat)
    (hcap : (Buffer.new (α := UInt8) (ideal .std P sk false).maxLen spare minFactor defaultCap).min <
        (Buffer.new (α := UInt8) (ideal .std P sk false).maxLen spare minFactor defaultCap).cap) :
    streamTransitions ((buildDfa (CNfa.compile .std false P) sk bc).toAut .std P hasPre)
      { data := data, sched := sched } spare minFactor defaultCap = .ok data.length :=
  C19_stream_transitions_tied P hP hne sk hsk (L1d_tied P hasPre bc sk) data sched hs spare minFactor
    defaultCap hcap

/-- a read failure at call `k` on the transcribed DFA: at most `data.length` transitions -/
theorem L1d_stream_transitions_fault (P : List (List UInt8)) (hP : P ≠ []) (hne : ∀ p ∈ P, p ≠ [])
    (hasPre bc : Bool) (sk : StartKind) (hsk : supportsAnch sk false)
    (data : List UInt8) (sched : List Nat)
    (hs : ∀ x ∈ sched, 1 ≤ x) (spare : Option Nat) (minFactor defaultCap : Nat)
    (hcap : (Buffer.new (α := UInt8) (ideal .std P sk false).maxLen spare minFactor defaultCap).min <
        (Buffer.new (α := UInt8) (ideal .std P sk false).maxLen spare minFactor defaultCap).cap)
    (k : Nat) :
    ∃ t, streamTransitions ((buildDfa (CNfa.compile .std false P) sk bc).toAut .std P hasPre)
        { data := data, sched := sched, failAt := some k } spare minFactor defaultCap = .ok t ∧
      t ≤ data.length :=
  C19_stream_transitions_fault_tied P hP hne sk hsk (L1d_tied P hasPre bc sk) data sched hs spare minFactor
    defaultCap hcap k

/-- a fault-free stream search on the id-level DFA (premultiplied ids, remapped special states) makes exactly `data.length` transitions -/
theorem L1dIds_stream_transitions (P : List (List UInt8)) (hP : P ≠ []) (hne : ∀ p ∈ P, p ≠ [])
    (sk : StartKind) (bc hasPre : Bool) (hsk : supportsAnch sk false)
    (data : List UInt8) (sched : List Nat)
    (hs : ∀ x ∈ sched, 1 ≤ x) (spare : Option Nat) (minFactor defaultCap : Nat)
    (hcap : (Buffer.new (α := UInt8) (ideal .std P sk false).maxLen spare minFactor defaultCap).min <
        (Buffer.new (α := UInt8) (ideal .std P sk false).maxLen spare minFactor defaultCap).cap) :
    streamTransitions ((buildDfaIds (CNfa.compile .std false P) sk bc hasPre).toAut .std P hasPre)
      { data := data, sched := sched } spare minFactor defaultCap = .ok data.length :=
  C19_stream_transitions_tied P hP hne sk hsk (L1dIds_tied P sk bc hasPre) data sched hs spare minFactor
    defaultCap hcap

/-- a read failure at call `k` on the id-level DFA (premultiplied ids, remapped special states): at most `data.length` transitions -/
theorem L1dIds_stream_transitions_fault (P : List (List UInt8)) (hP : P ≠ []) (hne : ∀ p ∈ P, p ≠ [])
    (sk : StartKind) (bc hasPre : Bool) (hsk : supportsAnch sk false)
    (data : List UInt8) (sched : List Nat)
    (hs : ∀ x ∈ sched, 1 ≤ x) (spare : Option Nat) (minFactor defaultCap : Nat)
    (hcap : (Buffer.new (α := UInt8) (ideal .std P sk false).maxLen spare minFactor defaultCap).min <
        (Buffer.new (α := UInt8) (ideal .std P sk false).maxLen spare minFactor defaultCap).cap)
    (k : Nat) :
    ∃ t, streamTransitions ((buildDfaIds (CNfa.compile .std false P) sk bc hasPre).toAut .std P hasPre)
        { data := data, sched := sched, failAt := some k } spare minFactor defaultCap = .ok t ∧
      t ≤ data.length :=
  C19_stream_transitions_fault_tied P hP hne sk hsk (L1dIds_tied P sk bc hasPre) data sched hs spare minFactor
    defaultCap hcap k

/-- a fault-free stream search on the contiguous NFA makes exactly `data.length` transitions -/
theorem L1e_stream_transitions (P : List (List UInt8)) (hP : P ≠ []) (hne : ∀ p ∈ P, p ≠ [])
    (hasPre bc : Bool) (dd : Nat) (hPl : P.length < 2147483648)
    (data : List UInt8) (sched : List Nat)
    (hs : ∀ x ∈ sched, 1 ≤ x) (spare : Option Nat) (minFactor defaultCap : Nat)
    (hcap : (Buffer.new (α := UInt8) (ideal .std P .both false).maxLen spare minFactor defaultCap).min <
        (Buffer.new (α := UInt8) (ideal .std P .both false).maxLen spare minFactor defaultCap).cap) :
    streamTransitions ((buildContig (CNfa.compile .std false P) dd bc hasPre).toAut .std P hasPre)
      { data := data, sched := sched } spare minFactor defaultCap = .ok data.length :=
  C19_stream_transitions_tied P hP hne .both (Or.inl rfl) (L1e_tied P hasPre bc dd hPl) data sched hs spare minFactor
    defaultCap hcap

/-- a read failure at call `k` on the contiguous NFA: at most `data.length` transitions -/
theorem L1e_stream_transitions_fault (P : List (List UInt8)) (hP : P ≠ []) (hne : ∀ p ∈ P, p ≠ [])
    (hasPre bc : Bool) (dd : Nat) (hPl : P.length < 2147483648)
    (data : List UInt8) (sched : List Nat)
    (hs : ∀ x ∈ sched, 1 ≤ x) (spare : Option Nat) (minFactor defaultCap : Nat)
    (hcap : (Buffer.new (α := UInt8) (ideal .std P .both false).maxLen spare minFactor defaultCap).min <
        (Buffer.new (α := UInt8) (ideal .std P .both false).maxLen spare minFactor defaultCap).cap)
    (k : Nat) :
    ∃ t, streamTransitions ((buildContig (CNfa.compile .std false P) dd bc hasPre).toAut .std P hasPre)
        { data := data, sched := sched, failAt := some k } spare minFactor defaultCap = .ok t ∧
      t ≤ data.length :=
  C19_stream_transitions_fault_tied P hP hne .both (Or.inl rfl) (L1e_tied P hasPre bc dd hPl) data sched hs spare minFactor
    defaultCap hcap k

/-! ## the case-insensitive searcher -/

theorem C19Fold_stream_transitions (P : List (List UInt8)) (_hP : P ≠ []) (hne : ∀ p ∈ P, p ≠ [])
    (sk : StartKind) (hsk : supportsAnch sk false) (data : List UInt8) (sched : List Nat)
    (hs : ∀ x ∈ sched, 1 ≤ x) (spare : Option Nat) (minFactor defaultCap : Nat)
    (hcap : (Buffer.new (α := UInt8) ((ideal .std (P.map (·.map foldByte)) sk false).comap foldByte).maxLen spare minFactor
          defaultCap).min <
        (Buffer.new (α := UInt8) ((ideal .std (P.map (·.map foldByte)) sk false).comap foldByte).maxLen spare minFactor
          defaultCap).cap) :
    streamTransitions ((ideal .std (P.map (·.map foldByte)) sk false).comap foldByte)
      { data := data, sched := sched } spare minFactor defaultCap = .ok data.length := by
  obtain ⟨t, h1, _, h3⟩ :=
    streamTransitions_comap _ foldByte sk hsk (foldPats_ne P hne) data sched hs spare minFactor
      defaultCap hcap none
  rw [h1, h3 rfl]

theorem C19Fold_stream_transitions_fault (P : List (List UInt8)) (_hP : P ≠ [])
    (hne : ∀ p ∈ P, p ≠ [])
    (sk : StartKind) (hsk : supportsAnch sk false) (data : List UInt8) (sched : List Nat)
    (hs : ∀ x ∈ sched, 1 ≤ x) (spare : Option Nat) (minFactor defaultCap : Nat)
    (hcap : (Buffer.new (α := UInt8) ((ideal .std (P.map (·.map foldByte)) sk false).comap foldByte).maxLen spare minFactor
          defaultCap).min <
        (Buffer.new (α := UInt8) ((ideal .std (P.map (·.map foldByte)) sk false).comap foldByte).maxLen spare minFactor
          defaultCap).cap)
    (k : Nat) :
    ∃ t, streamTransitions ((ideal .std (P.map (·.map foldByte)) sk false).comap foldByte)
        { data := data, sched := sched, failAt := some k } spare minFactor defaultCap = .ok t ∧
      t ≤ data.length := by
  obtain ⟨t, h1, h2, _⟩ :=
    streamTransitions_comap _ foldByte sk hsk (foldPats_ne P hne) data sched hs spare minFactor
      defaultCap hcap (some k)
  exact ⟨t, h1, h2⟩

section tiedFold
variable {σ : Type}

theorem C19Fold_stream_transitions_tied {X : Aut σ UInt8} (P : List (List UInt8)) (hP : P ≠ [])
    (hne : ∀ p ∈ P, p ≠ []) (sk : StartKind) (hsk : supportsAnch sk false)
    (hX : StreamTiedTo X ((ideal .std (P.map (·.map foldByte)) sk false).comap foldByte))
    (data : List UInt8) (sched : List Nat)
    (hs : ∀ x ∈ sched, 1 ≤ x) (spare : Option Nat) (minFactor defaultCap : Nat)
    (hcap : (Buffer.new (α := UInt8) ((ideal .std (P.map (·.map foldByte)) sk false).comap foldByte).maxLen spare minFactor
          defaultCap).min <
        (Buffer.new (α := UInt8) ((ideal .std (P.map (·.map foldByte)) sk false).comap foldByte).maxLen spare minFactor
          defaultCap).cap) :
    streamTransitions X { data := data, sched := sched } spare minFactor defaultCap =
      .ok data.length :=
  (hX.streamTransitions _ _ _ _).trans
    (C19Fold_stream_transitions P hP hne sk hsk data sched hs spare minFactor defaultCap hcap)

theorem C19Fold_stream_transitions_fault_tied {X : Aut σ UInt8} (P : List (List UInt8))
    (hP : P ≠ [])
    (hne : ∀ p ∈ P, p ≠ []) (sk : StartKind) (hsk : supportsAnch sk false)
    (hX : StreamTiedTo X ((ideal .std (P.map (·.map foldByte)) sk false).comap foldByte))
    (data : List UInt8) (sched : List Nat)
    (hs : ∀ x ∈ sched, 1 ≤ x) (spare : Option Nat) (minFactor defaultCap : Nat)
    (hcap : (Buffer.new (α := UInt8) ((ideal .std (P.map (·.map foldByte)) sk false).comap foldByte).maxLen spare minFactor
          defaultCap).min <
        (Buffer.new (α := UInt8) ((ideal .std (P.map (·.map foldByte)) sk false).comap foldByte).maxLen spare minFactor
          defaultCap).cap)
    (k : Nat) :
    ∃ t, streamTransitions X { data := data, sched := sched, failAt := some k } spare minFactor
        defaultCap = .ok t ∧ t ≤ data.length := by
  obtain ⟨t, h1, h2⟩ :=
    C19Fold_stream_transitions_fault P hP hne sk hsk data sched hs spare minFactor defaultCap
      hcap k
  exact ⟨t, (hX.streamTransitions _ _ _ _).trans h1, h2⟩

end tiedFold

/-- a fault-free stream search on the noncontiguous NFA compiled with `ascii_case_insensitive(true)` makes exactly `data.length` transitions -/
theorem L1cFold_stream_transitions (P : List (List UInt8)) (hP : P ≠ []) (hne : ∀ p ∈ P, p ≠ [])
    (hasPre : Bool)
    (data : List UInt8) (sched : List Nat)
    (hs : ∀ x ∈ sched, 1 ≤ x) (spare : Option Nat) (minFactor defaultCap : Nat)
    (hcap : (Buffer.new (α := UInt8) ((ideal .std (P.map (·.map foldByte)) .both false).comap foldByte).maxLen spare minFactor
          defaultCap).min <
        (Buffer.new (α := UInt8) ((ideal .std (P.map (·.map foldByte)) .both false).comap foldByte).maxLen spare minFactor
          defaultCap).cap) :
    streamTransitions ((CNfa.compile .std true P).toAut .std P hasPre)
      { data := data, sched := sched } spare minFactor defaultCap = .ok data.length :=
  C19Fold_stream_transitions_tied P hP hne .both (Or.inl rfl) (L1cFold_tied P hasPre) data sched hs spare minFactor
    defaultCap hcap

/-- a read failure at call `k` on the noncontiguous NFA compiled with `ascii_case_insensitive(true)`: at most `data.length` transitions -/
theorem L1cFold_stream_transitions_fault (P : List (List UInt8)) (hP : P ≠ []) (hne : ∀ p ∈ P, p ≠ [])
    (hasPre : Bool)
    (data : List UInt8) (sched : List Nat)
    (hs : ∀ x ∈ sched, 1 ≤ x) (spare : Option Nat) (minFactor defaultCap : Nat)
    (hcap : (Buffer.new (α := UInt8) ((ideal .std (P.map (·.map foldByte)) .both false).comap foldByte).maxLen spare minFactor
          defaultCap).min <
        (Buffer.new (α := UInt8) ((ideal .std (P.map (·.map foldByte)) .both false).comap foldByte).maxLen spare minFactor
          defaultCap).cap)
    (k : Nat) :
    ∃ t, streamTransitions ((CNfa.compile .std true P).toAut .std P hasPre)
        { data := data, sched := sched, failAt := some k } spare minFactor defaultCap = .ok t ∧
      t ≤ data.length :=
  C19Fold_stream_transitions_fault_tied P hP hne .both (Or.inl rfl) (L1cFold_tied P hasPre) data sched hs spare minFactor
    defaultCap hcap k

/-- a fault-free stream search on the DFA built from the case-insensitive NFA makes exactly `data.length` transitions -/
theorem L1dFold_stream_transitions (P : List (List UInt8)) (hP : P ≠ []) (hne : ∀ p ∈ P, p ≠ [])
    (hasPre bc : Bool) (sk : StartKind) (hsk : supportsAnch sk false)
    (data : List UInt8) (sched : List Nat)
    (hs : ∀ x ∈ sched, 1 ≤ x) (spare : Option Nat) (minFactor defaultCap : Nat)
    (hcap : (Buffer.new (α := UInt8) ((ideal .std (P.map (·.map foldByte)) sk false).comap foldByte).maxLen spare minFactor
          defaultCap).min <
        (Buffer.new (α := UInt8) ((ideal .std (P.map (·.map foldByte)) sk false).comap foldByte).maxLen spare minFactor
          defaultCap).cap) :
    streamTransitions ((buildDfa (CNfa.compile .std true P) sk bc).toAut .std P hasPre)
      { data := data, sched := sched } spare minFactor defaultCap = .ok data.length :=
  C19Fold_stream_transitions_tied P hP hne sk hsk (L1dFold_tied P hasPre bc sk) data sched hs spare minFactor
    defaultCap hcap

/-- a read failure at call `k` on the DFA built from the case-insensitive NFA: at most `data.length` transitions -/
theorem L1dFold_stream_transitions_fault (P : List (List UInt8)) (hP : P ≠ []) (hne : ∀ p ∈ P, p ≠ [])
    (hasPre bc : Bool) (sk : StartKind) (hsk : supportsAnch sk false)
    (data : List UInt8) (sched : List Nat)
    (hs : ∀ x ∈ sched, 1 ≤ x) (spare : Option Nat) (minFactor defaultCap : Nat)
    (hcap : (Buffer.new (α := UInt8) ((ideal .std (P.map (·.map foldByte)) sk false).comap foldByte).maxLen spare minFactor
          defaultCap).min <
        (Buffer.new (α := UInt8) ((ideal .std (P.map (·.map foldByte)) sk false).comap foldByte).maxLen spare minFactor
          defaultCap).cap)
    (k : Nat) :
    ∃ t, streamTransitions ((buildDfa (CNfa.compile .std true P) sk bc).toAut .std P hasPre)
        { data := data, sched := sched, failAt := some k } spare minFactor defaultCap = .ok t ∧
      t ≤ data.length :=
  C19Fold_stream_transitions_fault_tied P hP hne sk hsk (L1dFold_tied P hasPre bc sk) data sched hs spare minFactor
    defaultCap hcap k

/-- a fault-free stream search on the id-level DFA built from the case-insensitive NFA makes exactly `data.length` transitions -/
theorem L1dIdsFold_stream_transitions (P : List (List UInt8)) (hP : P ≠ []) (hne : ∀ p ∈ P, p ≠ [])
    (sk : StartKind) (bc hasPre : Bool) (hsk : supportsAnch sk false)
    (data : List UInt8) (sched : List Nat)
    (hs : ∀ x ∈ sched, 1 ≤ x) (spare : Option Nat) (minFactor defaultCap : Nat)
    (hcap : (Buffer.new (α := UInt8) ((ideal .std (P.map (·.map foldByte)) sk false).comap foldByte).maxLen spare minFactor
          defaultCap).min <
        (Buffer.new (α := UInt8) ((ideal .std (P.map (·.map foldByte)) sk false).comap foldByte).maxLen spare minFactor
          defaultCap).cap) :
    streamTransitions ((buildDfaIds (CNfa.compile .std true P) sk bc hasPre).toAut .std P hasPre)
      { data := data, sched := sched } spare minFactor defaultCap = .ok data.length :=
  C19Fold_stream_transitions_tied P hP hne sk hsk (L1dIdsFold_tied P sk bc hasPre) data sched hs spare minFactor
    defaultCap hcap

/-- a read failure at call `k` on the id-level DFA built from the case-insensitive NFA: at most `data.length` transitions -/
theorem L1dIdsFold_stream_transitions_fault (P : List (List UInt8)) (hP : P ≠ []) (hne : ∀ p ∈ P, p ≠ [])
    (sk : StartKind) (bc hasPre : Bool) (hsk : supportsAnch sk false)
    (data : List UInt8) (sched : List Nat)
    (hs : ∀ x ∈ sched, 1 ≤ x) (spare : Option Nat) (minFactor defaultCap : Nat)
    (hcap : (Buffer.new (α := UInt8) ((ideal .std (P.map (·.map foldByte)) sk false).comap foldByte).maxLen spare minFactor
          defaultCap).min <
        (Buffer.new (α := UInt8) ((ideal .std (P.map (·.map foldByte)) sk false).comap foldByte).maxLen spare minFactor
          defaultCap).cap)
    (k : Nat) :
    ∃ t, streamTransitions ((buildDfaIds (CNfa.compile .std true P) sk bc hasPre).toAut .std P hasPre)
        { data := data, sched := sched, failAt := some k } spare minFactor defaultCap = .ok t ∧
      t ≤ data.length :=
  C19Fold_stream_transitions_fault_tied P hP hne sk hsk (L1dIdsFold_tied P sk bc hasPre) data sched hs spare minFactor
    defaultCap hcap k

/-- a fault-free stream search on the contiguous NFA built from the case-insensitive NFA makes exactly `data.length` transitions -/
theorem L1eFold_stream_transitions (P : List (List UInt8)) (hP : P ≠ []) (hne : ∀ p ∈ P, p ≠ [])
    (hasPre bc : Bool) (dd : Nat) (hPl : P.length < 2147483648)
    (data : List UInt8) (sched : List Nat)
    (hs : ∀ x ∈ sched, 1 ≤ x) (spare : Option Nat) (minFactor defaultCap : Nat)
    (hcap : (Buffer.new (α := UInt8) ((ideal .std (P.map (·.map foldByte)) .both false).comap foldByte).maxLen spare minFactor
          defaultCap).min <
        (Buffer.new (α := UInt8) ((ideal .std (P.map (·.map foldByte)) .both false).comap foldByte).maxLen spare minFactor
          defaultCap).cap) :
    streamTransitions ((buildContig (CNfa.compile .std true P) dd bc hasPre).toAut .std P hasPre)
      { data := data, sched := sched } spare minFactor defaultCap = .ok data.length :=
  C19Fold_stream_transitions_tied P hP hne .both (Or.inl rfl) (L1eFold_tied P hasPre bc dd hPl) data sched hs spare minFactor
    defaultCap hcap

/-- a read failure at call `k` on the contiguous NFA built from the case-insensitive NFA: at most `data.length` transitions -/
theorem L1eFold_stream_transitions_fault (P : List (List UInt8)) (hP : P ≠ []) (hne : ∀ p ∈ P, p ≠ [])
    (hasPre bc : Bool) (dd : Nat) (hPl : P.length < 2147483648)
    (data : List UInt8) (sched : List Nat)
    (hs : ∀ x ∈ sched, 1 ≤ x) (spare : Option Nat) (minFactor defaultCap : Nat)
    (hcap : (Buffer.new (α := UInt8) ((ideal .std (P.map (·.map foldByte)) .both false).comap foldByte).maxLen spare minFactor
          defaultCap).min <
        (Buffer.new (α := UInt8) ((ideal .std (P.map (·.map foldByte)) .both false).comap foldByte).maxLen spare minFactor
          defaultCap).cap)
    (k : Nat) :
    ∃ t, streamTransitions ((buildContig (CNfa.compile .std true P) dd bc hasPre).toAut .std P hasPre)
        { data := data, sched := sched, failAt := some k } spare minFactor defaultCap = .ok t ∧
      t ≤ data.length :=
  C19Fold_stream_transitions_fault_tied P hP hne .both (Or.inl rfl) (L1eFold_tied P hasPre bc dd hPl) data sched hs spare minFactor
    defaultCap hcap k

/-! ## non-vacuity -/

/-- the hypotheses are satisfiable: a match split across reads, capacity `min + 1` -/
example : streamTransitions (ideal .std [[1, 2, 3], [3, 4]] .both false)
    { data := [0, 1, 2, 3, 4, 1, 2, 3], sched := [2, 1, 3, 1] } (some 1) = .ok 8 :=
  C19_stream_transitions_default [[1, 2, 3], [3, 4]] (by decide) (by decide) .both (Or.inl rfl)
    [0, 1, 2, 3, 4, 1, 2, 3] [2, 1, 3, 1] (by decide) (some 1)

/-- … and evaluated -/
example : streamTransitions (ideal .std [[1, 2, 3], [3, 4]] .both false)
    { data := [0, 1, 2, 3, 4, 1, 2, 3], sched := [2, 1, 3, 1] } (some 1) = .ok 8 := by rfl

/-- with the third `read` failing only the bytes of the first two reads have been fed -/
example : streamTransitions (ideal .std [[1, 2, 3], [3, 4]] .both false)
    { data := [0, 1, 2, 3, 4, 1, 2, 3], sched := [2, 1, 3, 1], failAt := some 2 } (some 1) =
    .ok 3 := by rfl

/-- the transcribed DFA (byte classes, prefilter flag set) -/
example : streamTransitions
    ((buildDfa (CNfa.compile .std false [[1, 2, 3], [3, 4]]) .both true).toAut .std
      [[1, 2, 3], [3, 4]] true)
    { data := [0, 1, 2, 3, 4, 1, 2, 3], sched := [2, 1, 3, 1] } (some 1) 8 65536 = .ok 8 :=
  L1d_stream_transitions [[1, 2, 3], [3, 4]] (by decide) (by decide) true true .both (Or.inl rfl)
    [0, 1, 2, 3, 4, 1, 2, 3] [2, 1, 3, 1] (by decide) (some 1) 8 65536 (hcap_default _ _)

end AcVerif
