import AcVerif.Proofs.PackedTeddy
/-!
# C06 – the packed searchers (`src/packed`) report the leftmost-first /
leftmost-longest occurrence; C15 (index arithmetic of the Teddy schedule)

For a non-empty list of non-empty patterns, on every valid span:

* `C06_rabinkarp` – Rabin-Karp (forced, or the short-haystack fallback);
* `C06_teddy` – Teddy with 8 or 16 buckets and 16- or 32-byte windows on spans
  of at least `w + maskLen - 1` bytes;
* `C06_packed` – the public searcher for every variant (including forced
  Rabin-Karp), with its dispatch on the span length;
* `C06_iter` – the iterator is the specification's non-overlapping iterator;
* `C15_teddy_loads` – every vector load of the Teddy schedule lies inside the
  haystack slice and not before `start + maskLen - 1`;
* `C15_packed_match_wf` – reported matches are well formed.

(`hne : pats ≠ []` is kept for fidelity with the builder's precondition; the
proofs do not need it.  No bound on pattern lengths is needed either: the fold
start value `2^64-1` of `minLen` only has to be positive.)
-/
namespace AcVerif
open AcVerif.PackedP

/-- Rabin-Karp (forced, or as the short-haystack fallback) -/
theorem C06_rabinkarp (kind : PKind) (pats : List PBytes) (_hne : pats ≠ [])
    (hnz : ∀ p ∈ pats, p ≠ []) (hay : PBytes) (st en : Nat)
    (hspan : st ≤ en ∧ en ≤ hay.length) :
    IsFind kind.toMatchKind pats hay st en false
      ((RabinKarp.new (PPatterns.new kind pats)).findAt (hay.take en) st) :=
  findAt_isFind kind pats hnz hay st en hspan.2

/-- Teddy with `nBuckets ∈ {8, 16}` and window width `w ∈ {16, 32}`, on a span of at least
`w + maskLen - 1` bytes -/
theorem C06_teddy (kind : PKind) (pats : List PBytes) (_hne : pats ≠ [])
    (hnz : ∀ p ∈ pats, p ≠ []) (nB : Nat) (hB : nB = 8 ∨ nB = 16) (w : Nat)
    (hw : w = 16 ∨ w = 32) (hay : PBytes) (st en : Nat) (hspan : st ≤ en ∧ en ≤ hay.length)
    (hlen : w + (min 4 (PPatterns.new kind pats).minLen - 1) ≤ en - st) :
    IsFind kind.toMatchKind pats hay st en false
      ((Teddy.new (PPatterns.new kind pats) nB).find (hay.take en) st w) :=
  teddy_find_isFind kind pats hnz nB (by omega) w (by omega) (by omega) hay st en hspan.2
    (by omega)

/-- every variant of the public searcher -/
theorem C06_packed (kind : PKind) (pats : List PBytes) (hne : pats ≠ [])
    (hnz : ∀ p ∈ pats, p ≠ []) (v : Option TeddyVariant) (hay : PBytes) (st en : Nat)
    (hspan : st ≤ en ∧ en ≤ hay.length) :
    IsFind kind.toMatchKind pats hay st en false
      ((PackedSearcher.new kind pats v).findIn hay st en) := by
  cases v with
  | none => exact C06_rabinkarp kind pats hne hnz hay st en hspan
  | some v =>
    show IsFind _ _ _ _ _ _
      (if en - st < 16 + ((Teddy.new (PPatterns.new kind pats) 8).maskLen - 1) then
        (RabinKarp.new (PPatterns.new kind pats)).findAt (hay.take en) st
      else match v with
        | .slim128 => (Teddy.new (PPatterns.new kind pats) 8).find (hay.take en) st 16
        | .slim256 =>
          if en - st < 32 + ((Teddy.new (PPatterns.new kind pats) 8).maskLen - 1) then
            (Teddy.new (PPatterns.new kind pats) 8).find (hay.take en) st 16
          else (Teddy.new (PPatterns.new kind pats) 8).find (hay.take en) st 32
        | .fat256 => (Teddy.new (PPatterns.new kind pats) 16).find (hay.take en) st 16)
    rw [teddy_maskLen]
    split
    · exact C06_rabinkarp kind pats hne hnz hay st en hspan
    · rename_i h16
      cases v with
      | slim128 =>
        exact C06_teddy kind pats hne hnz 8 (Or.inl rfl) 16 (Or.inl rfl) hay st en hspan
          (by omega)
      | slim256 =>
        dsimp only
        split
        · exact C06_teddy kind pats hne hnz 8 (Or.inl rfl) 16 (Or.inl rfl) hay st en hspan
            (by omega)
        · exact C06_teddy kind pats hne hnz 8 (Or.inl rfl) 32 (Or.inr rfl) hay st en hspan
            (by omega)
      | fat256 =>
        exact C06_teddy kind pats hne hnz 16 (Or.inr rfl) 16 (Or.inl rfl) hay st en hspan
          (by omega)

/-- every reported match is well-formed (C15) -/
theorem C15_packed_match_wf (kind : PKind) (pats : List PBytes) (hne : pats ≠ [])
    (hnz : ∀ p ∈ pats, p ≠ []) (v : Option TeddyVariant) (hay : PBytes) (st en : Nat)
    (hspan : st ≤ en ∧ en ≤ hay.length) (m : Mat)
    (h : (PackedSearcher.new kind pats v).findIn hay st en = some m) :
    m.pid < pats.length ∧ st ≤ m.start ∧ m.start ≤ m.stop ∧ m.stop ≤ en := by
  have hf := C06_packed kind pats hne hnz v hay st en hspan
  rw [h] at hf
  obtain ⟨p, h1, h2, h3, h4, _⟩ := hf.1.1
  refine ⟨?_, h2, by omega, h4⟩
  rcases Nat.lt_or_ge m.pid pats.length with hlt | hge
  · exact hlt
  · rw [List.getElem?_eq_none hge] at h1; cases h1

/-- reported matches are never empty -/
theorem C06_packed_nonempty (kind : PKind) (pats : List PBytes) (hne : pats ≠ [])
    (hnz : ∀ p ∈ pats, p ≠ []) (v : Option TeddyVariant) (hay : PBytes) (st en : Nat)
    (hspan : st ≤ en ∧ en ≤ hay.length) (m : Mat)
    (h : (PackedSearcher.new kind pats v).findIn hay st en = some m) : m.start < m.stop := by
  have hf := C06_packed kind pats hne hnz v hay st en hspan
  rw [h] at hf
  obtain ⟨p, h1, _, h3, _, _⟩ := hf.1.1
  have hp : 0 < p.length := List.length_pos_iff.2 (hnz p (List.mem_of_getElem? h1))
  omega

theorem packed_iter_eq (kind : PKind) (pats : List PBytes) (hne : pats ≠ [])
    (hnz : ∀ p ∈ pats, p ≠ []) (v : Option TeddyVariant) (hay : PBytes) (fuel st : Nat)
    (last : Option Nat) :
    (PackedSearcher.new kind pats v).iter hay fuel st =
      iterSpecAux (fun st => if st ≤ hay.length then
        (PackedSearcher.new kind pats v).findIn hay st hay.length else none) fuel st last := by
  induction fuel generalizing st last with
  | zero => rfl
  | succ fuel ih =>
    simp only [PackedSearcher.iter, iterSpecAux]
    by_cases hst : st ≤ hay.length
    · rw [if_neg (by omega), if_pos hst]
      cases hf : (PackedSearcher.new kind pats v).findIn hay st hay.length with
      | none => rfl
      | some m =>
        have hpos := C06_packed_nonempty kind pats hne hnz v hay st hay.length
          ⟨hst, Nat.le_refl _⟩ m hf
        simp only
        rw [if_neg (by omega), ih]
    · rw [if_pos (by omega), if_neg hst]

/-- the iterator is the specification's non-overlapping iterator (no pattern is empty, so the
empty-match rule never fires) -/
theorem C06_iter (kind : PKind) (pats : List PBytes) (hne : pats ≠ [])
    (hnz : ∀ p ∈ pats, p ≠ []) (v : Option TeddyVariant) (hay : PBytes) :
    ∃ F, (∀ st, st ≤ hay.length + 1 →
        IsFind kind.toMatchKind pats hay st hay.length false (F st)) ∧
      (PackedSearcher.new kind pats v).iter hay (hay.length + 2) 0 = iterSpec F 0 hay.length := by
  refine ⟨fun st => if st ≤ hay.length then
    (PackedSearcher.new kind pats v).findIn hay st hay.length else none, ?_, ?_⟩
  · intro st _
    by_cases hst : st ≤ hay.length
    · simp only [if_pos hst]
      exact C06_packed kind pats hne hnz v hay st hay.length ⟨hst, Nat.le_refl _⟩
    · simp only [if_neg hst]
      intro m hm
      obtain ⟨p, _, h2, h3, h4, _⟩ := hm.1
      omega
  · exact packed_iter_eq kind pats hne hnz v hay _ 0 none

/-- C15 (index arithmetic): every vector load of the Teddy schedule lies inside the searched
span -/
theorem C15_teddy_loads (t : Teddy) (hay : PBytes) (st w : Nat) (_hw : 0 < w)
    (hlen : st + w + (t.maskLen - 1) ≤ hay.length) :
    ∀ cur ∈ (t.findT hay st w).2, st + (t.maskLen - 1) ≤ cur ∧ cur + w ≤ hay.length :=
  findT_loads t hay st w hlen

/-! ## non-vacuity: concrete instances (evaluated by `decide`) -/

private def hay20 : PBytes := [0, 0, 0, 1, 2, 3, 4, 0, 0, 0, 0, 0, 0, 0, 0, 0, 0, 1, 2, 0]
private def hay40 : PBytes := List.replicate 35 0 ++ [1, 2, 3, 4, 0]
private theorem ex_nz : ∀ p ∈ ([[1, 2], [1, 2, 3]] : List PBytes), p ≠ [] := by decide

/-- the hypotheses of the theorems are satisfiable -/
example : IsFind .ll [[1, 2], [1, 2, 3]] hay20 0 20 false
    ((RabinKarp.new (PPatterns.new .ll [[1, 2], [1, 2, 3]])).findAt (hay20.take 20) 0) :=
  C06_rabinkarp .ll _ (by decide) ex_nz hay20 0 20 (by decide)

example : IsFind .ll [[1, 2], [1, 2, 3]] hay20 0 20 false
    ((Teddy.new (PPatterns.new .ll [[1, 2], [1, 2, 3]]) 8).find (hay20.take 20) 0 16) :=
  C06_teddy .ll _ (by decide) ex_nz 8 (Or.inl rfl) 16 (Or.inl rfl) hay20 0 20 (by decide)
    (by decide)

example : IsFind .lf [[1, 2], [1, 2, 3]] hay40 0 40 false
    ((PackedSearcher.new .lf [[1, 2], [1, 2, 3]] (some .slim256)).findIn hay40 0 40) :=
  C06_packed .lf _ (by decide) ex_nz _ hay40 0 40 (by decide)

/-- Rabin-Karp: leftmost-longest picks the longer pattern -/
example : (PackedSearcher.new .ll [[1, 2], [1, 2, 3]] none).findIn hay20 0 20 =
    some ⟨1, 3, 6⟩ := by decide
/-- slim Teddy, 128 bit: leftmost-longest vs leftmost-first at the same offset -/
example : (PackedSearcher.new .ll [[1, 2], [1, 2, 3]] (some .slim128)).findIn hay20 0 20 =
    some ⟨1, 3, 6⟩ := by decide
example : (PackedSearcher.new .lf [[1, 2], [1, 2, 3]] (some .slim128)).findIn hay20 0 20 =
    some ⟨0, 3, 5⟩ := by decide
/-- fat Teddy on a 16-byte span: only the final window's lanes matter; `[1,2,3]` does not fit -/
example : (PackedSearcher.new .ll [[1, 2], [1, 2, 3]] (some .fat256)).findIn hay20 4 20 =
    some ⟨0, 17, 19⟩ := by decide
/-- slim Teddy, 256 bit, 32-byte windows with the overlapped final window -/
example : (PackedSearcher.new .ll [[1, 2], [1, 2, 3]] (some .slim256)).findIn hay40 0 40 =
    some ⟨1, 35, 38⟩ := by decide
/-- a span shorter than Teddy's minimum falls back to Rabin-Karp -/
example : (PackedSearcher.new .ll [[1, 2], [1, 2, 3]] (some .slim256)).findIn hay20 2 8 =
    some ⟨1, 3, 6⟩ := by decide
example : (PackedSearcher.new .ll [[1, 2], [1, 2, 3]] (some .fat256)).iter hay20 22 0 =
    [⟨1, 3, 6⟩, ⟨0, 17, 19⟩] := by decide
/-- load positions: main-loop windows at `1, 17`, final overlapped window at `40 - 16` -/
example : ((Teddy.new (PPatterns.new .ll [[9, 2], [9, 2, 3]]) 8).findT hay40 0 16).2 =
    [1, 17, 24] := by decide

end AcVerif
