import AcVerif.Cost
import AcVerif.Fold
import AcVerif.Engine.Overlap
import AcVerif.Proofs.CostBounds
import AcVerif.Proofs.CostOverlapFacts
/-!
# C19 – bounded work per haystack byte

`findCost` is `findLoop` on the ideal automaton with two ghost counters:
`transitions` (number of `next_state` calls) and `fails` (number of
failure-link traversals inside those calls, `Ideal.hops`).

* `C19_result` – the counters do not influence the result.
* `C19_transitions` – at most one `next_state` call per byte of the span.
* `C19_step_potential`, `C19_step_anchored` – one call: every failure hop is
  paid for by a decrease of the depth of the current state.
* `C19_fails_le`, `C19_search` – hence `fails ≤ transitions ≤ span length` for
  a whole search, whatever the prefilter does (a prefilter jump keeps the
  state and only moves the position forward).
* `C19_anchored` – an anchored search follows no failure link at all.
* `C19_overlap_monotone`, `C19_overlap_in_span` – one call of the overlapping
  loop only moves the position forward (and stays inside the span when the
  prefilter does).
-/
namespace AcVerif
open AcVerif.CostP
variable {α : Type} [DecidableEq α]

/-- the counters do not influence the result: `findCost`'s first component is `findLoop` -/
theorem C19_result (k : MatchKind) (Q : PatSet α) (A : Aut (St α) α) (g : α → α)
    (hay : List α) (s e : Nat) (he : e ≤ hay.length) (pre : Option (Prefilter α))
    (anch earliest : Bool) (sid : St α) (at_ : Nat) (mat : Option Mat) (cost : Cost) :
    (findCost k Q A g hay s e he pre anch earliest sid at_ mat cost).1 =
      findLoop A hay s e he pre anch earliest sid at_ mat :=
  findCost_fst k Q A g hay s e he pre anch earliest _ sid at_ mat cost (Nat.le_refl _)

/-- at most one transition per byte of the (remaining) span, whatever the prefilter does -/
theorem C19_transitions (k : MatchKind) (Q : PatSet α) (A : Aut (St α) α) (g : α → α)
    (hay : List α) (s e : Nat) (he : e ≤ hay.length) (pre : Option (Prefilter α))
    (anch earliest : Bool) (sid : St α) (at_ : Nat) (mat : Option Mat) (cost : Cost) :
    (findCost k Q A g hay s e he pre anch earliest sid at_ mat cost).2.transitions ≤
      cost.transitions + (e - at_) :=
  findCost_transitions_le k Q A g hay s e he pre anch earliest _ sid at_ mat cost (Nat.le_refl _)

/-- the transition counter only grows -/
theorem C19_transitions_mono (k : MatchKind) (Q : PatSet α) (A : Aut (St α) α) (g : α → α)
    (hay : List α) (s e : Nat) (he : e ≤ hay.length) (pre : Option (Prefilter α))
    (anch earliest : Bool) (sid : St α) (at_ : Nat) (mat : Option Mat) (cost : Cost) :
    cost.transitions ≤
      (findCost k Q A g hay s e he pre anch earliest sid at_ mat cost).2.transitions :=
  findCost_transitions_ge k Q A g hay s e he pre anch earliest _ sid at_ mat cost (Nat.le_refl _)

/-- one step: every failure hop is paid for by a decrease of depth (potential argument) -/
theorem C19_step_potential (k : MatchKind) (P : List (List α)) (q : St α) (c : α) :
    (Ideal.next k (patSet k P) false q c).depth + Ideal.hops k (patSet k P) false q c ≤
      q.depth + 1 :=
  step_potential k (patSet k P) q c

/-- an anchored step follows no failure link -/
theorem C19_step_anchored (k : MatchKind) (P : List (List α)) (q : St α) (c : α) :
    Ideal.hops k (patSet k P) true q c = 0 :=
  step_anchored k (patSet k P) q c

/-- the same potential inequality in either anchoring mode -/
theorem C19_step_potential' (k : MatchKind) (P : List (List α)) (anch : Bool) (q : St α) (c : α) :
    (Ideal.next k (patSet k P) anch q c).depth + Ideal.hops k (patSet k P) anch q c ≤
      q.depth + 1 :=
  step_potential' k (patSet k P) anch q c

/-- Failure-link traversals never exceed transitions: for the ideal automaton (optionally with
case folding `g`), started in any state, `fails` grows by at most the growth of `transitions`
plus the depth of the starting state. -/
theorem C19_fails_le (k : MatchKind) (P : List (List α)) (sk : StartKind) (hasPre : Bool)
    (g : α → α) (hay : List α) (s e : Nat) (he : e ≤ hay.length) (pre : Option (Prefilter α))
    (anch earliest : Bool) (sid : St α) (at_ : Nat) (mat : Option Mat) (cost : Cost) :
    let A := (ideal k P sk hasPre).comap g
    let r := findCost k (patSet k P) A g hay s e he pre anch earliest sid at_ mat cost
    r.2.fails ≤ cost.fails + sid.depth + (r.2.transitions - cost.transitions) := by
  intro A r
  have h1 := findCost_fails_le k (patSet k P) A g (fun _ _ _ => rfl) hay s e he pre anch earliest
    _ sid at_ mat cost (Nat.le_refl _)
  have h2 := findCost_transitions_ge k (patSet k P) A g hay s e he pre anch earliest
    _ sid at_ mat cost (Nat.le_refl _)
  show r.2.fails ≤ cost.fails + sid.depth + (r.2.transitions - cost.transitions)
  have h1' : r.2.fails + cost.transitions ≤ cost.fails + sid.depth + r.2.transitions := h1
  have h2' : cost.transitions ≤ r.2.transitions := h2
  omega

/-- the subtraction-free form of `C19_fails_le` -/
theorem C19_fails_le' (k : MatchKind) (P : List (List α)) (sk : StartKind) (hasPre : Bool)
    (g : α → α) (hay : List α) (s e : Nat) (he : e ≤ hay.length) (pre : Option (Prefilter α))
    (anch earliest : Bool) (sid : St α) (at_ : Nat) (mat : Option Mat) (cost : Cost) :
    let A := (ideal k P sk hasPre).comap g
    let r := findCost k (patSet k P) A g hay s e he pre anch earliest sid at_ mat cost
    r.2.fails + cost.transitions ≤ cost.fails + sid.depth + r.2.transitions :=
  findCost_fails_le k (patSet k P) _ g (fun _ _ _ => rfl) hay s e he pre anch earliest
    _ sid at_ mat cost (Nat.le_refl _)

/-- … hence for a whole search (the start state has depth 0, the counters start at 0):
`fails ≤ transitions ≤ span length`. -/
theorem C19_search (k : MatchKind) (P : List (List α)) (sk : StartKind) (hasPre : Bool)
    (g : α → α) (hay : List α) (s e : Nat) (he : e ≤ hay.length) (pre : Option (Prefilter α))
    (anch earliest : Bool) (mat : Option Mat) :
    let A := (ideal k P sk hasPre).comap g
    let r := findCost k (patSet k P) A g hay s e he pre anch earliest (.at []) s mat {}
    r.2.fails ≤ r.2.transitions ∧ r.2.transitions ≤ e - s := by
  intro A r
  have h1 := C19_fails_le' k P sk hasPre g hay s e he pre anch earliest (.at []) s mat {}
  have h2 := C19_transitions k (patSet k P) A g hay s e he pre anch earliest (.at []) s mat {}
  have h1' : r.2.fails + 0 ≤ 0 + 0 + r.2.transitions := h1
  have h2' : r.2.transitions ≤ 0 + (e - s) := h2
  exact ⟨by omega, by omega⟩

/-- the loop may also be entered at a prefilter candidate `j ≥ s` (as `findImp` does) -/
theorem C19_search_from (k : MatchKind) (P : List (List α)) (sk : StartKind) (hasPre : Bool)
    (g : α → α) (hay : List α) (s e : Nat) (he : e ≤ hay.length) (pre : Option (Prefilter α))
    (anch earliest : Bool) (j : Nat) (hj : s ≤ j) (mat : Option Mat) :
    let A := (ideal k P sk hasPre).comap g
    let r := findCost k (patSet k P) A g hay s e he pre anch earliest (.at []) j mat {}
    r.2.fails ≤ r.2.transitions ∧ r.2.transitions ≤ e - s := by
  intro A r
  have h1 := C19_fails_le' k P sk hasPre g hay s e he pre anch earliest (.at []) j mat {}
  have h2 := C19_transitions k (patSet k P) A g hay s e he pre anch earliest (.at []) j mat {}
  have h1' : r.2.fails + 0 ≤ 0 + 0 + r.2.transitions := h1
  have h2' : r.2.transitions ≤ 0 + (e - j) := h2
  exact ⟨by omega, by omega⟩

/-- an anchored search follows no failure link at all (this holds for any `A`, in particular
for the ideal automaton with or without case folding) -/
theorem C19_anchored (k : MatchKind) (Q : PatSet α) (A : Aut (St α) α) (g : α → α)
    (hay : List α) (s e : Nat) (he : e ≤ hay.length) (pre : Option (Prefilter α))
    (earliest : Bool) (sid : St α) (at_ : Nat) (mat : Option Mat) (cost : Cost) :
    (findCost k Q A g hay s e he pre true earliest sid at_ mat cost).2.fails = cost.fails :=
  findCost_fails_anchored k Q A g hay s e he pre earliest _ sid at_ mat cost (Nat.le_refl _)

/-- `C19_anchored` in the shape of `C19_fails_le` -/
theorem C19_anchored_ideal (k : MatchKind) (P : List (List α)) (sk : StartKind) (hasPre : Bool)
    (g : α → α) (hay : List α) (s e : Nat) (he : e ≤ hay.length) (pre : Option (Prefilter α))
    (earliest : Bool) (sid : St α) (at_ : Nat) (mat : Option Mat) (cost : Cost) :
    let A := (ideal k P sk hasPre).comap g
    let r := findCost k (patSet k P) A g hay s e he pre true earliest sid at_ mat cost
    r.2.fails = cost.fails :=
  C19_anchored k (patSet k P) _ g hay s e he pre earliest sid at_ mat cost

/-! ## without case folding: the plain ideal automaton (`g = id`) -/

theorem ideal_comap_id (k : MatchKind) (P : List (List α)) (sk : StartKind) (hasPre : Bool) :
    (ideal k P sk hasPre).comap id = ideal k P sk hasPre := rfl

theorem C19_fails_le_plain (k : MatchKind) (P : List (List α)) (sk : StartKind) (hasPre : Bool)
    (hay : List α) (s e : Nat) (he : e ≤ hay.length) (pre : Option (Prefilter α))
    (anch earliest : Bool) (sid : St α) (at_ : Nat) (mat : Option Mat) (cost : Cost) :
    let r := findCost k (patSet k P) (ideal k P sk hasPre) id hay s e he pre anch earliest
      sid at_ mat cost
    r.2.fails ≤ cost.fails + sid.depth + (r.2.transitions - cost.transitions) :=
  C19_fails_le k P sk hasPre id hay s e he pre anch earliest sid at_ mat cost

theorem C19_search_plain (k : MatchKind) (P : List (List α)) (sk : StartKind) (hasPre : Bool)
    (hay : List α) (s e : Nat) (he : e ≤ hay.length) (pre : Option (Prefilter α))
    (anch earliest : Bool) (mat : Option Mat) :
    let r := findCost k (patSet k P) (ideal k P sk hasPre) id hay s e he pre anch earliest
      (.at []) s mat {}
    r.2.fails ≤ r.2.transitions ∧ r.2.transitions ≤ e - s :=
  C19_search k P sk hasPre id hay s e he pre anch earliest mat

/-! ## the overlapping loop -/

/-- one call of the overlapping loop never moves the position backwards -/
theorem C19_overlap_monotone {σ : Type} (A : Aut σ α) (hay : List α) (s e : Nat)
    (he : e ≤ hay.length) (pre : Option (Prefilter α)) (anch : Bool) (sid : σ) (at_ : Nat) :
    at_ ≤ (ovlLoop A hay s e he pre anch sid at_).at_ :=
  ovlLoop_at_ge A hay s e he pre anch _ sid at_ (Nat.le_refl _)

/-- … and stays inside the span, provided the prefilter only reports positions inside the span
it was given (`PreInSpan`; trivially true without a prefilter).  Without that proviso the
statement is false, see the counterexample below. -/
theorem C19_overlap_in_span {σ : Type} (A : Aut σ α) (hay : List α) (s e : Nat)
    (he : e ≤ hay.length) (pre : Option (Prefilter α)) (hpre : PreInSpan pre) (anch : Bool)
    (sid : σ) (at_ : Nat) :
    (ovlLoop A hay s e he pre anch sid at_).at_ ≤ max at_ e :=
  ovlLoop_at_le A hay s e he pre hpre anch _ sid at_ (Nat.le_refl _)

theorem C19_overlap_in_span_nopre {σ : Type} (A : Aut σ α) (hay : List α) (s e : Nat)
    (he : e ≤ hay.length) (anch : Bool) (sid : σ) (at_ : Nat) :
    (ovlLoop A hay s e he Option.none anch sid at_).at_ ≤ max at_ e :=
  C19_overlap_in_span A hay s e he Option.none preInSpan_none anch sid at_

/-- the overlapping loop with counters (`CostP.ovlCost`, the analogue of `findCost`): the
counters are ghost state … -/
theorem C19_overlap_result (k : MatchKind) (Q : PatSet α) (A : Aut (St α) α) (g : α → α)
    (hay : List α) (s e : Nat) (he : e ≤ hay.length) (pre : Option (Prefilter α)) (anch : Bool)
    (sid : St α) (at_ : Nat) (cost : Cost) :
    (ovlCost k Q A g hay s e he pre anch sid at_ cost).1 = ovlLoop A hay s e he pre anch sid at_ :=
  ovlCost_fst k Q A g hay s e he pre anch _ sid at_ cost (Nat.le_refl _)

/-- … and one call obeys `OvlInv`: with `r` the result, `sid'` the state it stores,
`transitions ≤ transitions'`, `transitions' - transitions ≤ at' + 1 - at`, and
`fails' + depth sid' ≤ fails + depth sid + (transitions' - transitions)`; the potential
`depth sid'` is handed to the next call, which resumes from `sid'`. -/
theorem C19_overlap_cost (k : MatchKind) (P : List (List α)) (sk : StartKind) (hasPre : Bool)
    (g : α → α) (hay : List α) (s e : Nat) (he : e ≤ hay.length) (pre : Option (Prefilter α))
    (anch : Bool) (sid : St α) (at_ : Nat) (cost : Cost) :
    let A := (ideal k P sk hasPre).comap g
    let r := ovlCost k (patSet k P) A g hay s e he pre anch sid at_ cost
    cost.transitions ≤ r.2.transitions ∧
    r.2.transitions + at_ ≤ cost.transitions + r.1.at_ + 1 ∧
    r.2.fails + odepth r.1 + cost.transitions ≤ cost.fails + sid.depth + r.2.transitions :=
  ovlCost_bounds k (patSet k P) _ g (fun _ _ _ => rfl) hay s e he pre anch _ sid at_ cost
    (Nat.le_refl _)

/-- the per-call counters the driver reports (`CostP.tryOvlCost`, compared call by call with the
instrumented real code) are ghost state of exactly `try_find_overlapping_fwd` -/
theorem C19_overlap_call_result (k : MatchKind) (Q : PatSet α) (A : Aut (St α) α) (g : α → α)
    (pre : Option (Prefilter α)) (i : Input α) (st : OState (St α)) :
    (tryOvlCost k Q A g pre i st).map (·.1) = tryFindOverlappingFwd A pre i st :=
  tryOvlCost_fst k Q A g pre i st

/-! ## `hops` is coherent with `Ideal.next` -/

/-- `CostP.walk` follows the failure links (`lsp Q u.tail`, or the dead state for a blocked
leftmost node) from `u` until a node with a goto on `c`, the root or the dead state is reached.
The state it ends in is the model's `Ideal.next`, and the number of links followed is
`Ideal.hops`: the closed-form transition function and the hop counter describe the same walk. -/
theorem C19_hops_sound (k : MatchKind) (P : List (List α)) (u : List α) (c : α) :
    walk k (patSet k P) c u.length u =
      (Ideal.next k (patSet k P) false (.at u) c, Ideal.hops k (patSet k P) false (.at u) c) :=
  walk_eq k (patSet k P) u c

/-- any fuel `≥ |u|` gives the same hop count -/
theorem C19_hops_fuel (k : MatchKind) (Q : PatSet α) (c : α) (fuel : Nat) (u : List α)
    (h : u.length ≤ fuel) : hops k Q c fuel u = hops k Q c u.length u :=
  hops_fuel k Q c fuel u.length u h (Nat.le_refl _)

/-! ## non-vacuity and tightness -/

/-- the `a^k b` family: from node `aaa` a byte that is neither `a` nor `b` costs 3 hops … -/
example : hops .std (patSet .std [[1, 1, 1, 2]]) 3 3 [1, 1, 1] = 3 := by decide
example : Ideal.hops .std (patSet .std [[1, 1, 1, 2]]) false (.at [1, 1, 1]) 3 = 3 := by decide
/-- … and lands in the root, so `C19_step_potential` is tight here: `0 + 3 = 3 + 1 - 1` -/
example : Ideal.next .std (patSet .std [[1, 1, 1, 2]]) false (.at [1, 1, 1]) 3 = .at [] := by
  decide
/-- a byte `a` costs one hop and stays at depth 3: `3 + 1 = 3 + 1` (tight) -/
example : Ideal.hops .std (patSet .std [[1, 1, 1, 2]]) false (.at [1, 1, 1]) 1 = 1 ∧
    Ideal.next .std (patSet .std [[1, 1, 1, 2]]) false (.at [1, 1, 1]) 1 = .at [1, 1, 1] := by
  decide
/-- leftmost-first: the failure link of `aaa` is the dead state once `a` has matched -/
example : Ideal.hops .lf (patSet .lf [[1, 1, 1, 2], [1]]) false (.at [1, 1, 1]) 3 = 1 ∧
    Ideal.next .lf (patSet .lf [[1, 1, 1, 2], [1]]) false (.at [1, 1, 1]) 3 = .dead := by
  decide
/-- a whole search: 4 bytes, 4 transitions, 3 failure hops -/
example : findCost .std (patSet .std [[1, 1, 1, 2]]) (ideal .std [[1, 1, 1, 2]] .unanchored false)
    id [1, 1, 1, 3] 0 4 (by decide) Option.none false true (.at []) 0 Option.none {} =
    (Option.none, ⟨4, 3⟩) := by decide +kernel
/-- the depth term of `C19_fails_le` is needed: started at depth 3, one byte costs 3 hops -/
example : findCost .std (patSet .std [[1, 1, 1, 2]]) (ideal .std [[1, 1, 1, 2]] .unanchored false)
    id [3] 0 1 (by decide) Option.none false true (.at [1, 1, 1]) 0 Option.none {} =
    (Option.none, ⟨1, 3⟩) := by decide +kernel

/-- Counterexample to the unconditional `(ovlLoop …).at_ ≤ max at_ e`: a prefilter that
reports a candidate beyond the span end (here `5 > e = 1`) makes the loop store that position. -/
example : (ovlLoop (ideal .std [[1]] .unanchored true) [0, 0] 0 1 (by decide)
    (some fun _ _ _ => .pos 5) false (.at []) 0).at_ = 5 := by decide +kernel

end AcVerif
