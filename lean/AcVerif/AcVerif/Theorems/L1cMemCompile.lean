import AcVerif.Proofs.NfaMemCompileTop
import AcVerif.Theorems.L1cMemCompileDump
import AcVerif.Theorems.C20Build
import AcVerif.Theorems.C04
/-!
# L1c-mem, assembly – `Compiler::compile` over the linked-list memory refines `CNfa.compile`

`AcVerif/NfaMemCompile.lean` runs the phases of `Compiler::compile` (`src/nfa/noncontiguous.rs`)
on the storage model of `AcVerif/NfaMem.lean`: the preamble, `build_trie`,
`set_anchored_start_state`, `add_unanchored_start_state_loop`, `fill_failure_transitions` (walking
the transition lists with `next_link`, the queue, the `QueuedSet`, the leftmost special cases, the
failure chase) and `close_start_state_loop_for_leftmost`.  For **every** match kind `k`, both values
of `fold` (`ascii_case_insensitive`) and every pattern list `P`:

* `L1cMem_compile_some` – the `unreachable!()` of `set_anchored_start_state` is not reached;
* `L1cMem_compile` – the result satisfies the representation invariant `MemOK` and represents
  exactly `zeroFail012 (CNfa.compile k fold P)`: the abstract automaton with the failure links of
  `DEAD`, `FAIL` and the unanchored start set to the crate's value `0` (`CNfa.init` has `SU`
  there; the three states are allocated before `special.start_unanchored_id` is assigned).
  `L1cMem_compile_pointwise` says the same state by state on `iter_trans`, `iter_matches`, `fail`;
* `L1cMem_unobservable` – no search can see the three links: the automaton read off the memory and
  `CNfa.compile` are `StartEquiv` (equal flags and equal ORDERED match lists after every input, both
  anchoring modes; `NFA::next_state` returns the same state with the same number of failure hops,
  `L1cMem_next_state`), hence equal results of every engine (`L1cMem_find`, `L1cMem_iter`,
  `L1cMem_overlap`) and all of L1c / L1cFold applies to the memory;
* `L1cMem_sizes` – the three vectors have exactly the lengths `BuildChecked.lean` tests:
  `states.len() = (compile ..).size`, `sparse.len() = sparseLen (buildTrie ..)`
  (`= sparseLen (compile ..)`), `matches.len() = matchesLen (compile ..)`; `L1cMem_trie_sizes` the
  same after `build_trie` (for every `P`, so after every prefix of the pattern list – the points at
  which `trieStepChecked` tests), `L1cMem_trieStep` for one round of the `'PATTERNS` loop from an
  arbitrary related pair.  `L1cMem_build_ok_iff` restates the success condition of the checked
  build (`C20_build_nnc_ok_iff_min`) on the actual vectors;
* `AcVerif/Theorems/L1cMemCompileDump.lean` – `nfa.sparse`, `nfa.matches`, `nfa.states` printed by the
  crate (before `shuffle`) for seven configurations are, cell for cell, the vectors of
  `MemNfa.compile`.

Along the way three things that `Compiler.lean` takes for granted are proved for all inputs
(`AcVerif/Proofs/NfaMemCompile*.lean`, namespace `AcVerif.MemC`):
`addPatternK_none` (a pattern skipped under leftmost-first has not allocated anything – the crate
keeps the automaton as it is, `CNfa.buildTrie` falls back to the one before the pattern),
`fillStartU_inert` (the inert `QueuedSet` of the first loop of `fill_failure_transitions` is as good
as the real set `CNfa.fillStart` uses: without case folding the start state's targets are pairwise
different), `forTrans_eq` (walking a list cell by cell while the body writes `fail` and `matches`
sees the list as it was when the loop started), and `child_props`: `copy_matches(fail, next)` is
never called with `fail == next` – the case in which the crate's loop does not terminate
(`copy_self_diverges` in `Theorems/L1cMem.lean`) – because the failure target lies strictly higher
in the trie than `next`.
-/
namespace AcVerif
open AcVerif.MemC AcVerif.CNfa AcVerif.BuildP

/-- the `unreachable!()` of `set_anchored_start_state` (noncontiguous.rs:1582) is never reached -/
theorem L1cMem_compile_some (k : MatchKind) (fold : Bool) (P : List (List UInt8)) :
    MemNfa.compile? k fold P = some (MemNfa.compile k fold P) := by
  obtain ⟨mc, h, _⟩ := compile_rel k fold P
  unfold MemNfa.compile
  rw [h]; rfl

/-- the refinement relation holds for the compiled memory -/
theorem L1cMem_compile_Rel (k : MatchKind) (fold : Bool) (P : List (List UInt8)) :
    Rel (MemNfa.compile k fold P) (CNfa.compile k fold P) := by
  obtain ⟨mc, h, hr, _⟩ := compile_rel k fold P
  have : MemNfa.compile k fold P = mc := by unfold MemNfa.compile; rw [h]; rfl
  rw [this]; exact hr

/-- **`Compiler::compile` on the linked-list memory refines `CNfa.compile`**, exactly up to the
three failure links of `zeroFail012` -/
theorem L1cMem_compile (k : MatchKind) (fold : Bool) (P : List (List UInt8)) :
    MemOK (MemNfa.compile k fold P) ∧
    absNfa (MemNfa.compile k fold P) = zeroFail012 (CNfa.compile k fold P) :=
  ⟨(L1cMem_compile_Rel k fold P).ok, abs_eq_of_rel (L1cMem_compile_Rel k fold P)⟩

/-- the same, state by state, on what the crate's accessors return: `iter_trans(s)` and
`iter_matches(s)` yield the abstract lists, `states[s].fail` is the abstract failure link for
`s ≥ 3` and `0` for `DEAD`, `FAIL` and the unanchored start -/
theorem L1cMem_compile_pointwise (k : MatchKind) (fold : Bool) (P : List (List UInt8)) :
    (MemNfa.compile k fold P).states.size = (CNfa.compile k fold P).size ∧
    ∀ s, (MemNfa.compile k fold P).iterTrans s = ((CNfa.compile k fold P).getD s {}).trans ∧
      (s < (CNfa.compile k fold P).size →
        (MemNfa.compile k fold P).iterMatches s = ((CNfa.compile k fold P).getD s {}).matches_) ∧
      (3 ≤ s → s < (CNfa.compile k fold P).size →
        ((MemNfa.compile k fold P).st s).fail = ((CNfa.compile k fold P).getD s {}).fail) ∧
      (s < 3 → ((MemNfa.compile k fold P).st s).fail = 0) := by
  have h := L1cMem_compile_Rel k fold P
  refine ⟨h.size, fun s => ⟨h.iterTrans s, ?_, fun h3 hs => h.fail h3 hs, h.low s⟩⟩
  intro hs
  rw [← (h.eq.2 s).2.1, getD_absNfa_lt _ (h.size ▸ hs)]
  rfl

/-! ## no search sees the difference -/

/-- `NFA::next_state` on the memory's automaton and on `CNfa.compile`: same state, same number of
failure links followed, from every state except `FAIL` – and `FAIL` is never returned -/
theorem L1cMem_next_state (k : MatchKind) (fold : Bool) (P : List (List UInt8)) (anch : Bool)
    (fuel sid : Nat) (b : UInt8) (hops : Nat) (hs : sid ≠ CNfa.FAIL) :
    nextState (absNfa (MemNfa.compile k fold P)) anch fuel sid b hops =
      nextState (CNfa.compile k fold P) anch fuel sid b hops ∧
    (nextState (CNfa.compile k fold P) anch fuel sid b hops).1 ≠ CNfa.FAIL := by
  obtain ⟨_, _, _, hF, _⟩ := compile_rel k fold P
  exact nextState_failEq (L1cMem_compile_Rel k fold P).eq hF anch b fuel sid hops hs

/-- **the automaton stored in the memory and `CNfa.compile` are observationally equivalent**:
equal flags and equal ordered match lists after every input, from both start states -/
theorem L1cMem_unobservable (k : MatchKind) (fold : Bool) (P : List (List UInt8))
    (hasPre first anch : Bool) :
    StartEquiv ((absNfa (MemNfa.compile k fold P)).toAut k P hasPre)
      ((CNfa.compile k fold P).toAut k P hasPre) first anch := by
  obtain ⟨_, _, _, hF, _⟩ := compile_rel k fold P
  exact startEquiv_failEq (L1cMem_compile_Rel k fold P).eq hF k P hasPre first anch

/-- … also with the input bytes folded first (the automaton `L1cFold` is about) -/
theorem L1cMem_run (k : MatchKind) (fold : Bool) (P : List (List UInt8)) (hasPre anch : Bool)
    (w : List UInt8) :
    ((absNfa (MemNfa.compile k fold P)).toAut k P hasPre).runFrom anch
        (if anch then CNfa.SA else CNfa.SU) w =
      ((CNfa.compile k fold P).toAut k P hasPre).runFrom anch
        (if anch then CNfa.SA else CNfa.SU) w := by
  obtain ⟨_, _, _, hF, _⟩ := compile_rel k fold P
  exact run_failEq (L1cMem_compile_Rel k fold P).eq hF k P hasPre anch w _
    (by cases anch <;> decide)

theorem L1cMem_find (k : MatchKind) (fold : Bool) (P : List (List UInt8)) (hasPre : Bool)
    (pre : Option (Prefilter UInt8)) (i : Input UInt8) :
    tryFindFwd ((absNfa (MemNfa.compile k fold P)).toAut k P hasPre) pre i =
      tryFindFwd ((CNfa.compile k fold P).toAut k P hasPre) pre i :=
  C04_find_transfer _ _ pre i rfl (fun _ => rfl) (L1cMem_unobservable k fold P hasPre true i.anch)

theorem L1cMem_iter (k : MatchKind) (fold : Bool) (P : List (List UInt8)) (hasPre : Bool)
    (pre : Option (Prefilter UInt8)) (i : Input UInt8) :
    findIter ((absNfa (MemNfa.compile k fold P)).toAut k P hasPre) pre i =
      findIter ((CNfa.compile k fold P).toAut k P hasPre) pre i :=
  C04_iter_transfer _ _ pre i rfl (fun _ => rfl) (L1cMem_unobservable k fold P hasPre true i.anch)

theorem L1cMem_overlap (k : MatchKind) (fold : Bool) (P : List (List UInt8)) (hasPre : Bool)
    (pre : Option (Prefilter UInt8)) (i : Input UInt8) (n : Nat) :
    ovlCalls ((absNfa (MemNfa.compile k fold P)).toAut k P hasPre) pre i n OState.start =
      ovlCalls ((CNfa.compile k fold P).toAut k P hasPre) pre i n OState.start :=
  C04_overlap_transfer ((absNfa (MemNfa.compile k fold P)).toAut k P hasPre)
    ((CNfa.compile k fold P).toAut k P hasPre) pre i rfl (fun _ => rfl)
    (L1cMem_unobservable k fold P hasPre false i.anch) n

/-! ## the lengths of the vectors -/

/-- a related pair has the lengths `BuildChecked.lean` computes -/
theorem Rel_sizes {m : MemNfa} {n : CNfa} (h : Rel m n) :
    m.states.size = n.size ∧ m.sparse.size = sparseLen n ∧ m.matches_.size = matchesLen n :=
  ⟨h.size, by rw [h.tight.1, h.eq.sparseLen], by rw [h.tight.2, h.eq.matchesLen]⟩

/-- after `build_trie` (for every pattern list, hence after every prefix of one: these are the
lengths `trieStepChecked` compares with the limits) -/
theorem L1cMem_trie_sizes (k : MatchKind) (fold : Bool) (P : List (List UInt8)) :
    MemOK (MemNfa.init.buildTrie k fold 2 P) ∧
    (MemNfa.init.buildTrie k fold 2 P).states.size = (buildTrie k fold P).size ∧
    (MemNfa.init.buildTrie k fold 2 P).sparse.size = sparseLen (buildTrie k fold P) ∧
    (MemNfa.init.buildTrie k fold 2 P).matches_.size = matchesLen (buildTrie k fold P) :=
  ⟨(sim_buildTrie k fold P).ok, Rel_sizes (sim_buildTrie k fold P)⟩

/-- one round of the `'PATTERNS` loop, from any memory that refines an automaton with the trie
shape (`TI`): the memory after the round refines `trieStep` and has its lengths -/
theorem L1cMem_trieStep (k : MatchKind) (fold : Bool) {m : MemNfa} {n : CNfa} {d : Nat → Nat}
    (h : Rel m n) (hT : TI fold n d) (x : List UInt8 × Nat) :
    Rel (memTrieStep k fold m x) (trieStep k fold n x) ∧
    (memTrieStep k fold m x).states.size = (trieStep k fold n x).size ∧
    (memTrieStep k fold m x).sparse.size = sparseLen (trieStep k fold n x) ∧
    (memTrieStep k fold m x).matches_.size = matchesLen (trieStep k fold n x) :=
  ⟨sim_trieStep k fold h hT x, Rel_sizes (sim_trieStep k fold h hT x)⟩

/-- **the final vectors**: `nfa.sparse` has the length reached in `build_trie` (no later phase
allocates a transition), `nfa.matches` the final `matchesLen` -/
theorem L1cMem_sizes (k : MatchKind) (fold : Bool) (P : List (List UInt8)) :
    (MemNfa.compile k fold P).states.size = (CNfa.compile k fold P).size ∧
    (MemNfa.compile k fold P).sparse.size = sparseLen (buildTrie k fold P) ∧
    (MemNfa.compile k fold P).sparse.size = sparseLen (CNfa.compile k fold P) ∧
    (MemNfa.compile k fold P).matches_.size = matchesLen (CNfa.compile k fold P) := by
  obtain ⟨mc, h, hr, _, hsp⟩ := compile_rel k fold P
  have : MemNfa.compile k fold P = mc := by unfold MemNfa.compile; rw [h]; rfl
  rw [this]
  obtain ⟨s1, s2, s3⟩ := Rel_sizes hr
  exact ⟨s1, by rw [hsp]; exact (L1cMem_trie_sizes k fold P).2.2.1, s2, s3⟩

/-- a by-product: the abstract compiler does not change the number of stored transitions after
`build_trie` -/
theorem sparseLen_compile (k : MatchKind) (fold : Bool) (P : List (List UInt8)) :
    sparseLen (CNfa.compile k fold P) = sparseLen (buildTrie k fold P) := by
  obtain ⟨_, h2, h3, _⟩ := L1cMem_sizes k fold P
  rw [← h3, h2]

/-- **the limit checks of the checked build are checks on the actual vectors**: the noncontiguous
build succeeds iff the pattern-id and pattern-length tests pass, `nfa.sparse` and `nfa.matches` of the
memory model end within the `StateID` limit, and `densify` can allocate its rows -/
theorem L1cMem_build_ok_iff (L : Limits) (k : MatchKind) (fold : Bool) (dd : Nat)
    (P : List (List UInt8)) (n : CNfa) :
    compileChecked L k fold dd P = .ok n ↔
      n = CNfa.compile k fold P ∧
      P.length ≤ L.patternIdLimit ∧ (∀ p ∈ P, p.length ≤ L.smallIndexMax) ∧
      (MemNfa.compile k fold P).sparse.size ≤ L.stateIdLimit ∧
      (MemNfa.compile k fold P).matches_.size ≤ L.stateIdLimit ∧
      denseAllocOk L (CNfa.compile k fold P) dd = true := by
  obtain ⟨_, h2, _, h4⟩ := L1cMem_sizes k fold P
  rw [C20_build_nnc_ok_iff_min, h2, h4]

/-! ## examples (kernel) -/

section Examples

/-- the crate's value of the three links is really different from `CNfa.init`'s … -/
example : ((zeroFail012 (CNfa.compile .std false [[1, 2], [2]])).toList.map (·.fail)) =
    [0, 0, 0, 0, 2, 6, 2] ∧
    ((CNfa.compile .std false [[1, 2], [2]]).toList.map (·.fail)) = [2, 2, 2, 0, 2, 6, 2] := by
  decide +kernel

/-- … and the theorems turn kernel evaluations of the abstract compiler into facts about the
memory (whose own kernel evaluation takes minutes because of the 768 allocations of the preamble):
for `12`, `2` the node of `12` (state 5) lists pattern 0, then – inherited through its failure link
to state 6 – pattern 1; `nfa.sparse` has `1 + 3·256 + 1` entries (only `1 → 12` allocates; the two start transitions overwrite) and `nfa.matches` `1 + 3` -/
example :
    (MemNfa.compile .std false [[1, 2], [2]]).iterMatches 5 = [0, 1] ∧
    ((MemNfa.compile .std false [[1, 2], [2]]).st 5).fail = 6 ∧
    (MemNfa.compile .std false [[1, 2], [2]]).iterTrans 4 = [(2, 5)] ∧
    (MemNfa.compile .std false [[1, 2], [2]]).states.size = 7 ∧
    (MemNfa.compile .std false [[1, 2], [2]]).sparse.size = 770 ∧
    (MemNfa.compile .std false [[1, 2], [2]]).matches_.size = 4 := by
  obtain ⟨hsz, hp⟩ := L1cMem_compile_pointwise .std false [[1, 2], [2]]
  obtain ⟨s1, s2, _, s4⟩ := L1cMem_sizes .std false [[1, 2], [2]]
  have e : (CNfa.compile .std false [[1, 2], [2]]).size = 7 := by decide +kernel
  rw [(hp 5).2.1 (by rw [e]; decide), (hp 5).2.2.1 (by decide) (by rw [e]; decide), (hp 4).1, s1, s2,
    s4]
  decide +kernel

end Examples

end AcVerif
