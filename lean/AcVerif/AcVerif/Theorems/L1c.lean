import AcVerif.Proofs.CompilerRun
import AcVerif.Theorems.C01
import AcVerif.Theorems.C02
import AcVerif.Theorems.C03
import AcVerif.Theorems.C04
/-!
# L1c – the transcribed noncontiguous-NFA compiler agrees with the ideal automaton

`CNfa.compile k false P` (trie construction with the leftmost-first skipping rule, the two start
states, the breadth-first failure/match-list phase with its queue, the leftmost `DEAD` links and
`close_start_state_loop_for_leftmost`) followed by `CNfa.nextState` (failure-link chasing) is, for
**every** pattern list `P`, match kind `k` and both anchoring modes, observationally equivalent to
the closed-form ideal automaton `ideal k P .both hasPre` (L1): equal flags and equal *ordered*
match lists after every byte string (`L1c_obsEquiv`, `L1c_startEquiv`), and `next_state` follows
exactly `Ideal.hops` failure links at every reachable state (`L1c_hops`).  Hence every engine
result transfers (`L1c_find`, `L1c_overlap`, `L1c_overlap_iter`, `L1c_iter`) and the compiled
automaton inherits the correctness theorems C01–C03 (`L1c_find_std`, `L1c_find_ll`,
`L1c_find_lf`, `L1c_overlap_calls`).

Structure of the proof (`AcVerif/Proofs/Compiler*.lean`, namespace `AcVerif.L1cP`):
`buildTrie_spec` (trie phase invariant `TI`), `PB_startPhase`, `fillFailure_spec` (data invariant
`FI`, queue invariants `QI`/`QI'`/`SI`), `compile_spec` (final specification `FS`), `run_step`
(one `next_state` call = the model's failure walk), `Rel_step`/`Rel_mats` (simulation relation).
-/
namespace AcVerif
open AcVerif.L1cP AcVerif.CNfa

set_option maxRecDepth 100000 in
/-- the simulation: related states stay related along every input and make equal observations -/
theorem L1c_sim (k : MatchKind) (P : List (List UInt8)) (hasPre : Bool) (anch : Bool)
    {L : List (List UInt8)} (hFS : FS k (patSet k P) L (CNfa.compile k false P)) :
    ∀ (w : List UInt8) (sid : Nat) (q : St UInt8), Rel L anch sid q →
      Rel L anch (((CNfa.compile k false P).toAut k P hasPre).runFrom anch sid w)
        ((ideal k P .both hasPre).runFrom anch q w)
  | [], _, _, hr => hr
  | c :: w, _, _, hr => L1c_sim k P hasPre anch hFS w _ _ (Rel_step hFS anch hr c)

theorem L1c_obs_of_rel (k : MatchKind) (P : List (List UInt8)) (hasPre : Bool) (anch : Bool)
    {L : List (List UInt8)} (hFS : FS k (patSet k P) L (CNfa.compile k false P))
    {sid : Nat} {q : St UInt8} (hr : Rel L anch sid q) :
    ((CNfa.compile k false P).toAut k P hasPre).obs false sid =
      (ideal k P .both hasPre).obs false q := by
  have hm := Rel_mats hFS hr
  have hd := Rel_dead_iff hr
  have hs := Rel_start_iff hr
  have hq0 : q = .dead → Ideal.out k (patSet k P) q = [] := by
    intro e; subst e; cases k <;> rfl
  have hmatch : ((sid != CNfa.DEAD) && !(Ideal.out k (patSet k P) q).isEmpty) =
      !(Ideal.out k (patSet k P) q).isEmpty := by
    have hne : (sid != CNfa.DEAD) = !(q == St.dead) := by
      show (!(sid == CNfa.DEAD)) = _
      rw [hd]
    rw [hne]
    cases hq : (q == St.dead)
    · simp
    · have : q = .dead := by simpa using hq
      rw [hq0 this]; simp
  show Obs.mk _ _ _ _ = Obs.mk _ _ _ _
  simp only [CNfa.toAut, ideal, CNfa.isMatch, Bool.false_eq_true, if_false]
  rw [hm, hmatch, hd, hs]

/-- the compiled NFA and the ideal automaton are observationally equivalent from their start
states: equal flags and equal ORDERED match lists after every byte string, for both anchoring
modes -/
theorem L1c_obsEquiv (k : MatchKind) (P : List (List UInt8)) (hasPre : Bool) (anch : Bool) :
    ObsEquiv ((CNfa.compile k false P).toAut k P hasPre) (ideal k P .both hasPre) false anch
      (if anch then CNfa.SA else CNfa.SU) (.at []) := by
  obtain ⟨L, hFS⟩ := compile_spec k P
  intro w
  have h0 : Rel L anch (if anch then CNfa.SA else CNfa.SU) (.at []) := by
    simp only [Rel, if_true]
  exact L1c_obs_of_rel k P hasPre anch hFS (L1c_sim k P hasPre anch hFS w _ _ h0)

/-- hence `StartEquiv`, so every engine result transfers (`C04_*_transfer` apply) -/
theorem L1c_startEquiv (k : MatchKind) (P : List (List UInt8)) (hasPre : Bool) (anch : Bool) :
    StartEquiv ((CNfa.compile k false P).toAut k P hasPre) (ideal k P .both hasPre) false anch := by
  have h := L1c_obsEquiv k P hasPre anch
  unfold StartEquiv
  have hA : ((CNfa.compile k false P).toAut k P hasPre).start anch =
      some (if anch then CNfa.SA else CNfa.SU) := rfl
  have hB : (ideal k P .both hasPre).start anch = some (.at []) := by cases anch <;> rfl
  rw [hA, hB]
  exact h

/-- the number of failure links followed by `next_state` equals the ideal chain length, at every
reachable state -/
theorem L1c_hops (k : MatchKind) (P : List (List UInt8)) (hasPre : Bool) (w : List UInt8)
    (c : UInt8) :
    (CNfa.nextState (CNfa.compile k false P) false ((CNfa.compile k false P).size + 1)
        (((CNfa.compile k false P).toAut k P hasPre).runFrom false CNfa.SU w) c 0).2 =
      Ideal.hops k (patSet k P) false ((ideal k P .both hasPre).runFrom false (.at []) w) c := by
  obtain ⟨L, hFS⟩ := compile_spec k P
  have h0 : Rel L false CNfa.SU (.at []) := by simp [Rel]
  have hr := L1c_sim k P hasPre false hFS w _ _ h0
  rw [step_unanch hFS hr c]

/-- … and the state it returns is the model's next state (the other half of `C19_hops_sound`) -/
theorem L1c_next (k : MatchKind) (P : List (List UInt8)) (hasPre : Bool) (w : List UInt8)
    (c : UInt8) : ∃ L, FS k (patSet k P) L (CNfa.compile k false P) ∧
      (CNfa.nextState (CNfa.compile k false P) false ((CNfa.compile k false P).size + 1)
        (((CNfa.compile k false P).toAut k P hasPre).runFrom false CNfa.SU w) c 0).1 =
      sidOf L (Ideal.next k (patSet k P) false
        ((ideal k P .both hasPre).runFrom false (.at []) w) c) := by
  obtain ⟨L, hFS⟩ := compile_spec k P
  have h0 : Rel L false CNfa.SU (.at []) := by simp [Rel]
  have hr := L1c_sim k P hasPre false hFS w _ _ h0
  exact ⟨L, hFS, by rw [step_unanch hFS hr c]⟩

/-! ## corollaries: every search result transfers -/

theorem L1c_find (k : MatchKind) (P : List (List UInt8)) (hasPre : Bool)
    (pre : Option (Prefilter UInt8)) (i : Input UInt8) :
    tryFindFwd ((CNfa.compile k false P).toAut k P hasPre) pre i =
      tryFindFwd (ideal k P .both hasPre) pre i :=
  C04_find_transfer _ _ pre i rfl (fun _ => rfl)
    (C04_StartEquiv_false_true _ _ _ (L1c_startEquiv k P hasPre i.anch))

theorem L1c_iter (k : MatchKind) (P : List (List UInt8)) (hasPre : Bool)
    (pre : Option (Prefilter UInt8)) (i : Input UInt8) :
    findIter ((CNfa.compile k false P).toAut k P hasPre) pre i =
      findIter (ideal k P .both hasPre) pre i :=
  C04_iter_transfer _ _ pre i rfl (fun _ => rfl)
    (C04_StartEquiv_false_true _ _ _ (L1c_startEquiv k P hasPre i.anch))

theorem L1c_overlap (k : MatchKind) (P : List (List UInt8)) (hasPre : Bool)
    (pre : Option (Prefilter UInt8)) (i : Input UInt8) (n : Nat) :
    ovlCalls ((CNfa.compile k false P).toAut k P hasPre) pre i n OState.start =
      ovlCalls (ideal k P .both hasPre) pre i n OState.start :=
  C04_overlap_transfer ((CNfa.compile k false P).toAut k P hasPre) (ideal k P .both hasPre) pre i rfl
    (fun _ => rfl) (L1c_startEquiv k P hasPre i.anch) n

theorem L1c_overlap_iter (k : MatchKind) (P : List (List UInt8)) (hasPre : Bool)
    (pre : Option (Prefilter UInt8)) (i : Input UInt8) (fuel : Nat) :
    ovlIterAux ((CNfa.compile k false P).toAut k P hasPre) pre i fuel OState.start =
      ovlIterAux (ideal k P .both hasPre) pre i fuel OState.start :=
  C04_overlap_iter_transfer ((CNfa.compile k false P).toAut k P hasPre) (ideal k P .both hasPre) pre i
    rfl (fun _ => rfl) (L1c_startEquiv k P hasPre i.anch) fuel

/-! ## … and the compiled automaton meets the specification -/

/-- standard semantics (C02): the search on the compiled NFA returns the specified match -/
theorem L1c_find_std (P : List (List UInt8)) (i : Input UInt8) :
    ∃ r, tryFindFwd ((CNfa.compile .std false P).toAut .std P false) none i = .ok r ∧
      IsFind .std P i.hay i.s i.e i.anch r := by
  rw [L1c_find]
  exact C02_find P .both i (Or.inl rfl)

/-- leftmost-longest (C01) -/
theorem L1c_find_ll (P : List (List UInt8)) (i : Input UInt8) (ha : i.anch = false)
    (he : i.earliest = false) :
    ∃ r, tryFindFwd ((CNfa.compile .ll false P).toAut .ll P false) none i = .ok r ∧
      IsFind .ll P i.hay i.s i.e false r := by
  rw [L1c_find]
  exact C01_find_ll P .both i ha he (Or.inl rfl)

/-- leftmost-first (C01) -/
theorem L1c_find_lf (P : List (List UInt8)) (i : Input UInt8) (ha : i.anch = false)
    (he : i.earliest = false) :
    ∃ r, tryFindFwd ((CNfa.compile .lf false P).toAut .lf P false) none i = .ok r ∧
      IsFind .lf P i.hay i.s i.e false r := by
  rw [L1c_find]
  exact C01_find_lf P .both i ha he (Or.inl rfl)

/-- overlapping search (C03) -/
theorem L1c_overlap_calls (P : List (List UInt8)) (i : Input UInt8) :
    ∃ l, IsOverlapList P i.hay i.s i.e i.anch l ∧
      ∀ n, ovlCalls ((CNfa.compile .std false P).toAut .std P false) none i n OState.start =
        (l.take n).map (fun m => Except.ok (some m)) ++
          List.replicate (n - l.length) (Except.ok none) := by
  obtain ⟨l, h1, h2⟩ := C03_calls P .both i (Or.inl rfl)
  exact ⟨l, h1, fun n => by rw [L1c_overlap]; exact h2 n⟩

/-! ## non-vacuity: `he`, `she`-like nesting (`[1,2]`, `[2]`) -/

set_option maxRecDepth 100000

/-- states: 4 = `1`, 5 = `12`, 6 = `2`; failure links 4 → start, 5 → 6, 6 → start -/
example : ((CNfa.compile .std false [[1, 2], [2]]).toList.map (·.fail)) = [2, 2, 2, 0, 2, 6, 2] := by
  decide

/-- match lists: `12` reports pattern 0 then (via its failure link) pattern 1 -/
example : ((CNfa.compile .std false [[1, 2], [2]]).toList.map (·.matches_)) =
    [[], [], [], [], [], [0, 1], [1]] := by decide

/-- leftmost-first: `[1]` shadows `[1, 2]` (skipped), and the node of a match gets a `DEAD` link -/
example : ((CNfa.compile .lf false [[1], [1, 2], [2, 1]]).toList.map fun s => (s.fail, s.matches_)) =
    [(2, []), (2, []), (2, []), (0, []), (0, [0]), (2, []), (0, [2])] := by decide

/-- run time: after `1 2` the automaton is in state 5; on byte `1` it follows two failure links
(5 → 6 → start) and takes the start state's transition to state 4 -/
example :
    ((CNfa.compile .std false [[1, 2], [2]]).toAut .std [[1, 2], [2]] false).runFrom false
        CNfa.SU [1, 2] = 5 ∧
      CNfa.nextState (CNfa.compile .std false [[1, 2], [2]]) false 8 5 1 0 = (4, 2) := by decide

end AcVerif
