import AcVerif.Cost
import AcVerif.Fold
import AcVerif.CostOverlap
import AcVerif.CostOverlapIter
import AcVerif.Engine.Overlap
import AcVerif.Proofs.CostBounds
import AcVerif.Proofs.CostOverlapFacts
import AcVerif.Proofs.CostTotal
/-!
# C19 – bounded work per haystack byte, over a whole sequence of overlapping calls

`ovlCallsCost … n OState.start` are the per-call counters of `n` successive calls of
`try_find_overlapping_fwd` on one `OverlappingState` (what the instrumented real code reports,
call by call).  Over the whole sequence

* every byte of the span is fed to the automaton at most once, plus at most ONE redundant
  transition per call after the first: `T ≤ (e - s) + (n - 1)`;
* the total number of failure-link traversals never exceeds the total number of transitions:
  `F ≤ T`.

The redundant transition is real (examples at the end, where the bound is attained for every
`n ≥ 1`): a call that stops inside the span without a match – the dead state, or the prefilter
reporting no further candidate – leaves `at` on the byte it has just fed, and the next call feeds
that byte again.  The overlapping ITERATOR never calls again after a call that reports nothing,
so for it the slack disappears: `T ≤ e - s` (`C19_overlap_iter_total`).

Neither statement needs an assumption on the prefilter (not even `PreInSpan`): a candidate beyond
the end of the span merely ends the loop, it does not feed a byte.
-/
namespace AcVerif
open AcVerif.CostP
variable {α : Type} [DecidableEq α]

/-- `totalTransitions` / `totalFails` are the sums over the successful calls -/
example (cs : List (Except MatchErr Cost)) :
    totalTransitions cs =
      (cs.filterMap (fun r => match r with
        | .ok c => some c.transitions
        | .error _ => Option.none)).sum := rfl
example (cs : List (Except MatchErr Cost)) :
    totalFails cs =
      (cs.filterMap (fun r => match r with
        | .ok c => some c.fails
        | .error _ => Option.none)).sum := rfl

/-- One successful call, from ANY overlapping state `st` to `st'` with counters `c`
(`CostP.CallInv`): with `fed` the number of leading span positions already fed (as an absolute
position: `s` before the first loop, `at + 1` when a loop stopped inside the span, `e` at the end)
and `slack st = 1` iff the call re-enters the loop AT `st.at_` (a state is stored and no match list
is being drained),
`c.transitions + fed st ≤ fed st' + slack st`, `c.fails + depth st' ≤ depth st + c.transitions`,
and a reported match always comes with a match index (so the next call has no slack).
This covers the `isDone` branch (the call costs nothing and keeps the state); the error branches
(unsupported match kind, unsupported anchoring) return no counters at all. -/
theorem C19_overlap_call_bound (k : MatchKind) (P : List (List α)) (sk : StartKind)
    (hasPre : Bool) (g : α → α) (pre : Option (Prefilter α)) (i : Input α)
    (st st' : OState (St α)) (c : Cost)
    (h : tryOvlCost k (patSet k P) ((ideal k P sk hasPre).comap g) g pre i st = .ok (st', c)) :
    c.transitions + fed i.s i.e st ≤ fed i.s i.e st' + slack st ∧
    c.fails + odepth st' ≤ odepth st + c.transitions ∧
    (st'.mat.isSome = true → st'.nextIdx.isSome = true) :=
  tryOvlCost_call k P sk hasPre g pre i st st' c h

/-- `n` successive calls from ANY overlapping state -/
theorem C19_overlap_calls_total_from (k : MatchKind) (P : List (List α)) (sk : StartKind)
    (hasPre : Bool) (g : α → α) (pre : Option (Prefilter α)) (i : Input α) (n : Nat)
    (st : OState (St α)) :
    let A := (ideal k P sk hasPre).comap g
    let cs := ovlCallsCost k (patSet k P) A g pre i n st
    totalTransitions cs + fed i.s i.e st ≤ max i.e i.s + (n - 1) + slack st ∧
    totalFails cs ≤ odepth st + totalTransitions cs :=
  ovlCallsCost_total k P sk hasPre g pre i n st

/-- **C19 for a whole call sequence.**  `n` successive calls of `try_find_overlapping_fwd` on a
fresh `OverlappingState`: at most one transition per byte of the span plus one redundant
transition per call after the first, and no more failure-link traversals than transitions.
Holds for every prefilter (or none), every match kind / start kind / anchoring mode (the calls
that return an error contribute nothing), with or without case folding (`g`). -/
theorem C19_overlap_calls_total (k : MatchKind) (P : List (List α)) (sk : StartKind)
    (hasPre : Bool) (g : α → α) (pre : Option (Prefilter α)) (i : Input α) (n : Nat) :
    let A := (ideal k P sk hasPre).comap g
    let cs := ovlCallsCost k (patSet k P) A g pre i n OState.start
    totalTransitions cs ≤ (i.e - i.s) + (n - 1) ∧ totalFails cs ≤ totalTransitions cs := by
  intro A cs
  obtain ⟨h1, h2⟩ := ovlCallsCost_total k P sk hasPre g pre i n OState.start
  have h1' : totalTransitions cs + i.s ≤ max i.e i.s + (n - 1) + 0 := h1
  have h2' : totalFails cs ≤ 0 + totalTransitions cs := h2
  exact ⟨by omega, by omega⟩

/-- the statement as asked for, with the (vacuous) proviso on the prefilter -/
theorem C19_overlap_calls_total_inspan (k : MatchKind) (P : List (List α)) (sk : StartKind)
    (hasPre : Bool) (g : α → α) (pre : Option (Prefilter α)) (_hpre : PreInSpan pre)
    (i : Input α) (n : Nat) :
    let A := (ideal k P sk hasPre).comap g
    let cs := ovlCallsCost k (patSet k P) A g pre i n OState.start
    totalTransitions cs ≤ (i.e - i.s) + (n - 1) ∧ totalFails cs ≤ totalTransitions cs :=
  C19_overlap_calls_total k P sk hasPre g pre i n

/-- without case folding -/
theorem C19_overlap_calls_total_plain (k : MatchKind) (P : List (List α)) (sk : StartKind)
    (hasPre : Bool) (pre : Option (Prefilter α)) (i : Input α) (n : Nat) :
    let cs := ovlCallsCost k (patSet k P) (ideal k P sk hasPre) id pre i n OState.start
    totalTransitions cs ≤ (i.e - i.s) + (n - 1) ∧ totalFails cs ≤ totalTransitions cs :=
  C19_overlap_calls_total k P sk hasPre id pre i n

/-! ## the overlapping iterator -/

/-- the counters are ghost state: the matches `ovlIterCost` reports are those of `ovlIterAux` -/
theorem C19_overlap_iter_result (k : MatchKind) (Q : PatSet α) (A : Aut (St α) α) (g : α → α)
    (pre : Option (Prefilter α)) (i : Input α) (n : Nat) (st : OState (St α)) :
    (ovlIterCost k Q A g pre i n st).filterMap (·.1) = ovlIterAux A pre i n st :=
  ovlIterCost_fst k Q A g pre i n st

/-- **C19 for the overlapping iterator** (call until a call reports nothing): over all the calls
it makes, the last (fruitless) one included, at most one transition per byte of the span – no
slack – and no more failure-link traversals than transitions. -/
theorem C19_overlap_iter_total (k : MatchKind) (P : List (List α)) (sk : StartKind)
    (hasPre : Bool) (g : α → α) (pre : Option (Prefilter α)) (i : Input α) (n : Nat) :
    let A := (ideal k P sk hasPre).comap g
    let cs := ovlIterCost k (patSet k P) A g pre i n OState.start
    iterTransitions cs ≤ i.e - i.s ∧ iterFails cs ≤ iterTransitions cs := by
  intro A cs
  obtain ⟨h1, h2⟩ := ovlIterCost_total k P sk hasPre g pre i n OState.start rfl
  have h1' : iterTransitions cs + i.s ≤ max i.e i.s := h1
  have h2' : iterFails cs ≤ 0 + iterTransitions cs := h2
  exact ⟨by omega, by omega⟩

/-- `iterTransitions` / `iterFails` are the plain sums -/
example (cs : List (Option Mat × Cost)) :
    iterTransitions cs = (cs.map (·.2.transitions)).sum ∧
    iterFails cs = (cs.map (·.2.fails)).sum := ⟨rfl, rfl⟩

/-! ## the `+ (n - 1)` cannot be dropped, and the bound is attained -/

/-- the per-call transition counters (`none` for a call that returned an error) -/
def callTransitions (cs : List (Except MatchErr Cost)) : List (Option Nat) :=
  cs.map (fun r => match r with
    | .ok c => some c.transitions
    | .error _ => Option.none)

/-- Anchored search, pattern `ab`, haystack `ac`: the first call feeds `a`, `c` and ends in the
dead state at `at = 1`; every further call feeds `c` again (dead → dead).  Five calls: 2 + 4
transitions `= (e - s) + (n - 1)` with `e - s = 2`, `n = 5`. -/
example :
    callTransitions (ovlCallsCost .std (patSet .std [[1, 2]]) (ideal .std [[1, 2]] .both false) id
      Option.none { hay := [1, 3], s := 0, e := 2, anch := true, valid := by decide }
      5 OState.start) = [some 2, some 1, some 1, some 1, some 1] := by decide +kernel

example :
    totalTransitions (ovlCallsCost .std (patSet .std [[1, 2]]) (ideal .std [[1, 2]] .both false) id
      Option.none { hay := [1, 3], s := 0, e := 2, anch := true, valid := by decide }
      5 OState.start) = (2 - 0) + (5 - 1) := by decide +kernel

/-- the same inside a longer haystack (`ac..`, span `[0, 4)`): the dead state is entered at
`at = 1` and every later call costs one transition although no new byte is ever fed -/
example :
    callTransitions (ovlCallsCost .std (patSet .std [[1, 2]]) (ideal .std [[1, 2]] .both false) id
      Option.none { hay := [1, 3, 0, 0], s := 0, e := 4, anch := true, valid := by decide }
      5 OState.start) = [some 2, some 1, some 1, some 1, some 1] := by decide +kernel

/-- Unanchored search with a prefilter that reports no candidate: the call stops in the start
state with `at` on the byte just fed, and every further call feeds that byte again (and asks the
prefilter again).  `e - s = 1`, `n = 4`, `1 + 3` transitions. -/
example :
    callTransitions (ovlCallsCost .std (patSet .std [[1]]) (ideal .std [[1]] .unanchored true) id
      (some fun _ _ _ => .none) { hay := [0, 0], s := 0, e := 1, valid := by decide }
      4 OState.start) = [some 1, some 1, some 1, some 1] := by decide +kernel

/-- without those two stops there is no redundant transition: unanchored, no prefilter, the
calls after the end of the span cost nothing (`abab`, patterns `ab`, `b`: 3 matches) -/
example :
    callTransitions (ovlCallsCost .std (patSet .std [[1, 2], [2]])
      (ideal .std [[1, 2], [2]] .unanchored false) id
      Option.none { hay := [1, 2, 1], s := 0, e := 3, valid := by decide }
      5 OState.start) = [some 2, some 0, some 1, some 0, some 0] := by decide +kernel

/-- the iterator on the dead-state example stops after the fruitless first call: 2 transitions -/
example :
    (ovlIterCost .std (patSet .std [[1, 2]]) (ideal .std [[1, 2]] .both false) id
      Option.none { hay := [1, 3], s := 0, e := 2, anch := true, valid := by decide }
      5 OState.start).map (·.2.transitions) = [2] := by decide +kernel

end AcVerif
