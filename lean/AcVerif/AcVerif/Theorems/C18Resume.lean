import AcVerif.Theorems.C18
import AcVerif.Proofs.StreamResumeRun
import AcVerif.Proofs.StreamResumeCalls
/-!
# C18 (resumption) – pulling on after a transient read error loses nothing

`C18_read_fault` treats a read error as the end of the search.  The real
`StreamFindIter` yields `Some(Err(e))` and may be pulled again; the state it is
left in is the rolled / shifted iterator with the bytes that the earlier `read`
calls of the same `Buffer::fill` delivered still in the buffer.  For a
transient fault (the `read` call of index `k` fails once; it counts as a call,
so the schedule entry of index `k` is skipped) `streamFindT` is the item
sequence seen by a caller who keeps pulling: `some m` for a match, `none` for
the error item.

* `C18_resume`: the matches among the items are exactly the fault-free match
  list `ms` (same order, same offsets) – which is the fault-free result for the
  schedule `sched`, for the schedule `sched.eraseIdx k` that the faulty run
  effectively consumes, and indeed for every schedule
  (`C18_stream_sched_indep`); there is at most one error item; `read` is never
  called with an empty buffer; without an error item the items are `ms.map some`.
* `C18_resume_nofault`: without a fault `streamFindT` is `streamFind`.
* `C18_resume_iter`: the resumed matches are the in-memory iterator's.

* `C18_resume_err_iff`: the error item is present iff the fault-free run (same
  schedule) makes more than `k` read calls (`streamCallsT`, the call counter of
  the run, is defined in `Proofs/StreamResumeCalls.lean`).

All statements are proved in full (no `_partial`).
-/
namespace AcVerif
open AcVerif.StreamP AcVerif.StdP
variable {α : Type} [DecidableEq α]

/-- the fault-free match list does not depend on the read schedule -/
theorem C18_stream_sched_indep (P : List (List α)) (_hP : P ≠ []) (hne : ∀ p ∈ P, p ≠ [])
    (sk : StartKind) (hsk : supportsAnch sk false) (data : List α) (sched sched' : List Nat)
    (hs : ∀ x ∈ sched, 1 ≤ x) (hs' : ∀ x ∈ sched', 1 ≤ x)
    (spare : Option Nat) (minFactor defaultCap : Nat)
    (hcap : (Buffer.new (α := α) (ideal .std P sk false).maxLen spare minFactor defaultCap).min <
        (Buffer.new (α := α) (ideal .std P sk false).maxLen spare minFactor defaultCap).cap) :
    ∃ ms,
      streamFind (ideal .std P sk false) { data := data, sched := sched } spare
        minFactor defaultCap = .ok (ms, false, 0) ∧
      streamFind (ideal .std P sk false) { data := data, sched := sched' } spare
        minFactor defaultCap = .ok (ms, false, 0) := by
  obtain ⟨it, cs, err, hnew, hd, hsp, he, _⟩ :=
    stream_master P sk hsk hne data sched hs spare minFactor defaultCap hcap none
  have herr := he rfl
  subst herr
  obtain ⟨it', cs', err', hnew', hd', hsp', he', _⟩ :=
    stream_master P sk hsk hne data sched' hs' spare minFactor defaultCap hcap none
  have herr' := he' rfl
  subst herr'
  have H := hyp_ideal P sk hsk hne data sched hs spare minFactor defaultCap hcap
  have hm := (spec_mats H.FOK hsp (Nat.zero_le _)).2 rfl
  have hm' := (spec_mats H.FOK hsp' (Nat.zero_le _)).2 rfl
  refine ⟨chunkMats cs, ?_, ?_⟩
  · simp only [streamFind, hnew, hd]; rfl
  · simp only [streamFind, hnew', hd']
    rw [hm, ← hm']; rfl

/-- a transient read failure at call `k`, the caller pulling on: the matches
among the items are exactly the fault-free matches (for the schedule `sched`
and for `sched.eraseIdx k`, the schedule the faulty run effectively consumes),
at most one error item, `read` never called with an empty buffer
(any buffer constants with `min < cap`) -/
theorem C18_resume (P : List (List α)) (_hP : P ≠ []) (hne : ∀ p ∈ P, p ≠ [])
    (sk : StartKind) (hsk : supportsAnch sk false) (data : List α) (sched : List Nat)
    (hs : ∀ x ∈ sched, 1 ≤ x) (spare : Option Nat) (minFactor defaultCap : Nat)
    (hcap : (Buffer.new (α := α) (ideal .std P sk false).maxLen spare minFactor defaultCap).min <
        (Buffer.new (α := α) (ideal .std P sk false).maxLen spare minFactor defaultCap).cap)
    (k : Nat) :
    ∃ ms items er,
      streamFind (ideal .std P sk false) { data := data, sched := sched } spare
        minFactor defaultCap = .ok (ms, false, 0) ∧
      streamFind (ideal .std P sk false) { data := data, sched := sched.eraseIdx k } spare
        minFactor defaultCap = .ok (ms, false, 0) ∧
      streamFindT (ideal .std P sk false) { data := data, sched := sched, failAt := some k } spare
        minFactor defaultCap = .ok (items, er) ∧
      items.filterMap id = ms ∧
      (items.filter (· == none)).length ≤ 1 ∧
      er = 0 ∧
      ((items.filter (· == none)).length = 0 → items = ms.map some) := by
  have hs' : ∀ x ∈ sched.eraseIdx k, 1 ≤ x := fun x hx => hs x (List.mem_of_mem_eraseIdx hx)
  obtain ⟨ms, h1, h2⟩ := C18_stream_sched_indep P _hP hne sk hsk data sched (sched.eraseIdx k)
    hs hs' spare minFactor defaultCap hcap
  obtain ⟨it, cs, err, hnew, hd, hsp, he, _⟩ :=
    stream_master P sk hsk hne data sched hs spare minFactor defaultCap hcap none
  have herr := he rfl
  subst herr
  have H := hyp_ideal P sk hsk hne data sched hs spare minFactor defaultCap hcap
  have hm := (spec_mats H.FOK hsp (Nat.zero_le _)).2 rfl
  have hms : ms = chunkMats cs := by
    have : streamFind (ideal .std P sk false) { data := data, sched := sched } spare
        minFactor defaultCap = .ok (chunkMats cs, false, 0) := by
      simp only [streamFind, hnew, hd]; rfl
    rw [h1] at this
    cases this
    rfl
  obtain ⟨itT, items, hnewT, hdT, hspT, he1, _⟩ :=
    streamT_master P sk hsk hne data sched hs spare minFactor defaultCap hcap (some k)
  have hmT := (spec_mats H.FOK hspT (Nat.zero_le _)).2 rfl
  have hfm : (items.filterMap findItem).filterMap id = ms := by
    rw [findItem_mats, hmT, hms, hm]
  refine ⟨ms, items.filterMap findItem, 0, h1, h2, ?_, hfm, ?_, rfl, ?_⟩
  · simp only [streamFindT, hnewT, hdT]
  · rw [findItem_errs]; exact he1
  · intro h0
    rw [← hfm]
    exact items_of_no_err _ h0

/-- without a fault the resumable iterator is the plain one -/
theorem C18_resume_nofault (P : List (List α)) (_hP : P ≠ []) (hne : ∀ p ∈ P, p ≠ [])
    (sk : StartKind) (hsk : supportsAnch sk false) (data : List α) (sched : List Nat)
    (hs : ∀ x ∈ sched, 1 ≤ x) (spare : Option Nat) (minFactor defaultCap : Nat)
    (hcap : (Buffer.new (α := α) (ideal .std P sk false).maxLen spare minFactor defaultCap).min <
        (Buffer.new (α := α) (ideal .std P sk false).maxLen spare minFactor defaultCap).cap) :
    ∃ ms,
      streamFind (ideal .std P sk false) { data := data, sched := sched } spare
        minFactor defaultCap = .ok (ms, false, 0) ∧
      streamFindT (ideal .std P sk false) { data := data, sched := sched } spare
        minFactor defaultCap = .ok (ms.map some, 0) := by
  obtain ⟨it, cs, err, hnew, hd, hsp, he, _⟩ :=
    stream_master P sk hsk hne data sched hs spare minFactor defaultCap hcap none
  have herr := he rfl
  subst herr
  have H := hyp_ideal P sk hsk hne data sched hs spare minFactor defaultCap hcap
  have hm := (spec_mats H.FOK hsp (Nat.zero_le _)).2 rfl
  obtain ⟨itT, items, hnewT, hdT, hspT, _, he0⟩ :=
    streamT_master P sk hsk hne data sched hs spare minFactor defaultCap hcap none
  have hmT := (spec_mats H.FOK hspT (Nat.zero_le _)).2 rfl
  have h0 : ((items.filterMap findItem).filter (· == none)).length = 0 := by
    rw [findItem_errs]; exact he0 rfl
  refine ⟨chunkMats cs, ?_, ?_⟩
  · simp only [streamFind, hnew, hd]; rfl
  · simp only [streamFindT, hnewT, hdT]
    rw [items_of_no_err _ h0, findItem_mats, hmT, hm]

/-- the resumed matches are those of the in-memory iterator on the whole stream -/
theorem C18_resume_iter (P : List (List α)) (_hP : P ≠ []) (hne : ∀ p ∈ P, p ≠ [])
    (sk : StartKind) (hsk : supportsAnch sk false) (data : List α) (sched : List Nat)
    (hs : ∀ x ∈ sched, 1 ≤ x) (spare : Option Nat) (minFactor defaultCap : Nat)
    (hcap : (Buffer.new (α := α) (ideal .std P sk false).maxLen spare minFactor defaultCap).min <
        (Buffer.new (α := α) (ideal .std P sk false).maxLen spare minFactor defaultCap).cap)
    (k : Nat) :
    ∃ ms items,
      findIter (ideal .std P sk false) none
        { hay := data, s := 0, e := data.length, anch := false, earliest := false,
          valid := ⟨Nat.le_refl _, Nat.zero_le _⟩ } = .ok ms ∧
      streamFindT (ideal .std P sk false) { data := data, sched := sched, failAt := some k } spare
        minFactor defaultCap = .ok (items, 0) ∧
      items.filterMap id = ms ∧ (items.filter (· == none)).length ≤ 1 := by
  obtain ⟨ms, h1, h2⟩ := C07_stream_eq_iter P _hP hne sk hsk data sched hs spare minFactor
    defaultCap hcap
  obtain ⟨ms', items, er, g1, _, g3, g4, g5, g6, _⟩ :=
    C18_resume P _hP hne sk hsk data sched hs spare minFactor defaultCap hcap k
  rw [h2] at g1
  cases g1
  subst g6
  exact ⟨ms, items, h1, g3, g4, g5⟩

/-- the error item is present exactly when the failing call index is reached,
i.e. when the fault-free run (same schedule) makes more than `k` read calls -/
theorem C18_resume_err_iff (P : List (List α)) (_hP : P ≠ []) (hne : ∀ p ∈ P, p ≠ [])
    (sk : StartKind) (hsk : supportsAnch sk false) (data : List α) (sched : List Nat)
    (hs : ∀ x ∈ sched, 1 ≤ x) (spare : Option Nat) (minFactor defaultCap : Nat)
    (hcap : (Buffer.new (α := α) (ideal .std P sk false).maxLen spare minFactor defaultCap).min <
        (Buffer.new (α := α) (ideal .std P sk false).maxLen spare minFactor defaultCap).cap)
    (k : Nat) :
    ∃ items er c,
      streamFindT (ideal .std P sk false) { data := data, sched := sched, failAt := some k } spare
        minFactor defaultCap = .ok (items, er) ∧
      streamCallsT (ideal .std P sk false) { data := data, sched := sched } spare
        minFactor defaultCap = .ok c ∧
      ((items.filter (· == none)).length = 1 ↔ k < c) ∧
      ((items.filter (· == none)).length = 0 ↔ c ≤ k) := by
  obtain ⟨itT, items, hnewT, hdT, _, he1, _⟩ :=
    streamT_master P sk hsk hne data sched hs spare minFactor defaultCap hcap (some k)
  have hn1 := new_ok P sk hsk hne ({ data := data, sched := sched, failAt := some k } : Reader α)
    spare minFactor defaultCap
  have hn0 := new_ok P sk hsk hne ({ data := data, sched := sched } : Reader α)
    spare minFactor defaultCap
  rw [hn1] at hnewT
  have hit := Except.ok.inj hnewT
  subst hit
  have hiff := drainT_err_iff (ideal .std P sk false) k (drainFuelT data)
    (it0 P sk data sched (some k) spare minFactor defaultCap) ⟨rfl, Nat.zero_le _⟩
  rw [hdT] at hiff
  have hiff' : 1 ≤ errItems items ↔
      k < callsT (ideal .std P sk false) (drainFuelT data)
        (it0 P sk data sched none spare minFactor defaultCap) := hiff
  refine ⟨items.filterMap findItem, 0,
    callsT (ideal .std P sk false) (drainFuelT data)
      (it0 P sk data sched none spare minFactor defaultCap), ?_, ?_, ?_, ?_⟩
  · simp only [streamFindT, hn1, hdT]
  · simp only [streamCallsT, hn0]
  · rw [findItem_errs, ← hiff']; omega
  · rw [findItem_errs]
    constructor
    · intro h0
      apply Nat.le_of_not_lt
      intro hlt
      have := hiff'.2 hlt
      omega
    · intro hle
      have hn : ¬ 1 ≤ errItems items := by
        intro h1
        have := hiff'.1 h1
        omega
      omega

/-! ## corollaries: the default constants, any factor `≥ 2`, explicit spare room -/

/-- the default constants (factor 8, 64 KiB) -/
theorem C18_resume_default (P : List (List α)) (_hP : P ≠ []) (hne : ∀ p ∈ P, p ≠ [])
    (sk : StartKind) (hsk : supportsAnch sk false) (data : List α) (sched : List Nat)
    (hs : ∀ x ∈ sched, 1 ≤ x) (spare : Option Nat) (k : Nat) :
    ∃ ms items er,
      streamFind (ideal .std P sk false) { data := data, sched := sched } spare =
        .ok (ms, false, 0) ∧
      streamFind (ideal .std P sk false) { data := data, sched := sched.eraseIdx k } spare =
        .ok (ms, false, 0) ∧
      streamFindT (ideal .std P sk false) { data := data, sched := sched, failAt := some k } spare =
        .ok (items, er) ∧
      items.filterMap id = ms ∧
      (items.filter (· == none)).length ≤ 1 ∧
      er = 0 ∧
      ((items.filter (· == none)).length = 0 → items = ms.map some) :=
  C18_resume P _hP hne sk hsk data sched hs spare 8 (64 * 1024) (hcap_default _ spare) k

/-- production-shaped capacity `max (min * minFactor) defaultCap`, any `minFactor ≥ 2` -/
theorem C18_resume_factor (P : List (List α)) (_hP : P ≠ []) (hne : ∀ p ∈ P, p ≠ [])
    (sk : StartKind) (hsk : supportsAnch sk false) (data : List α) (sched : List Nat)
    (hs : ∀ x ∈ sched, 1 ≤ x) (minFactor defaultCap : Nat) (hf : 2 ≤ minFactor) (k : Nat) :
    ∃ ms items er,
      streamFind (ideal .std P sk false) { data := data, sched := sched } none
        minFactor defaultCap = .ok (ms, false, 0) ∧
      streamFind (ideal .std P sk false) { data := data, sched := sched.eraseIdx k } none
        minFactor defaultCap = .ok (ms, false, 0) ∧
      streamFindT (ideal .std P sk false) { data := data, sched := sched, failAt := some k } none
        minFactor defaultCap = .ok (items, er) ∧
      items.filterMap id = ms ∧
      (items.filter (· == none)).length ≤ 1 ∧
      er = 0 ∧
      ((items.filter (· == none)).length = 0 → items = ms.map some) :=
  C18_resume P _hP hne sk hsk data sched hs none minFactor defaultCap
    (hcap_factor _ minFactor defaultCap hf) k

/-- explicit spare room `min + max 1 sp`, whatever the constants -/
theorem C18_resume_spare (P : List (List α)) (_hP : P ≠ []) (hne : ∀ p ∈ P, p ≠ [])
    (sk : StartKind) (hsk : supportsAnch sk false) (data : List α) (sched : List Nat)
    (hs : ∀ x ∈ sched, 1 ≤ x) (sp minFactor defaultCap : Nat) (k : Nat) :
    ∃ ms items er,
      streamFind (ideal .std P sk false) { data := data, sched := sched } (some sp)
        minFactor defaultCap = .ok (ms, false, 0) ∧
      streamFind (ideal .std P sk false) { data := data, sched := sched.eraseIdx k } (some sp)
        minFactor defaultCap = .ok (ms, false, 0) ∧
      streamFindT (ideal .std P sk false) { data := data, sched := sched, failAt := some k }
        (some sp) minFactor defaultCap = .ok (items, er) ∧
      items.filterMap id = ms ∧
      (items.filter (· == none)).length ≤ 1 ∧
      er = 0 ∧
      ((items.filter (· == none)).length = 0 → items = ms.map some) :=
  C18_resume P _hP hne sk hsk data sched hs (some sp) minFactor defaultCap
    (hcap_spare _ sp minFactor defaultCap) k

/-! ## non-vacuity and concrete resumed runs -/

/-- the hypotheses are satisfiable: `"ab"` in `"xabxxab"`, 1-byte reads,
capacity `min + 1`, the fourth `read` call fails -/
example : ∃ ms items er,
    streamFind (ideal .std [[97, 98]] .both false)
      { data := [120, 97, 98, 120, 120, 97, 98], sched := [1, 1, 1, 1, 1, 1, 1, 1] } (some 1) =
      .ok (ms, false, 0) ∧
    streamFind (ideal .std [[97, 98]] .both false)
      { data := [120, 97, 98, 120, 120, 97, 98],
        sched := ([1, 1, 1, 1, 1, 1, 1, 1] : List Nat).eraseIdx 3 } (some 1) =
      .ok (ms, false, 0) ∧
    streamFindT (ideal .std [[97, 98]] .both false)
      { data := [120, 97, 98, 120, 120, 97, 98], sched := [1, 1, 1, 1, 1, 1, 1, 1],
        failAt := some 3 } (some 1) = .ok (items, er) ∧
    items.filterMap id = ms ∧ (items.filter (· == none)).length ≤ 1 ∧ er = 0 ∧
    ((items.filter (· == none)).length = 0 → items = ms.map some) :=
  C18_resume_default [[97, 98]] (by decide) (by decide) .both (Or.inl rfl)
    [120, 97, 98, 120, 120, 97, 98] [1, 1, 1, 1, 1, 1, 1, 1] (by decide) (some 1) 3

/-- the resumed run: the first match, the error item, then the second match
(which the run of `Engine/Stream.lean`, ending at the error, never yields) -/
example : streamFindT (ideal .std [[97, 98]] .both false)
    { data := [120, 97, 98, 120, 120, 97, 98], sched := [1, 1, 1, 1, 1, 1, 1, 1],
      failAt := some 3 } (some 1) =
    .ok ([some ⟨0, 1, 3⟩, none, some ⟨0, 5, 7⟩], 0) := by rfl

example : streamFind (ideal .std [[97, 98]] .both false)
    { data := [120, 97, 98, 120, 120, 97, 98], sched := [1, 1, 1, 1, 1, 1, 1, 1],
      failAt := some 3 } (some 1) =
    .ok ([⟨0, 1, 3⟩], true, 0) := by rfl

/-- the fault-free run -/
example : streamFind (ideal .std [[97, 98]] .both false)
    { data := [120, 97, 98, 120, 120, 97, 98], sched := [1, 1, 1, 1, 1, 1, 1, 1] } (some 1) =
    .ok ([⟨0, 1, 3⟩, ⟨0, 5, 7⟩], false, 0) := by rfl

example : streamFindT (ideal .std [[97, 98]] .both false)
    { data := [120, 97, 98, 120, 120, 97, 98], sched := [1, 1, 1, 1, 1, 1, 1, 1] } (some 1) =
    .ok ([some ⟨0, 1, 3⟩, some ⟨0, 5, 7⟩], 0) := by rfl

/-- the failure hits a later iteration of a `fill` call (`min = 3`: the call
of index 3 is the second `read` of the refill after the roll): the byte read by
the first iteration stays in the buffer and the split match `[1, 2, 3]` at
`5..8` is still found -/
example : streamFindT (ideal .std [[1, 2, 3], [3, 4]] .both false)
    { data := [0, 1, 2, 3, 4, 1, 2, 3], sched := [2, 1, 3, 1], failAt := some 3 } (some 1) =
    .ok ([some ⟨0, 1, 4⟩, none, some ⟨0, 5, 8⟩], 0) := by rfl

/-- a failure at the very first call -/
example : streamFindT (ideal .std [[97, 98]] .both false)
    { data := [120, 97, 98, 120, 120, 97, 98], sched := [1, 1, 1, 1, 1, 1, 1, 1],
      failAt := some 0 } (some 1) =
    .ok ([none, some ⟨0, 1, 3⟩, some ⟨0, 5, 7⟩], 0) := by rfl

/-- the fault-free run makes 8 read calls: 7 one-byte reads and the
end-of-stream read; so a fault at call `7` is still reached, one at `8` is not -/
example : streamCallsT (ideal .std [[97, 98]] .both false)
    { data := [120, 97, 98, 120, 120, 97, 98], sched := [1, 1, 1, 1, 1, 1, 1, 1] } (some 1) =
    .ok 8 := by rfl

example : streamFindT (ideal .std [[97, 98]] .both false)
    { data := [120, 97, 98, 120, 120, 97, 98], sched := [1, 1, 1, 1, 1, 1, 1, 1],
      failAt := some 7 } (some 1) =
    .ok ([some ⟨0, 1, 3⟩, some ⟨0, 5, 7⟩, none], 0) := by rfl

example : streamFindT (ideal .std [[97, 98]] .both false)
    { data := [120, 97, 98, 120, 120, 97, 98], sched := [1, 1, 1, 1, 1, 1, 1, 1],
      failAt := some 8 } (some 1) =
    .ok ([some ⟨0, 1, 3⟩, some ⟨0, 5, 7⟩], 0) := by rfl

/-- a read call that is never made does not fail: no error item -/
example : streamFindT (ideal .std [[97, 98]] .both false)
    { data := [120, 97, 98, 120, 120, 97, 98], sched := [1, 1, 1, 1, 1, 1, 1, 1],
      failAt := some 50 } (some 1) =
    .ok ([some ⟨0, 1, 3⟩, some ⟨0, 5, 7⟩], 0) := by rfl

end AcVerif
