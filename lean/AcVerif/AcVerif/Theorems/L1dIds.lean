import AcVerif.Proofs.DfaIdsWrites
import AcVerif.Theorems.C16All
/-!
# L1d-ids – the DFA *as stored* (premultiplied ids, flat table, `Special` id ranges) agrees with
the abstract DFA, the NFA and the ideal automaton, and never reads out of bounds

`buildDfaIds N sk bc hasPre` (`AcVerif/DfaIds.lean`) is `dfa::Builder::build_from_noncontiguous`
down to the stored representation: the shuffled NFA (`shuffleOrder`), `stride2`, the flat `trans`
vector of premultiplied ids, the `matches` vector indexed by `(sid >> stride2) - 2`, and the four
`Special` ids; `is_special` / `is_match` / `is_dead` / `is_start` are id comparisons and
`start_state` fails iff the start id is `DEAD`.  For **every** pattern list `P`, match kind, start
kind, both settings of `byte_classes`, with or without prefilter, and `N = CNfa.compile k false P`:

* `L1dIds_start`: a start state exists exactly for the supported anchoring modes;
* `L1dIds_obsEquiv_nfa`, `L1dIds_obsEquiv`: its start state is observationally equivalent to the
  NFA's and to that of the abstract DFA `buildDfa N sk bc` (L1d);
* `L1dIds_startEquiv`, `L1dIds_find`, `L1dIds_iter`, `L1dIds_overlap`, `L1dIds_overlap_iter`:
  hence to the ideal automaton, so every search result (including the error for an unsupported
  mode) transfers;
* `L1dIds_run`: the run is the image of the NFA run under an explicit id map
  (`pos s << stride2`, resp. `remap_unanchored[pos s]` / `remap_anchored[pos s]`);
* `L1dIds_inbounds`: at every reachable state every table read is in bounds
  (`sid + class < trans.len()`), ids are multiples of the stride with index `< state_len`, and at
  a match state the `matches` index `(sid >> stride2) - 2` neither underflows nor overflows, the
  list is non-empty and holds valid pattern ids;
* `L1dIds_special_contract`: at every reachable state
  `is_special ⇔ is_dead ∨ is_match ∨ (prefilter ∧ is_start)`, and the dead state is absorbing
  (its whole row is `DEAD`);
* `L1dIds_setMatches_ok_one` / `_both`: at build time `set_matches` never panics: every match
  state of the shuffled NFA gets DFA state indices `x` with `2 ≤ x` and `x - 2 < matches.len()`.

The model was also compared entry by entry with the crate's own `dfa::DFA` (all rows of all
states – reachable or not – on all 256 bytes, the three flags, the match lists, the start ids,
stride and state count) on 9 pattern lists × 3 match kinds × 3 start kinds × `byte_classes` ×
prefilter: identical.  Three of these tables are reproduced at the end of this file.

Remark (the row of `FAIL`).  In the crate the states `DEAD`, `FAIL` and the unanchored start state
are allocated while `special.start_unanchored_id` is still `0`, so their failure link is `DEAD`,
whereas `CNfa.init` gives them the link `SU`.  No search can observe this (`DEAD` and the start
state have all 256 transitions, `FAIL` is never entered), but the *row* the DFA builder writes for
`FAIL` with one start kind depends on it: all `DEAD` in the crate.  `idsOne` therefore leaves that
row `DEAD` instead of calling `dfaRow` (which `buildOne` of `DfaModel.lean` does).

Remark (`is_start`).  With one start kind the unsupported start id is `DEAD = 0`, so the crate's
`is_start(DEAD)` is `true` (`sid == start_anchored_id`); the model keeps this.  It is harmless:
the dead state is special anyway, and the search loops test `is_dead` first.

Structure of the proof (`AcVerif/Proofs/DfaIds*.lean`, namespace `AcVerif.L1dIdsP`):
`flatTable_getD`, `posFlag_match` / `posFlag_special` (the id ranges are the flags because of
where `ShufOK` puts the match and start states), `Sim` (what an id map must satisfy) with
`Sim.run` / `Sim.obs`, `one_sim` (one start kind), `remFoldB_spec` / `rowsFoldB_spec` (closed
forms `cntB`, `iA` of the consecutive ids and the interleaved rows), `slot_le_iff`,
`both_simU` / `both_simA`.
-/
namespace AcVerif
open AcVerif.L1cP AcVerif.L1dP AcVerif.L1eP AcVerif.L1dIdsP AcVerif.CNfa

/-! ## the run, as the image of the NFA run -/

/-- the start id of a supported mode is the id of the NFA's start state, and after any input the
stored DFA is at the id of the state the NFA is at (which is related to an ideal state) -/
theorem L1dIds_run (k : MatchKind) (P : List (List UInt8)) (sk : StartKind) (bc hasPre anch : Bool)
    (h : supportsAnch sk anch) (w : List UInt8) :
    ∃ L q', FS k (patSet k P) L (CNfa.compile k false P) ∧
      Sim (CNfa.compile k false P) L hasPre (buildDfaIds (CNfa.compile k false P) sk bc hasPre) anch
        (gOf (CNfa.compile k false P) sk bc anch) ∧
      ((buildDfaIds (CNfa.compile k false P) sk bc hasPre).toAut k P hasPre).start anch =
        some (gOf (CNfa.compile k false P) sk bc anch (startOf anch)) ∧
      Rel L anch (((CNfa.compile k false P).toAut k P hasPre).runFrom anch (startOf anch) w) q' ∧
      ((buildDfaIds (CNfa.compile k false P) sk bc hasPre).toAut k P hasPre).runFrom anch
          (gOf (CNfa.compile k false P) sk bc anch (startOf anch)) w =
        gOf (CNfa.compile k false P) sk bc anch
          (((CNfa.compile k false P).toAut k P hasPre).runFrom anch (startOf anch) w) := by
  obtain ⟨L, hFS⟩ := compile_spec k P
  have hS := sim_of_FS hFS sk bc hasPre anch h
  obtain ⟨q', h1, h2⟩ := hS.run hFS w _ _ (Rel_start L anch)
  exact ⟨L, q', hFS, hS, hS.toAut_start P, h1, h2⟩

/-! ## the start states -/

theorem L1dIds_start (k : MatchKind) (P : List (List UInt8)) (sk : StartKind) (bc hasPre anch : Bool) :
    (((buildDfaIds (CNfa.compile k false P) sk bc hasPre).toAut k P hasPre).start anch).isSome ↔
      supportsAnch sk anch := by
  constructor
  · intro hs
    by_cases h : supportsAnch sk anch
    · exact h
    · exfalso
      have h0 := start_unsupported (CNfa.compile k false P) sk bc hasPre anch h
      have : ((buildDfaIds (CNfa.compile k false P) sk bc hasPre).toAut k P hasPre).start anch =
          none := by
        show (if ((if anch then (buildDfaIds (CNfa.compile k false P) sk bc hasPre).startA
          else (buildDfaIds (CNfa.compile k false P) sk bc hasPre).startU) == 0) = true then none
          else some _) = none
        rw [h0]; rfl
      rw [this] at hs
      cases hs
  · intro h
    obtain ⟨L, q', _, _, h0, _, _⟩ := L1dIds_run k P sk bc hasPre anch h []
    rw [h0]; rfl

theorem L1dIds_start_none (k : MatchKind) (P : List (List UInt8)) (sk : StartKind)
    (bc hasPre anch : Bool) (h : ¬ supportsAnch sk anch) :
    ((buildDfaIds (CNfa.compile k false P) sk bc hasPre).toAut k P hasPre).start anch = none := by
  cases hs : ((buildDfaIds (CNfa.compile k false P) sk bc hasPre).toAut k P hasPre).start anch with
  | none => rfl
  | some x => exact absurd ((L1dIds_start k P sk bc hasPre anch).1 (by rw [hs]; rfl)) h

/-! ## stored DFA = NFA = abstract DFA -/

/-- the start state of a supported mode is observationally equivalent to the NFA's -/
theorem L1dIds_obsEquiv_nfa (k : MatchKind) (P : List (List UInt8)) (sk : StartKind)
    (bc hasPre anch : Bool) (h : supportsAnch sk anch) :
    ∃ s0, ((buildDfaIds (CNfa.compile k false P) sk bc hasPre).toAut k P hasPre).start anch = some s0 ∧
      ObsEquiv ((buildDfaIds (CNfa.compile k false P) sk bc hasPre).toAut k P hasPre)
        ((CNfa.compile k false P).toAut k P hasPre) false anch s0 (if anch then CNfa.SA else CNfa.SU) := by
  obtain ⟨L, _, hFS, hS, h0, _, _⟩ := L1dIds_run k P sk bc hasPre anch h []
  refine ⟨_, h0, ?_⟩
  intro w
  obtain ⟨q', h1, h2⟩ := hS.run hFS w _ _ (Rel_start L anch)
  show Aut.obs _ false (Aut.runFrom _ anch _ w) =
    Aut.obs _ false (Aut.runFrom _ anch (startOf anch) w)
  rw [h2]
  exact hS.obs hFS P (LvA_of_Rel h1)

/-- the abstract DFA of L1d, in the same form -/
theorem L1dIds_abstract_obsEquiv_nfa (k : MatchKind) (P : List (List UInt8)) (sk : StartKind)
    (bc hasPre anch : Bool) (h : supportsAnch sk anch) :
    ∃ m0, ((buildDfa (CNfa.compile k false P) sk bc).toAut k P hasPre).start anch = some m0 ∧
      ObsEquiv ((buildDfa (CNfa.compile k false P) sk bc).toAut k P hasPre)
        ((CNfa.compile k false P).toAut k P hasPre) false anch m0 (if anch then CNfa.SA else CNfa.SU) := by
  cases sk with
  | unanchored =>
    have := supportsAnch_unanchored h
    subst this
    exact ⟨CNfa.SU, rfl, L1d_obsEquiv_unanchored k P hasPre bc⟩
  | anchored =>
    have := supportsAnch_anchored h
    subst this
    exact ⟨CNfa.SA, rfl, L1d_obsEquiv_anchored k P hasPre bc⟩
  | both => exact L1d_obsEquiv_both k P hasPre bc anch

/-- **stored DFA = abstract DFA**: for a supported mode both have a start state, and the two are
observationally equivalent -/
theorem L1dIds_obsEquiv (k : MatchKind) (P : List (List UInt8)) (sk : StartKind)
    (bc hasPre anch : Bool) (h : supportsAnch sk anch) :
    ∃ s0 m0,
      ((buildDfaIds (CNfa.compile k false P) sk bc hasPre).toAut k P hasPre).start anch = some s0 ∧
      ((buildDfa (CNfa.compile k false P) sk bc).toAut k P hasPre).start anch = some m0 ∧
      ObsEquiv ((buildDfaIds (CNfa.compile k false P) sk bc hasPre).toAut k P hasPre)
        ((buildDfa (CNfa.compile k false P) sk bc).toAut k P hasPre) false anch s0 m0 := by
  obtain ⟨s0, h0, h1⟩ := L1dIds_obsEquiv_nfa k P sk bc hasPre anch h
  obtain ⟨m0, g0, g1⟩ := L1dIds_abstract_obsEquiv_nfa k P sk bc hasPre anch h
  exact ⟨s0, m0, h0, g0, fun w => (h1 w).trans (g1 w).symm⟩

/-! ## stored DFA = ideal automaton -/

theorem L1dIds_obsEquiv_ideal (k : MatchKind) (P : List (List UInt8)) (sk : StartKind)
    (bc hasPre anch : Bool) (h : supportsAnch sk anch) :
    ∃ s0, ((buildDfaIds (CNfa.compile k false P) sk bc hasPre).toAut k P hasPre).start anch = some s0 ∧
      ObsEquiv ((buildDfaIds (CNfa.compile k false P) sk bc hasPre).toAut k P hasPre)
        (ideal k P sk hasPre) false anch s0 (.at []) := by
  obtain ⟨s0, h0, h1⟩ := L1dIds_obsEquiv_nfa k P sk bc hasPre anch h
  exact ⟨s0, h0, (h1.trans (L1c_obsEquiv k P hasPre anch)).ideal_sk _⟩

/-- `StartEquiv` with the ideal automaton of the same start kind, for **every** anchoring mode:
equivalent start states if the mode is supported, both reject it otherwise -/
theorem L1dIds_startEquiv (k : MatchKind) (P : List (List UInt8)) (sk : StartKind)
    (bc hasPre anch : Bool) :
    StartEquiv ((buildDfaIds (CNfa.compile k false P) sk bc hasPre).toAut k P hasPre)
      (ideal k P sk hasPre) false anch := by
  unfold StartEquiv
  by_cases h : supportsAnch sk anch
  · obtain ⟨s0, h0, h1⟩ := L1dIds_obsEquiv_ideal k P sk bc hasPre anch h
    have hB : (ideal k P sk hasPre).start anch = some (.at []) := by
      rcases h with h | ⟨h, h'⟩ | ⟨h, h'⟩
      · subst h; cases anch <;> rfl
      · subst h; subst h'; rfl
      · subst h; subst h'; rfl
    rw [h0, hB]
    exact h1
  · have hA := L1dIds_start_none k P sk bc hasPre anch h
    have hB : (ideal k P sk hasPre).start anch = none := by
      cases sk with
      | unanchored =>
        cases anch
        · exact absurd (Or.inr (Or.inl ⟨rfl, rfl⟩)) h
        · rfl
      | anchored =>
        cases anch
        · rfl
        · exact absurd (Or.inr (Or.inr ⟨rfl, rfl⟩)) h
      | both => exact absurd (Or.inl rfl) h
    rw [hA, hB]
    trivial

/-! ## corollaries: every search result transfers -/

theorem L1dIds_find (k : MatchKind) (P : List (List UInt8)) (sk : StartKind) (bc hasPre : Bool)
    (pre : Option (Prefilter UInt8)) (i : Input UInt8) :
    tryFindFwd ((buildDfaIds (CNfa.compile k false P) sk bc hasPre).toAut k P hasPre) pre i =
      tryFindFwd (ideal k P sk hasPre) pre i :=
  C04_find_transfer _ _ pre i rfl (fun _ => rfl)
    (C04_StartEquiv_false_true _ _ _ (L1dIds_startEquiv k P sk bc hasPre i.anch))

theorem L1dIds_iter (k : MatchKind) (P : List (List UInt8)) (sk : StartKind) (bc hasPre : Bool)
    (pre : Option (Prefilter UInt8)) (i : Input UInt8) :
    findIter ((buildDfaIds (CNfa.compile k false P) sk bc hasPre).toAut k P hasPre) pre i =
      findIter (ideal k P sk hasPre) pre i :=
  C04_iter_transfer _ _ pre i rfl (fun _ => rfl)
    (C04_StartEquiv_false_true _ _ _ (L1dIds_startEquiv k P sk bc hasPre i.anch))

theorem L1dIds_overlap (k : MatchKind) (P : List (List UInt8)) (sk : StartKind) (bc hasPre : Bool)
    (pre : Option (Prefilter UInt8)) (i : Input UInt8) (n : Nat) :
    ovlCalls ((buildDfaIds (CNfa.compile k false P) sk bc hasPre).toAut k P hasPre) pre i n
        OState.start =
      ovlCalls (ideal k P sk hasPre) pre i n OState.start :=
  C04_overlap_transfer ((buildDfaIds (CNfa.compile k false P) sk bc hasPre).toAut k P hasPre)
    (ideal k P sk hasPre) pre i rfl (fun _ => rfl) (L1dIds_startEquiv k P sk bc hasPre i.anch) n

theorem L1dIds_overlap_iter (k : MatchKind) (P : List (List UInt8)) (sk : StartKind)
    (bc hasPre : Bool) (pre : Option (Prefilter UInt8)) (i : Input UInt8) (fuel : Nat) :
    ovlIterAux ((buildDfaIds (CNfa.compile k false P) sk bc hasPre).toAut k P hasPre) pre i fuel
        OState.start =
      ovlIterAux (ideal k P sk hasPre) pre i fuel OState.start :=
  C04_overlap_iter_transfer ((buildDfaIds (CNfa.compile k false P) sk bc hasPre).toAut k P hasPre)
    (ideal k P sk hasPre) pre i rfl (fun _ => rfl) (L1dIds_startEquiv k P sk bc hasPre i.anch) fuel

/-- … and the stored DFA meets the specification (standard semantics, C02) -/
theorem L1dIds_find_std (P : List (List UInt8)) (bc : Bool) (sk : StartKind) (i : Input UInt8)
    (h : supportsAnch sk i.anch) :
    ∃ r, tryFindFwd ((buildDfaIds (CNfa.compile .std false P) sk bc false).toAut .std P false) none i =
        .ok r ∧ IsFind .std P i.hay i.s i.e i.anch r := by
  rw [L1dIds_find]
  exact C02_find P sk i h

/-! ## every read is in bounds -/

/-- at every state reachable from a supported start state: the table read of every byte is in
bounds, the id is a multiple of the stride with index `< state_len`; at a match state the
`matches` read is in bounds (no underflow of `- 2`, index `< matches.len()`), the list is
non-empty and holds pattern ids `< P.length` -/
theorem L1dIds_inbounds (k : MatchKind) (P : List (List UInt8)) (sk : StartKind)
    (bc hasPre anch : Bool) (s0 : Nat)
    (hs : ((buildDfaIds (CNfa.compile k false P) sk bc hasPre).toAut k P hasPre).start anch = some s0)
    (w : List UInt8) :
    let D := buildDfaIds (CNfa.compile k false P) sk bc hasPre
    let q := (D.toAut k P hasPre).runFrom anch s0 w
    (∀ b, D.next? q b = some (D.next q b)) ∧
      q % 2 ^ D.stride2 = 0 ∧ q >>> D.stride2 < D.stateLen ∧
      (D.isMatch q = true →
        D.matchList? q = some (D.matchList q) ∧ D.matchList q ≠ [] ∧
          ∀ p ∈ D.matchList q, p < P.length) := by
  intro D q
  have hsup : supportsAnch sk anch := (L1dIds_start k P sk bc hasPre anch).1 (by rw [hs]; rfl)
  obtain ⟨L, q', hFS, hS, h0, h1, h2⟩ := L1dIds_run k P sk bc hasPre anch hsup w
  have e : s0 = gOf (CNfa.compile k false P) sk bc anch (startOf anch) :=
    Option.some.inj (hs.symm.trans h0)
  have hq : q = gOf (CNfa.compile k false P) sk bc anch
      (((CNfa.compile k false P).toAut k P hasPre).runFrom anch (startOf anch) w) := by
    show Aut.runFrom _ anch s0 w = _
    rw [e]; exact h2
  have hv := LvA_of_Rel h1
  obtain ⟨i, hi, hgi⟩ := hS.idx _ hv
  have hpos : 0 < 2 ^ D.stride2 := Nat.two_pow_pos _
  rw [hq]
  refine ⟨?_, ?_, ?_, ?_⟩
  · intro b
    show D.trans[_ + D.classOf b]? = some (D.trans.getD (_ + D.classOf b) 0)
    apply getElem?_eq_some_getD
    rw [hS.size, hgi]
    exact flatTable_lt _ _ hi (hS.cls b)
  · rw [hgi]; exact Nat.mul_mod_left _ _
  · rw [hgi, Nat.shiftRight_eq_div_pow, Nat.mul_div_cancel _ hpos]; exact hi
  · intro hm
    have hml := hS.mlist _ hv hm
    have hl := matchList_of_some hml
    rw [hl]
    refine ⟨hml, ?_, ?_⟩
    · have := hS.isMatch _ hv
      rw [hm] at this
      have : CNfa.isMatch (CNfa.compile k false P)
          (((CNfa.compile k false P).toAut k P hasPre).runFrom anch (startOf anch) w) = true := by
        have h' := this.symm
        simp only [Bool.and_eq_true] at h'
        exact h'.2
      exact mats_ne_nil_of_match this
    · intro p hp
      rw [Rel_mats hFS h1] at hp
      exact mem_out_lt hp

/-! ## the `is_special` contract -/

/-- at every state reachable from a supported start state, `is_special` holds exactly for the
dead state, the match states and (with a prefilter) the start states; and every transition of the
dead state leads to the dead state -/
theorem L1dIds_special_contract (k : MatchKind) (P : List (List UInt8)) (sk : StartKind)
    (bc hasPre anch : Bool) (s0 : Nat)
    (hs : ((buildDfaIds (CNfa.compile k false P) sk bc hasPre).toAut k P hasPre).start anch = some s0)
    (w : List UInt8) :
    let D := buildDfaIds (CNfa.compile k false P) sk bc hasPre
    let q := (D.toAut k P hasPre).runFrom anch s0 w
    (D.isSpecial q = true ↔
        (D.isDead q = true ∨ D.isMatch q = true ∨ (hasPre = true ∧ D.isStart q = true))) ∧
      (D.isDead q = true → ∀ b, D.next q b = 0) := by
  intro D q
  have hsup : supportsAnch sk anch := (L1dIds_start k P sk bc hasPre anch).1 (by rw [hs]; rfl)
  obtain ⟨L, q', hFS, hS, h0, h1, h2⟩ := L1dIds_run k P sk bc hasPre anch hsup w
  have e : s0 = gOf (CNfa.compile k false P) sk bc anch (startOf anch) :=
    Option.some.inj (hs.symm.trans h0)
  have hq : q = gOf (CNfa.compile k false P) sk bc anch
      (((CNfa.compile k false P).toAut k P hasPre).runFrom anch (startOf anch) w) := by
    show Aut.runFrom _ anch s0 w = _
    rw [e]; exact h2
  have hv := LvA_of_Rel h1
  rw [hq]
  generalize ((CNfa.compile k false P).toAut k P hasPre).runFrom anch (startOf anch) w = s at hv
  have eS := hS.isSpecial s hv
  have eM := hS.isMatch s hv
  have eD : D.isDead (gOf (CNfa.compile k false P) sk bc anch s) = true ↔ s = 0 := by
    show (gOf (CNfa.compile k false P) sk bc anch s == 0) = true ↔ _
    rw [beq_iff_eq]; exact hS.dead s hv
  have eO := LvA.ne_other hFS hv
  have hst0 : startOf anch ≠ 0 := by cases anch <;> simp [startOf, SU, SA]
  constructor
  · rw [eS, eM, eD, eO]
    simp only [Bool.or_eq_true, Bool.and_eq_true, beq_iff_eq, bne_iff_ne, ne_eq]
    constructor
    · rintro ((e0 | hm) | ⟨hp, est⟩)
      · exact Or.inl e0
      · by_cases e0 : s = DEAD
        · exact Or.inl e0
        · exact Or.inr (Or.inl ⟨e0, hm⟩)
      · refine Or.inr (Or.inr ⟨hp, ?_⟩)
        have hs0 : s ≠ 0 := by rw [est]; exact hst0
        exact (hS.isStart s hv hs0).2 est
    · rintro (e0 | ⟨_, hm⟩ | ⟨hp, hst⟩)
      · exact Or.inl (Or.inl e0)
      · exact Or.inl (Or.inr hm)
      · by_cases e0 : s = 0
        · exact Or.inl (Or.inl e0)
        · exact Or.inr ⟨hp, (hS.isStart s hv e0).1 hst⟩
  · intro hd b
    have e0 := eD.1 hd
    subst e0
    rw [hS.step 0 hv b]
    have : (nextState (CNfa.compile k false P) anch ((CNfa.compile k false P).size + 1) 0 b 0).1 = 0 := by
      have := nextState_dead (CNfa.compile k false P) anch ((CNfa.compile k false P).size + 1) b 0
        (hFS.goto_dead b)
      exact congrArg Prod.fst this
    rw [this]
    exact (hS.dead 0 hv).2 rfl

/-! ## `set_matches` never panics -/

/-- one start kind: a match state of the shuffled NFA at position `i` has the DFA id `i << stride2`,
and `set_matches` indexes `matches` with `i - 2`: no underflow, in range -/
theorem L1dIds_setMatches_ok_one (k : MatchKind) (P : List (List UInt8)) (sk : StartKind)
    (bc hasPre : Bool) (hsk : sk ≠ .both) (i : Nat) (hi : i < (CNfa.compile k false P).size)
    (hm : CNfa.isMatch (CNfa.compile k false P)
      ((shuffleOrder (CNfa.compile k false P)).1.getD i 0) = true) :
    let D := buildDfaIds (CNfa.compile k false P) sk bc hasPre
    (i <<< D.stride2) >>> D.stride2 = i ∧ 2 ≤ i ∧ i - 2 < D.matches_.size := by
  intro D
  obtain ⟨h2, hle⟩ := match_pos_range k P hi hm
  have hsz : D.matches_.size =
      nfaMaxMatch (CNfa.compile k false P) (cNa (CNfa.compile k false P)) - 1 := by
    cases sk with
    | unanchored => exact matchTable_size _ _
    | anchored => exact matchTable_size _ _
    | both => exact absurd rfl hsk
  refine ⟨?_, h2, by rw [hsz]; omega⟩
  rw [Nat.shiftLeft_eq, Nat.shiftRight_eq_div_pow, Nat.mul_div_cancel _ (Nat.two_pow_pos _)]

/-- start kind `Both`: the DFA state indices handed out to position `i` are
`cntB na i ≤ x < cntB na (i + 1)` (`remFoldB_spec`); for a match state each of them is `≥ 2` and
`x - 2` is in range of `matches` -/
theorem L1dIds_setMatches_ok_both (k : MatchKind) (P : List (List UInt8)) (bc hasPre : Bool)
    (i : Nat) (hi : i < (CNfa.compile k false P).size)
    (hm : CNfa.isMatch (CNfa.compile k false P)
      ((shuffleOrder (CNfa.compile k false P)).1.getD i 0) = true)
    (x : Nat) (hx1 : cntB (shuffleOrder (CNfa.compile k false P)).2 i ≤ x)
    (hx2 : x < cntB (shuffleOrder (CNfa.compile k false P)).2 (i + 1)) :
    2 ≤ x ∧ x - 2 < (buildDfaIds (CNfa.compile k false P) .both bc hasPre).matches_.size := by
  obtain ⟨h2, hle⟩ := match_pos_range k P hi hm
  obtain ⟨L, hFS⟩ := compile_spec k P
  have hS := shufOK _ hFS.four_le_size
  have h4 : 4 ≤ (shuffleOrder (CNfa.compile k false P)).2 := hS.na_ge
  have hsz : (buildDfaIds (CNfa.compile k false P) .both bc hasPre).matches_.size =
      (nfaMaxMatch (CNfa.compile k false P) (cNa (CNfa.compile k false P)) - 1) * 2 :=
    matchTable_size _ _
  have a := cntB_ge_two h4 h2
  have b := cntB_mono h4 (show i + 1 ≤
    nfaMaxMatch (CNfa.compile k false P) (cNa (CNfa.compile k false P)) + 1 by omega)
  have c := cntB_le_two_mul h4 (show 2 ≤
    nfaMaxMatch (CNfa.compile k false P) (cNa (CNfa.compile k false P)) + 1 by omega)
  have e : cNa (CNfa.compile k false P) = (shuffleOrder (CNfa.compile k false P)).2 := rfl
  rw [e] at b c hsz
  refine ⟨by omega, by rw [hsz]; omega⟩

/-! ## non-vacuity: the stored tables of three small automata, as the crate builds them

(the values below were read off `dfa::DFA` built by the crate itself: `next_state` on every id,
`is_special` / `is_match` / `is_start`, `match_pattern`, `start_state`) -/

set_option maxRecDepth 1000000

/-- `"a"`, `"ab"`, `"b"`, standard semantics, start kind `Both`, byte classes on, no prefilter.
Classes: `'a' ↦ 1`, `'b' ↦ 2`, below `'a'` `0`, above `'b'` `3`; stride 4.  Shuffled NFA: dead, fail,
`ab`, `b`, `a`, the two start states; DFA indices 2/3 = `ab` (unanchored / anchored), 4/5 = `b`,
6/7 = `a`, 8 = unanchored start (id 32), 9 = anchored start (id 36). -/
example :
    let D := buildDfaIds (CNfa.compile .std false [[97], [97, 98], [98]]) .both true false
    D.trans.toList = [0, 0, 0, 0,  0, 0, 0, 0,  32, 24, 16, 32,  0, 0, 0, 0,  32, 24, 16, 32,
        0, 0, 0, 0,  32, 24, 8, 32,  0, 0, 12, 0,  32, 24, 16, 32,  0, 28, 20, 0] ∧
      D.matches_.toList = [[1, 2], [1, 2], [2], [2], [0], [0]] ∧
      (D.stride2, D.alphabetLen, D.stateLen, D.maxSpecialId, D.maxMatchId, D.startU, D.startA) =
        (2, 4, 10, 28, 28, 32, 36) ∧
      -- a search on the stored table: after `a b` the DFA is at id 8 (`ab`, unanchored copy), a
      -- match state listing patterns 1 and 2; checked and unchecked accessors agree; the start
      -- state (id 32) is not special without a prefilter; the `FAIL` id 4 has no `matches` entry
      (D.toAut .std [[97], [97, 98], [98]] false).start false = some 32 ∧
      (D.toAut .std [[97], [97, 98], [98]] false).runFrom false 32 [97, 98] = 8 ∧
      D.next? 8 97 = some 24 ∧ D.isMatch 8 = true ∧ D.isSpecial 8 = true ∧
      D.matchList? 8 = some [1, 2] ∧ D.isSpecial 32 = false ∧ D.matchList? 4 = none := by
  decide +kernel

/-- the same patterns, start kind `Unanchored`, with a prefilter: ids are `pos << 2`, the anchored
start id is `DEAD`, `max_special_id` is the id of the (unreachable) anchored start state -/
example :
    let D := buildDfaIds (CNfa.compile .std false [[97], [97, 98], [98]]) .unanchored true true
    D.trans.toList = [0, 0, 0, 0,  0, 0, 0, 0,  20, 16, 12, 20,  20, 16, 12, 20,  20, 16, 8, 20,
        20, 16, 12, 20,  0, 16, 12, 0] ∧
      D.matches_.toList = [[1, 2], [2], [0]] ∧
      (D.stride2, D.alphabetLen, D.stateLen, D.maxSpecialId, D.maxMatchId, D.startU, D.startA) =
        (2, 4, 7, 24, 16, 20, 0) := by
  decide +kernel

/-- `""`, `"a"`, leftmost-first, start kind `Anchored`: `"a"` is never added to the trie, so there is
one byte class and the stride is `1` (`stride2 = 0`); the start states are match states, hence
`max_match_id` is the anchored start id -/
example :
    let D := buildDfaIds (CNfa.compile .lf false [[], [97]]) .anchored true false
    D.trans.toList = [0, 0, 0, 0] ∧ D.matches_.toList = [[0], [0]] ∧
      (D.stride2, D.alphabetLen, D.stateLen, D.maxSpecialId, D.maxMatchId, D.startU, D.startA) =
        (0, 1, 4, 3, 3, 0, 3) := by
  decide +kernel

end AcVerif
