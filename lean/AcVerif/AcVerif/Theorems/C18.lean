import AcVerif.Theorems.C08
/-!
# C18 – faults

* A reader that fails at its `k`-th `read` call: the invariant of
  `StreamChunkIter` holds whatever the fault index is, so the matches yielded
  before the error are a prefix of the fault-free sequence, and if no error is
  reported the sequences are equal.  `read` is never called with an empty buffer.
* A writer that fails after `l` bytes: the replace loop stops at the first
  failed `write_all`; what was accepted is a prefix (of length `≤ l`) of the
  fault-free output, equal to it if no error is reported.
-/
namespace AcVerif
open AcVerif.StreamP AcVerif.StdP
variable {α : Type} [DecidableEq α]

/-- a read failure at call `k`: what was yielded before is a prefix of the
fault-free sequence; without a reported error nothing is lost
(any buffer constants with `min < cap`) -/
theorem C18_read_fault (P : List (List α)) (_hP : P ≠ []) (hne : ∀ p ∈ P, p ≠ [])
    (sk : StartKind) (hsk : supportsAnch sk false) (data : List α) (sched : List Nat)
    (hs : ∀ x ∈ sched, 1 ≤ x) (spare : Option Nat) (minFactor defaultCap : Nat)
    (hcap : (Buffer.new (α := α) (ideal .std P sk false).maxLen spare minFactor defaultCap).min <
        (Buffer.new (α := α) (ideal .std P sk false).maxLen spare minFactor defaultCap).cap)
    (k : Nat) :
    ∃ ms ms' err er,
      streamFind (ideal .std P sk false) { data := data, sched := sched } spare
        minFactor defaultCap =
        .ok (ms, false, 0) ∧
      streamFind (ideal .std P sk false) { data := data, sched := sched, failAt := some k } spare
        minFactor defaultCap =
        .ok (ms', err, er) ∧
      ms' <+: ms ∧ er = 0 ∧ (err = false → ms' = ms) := by
  obtain ⟨it, cs, err, hnew, hd, hsp, he, _⟩ :=
    stream_master P sk hsk hne data sched hs spare minFactor defaultCap hcap none
  have herr := he rfl
  subst herr
  obtain ⟨it', cs', err', hnew', hd', hsp', _, _⟩ :=
    stream_master P sk hsk hne data sched hs spare minFactor defaultCap hcap (some k)
  have H := hyp_ideal P sk hsk hne data sched hs spare minFactor defaultCap hcap
  have hm := (spec_mats H.FOK hsp (Nat.zero_le _)).2 rfl
  have hm' := spec_mats H.FOK hsp' (Nat.zero_le _)
  refine ⟨chunkMats cs, chunkMats cs', err', 0, ?_, ?_, ?_, rfl, ?_⟩
  · simp only [streamFind, hnew, hd]; rfl
  · simp only [streamFind, hnew', hd']; rfl
  · rw [hm]; exact hm'.1
  · intro h; rw [hm, hm'.2 h]

/-- a writer that fails after `l` bytes: the bytes accepted are a prefix of the
fault-free output (any buffer constants with `min < cap`) -/
theorem C18_write_fault (P : List (List α)) (_hP : P ≠ []) (hne : ∀ p ∈ P, p ≠ [])
    (sk : StartKind) (hsk : supportsAnch sk false) (data : List α) (sched : List Nat)
    (hs : ∀ x ∈ sched, 1 ≤ x) (spare : Option Nat) (minFactor defaultCap : Nat)
    (hcap : (Buffer.new (α := α) (ideal .std P sk false).maxLen spare minFactor defaultCap).min <
        (Buffer.new (α := α) (ideal .std P sk false).maxLen spare minFactor defaultCap).cap)
    (repl : Mat → List α) (l : Nat) :
    ∃ w w' log log' ok',
      streamReplaceWith (ideal .std P sk false) { data := data, sched := sched } spare {} repl
        minFactor defaultCap =
        .ok (w, log, true, 0) ∧
      streamReplaceWith (ideal .std P sk false) { data := data, sched := sched } spare
        { limit := some l } repl minFactor defaultCap = .ok (w', log', ok', 0) ∧
      w'.out <+: w.out ∧ w'.out.length ≤ l ∧ (ok' = true → w'.out = w.out) := by
  obtain ⟨it, cs, err, hnew, hd, hsp, he, hgo⟩ :=
    stream_master P sk hsk hne data sched hs spare minFactor defaultCap hcap none
  have herr := he rfl
  subst herr
  have h1 := goPure_nolimit repl cs false [] []
  have h2 := goPure_limit repl cs false l [] [] (Nat.zero_le _)
  refine ⟨(goPure repl cs false {} []).1, (goPure repl cs false { limit := some l } []).1,
    (goPure repl cs false {} []).2.1, (goPure repl cs false { limit := some l } []).2.1,
    (goPure repl cs false { limit := some l } []).2.2, ?_, ?_, h2.1, h2.2.1, h2.2.2⟩
  · simp only [streamReplaceWith, hnew, hgo]
    have : (goPure repl cs false {} []).2.2 = true := h1.2
    rw [this]
  · simp only [streamReplaceWith, hnew, hgo]

/-! ## corollaries: the default constants, any factor `≥ 2`, explicit spare room -/

/-- the default constants (factor 8, 64 KiB) -/
theorem C18_read_fault_default (P : List (List α)) (_hP : P ≠ []) (hne : ∀ p ∈ P, p ≠ [])
    (sk : StartKind) (hsk : supportsAnch sk false) (data : List α) (sched : List Nat)
    (hs : ∀ x ∈ sched, 1 ≤ x) (spare : Option Nat) (k : Nat) :
    ∃ ms ms' err er,
      streamFind (ideal .std P sk false) { data := data, sched := sched } spare =
        .ok (ms, false, 0) ∧
      streamFind (ideal .std P sk false) { data := data, sched := sched, failAt := some k } spare =
        .ok (ms', err, er) ∧
      ms' <+: ms ∧ er = 0 ∧ (err = false → ms' = ms) :=
  C18_read_fault P _hP hne sk hsk data sched hs spare 8 (64 * 1024) (hcap_default _ spare) k

/-- production-shaped capacity `max (min * minFactor) defaultCap`, any `minFactor ≥ 2` -/
theorem C18_read_fault_factor (P : List (List α)) (_hP : P ≠ []) (hne : ∀ p ∈ P, p ≠ [])
    (sk : StartKind) (hsk : supportsAnch sk false) (data : List α) (sched : List Nat)
    (hs : ∀ x ∈ sched, 1 ≤ x) (minFactor defaultCap : Nat) (hf : 2 ≤ minFactor)
    (k : Nat) :
    ∃ ms ms' err er,
      streamFind (ideal .std P sk false) { data := data, sched := sched } none
        minFactor defaultCap =
        .ok (ms, false, 0) ∧
      streamFind (ideal .std P sk false) { data := data, sched := sched, failAt := some k } none
        minFactor defaultCap =
        .ok (ms', err, er) ∧
      ms' <+: ms ∧ er = 0 ∧ (err = false → ms' = ms) :=
  C18_read_fault P _hP hne sk hsk data sched hs none minFactor defaultCap
    (hcap_factor _ minFactor defaultCap hf) k

/-- explicit spare room `min + max 1 sp`, whatever the constants -/
theorem C18_read_fault_spare (P : List (List α)) (_hP : P ≠ []) (hne : ∀ p ∈ P, p ≠ [])
    (sk : StartKind) (hsk : supportsAnch sk false) (data : List α) (sched : List Nat)
    (hs : ∀ x ∈ sched, 1 ≤ x) (sp minFactor defaultCap : Nat) (k : Nat) :
    ∃ ms ms' err er,
      streamFind (ideal .std P sk false) { data := data, sched := sched } (some sp)
        minFactor defaultCap =
        .ok (ms, false, 0) ∧
      streamFind (ideal .std P sk false) { data := data, sched := sched, failAt := some k }
        (some sp) minFactor defaultCap =
        .ok (ms', err, er) ∧
      ms' <+: ms ∧ er = 0 ∧ (err = false → ms' = ms) :=
  C18_read_fault P _hP hne sk hsk data sched hs (some sp) minFactor defaultCap
    (hcap_spare _ sp minFactor defaultCap) k

theorem C18_write_fault_default (P : List (List α)) (_hP : P ≠ []) (hne : ∀ p ∈ P, p ≠ [])
    (sk : StartKind) (hsk : supportsAnch sk false) (data : List α) (sched : List Nat)
    (hs : ∀ x ∈ sched, 1 ≤ x) (spare : Option Nat) (repl : Mat → List α) (l : Nat) :
    ∃ w w' log log' ok',
      streamReplaceWith (ideal .std P sk false) { data := data, sched := sched } spare {} repl =
        .ok (w, log, true, 0) ∧
      streamReplaceWith (ideal .std P sk false) { data := data, sched := sched } spare
        { limit := some l } repl = .ok (w', log', ok', 0) ∧
      w'.out <+: w.out ∧ w'.out.length ≤ l ∧ (ok' = true → w'.out = w.out) :=
  C18_write_fault P _hP hne sk hsk data sched hs spare 8 (64 * 1024) (hcap_default _ spare) repl l

theorem C18_write_fault_factor (P : List (List α)) (_hP : P ≠ []) (hne : ∀ p ∈ P, p ≠ [])
    (sk : StartKind) (hsk : supportsAnch sk false) (data : List α) (sched : List Nat)
    (hs : ∀ x ∈ sched, 1 ≤ x) (minFactor defaultCap : Nat) (hf : 2 ≤ minFactor)
    (repl : Mat → List α) (l : Nat) :
    ∃ w w' log log' ok',
      streamReplaceWith (ideal .std P sk false) { data := data, sched := sched } none {} repl
        minFactor defaultCap =
        .ok (w, log, true, 0) ∧
      streamReplaceWith (ideal .std P sk false) { data := data, sched := sched } none
        { limit := some l } repl minFactor defaultCap = .ok (w', log', ok', 0) ∧
      w'.out <+: w.out ∧ w'.out.length ≤ l ∧ (ok' = true → w'.out = w.out) :=
  C18_write_fault P _hP hne sk hsk data sched hs none minFactor defaultCap
    (hcap_factor _ minFactor defaultCap hf) repl l

theorem C18_write_fault_spare (P : List (List α)) (_hP : P ≠ []) (hne : ∀ p ∈ P, p ≠ [])
    (sk : StartKind) (hsk : supportsAnch sk false) (data : List α) (sched : List Nat)
    (hs : ∀ x ∈ sched, 1 ≤ x) (sp minFactor defaultCap : Nat)
    (repl : Mat → List α) (l : Nat) :
    ∃ w w' log log' ok',
      streamReplaceWith (ideal .std P sk false) { data := data, sched := sched } (some sp) {} repl
        minFactor defaultCap =
        .ok (w, log, true, 0) ∧
      streamReplaceWith (ideal .std P sk false) { data := data, sched := sched } (some sp)
        { limit := some l } repl minFactor defaultCap = .ok (w', log', ok', 0) ∧
      w'.out <+: w.out ∧ w'.out.length ≤ l ∧ (ok' = true → w'.out = w.out) :=
  C18_write_fault P _hP hne sk hsk data sched hs (some sp) minFactor defaultCap
    (hcap_spare _ sp minFactor defaultCap) repl l

/-! ## non-vacuity: a match split across reads, capacity `min + 1` -/

/-- the hypotheses are satisfiable -/
example : ∃ ms ms' err er,
    streamFind (ideal .std [[1, 2, 3], [3, 4]] .both false)
      { data := [0, 1, 2, 3, 4, 1, 2, 3], sched := [2, 1, 3, 1] } (some 1) = .ok (ms, false, 0) ∧
    streamFind (ideal .std [[1, 2, 3], [3, 4]] .both false)
      { data := [0, 1, 2, 3, 4, 1, 2, 3], sched := [2, 1, 3, 1], failAt := some 3 } (some 1) =
      .ok (ms', err, er) ∧
    ms' <+: ms ∧ er = 0 ∧ (err = false → ms' = ms) :=
  C18_read_fault_default [[1, 2, 3], [3, 4]] (by decide) (by decide) .both (Or.inl rfl)
    [0, 1, 2, 3, 4, 1, 2, 3] [2, 1, 3, 1] (by decide) (some 1) 3

/-- the general theorem's `hcap` is satisfiable with non-default constants
(factor 2, default capacity 0: a 6-byte buffer for `min = 3`) -/
example : ∃ ms ms' err er,
    streamFind (ideal .std [[1, 2, 3], [3, 4]] .both false)
      { data := [0, 1, 2, 3, 4, 1, 2, 3], sched := [2, 1, 3, 1] } none 2 0 = .ok (ms, false, 0) ∧
    streamFind (ideal .std [[1, 2, 3], [3, 4]] .both false)
      { data := [0, 1, 2, 3, 4, 1, 2, 3], sched := [2, 1, 3, 1], failAt := some 3 } none 2 0 =
      .ok (ms', err, er) ∧
    ms' <+: ms ∧ er = 0 ∧ (err = false → ms' = ms) :=
  C18_read_fault [[1, 2, 3], [3, 4]] (by decide) (by decide) .both (Or.inl rfl)
    [0, 1, 2, 3, 4, 1, 2, 3] [2, 1, 3, 1] (by decide) none 2 0 (by decide) 3

/-- the fourth `read` call fails: the first match (split across the first two
reads) has been yielded, the error is reported -/
example : streamFind (ideal .std [[1, 2, 3], [3, 4]] .both false)
    { data := [0, 1, 2, 3, 4, 1, 2, 3], sched := [2, 1, 3, 1], failAt := some 3 } (some 1) =
    .ok ([⟨0, 1, 4⟩], true, 0) := by rfl

/-- a read call that is never made does not fail -/
example : streamFind (ideal .std [[1, 2, 3], [3, 4]] .both false)
    { data := [0, 1, 2, 3, 4, 1, 2, 3], sched := [2, 1, 3, 1], failAt := some 20 } (some 1) =
    .ok ([⟨0, 1, 4⟩, ⟨0, 5, 8⟩], false, 0) := by rfl

/-- a writer accepting 4 bytes: `[0, 9, 0, 4]` of `[0, 9, 0, 4, 9, 0]` -/
example : streamReplaceWith (ideal .std [[1, 2, 3], [3, 4]] .both false)
    { data := [0, 1, 2, 3, 4, 1, 2, 3], sched := [2, 1, 3, 1] } (some 1) { limit := some 4 }
    (fun m => [9, m.pid]) =
    .ok ({ out := [0, 9, 0, 4], limit := some 4 },
      [(⟨0, 1, 4⟩, [1, 2, 3]), (⟨0, 5, 8⟩, [1, 2, 3])], false, 0) := by rfl

end AcVerif
