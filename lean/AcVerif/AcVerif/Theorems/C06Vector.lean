import AcVerif.Proofs.VecFind
import AcVerif.Theorems.C06
/-!
# C06 (vector level) – Teddy run on byte vectors through the intrinsics' semantics
equals the lane model, hence returns THE leftmost answer

`AcVerif/Packed/Vector.lean` transcribes `teddy/generic.rs` on 16/32-byte
vectors, every `Vector`/`FatVector` method being the documented semantics of
the x86 intrinsic it wraps.  Here:

* `C06_vector_candidate_slim/_fat` – `candidate` (mask-table shuffles, nybble
  extraction via `srli_epi16`, `alignr`/`permute2x128` shifts, ANDs) computes
  the lane model's candidate lanes and carries, under the encodings
  `laneOfSlim` (lane = byte) / `laneOfFat` (lane = low-half byte + 256 * high-half byte);
* `C06_vector_verify_slim/_fat` – `verify` / `verify64` (64-bit lanes,
  `unpacklo/hi` against the swapped halves for fat) is the lane model's `verify`;
* `C06_vector_find` – the whole search is the lane model's search, for haystack
  slices of at least one window (`hlen`; always true where `find_in` calls it –
  without it the statement is FALSE for fat, see the counterexample below);
* `C06_packed_vector` – `Searcher::find_in` run at the vector level equals the
  lane-level one for every variant, and so (`C06_packed_vector_isFind`) returns
  the leftmost-first / leftmost-longest occurrence.

No assumption on the buckets' contents is needed (both models read a missing
pattern byte as 0); only `nBuckets ∈ {8,16}` and `1 ≤ maskLen ≤ 4`.
-/
namespace AcVerif
open AcVerif.PackedP AcVerif.VecP

/-- slim `candidate` on 16- or 32-byte vectors -/
theorem C06_vector_candidate_slim (t : Teddy) (hB : t.nBuckets = 8)
    (hN : 1 ≤ t.maskLen ∧ t.maskLen ≤ 4) (w : Nat) (hw : w = 16 ∨ w = 32) (chunk : Vec8)
    (hc : chunk.length = w) (prevs : List Vec8)
    (hp : prevs.length = t.maskLen - 1 ∧ ∀ p ∈ prevs, p.length = w) :
    laneOfSlim (candidateV t false w chunk prevs).1 = (t.candidate chunk (prevs.map laneOfSlim)).1 ∧
    (candidateV t false w chunk prevs).2.map laneOfSlim =
      (t.candidate chunk (prevs.map laneOfSlim)).2 := by
  obtain ⟨h1, h2, _⟩ := candidateV_enc (encOK_slim t hB w hw) hN chunk hc prevs hp.1 hp.2
  exact ⟨h1, h2⟩

/-- fat `candidate`: the 16-byte chunk is broadcast to both halves of a 32-byte vector -/
theorem C06_vector_candidate_fat (t : Teddy) (hB : t.nBuckets = 16)
    (hN : 1 ≤ t.maskLen ∧ t.maskLen ≤ 4) (chunk : Vec8) (hc : chunk.length = 16)
    (prevs : List Vec8) (hp : prevs.length = t.maskLen - 1 ∧ ∀ p ∈ prevs, p.length = 32) :
    laneOfFat (candidateV t true 32 (V.loadHalf chunk) prevs).1 =
      (t.candidate chunk (prevs.map laneOfFat)).1 ∧
    (candidateV t true 32 (V.loadHalf chunk) prevs).2.map laneOfFat =
      (t.candidate chunk (prevs.map laneOfFat)).2 := by
  obtain ⟨h1, h2, _⟩ := candidateV_enc (encOK_fat t hB) hN chunk hc prevs hp.1 hp.2
  exact ⟨h1, h2⟩

/-- slim `verify`: `w / 8` 64-bit lanes, 8 positions × 8 buckets each -/
theorem C06_vector_verify_slim (t : Teddy) (hB : t.nBuckets = 8) (w : Nat) (hw : w = 16 ∨ w = 32)
    (hay : PBytes) (base : Nat) (cand : Vec8) (hc : cand.length = w) :
    verifyV t false w hay base cand = t.verify hay base (laneOfSlim cand) :=
  verifyV_slim t hB w hw hay base cand hc

/-- fat `verify`: `unpacklo/hi(cand, swap_halves cand)`, 4 positions × 16 buckets per lane -/
theorem C06_vector_verify_fat (t : Teddy) (hB : t.nBuckets = 16) (hay : PBytes) (base : Nat)
    (cand : Vec8) (hc : cand.length = 32) :
    verifyV t true 32 hay base cand = t.verify hay base (laneOfFat cand) :=
  verifyV_fat t hB hay base cand hc

/-- the mask tables, entry by entry (slim: both halves; fat: bits 0–7 / 8–15) -/
theorem C06_vector_masks_slim (t : Teddy) (hB : t.nBuckets = 8) (i : Nat) (nyb : UInt8)
    (hn : nyb.toNat < 16) (h : Nat) (hh : h = 0 ∨ h = 16) :
    (((maskTables t false i).1.getD (nyb.toNat + h) 0).toNat = t.maskLo i nyb) ∧
    (((maskTables t false i).2.getD (nyb.toNat + h) 0).toNat = t.maskHi i nyb) := by
  rw [maskTables_eq, maskLo_eq, maskHi_eq]
  exact ⟨tbl_slim t hB i _ lo_nyb_lt nyb hn h hh, tbl_slim t hB i _ hi_nyb_lt nyb hn h hh⟩

theorem C06_vector_masks_fat (t : Teddy) (hB : t.nBuckets = 16) (i : Nat) (nyb : UInt8)
    (hn : nyb.toNat < 16) :
    ((maskTables t true i).1.getD nyb.toNat 0).toNat +
        256 * ((maskTables t true i).1.getD (16 + nyb.toNat) 0).toNat = t.maskLo i nyb ∧
    ((maskTables t true i).2.getD nyb.toNat 0).toNat +
        256 * ((maskTables t true i).2.getD (16 + nyb.toNat) 0).toNat = t.maskHi i nyb := by
  rw [maskTables_eq, maskLo_eq, maskHi_eq]
  simp only
  rw [tbl_fat_lo t hB i _ lo_nyb_lt nyb hn, tbl_fat_hi t hB i _ lo_nyb_lt nyb hn,
    tbl_fat_lo t hB i _ hi_nyb_lt nyb hn, tbl_fat_hi t hB i _ hi_nyb_lt nyb hn]
  exact ⟨split256 _, split256 _⟩

/-- the vector-level search equals the lane-level search, on haystack slices holding at least
one window (`find_in` only calls it then) -/
theorem C06_vector_find (t : Teddy) (fat : Bool) (hB : t.nBuckets = if fat then 16 else 8)
    (hN : 1 ≤ t.maskLen ∧ t.maskLen ≤ 4) (w : Nat)
    (hw : if fat then w = 32 else (w = 16 ∨ w = 32)) (hay : PBytes) (start : Nat)
    (hlen : (if fat then 16 else w) ≤ hay.length) :
    findV t fat w hay start = t.find hay start (if fat then 16 else w) := by
  cases fat with
  | false =>
    exact findV_enc (encOK_slim t hB w hw) hN rfl hay start hlen
  | true =>
    have hw' : w = 32 := hw
    subst hw'
    exact findV_enc (encOK_fat t hB) hN rfl hay start hlen

/-- Without `hlen` the statement is false for fat: a 1-byte haystack slice is broadcast to a
2-byte "vector" whose high half is not at offset 16, the candidate is zero, while the lane model
(which has no halves) finds the match.  (`find_in` never does this: it falls back to Rabin-Karp
below `minimum_len`.) -/
example : findV (Teddy.new (PPatterns.new .lf [[1]]) 16) true 32 [1] 0 = none ∧
    (Teddy.new (PPatterns.new .lf [[1]]) 16).find [1] 0 16 = some ⟨0, 0, 1⟩ := by decide

/-- every variant of the public searcher, run at the vector level, is the lane-level searcher -/
theorem C06_packed_vector (kind : PKind) (pats : List PBytes) (_hne : pats ≠ [])
    (hnz : ∀ p ∈ pats, p ≠ []) (v : Option TeddyVariant) (hay : PBytes) (st en : Nat)
    (hspan : st ≤ en ∧ en ≤ hay.length) :
    (PackedSearcher.new kind pats v).findInV hay st en =
      (PackedSearcher.new kind pats v).findIn hay st en := by
  cases v with
  | none => rfl
  | some v =>
    have hN8 : 1 ≤ (Teddy.new (PPatterns.new kind pats) 8).maskLen ∧
        (Teddy.new (PPatterns.new kind pats) 8).maskLen ≤ 4 :=
      ⟨teddy_maskLen_pos kind pats hnz 8, (teddy_maskLen_le kind pats 8).2⟩
    have hN16 : 1 ≤ (Teddy.new (PPatterns.new kind pats) 16).maskLen ∧
        (Teddy.new (PPatterns.new kind pats) 16).maskLen ≤ 4 :=
      ⟨teddy_maskLen_pos kind pats hnz 16, (teddy_maskLen_le kind pats 16).2⟩
    have hlen : (hay.take en).length = en := by rw [List.length_take]; omega
    show (if en - st < 16 + ((Teddy.new (PPatterns.new kind pats) 8).maskLen - 1) then
        (RabinKarp.new (PPatterns.new kind pats)).findAt (hay.take en) st
      else match v with
        | .slim128 => findV (Teddy.new (PPatterns.new kind pats) 8) false 16 (hay.take en) st
        | .slim256 =>
          if en - st < 32 + ((Teddy.new (PPatterns.new kind pats) 8).maskLen - 1) then
            findV (Teddy.new (PPatterns.new kind pats) 8) false 16 (hay.take en) st
          else findV (Teddy.new (PPatterns.new kind pats) 8) false 32 (hay.take en) st
        | .fat256 => findV (Teddy.new (PPatterns.new kind pats) 16) true 32 (hay.take en) st) =
      (if en - st < 16 + ((Teddy.new (PPatterns.new kind pats) 8).maskLen - 1) then
        (RabinKarp.new (PPatterns.new kind pats)).findAt (hay.take en) st
      else match v with
        | .slim128 => (Teddy.new (PPatterns.new kind pats) 8).find (hay.take en) st 16
        | .slim256 =>
          if en - st < 32 + ((Teddy.new (PPatterns.new kind pats) 8).maskLen - 1) then
            (Teddy.new (PPatterns.new kind pats) 8).find (hay.take en) st 16
          else (Teddy.new (PPatterns.new kind pats) 8).find (hay.take en) st 32
        | .fat256 => (Teddy.new (PPatterns.new kind pats) 16).find (hay.take en) st 16)
    split
    · rfl
    · rename_i h16
      have h16' : 16 ≤ (hay.take en).length := by rw [hlen]; omega
      cases v with
      | slim128 => exact C06_vector_find _ false rfl hN8 16 (Or.inl rfl) _ st h16'
      | slim256 =>
        dsimp only
        split
        · exact C06_vector_find _ false rfl hN8 16 (Or.inl rfl) _ st h16'
        · have h32 : 32 ≤ (hay.take en).length := by rw [hlen]; omega
          exact C06_vector_find _ false rfl hN8 32 (Or.inr rfl) _ st h32
      | fat256 => exact C06_vector_find _ true rfl hN16 32 rfl _ st h16'

/-- hence the vector-level searcher returns the leftmost-first / leftmost-longest occurrence -/
theorem C06_packed_vector_isFind (kind : PKind) (pats : List PBytes) (hne : pats ≠ [])
    (hnz : ∀ p ∈ pats, p ≠ []) (v : Option TeddyVariant) (hay : PBytes) (st en : Nat)
    (hspan : st ≤ en ∧ en ≤ hay.length) :
    IsFind kind.toMatchKind pats hay st en false
      ((PackedSearcher.new kind pats v).findInV hay st en) := by
  rw [C06_packed_vector kind pats hne hnz v hay st en hspan]
  exact C06_packed kind pats hne hnz v hay st en hspan

/-! ## non-vacuity: concrete evaluations at the vector level -/

private def hay20 : PBytes := [0, 0, 0, 1, 2, 3, 4, 0, 0, 0, 0, 0, 0, 0, 0, 0, 0, 1, 2, 0]
private def hay40 : PBytes := List.replicate 35 0 ++ [1, 2, 3, 4, 0]

/-- slim 128-bit -/
example : findV (Teddy.new (PPatterns.new .ll [[1, 2], [1, 2, 3]]) 8) false 16 hay20 0 =
    some ⟨1, 3, 6⟩ := by decide
/-- slim 256-bit, with the overlapped final window -/
example : findV (Teddy.new (PPatterns.new .ll [[1, 2], [1, 2, 3]]) 8) false 32 hay40 0 =
    some ⟨1, 35, 38⟩ := by decide
/-- fat 256-bit, 16 buckets -/
example : findV (Teddy.new (PPatterns.new .lf [[1, 2], [1, 2, 3]]) 16) true 32 hay20 0 =
    some ⟨0, 3, 5⟩ := by decide
example : (PackedSearcher.new .ll [[1, 2], [1, 2, 3]] (some .fat256)).findInV hay20 0 20 =
    some ⟨1, 3, 6⟩ := by decide
example : (PackedSearcher.new .lf [[1, 2], [1, 2, 3]] (some .slim256)).findInV hay40 0 40 =
    some ⟨0, 35, 37⟩ := by decide
/-- the hypotheses of `C06_vector_find` are satisfiable, and the theorem applies -/
example : findV (Teddy.new (PPatterns.new .ll [[1, 2], [1, 2, 3]]) 16) true 32 hay20 0 =
    (Teddy.new (PPatterns.new .ll [[1, 2], [1, 2, 3]]) 16).find hay20 0 16 :=
  C06_vector_find _ true rfl (by decide) 32 rfl hay20 0 (by decide)
/-- a mask table entry: pattern 0 = `[0x31, 2]` sits in bucket 7 (slim) -/
example : (maskTables (Teddy.new (PPatterns.new .lf [[0x31, 2]]) 8) false 0).1.getD 1 0 = 0x80 ∧
    (maskTables (Teddy.new (PPatterns.new .lf [[0x31, 2]]) 8) false 0).2.getD (3 + 16) 0 = 0x80 := by
  decide

end AcVerif
