import AcVerif.Theorems.C02
import AcVerif.Theorems.C03
import AcVerif.Proofs.LmTop
/-!
# C15 – no out-of-range access, well-formed matches (model part)

What a theorem about the model can say:

* **Index arithmetic.**  `findLoop`, `ovlLoop` (and `findCost`) read the
  haystack only through `hay[at_]'h` with `h : at_ < hay.length` derived from
  the loop guard `at_ < e` and the input invariant `e ≤ hay.length`
  (`Input.valid`, the assertion in `Input::span`).  The definitions would not
  type-check otherwise: the bound is established *by construction*, for every
  automaton, prefilter and input.  The Teddy window schedule is covered by
  `C15_teddy_loads` (Theorems/C06.lean).
* **Well-formed results.**  Every reported match satisfies
  `start ≤ end ≤ haystack length` with a pattern id below the pattern count and
  lies inside the span (theorems below; `get_match`'s `at - len` never
  truncates because `stop = start + len`).

What it cannot say: which loads the compiled `unsafe` vector code performs.
That half is observed, not proved: `./check C15` runs the real searches in a
child process on haystacks placed flush against `PROT_NONE` pages.
-/
namespace AcVerif
variable {α : Type} [DecidableEq α]

omit [DecidableEq α] in
/-- an occurrence is a well-formed match of the haystack -/
theorem C15_occ_wf {P : List (List α)} {hay : List α} {s e : Nat} {m : Mat}
    (h : IsOcc P hay s e m) (he : e ≤ hay.length) :
    m.pid < P.length ∧ s ≤ m.start ∧ m.start ≤ m.stop ∧ m.stop ≤ e ∧ m.stop ≤ hay.length := by
  obtain ⟨p, hp, hs, hst, hle, _⟩ := h
  have hlt : m.pid < P.length := by
    rcases Nat.lt_or_ge m.pid P.length with h | h
    · exact h
    · rw [List.getElem?_eq_none h] at hp; cases hp
  exact ⟨hlt, hs, by omega, hle, by omega⟩

omit [DecidableEq α] in
theorem C15_isFind_wf {k : MatchKind} {P : List (List α)} {hay : List α} {s e : Nat} {anch : Bool}
    {m : Mat} (h : IsFind k P hay s e anch (some m)) (he : e ≤ hay.length) :
    m.pid < P.length ∧ s ≤ m.start ∧ m.start ≤ m.stop ∧ m.stop ≤ e ∧ m.stop ≤ hay.length :=
  C15_occ_wf h.1.1 he

/-- every match the standard search reports is well-formed (any anchoring, any span) -/
theorem C15_find_wf_std (P : List (List α)) (sk : StartKind) (i : Input α)
    (h : supportsAnch sk i.anch) :
    ∃ r, tryFindFwd (ideal .std P sk false) none i = .ok r ∧ ∀ m : Mat, r = some m →
      m.pid < P.length ∧ i.s ≤ m.start ∧ m.start ≤ m.stop ∧ m.stop ≤ i.e ∧ m.stop ≤ i.hay.length := by
  obtain ⟨r, h1, h2⟩ := C02_find P sk i h
  exact ⟨r, h1, fun m hm => C15_isFind_wf (hm ▸ h2) i.valid.1⟩

/-- … and every match of the leftmost kinds, in normal and in earliest mode -/
theorem C15_find_wf_leftmost (k : MatchKind) (hk : k = .ll ∨ k = .lf) (P : List (List α))
    (sk : StartKind) (i : Input α) (h : supportsAnch sk i.anch) :
    ∃ r, tryFindFwd (ideal k P sk false) none i = .ok r ∧ ∀ m : Mat, r = some m →
      m.pid < P.length ∧ i.s ≤ m.start ∧ m.start ≤ m.stop ∧ m.stop ≤ i.e ∧ m.stop ≤ i.hay.length := by
  obtain ⟨r, h1, h2⟩ := LmP.find_isOcc k hk P sk i h
  exact ⟨r, h1, fun m hm => C15_occ_wf (h2 m hm).1 i.valid.1⟩

/-- every match of the overlapping enumeration is well-formed -/
theorem C15_overlap_wf (P : List (List α)) (sk : StartKind) (i : Input α)
    (h : supportsAnch sk i.anch) :
    ∃ l : List Mat, (∀ n, ovlCalls (ideal .std P sk false) none i n OState.start =
        (l.take n).map (fun m => Except.ok (some m)) ++
          List.replicate (n - l.length) (Except.ok none)) ∧
      ∀ m ∈ l, m.pid < P.length ∧ m.start ≤ m.stop ∧ m.stop ≤ i.hay.length := by
  obtain ⟨l, hl, hc⟩ := C03_calls P sk i h
  refine ⟨l, hc, fun m hm => ?_⟩
  have := C15_occ_wf ((hl.2 m).1 hm).1 i.valid.1
  exact ⟨this.1, this.2.2.1, this.2.2.2.2⟩

end AcVerif
