import AcVerif.Engine.Replace
/-!
# C12 – `replace_all_with(_bytes)` APPEND to the caller's buffer

Whatever the buffer already holds stays in front, untouched, and what is appended is exactly the
spliced haystack (the result for an empty buffer); the closure log does not depend on the buffer.
The harness exercises this with pre-filled buffers of chosen spare capacity.
-/
namespace AcVerif
variable {α : Type}

theorem C12_dst_prefix (hay : List α) (repl : Mat → List α) (stop : Option Nat) (keep : Mat → Bool) :
    ∀ (ms : List Mat) (k last : Nat) (dst : List α) (log : List (Mat × List α)),
      spliceLoop hay repl stop keep k last ms dst log =
        (dst ++ (spliceLoop hay repl stop keep k last ms [] log).1,
         (spliceLoop hay repl stop keep k last ms [] log).2) := by
  intro ms
  induction ms with
  | nil => intro k last dst log; simp [spliceLoop]
  | cons m ms ih =>
    intro k last dst log
    unfold spliceLoop
    by_cases hk : keep m = true
    · simp only [hk, Bool.not_true, Bool.false_eq_true, if_false, List.nil_append]
      by_cases hs : (stop == some k) = true
      · simp only [hs, if_true, List.append_assoc]
      · simp only [hs, if_false]
        rw [ih (k + 1) m.stop (dst ++ (hay.take m.start).drop last ++ repl m),
          ih (k + 1) m.stop ((hay.take m.start).drop last ++ repl m)]
        simp only [List.append_assoc, Bool.false_eq_true, if_false]
    · simp only [hk, Bool.not_false, if_true]
      exact ih k last dst log

/-- the bytes variant started on a buffer that already holds `dst0` -/
theorem C12_bytes_append (hay : List α) (ms : List Mat) (repl : Mat → List α) (stop : Option Nat)
    (dst0 : List α) :
    spliceLoop hay repl stop (fun _ => true) 0 0 ms dst0 [] =
      (dst0 ++ (replaceBytes hay ms repl stop).1, (replaceBytes hay ms repl stop).2) :=
  C12_dst_prefix hay repl stop _ ms 0 0 dst0 []

/-- the `&str` variant started on a `String` that already holds `dst0` -/
theorem C12_str_append (hay : List UInt8) (ms : List Mat) (repl : Mat → List UInt8) (stop : Option Nat)
    (dst0 : List UInt8) :
    spliceLoop hay repl stop (fun m => isCharBoundary hay m.start && isCharBoundary hay m.stop) 0 0 ms dst0 [] =
      (dst0 ++ (replaceStr hay ms repl stop).1, (replaceStr hay ms repl stop).2) :=
  C12_dst_prefix hay repl stop _ ms 0 0 dst0 []

end AcVerif
