import AcVerif.Proofs.StreamTransfer
import AcVerif.Theorems.C18
import AcVerif.Theorems.L1dIds
import AcVerif.Theorems.L1cDense
/-!
# C07 / C08 / C18 transferred to the compiled automata

`StreamChunkIter::next` reads of the automaton only `next_state(Anchored::No, ·, ·)`,
`is_match(sid)` and `get_match(sid, 0, ·)` (first listed pattern and its length);
`StreamChunkIter::new` reads the match kind, the minimum and maximum pattern length and the
unanchored start state.  It never reads `is_special`, `is_dead` or `is_start`.  Hence

* `C07_stream_transfer`, `C08_stream_replace_transfer`: two automaton records with equal kind,
  pattern lengths, min/max lengths and `StartEquiv · · true false` (first-pattern strength
  suffices; whole-list `StartEquiv · · false false` implies it) give **equal** `streamFind` /
  `streamReplaceWith` results for every reader (any schedule, with or without a fault), writer
  and buffer constants.  (`*_match`: the same under the weaker `StreamX.MStart`, which ignores
  `special` / `dead`.)
* `C07_stream_hasPre`, `C08_stream_replace_hasPre`: on the ideal automaton the stream search does
  not depend on the `hasPre` flag (which only changes `is_special` of the start state).
* `StreamTied X P sk`: what the stream search reads of `X` agrees with `ideal .std P sk false`;
  for a tied automaton the C07 / C08 / C18 statements hold verbatim
  (`C07_stream_eq_iter_tied`, `C07_stream_spec_tied`, `C08_replace_eq_tied`,
  `C18_read_fault_tied`, `C18_write_fault_tied`).
* The transcribed builders are tied for **every** pattern list (`L1c_tied`, `L1cDense_tied`,
  `L1d_tied`, `L1dIds_tied`, `L1e_tied`, from the `*_startEquiv` theorems), both settings of the
  prefilter flag and of `byte_classes`, every dense depth, and every start kind supporting
  unanchored search; so the stream theorems hold for the compiled noncontiguous NFA (with sparse
  or dense rows), the DFA (model level and id level) and the contiguous NFA: `L1c_stream`,
  `L1d_stream`, … , `L1e_write_fault`.

The hypothesis `hcap` is literally that of `C07_stream_eq_iter`; `(ideal .std P sk false).maxLen`
is definitionally the `maxLen` of every `toAut` record (`(P.map List.length).foldl max 0`).
-/
namespace AcVerif
open AcVerif.StreamX AcVerif.StreamP AcVerif.StdP AcVerif.CNfa

/-! ## the transfer theorems -/

section transfer
variable {σ τ α : Type}

/-- the stream search depends on the automaton only through its observations -/
theorem C07_stream_transfer (A : Aut σ α) (B : Aut τ α)
    (hk : A.kind = B.kind) (hl : ∀ pid, A.patLen pid = B.patLen pid)
    (hmin : A.minLen = B.minLen) (hmax : A.maxLen = B.maxLen)
    (h : StartEquiv A B true false)
    (rdr : Reader α) (spare : Option Nat) (minFactor defaultCap : Nat) :
    streamFind A rdr spare minFactor defaultCap = streamFind B rdr spare minFactor defaultCap :=
  streamFind_transfer A B hk hl hmin hmax (MStart.of_startEquiv h) rdr spare minFactor defaultCap

theorem C08_stream_replace_transfer (A : Aut σ α) (B : Aut τ α)
    (hk : A.kind = B.kind) (hl : ∀ pid, A.patLen pid = B.patLen pid)
    (hmin : A.minLen = B.minLen) (hmax : A.maxLen = B.maxLen)
    (h : StartEquiv A B true false)
    (rdr : Reader α) (spare : Option Nat) (minFactor defaultCap : Nat)
    (w : Writer α) (repl : Mat → List α) :
    streamReplaceWith A rdr spare w repl minFactor defaultCap =
      streamReplaceWith B rdr spare w repl minFactor defaultCap :=
  streamReplaceWith_transfer A B hk hl hmin hmax (MStart.of_startEquiv h) rdr spare w repl
    minFactor defaultCap

/-- … in fact only through `is_match` and the first listed pattern of the states reachable from
the unanchored start state (`special` / `dead` / `is_start` are not read) -/
theorem C07_stream_transfer_match (A : Aut σ α) (B : Aut τ α)
    (hk : A.kind = B.kind) (hl : ∀ pid, A.patLen pid = B.patLen pid)
    (hmin : A.minLen = B.minLen) (hmax : A.maxLen = B.maxLen) (h : MStart A B)
    (rdr : Reader α) (spare : Option Nat) (minFactor defaultCap : Nat) :
    streamFind A rdr spare minFactor defaultCap = streamFind B rdr spare minFactor defaultCap :=
  streamFind_transfer A B hk hl hmin hmax h rdr spare minFactor defaultCap

theorem C08_stream_replace_transfer_match (A : Aut σ α) (B : Aut τ α)
    (hk : A.kind = B.kind) (hl : ∀ pid, A.patLen pid = B.patLen pid)
    (hmin : A.minLen = B.minLen) (hmax : A.maxLen = B.maxLen) (h : MStart A B)
    (rdr : Reader α) (spare : Option Nat) (minFactor defaultCap : Nat)
    (w : Writer α) (repl : Mat → List α) :
    streamReplaceWith A rdr spare w repl minFactor defaultCap =
      streamReplaceWith B rdr spare w repl minFactor defaultCap :=
  streamReplaceWith_transfer A B hk hl hmin hmax h rdr spare w repl minFactor defaultCap

end transfer

/-! ## the prefilter flag of the ideal automaton is not read -/

section ideal
variable {σ α : Type} [DecidableEq α]

theorem ideal_run_hasPre (k : MatchKind) (P : List (List α)) (sk : StartKind) (hp hp' anch : Bool)
    (w : List α) : ∀ q : St α,
    (ideal k P sk hp).runFrom anch q w = (ideal k P sk hp').runFrom anch q w := by
  induction w with
  | nil => intro q; rfl
  | cons c w ih => intro q; exact ih (Ideal.next k (patSet k P) anch q c)

theorem ideal_mequiv_hasPre (k : MatchKind) (P : List (List α)) (sk : StartKind) (hp hp' : Bool)
    (q : St α) : MEquiv (ideal k P sk hp) (ideal k P sk hp') q q := by
  intro w
  have e := ideal_run_hasPre k P sk hp hp' false w q
  exact ⟨congrArg (fun q => (ideal k P sk hp').isMatch q) e,
    congrArg (fun q => ((ideal k P sk hp').mpats q).take 1) e⟩

theorem ideal_mstart_hasPre (k : MatchKind) (P : List (List α)) (sk : StartKind) (hp hp' : Bool) :
    MStart (ideal k P sk hp) (ideal k P sk hp') := by
  cases sk
  · exact ideal_mequiv_hasPre k P .unanchored hp hp' (.at [])
  · exact trivial
  · exact ideal_mequiv_hasPre k P .both hp hp' (.at [])

theorem C07_stream_hasPre (k : MatchKind) (P : List (List α)) (sk : StartKind) (hp hp' : Bool)
    (rdr : Reader α) (spare : Option Nat) (minFactor defaultCap : Nat) :
    streamFind (ideal k P sk hp) rdr spare minFactor defaultCap =
      streamFind (ideal k P sk hp') rdr spare minFactor defaultCap :=
  streamFind_transfer (ideal k P sk hp) (ideal k P sk hp') rfl (fun _ => rfl) rfl rfl
    (ideal_mstart_hasPre k P sk hp hp') rdr spare minFactor defaultCap

theorem C08_stream_replace_hasPre (k : MatchKind) (P : List (List α)) (sk : StartKind)
    (hp hp' : Bool) (rdr : Reader α) (spare : Option Nat) (minFactor defaultCap : Nat)
    (w : Writer α) (repl : Mat → List α) :
    streamReplaceWith (ideal k P sk hp) rdr spare w repl minFactor defaultCap =
      streamReplaceWith (ideal k P sk hp') rdr spare w repl minFactor defaultCap :=
  streamReplaceWith_transfer (ideal k P sk hp) (ideal k P sk hp') rfl (fun _ => rfl) rfl rfl
    (ideal_mstart_hasPre k P sk hp hp') rdr spare w repl minFactor defaultCap

/-! ## automata tied to the ideal standard automaton -/

/-- everything the stream search reads of `X` agrees with `ideal .std P sk false` -/
structure StreamTied (X : Aut σ α) (P : List (List α)) (sk : StartKind) : Prop where
  kind : X.kind = (ideal .std P sk false).kind
  patLen : ∀ pid, X.patLen pid = (ideal .std P sk false).patLen pid
  minLen : X.minLen = (ideal .std P sk false).minLen
  maxLen : X.maxLen = (ideal .std P sk false).maxLen
  start : MStart X (ideal .std P sk false)

/-- from `StartEquiv` (either strength) with the ideal automaton carrying any prefilter flag -/
theorem StreamTied.of_startEquiv {X : Aut σ α} {P : List (List α)} {sk : StartKind}
    {hasPre first : Bool}
    (hk : X.kind = (ideal .std P sk hasPre).kind)
    (hl : ∀ pid, X.patLen pid = (ideal .std P sk hasPre).patLen pid)
    (hmin : X.minLen = (ideal .std P sk hasPre).minLen)
    (hmax : X.maxLen = (ideal .std P sk hasPre).maxLen)
    (h : StartEquiv X (ideal .std P sk hasPre) first false) : StreamTied X P sk := by
  refine ⟨hk, hl, hmin, hmax, ?_⟩
  have h1 : MStart X (ideal .std P sk hasPre) := MStart.of_startEquiv h
  have h2 := ideal_mstart_hasPre .std P sk hasPre false
  rcases h1.cases with ⟨hA, hB⟩ | ⟨a, b, hA, hB, hab⟩
  · rcases h2.cases with ⟨_, hC⟩ | ⟨_, _, hB', _, _⟩
    · unfold MStart; rw [hA, hC]; trivial
    · rw [hB] at hB'; cases hB'
  · rcases h2.cases with ⟨hB', _⟩ | ⟨b', c, hB', hC, hbc⟩
    · rw [hB] at hB'; cases hB'
    · rw [hB] at hB'; cases hB'
      unfold MStart; rw [hA, hC]; exact hab.trans hbc

theorem StreamTied.streamFind {X : Aut σ α} {P : List (List α)} {sk : StartKind}
    (h : StreamTied X P sk) (rdr : Reader α) (spare : Option Nat) (minFactor defaultCap : Nat) :
    streamFind X rdr spare minFactor defaultCap =
      AcVerif.streamFind (ideal .std P sk false) rdr spare minFactor defaultCap :=
  streamFind_transfer _ _ h.kind h.patLen h.minLen h.maxLen h.start rdr spare minFactor defaultCap

theorem StreamTied.streamReplaceWith {X : Aut σ α} {P : List (List α)} {sk : StartKind}
    (h : StreamTied X P sk) (rdr : Reader α) (spare : Option Nat) (w : Writer α)
    (repl : Mat → List α) (minFactor defaultCap : Nat) :
    streamReplaceWith X rdr spare w repl minFactor defaultCap =
      AcVerif.streamReplaceWith (ideal .std P sk false) rdr spare w repl minFactor defaultCap :=
  streamReplaceWith_transfer _ _ h.kind h.patLen h.minLen h.maxLen h.start rdr spare w repl
    minFactor defaultCap

/-- C07 for a tied automaton: the stream yields the in-memory iterator's matches (computed on
the ideal automaton, i.e. *the* standard answers), no I/O error, no `read` into an empty buffer -/
theorem C07_stream_eq_iter_tied {X : Aut σ α} (P : List (List α)) (hP : P ≠ []) (hne : ∀ p ∈ P, p ≠ [])
    (sk : StartKind) (hsk : supportsAnch sk false) (hX : StreamTied X P sk)
    (data : List α) (sched : List Nat)
    (hs : ∀ x ∈ sched, 1 ≤ x) (spare : Option Nat) (minFactor defaultCap : Nat)
    (hcap : (Buffer.new (α := α) (ideal .std P sk false).maxLen spare minFactor defaultCap).min <
        (Buffer.new (α := α) (ideal .std P sk false).maxLen spare minFactor defaultCap).cap) :
    ∃ ms,
      findIter (ideal .std P sk false) none
        { hay := data, s := 0, e := data.length, anch := false, earliest := false,
          valid := ⟨Nat.le_refl _, Nat.zero_le _⟩ } = .ok ms ∧
      streamFind X { data := data, sched := sched } spare
        minFactor defaultCap = .ok (ms, false, 0) := by
  obtain ⟨ms, h1, h2⟩ :=
    C07_stream_eq_iter P hP hne sk hsk data sched hs spare minFactor defaultCap hcap
  exact ⟨ms, h1, (hX.streamFind _ _ _ _).trans h2⟩

theorem C07_stream_spec_tied {X : Aut σ α} (P : List (List α)) (hP : P ≠ []) (hne : ∀ p ∈ P, p ≠ [])
    (sk : StartKind) (hsk : supportsAnch sk false) (hX : StreamTied X P sk)
    (data : List α) (sched : List Nat)
    (hs : ∀ x ∈ sched, 1 ≤ x) (spare : Option Nat) (minFactor defaultCap : Nat)
    (hcap : (Buffer.new (α := α) (ideal .std P sk false).maxLen spare minFactor defaultCap).min <
        (Buffer.new (α := α) (ideal .std P sk false).maxLen spare minFactor defaultCap).cap) :
    ∃ F : Nat → Option Mat,
      (∀ st, st ≤ data.length + 1 → IsFind .std P data st data.length false (F st)) ∧
      streamFind X { data := data, sched := sched } spare
        minFactor defaultCap = .ok (iterSpec F 0 data.length, false, 0) := by
  obtain ⟨F, h1, h2⟩ :=
    C07_stream_spec P hP hne sk hsk data sched hs spare minFactor defaultCap hcap
  exact ⟨F, h1, (hX.streamFind _ _ _ _).trans h2⟩

theorem C08_replace_eq_tied {X : Aut σ α} (P : List (List α)) (hP : P ≠ []) (hne : ∀ p ∈ P, p ≠ [])
    (sk : StartKind) (hsk : supportsAnch sk false) (hX : StreamTied X P sk)
    (data : List α) (sched : List Nat)
    (hs : ∀ x ∈ sched, 1 ≤ x) (spare : Option Nat) (minFactor defaultCap : Nat)
    (hcap : (Buffer.new (α := α) (ideal .std P sk false).maxLen spare minFactor defaultCap).min <
        (Buffer.new (α := α) (ideal .std P sk false).maxLen spare minFactor defaultCap).cap)
    (repl : Mat → List α) :
    ∃ ms,
      findIter (ideal .std P sk false) none
        { hay := data, s := 0, e := data.length, anch := false, earliest := false,
          valid := ⟨Nat.le_refl _, Nat.zero_le _⟩ } = .ok ms ∧
      streamReplaceWith X { data := data, sched := sched } spare {} repl
        minFactor defaultCap =
        .ok ({ out := (replaceBytes data ms repl none).1 },
          (replaceBytes data ms repl none).2, true, 0) := by
  obtain ⟨ms, h1, h2⟩ :=
    C08_replace_eq P hP hne sk hsk data sched hs spare minFactor defaultCap hcap repl
  exact ⟨ms, h1, (hX.streamReplaceWith _ _ _ _ _ _).trans h2⟩

theorem C18_read_fault_tied {X : Aut σ α} (P : List (List α)) (hP : P ≠ []) (hne : ∀ p ∈ P, p ≠ [])
    (sk : StartKind) (hsk : supportsAnch sk false) (hX : StreamTied X P sk)
    (data : List α) (sched : List Nat)
    (hs : ∀ x ∈ sched, 1 ≤ x) (spare : Option Nat) (minFactor defaultCap : Nat)
    (hcap : (Buffer.new (α := α) (ideal .std P sk false).maxLen spare minFactor defaultCap).min <
        (Buffer.new (α := α) (ideal .std P sk false).maxLen spare minFactor defaultCap).cap)
    (k : Nat) :
    ∃ ms ms' err er,
      streamFind X { data := data, sched := sched } spare
        minFactor defaultCap = .ok (ms, false, 0) ∧
      streamFind X { data := data, sched := sched, failAt := some k } spare
        minFactor defaultCap = .ok (ms', err, er) ∧
      ms' <+: ms ∧ er = 0 ∧ (err = false → ms' = ms) := by
  obtain ⟨ms, ms', err, er, h1, h2, h3⟩ :=
    C18_read_fault P hP hne sk hsk data sched hs spare minFactor defaultCap hcap k
  exact ⟨ms, ms', err, er, (hX.streamFind _ _ _ _).trans h1, (hX.streamFind _ _ _ _).trans h2, h3⟩

theorem C18_write_fault_tied {X : Aut σ α} (P : List (List α)) (hP : P ≠ []) (hne : ∀ p ∈ P, p ≠ [])
    (sk : StartKind) (hsk : supportsAnch sk false) (hX : StreamTied X P sk)
    (data : List α) (sched : List Nat)
    (hs : ∀ x ∈ sched, 1 ≤ x) (spare : Option Nat) (minFactor defaultCap : Nat)
    (hcap : (Buffer.new (α := α) (ideal .std P sk false).maxLen spare minFactor defaultCap).min <
        (Buffer.new (α := α) (ideal .std P sk false).maxLen spare minFactor defaultCap).cap)
    (repl : Mat → List α) (l : Nat) :
    ∃ w w' log log' ok',
      streamReplaceWith X { data := data, sched := sched } spare {} repl
        minFactor defaultCap = .ok (w, log, true, 0) ∧
      streamReplaceWith X { data := data, sched := sched } spare
        { limit := some l } repl minFactor defaultCap = .ok (w', log', ok', 0) ∧
      w'.out <+: w.out ∧ w'.out.length ≤ l ∧ (ok' = true → w'.out = w.out) := by
  obtain ⟨w, w', log, log', ok', h1, h2, h3⟩ :=
    C18_write_fault P hP hne sk hsk data sched hs spare minFactor defaultCap hcap repl l
  exact ⟨w, w', log, log', ok', (hX.streamReplaceWith _ _ _ _ _ _).trans h1,
    (hX.streamReplaceWith _ _ _ _ _ _).trans h2, h3⟩

end ideal

/-! ## the transcribed builders are tied, for every pattern list -/

/-- the compiled noncontiguous NFA (sparse transitions) is tied to the ideal standard automaton -/
theorem L1c_tied (P : List (List UInt8)) (hasPre : Bool) :
    StreamTied ((CNfa.compile .std false P).toAut .std P hasPre) P .both :=
  StreamTied.of_startEquiv rfl (fun _ => rfl) rfl rfl (L1c_startEquiv .std P hasPre false)

/-- the compiled noncontiguous NFA reading its dense rows (any dense depth) is tied to the ideal standard automaton -/
theorem L1cDense_tied (P : List (List UInt8)) (dd : Nat) (hasPre : Bool) :
    StreamTied ((CNfa.compile .std false P).toAutD (denseRows (CNfa.compile .std false P) dd) .std P hasPre) P .both :=
  StreamTied.of_startEquiv rfl (fun _ => rfl) rfl rfl (L1cDense_startEquiv .std P dd hasPre false)

/-- the transcribed DFA is tied to the ideal standard automaton -/
theorem L1d_tied (P : List (List UInt8)) (hasPre bc : Bool) (sk : StartKind) :
    StreamTied ((buildDfa (CNfa.compile .std false P) sk bc).toAut .std P hasPre) P sk :=
  StreamTied.of_startEquiv rfl (fun _ => rfl) rfl rfl (L1d_startEquiv .std P hasPre bc sk false)

/-- the id-level DFA (premultiplied ids, remapped special states) is tied to the ideal standard automaton -/
theorem L1dIds_tied (P : List (List UInt8)) (sk : StartKind) (bc hasPre : Bool) :
    StreamTied ((buildDfaIds (CNfa.compile .std false P) sk bc hasPre).toAut .std P hasPre) P sk :=
  StreamTied.of_startEquiv rfl (fun _ => rfl) rfl rfl (L1dIds_startEquiv .std P sk bc hasPre false)

/-- the contiguous NFA is tied to the ideal standard automaton -/
theorem L1e_tied (P : List (List UInt8)) (hasPre bc : Bool) (dd : Nat) (hPl : P.length < 2147483648) :
    StreamTied ((buildContig (CNfa.compile .std false P) dd bc hasPre).toAut .std P hasPre) P .both :=
  StreamTied.of_startEquiv rfl (fun _ => rfl) rfl rfl (L1e_ideal .std P hasPre bc dd hPl false)

/-! ## … so C07 / C08 / C18 hold for them -/

/-- stream search on the compiled noncontiguous NFA (sparse transitions) = the in-memory iterator (C07) -/
theorem L1c_stream (P : List (List UInt8)) (hP : P ≠ []) (hne : ∀ p ∈ P, p ≠ [])
    (hasPre : Bool)
    (data : List UInt8) (sched : List Nat)
    (hs : ∀ x ∈ sched, 1 ≤ x) (spare : Option Nat) (minFactor defaultCap : Nat)
    (hcap : (Buffer.new (α := UInt8) (ideal .std P .both false).maxLen spare minFactor defaultCap).min <
        (Buffer.new (α := UInt8) (ideal .std P .both false).maxLen spare minFactor defaultCap).cap) :
    ∃ ms,
      findIter (ideal .std P .both false) none
        { hay := data, s := 0, e := data.length, anch := false, earliest := false,
          valid := ⟨Nat.le_refl _, Nat.zero_le _⟩ } = .ok ms ∧
      streamFind ((CNfa.compile .std false P).toAut .std P hasPre) { data := data, sched := sched } spare
        minFactor defaultCap = .ok (ms, false, 0) :=
  C07_stream_eq_iter_tied P hP hne .both (Or.inl rfl) (L1c_tied P hasPre) data sched hs spare minFactor
    defaultCap hcap

/-- stream search on the compiled noncontiguous NFA (sparse transitions) = the specification's iterator over *the* standard answers -/
theorem L1c_stream_spec (P : List (List UInt8)) (hP : P ≠ []) (hne : ∀ p ∈ P, p ≠ [])
    (hasPre : Bool)
    (data : List UInt8) (sched : List Nat)
    (hs : ∀ x ∈ sched, 1 ≤ x) (spare : Option Nat) (minFactor defaultCap : Nat)
    (hcap : (Buffer.new (α := UInt8) (ideal .std P .both false).maxLen spare minFactor defaultCap).min <
        (Buffer.new (α := UInt8) (ideal .std P .both false).maxLen spare minFactor defaultCap).cap) :
    ∃ F : Nat → Option Mat,
      (∀ st, st ≤ data.length + 1 → IsFind .std P data st data.length false (F st)) ∧
      streamFind ((CNfa.compile .std false P).toAut .std P hasPre) { data := data, sched := sched } spare
        minFactor defaultCap = .ok (iterSpec F 0 data.length, false, 0) :=
  C07_stream_spec_tied P hP hne .both (Or.inl rfl) (L1c_tied P hasPre) data sched hs spare minFactor
    defaultCap hcap

/-- stream replace on the compiled noncontiguous NFA (sparse transitions) = in-memory replace (C08) -/
theorem L1c_stream_replace (P : List (List UInt8)) (hP : P ≠ []) (hne : ∀ p ∈ P, p ≠ [])
    (hasPre : Bool)
    (data : List UInt8) (sched : List Nat)
    (hs : ∀ x ∈ sched, 1 ≤ x) (spare : Option Nat) (minFactor defaultCap : Nat)
    (hcap : (Buffer.new (α := UInt8) (ideal .std P .both false).maxLen spare minFactor defaultCap).min <
        (Buffer.new (α := UInt8) (ideal .std P .both false).maxLen spare minFactor defaultCap).cap)
    (repl : Mat → List UInt8) :
    ∃ ms,
      findIter (ideal .std P .both false) none
        { hay := data, s := 0, e := data.length, anch := false, earliest := false,
          valid := ⟨Nat.le_refl _, Nat.zero_le _⟩ } = .ok ms ∧
      streamReplaceWith ((CNfa.compile .std false P).toAut .std P hasPre) { data := data, sched := sched } spare {} repl
        minFactor defaultCap =
        .ok ({ out := (replaceBytes data ms repl none).1 },
          (replaceBytes data ms repl none).2, true, 0) :=
  C08_replace_eq_tied P hP hne .both (Or.inl rfl) (L1c_tied P hasPre) data sched hs spare minFactor
    defaultCap hcap repl

/-- a read failure at call `k` on the compiled noncontiguous NFA (sparse transitions): a prefix of the fault-free matches (C18) -/
theorem L1c_read_fault (P : List (List UInt8)) (hP : P ≠ []) (hne : ∀ p ∈ P, p ≠ [])
    (hasPre : Bool)
    (data : List UInt8) (sched : List Nat)
    (hs : ∀ x ∈ sched, 1 ≤ x) (spare : Option Nat) (minFactor defaultCap : Nat)
    (hcap : (Buffer.new (α := UInt8) (ideal .std P .both false).maxLen spare minFactor defaultCap).min <
        (Buffer.new (α := UInt8) (ideal .std P .both false).maxLen spare minFactor defaultCap).cap)
    (k : Nat) :
    ∃ ms ms' err er,
      streamFind ((CNfa.compile .std false P).toAut .std P hasPre) { data := data, sched := sched } spare
        minFactor defaultCap = .ok (ms, false, 0) ∧
      streamFind ((CNfa.compile .std false P).toAut .std P hasPre) { data := data, sched := sched, failAt := some k } spare
        minFactor defaultCap = .ok (ms', err, er) ∧
      ms' <+: ms ∧ er = 0 ∧ (err = false → ms' = ms) :=
  C18_read_fault_tied P hP hne .both (Or.inl rfl) (L1c_tied P hasPre) data sched hs spare minFactor
    defaultCap hcap k

/-- a writer failing after `l` bytes on the compiled noncontiguous NFA (sparse transitions): a prefix of the fault-free output (C18) -/
theorem L1c_write_fault (P : List (List UInt8)) (hP : P ≠ []) (hne : ∀ p ∈ P, p ≠ [])
    (hasPre : Bool)
    (data : List UInt8) (sched : List Nat)
    (hs : ∀ x ∈ sched, 1 ≤ x) (spare : Option Nat) (minFactor defaultCap : Nat)
    (hcap : (Buffer.new (α := UInt8) (ideal .std P .both false).maxLen spare minFactor defaultCap).min <
        (Buffer.new (α := UInt8) (ideal .std P .both false).maxLen spare minFactor defaultCap).cap)
    (repl : Mat → List UInt8) (l : Nat) :
    ∃ w w' log log' ok',
      streamReplaceWith ((CNfa.compile .std false P).toAut .std P hasPre) { data := data, sched := sched } spare {} repl
        minFactor defaultCap = .ok (w, log, true, 0) ∧
      streamReplaceWith ((CNfa.compile .std false P).toAut .std P hasPre) { data := data, sched := sched } spare
        { limit := some l } repl minFactor defaultCap = .ok (w', log', ok', 0) ∧
      w'.out <+: w.out ∧ w'.out.length ≤ l ∧ (ok' = true → w'.out = w.out) :=
  C18_write_fault_tied P hP hne .both (Or.inl rfl) (L1c_tied P hasPre) data sched hs spare minFactor
    defaultCap hcap repl l

/-- stream search on the compiled noncontiguous NFA reading its dense rows (any dense depth) = the in-memory iterator (C07) -/
theorem L1cDense_stream (P : List (List UInt8)) (hP : P ≠ []) (hne : ∀ p ∈ P, p ≠ [])
    (dd : Nat) (hasPre : Bool)
    (data : List UInt8) (sched : List Nat)
    (hs : ∀ x ∈ sched, 1 ≤ x) (spare : Option Nat) (minFactor defaultCap : Nat)
    (hcap : (Buffer.new (α := UInt8) (ideal .std P .both false).maxLen spare minFactor defaultCap).min <
        (Buffer.new (α := UInt8) (ideal .std P .both false).maxLen spare minFactor defaultCap).cap) :
    ∃ ms,
      findIter (ideal .std P .both false) none
        { hay := data, s := 0, e := data.length, anch := false, earliest := false,
          valid := ⟨Nat.le_refl _, Nat.zero_le _⟩ } = .ok ms ∧
      streamFind ((CNfa.compile .std false P).toAutD (denseRows (CNfa.compile .std false P) dd) .std P hasPre) { data := data, sched := sched } spare
        minFactor defaultCap = .ok (ms, false, 0) :=
  C07_stream_eq_iter_tied P hP hne .both (Or.inl rfl) (L1cDense_tied P dd hasPre) data sched hs spare minFactor
    defaultCap hcap

/-- stream search on the compiled noncontiguous NFA reading its dense rows (any dense depth) = the specification's iterator over *the* standard answers -/
theorem L1cDense_stream_spec (P : List (List UInt8)) (hP : P ≠ []) (hne : ∀ p ∈ P, p ≠ [])
    (dd : Nat) (hasPre : Bool)
    (data : List UInt8) (sched : List Nat)
    (hs : ∀ x ∈ sched, 1 ≤ x) (spare : Option Nat) (minFactor defaultCap : Nat)
    (hcap : (Buffer.new (α := UInt8) (ideal .std P .both false).maxLen spare minFactor defaultCap).min <
        (Buffer.new (α := UInt8) (ideal .std P .both false).maxLen spare minFactor defaultCap).cap) :
    ∃ F : Nat → Option Mat,
      (∀ st, st ≤ data.length + 1 → IsFind .std P data st data.length false (F st)) ∧
      streamFind ((CNfa.compile .std false P).toAutD (denseRows (CNfa.compile .std false P) dd) .std P hasPre) { data := data, sched := sched } spare
        minFactor defaultCap = .ok (iterSpec F 0 data.length, false, 0) :=
  C07_stream_spec_tied P hP hne .both (Or.inl rfl) (L1cDense_tied P dd hasPre) data sched hs spare minFactor
    defaultCap hcap

/-- stream replace on the compiled noncontiguous NFA reading its dense rows (any dense depth) = in-memory replace (C08) -/
theorem L1cDense_stream_replace (P : List (List UInt8)) (hP : P ≠ []) (hne : ∀ p ∈ P, p ≠ [])
    (dd : Nat) (hasPre : Bool)
    (data : List UInt8) (sched : List Nat)
    (hs : ∀ x ∈ sched, 1 ≤ x) (spare : Option Nat) (minFactor defaultCap : Nat)
    (hcap : (Buffer.new (α := UInt8) (ideal .std P .both false).maxLen spare minFactor defaultCap).min <
        (Buffer.new (α := UInt8) (ideal .std P .both false).maxLen spare minFactor defaultCap).cap)
    (repl : Mat → List UInt8) :
    ∃ ms,
      findIter (ideal .std P .both false) none
        { hay := data, s := 0, e := data.length, anch := false, earliest := false,
          valid := ⟨Nat.le_refl _, Nat.zero_le _⟩ } = .ok ms ∧
      streamReplaceWith ((CNfa.compile .std false P).toAutD (denseRows (CNfa.compile .std false P) dd) .std P hasPre) { data := data, sched := sched } spare {} repl
        minFactor defaultCap =
        .ok ({ out := (replaceBytes data ms repl none).1 },
          (replaceBytes data ms repl none).2, true, 0) :=
  C08_replace_eq_tied P hP hne .both (Or.inl rfl) (L1cDense_tied P dd hasPre) data sched hs spare minFactor
    defaultCap hcap repl

/-- a read failure at call `k` on the compiled noncontiguous NFA reading its dense rows (any dense depth): a prefix of the fault-free matches (C18) -/
theorem L1cDense_read_fault (P : List (List UInt8)) (hP : P ≠ []) (hne : ∀ p ∈ P, p ≠ [])
    (dd : Nat) (hasPre : Bool)
    (data : List UInt8) (sched : List Nat)
    (hs : ∀ x ∈ sched, 1 ≤ x) (spare : Option Nat) (minFactor defaultCap : Nat)
    (hcap : (Buffer.new (α := UInt8) (ideal .std P .both false).maxLen spare minFactor defaultCap).min <
        (Buffer.new (α := UInt8) (ideal .std P .both false).maxLen spare minFactor defaultCap).cap)
    (k : Nat) :
    ∃ ms ms' err er,
      streamFind ((CNfa.compile .std false P).toAutD (denseRows (CNfa.compile .std false P) dd) .std P hasPre) { data := data, sched := sched } spare
        minFactor defaultCap = .ok (ms, false, 0) ∧
      streamFind ((CNfa.compile .std false P).toAutD (denseRows (CNfa.compile .std false P) dd) .std P hasPre) { data := data, sched := sched, failAt := some k } spare
        minFactor defaultCap = .ok (ms', err, er) ∧
      ms' <+: ms ∧ er = 0 ∧ (err = false → ms' = ms) :=
  C18_read_fault_tied P hP hne .both (Or.inl rfl) (L1cDense_tied P dd hasPre) data sched hs spare minFactor
    defaultCap hcap k

/-- a writer failing after `l` bytes on the compiled noncontiguous NFA reading its dense rows (any dense depth): a prefix of the fault-free output (C18) -/
theorem L1cDense_write_fault (P : List (List UInt8)) (hP : P ≠ []) (hne : ∀ p ∈ P, p ≠ [])
    (dd : Nat) (hasPre : Bool)
    (data : List UInt8) (sched : List Nat)
    (hs : ∀ x ∈ sched, 1 ≤ x) (spare : Option Nat) (minFactor defaultCap : Nat)
    (hcap : (Buffer.new (α := UInt8) (ideal .std P .both false).maxLen spare minFactor defaultCap).min <
        (Buffer.new (α := UInt8) (ideal .std P .both false).maxLen spare minFactor defaultCap).cap)
    (repl : Mat → List UInt8) (l : Nat) :
    ∃ w w' log log' ok',
      streamReplaceWith ((CNfa.compile .std false P).toAutD (denseRows (CNfa.compile .std false P) dd) .std P hasPre) { data := data, sched := sched } spare {} repl
        minFactor defaultCap = .ok (w, log, true, 0) ∧
      streamReplaceWith ((CNfa.compile .std false P).toAutD (denseRows (CNfa.compile .std false P) dd) .std P hasPre) { data := data, sched := sched } spare
        { limit := some l } repl minFactor defaultCap = .ok (w', log', ok', 0) ∧
      w'.out <+: w.out ∧ w'.out.length ≤ l ∧ (ok' = true → w'.out = w.out) :=
  C18_write_fault_tied P hP hne .both (Or.inl rfl) (L1cDense_tied P dd hasPre) data sched hs spare minFactor
    defaultCap hcap repl l

/-- stream search on the transcribed DFA = the in-memory iterator (C07) -/
theorem L1d_stream (P : List (List UInt8)) (hP : P ≠ []) (hne : ∀ p ∈ P, p ≠ [])
    (hasPre bc : Bool) (sk : StartKind) (hsk : supportsAnch sk false)
    (data : List UInt8) (sched : List Nat)
    (hs : ∀ x ∈ sched, 1 ≤ x) (spare : Option Nat) (minFactor defaultCap : Nat)
    (hcap : (Buffer.new (α := UInt8) (ideal .std P sk false).maxLen spare minFactor defaultCap).min <
        (Buffer.new (α := UInt8) (ideal .std P sk false).maxLen spare minFactor defaultCap).cap) :
    ∃ ms,
      findIter (ideal .std P sk false) none
        { hay := data, s := 0, e := data.length, anch := false, earliest := false,
          valid := ⟨Nat.le_refl _, Nat.zero_le _⟩ } = .ok ms ∧
      streamFind ((buildDfa (CNfa.compile .std false P) sk bc).toAut .std P hasPre) { data := data, sched := sched } spare
        minFactor defaultCap = .ok (ms, false, 0) :=
  C07_stream_eq_iter_tied P hP hne sk (hsk) (L1d_tied P hasPre bc sk) data sched hs spare minFactor
    defaultCap hcap

/-- stream search on the transcribed DFA = the specification's iterator over *the* standard answers -/
theorem L1d_stream_spec (P : List (List UInt8)) (hP : P ≠ []) (hne : ∀ p ∈ P, p ≠ [])
    (hasPre bc : Bool) (sk : StartKind) (hsk : supportsAnch sk false)
    (data : List UInt8) (sched : List Nat)
    (hs : ∀ x ∈ sched, 1 ≤ x) (spare : Option Nat) (minFactor defaultCap : Nat)
    (hcap : (Buffer.new (α := UInt8) (ideal .std P sk false).maxLen spare minFactor defaultCap).min <
        (Buffer.new (α := UInt8) (ideal .std P sk false).maxLen spare minFactor defaultCap).cap) :
    ∃ F : Nat → Option Mat,
      (∀ st, st ≤ data.length + 1 → IsFind .std P data st data.length false (F st)) ∧
      streamFind ((buildDfa (CNfa.compile .std false P) sk bc).toAut .std P hasPre) { data := data, sched := sched } spare
        minFactor defaultCap = .ok (iterSpec F 0 data.length, false, 0) :=
  C07_stream_spec_tied P hP hne sk (hsk) (L1d_tied P hasPre bc sk) data sched hs spare minFactor
    defaultCap hcap

/-- stream replace on the transcribed DFA = in-memory replace (C08) -/
theorem L1d_stream_replace (P : List (List UInt8)) (hP : P ≠ []) (hne : ∀ p ∈ P, p ≠ [])
    (hasPre bc : Bool) (sk : StartKind) (hsk : supportsAnch sk false)
    (data : List UInt8) (sched : List Nat)
    (hs : ∀ x ∈ sched, 1 ≤ x) (spare : Option Nat) (minFactor defaultCap : Nat)
    (hcap : (Buffer.new (α := UInt8) (ideal .std P sk false).maxLen spare minFactor defaultCap).min <
        (Buffer.new (α := UInt8) (ideal .std P sk false).maxLen spare minFactor defaultCap).cap)
    (repl : Mat → List UInt8) :
    ∃ ms,
      findIter (ideal .std P sk false) none
        { hay := data, s := 0, e := data.length, anch := false, earliest := false,
          valid := ⟨Nat.le_refl _, Nat.zero_le _⟩ } = .ok ms ∧
      streamReplaceWith ((buildDfa (CNfa.compile .std false P) sk bc).toAut .std P hasPre) { data := data, sched := sched } spare {} repl
        minFactor defaultCap =
        .ok ({ out := (replaceBytes data ms repl none).1 },
          (replaceBytes data ms repl none).2, true, 0) :=
  C08_replace_eq_tied P hP hne sk (hsk) (L1d_tied P hasPre bc sk) data sched hs spare minFactor
    defaultCap hcap repl

/-- a read failure at call `k` on the transcribed DFA: a prefix of the fault-free matches (C18) -/
theorem L1d_read_fault (P : List (List UInt8)) (hP : P ≠ []) (hne : ∀ p ∈ P, p ≠ [])
    (hasPre bc : Bool) (sk : StartKind) (hsk : supportsAnch sk false)
    (data : List UInt8) (sched : List Nat)
    (hs : ∀ x ∈ sched, 1 ≤ x) (spare : Option Nat) (minFactor defaultCap : Nat)
    (hcap : (Buffer.new (α := UInt8) (ideal .std P sk false).maxLen spare minFactor defaultCap).min <
        (Buffer.new (α := UInt8) (ideal .std P sk false).maxLen spare minFactor defaultCap).cap)
    (k : Nat) :
    ∃ ms ms' err er,
      streamFind ((buildDfa (CNfa.compile .std false P) sk bc).toAut .std P hasPre) { data := data, sched := sched } spare
        minFactor defaultCap = .ok (ms, false, 0) ∧
      streamFind ((buildDfa (CNfa.compile .std false P) sk bc).toAut .std P hasPre) { data := data, sched := sched, failAt := some k } spare
        minFactor defaultCap = .ok (ms', err, er) ∧
      ms' <+: ms ∧ er = 0 ∧ (err = false → ms' = ms) :=
  C18_read_fault_tied P hP hne sk (hsk) (L1d_tied P hasPre bc sk) data sched hs spare minFactor
    defaultCap hcap k

/-- a writer failing after `l` bytes on the transcribed DFA: a prefix of the fault-free output (C18) -/
theorem L1d_write_fault (P : List (List UInt8)) (hP : P ≠ []) (hne : ∀ p ∈ P, p ≠ [])
    (hasPre bc : Bool) (sk : StartKind) (hsk : supportsAnch sk false)
    (data : List UInt8) (sched : List Nat)
    (hs : ∀ x ∈ sched, 1 ≤ x) (spare : Option Nat) (minFactor defaultCap : Nat)
    (hcap : (Buffer.new (α := UInt8) (ideal .std P sk false).maxLen spare minFactor defaultCap).min <
        (Buffer.new (α := UInt8) (ideal .std P sk false).maxLen spare minFactor defaultCap).cap)
    (repl : Mat → List UInt8) (l : Nat) :
    ∃ w w' log log' ok',
      streamReplaceWith ((buildDfa (CNfa.compile .std false P) sk bc).toAut .std P hasPre) { data := data, sched := sched } spare {} repl
        minFactor defaultCap = .ok (w, log, true, 0) ∧
      streamReplaceWith ((buildDfa (CNfa.compile .std false P) sk bc).toAut .std P hasPre) { data := data, sched := sched } spare
        { limit := some l } repl minFactor defaultCap = .ok (w', log', ok', 0) ∧
      w'.out <+: w.out ∧ w'.out.length ≤ l ∧ (ok' = true → w'.out = w.out) :=
  C18_write_fault_tied P hP hne sk (hsk) (L1d_tied P hasPre bc sk) data sched hs spare minFactor
    defaultCap hcap repl l

/-- stream search on the id-level DFA (premultiplied ids, remapped special states) = the in-memory iterator (C07) -/
theorem L1dIds_stream (P : List (List UInt8)) (hP : P ≠ []) (hne : ∀ p ∈ P, p ≠ [])
    (sk : StartKind) (bc hasPre : Bool) (hsk : supportsAnch sk false)
    (data : List UInt8) (sched : List Nat)
    (hs : ∀ x ∈ sched, 1 ≤ x) (spare : Option Nat) (minFactor defaultCap : Nat)
    (hcap : (Buffer.new (α := UInt8) (ideal .std P sk false).maxLen spare minFactor defaultCap).min <
        (Buffer.new (α := UInt8) (ideal .std P sk false).maxLen spare minFactor defaultCap).cap) :
    ∃ ms,
      findIter (ideal .std P sk false) none
        { hay := data, s := 0, e := data.length, anch := false, earliest := false,
          valid := ⟨Nat.le_refl _, Nat.zero_le _⟩ } = .ok ms ∧
      streamFind ((buildDfaIds (CNfa.compile .std false P) sk bc hasPre).toAut .std P hasPre) { data := data, sched := sched } spare
        minFactor defaultCap = .ok (ms, false, 0) :=
  C07_stream_eq_iter_tied P hP hne sk (hsk) (L1dIds_tied P sk bc hasPre) data sched hs spare minFactor
    defaultCap hcap

/-- stream search on the id-level DFA (premultiplied ids, remapped special states) = the specification's iterator over *the* standard answers -/
theorem L1dIds_stream_spec (P : List (List UInt8)) (hP : P ≠ []) (hne : ∀ p ∈ P, p ≠ [])
    (sk : StartKind) (bc hasPre : Bool) (hsk : supportsAnch sk false)
    (data : List UInt8) (sched : List Nat)
    (hs : ∀ x ∈ sched, 1 ≤ x) (spare : Option Nat) (minFactor defaultCap : Nat)
    (hcap : (Buffer.new (α := UInt8) (ideal .std P sk false).maxLen spare minFactor defaultCap).min <
        (Buffer.new (α := UInt8) (ideal .std P sk false).maxLen spare minFactor defaultCap).cap) :
    ∃ F : Nat → Option Mat,
      (∀ st, st ≤ data.length + 1 → IsFind .std P data st data.length false (F st)) ∧
      streamFind ((buildDfaIds (CNfa.compile .std false P) sk bc hasPre).toAut .std P hasPre) { data := data, sched := sched } spare
        minFactor defaultCap = .ok (iterSpec F 0 data.length, false, 0) :=
  C07_stream_spec_tied P hP hne sk (hsk) (L1dIds_tied P sk bc hasPre) data sched hs spare minFactor
    defaultCap hcap

/-- stream replace on the id-level DFA (premultiplied ids, remapped special states) = in-memory replace (C08) -/
theorem L1dIds_stream_replace (P : List (List UInt8)) (hP : P ≠ []) (hne : ∀ p ∈ P, p ≠ [])
    (sk : StartKind) (bc hasPre : Bool) (hsk : supportsAnch sk false)
    (data : List UInt8) (sched : List Nat)
    (hs : ∀ x ∈ sched, 1 ≤ x) (spare : Option Nat) (minFactor defaultCap : Nat)
    (hcap : (Buffer.new (α := UInt8) (ideal .std P sk false).maxLen spare minFactor defaultCap).min <
        (Buffer.new (α := UInt8) (ideal .std P sk false).maxLen spare minFactor defaultCap).cap)
    (repl : Mat → List UInt8) :
    ∃ ms,
      findIter (ideal .std P sk false) none
        { hay := data, s := 0, e := data.length, anch := false, earliest := false,
          valid := ⟨Nat.le_refl _, Nat.zero_le _⟩ } = .ok ms ∧
      streamReplaceWith ((buildDfaIds (CNfa.compile .std false P) sk bc hasPre).toAut .std P hasPre) { data := data, sched := sched } spare {} repl
        minFactor defaultCap =
        .ok ({ out := (replaceBytes data ms repl none).1 },
          (replaceBytes data ms repl none).2, true, 0) :=
  C08_replace_eq_tied P hP hne sk (hsk) (L1dIds_tied P sk bc hasPre) data sched hs spare minFactor
    defaultCap hcap repl

/-- a read failure at call `k` on the id-level DFA (premultiplied ids, remapped special states): a prefix of the fault-free matches (C18) -/
theorem L1dIds_read_fault (P : List (List UInt8)) (hP : P ≠ []) (hne : ∀ p ∈ P, p ≠ [])
    (sk : StartKind) (bc hasPre : Bool) (hsk : supportsAnch sk false)
    (data : List UInt8) (sched : List Nat)
    (hs : ∀ x ∈ sched, 1 ≤ x) (spare : Option Nat) (minFactor defaultCap : Nat)
    (hcap : (Buffer.new (α := UInt8) (ideal .std P sk false).maxLen spare minFactor defaultCap).min <
        (Buffer.new (α := UInt8) (ideal .std P sk false).maxLen spare minFactor defaultCap).cap)
    (k : Nat) :
    ∃ ms ms' err er,
      streamFind ((buildDfaIds (CNfa.compile .std false P) sk bc hasPre).toAut .std P hasPre) { data := data, sched := sched } spare
        minFactor defaultCap = .ok (ms, false, 0) ∧
      streamFind ((buildDfaIds (CNfa.compile .std false P) sk bc hasPre).toAut .std P hasPre) { data := data, sched := sched, failAt := some k } spare
        minFactor defaultCap = .ok (ms', err, er) ∧
      ms' <+: ms ∧ er = 0 ∧ (err = false → ms' = ms) :=
  C18_read_fault_tied P hP hne sk (hsk) (L1dIds_tied P sk bc hasPre) data sched hs spare minFactor
    defaultCap hcap k

/-- a writer failing after `l` bytes on the id-level DFA (premultiplied ids, remapped special states): a prefix of the fault-free output (C18) -/
theorem L1dIds_write_fault (P : List (List UInt8)) (hP : P ≠ []) (hne : ∀ p ∈ P, p ≠ [])
    (sk : StartKind) (bc hasPre : Bool) (hsk : supportsAnch sk false)
    (data : List UInt8) (sched : List Nat)
    (hs : ∀ x ∈ sched, 1 ≤ x) (spare : Option Nat) (minFactor defaultCap : Nat)
    (hcap : (Buffer.new (α := UInt8) (ideal .std P sk false).maxLen spare minFactor defaultCap).min <
        (Buffer.new (α := UInt8) (ideal .std P sk false).maxLen spare minFactor defaultCap).cap)
    (repl : Mat → List UInt8) (l : Nat) :
    ∃ w w' log log' ok',
      streamReplaceWith ((buildDfaIds (CNfa.compile .std false P) sk bc hasPre).toAut .std P hasPre) { data := data, sched := sched } spare {} repl
        minFactor defaultCap = .ok (w, log, true, 0) ∧
      streamReplaceWith ((buildDfaIds (CNfa.compile .std false P) sk bc hasPre).toAut .std P hasPre) { data := data, sched := sched } spare
        { limit := some l } repl minFactor defaultCap = .ok (w', log', ok', 0) ∧
      w'.out <+: w.out ∧ w'.out.length ≤ l ∧ (ok' = true → w'.out = w.out) :=
  C18_write_fault_tied P hP hne sk (hsk) (L1dIds_tied P sk bc hasPre) data sched hs spare minFactor
    defaultCap hcap repl l

/-- stream search on the contiguous NFA = the in-memory iterator (C07) -/
theorem L1e_stream (P : List (List UInt8)) (hP : P ≠ []) (hne : ∀ p ∈ P, p ≠ [])
    (hasPre bc : Bool) (dd : Nat) (hPl : P.length < 2147483648)
    (data : List UInt8) (sched : List Nat)
    (hs : ∀ x ∈ sched, 1 ≤ x) (spare : Option Nat) (minFactor defaultCap : Nat)
    (hcap : (Buffer.new (α := UInt8) (ideal .std P .both false).maxLen spare minFactor defaultCap).min <
        (Buffer.new (α := UInt8) (ideal .std P .both false).maxLen spare minFactor defaultCap).cap) :
    ∃ ms,
      findIter (ideal .std P .both false) none
        { hay := data, s := 0, e := data.length, anch := false, earliest := false,
          valid := ⟨Nat.le_refl _, Nat.zero_le _⟩ } = .ok ms ∧
      streamFind ((buildContig (CNfa.compile .std false P) dd bc hasPre).toAut .std P hasPre) { data := data, sched := sched } spare
        minFactor defaultCap = .ok (ms, false, 0) :=
  C07_stream_eq_iter_tied P hP hne .both (Or.inl rfl) (L1e_tied P hasPre bc dd hPl) data sched hs spare minFactor
    defaultCap hcap

/-- stream search on the contiguous NFA = the specification's iterator over *the* standard answers -/
theorem L1e_stream_spec (P : List (List UInt8)) (hP : P ≠ []) (hne : ∀ p ∈ P, p ≠ [])
    (hasPre bc : Bool) (dd : Nat) (hPl : P.length < 2147483648)
    (data : List UInt8) (sched : List Nat)
    (hs : ∀ x ∈ sched, 1 ≤ x) (spare : Option Nat) (minFactor defaultCap : Nat)
    (hcap : (Buffer.new (α := UInt8) (ideal .std P .both false).maxLen spare minFactor defaultCap).min <
        (Buffer.new (α := UInt8) (ideal .std P .both false).maxLen spare minFactor defaultCap).cap) :
    ∃ F : Nat → Option Mat,
      (∀ st, st ≤ data.length + 1 → IsFind .std P data st data.length false (F st)) ∧
      streamFind ((buildContig (CNfa.compile .std false P) dd bc hasPre).toAut .std P hasPre) { data := data, sched := sched } spare
        minFactor defaultCap = .ok (iterSpec F 0 data.length, false, 0) :=
  C07_stream_spec_tied P hP hne .both (Or.inl rfl) (L1e_tied P hasPre bc dd hPl) data sched hs spare minFactor
    defaultCap hcap

/-- stream replace on the contiguous NFA = in-memory replace (C08) -/
theorem L1e_stream_replace (P : List (List UInt8)) (hP : P ≠ []) (hne : ∀ p ∈ P, p ≠ [])
    (hasPre bc : Bool) (dd : Nat) (hPl : P.length < 2147483648)
    (data : List UInt8) (sched : List Nat)
    (hs : ∀ x ∈ sched, 1 ≤ x) (spare : Option Nat) (minFactor defaultCap : Nat)
    (hcap : (Buffer.new (α := UInt8) (ideal .std P .both false).maxLen spare minFactor defaultCap).min <
        (Buffer.new (α := UInt8) (ideal .std P .both false).maxLen spare minFactor defaultCap).cap)
    (repl : Mat → List UInt8) :
    ∃ ms,
      findIter (ideal .std P .both false) none
        { hay := data, s := 0, e := data.length, anch := false, earliest := false,
          valid := ⟨Nat.le_refl _, Nat.zero_le _⟩ } = .ok ms ∧
      streamReplaceWith ((buildContig (CNfa.compile .std false P) dd bc hasPre).toAut .std P hasPre) { data := data, sched := sched } spare {} repl
        minFactor defaultCap =
        .ok ({ out := (replaceBytes data ms repl none).1 },
          (replaceBytes data ms repl none).2, true, 0) :=
  C08_replace_eq_tied P hP hne .both (Or.inl rfl) (L1e_tied P hasPre bc dd hPl) data sched hs spare minFactor
    defaultCap hcap repl

/-- a read failure at call `k` on the contiguous NFA: a prefix of the fault-free matches (C18) -/
theorem L1e_read_fault (P : List (List UInt8)) (hP : P ≠ []) (hne : ∀ p ∈ P, p ≠ [])
    (hasPre bc : Bool) (dd : Nat) (hPl : P.length < 2147483648)
    (data : List UInt8) (sched : List Nat)
    (hs : ∀ x ∈ sched, 1 ≤ x) (spare : Option Nat) (minFactor defaultCap : Nat)
    (hcap : (Buffer.new (α := UInt8) (ideal .std P .both false).maxLen spare minFactor defaultCap).min <
        (Buffer.new (α := UInt8) (ideal .std P .both false).maxLen spare minFactor defaultCap).cap)
    (k : Nat) :
    ∃ ms ms' err er,
      streamFind ((buildContig (CNfa.compile .std false P) dd bc hasPre).toAut .std P hasPre) { data := data, sched := sched } spare
        minFactor defaultCap = .ok (ms, false, 0) ∧
      streamFind ((buildContig (CNfa.compile .std false P) dd bc hasPre).toAut .std P hasPre) { data := data, sched := sched, failAt := some k } spare
        minFactor defaultCap = .ok (ms', err, er) ∧
      ms' <+: ms ∧ er = 0 ∧ (err = false → ms' = ms) :=
  C18_read_fault_tied P hP hne .both (Or.inl rfl) (L1e_tied P hasPre bc dd hPl) data sched hs spare minFactor
    defaultCap hcap k

/-- a writer failing after `l` bytes on the contiguous NFA: a prefix of the fault-free output (C18) -/
theorem L1e_write_fault (P : List (List UInt8)) (hP : P ≠ []) (hne : ∀ p ∈ P, p ≠ [])
    (hasPre bc : Bool) (dd : Nat) (hPl : P.length < 2147483648)
    (data : List UInt8) (sched : List Nat)
    (hs : ∀ x ∈ sched, 1 ≤ x) (spare : Option Nat) (minFactor defaultCap : Nat)
    (hcap : (Buffer.new (α := UInt8) (ideal .std P .both false).maxLen spare minFactor defaultCap).min <
        (Buffer.new (α := UInt8) (ideal .std P .both false).maxLen spare minFactor defaultCap).cap)
    (repl : Mat → List UInt8) (l : Nat) :
    ∃ w w' log log' ok',
      streamReplaceWith ((buildContig (CNfa.compile .std false P) dd bc hasPre).toAut .std P hasPre) { data := data, sched := sched } spare {} repl
        minFactor defaultCap = .ok (w, log, true, 0) ∧
      streamReplaceWith ((buildContig (CNfa.compile .std false P) dd bc hasPre).toAut .std P hasPre) { data := data, sched := sched } spare
        { limit := some l } repl minFactor defaultCap = .ok (w', log', ok', 0) ∧
      w'.out <+: w.out ∧ w'.out.length ≤ l ∧ (ok' = true → w'.out = w.out) :=
  C18_write_fault_tied P hP hne .both (Or.inl rfl) (L1e_tied P hasPre bc dd hPl) data sched hs spare minFactor
    defaultCap hcap repl l

/-! ## non-vacuity: the DFA and the contiguous NFA of `[1,2,3]`, `[3,4]`, a match split across
reads, capacity `min + 1`, with a prefilter flag -/

example : ∃ ms,
    findIter (ideal .std ([[1, 2, 3], [3, 4]] : List (List UInt8)) .both false) none
      { hay := [0, 1, 2, 3, 4, 1, 2, 3], s := 0, e := 8, anch := false, earliest := false,
        valid := ⟨Nat.le_refl _, Nat.zero_le _⟩ } = .ok ms ∧
    streamFind ((buildDfa (CNfa.compile .std false [[1, 2, 3], [3, 4]]) .both true).toAut .std
        [[1, 2, 3], [3, 4]] true)
      { data := [0, 1, 2, 3, 4, 1, 2, 3], sched := [2, 1, 3, 1] } (some 1) 8 65536 =
      .ok (ms, false, 0) :=
  L1d_stream [[1, 2, 3], [3, 4]] (by decide) (by decide) true true .both (Or.inl rfl)
    [0, 1, 2, 3, 4, 1, 2, 3] [2, 1, 3, 1] (by decide) (some 1) 8 65536 (hcap_default _ _)

example : ∃ ms,
    findIter (ideal .std ([[1, 2, 3], [3, 4]] : List (List UInt8)) .both false) none
      { hay := [0, 1, 2, 3, 4, 1, 2, 3], s := 0, e := 8, anch := false, earliest := false,
        valid := ⟨Nat.le_refl _, Nat.zero_le _⟩ } = .ok ms ∧
    streamFind ((buildContig (CNfa.compile .std false [[1, 2, 3], [3, 4]]) 0 true true).toAut .std
        [[1, 2, 3], [3, 4]] true)
      { data := [0, 1, 2, 3, 4, 1, 2, 3], sched := [2, 1, 3, 1] } (some 1) 8 65536 =
      .ok (ms, false, 0) :=
  L1e_stream [[1, 2, 3], [3, 4]] (by decide) (by decide) true true 0 (by decide)
    [0, 1, 2, 3, 4, 1, 2, 3] [2, 1, 3, 1] (by decide) (some 1) 8 65536 (hcap_default _ _)

set_option maxRecDepth 1000000 in
/-- … and evaluated: reads of 2, 1, 3, 1, … bytes into a 4-byte buffer, `[1,2,3]` arrives in two
reads; the DFA and the contiguous NFA (both with the prefilter flag set) report the two matches
(`Except` has no `DecidableEq`, hence `toOption`) -/
example : (streamFind ((buildDfa (CNfa.compile .std false [[1, 2, 3], [3, 4]]) .both true).toAut .std
        [[1, 2, 3], [3, 4]] true)
      { data := [0, 1, 2, 3, 4, 1, 2, 3], sched := [2, 1, 3, 1] } (some 1)).toOption =
      some ([⟨0, 1, 4⟩, ⟨0, 5, 8⟩], false, 0) := by decide +kernel

set_option maxRecDepth 1000000 in
example : (streamFind ((buildContig (CNfa.compile .std false [[1, 2, 3], [3, 4]]) 0 true true).toAut
        .std [[1, 2, 3], [3, 4]] true)
      { data := [0, 1, 2, 3, 4, 1, 2, 3], sched := [2, 1, 3, 1] } (some 1)).toOption =
      some ([⟨0, 1, 4⟩, ⟨0, 5, 8⟩], false, 0) := by decide +kernel

end AcVerif
