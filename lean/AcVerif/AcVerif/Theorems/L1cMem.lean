import AcVerif.Proofs.NfaMemFull
import AcVerif.Proofs.NfaMemMatch
import AcVerif.Proofs.NfaMemRewrite
/-!
# L1c-mem – the linked-list memory layer of the noncontiguous NFA refines the abstract
states of `AcVerif/Compiler.lean`

`AcVerif/NfaMem.lean` transcribes `State { sparse, matches, fail, depth }`, the shared vectors
`nfa.sparse : Vec<Transition { byte, next, link }>` and `nfa.matches : Vec<Match { pid, link }>`
and the methods `alloc_transition`, `alloc_match`, `add_transition`, `init_full_state`,
`follow_transition_sparse`, `add_match`, `copy_matches`, `iter_trans`, `iter_matches` of
`src/nfa/noncontiguous.rs`.  Here:

* `MemOK m` – the representation invariant (`MemP.MemOKW`, with the cell lists as witnesses):
  both dummy entries at index 0 exist and still hold the default value; for every state the
  `link` chain from its `sparse` head is finite, ends in `0`, stays inside the vector and is
  **strictly increasing in `byte`**; the chains of two different states share no cell; the same
  (with "no repeated cell" in place of sortedness) for the `matches` chains.  The witnesses are
  unique (`MemP.MemOKW.unique`).
* `absState m sid : CState` (`trans := iter_trans`, `matches_ := iter_matches`, `fail`), and
  `absNfa m : CNfa`.

Theorems (all for an arbitrary `m` with `MemOK m`; `sid`/`prev`/`dst` in range):

| Rust method | theorem | abstract counterpart in `Compiler.lean` |
|---|---|---|
| initial `NFA` (+ 2 dummy pushes) | `memOK_empty`, `absNfa_empty` | `#[]` |
| `alloc_state` | `allocState_memOK`, `absNfa_allocState` | `n.push { fail := … }` |
| `add_transition` | `addTransition_memOK`, `absState_addTransition`, `absState_addTransition_frame`, `absNfa_addTransition` | `CNfa.addTransition` (`insertTrans`: sorted insert **with overwrite**) |
| `follow_transition_sparse` | `followTransitionSparse_eq` | `CNfa.follow` (`FAIL` when absent) |
| `init_full_state` | `initFullState_memOK`, `absState_initFullState`, `absNfa_initFullState`, `initFullState_follow` | `trans := CNfa.fullTrans next` (as in `CNfa.init`) |
| `add_match` | `addMatch_memOK`, `iterMatches_addMatch`, `absNfa_addMatch` | `matches_ := matches_ ++ [pid]` (`buildTrie`) |
| `copy_matches` | `copyMatches_memOK`, `iterMatches_copyMatches`, `iterMatches_copyMatches_frame`, `absNfa_copyMatches` | `CNfa.copyMatches` (`dst ++ src`) |
| `State::is_match` | `isMatch_eq` | `CNfa.isMatch` |
| `iter_trans` | `sorted_iterTrans` | the `Sorted` invariant of L1c |
| preamble of `compile` | `memOK_init`, `absNfa_init`, `absNfa_init_trans` | `CNfa.init` **up to three `fail` fields**, see below |
| `add_unanchored_start_state_loop` (walks with `next_link`, writes `next` in place) | `absNfa_addUnanchoredStartStateLoop` | `CNfa.addStartLoop` |
| `close_start_state_loop_for_leftmost` | `absNfa_closeStartStateLoopForLeftmost` | `CNfa.closeStartLoop` |
| `set_anchored_start_state` (lock-step walk, `copy_matches`, `fail = DEAD`) | `absNfa_setAnchoredStartState` | `CNfa.setAnchoredStart` |
| `states[sid].fail = f` | `MemP.setFail_spec` | `n.modify sid { fail := f }` |

Frame conditions are part of every entry: an operation on `sid` leaves `absState m sid'`
(`sid' ≠ sid`) alone, transition operations leave every match list alone and vice versa, and
`fail` is never written.

Differences between the linked-list code and the abstract helpers, stated exactly:

* `copy_matches(src, dst)` is only covered for `src ≠ dst` (`CNfa.copyMatches n s s` doubles the
  list; the Rust loop with `src == dst` and a non-empty list chases the tail it is growing and
  never leaves the loop – it ends with the `StateID` overflow error after filling memory; the
  example `copy_self_diverges` shows the fuel-bounded model still copying when the fuel runs
  out).  The compiler never calls it with `src == dst`.
* `add_match` / `copy_matches` start their tail walk by reading `self.matches[head]` *before*
  testing `head == 0`: on a state without matches they read the dummy `matches[0]` and rely on
  its `link` being `0`.  This is why "dummy untouched" is part of `MemOK` (it is needed by
  `MemP.tailWalk_eq`); nothing in the transition code depends on `sparse[0]`.
* `init_full_state` is only specified for a state without transitions (the Rust `assert_eq!`;
  `initFullState?` models the assertion, `initFullState?_isSome`).
* `add_transition`'s sorted insert does not need the list to be sorted in order to commute with
  `insertTrans` (both do the same comparisons in the same order); sortedness is needed for
  `follow_transition_sparse` (early exit) and is preserved by every operation.
* `set_anchored_start_state` copies `next` cell by cell along both start lists and never looks at
  the bytes; `CNfa.setAnchoredStart` copies the whole list.  They agree when both lists carry the
  same bytes (hypothesis `hbytes` of `absNfa_setAnchoredStartState`; the general relation is the
  `zipWith` of `MemP.copyNextGo_spec`); with lists of different lengths the crate hits
  `unreachable!()` (`copyNextGo = none`).
* `CNfa.init` gives `DEAD`, `FAIL` and the unanchored start the failure link `SU = 2`; the
  crate's `alloc_state` reads `special.start_unanchored_id`, which is still `0` when these
  three states are allocated, so they get `fail = 0` (`absNfa_init`).  This is the known
  harmless difference already recorded in `NfaIds.lean`; the memory model has the crate's value.

The seeded defect "`copy_matches` links the copies behind the FIRST own match instead of the
last" is refuted by `iterMatches_copyMatches` for every `dst` with two or more own matches
(concrete instance: `copy_keeps_both_own_matches` below, and `buggy_copy_drops_a_match` for the
defective variant).

Proof structure (`AcVerif/Proofs/NfaMem*.lean`, namespace `AcVerif.MemP`): `IsChain` /
`IsChain.insert` (splicing a fresh cell into a chain), `MemOKW`, `insCell` / `insCell_okw` (all
three allocation sites of transitions are instances), `addTransWalk_spec`,
`addTransition_cases`, `initFullLoop_spec`, `tailWalk_eq`, `appCell` / `appCell_okw`,
`copyLoop_spec`, `replaceNextGo_spec`, `copyNextGo_spec`.
-/
namespace AcVerif
open AcVerif.MemP AcVerif.L1cP

/-- the abstract state that the memory of `sid` represents -/
def absState (m : MemNfa) (sid : Nat) : CState :=
  { trans := m.iterTrans sid, fail := (m.st sid).fail, matches_ := m.iterMatches sid }

/-- the abstract NFA that the memory represents -/
def absNfa (m : MemNfa) : CNfa := (Array.range m.states.size).map (absState m)

/-- the representation invariant (see the header) -/
abbrev MemOK (m : MemNfa) : Prop := MemP.MemOK m

@[simp] theorem size_absNfa (m : MemNfa) : (absNfa m).size = m.states.size := by simp [absNfa]

theorem getD_absNfa (m : MemNfa) (s : Nat) :
    (absNfa m).getD s {} = if s < m.states.size then absState m s else {} := by
  unfold absNfa
  by_cases h : s < m.states.size
  · simp [Array.getD_eq_getD_getElem?, h]
  · simp [Array.getD_eq_getD_getElem?, h]

/-- out of range both sides read an empty transition list and an empty match list -/
theorem absState_oob {m : MemNfa} (h : MemOK m) {s : Nat} (hs : m.states.size ≤ s) :
    (absState m s).trans = [] ∧ (absState m s).matches_ = [] := by
  obtain ⟨tc, mc, hw⟩ := h
  have h1 := hw.tchain s
  have h2 := hw.mchain s
  rw [st_oob m hs] at h1 h2
  constructor
  · show m.iterTrans s = []
    rw [iterTrans_eq hw, h1.eq_nil]; rfl
  · show m.iterMatches s = []
    rw [iterMatches_eq hw, h2.eq_nil]; rfl

/-- how to establish `absNfa m' = (absNfa m).modify sid f` -/
theorem absNfa_eq_modify {m m' : MemNfa} {sid : Nat} {f : CState → CState}
    (hsz : m'.states.size = m.states.size)
    (hsid : absState m' sid = f (absState m sid))
    (hframe : ∀ s, s ≠ sid → absState m' s = absState m s) :
    absNfa m' = (absNfa m).modify sid f := by
  apply arr_ext_getD ({} : CState)
  · simp [hsz]
  · intro s hs
    rw [size_absNfa] at hs
    have hs' : s < m.states.size := hsz ▸ hs
    rw [getD_modify, size_absNfa, getD_absNfa, getD_absNfa, if_pos hs, if_pos hs']
    by_cases e : sid = s
    · subst e; rw [if_pos ⟨rfl, hs'⟩]; exact hsid
    · rw [if_neg (fun h => e h.1)]; exact hframe s (Ne.symm e)

/-! ## the initial value, `alloc_state` -/

theorem memOK_empty : MemOK MemNfa.empty := ⟨_, _, memOKW_empty⟩

theorem absNfa_empty : absNfa MemNfa.empty = #[] := by simp [absNfa, MemNfa.empty]

theorem st_allocState (m : MemNfa) (depth fail s : Nat) :
    (m.allocState depth fail).1.st s =
      if s = m.states.size then { sparse := 0, matches_ := 0, fail := fail, depth := depth }
      else m.st s :=
  arr_getD_push _ _ _ _

theorem allocState_heads (m : MemNfa) (depth fail s : Nat) :
    ((m.allocState depth fail).1.st s).sparse = (m.st s).sparse ∧
      ((m.allocState depth fail).1.st s).matches_ = (m.st s).matches_ := by
  rw [st_allocState]
  split
  · rename_i e; subst e; rw [st_oob m (Nat.le_refl _)]; exact ⟨rfl, rfl⟩
  · exact ⟨rfl, rfl⟩

theorem allocState_memOK {m : MemNfa} (h : MemOK m) (depth fail : Nat) :
    MemOK (m.allocState depth fail).1 := by
  obtain ⟨tc, mc, hw⟩ := h
  have hsp := allocState_heads m depth fail
  exact ⟨tc, mc, {
    tpos := hw.tpos, mpos := hw.mpos, tsent := hw.tsent, msent := hw.msent
    tchain := fun s => by rw [(hsp s).1]; exact hw.tchain s
    tlt := hw.tlt, tsorted := hw.tsorted, tdisj := hw.tdisj
    mchain := fun s => by rw [(hsp s).2]; exact hw.mchain s
    mlt := hw.mlt, mnodup := hw.mnodup, mdisj := hw.mdisj }⟩

/-- `alloc_state` pushes a state without transitions and matches and returns its id -/
theorem absNfa_allocState {m : MemNfa} (h : MemOK m) (depth fail : Nat) :
    absNfa (m.allocState depth fail).1 = (absNfa m).push { fail := fail } ∧
    (m.allocState depth fail).2 = (absNfa m).size := by
  refine ⟨?_, (size_absNfa m).symm⟩
  have hsz : (m.allocState depth fail).1.states.size = m.states.size + 1 := Array.size_push _
  have habs : ∀ s, absState (m.allocState depth fail).1 s =
      if s = m.states.size then { fail := fail } else absState m s := by
    intro s
    have h1 : (m.allocState depth fail).1.iterTrans s = m.iterTrans s :=
      iterTrans_congr (m := m) (m' := (m.allocState depth fail).1) rfl (allocState_heads m depth fail s).1
    have h2 : (m.allocState depth fail).1.iterMatches s = m.iterMatches s :=
      iterMatches_congr (m := m) (m' := (m.allocState depth fail).1) rfl (allocState_heads m depth fail s).2
    unfold absState
    rw [h1, h2, st_allocState]
    split
    · rename_i e; subst e
      obtain ⟨e1, e2⟩ := absState_oob h (Nat.le_refl m.states.size)
      simp only [absState] at e1 e2
      rw [e1, e2]
    · rfl
  apply arr_ext_getD ({} : CState)
  · simp [hsz]
  · intro s hs
    rw [size_absNfa, hsz] at hs
    rw [getD_absNfa, if_pos (hsz ▸ hs), habs, arr_getD_push, size_absNfa, getD_absNfa]
    by_cases e : s = m.states.size
    · rw [if_pos e, if_pos e]
    · rw [if_neg e, if_neg e, if_pos (by omega)]

/-! ## `add_transition` -/

theorem addTransition_memOK {m : MemNfa} (h : MemOK m) {prev : Nat} (hp : prev < m.states.size)
    (b : UInt8) (t : Nat) : MemOK (m.addTransition prev b t) :=
  (addTransition_spec h hp b t).1

/-- `iter_trans` after `add_transition`: the sorted insert with overwrite of `Compiler.lean` -/
theorem iterTrans_addTransition {m : MemNfa} (h : MemOK m) {prev : Nat}
    (hp : prev < m.states.size) (b : UInt8) (t : Nat) :
    (m.addTransition prev b t).iterTrans prev = CNfa.insertTrans b t (m.iterTrans prev) :=
  (addTransition_spec h hp b t).2.1

theorem absState_addTransition {m : MemNfa} (h : MemOK m) {prev : Nat}
    (hp : prev < m.states.size) (b : UInt8) (t : Nat) :
    absState (m.addTransition prev b t) prev =
      { absState m prev with trans := CNfa.insertTrans b t (absState m prev).trans } := by
  obtain ⟨_, h2, _, h4, h5, _⟩ := addTransition_spec h hp b t
  simp only [absState, h2, h4, h5]

/-- frame: the other states are untouched -/
theorem absState_addTransition_frame {m : MemNfa} (h : MemOK m) {prev : Nat}
    (hp : prev < m.states.size) (b : UInt8) (t : Nat) {s : Nat} (hs : s ≠ prev) :
    absState (m.addTransition prev b t) s = absState m s := by
  obtain ⟨_, _, h3, h4, h5, _⟩ := addTransition_spec h hp b t
  simp only [absState, h3 s hs, h4, h5]

/-- **`add_transition` commutes with `CNfa.addTransition`.** -/
theorem absNfa_addTransition {m : MemNfa} (h : MemOK m) {prev : Nat} (hp : prev < m.states.size)
    (b : UInt8) (t : Nat) :
    absNfa (m.addTransition prev b t) = CNfa.addTransition (absNfa m) prev b t :=
  absNfa_eq_modify (addTransition_spec h hp b t).2.2.2.2.2 (absState_addTransition h hp b t)
    fun _ hs => absState_addTransition_frame h hp b t hs

/-! ## `follow_transition_sparse`, `iter_trans` -/

/-- the list `iter_trans` yields is strictly increasing in the byte -/
theorem sorted_iterTrans {m : MemNfa} (h : MemOK m) (sid : Nat) : Sorted (m.iterTrans sid) := by
  obtain ⟨tc, mc, hw⟩ := h
  exact MemP.sorted_iterTrans hw sid

/-- **`follow_transition_sparse` is `CNfa.follow`** (including `FAIL` for an absent byte); no
range condition on `sid` -/
theorem followTransitionSparse_eq {m : MemNfa} (h : MemOK m) (sid : Nat) (b : UInt8) :
    m.followTransitionSparse sid b = CNfa.follow (absNfa m) sid b := by
  obtain ⟨tc, mc, hw⟩ := h
  rw [follow_eq_lookup hw, L1cP.follow_eq, getD_absNfa]
  split
  · rfl
  · rename_i hs
    have := (absState_oob ⟨tc, mc, hw⟩ (Nat.le_of_not_lt hs)).1
    simp only [absState] at this
    rw [this]

/-! ## `init_full_state` -/

theorem initFullState_memOK {m : MemNfa} (h : MemOK m) {prev : Nat} (hp : prev < m.states.size)
    (hempty : (m.st prev).sparse = 0) (next : Nat) : MemOK (m.initFullState prev next) :=
  (initFullState_spec h hp hempty next).1

/-- all 256 bytes, in order, lead to `next` -/
theorem absState_initFullState {m : MemNfa} (h : MemOK m) {prev : Nat}
    (hp : prev < m.states.size) (hempty : (m.st prev).sparse = 0) (next : Nat) :
    absState (m.initFullState prev next) prev =
      { absState m prev with trans := CNfa.fullTrans next } := by
  obtain ⟨_, h2, _, h4, h5, _⟩ := initFullState_spec h hp hempty next
  simp only [absState, h2, h4, h5]

theorem absState_initFullState_frame {m : MemNfa} (h : MemOK m) {prev : Nat}
    (hp : prev < m.states.size) (hempty : (m.st prev).sparse = 0) (next : Nat) {s : Nat}
    (hs : s ≠ prev) : absState (m.initFullState prev next) s = absState m s := by
  obtain ⟨_, _, h3, h4, h5, _⟩ := initFullState_spec h hp hempty next
  simp only [absState, h3 s hs, h4, h5]

theorem absNfa_initFullState {m : MemNfa} (h : MemOK m) {prev : Nat} (hp : prev < m.states.size)
    (hempty : (m.st prev).sparse = 0) (next : Nat) :
    absNfa (m.initFullState prev next) =
      (absNfa m).modify prev fun st => { st with trans := CNfa.fullTrans next } :=
  absNfa_eq_modify (initFullState_spec h hp hempty next).2.2.2.2.2
    (absState_initFullState h hp hempty next)
    fun _ hs => absState_initFullState_frame h hp hempty next hs

/-- every byte of a fully initialised state leads to `next` -/
theorem initFullState_follow {m : MemNfa} (h : MemOK m) {prev : Nat} (hp : prev < m.states.size)
    (hempty : (m.st prev).sparse = 0) (next : Nat) (b : UInt8) :
    (m.initFullState prev next).followTransitionSparse prev b = next := by
  obtain ⟨tc, mc, hw⟩ := initFullState_memOK h hp hempty next
  rw [follow_eq_lookup hw, (initFullState_spec h hp hempty next).2.1]
  exact lookup_fullTrans next b

/-- the assertion of lines 445-449 holds exactly on states without transitions -/
theorem initFullState?_isSome (m : MemNfa) (prev next : Nat) :
    (m.initFullState? prev next).isSome ↔ (m.st prev).sparse = 0 := by
  unfold MemNfa.initFullState?
  split <;> simp [*]

/-! ## `add_match` -/

theorem addMatch_memOK {m : MemNfa} (h : MemOK m) {sid : Nat} (hp : sid < m.states.size)
    (pid : Nat) : MemOK (m.addMatch sid pid) :=
  (addMatch_spec h hp pid).1

/-- **`add_match` appends at the tail** -/
theorem iterMatches_addMatch {m : MemNfa} (h : MemOK m) {sid : Nat} (hp : sid < m.states.size)
    (pid : Nat) : (m.addMatch sid pid).iterMatches sid = m.iterMatches sid ++ [pid] :=
  (addMatch_spec h hp pid).2.1

theorem absState_addMatch {m : MemNfa} (h : MemOK m) {sid : Nat} (hp : sid < m.states.size)
    (pid : Nat) :
    absState (m.addMatch sid pid) sid =
      { absState m sid with matches_ := (absState m sid).matches_ ++ [pid] } := by
  obtain ⟨_, h2, _, h4, h5, _⟩ := addMatch_spec h hp pid
  simp only [absState, h2, h4, h5]

theorem absState_addMatch_frame {m : MemNfa} (h : MemOK m) {sid : Nat}
    (hp : sid < m.states.size) (pid : Nat) {s : Nat} (hs : s ≠ sid) :
    absState (m.addMatch sid pid) s = absState m s := by
  obtain ⟨_, _, h3, h4, h5, _⟩ := addMatch_spec h hp pid
  simp only [absState, h3 s hs, h4, h5]

/-- the update `buildTrie` performs for `self.nfa.add_match(prev, pid)` -/
theorem absNfa_addMatch {m : MemNfa} (h : MemOK m) {sid : Nat} (hp : sid < m.states.size)
    (pid : Nat) :
    absNfa (m.addMatch sid pid) =
      (absNfa m).modify sid fun st => { st with matches_ := st.matches_ ++ [pid] } :=
  absNfa_eq_modify (addMatch_spec h hp pid).2.2.2.2.2 (absState_addMatch h hp pid)
    fun _ hs => absState_addMatch_frame h hp pid hs

/-! ## `copy_matches` -/

theorem copyMatches_memOK {m : MemNfa} (h : MemOK m) {src dst : Nat} (hp : dst < m.states.size)
    (hsd : src ≠ dst) : MemOK (m.copyMatches src dst) :=
  (copyMatches_spec h hp hsd).1

/-- **`copy_matches` keeps every own match of `dst` and appends those of `src`** -/
theorem iterMatches_copyMatches {m : MemNfa} (h : MemOK m) {src dst : Nat}
    (hp : dst < m.states.size) (hsd : src ≠ dst) :
    (m.copyMatches src dst).iterMatches dst = m.iterMatches dst ++ m.iterMatches src :=
  (copyMatches_spec h hp hsd).2.1

/-- `src` and every other state keep their matches -/
theorem iterMatches_copyMatches_frame {m : MemNfa} (h : MemOK m) {src dst : Nat}
    (hp : dst < m.states.size) (hsd : src ≠ dst) {s : Nat} (hs : s ≠ dst) :
    (m.copyMatches src dst).iterMatches s = m.iterMatches s :=
  (copyMatches_spec h hp hsd).2.2.1 s hs

theorem absState_copyMatches {m : MemNfa} (h : MemOK m) {src dst : Nat}
    (hp : dst < m.states.size) (hsd : src ≠ dst) :
    absState (m.copyMatches src dst) dst =
      { absState m dst with matches_ := (absState m dst).matches_ ++ (absState m src).matches_ } := by
  obtain ⟨_, h2, _, h4, h5, _⟩ := copyMatches_spec h hp hsd
  simp only [absState, h2, h4, h5]

theorem absState_copyMatches_frame {m : MemNfa} (h : MemOK m) {src dst : Nat}
    (hp : dst < m.states.size) (hsd : src ≠ dst) {s : Nat} (hs : s ≠ dst) :
    absState (m.copyMatches src dst) s = absState m s := by
  obtain ⟨_, _, h3, h4, h5, _⟩ := copyMatches_spec h hp hsd
  simp only [absState, h3 s hs, h4, h5]

/-- **`copy_matches` commutes with `CNfa.copyMatches`** (for `src ≠ dst`) -/
theorem absNfa_copyMatches {m : MemNfa} (h : MemOK m) {src dst : Nat} (hp : dst < m.states.size)
    (hsd : src ≠ dst) :
    absNfa (m.copyMatches src dst) = CNfa.copyMatches (absNfa m) src dst := by
  unfold CNfa.copyMatches
  refine absNfa_eq_modify (copyMatches_spec h hp hsd).2.2.2.2.2 ?_
    fun _ hs => absState_copyMatches_frame h hp hsd hs
  rw [absState_copyMatches h hp hsd, getD_absNfa]
  split
  · rfl
  · rename_i hs
    rw [(absState_oob h (Nat.le_of_not_lt hs)).2]

/-! ## `State::is_match` -/

theorem isMatch_eq {m : MemNfa} (h : MemOK m) (sid : Nat) :
    m.isMatch sid = CNfa.isMatch (absNfa m) sid := by
  obtain ⟨tc, mc, hw⟩ := h
  have hc := hw.mchain sid
  unfold MemNfa.isMatch CNfa.isMatch
  have hlist : ((absNfa m).getD sid {}).matches_ = (mc sid).map (pidOf m) := by
    rw [getD_absNfa]
    split
    · exact iterMatches_eq hw sid
    · rename_i hs
      have h1 := hc
      rw [st_oob m (Nat.le_of_not_lt hs)] at h1
      rw [h1.eq_nil]; rfl
  rw [hlist]
  by_cases h0 : (m.st sid).matches_ = 0
  · rw [h0] at hc
    rw [hc.eq_nil, h0]; rfl
  · have hne := hc.ne_nil h0
    cases hl : mc sid with
    | nil => exact absurd hl hne
    | cons a as => simp [h0]

/-! ## the preamble of `Compiler::compile` -/

/-- `self.states[s].sparse == 0` iff `iter_trans(s)` yields nothing (the doc comment of
`State::sparse`) -/
theorem sparse_eq_zero_iff {m : MemNfa} (h : MemOK m) (s : Nat) :
    (m.st s).sparse = 0 ↔ m.iterTrans s = [] := by
  obtain ⟨tc, mc, hw⟩ := h
  have hc := hw.tchain s
  rw [iterTrans_eq hw]
  constructor
  · intro e; rw [e] at hc; rw [hc.eq_nil]; rfl
  · intro e
    have : tc s = [] := List.map_eq_nil_iff.1 e
    rw [this] at hc; exact hc

/-- the four `alloc_state(0)` calls -/
def init4 : MemNfa :=
  (((((MemNfa.empty.allocState 0 0).1.allocState 0 0).1.allocState 0 0).1).allocState 0 2).1

theorem init_eq : MemNfa.init =
    ((init4.initFullState 2 MemNfa.FAIL).initFullState 3 MemNfa.FAIL).initFullState 0 0 := rfl

theorem memOK_init4 : MemOK init4 :=
  allocState_memOK (allocState_memOK (allocState_memOK (allocState_memOK memOK_empty 0 0) 0 0)
    0 0) 0 2

theorem absNfa_init4 : absNfa init4 = #[{ fail := 0 }, { fail := 0 }, { fail := 0 }, { fail := 2 }] := by
  have a1 := allocState_memOK memOK_empty 0 0
  have a2 := allocState_memOK a1 0 0
  have a3 := allocState_memOK a2 0 0
  unfold init4
  rw [(absNfa_allocState a3 0 2).1, (absNfa_allocState a2 0 0).1, (absNfa_allocState a1 0 0).1,
    (absNfa_allocState memOK_empty 0 0).1, absNfa_empty]
  rfl

/-- **The memory after the preamble of `Compiler::compile`** (lines 972-994) satisfies the
invariant and represents `CNfa.init`, except that the failure links of `DEAD`, `FAIL` and the
unanchored start are `0` (the crate's value) where `CNfa.init` has `SU`. -/
theorem memOK_init_and_abs : MemOK MemNfa.init ∧
    absNfa MemNfa.init =
      #[{ trans := CNfa.fullTrans CNfa.DEAD, fail := 0 }, { fail := 0 },
        { trans := CNfa.fullTrans CNfa.FAIL, fail := 0 },
        { trans := CNfa.fullTrans CNfa.FAIL, fail := 2 }] := by
  have sz4 : init4.states.size = 4 := rfl
  have h4 := memOK_init4
  -- unanchored start
  have p2 : 2 < init4.states.size := by rw [sz4]; decide
  have e2 : (init4.st 2).sparse = 0 := rfl
  have h5 := initFullState_memOK h4 p2 e2 MemNfa.FAIL
  have s5 := initFullState_spec h4 p2 e2 MemNfa.FAIL
  have abs5 := absNfa_initFullState h4 p2 e2 MemNfa.FAIL
  -- anchored start
  have p3 : 3 < (init4.initFullState 2 MemNfa.FAIL).states.size := by
    rw [s5.2.2.2.2.2, sz4]; decide
  have e3 : ((init4.initFullState 2 MemNfa.FAIL).st 3).sparse = 0 := by
    rw [sparse_eq_zero_iff h5, s5.2.2.1 3 (by decide)]; rfl
  have h6 := initFullState_memOK h5 p3 e3 MemNfa.FAIL
  have s6 := initFullState_spec h5 p3 e3 MemNfa.FAIL
  have abs6 := absNfa_initFullState h5 p3 e3 MemNfa.FAIL
  -- dead state
  have p0 : 0 < ((init4.initFullState 2 MemNfa.FAIL).initFullState 3 MemNfa.FAIL).states.size := by
    rw [s6.2.2.2.2.2, s5.2.2.2.2.2, sz4]; decide
  have e0 : (((init4.initFullState 2 MemNfa.FAIL).initFullState 3 MemNfa.FAIL).st 0).sparse = 0 := by
    rw [sparse_eq_zero_iff h6, s6.2.2.1 0 (by decide), s5.2.2.1 0 (by decide)]; rfl
  have h7 := initFullState_memOK h6 p0 e0 0
  have abs7 := absNfa_initFullState h6 p0 e0 0
  rw [init_eq]
  refine ⟨h7, ?_⟩
  rw [abs7, abs6, abs5, absNfa_init4]
  rfl

theorem memOK_init : MemOK MemNfa.init := memOK_init_and_abs.1

theorem absNfa_init : absNfa MemNfa.init =
    #[{ trans := CNfa.fullTrans CNfa.DEAD, fail := 0 }, { fail := 0 },
      { trans := CNfa.fullTrans CNfa.FAIL, fail := 0 },
      { trans := CNfa.fullTrans CNfa.FAIL, fail := 2 }] := memOK_init_and_abs.2

/-- … hence transitions and matches of every state are those of `CNfa.init` -/
theorem absNfa_init_trans (s : Nat) :
    ((absNfa MemNfa.init).getD s {}).trans = (CNfa.init.getD s {}).trans ∧
    ((absNfa MemNfa.init).getD s {}).matches_ = (CNfa.init.getD s {}).matches_ := by
  rw [absNfa_init]
  match s with
  | 0 => exact ⟨rfl, rfl⟩
  | 1 => exact ⟨rfl, rfl⟩
  | 2 => exact ⟨rfl, rfl⟩
  | 3 => exact ⟨rfl, rfl⟩
  | _ + 4 => exact ⟨rfl, rfl⟩

/-! ## the compiler's own walks over the lists

`add_unanchored_start_state_loop`, `close_start_state_loop_for_leftmost` and
`set_anchored_start_state` do not go through the methods above: they walk a list with
`next_link` and write `sparse[link].next` in place. -/

theorem mapNext_eq (old new : Nat) :
    (fun x : UInt8 × Nat => (x.1, if x.2 = old then new else x.2)) =
      fun (b, t) => (b, if t == old then new else t) := by
  funext x
  obtain ⟨b, t⟩ := x
  by_cases h : t = old
  · simp [h]
  · simp [h]

/-- **`add_unanchored_start_state_loop` is `CNfa.addStartLoop`** -/
theorem absNfa_addUnanchoredStartStateLoop {m : MemNfa} (h : MemOK m) :
    MemOK (m.addUnanchoredStartStateLoop CNfa.SU) ∧
    absNfa (m.addUnanchoredStartStateLoop CNfa.SU) = CNfa.addStartLoop (absNfa m) := by
  obtain ⟨h1, h2, h3, h4, h5, h6⟩ := replaceNext_spec h CNfa.SU MemNfa.FAIL CNfa.SU
  refine ⟨h1, ?_⟩
  unfold CNfa.addStartLoop
  refine absNfa_eq_modify h6 ?_ ?_
  · show absState (MemNfa.replaceNextGo ..) _ = _
    simp only [absState, h2, h4, h5]
    rw [mapNext_eq]; rfl
  · intro s hs
    show absState (MemNfa.replaceNextGo ..) _ = _
    simp only [absState, h3 s hs, h4, h5]

/-- **`close_start_state_loop_for_leftmost` is `CNfa.closeStartLoop`** -/
theorem absNfa_closeStartStateLoopForLeftmost {m : MemNfa} (h : MemOK m) (k : MatchKind) :
    MemOK (m.closeStartStateLoopForLeftmost CNfa.SU k.isLeftmost) ∧
    absNfa (m.closeStartStateLoopForLeftmost CNfa.SU k.isLeftmost) =
      CNfa.closeStartLoop k (absNfa m) := by
  unfold MemNfa.closeStartStateLoopForLeftmost CNfa.closeStartLoop
  rw [isMatch_eq h]
  split
  · obtain ⟨h1, h2, h3, h4, h5, h6⟩ := replaceNext_spec h CNfa.SU CNfa.SU MemNfa.DEAD
    refine ⟨h1, absNfa_eq_modify h6 ?_ ?_⟩
    · show absState (MemNfa.replaceNextGo ..) _ = _
      simp only [absState, h2, h4, h5]
      rw [mapNext_eq]; rfl
    · intro s hs
      show absState (MemNfa.replaceNextGo ..) _ = _
      simp only [absState, h3 s hs, h4, h5]
  · exact ⟨h, rfl⟩

/-- the abstract `set_anchored_start_state`, state by state -/
theorem setAnchoredStart_eq (n : CNfa) :
    CNfa.setAnchoredStart n = n.modify CNfa.SA fun st =>
      { trans := (n.getD CNfa.SU {}).trans, fail := CNfa.DEAD,
        matches_ := st.matches_ ++ (n.getD CNfa.SU {}).matches_ } := by
  unfold CNfa.setAnchoredStart CNfa.copyMatches
  simp only
  rw [getD_modify_ne _ _ (by decide : CNfa.SA ≠ CNfa.SU)]
  apply arr_ext_getD ({} : CState) (by simp)
  intro s _
  rw [getD_modify, getD_modify, getD_modify, Array.size_modify]
  by_cases e : CNfa.SA = s ∧ s < n.size
  · rw [if_pos e, if_pos e, if_pos e]
  · rw [if_neg e, if_neg e, if_neg e]

/-- **`set_anchored_start_state` is `CNfa.setAnchoredStart`**, provided both start states carry
the same bytes (they are both fully initialised, and `add_transition` on a full state only
overwrites); in particular the `unreachable!()` of the lock-step loop is not reached -/
theorem absNfa_setAnchoredStartState {m : MemNfa} (h : MemOK m) (hsz : CNfa.SA < m.states.size)
    (hbytes : (m.iterTrans CNfa.SA).map Prod.fst = (m.iterTrans CNfa.SU).map Prod.fst) :
    ∃ r, m.setAnchoredStartState CNfa.SU CNfa.SA = some r ∧ MemOK r ∧
      absNfa r = CNfa.setAnchoredStart (absNfa m) := by
  have hne : CNfa.SU ≠ CNfa.SA := by decide
  obtain ⟨r1, a1, a2, a3, a4, a5, a6, a7⟩ := copyNext_spec h hne hbytes
  have hsz1 : CNfa.SA < r1.states.size := a7 ▸ hsz
  obtain ⟨b1, b2, b3, b4, b5, b6⟩ := copyMatches_spec a2 hsz1 hne
  obtain ⟨c1, c2, c3, c4, c5⟩ := setFail_spec b1 CNfa.SA MemNfa.DEAD
  refine ⟨(r1.copyMatches CNfa.SU CNfa.SA).setFail CNfa.SA MemNfa.DEAD, ?_, c1, ?_⟩
  · unfold MemNfa.setAnchoredStartState
    rw [a1]; rfl
  · rw [setAnchoredStart_eq]
    refine absNfa_eq_modify (by rw [c5, b6, a7]) ?_ ?_
    · have hsu : (absNfa m).getD CNfa.SU {} = absState m CNfa.SU := by
        rw [getD_absNfa, if_pos (Nat.lt_trans (by decide) hsz)]
      rw [hsu]
      simp only [absState, c2, c3, c4, b2, b4, a3, a5]
      rw [if_pos ⟨trivial, b6 ▸ hsz1⟩]; rfl
    · intro s hs
      simp only [absState, c2, c3, c4, b3 s hs, b4, b5, a4 s hs, a5, a6]
      rw [if_neg (fun e => hs e.1)]

/-! ## examples (evaluated by the kernel) -/

section Examples
open MemNfa

/-- two empty states -/
def ex0 : MemNfa := ((MemNfa.empty.allocState 0 0).1.allocState 0 0).1

/-- insert bytes 5, 3, 9, 3: sorted, and the second `3` overwrites the first -/
def exIns : MemNfa :=
  (((ex0.addTransition 0 5 10).addTransition 0 3 11).addTransition 0 9 12).addTransition 0 3 13

theorem insert_5_3_9_3 : exIns.iterTrans 0 = [(3, 13), (5, 10), (9, 12)] := by decide +kernel

/-- … stored as: cell 1 = byte 5 (→ cell 3), cell 2 = byte 3 (head, → cell 1), cell 3 = byte 9 -/
theorem insert_5_3_9_3_cells :
    exIns.sparse = #[{}, { byte := 5, next := 10, link := 3 }, { byte := 3, next := 13, link := 1 },
      { byte := 9, next := 12, link := 0 }] ∧ (exIns.st 0).sparse = 2 := by decide +kernel

theorem insert_follow : exIns.followTransitionSparse 0 5 = 10 ∧
    exIns.followTransitionSparse 0 4 = MemNfa.FAIL ∧ exIns.followTransitionSparse 0 200 = MemNfa.FAIL ∧
    exIns.followTransitionSparse 1 5 = MemNfa.FAIL := by decide +kernel

/-- `dst = 1` holds two own matches, `src = 0` one -/
def exM : MemNfa := ((ex0.addMatch 1 7).addMatch 1 8).addMatch 0 9

theorem copy_keeps_both_own_matches :
    (exM.copyMatches 0 1).iterMatches 1 = [7, 8, 9] ∧ (exM.copyMatches 0 1).iterMatches 0 = [9] := by
  decide +kernel

/-- the seeded defect: no tail walk, the copies are linked behind the FIRST own match -/
def copyMatchesFirst (m : MemNfa) (src dst : Nat) : MemNfa :=
  copyLoop dst (m.matches_.size + 1) m (m.st dst).matches_ (m.st src).matches_

theorem buggy_copy_drops_a_match : (copyMatchesFirst exM 0 1).iterMatches 1 = [7, 9] := by
  decide +kernel

/-- `copy_matches(s, s)` chases its own tail: the fuel-bounded model is still copying when the
fuel (5 = vector length + 1) runs out: 5 copies for a 2-element list -/
theorem copy_self_diverges :
    (exM.copyMatches 1 1).iterMatches 1 = [7, 8, 7, 8, 7, 8, 7] := by decide +kernel

/-- three states; state 2 has `a → 5` and `b → FAIL` -/
def exLoop : MemNfa :=
  ((ex0.allocState 0 0).1.addTransition 2 97 5).addTransition 2 98 MemNfa.FAIL

theorem start_loop_example :
    (exLoop.addUnanchoredStartStateLoop 2).iterTrans 2 = [(97, 5), (98, 2)] ∧
    ((exLoop.addMatch 2 0).addUnanchoredStartStateLoop 2 |>.closeStartStateLoopForLeftmost 2 true).iterTrans 2
      = [(97, 5), (98, 0)] := by decide +kernel

-- `#eval MemNfa.init.sparse.size` = 769 (the dummy and 3 × 256 cells), `matches_.size` = 1
-- (kernel evaluation of the 768 allocations takes minutes, so this is not a `decide` example)

/-! ### the raw vectors of the crate

A scratch copy of the crate with a `#[test]` inside `noncontiguous.rs` (the vectors are private)
ran: the two dummy pushes, six `alloc_state(0)`, the 14 `add_transition` calls below on the
interleaved states 0 and 1, `follow_transition_sparse` on both for the bytes
0, 3, 4, 5, 6, 9, 200, 255, then the `add_match` / `copy_matches` calls below, then
`init_full_state(5, 9)`, printing `nfa.sparse`, `nfa.matches` and every state's
`(sparse, matches, fail)`.  The output is identical to the model's, cell for cell; it is
reproduced here as kernel-checked equalities. -/

def exCrate1 : MemNfa :=
  [(0, 5, 10), (1, 7, 20), (0, 3, 11), (0, 9, 12), (1, 2, 21), (0, 3, 13), (0, 4, 14), (1, 7, 22),
   (0, 255, 15), (0, 0, 16), (1, 5, 23), (0, 9, 17), (1, 2, 24), (0, 5, 18)].foldl
    (fun m (x : Nat × UInt8 × Nat) => m.addTransition x.1 x.2.1 x.2.2)
    ((List.range 6).foldl (fun m _ => (m.allocState 0 0).1) MemNfa.empty)

def exCrate2 : MemNfa :=
  ((([(2, 7), (3, 1), (2, 8), (2, 9), (3, 2), (4, 5)].foldl
    (fun m (x : Nat × Nat) => m.addMatch x.1 x.2) exCrate1).copyMatches 2 3).copyMatches 3 5
      |>.copyMatches 5 4).copyMatches 1 4

/-- `SPARSE (0,0,0) (5,18,4) (7,22,0) (3,13,6) (9,17,7) (2,24,9) (4,14,1) (255,15,0) (0,16,3)
(5,23,2)`, `STATES (8,0,0) (5,0,0) (0,0,0) …` -/
theorem crate_dump_sparse :
    exCrate1.sparse = #[⟨0, 0, 0⟩, ⟨5, 18, 4⟩, ⟨7, 22, 0⟩, ⟨3, 13, 6⟩, ⟨9, 17, 7⟩, ⟨2, 24, 9⟩,
      ⟨4, 14, 1⟩, ⟨255, 15, 0⟩, ⟨0, 16, 3⟩, ⟨5, 23, 2⟩] ∧
    (exCrate1.st 0).sparse = 8 ∧ (exCrate1.st 1).sparse = 5 := by decide +kernel

/-- `FOLLOW 0 16 1`, `3 13 1`, `4 14 1`, `5 18 23`, `6 1 1`, `9 17 1`, `200 1 1`, `255 15 1` -/
theorem crate_dump_follow :
    ([0, 3, 4, 5, 6, 9, 200, 255].map fun b =>
      (exCrate1.followTransitionSparse 0 b, exCrate1.followTransitionSparse 1 b)) =
    [(16, 1), (13, 1), (14, 1), (18, 23), (1, 1), (17, 1), (1, 1), (15, 1)] := by decide +kernel

/-- `MATCHES (0,0) (7,3) (1,5) (8,4) (9,0) (2,7) (5,15) (7,8) (8,9) (9,0) (1,11) (2,12) (7,13)
(8,14) (9,0) (1,16) (2,17) (7,18) (8,19) (9,0)`, `STATES … (0,1,0) (0,2,0) (0,6,0) (0,10,0)` -/
theorem crate_dump_matches :
    exCrate2.matches_ = #[⟨0, 0⟩, ⟨7, 3⟩, ⟨1, 5⟩, ⟨8, 4⟩, ⟨9, 0⟩, ⟨2, 7⟩, ⟨5, 15⟩, ⟨7, 8⟩, ⟨8, 9⟩,
      ⟨9, 0⟩, ⟨1, 11⟩, ⟨2, 12⟩, ⟨7, 13⟩, ⟨8, 14⟩, ⟨9, 0⟩, ⟨1, 16⟩, ⟨2, 17⟩, ⟨7, 18⟩, ⟨8, 19⟩,
      ⟨9, 0⟩] ∧
    [2, 3, 4, 5].map (fun s => (exCrate2.st s).matches_) = [1, 2, 6, 10] ∧
    exCrate2.sparse = exCrate1.sparse := by decide +kernel

end Examples

end AcVerif
