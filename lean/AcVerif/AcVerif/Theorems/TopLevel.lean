import AcVerif.Proofs.TopLevelApi
/-!
# The capstone: `AhoCorasick::builder()…build(patterns)` followed by each public search method

One statement per public method of `AhoCorasick` (model: `AcVerif/TopLevel.lean`), for **every**
configuration `cfg : BuildCfg` – match kind, `ascii_case_insensitive`, start kind, requested
`AhoCorasickKind` (or the automatic choice), both dense depths, `byte_classes` – and **every**
pattern list `P`, under the real limits `{}` (`StateID::LIMIT = PatternID::LIMIT = 2^31 - 1`),
for the searcher built **without a prefilter** (`acBuild {} cfg none P`: `.prefilter(false)`, or
`prefilter::Builder::build` returning `None`).

* `Top_build`: every collection of at most 1000 patterns with at most 10^6 bytes in total builds,
  and the searcher has the kind the configuration asks for (`chosenKind`).
* The method theorems hold for **whatever** a successful build returns (`hs : acBuild {} cfg none P
  = .ok s`; no size bound: a successful build has `P.length ≤ PatternID::LIMIT`, which is all the
  layers need), for every input:
  - `Top_find`: `try_find` returns THE answer of the specification (`IsFind`) when the start kind
    supports the requested anchoring, and otherwise the error naming the requested mode
    (`invalidInputAnchored` / `invalidInputUnanchored`, C13).  Leftmost kinds: `earliest = false`.
  - `Top_is_match`: `is_match` is `true` iff an admissible occurrence exists (C14).
  - `Top_find_iter`: the iterator yields `iterSpec` of the specification's search.
  - `Top_overlapping`: standard kind: the call history on one `OverlappingState` drains the
    `IsOverlapList` enumeration, then `None` for ever; other kinds: `unsupportedOverlapping`.
    `Top_overlapping_iter`: the same for `try_find_overlapping_iter` (unanchored inputs only).
  - `Top_replace_all_with_bytes`, `Top_replace_all_bytes`: `replaceBytes` over the iterator's
    matches, i.e. the splice `spliceSpec` (C12), and `replace_with[mat.pattern()]` is in bounds.
  - `Top_stream_find`: standard kind, no empty pattern, unanchored searches supported: for every
    read schedule and every buffer capacity with one byte of room beyond the longest pattern
    (`hcap`; `Top_stream_find_default`: the production constants) the stream iterator yields the
    matches of the in-memory iterator, no I/O error, no `read` into an empty buffer (C07);
    `Top_stream_find_rejected`: the three documented errors, in the order of the code.
* With `ascii_case_insensitive(true)` occurrences are read on the lower-cased patterns and the
  lower-cased haystack (`specPats` / `specHay`, C11); with `false` both are the identity.
* `TopSpec`, `Top_capstone`: all of it as one statement.
* Searchers built **with** a prefilter (`.prefilter(true)`, the default): `Theorems/TopLevelPre.lean`
  (`TopB_capstone`: the same specification `TopSpec`, for the prefilter the builder chooses).
  Concrete instances, evaluated by the kernel: `Theorems/TopLevelExamples.lean`.

Each theorem is a composition: C20Build (`buildChecked` returns the unchecked transcription) ∘
L1cIds + dense rows / L1e / L1dIds and their `Fold` versions (the transcribed searcher is the
reference automaton, `TopP.built_startEquiv`) ∘ C04 (engines transfer along `StartEquiv`) ∘
C01 / C02 / C03 / C09 / C11 / C12 / C14 / C07 on the reference automaton ∘ C13 (the gate).  No
hypothesis mentions an intermediate automaton.
-/
namespace AcVerif
open AcVerif.TopP AcVerif.MiscP AcVerif.BuildP

/-! ## building -/

theorem acBuild_eq_of {L : Limits} {cfg : BuildCfg} {pre : Option (Prefilter UInt8)}
    {P : List (List UInt8)} {b : Built}
    (h : buildChecked L { cfg with hasPre := pre.isSome } P = .ok b) :
    acBuild L cfg pre P =
      .ok (Searcher.mk { cfg with hasPre := pre.isSome } P b pre) := by
  unfold acBuild
  rw [h]

/-- **Every collection within the explicit bounds builds, in every configuration**, and the kind of
the searcher is the one the configuration asks for. -/
theorem Top_build (cfg : BuildCfg) (P : List (List UInt8))
    (hP : P.length ≤ 1000) (hT : totalLen P ≤ 1000000) :
    ∃ s, acBuild {} cfg none P = .ok s ∧ s.kind = chosenKind cfg P.length ∧
      s.pats = P ∧ s.pre = none ∧ s.cfg = { cfg with hasPre := false } := by
  have h := C20_build_ok_default
    { cfg with hasPre := (none : Option (Prefilter UInt8)).isSome } P hP hT
  exact ⟨_, acBuild_eq_of h, buildUnchecked_kind _ _ _, rfl, rfl, rfl⟩

/-- what a successful build returns, whatever the size of the collection: the configuration and
the patterns it was given, no prefilter, and one of the three searchers -/
theorem Top_build_fields {cfg : BuildCfg} {P : List (List UInt8)} {s : Searcher}
    (hs : acBuild {} cfg none P = .ok s) :
    s.cfg = { cfg with hasPre := false } ∧ s.pats = P ∧ s.pre = none :=
  (acBuild_good (Nat.le_refl _) hs).2

/-! ## `try_find` -/

/-- **`AhoCorasick::try_find`** -/
theorem Top_find (cfg : BuildCfg) (P : List (List UInt8)) {s : Searcher}
    (hs : acBuild {} cfg none P = .ok s) (i : Input UInt8) :
    (supportsAnch cfg.startKind i.anch → (cfg.matchKind = .std ∨ i.earliest = false) →
      ∃ r, topFind s i = .ok r ∧
        IsFind cfg.matchKind (specPats cfg.fold P) (specHay cfg.fold i.hay) i.s i.e i.anch r) ∧
    (¬ supportsAnch cfg.startKind i.anch → topFind s i = .error (anchErr i.anch)) := by
  obtain ⟨hg, hc, hp, hpre⟩ := acBuild_good (Nat.le_refl _) hs
  refine ⟨fun h he => ?_, fun h => ?_⟩
  · have := api_find hg hpre i (by rw [hc]; exact h) (by rw [hc]; exact he)
    rw [hc, hp] at this
    exact this
  · exact api_find_err s i (by rw [hc]; exact h)

/-! ## `is_match` -/

/-- **`AhoCorasick::is_match`** (an `error` is the panic of the real method) -/
theorem Top_is_match (cfg : BuildCfg) (P : List (List UInt8)) {s : Searcher}
    (hs : acBuild {} cfg none P = .ok s) (i : Input UInt8) :
    (supportsAnch cfg.startKind i.anch →
      ∃ b, topIsMatch s i = .ok b ∧
        (b = true ↔
          ∃ m, IsOccA (specPats cfg.fold P) (specHay cfg.fold i.hay) i.s i.e i.anch m)) ∧
    (¬ supportsAnch cfg.startKind i.anch → topIsMatch s i = .error (anchErr i.anch)) := by
  obtain ⟨hg, hc, hp, hpre⟩ := acBuild_good (Nat.le_refl _) hs
  refine ⟨fun h => ?_, fun h => ?_⟩
  · have := api_is_match hg hpre i (by rw [hc]; exact h)
    rw [hc, hp] at this
    exact this
  · exact api_is_match_err s i (by rw [hc]; exact h)

/-! ## `try_find_iter` -/

/-- **`AhoCorasick::try_find_iter`**: the yielded list is the specification's iterator over THE
answers of the restarted searches -/
theorem Top_find_iter (cfg : BuildCfg) (P : List (List UInt8)) {s : Searcher}
    (hs : acBuild {} cfg none P = .ok s) (i : Input UInt8) :
    (supportsAnch cfg.startKind i.anch → (cfg.matchKind = .std ∨ i.earliest = false) →
      ∃ F, (∀ st, st ≤ i.e + 1 →
          IsFind cfg.matchKind (specPats cfg.fold P) (specHay cfg.fold i.hay) st i.e i.anch
            (F st)) ∧
        topFindIter s i = .ok (iterSpec F i.s i.e)) ∧
    (¬ supportsAnch cfg.startKind i.anch → topFindIter s i = .error (anchErr i.anch)) := by
  obtain ⟨hg, hc, hp, hpre⟩ := acBuild_good (Nat.le_refl _) hs
  refine ⟨fun h he => ?_, fun h => ?_⟩
  · have := api_iter hg hpre i (by rw [hc]; exact h) (by rw [hc]; exact he)
    rw [hc, hp] at this
    exact this
  · exact api_iter_err s i (by rw [hc]; exact h)

/-- … hence occurrences of the span, with strictly increasing ends, none overlapping an earlier
one -/
theorem Top_find_iter_props (cfg : BuildCfg) (P : List (List UInt8)) {s : Searcher}
    (hs : acBuild {} cfg none P = .ok s) (i : Input UInt8)
    (h : supportsAnch cfg.startKind i.anch) (he : cfg.matchKind = .std ∨ i.earliest = false) :
    ∃ l, topFindIter s i = .ok l ∧
      (∀ m ∈ l, IsOcc (specPats cfg.fold P) (specHay cfg.fold i.hay) i.s i.e m) ∧
      l.Pairwise (fun a b => a.stop < b.stop) ∧ l.Pairwise (fun a b => a.stop ≤ b.start) := by
  obtain ⟨F, hF, hl⟩ := (Top_find_iter cfg P hs i).1 h he
  exact ⟨_, hl, fun m hm => (iter_occ hF i.valid.2 m hm).1, iter_sorted hF i.valid.2,
    iter_nonoverlap hF i.valid.2⟩

/-! ## `try_find_overlapping` -/

/-- **`AhoCorasick::try_find_overlapping`**, called `n` times on one `OverlappingState` -/
theorem Top_overlapping (cfg : BuildCfg) (P : List (List UInt8)) {s : Searcher}
    (hs : acBuild {} cfg none P = .ok s) (i : Input UInt8) :
    (supportsAnch cfg.startKind i.anch → cfg.matchKind = .std →
      ∃ l, IsOverlapList (specPats cfg.fold P) (specHay cfg.fold i.hay) i.s i.e i.anch l ∧
        ∀ n, topOverlapping s i n =
          (l.take n).map (fun m => Except.ok (some m)) ++
            List.replicate (n - l.length) (Except.ok none)) ∧
    (supportsAnch cfg.startKind i.anch → cfg.matchKind ≠ .std →
      ∀ n, topOverlapping s i (n + 1) = [.error .unsupportedOverlapping]) ∧
    (¬ supportsAnch cfg.startKind i.anch →
      ∀ n, topOverlapping s i (n + 1) = [.error (anchErr i.anch)]) := by
  obtain ⟨hg, hc, hp, hpre⟩ := acBuild_good (Nat.le_refl _) hs
  refine ⟨fun h hk => ?_, fun h hk n => ?_, fun h n => ?_⟩
  · have := api_overlap hg hpre (by rw [hc]; exact hk) i (by rw [hc]; exact h)
    rw [hc, hp] at this
    exact this
  · exact api_overlap_nonstd s i (by rw [hc]; exact h) (by rw [hc]; exact hk) n
  · exact api_overlap_err s i (by rw [hc]; exact h) n

/-- **`AhoCorasick::try_find_overlapping_iter`**, drained with enough calls -/
theorem Top_overlapping_iter (cfg : BuildCfg) (P : List (List UInt8)) {s : Searcher}
    (hs : acBuild {} cfg none P = .ok s) (i : Input UInt8) :
    (supportsAnch cfg.startKind i.anch → cfg.matchKind = .std → i.anch = false →
      ∃ l, IsOverlapList (specPats cfg.fold P) (specHay cfg.fold i.hay) i.s i.e i.anch l ∧
        ∀ fuel, l.length < fuel → topOverlappingIter s i fuel = .ok l) ∧
    (∀ fuel,
      (¬ supportsAnch cfg.startKind i.anch →
        topOverlappingIter s i fuel = .error (anchErr i.anch)) ∧
      (supportsAnch cfg.startKind i.anch → cfg.matchKind ≠ .std →
        topOverlappingIter s i fuel = .error .unsupportedOverlapping) ∧
      (supportsAnch cfg.startKind i.anch → cfg.matchKind = .std → i.anch = true →
        topOverlappingIter s i fuel = .error .invalidInputAnchored)) := by
  obtain ⟨hg, hc, hp, hpre⟩ := acBuild_good (Nat.le_refl _) hs
  refine ⟨fun h hk ha => ?_, fun fuel => ?_⟩
  · have := api_overlap_iter hg hpre (by rw [hc]; exact hk) i (by rw [hc]; exact h) ha
    rw [hc, hp] at this
    exact this
  · have := api_overlap_iter_err s i fuel
    rw [hc] at this
    exact this

/-! ## `try_replace_all_with_bytes`, `try_replace_all_bytes` -/

/-- **`AhoCorasick::try_replace_all_with_bytes`**: `replaceBytes` over the matches of
`try_find_iter(Input::new(haystack))`, which are the specification's iterator; when the closure
never stops the output is the splice `spliceSpec` (C12) and the closure was handed exactly the
matches and the matched bytes, in order -/
theorem Top_replace_all_with_bytes (cfg : BuildCfg) (P : List (List UInt8)) {s : Searcher}
    (hs : acBuild {} cfg none P = .ok s) (hay : List UInt8) (repl : Mat → List UInt8)
    (stop : Option Nat) :
    (supportsAnch cfg.startKind false →
      ∃ F, (∀ st, st ≤ hay.length + 1 →
          IsFind cfg.matchKind (specPats cfg.fold P) (specHay cfg.fold hay) st hay.length false
            (F st)) ∧
        topFindIter s (Input.whole hay) = .ok (iterSpec F 0 hay.length) ∧
        topReplaceAllWithBytes s hay repl stop =
          .ok (replaceBytes hay (iterSpec F 0 hay.length) repl stop) ∧
        (replaceBytes hay (iterSpec F 0 hay.length) repl none).1 =
          spliceSpec hay repl 0 (iterSpec F 0 hay.length) ∧
        (replaceBytes hay (iterSpec F 0 hay.length) repl none).2 =
          (iterSpec F 0 hay.length).map fun m => (m, (hay.take m.stop).drop m.start)) ∧
    (¬ supportsAnch cfg.startKind false →
      topReplaceAllWithBytes s hay repl stop = .error .invalidInputUnanchored) := by
  obtain ⟨hg, hc, hp, hpre⟩ := acBuild_good (Nat.le_refl _) hs
  refine ⟨fun h => ?_, fun h => ?_⟩
  · obtain ⟨F, h1, h2, h3⟩ := api_replace hg hpre hay repl stop (by rw [hc]; exact h)
    rw [hc, hp] at h1
    exact ⟨F, h1, h2, h3, C12_bytes hay _ repl, C12_log hay _ repl⟩
  · exact api_replace_err s hay repl stop (by rw [hc]; exact h)

theorem specPats_length (f : Bool) (P : List (List UInt8)) : (specPats f P).length = P.length := by
  cases f
  · rfl
  · exact List.length_map _

/-- **`AhoCorasick::try_replace_all_bytes`**: the splice of `replace_with[mat.pattern()]` over the
iterator's matches; every `mat.pattern()` indexes the pattern list (so `replace_with[·]` is in
bounds when `replace_with.len() == patterns_len()`, the method's assertion) -/
theorem Top_replace_all_bytes (cfg : BuildCfg) (P : List (List UInt8)) {s : Searcher}
    (hs : acBuild {} cfg none P = .ok s) (hay : List UInt8) (replaceWith : List (List UInt8)) :
    (supportsAnch cfg.startKind false →
      ∃ ms, topFindIter s (Input.whole hay) = .ok ms ∧
        topReplaceAllBytes s hay replaceWith =
          .ok (spliceSpec hay (fun m => replaceWith.getD m.pid []) 0 ms) ∧
        ∀ m ∈ ms, m.pid < P.length) ∧
    (¬ supportsAnch cfg.startKind false →
      topReplaceAllBytes s hay replaceWith = .error .invalidInputUnanchored) := by
  refine ⟨fun h => ?_, fun h => ?_⟩
  · obtain ⟨F, hF, h1, h2, h3, _⟩ :=
      (Top_replace_all_with_bytes cfg P hs hay (fun m => replaceWith.getD m.pid []) none).1 h
    refine ⟨_, h1, ?_, fun m hm => ?_⟩
    · unfold topReplaceAllBytes
      rw [h2, ← h3]
    · obtain ⟨⟨p, hp, _⟩, _⟩ := iter_occ hF (Nat.zero_le _) m hm
      have := (List.getElem?_eq_some_iff.1 hp).1
      rwa [specPats_length] at this
  · unfold topReplaceAllBytes
    rw [(Top_replace_all_with_bytes cfg P hs hay _ none).2 h]

/-! ## `try_stream_find_iter` -/

/-- **`AhoCorasick::try_stream_find_iter`**, drained: for every stream, every read schedule (each
`read` returning at least one byte while data remain) and every buffer capacity leaving one byte
of room beyond the longest pattern, the matches are those of `try_find_iter` on the whole stream
– the specification's iterator over THE standard answers –, no I/O error is reported and `read` is
never called with an empty buffer -/
theorem Top_stream_find (cfg : BuildCfg) (P : List (List UInt8)) {s : Searcher}
    (hs : acBuild {} cfg none P = .ok s) (hk : cfg.matchKind = .std) (hne : ∀ p ∈ P, p ≠ [])
    (h : supportsAnch cfg.startKind false) (data : List UInt8) (sched : List Nat)
    (hsch : ∀ x ∈ sched, 1 ≤ x) (spare : Option Nat) (minFactor defaultCap : Nat)
    (hcap : (Buffer.new (α := UInt8) (maxPatLen P) spare minFactor defaultCap).min <
        (Buffer.new (α := UInt8) (maxPatLen P) spare minFactor defaultCap).cap) :
    ∃ F, (∀ st, st ≤ data.length + 1 →
        IsFind .std (specPats cfg.fold P) (specHay cfg.fold data) st data.length false (F st)) ∧
      topFindIter s (Input.whole data) = .ok (iterSpec F 0 data.length) ∧
      topStreamFind s { data := data, sched := sched } spare minFactor defaultCap =
        .ok (iterSpec F 0 data.length, false, 0) := by
  obtain ⟨hg, hc, hp, hpre⟩ := acBuild_good (Nat.le_refl _) hs
  obtain ⟨ms, h1, h2⟩ := api_stream hg hpre (by rw [hc]; exact hk) (by rw [hp]; exact hne)
    (by rw [hc]; exact h) data sched hsch spare minFactor defaultCap (by rw [hp]; exact hcap)
  obtain ⟨F, hF, h3⟩ := (Top_find_iter cfg P hs (Input.whole data)).1 h (Or.inl hk)
  rw [h3] at h1
  cases h1
  rw [hk] at hF
  exact ⟨F, hF, h3, h2⟩

/-- … with the production constants (`max(8·min, 64 KiB)`, or explicit spare room) -/
theorem Top_stream_find_default (cfg : BuildCfg) (P : List (List UInt8)) {s : Searcher}
    (hs : acBuild {} cfg none P = .ok s) (hk : cfg.matchKind = .std) (hne : ∀ p ∈ P, p ≠ [])
    (h : supportsAnch cfg.startKind false) (data : List UInt8) (sched : List Nat)
    (hsch : ∀ x ∈ sched, 1 ≤ x) (spare : Option Nat) :
    ∃ F, (∀ st, st ≤ data.length + 1 →
        IsFind .std (specPats cfg.fold P) (specHay cfg.fold data) st data.length false (F st)) ∧
      topFindIter s (Input.whole data) = .ok (iterSpec F 0 data.length) ∧
      topStreamFind s { data := data, sched := sched } spare =
        .ok (iterSpec F 0 data.length, false, 0) :=
  Top_stream_find cfg P hs hk hne h data sched hsch spare 8 (64 * 1024)
    (StreamP.hcap_default _ spare)

/-- the rejected stream searches, in the order of the code: the gate, the match kind, the empty
pattern -/
theorem Top_stream_find_rejected (cfg : BuildCfg) (P : List (List UInt8)) {s : Searcher}
    (hs : acBuild {} cfg none P = .ok s) (rdr : Reader UInt8) (spare : Option Nat)
    (minFactor defaultCap : Nat) :
    (¬ supportsAnch cfg.startKind false →
      topStreamFind s rdr spare minFactor defaultCap = .error .invalidInputUnanchored) ∧
    (supportsAnch cfg.startKind false → cfg.matchKind ≠ .std →
      topStreamFind s rdr spare minFactor defaultCap = .error .unsupportedStream) ∧
    (supportsAnch cfg.startKind false → cfg.matchKind = .std → [] ∈ P →
      topStreamFind s rdr spare minFactor defaultCap = .error .unsupportedEmpty) := by
  obtain ⟨_, hc, hp, _⟩ := acBuild_good (Nat.le_refl _) hs
  have := api_stream_err s rdr spare minFactor defaultCap
  rw [hc, hp] at this
  exact this

/-! ## which requests are rejected: the gate is `supportsAnch` -/

/-- `enforce_anchored_consistency(have, want)` succeeds iff the start kind supports the mode -/
theorem Top_gate (sk : StartKind) (a : Bool) :
    (anchoredGate sk a = none ↔ supportsAnch sk a) ∧
    (¬ supportsAnch sk a → anchoredGate sk a = some (anchErr a)) ∧
    (supportsAnch sk a ↔ sk = .both ∨ (sk = .unanchored ∧ a = false) ∨ (sk = .anchored ∧ a = true)) :=
  ⟨gate_none_iff sk a, gate_err, Iff.rfl⟩

/-! ## everything as one statement -/

/-- the specification of a searcher for configuration `cfg` and patterns `P` -/
structure TopSpec (cfg : BuildCfg) (P : List (List UInt8)) (s : Searcher) : Prop where
  find : ∀ i : Input UInt8,
    (supportsAnch cfg.startKind i.anch → (cfg.matchKind = .std ∨ i.earliest = false) →
      ∃ r, topFind s i = .ok r ∧
        IsFind cfg.matchKind (specPats cfg.fold P) (specHay cfg.fold i.hay) i.s i.e i.anch r) ∧
    (¬ supportsAnch cfg.startKind i.anch → topFind s i = .error (anchErr i.anch))
  isMatch : ∀ i : Input UInt8,
    (supportsAnch cfg.startKind i.anch →
      ∃ b, topIsMatch s i = .ok b ∧
        (b = true ↔
          ∃ m, IsOccA (specPats cfg.fold P) (specHay cfg.fold i.hay) i.s i.e i.anch m)) ∧
    (¬ supportsAnch cfg.startKind i.anch → topIsMatch s i = .error (anchErr i.anch))
  findIter : ∀ i : Input UInt8,
    (supportsAnch cfg.startKind i.anch → (cfg.matchKind = .std ∨ i.earliest = false) →
      ∃ F, (∀ st, st ≤ i.e + 1 →
          IsFind cfg.matchKind (specPats cfg.fold P) (specHay cfg.fold i.hay) st i.e i.anch
            (F st)) ∧
        topFindIter s i = .ok (iterSpec F i.s i.e)) ∧
    (¬ supportsAnch cfg.startKind i.anch → topFindIter s i = .error (anchErr i.anch))
  overlapping : ∀ i : Input UInt8,
    (supportsAnch cfg.startKind i.anch → cfg.matchKind = .std →
      ∃ l, IsOverlapList (specPats cfg.fold P) (specHay cfg.fold i.hay) i.s i.e i.anch l ∧
        ∀ n, topOverlapping s i n =
          (l.take n).map (fun m => Except.ok (some m)) ++
            List.replicate (n - l.length) (Except.ok none)) ∧
    (supportsAnch cfg.startKind i.anch → cfg.matchKind ≠ .std →
      ∀ n, topOverlapping s i (n + 1) = [.error .unsupportedOverlapping]) ∧
    (¬ supportsAnch cfg.startKind i.anch →
      ∀ n, topOverlapping s i (n + 1) = [.error (anchErr i.anch)])
  replaceAllBytes : ∀ (hay : List UInt8) (replaceWith : List (List UInt8)),
    (supportsAnch cfg.startKind false →
      ∃ ms, topFindIter s (Input.whole hay) = .ok ms ∧
        topReplaceAllBytes s hay replaceWith =
          .ok (spliceSpec hay (fun m => replaceWith.getD m.pid []) 0 ms) ∧
        ∀ m ∈ ms, m.pid < P.length) ∧
    (¬ supportsAnch cfg.startKind false →
      topReplaceAllBytes s hay replaceWith = .error .invalidInputUnanchored)
  streamFind : cfg.matchKind = .std → (∀ p ∈ P, p ≠ []) → supportsAnch cfg.startKind false →
    ∀ (data : List UInt8) (sched : List Nat), (∀ x ∈ sched, 1 ≤ x) →
    ∀ (spare : Option Nat) (minFactor defaultCap : Nat),
      (Buffer.new (α := UInt8) (maxPatLen P) spare minFactor defaultCap).min <
        (Buffer.new (α := UInt8) (maxPatLen P) spare minFactor defaultCap).cap →
      ∃ ms, topFindIter s (Input.whole data) = .ok ms ∧
        topStreamFind s { data := data, sched := sched } spare minFactor defaultCap =
          .ok (ms, false, 0)

/-- whatever a successful build returns meets the specification -/
theorem Top_spec (cfg : BuildCfg) (P : List (List UInt8)) {s : Searcher}
    (hs : acBuild {} cfg none P = .ok s) : TopSpec cfg P s where
  find := Top_find cfg P hs
  isMatch := Top_is_match cfg P hs
  findIter := Top_find_iter cfg P hs
  overlapping := Top_overlapping cfg P hs
  replaceAllBytes := Top_replace_all_bytes cfg P hs
  streamFind := fun hk hne h data sched hsch spare minFactor defaultCap hcap => by
    obtain ⟨F, _, h1, h2⟩ :=
      Top_stream_find cfg P hs hk hne h data sched hsch spare minFactor defaultCap hcap
    exact ⟨_, h1, h2⟩

/-- **The capstone.**  For every configuration and every collection of at most 1000 patterns with
at most 10^6 bytes in total, `AhoCorasick::builder()…build(patterns)` succeeds, with the kind the
configuration asks for, and every public search method of the result answers exactly as the
specification says. -/
theorem Top_capstone (cfg : BuildCfg) (P : List (List UInt8))
    (hP : P.length ≤ 1000) (hT : totalLen P ≤ 1000000) :
    ∃ s, acBuild {} cfg none P = .ok s ∧ s.kind = chosenKind cfg P.length ∧ TopSpec cfg P s := by
  obtain ⟨s, hs, hk, _⟩ := Top_build cfg P hP hT
  exact ⟨s, hs, hk, Top_spec cfg P hs⟩

end AcVerif
