import AcVerif.Engine.Gates
/-!
# C13 – search rejection depends only on configuration

`gate` mentions neither the automaton kind, nor the pattern list (beyond
"contains the empty pattern"), nor the haystack: so the verdict cannot depend
on them.  The theorem below states the property's four clauses outright.
-/
namespace AcVerif

/-- (a) the anchoring mode is not covered by the start kind -/
def clauseA (api : Api) (sk : StartKind) (anch : Bool) : Prop :=
  (sk = .unanchored ∧ api.takesInput = true ∧ anch = true) ∨
  (sk = .anchored ∧ ¬ (api.takesInput = true ∧ anch = true))
/-- (b) overlapping or stream search on a non-standard searcher -/
def clauseB (api : Api) (mk : MatchKind) : Prop :=
  (api.isOverlapping = true ∨ api.isStream = true) ∧ mk ≠ .std
/-- (c) anchored overlapping iterator -/
def clauseC (api : Api) (anch : Bool) : Prop := api = .findOverlappingIter ∧ anch = true
/-- (d) stream search on a searcher containing the empty pattern -/
def clauseD (api : Api) (hasEmpty : Bool) : Prop := api.isStream = true ∧ hasEmpty = true

/-- A request is rejected iff (a) ∨ (b) ∨ (c) ∨ (d). -/
theorem C13_rejected_iff (api : Api) (mk : MatchKind) (sk : StartKind) (anch hasEmpty : Bool) :
    (gate api mk sk anch hasEmpty).isSome = true ↔
      clauseA api sk anch ∨ clauseB api mk ∨ clauseC api anch ∨ clauseD api hasEmpty := by
  cases api <;> cases mk <;> cases sk <;> cases anch <;> cases hasEmpty <;>
    simp [gate, gateAut, anchoredGate, clauseA, clauseB, clauseC, clauseD, Api.takesInput,
      Api.isOverlapping, Api.isStream]

/-- The same holds for requests made directly on an automaton, where the
checks happen in a different order: the *set* of rejected requests is the same. -/
theorem C13_rejected_iff_lowlevel (api : Api) (mk : MatchKind) (sk : StartKind) (anch hasEmpty : Bool) :
    (gateAut api mk sk anch hasEmpty).isSome = true ↔
      clauseA api sk anch ∨ clauseB api mk ∨ clauseC api anch ∨ clauseD api hasEmpty := by
  cases api <;> cases mk <;> cases sk <;> cases anch <;> cases hasEmpty <;>
    simp [gateAut, anchoredGate, clauseA, clauseB, clauseC, clauseD, Api.takesInput,
      Api.isOverlapping, Api.isStream]

/-- Which error is reported when a request is rejected for an unsupported
anchoring mode: it names the requested mode. -/
theorem C13_anchor_error (api : Api) (mk : MatchKind) (sk : StartKind) (anch hasEmpty : Bool)
    (h : clauseA api sk anch) :
    gate api mk sk anch hasEmpty =
      some (if api.takesInput && anch then .invalidInputAnchored else .invalidInputUnanchored) := by
  cases api <;> cases mk <;> cases sk <;> cases anch <;> cases hasEmpty <;>
    simp_all [gate, anchoredGate, clauseA, Api.takesInput]

/-- non-vacuity: each clause is met by some request, and some request is accepted -/
example : (gate .find .lf .unanchored true false).isSome = true ∧
    (gate .findOverlapping .lf .both false false).isSome = true ∧
    (gate .findOverlappingIter .std .both true false).isSome = true ∧
    (gate .streamFindIter .std .both false true).isSome = true ∧
    (gate .streamFindIter .std .both false false).isSome = false := by decide

end AcVerif
