import AcVerif.Proofs.StreamFold
import AcVerif.Proofs.StreamTransfer
import AcVerif.Theorems.C11
import AcVerif.Theorems.L1cFold
import AcVerif.Theorems.L1dFold
import AcVerif.Theorems.L1dIdsFold
import AcVerif.Theorems.L1eFold
/-!
# C07 / C08 / C18 for the ASCII-case-insensitive searcher

The case-insensitive searcher is `(ideal .std (P.map (·.map foldByte)) sk false).comap foldByte`
(C11): the automaton of the FOLDED patterns whose transition function folds the input byte first.
For **every** pattern list `P` (non-empty, no empty pattern), every start kind supporting
unanchored search, every stream `data`, read schedule (entries `≥ 1`) and buffer constants leaving
one byte of room beyond `min` (`hcap`, stated for the `maxLen` of that automaton, which is the
maximal pattern length of `P`: folding keeps lengths):

* `C07Fold_stream_eq_iter`: `StreamFindIter` yields exactly the matches of the in-memory
  `FindIter` of the case-insensitive automaton on the whole stream, no I/O error, no `read` into an
  empty buffer; `C07Fold_stream_spec`: these are *the* standard answers (`IsFind .std`) for the
  folded patterns on the FOLDED stream, iterated (`C07Fold_iter_folded`: the in-memory iterator is
  the iterator of the plain automaton over the folded stream).
* `C08Fold_chunks_concat`: the chunks concatenate to the **raw** stream `data`, and each match
  chunk carries exactly the raw bytes `(data.take m.stop).drop m.start` (matching is on folded
  bytes, the bytes handed out are the unfolded ones); `C08Fold_replace_eq`: stream replace writes
  `replaceBytes data ms repl none` computed on the raw stream from the matches of the
  case-insensitive iterator, calling the closure with the same (match, raw bytes) arguments.
* `C18Fold_read_fault`, `C18Fold_write_fault`: prefix properties under a failing reader / writer.
* Transfer to the transcribed case-insensitive builders (`CNfa.compile .std true P` and the DFA,
  id-level DFA and contiguous NFA built from it), through `StreamTiedTo` – the generalisation of
  `StreamTied` to an arbitrary reference automaton – and the `*Fold_startEquiv` theorems:
  `L1cFold_stream`, `L1dFold_stream`, `L1dIdsFold_stream`, `L1eFold_stream` and their `_spec`,
  `_replace`, `_read_fault`, `_write_fault` companions.

The proof instantiates the generic stream invariant (`StreamP.Hyp`, `drain_spec`, `go_eq`) with
the comap automaton on the raw stream; `Hyp` comes from the ideal facts on the folded stream
through `firstMatch_comap` (`Proofs/StreamFold.lean`).
-/
namespace AcVerif
open AcVerif.StreamX AcVerif.StreamP AcVerif.StdP AcVerif.MiscP AcVerif.CNfa

/-! ## folding keeps non-emptiness and lengths -/

theorem foldPats_ne (P : List (List UInt8)) (hne : ∀ p ∈ P, p ≠ []) :
    ∀ p ∈ P.map (·.map foldByte), p ≠ [] := by
  intro p hp
  obtain ⟨q, hq, rfl⟩ := List.mem_map.1 hp
  intro h
  exact hne q hq (List.map_eq_nil_iff.1 h)

theorem foldPats_lengths (P : List (List UInt8)) :
    (P.map (·.map foldByte)).map List.length = P.map List.length := by
  rw [List.map_map]
  apply List.map_congr_left
  intro p _
  exact List.length_map _

/-- the buffer's minimum is governed by the longest supplied pattern -/
theorem foldAut_maxLen (P : List (List UInt8)) (sk : StartKind) :
    ((ideal .std (P.map (·.map foldByte)) sk false).comap foldByte).maxLen =
      (ideal .std P sk false).maxLen := by
  show ((P.map (·.map foldByte)).map List.length).foldl max 0 = (P.map List.length).foldl max 0
  rw [foldPats_lengths]

/-- the in-memory iterator of the case-insensitive automaton is the iterator of the plain
automaton of the folded patterns over the folded stream -/
theorem C07Fold_iter_folded (P : List (List UInt8)) (sk : StartKind) (data : List UInt8) :
    findIter ((ideal .std (P.map (·.map foldByte)) sk false).comap foldByte) none
        { hay := data, s := 0, e := data.length, anch := false, earliest := false,
          valid := ⟨Nat.le_refl _, Nat.zero_le _⟩ } =
      findIter (ideal .std (P.map (·.map foldByte)) sk false) none
        { hay := data.map foldByte, s := 0, e := (data.map foldByte).length, anch := false,
          earliest := false, valid := ⟨Nat.le_refl _, Nat.zero_le _⟩ } := by
  have := findIter_comap (ideal .std (P.map (·.map foldByte)) sk false) foldByte (whole data)
  rw [whole_mapHay] at this
  exact this

/-! ## C07 -/

theorem C07Fold_stream_eq_iter (P : List (List UInt8)) (_hP : P ≠ []) (hne : ∀ p ∈ P, p ≠ [])
    (sk : StartKind) (hsk : supportsAnch sk false) (data : List UInt8) (sched : List Nat)
    (hs : ∀ x ∈ sched, 1 ≤ x) (spare : Option Nat) (minFactor defaultCap : Nat)
    (hcap : (Buffer.new (α := UInt8) ((ideal .std (P.map (·.map foldByte)) sk false).comap foldByte).maxLen spare minFactor
          defaultCap).min <
        (Buffer.new (α := UInt8) ((ideal .std (P.map (·.map foldByte)) sk false).comap foldByte).maxLen spare minFactor
          defaultCap).cap) :
    ∃ ms,
      findIter ((ideal .std (P.map (·.map foldByte)) sk false).comap foldByte) none
        { hay := data, s := 0, e := data.length, anch := false, earliest := false,
          valid := ⟨Nat.le_refl _, Nat.zero_le _⟩ } = .ok ms ∧
      streamFind ((ideal .std (P.map (·.map foldByte)) sk false).comap foldByte)
        { data := data, sched := sched } spare minFactor defaultCap = .ok (ms, false, 0) := by
  have hnef := foldPats_ne P hne
  obtain ⟨it, cs, err, hnew, hd, hsp, he, _⟩ :=
    stream_master_comap _ foldByte sk hsk hnef data sched hs spare minFactor defaultCap hcap none
  have herr := he rfl
  subst herr
  have H := hyp_comap _ foldByte sk hsk hnef data sched hs spare minFactor defaultCap hcap
  have hm := (spec_mats H.FOK hsp (Nat.zero_le _)).2 rfl
  refine ⟨_, findIter_comap_eq _ foldByte sk hsk data, ?_⟩
  rw [iter_findAt_comap _ foldByte sk hsk hnef data, ← hm]
  simp only [streamFind, hnew, hd]
  rfl

/-- the stream yields the specification's iterator over *the* standard answers for the folded
patterns on the folded stream -/
theorem C07Fold_stream_spec (P : List (List UInt8)) (_hP : P ≠ []) (hne : ∀ p ∈ P, p ≠ [])
    (sk : StartKind) (hsk : supportsAnch sk false) (data : List UInt8) (sched : List Nat)
    (hs : ∀ x ∈ sched, 1 ≤ x) (spare : Option Nat) (minFactor defaultCap : Nat)
    (hcap : (Buffer.new (α := UInt8) ((ideal .std (P.map (·.map foldByte)) sk false).comap foldByte).maxLen spare minFactor
          defaultCap).min <
        (Buffer.new (α := UInt8) ((ideal .std (P.map (·.map foldByte)) sk false).comap foldByte).maxLen spare minFactor
          defaultCap).cap) :
    ∃ F : Nat → Option Mat,
      (∀ st, st ≤ data.length + 1 →
        IsFind .std (P.map (·.map foldByte)) (data.map foldByte) st data.length false (F st)) ∧
      streamFind ((ideal .std (P.map (·.map foldByte)) sk false).comap foldByte)
        { data := data, sched := sched } spare minFactor defaultCap =
        .ok (iterSpec F 0 data.length, false, 0) := by
  obtain ⟨ms, h1, h2⟩ :=
    C07Fold_stream_eq_iter P _hP hne sk hsk data sched hs spare minFactor defaultCap hcap
  rw [findIter_comap_eq (P.map (·.map foldByte)) foldByte sk hsk data] at h1
  cases h1
  exact ⟨_, fun st hst =>
    findAt_comap_isFind (P.map (·.map foldByte)) foldByte sk hsk data st hst, h2⟩

/-! ## C08 -/

/-- concatenating all chunk bytes gives back the RAW stream, and each match chunk carries exactly
the RAW matched bytes -/
theorem C08Fold_chunks_concat (P : List (List UInt8)) (_hP : P ≠ []) (hne : ∀ p ∈ P, p ≠ [])
    (sk : StartKind) (hsk : supportsAnch sk false) (data : List UInt8) (sched : List Nat)
    (hs : ∀ x ∈ sched, 1 ≤ x) (spare : Option Nat) (minFactor defaultCap : Nat)
    (hcap : (Buffer.new (α := UInt8) ((ideal .std (P.map (·.map foldByte)) sk false).comap foldByte).maxLen spare minFactor
          defaultCap).min <
        (Buffer.new (α := UInt8) ((ideal .std (P.map (·.map foldByte)) sk false).comap foldByte).maxLen spare minFactor
          defaultCap).cap) :
    ∃ it cs,
      ChunkIter.new ((ideal .std (P.map (·.map foldByte)) sk false).comap foldByte)
        { data := data, sched := sched } spare minFactor defaultCap = .ok it ∧
      ChunkIter.drain ((ideal .std (P.map (·.map foldByte)) sk false).comap foldByte)
        (drainFuel data) it = (cs, false, 0) ∧
      (cs.flatMap fun c => match c with | .nonMatch b => b | .mtch b _ => b) = data ∧
      ∀ b m, Chunk.mtch b m ∈ cs → b = (data.take m.stop).drop m.start := by
  have hnef := foldPats_ne P hne
  obtain ⟨it, cs, err, hnew, hd, hsp, he, _⟩ :=
    stream_master_comap _ foldByte sk hsk hnef data sched hs spare minFactor defaultCap hcap none
  have herr := he rfl
  subst herr
  have H := hyp_comap _ foldByte sk hsk hnef data sched hs spare minFactor defaultCap hcap
  obtain ⟨h1, h2⟩ := spec_concat H.FOK hsp (Nat.zero_le _)
  refine ⟨it, cs, hnew, hd, ?_, h2⟩
  have e : (fun c : Chunk UInt8 => match c with | .nonMatch b => b | .mtch b _ => b) =
      chunkBytes := by
    funext c; cases c <;> rfl
  rw [e, h1]
  rfl

/-- stream replace = in-memory replace on the RAW stream with the matches of the case-insensitive
iterator; the closure log carries the raw matched bytes -/
theorem C08Fold_replace_eq (P : List (List UInt8)) (_hP : P ≠ []) (hne : ∀ p ∈ P, p ≠ [])
    (sk : StartKind) (hsk : supportsAnch sk false) (data : List UInt8) (sched : List Nat)
    (hs : ∀ x ∈ sched, 1 ≤ x) (spare : Option Nat) (minFactor defaultCap : Nat)
    (hcap : (Buffer.new (α := UInt8) ((ideal .std (P.map (·.map foldByte)) sk false).comap foldByte).maxLen spare minFactor
          defaultCap).min <
        (Buffer.new (α := UInt8) ((ideal .std (P.map (·.map foldByte)) sk false).comap foldByte).maxLen spare minFactor
          defaultCap).cap)
    (repl : Mat → List UInt8) :
    ∃ ms,
      findIter ((ideal .std (P.map (·.map foldByte)) sk false).comap foldByte) none
        { hay := data, s := 0, e := data.length, anch := false, earliest := false,
          valid := ⟨Nat.le_refl _, Nat.zero_le _⟩ } = .ok ms ∧
      streamReplaceWith ((ideal .std (P.map (·.map foldByte)) sk false).comap foldByte)
        { data := data, sched := sched } spare {} repl minFactor defaultCap =
        .ok ({ out := (replaceBytes data ms repl none).1 },
          (replaceBytes data ms repl none).2, true, 0) := by
  have hnef := foldPats_ne P hne
  obtain ⟨it, cs, err, hnew, hd, hsp, he, hgo⟩ :=
    stream_master_comap _ foldByte sk hsk hnef data sched hs spare minFactor defaultCap hcap none
  have herr := he rfl
  subst herr
  have H := hyp_comap _ foldByte sk hsk hnef data sched hs spare minFactor defaultCap hcap
  have hm := (spec_mats H.FOK hsp (Nat.zero_le _)).2 rfl
  refine ⟨_, findIter_comap_eq _ foldByte sk hsk data, ?_⟩
  rw [iter_findAt_comap _ foldByte sk hsk hnef data, ← hm]
  have hr := spec_replace repl hsp (Nat.le_refl _) 0 [] []
  rw [slice_self, List.append_nil] at hr
  simp only [streamReplaceWith, hnew, hgo]
  rw [hr]
  rfl

/-! ## C18 -/

theorem C18Fold_read_fault (P : List (List UInt8)) (_hP : P ≠ []) (hne : ∀ p ∈ P, p ≠ [])
    (sk : StartKind) (hsk : supportsAnch sk false) (data : List UInt8) (sched : List Nat)
    (hs : ∀ x ∈ sched, 1 ≤ x) (spare : Option Nat) (minFactor defaultCap : Nat)
    (hcap : (Buffer.new (α := UInt8) ((ideal .std (P.map (·.map foldByte)) sk false).comap foldByte).maxLen spare minFactor
          defaultCap).min <
        (Buffer.new (α := UInt8) ((ideal .std (P.map (·.map foldByte)) sk false).comap foldByte).maxLen spare minFactor
          defaultCap).cap)
    (k : Nat) :
    ∃ ms ms' err er,
      streamFind ((ideal .std (P.map (·.map foldByte)) sk false).comap foldByte)
        { data := data, sched := sched } spare minFactor defaultCap = .ok (ms, false, 0) ∧
      streamFind ((ideal .std (P.map (·.map foldByte)) sk false).comap foldByte)
        { data := data, sched := sched, failAt := some k } spare minFactor defaultCap =
        .ok (ms', err, er) ∧
      ms' <+: ms ∧ er = 0 ∧ (err = false → ms' = ms) := by
  have hnef := foldPats_ne P hne
  obtain ⟨it, cs, err, hnew, hd, hsp, he, _⟩ :=
    stream_master_comap _ foldByte sk hsk hnef data sched hs spare minFactor defaultCap hcap none
  have herr := he rfl
  subst herr
  obtain ⟨it', cs', err', hnew', hd', hsp', _, _⟩ :=
    stream_master_comap _ foldByte sk hsk hnef data sched hs spare minFactor defaultCap hcap
      (some k)
  have H := hyp_comap _ foldByte sk hsk hnef data sched hs spare minFactor defaultCap hcap
  have hm := (spec_mats H.FOK hsp (Nat.zero_le _)).2 rfl
  have hm' := spec_mats H.FOK hsp' (Nat.zero_le _)
  refine ⟨chunkMats cs, chunkMats cs', err', 0, ?_, ?_, ?_, rfl, ?_⟩
  · simp only [streamFind, hnew, hd]; rfl
  · simp only [streamFind, hnew', hd']; rfl
  · rw [hm]; exact hm'.1
  · intro h; rw [hm, hm'.2 h]

theorem C18Fold_write_fault (P : List (List UInt8)) (_hP : P ≠ []) (hne : ∀ p ∈ P, p ≠ [])
    (sk : StartKind) (hsk : supportsAnch sk false) (data : List UInt8) (sched : List Nat)
    (hs : ∀ x ∈ sched, 1 ≤ x) (spare : Option Nat) (minFactor defaultCap : Nat)
    (hcap : (Buffer.new (α := UInt8) ((ideal .std (P.map (·.map foldByte)) sk false).comap foldByte).maxLen spare minFactor
          defaultCap).min <
        (Buffer.new (α := UInt8) ((ideal .std (P.map (·.map foldByte)) sk false).comap foldByte).maxLen spare minFactor
          defaultCap).cap)
    (repl : Mat → List UInt8) (l : Nat) :
    ∃ w w' log log' ok',
      streamReplaceWith ((ideal .std (P.map (·.map foldByte)) sk false).comap foldByte)
        { data := data, sched := sched } spare {} repl minFactor defaultCap =
        .ok (w, log, true, 0) ∧
      streamReplaceWith ((ideal .std (P.map (·.map foldByte)) sk false).comap foldByte)
        { data := data, sched := sched } spare { limit := some l } repl minFactor defaultCap =
        .ok (w', log', ok', 0) ∧
      w'.out <+: w.out ∧ w'.out.length ≤ l ∧ (ok' = true → w'.out = w.out) := by
  have hnef := foldPats_ne P hne
  obtain ⟨it, cs, err, hnew, hd, hsp, he, hgo⟩ :=
    stream_master_comap _ foldByte sk hsk hnef data sched hs spare minFactor defaultCap hcap none
  have herr := he rfl
  subst herr
  have h1 := goPure_nolimit repl cs false [] []
  have h2 := goPure_limit repl cs false l [] [] (Nat.zero_le _)
  refine ⟨(goPure repl cs false {} []).1, (goPure repl cs false { limit := some l } []).1,
    (goPure repl cs false {} []).2.1, (goPure repl cs false { limit := some l } []).2.1,
    (goPure repl cs false { limit := some l } []).2.2, ?_, ?_, h2.1, h2.2.1, h2.2.2⟩
  · simp only [streamReplaceWith, hnew, hgo]
    have : (goPure repl cs false {} []).2.2 = true := h1.2
    rw [this]
  · simp only [streamReplaceWith, hnew, hgo]

/-! ## corollaries: the default constants (factor 8, 64 KiB) -/

theorem C07Fold_stream_eq_iter_default (P : List (List UInt8)) (_hP : P ≠ [])
    (hne : ∀ p ∈ P, p ≠ []) (sk : StartKind) (hsk : supportsAnch sk false) (data : List UInt8)
    (sched : List Nat) (hs : ∀ x ∈ sched, 1 ≤ x) (spare : Option Nat) :
    ∃ ms,
      findIter ((ideal .std (P.map (·.map foldByte)) sk false).comap foldByte) none
        { hay := data, s := 0, e := data.length, anch := false, earliest := false,
          valid := ⟨Nat.le_refl _, Nat.zero_le _⟩ } = .ok ms ∧
      streamFind ((ideal .std (P.map (·.map foldByte)) sk false).comap foldByte)
        { data := data, sched := sched } spare = .ok (ms, false, 0) :=
  C07Fold_stream_eq_iter P _hP hne sk hsk data sched hs spare 8 (64 * 1024)
    (hcap_default _ spare)

theorem C08Fold_replace_eq_default (P : List (List UInt8)) (_hP : P ≠ [])
    (hne : ∀ p ∈ P, p ≠ []) (sk : StartKind) (hsk : supportsAnch sk false) (data : List UInt8)
    (sched : List Nat) (hs : ∀ x ∈ sched, 1 ≤ x) (spare : Option Nat) (repl : Mat → List UInt8) :
    ∃ ms,
      findIter ((ideal .std (P.map (·.map foldByte)) sk false).comap foldByte) none
        { hay := data, s := 0, e := data.length, anch := false, earliest := false,
          valid := ⟨Nat.le_refl _, Nat.zero_le _⟩ } = .ok ms ∧
      streamReplaceWith ((ideal .std (P.map (·.map foldByte)) sk false).comap foldByte)
        { data := data, sched := sched } spare {} repl =
        .ok ({ out := (replaceBytes data ms repl none).1 },
          (replaceBytes data ms repl none).2, true, 0) :=
  C08Fold_replace_eq P _hP hne sk hsk data sched hs spare 8 (64 * 1024) (hcap_default _ spare)
    repl

/-! ## automata tied to an arbitrary reference automaton -/

section tied
variable {σ τ υ α : Type}

theorem mstart_trans {A : Aut σ α} {B : Aut τ α} {C : Aut υ α} (h1 : MStart A B)
    (h2 : MStart B C) : MStart A C := by
  rcases h1.cases with ⟨hA, hB⟩ | ⟨a, b, hA, hB, hab⟩
  · rcases h2.cases with ⟨_, hC⟩ | ⟨_, _, hB', _, _⟩
    · unfold MStart; rw [hA, hC]; trivial
    · rw [hB] at hB'; cases hB'
  · rcases h2.cases with ⟨hB', _⟩ | ⟨b', c, hB', hC, hbc⟩
    · rw [hB] at hB'; cases hB'
    · rw [hB] at hB'; cases hB'
      unfold MStart; rw [hA, hC]; exact hab.trans hbc

/-- everything the stream search reads of `X` agrees with the reference automaton `B`
(`StreamTied X P sk` is `StreamTiedTo X (ideal .std P sk false)`) -/
structure StreamTiedTo (X : Aut σ α) (B : Aut τ α) : Prop where
  kind : X.kind = B.kind
  patLen : ∀ pid, X.patLen pid = B.patLen pid
  minLen : X.minLen = B.minLen
  maxLen : X.maxLen = B.maxLen
  start : MStart X B

theorem StreamTiedTo.streamFind {X : Aut σ α} {B : Aut τ α} (h : StreamTiedTo X B)
    (rdr : Reader α) (spare : Option Nat) (minFactor defaultCap : Nat) :
    streamFind X rdr spare minFactor defaultCap =
      AcVerif.streamFind B rdr spare minFactor defaultCap :=
  streamFind_transfer _ _ h.kind h.patLen h.minLen h.maxLen h.start rdr spare minFactor defaultCap

theorem StreamTiedTo.streamReplaceWith {X : Aut σ α} {B : Aut τ α} (h : StreamTiedTo X B)
    (rdr : Reader α) (spare : Option Nat) (w : Writer α) (repl : Mat → List α)
    (minFactor defaultCap : Nat) :
    streamReplaceWith X rdr spare w repl minFactor defaultCap =
      AcVerif.streamReplaceWith B rdr spare w repl minFactor defaultCap :=
  streamReplaceWith_transfer _ _ h.kind h.patLen h.minLen h.maxLen h.start rdr spare w repl
    minFactor defaultCap

end tied

/-! ## the prefilter flag of the case-insensitive ideal automaton is not read -/

section comapPre
variable {α : Type} [DecidableEq α]

theorem ideal_comap_run_hasPre (k : MatchKind) (Q : List (List α)) (sk : StartKind)
    (hp hp' anch : Bool) (g : α → α) (w : List α) : ∀ q : St α,
    ((ideal k Q sk hp).comap g).runFrom anch q w =
      ((ideal k Q sk hp').comap g).runFrom anch q w := by
  induction w with
  | nil => intro q; rfl
  | cons c w ih => intro q; exact ih (Ideal.next k (patSet k Q) anch q (g c))

theorem ideal_comap_mequiv_hasPre (k : MatchKind) (Q : List (List α)) (sk : StartKind)
    (hp hp' : Bool) (g : α → α) (q : St α) :
    MEquiv ((ideal k Q sk hp).comap g) ((ideal k Q sk hp').comap g) q q := by
  intro w
  have e := ideal_comap_run_hasPre k Q sk hp hp' false g w q
  exact ⟨congrArg (fun q => ((ideal k Q sk hp').comap g).isMatch q) e,
    congrArg (fun q => (((ideal k Q sk hp').comap g).mpats q).take 1) e⟩

theorem ideal_comap_mstart_hasPre (k : MatchKind) (Q : List (List α)) (sk : StartKind)
    (hp hp' : Bool) (g : α → α) :
    MStart ((ideal k Q sk hp).comap g) ((ideal k Q sk hp').comap g) := by
  cases sk
  · exact ideal_comap_mequiv_hasPre k Q .unanchored hp hp' g (.at [])
  · exact trivial
  · exact ideal_comap_mequiv_hasPre k Q .both hp hp' g (.at [])

end comapPre

/-- from `StartEquiv` (either strength) with the case-insensitive ideal automaton carrying any
prefilter flag -/
theorem StreamTiedTo.of_startEquiv_fold {σ : Type} {X : Aut σ UInt8} {P : List (List UInt8)}
    {sk : StartKind} {hasPre first : Bool}
    (hk : X.kind = MatchKind.std)
    (hl : ∀ pid, X.patLen pid = (P.getD pid []).length)
    (hmin : X.minLen = (P.map List.length).foldl min 18446744073709551615)
    (hmax : X.maxLen = (P.map List.length).foldl max 0)
    (h : StartEquiv X ((ideal .std (P.map (·.map foldByte)) sk hasPre).comap foldByte) first
      false) :
    StreamTiedTo X ((ideal .std (P.map (·.map foldByte)) sk false).comap foldByte) := by
  refine ⟨hk, fun pid => (hl pid).trans (C11_ids P pid).2.symm, ?_, ?_,
    mstart_trans (MStart.of_startEquiv h)
      (ideal_comap_mstart_hasPre .std _ sk hasPre false foldByte)⟩
  · rw [hmin]
    show _ = ((P.map (·.map foldByte)).map List.length).foldl min 18446744073709551615
    rw [foldPats_lengths]
  · rw [hmax]
    show _ = ((P.map (·.map foldByte)).map List.length).foldl max 0
    rw [foldPats_lengths]

/-! ## C07 / C08 / C18 for an automaton tied to the case-insensitive searcher -/

section tiedFold
variable {σ : Type}
theorem C07Fold_stream_eq_iter_tied {X : Aut σ UInt8} (P : List (List UInt8)) (hP : P ≠ [])
    (hne : ∀ p ∈ P, p ≠ []) (sk : StartKind) (hsk : supportsAnch sk false)
    (hX : StreamTiedTo X ((ideal .std (P.map (·.map foldByte)) sk false).comap foldByte))
    (data : List UInt8) (sched : List Nat)
    (hs : ∀ x ∈ sched, 1 ≤ x) (spare : Option Nat) (minFactor defaultCap : Nat)
    (hcap : (Buffer.new (α := UInt8) ((ideal .std (P.map (·.map foldByte)) sk false).comap foldByte).maxLen spare minFactor
          defaultCap).min <
        (Buffer.new (α := UInt8) ((ideal .std (P.map (·.map foldByte)) sk false).comap foldByte).maxLen spare minFactor
          defaultCap).cap) :
    ∃ ms,
      findIter ((ideal .std (P.map (·.map foldByte)) sk false).comap foldByte) none
        { hay := data, s := 0, e := data.length, anch := false, earliest := false,
          valid := ⟨Nat.le_refl _, Nat.zero_le _⟩ } = .ok ms ∧
      streamFind X { data := data, sched := sched } spare minFactor defaultCap =
        .ok (ms, false, 0) := by
  obtain ⟨ms, h1, h2⟩ :=
    C07Fold_stream_eq_iter P hP hne sk hsk data sched hs spare minFactor defaultCap hcap
  exact ⟨ms, h1, (hX.streamFind _ _ _ _).trans h2⟩

theorem C07Fold_stream_spec_tied {X : Aut σ UInt8} (P : List (List UInt8)) (hP : P ≠ [])
    (hne : ∀ p ∈ P, p ≠ []) (sk : StartKind) (hsk : supportsAnch sk false)
    (hX : StreamTiedTo X ((ideal .std (P.map (·.map foldByte)) sk false).comap foldByte))
    (data : List UInt8) (sched : List Nat)
    (hs : ∀ x ∈ sched, 1 ≤ x) (spare : Option Nat) (minFactor defaultCap : Nat)
    (hcap : (Buffer.new (α := UInt8) ((ideal .std (P.map (·.map foldByte)) sk false).comap foldByte).maxLen spare minFactor
          defaultCap).min <
        (Buffer.new (α := UInt8) ((ideal .std (P.map (·.map foldByte)) sk false).comap foldByte).maxLen spare minFactor
          defaultCap).cap) :
    ∃ F : Nat → Option Mat,
      (∀ st, st ≤ data.length + 1 →
        IsFind .std (P.map (·.map foldByte)) (data.map foldByte) st data.length false (F st)) ∧
      streamFind X { data := data, sched := sched } spare minFactor defaultCap =
        .ok (iterSpec F 0 data.length, false, 0) := by
  obtain ⟨F, h1, h2⟩ :=
    C07Fold_stream_spec P hP hne sk hsk data sched hs spare minFactor defaultCap hcap
  exact ⟨F, h1, (hX.streamFind _ _ _ _).trans h2⟩

theorem C08Fold_replace_eq_tied {X : Aut σ UInt8} (P : List (List UInt8)) (hP : P ≠ [])
    (hne : ∀ p ∈ P, p ≠ []) (sk : StartKind) (hsk : supportsAnch sk false)
    (hX : StreamTiedTo X ((ideal .std (P.map (·.map foldByte)) sk false).comap foldByte))
    (data : List UInt8) (sched : List Nat)
    (hs : ∀ x ∈ sched, 1 ≤ x) (spare : Option Nat) (minFactor defaultCap : Nat)
    (hcap : (Buffer.new (α := UInt8) ((ideal .std (P.map (·.map foldByte)) sk false).comap foldByte).maxLen spare minFactor
          defaultCap).min <
        (Buffer.new (α := UInt8) ((ideal .std (P.map (·.map foldByte)) sk false).comap foldByte).maxLen spare minFactor
          defaultCap).cap)
    (repl : Mat → List UInt8) :
    ∃ ms,
      findIter ((ideal .std (P.map (·.map foldByte)) sk false).comap foldByte) none
        { hay := data, s := 0, e := data.length, anch := false, earliest := false,
          valid := ⟨Nat.le_refl _, Nat.zero_le _⟩ } = .ok ms ∧
      streamReplaceWith X { data := data, sched := sched } spare {} repl minFactor defaultCap =
        .ok ({ out := (replaceBytes data ms repl none).1 },
          (replaceBytes data ms repl none).2, true, 0) := by
  obtain ⟨ms, h1, h2⟩ :=
    C08Fold_replace_eq P hP hne sk hsk data sched hs spare minFactor defaultCap hcap repl
  exact ⟨ms, h1, (hX.streamReplaceWith _ _ _ _ _ _).trans h2⟩

theorem C18Fold_read_fault_tied {X : Aut σ UInt8} (P : List (List UInt8)) (hP : P ≠ [])
    (hne : ∀ p ∈ P, p ≠ []) (sk : StartKind) (hsk : supportsAnch sk false)
    (hX : StreamTiedTo X ((ideal .std (P.map (·.map foldByte)) sk false).comap foldByte))
    (data : List UInt8) (sched : List Nat)
    (hs : ∀ x ∈ sched, 1 ≤ x) (spare : Option Nat) (minFactor defaultCap : Nat)
    (hcap : (Buffer.new (α := UInt8) ((ideal .std (P.map (·.map foldByte)) sk false).comap foldByte).maxLen spare minFactor
          defaultCap).min <
        (Buffer.new (α := UInt8) ((ideal .std (P.map (·.map foldByte)) sk false).comap foldByte).maxLen spare minFactor
          defaultCap).cap)
    (k : Nat) :
    ∃ ms ms' err er,
      streamFind X { data := data, sched := sched } spare minFactor defaultCap =
        .ok (ms, false, 0) ∧
      streamFind X { data := data, sched := sched, failAt := some k } spare minFactor defaultCap =
        .ok (ms', err, er) ∧
      ms' <+: ms ∧ er = 0 ∧ (err = false → ms' = ms) := by
  obtain ⟨ms, ms', err, er, h1, h2, h3⟩ :=
    C18Fold_read_fault P hP hne sk hsk data sched hs spare minFactor defaultCap hcap k
  exact ⟨ms, ms', err, er, (hX.streamFind _ _ _ _).trans h1, (hX.streamFind _ _ _ _).trans h2, h3⟩

theorem C18Fold_write_fault_tied {X : Aut σ UInt8} (P : List (List UInt8)) (hP : P ≠ [])
    (hne : ∀ p ∈ P, p ≠ []) (sk : StartKind) (hsk : supportsAnch sk false)
    (hX : StreamTiedTo X ((ideal .std (P.map (·.map foldByte)) sk false).comap foldByte))
    (data : List UInt8) (sched : List Nat)
    (hs : ∀ x ∈ sched, 1 ≤ x) (spare : Option Nat) (minFactor defaultCap : Nat)
    (hcap : (Buffer.new (α := UInt8) ((ideal .std (P.map (·.map foldByte)) sk false).comap foldByte).maxLen spare minFactor
          defaultCap).min <
        (Buffer.new (α := UInt8) ((ideal .std (P.map (·.map foldByte)) sk false).comap foldByte).maxLen spare minFactor
          defaultCap).cap)
    (repl : Mat → List UInt8) (l : Nat) :
    ∃ w w' log log' ok',
      streamReplaceWith X { data := data, sched := sched } spare {} repl minFactor defaultCap =
        .ok (w, log, true, 0) ∧
      streamReplaceWith X { data := data, sched := sched } spare { limit := some l } repl
        minFactor defaultCap = .ok (w', log', ok', 0) ∧
      w'.out <+: w.out ∧ w'.out.length ≤ l ∧ (ok' = true → w'.out = w.out) := by
  obtain ⟨w, w', log, log', ok', h1, h2, h3⟩ :=
    C18Fold_write_fault P hP hne sk hsk data sched hs spare minFactor defaultCap hcap repl l
  exact ⟨w, w', log, log', ok', (hX.streamReplaceWith _ _ _ _ _ _).trans h1,
    (hX.streamReplaceWith _ _ _ _ _ _).trans h2, h3⟩

end tiedFold

/-! ## the transcribed case-insensitive builders are tied, for every pattern list -/

/-- the noncontiguous NFA compiled with `ascii_case_insensitive(true)` is tied to the case-insensitive searcher -/
theorem L1cFold_tied (P : List (List UInt8)) (hasPre : Bool) :
    StreamTiedTo ((CNfa.compile .std true P).toAut .std P hasPre)
      ((ideal .std (P.map (·.map foldByte)) .both false).comap foldByte) :=
  StreamTiedTo.of_startEquiv_fold rfl (fun _ => rfl) rfl rfl (L1cFold_startEquiv .std P hasPre false)

/-- the DFA built from the case-insensitive NFA is tied to the case-insensitive searcher -/
theorem L1dFold_tied (P : List (List UInt8)) (hasPre bc : Bool) (sk : StartKind) :
    StreamTiedTo ((buildDfa (CNfa.compile .std true P) sk bc).toAut .std P hasPre)
      ((ideal .std (P.map (·.map foldByte)) sk false).comap foldByte) :=
  StreamTiedTo.of_startEquiv_fold rfl (fun _ => rfl) rfl rfl (L1dFold_startEquiv .std P hasPre bc sk false)

/-- the id-level DFA (premultiplied ids, remapped special states) built from the case-insensitive NFA is tied to the case-insensitive searcher -/
theorem L1dIdsFold_tied (P : List (List UInt8)) (sk : StartKind) (bc hasPre : Bool) :
    StreamTiedTo ((buildDfaIds (CNfa.compile .std true P) sk bc hasPre).toAut .std P hasPre)
      ((ideal .std (P.map (·.map foldByte)) sk false).comap foldByte) :=
  StreamTiedTo.of_startEquiv_fold rfl (fun _ => rfl) rfl rfl (L1dIdsFold_startEquiv .std P sk bc hasPre false)

/-- the contiguous NFA built from the case-insensitive NFA is tied to the case-insensitive searcher -/
theorem L1eFold_tied (P : List (List UInt8)) (hasPre bc : Bool) (dd : Nat) (hPl : P.length < 2147483648) :
    StreamTiedTo ((buildContig (CNfa.compile .std true P) dd bc hasPre).toAut .std P hasPre)
      ((ideal .std (P.map (·.map foldByte)) .both false).comap foldByte) :=
  StreamTiedTo.of_startEquiv_fold rfl (fun _ => rfl) rfl rfl (L1eFold_startEquiv .std P hasPre bc dd hPl false)

/-! ## … so C07 / C08 / C18 hold for them -/

/-- stream search on the noncontiguous NFA compiled with `ascii_case_insensitive(true)` = the in-memory iterator of the case-insensitive searcher (C07) -/
theorem L1cFold_stream (P : List (List UInt8)) (hP : P ≠ []) (hne : ∀ p ∈ P, p ≠ [])
    (hasPre : Bool)
    (data : List UInt8) (sched : List Nat)
    (hs : ∀ x ∈ sched, 1 ≤ x) (spare : Option Nat) (minFactor defaultCap : Nat)
    (hcap : (Buffer.new (α := UInt8) ((ideal .std (P.map (·.map foldByte)) .both false).comap foldByte).maxLen spare minFactor
          defaultCap).min <
        (Buffer.new (α := UInt8) ((ideal .std (P.map (·.map foldByte)) .both false).comap foldByte).maxLen spare minFactor
          defaultCap).cap) :
    ∃ ms,
      findIter ((ideal .std (P.map (·.map foldByte)) .both false).comap foldByte) none
        { hay := data, s := 0, e := data.length, anch := false, earliest := false,
          valid := ⟨Nat.le_refl _, Nat.zero_le _⟩ } = .ok ms ∧
      streamFind ((CNfa.compile .std true P).toAut .std P hasPre)
        { data := data, sched := sched } spare minFactor defaultCap = .ok (ms, false, 0) :=
  C07Fold_stream_eq_iter_tied P hP hne .both (Or.inl rfl) (L1cFold_tied P hasPre) data sched hs spare minFactor
    defaultCap hcap

/-- stream search on the noncontiguous NFA compiled with `ascii_case_insensitive(true)` = the specification's iterator over *the* standard answers for the folded patterns on the folded stream -/
theorem L1cFold_stream_spec (P : List (List UInt8)) (hP : P ≠ []) (hne : ∀ p ∈ P, p ≠ [])
    (hasPre : Bool)
    (data : List UInt8) (sched : List Nat)
    (hs : ∀ x ∈ sched, 1 ≤ x) (spare : Option Nat) (minFactor defaultCap : Nat)
    (hcap : (Buffer.new (α := UInt8) ((ideal .std (P.map (·.map foldByte)) .both false).comap foldByte).maxLen spare minFactor
          defaultCap).min <
        (Buffer.new (α := UInt8) ((ideal .std (P.map (·.map foldByte)) .both false).comap foldByte).maxLen spare minFactor
          defaultCap).cap) :
    ∃ F : Nat → Option Mat,
      (∀ st, st ≤ data.length + 1 →
        IsFind .std (P.map (·.map foldByte)) (data.map foldByte) st data.length false (F st)) ∧
      streamFind ((CNfa.compile .std true P).toAut .std P hasPre)
        { data := data, sched := sched } spare minFactor defaultCap =
        .ok (iterSpec F 0 data.length, false, 0) :=
  C07Fold_stream_spec_tied P hP hne .both (Or.inl rfl) (L1cFold_tied P hasPre) data sched hs spare minFactor
    defaultCap hcap

/-- stream replace on the noncontiguous NFA compiled with `ascii_case_insensitive(true)` = in-memory replace on the RAW stream (C08) -/
theorem L1cFold_stream_replace (P : List (List UInt8)) (hP : P ≠ []) (hne : ∀ p ∈ P, p ≠ [])
    (hasPre : Bool)
    (data : List UInt8) (sched : List Nat)
    (hs : ∀ x ∈ sched, 1 ≤ x) (spare : Option Nat) (minFactor defaultCap : Nat)
    (hcap : (Buffer.new (α := UInt8) ((ideal .std (P.map (·.map foldByte)) .both false).comap foldByte).maxLen spare minFactor
          defaultCap).min <
        (Buffer.new (α := UInt8) ((ideal .std (P.map (·.map foldByte)) .both false).comap foldByte).maxLen spare minFactor
          defaultCap).cap)
    (repl : Mat → List UInt8) :
    ∃ ms,
      findIter ((ideal .std (P.map (·.map foldByte)) .both false).comap foldByte) none
        { hay := data, s := 0, e := data.length, anch := false, earliest := false,
          valid := ⟨Nat.le_refl _, Nat.zero_le _⟩ } = .ok ms ∧
      streamReplaceWith ((CNfa.compile .std true P).toAut .std P hasPre)
        { data := data, sched := sched } spare {} repl minFactor defaultCap =
        .ok ({ out := (replaceBytes data ms repl none).1 },
          (replaceBytes data ms repl none).2, true, 0) :=
  C08Fold_replace_eq_tied P hP hne .both (Or.inl rfl) (L1cFold_tied P hasPre) data sched hs spare minFactor
    defaultCap hcap repl

/-- a read failure at call `k` on the noncontiguous NFA compiled with `ascii_case_insensitive(true)`: a prefix of the fault-free matches (C18) -/
theorem L1cFold_read_fault (P : List (List UInt8)) (hP : P ≠ []) (hne : ∀ p ∈ P, p ≠ [])
    (hasPre : Bool)
    (data : List UInt8) (sched : List Nat)
    (hs : ∀ x ∈ sched, 1 ≤ x) (spare : Option Nat) (minFactor defaultCap : Nat)
    (hcap : (Buffer.new (α := UInt8) ((ideal .std (P.map (·.map foldByte)) .both false).comap foldByte).maxLen spare minFactor
          defaultCap).min <
        (Buffer.new (α := UInt8) ((ideal .std (P.map (·.map foldByte)) .both false).comap foldByte).maxLen spare minFactor
          defaultCap).cap)
    (k : Nat) :
    ∃ ms ms' err er,
      streamFind ((CNfa.compile .std true P).toAut .std P hasPre)
        { data := data, sched := sched } spare minFactor defaultCap = .ok (ms, false, 0) ∧
      streamFind ((CNfa.compile .std true P).toAut .std P hasPre)
        { data := data, sched := sched, failAt := some k } spare minFactor defaultCap =
        .ok (ms', err, er) ∧
      ms' <+: ms ∧ er = 0 ∧ (err = false → ms' = ms) :=
  C18Fold_read_fault_tied P hP hne .both (Or.inl rfl) (L1cFold_tied P hasPre) data sched hs spare minFactor
    defaultCap hcap k

/-- a writer failing after `l` bytes on the noncontiguous NFA compiled with `ascii_case_insensitive(true)`: a prefix of the fault-free output (C18) -/
theorem L1cFold_write_fault (P : List (List UInt8)) (hP : P ≠ []) (hne : ∀ p ∈ P, p ≠ [])
    (hasPre : Bool)
    (data : List UInt8) (sched : List Nat)
    (hs : ∀ x ∈ sched, 1 ≤ x) (spare : Option Nat) (minFactor defaultCap : Nat)
    (hcap : (Buffer.new (α := UInt8) ((ideal .std (P.map (·.map foldByte)) .both false).comap foldByte).maxLen spare minFactor
          defaultCap).min <
        (Buffer.new (α := UInt8) ((ideal .std (P.map (·.map foldByte)) .both false).comap foldByte).maxLen spare minFactor
          defaultCap).cap)
    (repl : Mat → List UInt8) (l : Nat) :
    ∃ w w' log log' ok',
      streamReplaceWith ((CNfa.compile .std true P).toAut .std P hasPre)
        { data := data, sched := sched } spare {} repl minFactor defaultCap =
        .ok (w, log, true, 0) ∧
      streamReplaceWith ((CNfa.compile .std true P).toAut .std P hasPre)
        { data := data, sched := sched } spare { limit := some l } repl minFactor defaultCap =
        .ok (w', log', ok', 0) ∧
      w'.out <+: w.out ∧ w'.out.length ≤ l ∧ (ok' = true → w'.out = w.out) :=
  C18Fold_write_fault_tied P hP hne .both (Or.inl rfl) (L1cFold_tied P hasPre) data sched hs spare minFactor
    defaultCap hcap repl l

/-- stream search on the DFA built from the case-insensitive NFA = the in-memory iterator of the case-insensitive searcher (C07) -/
theorem L1dFold_stream (P : List (List UInt8)) (hP : P ≠ []) (hne : ∀ p ∈ P, p ≠ [])
    (hasPre bc : Bool) (sk : StartKind) (hsk : supportsAnch sk false)
    (data : List UInt8) (sched : List Nat)
    (hs : ∀ x ∈ sched, 1 ≤ x) (spare : Option Nat) (minFactor defaultCap : Nat)
    (hcap : (Buffer.new (α := UInt8) ((ideal .std (P.map (·.map foldByte)) sk false).comap foldByte).maxLen spare minFactor
          defaultCap).min <
        (Buffer.new (α := UInt8) ((ideal .std (P.map (·.map foldByte)) sk false).comap foldByte).maxLen spare minFactor
          defaultCap).cap) :
    ∃ ms,
      findIter ((ideal .std (P.map (·.map foldByte)) sk false).comap foldByte) none
        { hay := data, s := 0, e := data.length, anch := false, earliest := false,
          valid := ⟨Nat.le_refl _, Nat.zero_le _⟩ } = .ok ms ∧
      streamFind ((buildDfa (CNfa.compile .std true P) sk bc).toAut .std P hasPre)
        { data := data, sched := sched } spare minFactor defaultCap = .ok (ms, false, 0) :=
  C07Fold_stream_eq_iter_tied P hP hne sk hsk (L1dFold_tied P hasPre bc sk) data sched hs spare minFactor
    defaultCap hcap

/-- stream search on the DFA built from the case-insensitive NFA = the specification's iterator over *the* standard answers for the folded patterns on the folded stream -/
theorem L1dFold_stream_spec (P : List (List UInt8)) (hP : P ≠ []) (hne : ∀ p ∈ P, p ≠ [])
    (hasPre bc : Bool) (sk : StartKind) (hsk : supportsAnch sk false)
    (data : List UInt8) (sched : List Nat)
    (hs : ∀ x ∈ sched, 1 ≤ x) (spare : Option Nat) (minFactor defaultCap : Nat)
    (hcap : (Buffer.new (α := UInt8) ((ideal .std (P.map (·.map foldByte)) sk false).comap foldByte).maxLen spare minFactor
          defaultCap).min <
        (Buffer.new (α := UInt8) ((ideal .std (P.map (·.map foldByte)) sk false).comap foldByte).maxLen spare minFactor
          defaultCap).cap) :
    ∃ F : Nat → Option Mat,
      (∀ st, st ≤ data.length + 1 →
        IsFind .std (P.map (·.map foldByte)) (data.map foldByte) st data.length false (F st)) ∧
      streamFind ((buildDfa (CNfa.compile .std true P) sk bc).toAut .std P hasPre)
        { data := data, sched := sched } spare minFactor defaultCap =
        .ok (iterSpec F 0 data.length, false, 0) :=
  C07Fold_stream_spec_tied P hP hne sk hsk (L1dFold_tied P hasPre bc sk) data sched hs spare minFactor
    defaultCap hcap

/-- stream replace on the DFA built from the case-insensitive NFA = in-memory replace on the RAW stream (C08) -/
theorem L1dFold_stream_replace (P : List (List UInt8)) (hP : P ≠ []) (hne : ∀ p ∈ P, p ≠ [])
    (hasPre bc : Bool) (sk : StartKind) (hsk : supportsAnch sk false)
    (data : List UInt8) (sched : List Nat)
    (hs : ∀ x ∈ sched, 1 ≤ x) (spare : Option Nat) (minFactor defaultCap : Nat)
    (hcap : (Buffer.new (α := UInt8) ((ideal .std (P.map (·.map foldByte)) sk false).comap foldByte).maxLen spare minFactor
          defaultCap).min <
        (Buffer.new (α := UInt8) ((ideal .std (P.map (·.map foldByte)) sk false).comap foldByte).maxLen spare minFactor
          defaultCap).cap)
    (repl : Mat → List UInt8) :
    ∃ ms,
      findIter ((ideal .std (P.map (·.map foldByte)) sk false).comap foldByte) none
        { hay := data, s := 0, e := data.length, anch := false, earliest := false,
          valid := ⟨Nat.le_refl _, Nat.zero_le _⟩ } = .ok ms ∧
      streamReplaceWith ((buildDfa (CNfa.compile .std true P) sk bc).toAut .std P hasPre)
        { data := data, sched := sched } spare {} repl minFactor defaultCap =
        .ok ({ out := (replaceBytes data ms repl none).1 },
          (replaceBytes data ms repl none).2, true, 0) :=
  C08Fold_replace_eq_tied P hP hne sk hsk (L1dFold_tied P hasPre bc sk) data sched hs spare minFactor
    defaultCap hcap repl

/-- a read failure at call `k` on the DFA built from the case-insensitive NFA: a prefix of the fault-free matches (C18) -/
theorem L1dFold_read_fault (P : List (List UInt8)) (hP : P ≠ []) (hne : ∀ p ∈ P, p ≠ [])
    (hasPre bc : Bool) (sk : StartKind) (hsk : supportsAnch sk false)
    (data : List UInt8) (sched : List Nat)
    (hs : ∀ x ∈ sched, 1 ≤ x) (spare : Option Nat) (minFactor defaultCap : Nat)
    (hcap : (Buffer.new (α := UInt8) ((ideal .std (P.map (·.map foldByte)) sk false).comap foldByte).maxLen spare minFactor
          defaultCap).min <
        (Buffer.new (α := UInt8) ((ideal .std (P.map (·.map foldByte)) sk false).comap foldByte).maxLen spare minFactor
          defaultCap).cap)
    (k : Nat) :
    ∃ ms ms' err er,
      streamFind ((buildDfa (CNfa.compile .std true P) sk bc).toAut .std P hasPre)
        { data := data, sched := sched } spare minFactor defaultCap = .ok (ms, false, 0) ∧
      streamFind ((buildDfa (CNfa.compile .std true P) sk bc).toAut .std P hasPre)
        { data := data, sched := sched, failAt := some k } spare minFactor defaultCap =
        .ok (ms', err, er) ∧
      ms' <+: ms ∧ er = 0 ∧ (err = false → ms' = ms) :=
  C18Fold_read_fault_tied P hP hne sk hsk (L1dFold_tied P hasPre bc sk) data sched hs spare minFactor
    defaultCap hcap k

/-- a writer failing after `l` bytes on the DFA built from the case-insensitive NFA: a prefix of the fault-free output (C18) -/
theorem L1dFold_write_fault (P : List (List UInt8)) (hP : P ≠ []) (hne : ∀ p ∈ P, p ≠ [])
    (hasPre bc : Bool) (sk : StartKind) (hsk : supportsAnch sk false)
    (data : List UInt8) (sched : List Nat)
    (hs : ∀ x ∈ sched, 1 ≤ x) (spare : Option Nat) (minFactor defaultCap : Nat)
    (hcap : (Buffer.new (α := UInt8) ((ideal .std (P.map (·.map foldByte)) sk false).comap foldByte).maxLen spare minFactor
          defaultCap).min <
        (Buffer.new (α := UInt8) ((ideal .std (P.map (·.map foldByte)) sk false).comap foldByte).maxLen spare minFactor
          defaultCap).cap)
    (repl : Mat → List UInt8) (l : Nat) :
    ∃ w w' log log' ok',
      streamReplaceWith ((buildDfa (CNfa.compile .std true P) sk bc).toAut .std P hasPre)
        { data := data, sched := sched } spare {} repl minFactor defaultCap =
        .ok (w, log, true, 0) ∧
      streamReplaceWith ((buildDfa (CNfa.compile .std true P) sk bc).toAut .std P hasPre)
        { data := data, sched := sched } spare { limit := some l } repl minFactor defaultCap =
        .ok (w', log', ok', 0) ∧
      w'.out <+: w.out ∧ w'.out.length ≤ l ∧ (ok' = true → w'.out = w.out) :=
  C18Fold_write_fault_tied P hP hne sk hsk (L1dFold_tied P hasPre bc sk) data sched hs spare minFactor
    defaultCap hcap repl l

/-- stream search on the id-level DFA (premultiplied ids, remapped special states) built from the case-insensitive NFA = the in-memory iterator of the case-insensitive searcher (C07) -/
theorem L1dIdsFold_stream (P : List (List UInt8)) (hP : P ≠ []) (hne : ∀ p ∈ P, p ≠ [])
    (sk : StartKind) (bc hasPre : Bool) (hsk : supportsAnch sk false)
    (data : List UInt8) (sched : List Nat)
    (hs : ∀ x ∈ sched, 1 ≤ x) (spare : Option Nat) (minFactor defaultCap : Nat)
    (hcap : (Buffer.new (α := UInt8) ((ideal .std (P.map (·.map foldByte)) sk false).comap foldByte).maxLen spare minFactor
          defaultCap).min <
        (Buffer.new (α := UInt8) ((ideal .std (P.map (·.map foldByte)) sk false).comap foldByte).maxLen spare minFactor
          defaultCap).cap) :
    ∃ ms,
      findIter ((ideal .std (P.map (·.map foldByte)) sk false).comap foldByte) none
        { hay := data, s := 0, e := data.length, anch := false, earliest := false,
          valid := ⟨Nat.le_refl _, Nat.zero_le _⟩ } = .ok ms ∧
      streamFind ((buildDfaIds (CNfa.compile .std true P) sk bc hasPre).toAut .std P hasPre)
        { data := data, sched := sched } spare minFactor defaultCap = .ok (ms, false, 0) :=
  C07Fold_stream_eq_iter_tied P hP hne sk hsk (L1dIdsFold_tied P sk bc hasPre) data sched hs spare minFactor
    defaultCap hcap

/-- stream search on the id-level DFA (premultiplied ids, remapped special states) built from the case-insensitive NFA = the specification's iterator over *the* standard answers for the folded patterns on the folded stream -/
theorem L1dIdsFold_stream_spec (P : List (List UInt8)) (hP : P ≠ []) (hne : ∀ p ∈ P, p ≠ [])
    (sk : StartKind) (bc hasPre : Bool) (hsk : supportsAnch sk false)
    (data : List UInt8) (sched : List Nat)
    (hs : ∀ x ∈ sched, 1 ≤ x) (spare : Option Nat) (minFactor defaultCap : Nat)
    (hcap : (Buffer.new (α := UInt8) ((ideal .std (P.map (·.map foldByte)) sk false).comap foldByte).maxLen spare minFactor
          defaultCap).min <
        (Buffer.new (α := UInt8) ((ideal .std (P.map (·.map foldByte)) sk false).comap foldByte).maxLen spare minFactor
          defaultCap).cap) :
    ∃ F : Nat → Option Mat,
      (∀ st, st ≤ data.length + 1 →
        IsFind .std (P.map (·.map foldByte)) (data.map foldByte) st data.length false (F st)) ∧
      streamFind ((buildDfaIds (CNfa.compile .std true P) sk bc hasPre).toAut .std P hasPre)
        { data := data, sched := sched } spare minFactor defaultCap =
        .ok (iterSpec F 0 data.length, false, 0) :=
  C07Fold_stream_spec_tied P hP hne sk hsk (L1dIdsFold_tied P sk bc hasPre) data sched hs spare minFactor
    defaultCap hcap

/-- stream replace on the id-level DFA (premultiplied ids, remapped special states) built from the case-insensitive NFA = in-memory replace on the RAW stream (C08) -/
theorem L1dIdsFold_stream_replace (P : List (List UInt8)) (hP : P ≠ []) (hne : ∀ p ∈ P, p ≠ [])
    (sk : StartKind) (bc hasPre : Bool) (hsk : supportsAnch sk false)
    (data : List UInt8) (sched : List Nat)
    (hs : ∀ x ∈ sched, 1 ≤ x) (spare : Option Nat) (minFactor defaultCap : Nat)
    (hcap : (Buffer.new (α := UInt8) ((ideal .std (P.map (·.map foldByte)) sk false).comap foldByte).maxLen spare minFactor
          defaultCap).min <
        (Buffer.new (α := UInt8) ((ideal .std (P.map (·.map foldByte)) sk false).comap foldByte).maxLen spare minFactor
          defaultCap).cap)
    (repl : Mat → List UInt8) :
    ∃ ms,
      findIter ((ideal .std (P.map (·.map foldByte)) sk false).comap foldByte) none
        { hay := data, s := 0, e := data.length, anch := false, earliest := false,
          valid := ⟨Nat.le_refl _, Nat.zero_le _⟩ } = .ok ms ∧
      streamReplaceWith ((buildDfaIds (CNfa.compile .std true P) sk bc hasPre).toAut .std P hasPre)
        { data := data, sched := sched } spare {} repl minFactor defaultCap =
        .ok ({ out := (replaceBytes data ms repl none).1 },
          (replaceBytes data ms repl none).2, true, 0) :=
  C08Fold_replace_eq_tied P hP hne sk hsk (L1dIdsFold_tied P sk bc hasPre) data sched hs spare minFactor
    defaultCap hcap repl

/-- a read failure at call `k` on the id-level DFA (premultiplied ids, remapped special states) built from the case-insensitive NFA: a prefix of the fault-free matches (C18) -/
theorem L1dIdsFold_read_fault (P : List (List UInt8)) (hP : P ≠ []) (hne : ∀ p ∈ P, p ≠ [])
    (sk : StartKind) (bc hasPre : Bool) (hsk : supportsAnch sk false)
    (data : List UInt8) (sched : List Nat)
    (hs : ∀ x ∈ sched, 1 ≤ x) (spare : Option Nat) (minFactor defaultCap : Nat)
    (hcap : (Buffer.new (α := UInt8) ((ideal .std (P.map (·.map foldByte)) sk false).comap foldByte).maxLen spare minFactor
          defaultCap).min <
        (Buffer.new (α := UInt8) ((ideal .std (P.map (·.map foldByte)) sk false).comap foldByte).maxLen spare minFactor
          defaultCap).cap)
    (k : Nat) :
    ∃ ms ms' err er,
      streamFind ((buildDfaIds (CNfa.compile .std true P) sk bc hasPre).toAut .std P hasPre)
        { data := data, sched := sched } spare minFactor defaultCap = .ok (ms, false, 0) ∧
      streamFind ((buildDfaIds (CNfa.compile .std true P) sk bc hasPre).toAut .std P hasPre)
        { data := data, sched := sched, failAt := some k } spare minFactor defaultCap =
        .ok (ms', err, er) ∧
      ms' <+: ms ∧ er = 0 ∧ (err = false → ms' = ms) :=
  C18Fold_read_fault_tied P hP hne sk hsk (L1dIdsFold_tied P sk bc hasPre) data sched hs spare minFactor
    defaultCap hcap k

/-- a writer failing after `l` bytes on the id-level DFA (premultiplied ids, remapped special states) built from the case-insensitive NFA: a prefix of the fault-free output (C18) -/
theorem L1dIdsFold_write_fault (P : List (List UInt8)) (hP : P ≠ []) (hne : ∀ p ∈ P, p ≠ [])
    (sk : StartKind) (bc hasPre : Bool) (hsk : supportsAnch sk false)
    (data : List UInt8) (sched : List Nat)
    (hs : ∀ x ∈ sched, 1 ≤ x) (spare : Option Nat) (minFactor defaultCap : Nat)
    (hcap : (Buffer.new (α := UInt8) ((ideal .std (P.map (·.map foldByte)) sk false).comap foldByte).maxLen spare minFactor
          defaultCap).min <
        (Buffer.new (α := UInt8) ((ideal .std (P.map (·.map foldByte)) sk false).comap foldByte).maxLen spare minFactor
          defaultCap).cap)
    (repl : Mat → List UInt8) (l : Nat) :
    ∃ w w' log log' ok',
      streamReplaceWith ((buildDfaIds (CNfa.compile .std true P) sk bc hasPre).toAut .std P hasPre)
        { data := data, sched := sched } spare {} repl minFactor defaultCap =
        .ok (w, log, true, 0) ∧
      streamReplaceWith ((buildDfaIds (CNfa.compile .std true P) sk bc hasPre).toAut .std P hasPre)
        { data := data, sched := sched } spare { limit := some l } repl minFactor defaultCap =
        .ok (w', log', ok', 0) ∧
      w'.out <+: w.out ∧ w'.out.length ≤ l ∧ (ok' = true → w'.out = w.out) :=
  C18Fold_write_fault_tied P hP hne sk hsk (L1dIdsFold_tied P sk bc hasPre) data sched hs spare minFactor
    defaultCap hcap repl l

/-- stream search on the contiguous NFA built from the case-insensitive NFA = the in-memory iterator of the case-insensitive searcher (C07) -/
theorem L1eFold_stream (P : List (List UInt8)) (hP : P ≠ []) (hne : ∀ p ∈ P, p ≠ [])
    (hasPre bc : Bool) (dd : Nat) (hPl : P.length < 2147483648)
    (data : List UInt8) (sched : List Nat)
    (hs : ∀ x ∈ sched, 1 ≤ x) (spare : Option Nat) (minFactor defaultCap : Nat)
    (hcap : (Buffer.new (α := UInt8) ((ideal .std (P.map (·.map foldByte)) .both false).comap foldByte).maxLen spare minFactor
          defaultCap).min <
        (Buffer.new (α := UInt8) ((ideal .std (P.map (·.map foldByte)) .both false).comap foldByte).maxLen spare minFactor
          defaultCap).cap) :
    ∃ ms,
      findIter ((ideal .std (P.map (·.map foldByte)) .both false).comap foldByte) none
        { hay := data, s := 0, e := data.length, anch := false, earliest := false,
          valid := ⟨Nat.le_refl _, Nat.zero_le _⟩ } = .ok ms ∧
      streamFind ((buildContig (CNfa.compile .std true P) dd bc hasPre).toAut .std P hasPre)
        { data := data, sched := sched } spare minFactor defaultCap = .ok (ms, false, 0) :=
  C07Fold_stream_eq_iter_tied P hP hne .both (Or.inl rfl) (L1eFold_tied P hasPre bc dd hPl) data sched hs spare minFactor
    defaultCap hcap

/-- stream search on the contiguous NFA built from the case-insensitive NFA = the specification's iterator over *the* standard answers for the folded patterns on the folded stream -/
theorem L1eFold_stream_spec (P : List (List UInt8)) (hP : P ≠ []) (hne : ∀ p ∈ P, p ≠ [])
    (hasPre bc : Bool) (dd : Nat) (hPl : P.length < 2147483648)
    (data : List UInt8) (sched : List Nat)
    (hs : ∀ x ∈ sched, 1 ≤ x) (spare : Option Nat) (minFactor defaultCap : Nat)
    (hcap : (Buffer.new (α := UInt8) ((ideal .std (P.map (·.map foldByte)) .both false).comap foldByte).maxLen spare minFactor
          defaultCap).min <
        (Buffer.new (α := UInt8) ((ideal .std (P.map (·.map foldByte)) .both false).comap foldByte).maxLen spare minFactor
          defaultCap).cap) :
    ∃ F : Nat → Option Mat,
      (∀ st, st ≤ data.length + 1 →
        IsFind .std (P.map (·.map foldByte)) (data.map foldByte) st data.length false (F st)) ∧
      streamFind ((buildContig (CNfa.compile .std true P) dd bc hasPre).toAut .std P hasPre)
        { data := data, sched := sched } spare minFactor defaultCap =
        .ok (iterSpec F 0 data.length, false, 0) :=
  C07Fold_stream_spec_tied P hP hne .both (Or.inl rfl) (L1eFold_tied P hasPre bc dd hPl) data sched hs spare minFactor
    defaultCap hcap

/-- stream replace on the contiguous NFA built from the case-insensitive NFA = in-memory replace on the RAW stream (C08) -/
theorem L1eFold_stream_replace (P : List (List UInt8)) (hP : P ≠ []) (hne : ∀ p ∈ P, p ≠ [])
    (hasPre bc : Bool) (dd : Nat) (hPl : P.length < 2147483648)
    (data : List UInt8) (sched : List Nat)
    (hs : ∀ x ∈ sched, 1 ≤ x) (spare : Option Nat) (minFactor defaultCap : Nat)
    (hcap : (Buffer.new (α := UInt8) ((ideal .std (P.map (·.map foldByte)) .both false).comap foldByte).maxLen spare minFactor
          defaultCap).min <
        (Buffer.new (α := UInt8) ((ideal .std (P.map (·.map foldByte)) .both false).comap foldByte).maxLen spare minFactor
          defaultCap).cap)
    (repl : Mat → List UInt8) :
    ∃ ms,
      findIter ((ideal .std (P.map (·.map foldByte)) .both false).comap foldByte) none
        { hay := data, s := 0, e := data.length, anch := false, earliest := false,
          valid := ⟨Nat.le_refl _, Nat.zero_le _⟩ } = .ok ms ∧
      streamReplaceWith ((buildContig (CNfa.compile .std true P) dd bc hasPre).toAut .std P hasPre)
        { data := data, sched := sched } spare {} repl minFactor defaultCap =
        .ok ({ out := (replaceBytes data ms repl none).1 },
          (replaceBytes data ms repl none).2, true, 0) :=
  C08Fold_replace_eq_tied P hP hne .both (Or.inl rfl) (L1eFold_tied P hasPre bc dd hPl) data sched hs spare minFactor
    defaultCap hcap repl

/-- a read failure at call `k` on the contiguous NFA built from the case-insensitive NFA: a prefix of the fault-free matches (C18) -/
theorem L1eFold_read_fault (P : List (List UInt8)) (hP : P ≠ []) (hne : ∀ p ∈ P, p ≠ [])
    (hasPre bc : Bool) (dd : Nat) (hPl : P.length < 2147483648)
    (data : List UInt8) (sched : List Nat)
    (hs : ∀ x ∈ sched, 1 ≤ x) (spare : Option Nat) (minFactor defaultCap : Nat)
    (hcap : (Buffer.new (α := UInt8) ((ideal .std (P.map (·.map foldByte)) .both false).comap foldByte).maxLen spare minFactor
          defaultCap).min <
        (Buffer.new (α := UInt8) ((ideal .std (P.map (·.map foldByte)) .both false).comap foldByte).maxLen spare minFactor
          defaultCap).cap)
    (k : Nat) :
    ∃ ms ms' err er,
      streamFind ((buildContig (CNfa.compile .std true P) dd bc hasPre).toAut .std P hasPre)
        { data := data, sched := sched } spare minFactor defaultCap = .ok (ms, false, 0) ∧
      streamFind ((buildContig (CNfa.compile .std true P) dd bc hasPre).toAut .std P hasPre)
        { data := data, sched := sched, failAt := some k } spare minFactor defaultCap =
        .ok (ms', err, er) ∧
      ms' <+: ms ∧ er = 0 ∧ (err = false → ms' = ms) :=
  C18Fold_read_fault_tied P hP hne .both (Or.inl rfl) (L1eFold_tied P hasPre bc dd hPl) data sched hs spare minFactor
    defaultCap hcap k

/-- a writer failing after `l` bytes on the contiguous NFA built from the case-insensitive NFA: a prefix of the fault-free output (C18) -/
theorem L1eFold_write_fault (P : List (List UInt8)) (hP : P ≠ []) (hne : ∀ p ∈ P, p ≠ [])
    (hasPre bc : Bool) (dd : Nat) (hPl : P.length < 2147483648)
    (data : List UInt8) (sched : List Nat)
    (hs : ∀ x ∈ sched, 1 ≤ x) (spare : Option Nat) (minFactor defaultCap : Nat)
    (hcap : (Buffer.new (α := UInt8) ((ideal .std (P.map (·.map foldByte)) .both false).comap foldByte).maxLen spare minFactor
          defaultCap).min <
        (Buffer.new (α := UInt8) ((ideal .std (P.map (·.map foldByte)) .both false).comap foldByte).maxLen spare minFactor
          defaultCap).cap)
    (repl : Mat → List UInt8) (l : Nat) :
    ∃ w w' log log' ok',
      streamReplaceWith ((buildContig (CNfa.compile .std true P) dd bc hasPre).toAut .std P hasPre)
        { data := data, sched := sched } spare {} repl minFactor defaultCap =
        .ok (w, log, true, 0) ∧
      streamReplaceWith ((buildContig (CNfa.compile .std true P) dd bc hasPre).toAut .std P hasPre)
        { data := data, sched := sched } spare { limit := some l } repl minFactor defaultCap =
        .ok (w', log', ok', 0) ∧
      w'.out <+: w.out ∧ w'.out.length ≤ l ∧ (ok' = true → w'.out = w.out) :=
  C18Fold_write_fault_tied P hP hne .both (Or.inl rfl) (L1eFold_tied P hasPre bc dd hPl) data sched hs spare minFactor
    defaultCap hcap repl l

/-! ## non-vacuity: pattern `"aB"`, stream `"xAbaB"` read 2, 1, 3 bytes at a time into a 3-byte
buffer (`min = 2`, capacity `min + 1`): the first occurrence `"Ab"` is split across two reads -/

/-- the hypotheses of the general theorem are satisfiable -/
example : ∃ ms,
    findIter ((ideal .std ([[0x61, 0x42]].map (·.map foldByte)) .both false).comap foldByte) none
      { hay := [0x78, 0x41, 0x62, 0x61, 0x42], s := 0, e := 5, anch := false, earliest := false,
        valid := ⟨Nat.le_refl _, Nat.zero_le _⟩ } = .ok ms ∧
    streamFind ((ideal .std ([[0x61, 0x42]].map (·.map foldByte)) .both false).comap foldByte)
      { data := [0x78, 0x41, 0x62, 0x61, 0x42], sched := [2, 1, 3] } (some 1) =
      .ok (ms, false, 0) :=
  C07Fold_stream_eq_iter_default [[0x61, 0x42]] (by decide) (by decide) .both (Or.inl rfl)
    [0x78, 0x41, 0x62, 0x61, 0x42] [2, 1, 3] (by decide) (some 1)

/-- … with non-default constants (factor 2, default capacity 0: a 4-byte buffer for `min = 2`) -/
example (repl : Mat → List UInt8) : ∃ ms,
    findIter ((ideal .std ([[0x61, 0x42]].map (·.map foldByte)) .both false).comap foldByte) none
      { hay := [0x78, 0x41, 0x62, 0x61, 0x42], s := 0, e := 5, anch := false, earliest := false,
        valid := ⟨Nat.le_refl _, Nat.zero_le _⟩ } = .ok ms ∧
    streamReplaceWith
      ((ideal .std ([[0x61, 0x42]].map (·.map foldByte)) .both false).comap foldByte)
      { data := [0x78, 0x41, 0x62, 0x61, 0x42], sched := [2, 1, 3] } none {} repl 2 0 =
      .ok ({ out := (replaceBytes [0x78, 0x41, 0x62, 0x61, 0x42] ms repl none).1 },
        (replaceBytes [0x78, 0x41, 0x62, 0x61, 0x42] ms repl none).2, true, 0) :=
  C08Fold_replace_eq [[0x61, 0x42]] (by decide) (by decide) .both (Or.inl rfl)
    [0x78, 0x41, 0x62, 0x61, 0x42] [2, 1, 3] (by decide) none 2 0 (by decide) repl

/-- evaluated: both occurrences (`"Ab"` and `"aB"`) are found -/
example : (streamFind
      ((ideal .std ([[0x61, 0x42]].map (·.map foldByte)) .both false).comap foldByte)
      { data := [0x78, 0x41, 0x62, 0x61, 0x42], sched := [2, 1, 3] } (some 1)).toOption =
    some ([⟨0, 1, 3⟩, ⟨0, 3, 5⟩], false, 0) := by decide +kernel

/-- the chunks carry the RAW bytes (`"Ab"` = `[0x41, 0x62]`, not the folded `"ab"`) -/
example : (ChunkIter.new
      ((ideal .std ([[0x61, 0x42]].map (·.map foldByte)) .both false).comap foldByte)
      { data := [0x78, 0x41, 0x62, 0x61, 0x42], sched := [2, 1, 3] } (some 1)).toOption.map
      (fun it => ChunkIter.drain
        ((ideal .std ([[0x61, 0x42]].map (·.map foldByte)) .both false).comap foldByte) 14 it) =
    some ([.nonMatch [0x78], .mtch [0x41, 0x62] ⟨0, 1, 3⟩, .mtch [0x61, 0x42] ⟨0, 3, 5⟩],
      false, 0) := by rfl

/-- replacing each match by `"-"`: the raw bytes outside the matches are copied, the closure sees
the raw matched bytes -/
example : (streamReplaceWith
      ((ideal .std ([[0x61, 0x42]].map (·.map foldByte)) .both false).comap foldByte)
      { data := [0x78, 0x41, 0x62, 0x61, 0x42], sched := [2, 1, 3] } (some 1) {}
      (fun _ => [0x2D])).toOption.map (fun r => (r.1.out, r.2.1)) =
    some ([0x78, 0x2D, 0x2D], [(⟨0, 1, 3⟩, [0x41, 0x62]), (⟨0, 3, 5⟩, [0x61, 0x42])]) := by
  decide +kernel

/-- the transcribed case-insensitive DFA and contiguous NFA (prefilter flag set) -/
example : ∃ ms,
    findIter ((ideal .std ([[0x61, 0x42]].map (·.map foldByte)) .both false).comap foldByte) none
      { hay := [0x78, 0x41, 0x62, 0x61, 0x42], s := 0, e := 5, anch := false, earliest := false,
        valid := ⟨Nat.le_refl _, Nat.zero_le _⟩ } = .ok ms ∧
    streamFind ((buildDfa (CNfa.compile .std true [[0x61, 0x42]]) .both true).toAut .std
        [[0x61, 0x42]] true)
      { data := [0x78, 0x41, 0x62, 0x61, 0x42], sched := [2, 1, 3] } (some 1) 8 65536 =
      .ok (ms, false, 0) :=
  L1dFold_stream [[0x61, 0x42]] (by decide) (by decide) true true .both (Or.inl rfl)
    [0x78, 0x41, 0x62, 0x61, 0x42] [2, 1, 3] (by decide) (some 1) 8 65536 (hcap_default _ _)

example : ∃ ms,
    findIter ((ideal .std ([[0x61, 0x42]].map (·.map foldByte)) .both false).comap foldByte) none
      { hay := [0x78, 0x41, 0x62, 0x61, 0x42], s := 0, e := 5, anch := false, earliest := false,
        valid := ⟨Nat.le_refl _, Nat.zero_le _⟩ } = .ok ms ∧
    streamFind ((buildContig (CNfa.compile .std true [[0x61, 0x42]]) 0 true true).toAut .std
        [[0x61, 0x42]] true)
      { data := [0x78, 0x41, 0x62, 0x61, 0x42], sched := [2, 1, 3] } (some 1) 8 65536 =
      .ok (ms, false, 0) :=
  L1eFold_stream [[0x61, 0x42]] (by decide) (by decide) true true 0 (by decide)
    [0x78, 0x41, 0x62, 0x61, 0x42] [2, 1, 3] (by decide) (some 1) 8 65536 (hcap_default _ _)

set_option maxRecDepth 1000000 in
/-- … and evaluated -/
example : (streamFind ((buildDfa (CNfa.compile .std true [[0x61, 0x42]]) .both true).toAut .std
        [[0x61, 0x42]] true)
      { data := [0x78, 0x41, 0x62, 0x61, 0x42], sched := [2, 1, 3] } (some 1)).toOption =
    some ([⟨0, 1, 3⟩, ⟨0, 3, 5⟩], false, 0) := by decide +kernel

set_option maxRecDepth 1000000 in
example : (streamFind ((buildContig (CNfa.compile .std true [[0x61, 0x42]]) 0 true true).toAut
        .std [[0x61, 0x42]] true)
      { data := [0x78, 0x41, 0x62, 0x61, 0x42], sched := [2, 1, 3] } (some 1)).toOption =
    some ([⟨0, 1, 3⟩, ⟨0, 3, 5⟩], false, 0) := by decide +kernel

end AcVerif
