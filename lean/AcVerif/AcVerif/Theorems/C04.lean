import AcVerif.Cert
import AcVerif.Table
/-!
# C04 – automaton kind and representation options never change any result

Per pattern list and configuration pair, a passing certificate
`certOk A B … = true` (A, B dumped real automata, or A the ideal automaton)
implies equal observations after **every** byte string.
-/
namespace AcVerif

/-- A passing certificate over the full byte alphabet gives equal observations
(flags and match lists) of the two automata after every input, for the
anchoring mode it was run for. -/
theorem C04_cert_all_haystacks {σ : Type} [DecidableEq σ]
    (A : Aut σ UInt8) (B : Aut Nat UInt8) (n : Nat) (anch first : Bool)
    (f : Array (Option σ)) (a0 : σ) (b0 : Nat)
    (ha : A.start anch = some a0) (hb : B.start anch = some b0)
    (h : certOk A B n anch first f allBytes = true) (w : List UInt8) :
    A.obs first (A.runFrom anch a0 w) = B.obs first (B.runFrom anch b0 w) :=
  certOk_sound ha hb h mem_allBytes w

/-- … and both automata accept or reject the anchoring mode alike. -/
theorem C04_cert_start {σ : Type} [DecidableEq σ]
    (A : Aut σ UInt8) (B : Aut Nat UInt8) (n : Nat) (anch first : Bool)
    (f : Array (Option σ)) (h : certOk A B n anch first f allBytes = true) :
    (A.start anch).isSome = (B.start anch).isSome :=
  certOk_start h

end AcVerif
