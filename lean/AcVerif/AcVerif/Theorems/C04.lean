import AcVerif.Cert
import AcVerif.Table
import AcVerif.Proofs.Transfer
/-!
# C04 – automaton kind and representation options never change any result

Per pattern list and configuration pair, a passing certificate
`certOk A B … = true` (A, B dumped real automata, or A the ideal automaton)
implies equal observations after **every** byte string.
-/
namespace AcVerif

/-- A passing certificate over the full byte alphabet gives equal observations
(flags and match lists) of the two automata after every input, for the
anchoring mode it was run for. -/
theorem C04_cert_all_haystacks {σ : Type} [DecidableEq σ]
    (A : Aut σ UInt8) (B : Aut Nat UInt8) (n : Nat) (anch first : Bool)
    (f : Array (Option σ)) (a0 : σ) (b0 : Nat)
    (ha : A.start anch = some a0) (hb : B.start anch = some b0)
    (h : certOk A B n anch first f allBytes = true) (w : List UInt8) :
    A.obs first (A.runFrom anch a0 w) = B.obs first (B.runFrom anch b0 w) :=
  certOk_sound ha hb h mem_allBytes w

/-- … and both automata accept or reject the anchoring mode alike. -/
theorem C04_cert_start {σ : Type} [DecidableEq σ]
    (A : Aut σ UInt8) (B : Aut Nat UInt8) (n : Nat) (anch first : Bool)
    (f : Array (Option σ)) (h : certOk A B n anch first f allBytes = true) :
    (A.start anch).isSome = (B.start anch).isSome :=
  certOk_start h

end AcVerif

/-! ## Engine level: observationally equivalent automata give identical search
results, for every prefilter function and every input -/

namespace AcVerif
variable {σ τ α : Type}

/-- whole-list equivalence implies first-pattern equivalence -/
theorem C04_ObsEquiv_false_true (A : Aut σ α) (B : Aut τ α) (anch : Bool) (a : σ) (b : τ)
    (h : ObsEquiv A B false anch a b) : ObsEquiv A B true anch a b := h.toFirst

theorem C04_StartEquiv_false_true (A : Aut σ α) (B : Aut τ α) (anch : Bool)
    (h : StartEquiv A B false anch) : StartEquiv A B true anch := EngP.StartEquiv_toFirst h

/-- non-overlapping search (any prefilter function `pre`, any input): only the
first listed pattern matters -/
theorem C04_find_transfer (A : Aut σ α) (B : Aut τ α) (pre : Option (Prefilter α)) (i : Input α)
    (hk : A.kind = B.kind) (hl : ∀ pid, A.patLen pid = B.patLen pid)
    (h : StartEquiv A B true i.anch) :
    tryFindFwd A pre i = tryFindFwd B pre i :=
  EngP.tryFindFwd_transfer A B pre i true hk hl h

/-- stepwise overlapping search: whole match lists matter (`first = false`) -/
theorem C04_overlap_transfer (A : Aut σ α) (B : Aut τ α) (pre : Option (Prefilter α)) (i : Input α)
    (hk : A.kind = B.kind) (hl : ∀ pid, A.patLen pid = B.patLen pid)
    (h : StartEquiv A B false i.anch) (n : Nat) :
    ovlCalls A pre i n OState.start = ovlCalls B pre i n OState.start :=
  EngP.ovlCalls_transfer A B pre i hk hl h n _ _ (EngP.ORel.start A B i.anch)

theorem C04_overlap_iter_transfer (A : Aut σ α) (B : Aut τ α) (pre : Option (Prefilter α))
    (i : Input α) (hk : A.kind = B.kind) (hl : ∀ pid, A.patLen pid = B.patLen pid)
    (h : StartEquiv A B false i.anch) (fuel : Nat) :
    ovlIterAux A pre i fuel OState.start = ovlIterAux B pre i fuel OState.start :=
  EngP.ovlIterAux_transfer A B pre i hk hl h fuel _ _ (EngP.ORel.start A B i.anch)

/-- the non-overlapping iterator -/
theorem C04_iter_transfer (A : Aut σ α) (B : Aut τ α) (pre : Option (Prefilter α)) (i : Input α)
    (hk : A.kind = B.kind) (hl : ∀ pid, A.patLen pid = B.patLen pid)
    (h : StartEquiv A B true i.anch) :
    findIter A pre i = findIter B pre i :=
  EngP.findIter_transfer A B pre i hk hl h

/-- a passing certificate over the full byte alphabet gives `StartEquiv` -/
theorem C04_cert_gives_StartEquiv {σ : Type} [DecidableEq σ] (A : Aut σ UInt8) (B : Aut Nat UInt8)
    (n : Nat) (anch first : Bool) (f : Array (Option σ))
    (h : certOk A B n anch first f allBytes = true) : StartEquiv A B first anch :=
  EngP.cert_gives_StartEquiv A B n anch first f h

end AcVerif
