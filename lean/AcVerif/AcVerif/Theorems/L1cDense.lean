import AcVerif.Proofs.DenseRows
import AcVerif.Theorems.L1e
/-!
# L1c (dense rows) – `follow_transition` through the dense rows of the noncontiguous NFA

After `densify`, a state of the noncontiguous NFA whose stored depth is below `dense_depth` owns a
row indexed by byte *class* (`denseRows`), and `follow_transition` (`followD`) reads the row when
there is one and scans the sparse list otherwise.  For the compiled NFA
`N = CNfa.compile k false P`, **every** pattern list, match kind, dense depth, and **every** state
id (not only the reachable ones):

* `L1cDense_follow`: `followD N (denseRows N dd) sid b = CNfa.follow N sid b`;
* `L1cDense_nextState`: `next_state` through `follow_transition` returns the same state with the
  same number of failure links followed, for every fuel and hop counter;
* `L1cDense_toAut`, `L1cDense_run`: the automaton record that reads through the rows *is* the
  record `N.toAut` (so it reaches the same state ids on every input from every state);
* hence `L1cDense_obsEquiv`, `L1cDense_hops`, `L1cDense_find`, … : all of L1c holds for it.

No liveness hypothesis is needed: the node list of the compiled trie has no duplicates, so every
id `< N.size` except `FAIL` names the dead state, a start state or a trie node (`lv_of_lt_size`),
and `DEAD`, `FAIL` and ids out of range have no row.  The statement at a live state
(`L1cDense_follow_live`, for any `N` meeting `FS` and `FX`) is kept as well.

Proof (`AcVerif/Proofs/DenseRows.lean`, namespace `AcVerif.DenseP`): `denseRows_getD` (a row is
`foldSet` over the sparse list from all-`FAIL`), `denseRow_spec` (sorted list: every entry is what
`follow` finds for its byte; `follow_cong_VU/VA`: all writes to the class of `b` write
`follow N s b`; no write ⇒ no entry for `b` ⇒ `FAIL`), `compile_specXN`, `followD_eq`,
`nextStateD_eq`.
-/
namespace AcVerif
open AcVerif.L1cP AcVerif.L1dP AcVerif.L1eP AcVerif.DenseP AcVerif.CNfa

/-- the noncontiguous NFA as an automaton record whose `next_state` reads transitions through
`follow_transition` on the given dense rows (everything else as in `CNfa.toAut`) -/
def CNfa.toAutD (n : CNfa) (rows : Array (Option (Array Nat))) (k : MatchKind)
    (P : List (List UInt8)) (hasPre : Bool) : Aut Nat UInt8 :=
  { n.toAut k P hasPre with
    next := fun anch sid b => (nextStateD n rows anch (n.size + 1) sid b 0).1 }

/-- reading a transition through the dense row gives the same answer as scanning the sparse list,
at every state id -/
theorem L1cDense_follow (k : MatchKind) (P : List (List UInt8)) (dd : Nat) (sid : Nat) (b : UInt8) :
    followD (CNfa.compile k false P) (denseRows (CNfa.compile k false P) dd) sid b =
      CNfa.follow (CNfa.compile k false P) sid b := by
  obtain ⟨L, hFS, hX, hnd⟩ := compile_specXN k P
  exact followD_eq hFS hX hnd dd sid b

/-- the same at a live state of any NFA meeting the specification `FS` and the list facts `FX` -/
theorem L1cDense_follow_live {k : MatchKind} {Q : PatSet UInt8} {L : List (List UInt8)} {N : CNfa}
    (hFS : FS k Q L N) (hX : FX L N) (dd : Nat) {sid : Nat} (hlive : VU L sid ∨ VA L sid)
    (b : UInt8) : followD N (denseRows N dd) sid b = CNfa.follow N sid b :=
  followD_eq_live hFS hX dd hlive b

/-- which states have a row: the ids `< N.size` other than `DEAD` / `FAIL` whose stored depth is
below `dense_depth`; the row has one entry per byte class -/
theorem L1cDense_rows (N : CNfa) (dd sid : Nat) :
    ((denseRows N dd).getD sid none).isSome ↔
      (sid < N.size ∧ sid ≠ CNfa.DEAD ∧ sid ≠ CNfa.FAIL ∧ (storedDepths N).getD sid 0 < dd) := by
  rw [denseRows_getD]
  by_cases hc : sid < N.size ∧ sid ≠ DEAD ∧ sid ≠ FAIL ∧ (storedDepths N).getD sid 0 < dd
  · rw [if_pos hc]; exact ⟨fun _ => hc, fun _ => rfl⟩
  · rw [if_neg hc]; exact ⟨fun h => (by cases h), fun h => absurd h hc⟩

/-- hence `next_state` through `follow_transition` is `next_state`, with the same hop count -/
theorem L1cDense_nextState (k : MatchKind) (P : List (List UInt8)) (dd : Nat) (anch : Bool)
    (fuel sid : Nat) (b : UInt8) (h : Nat) :
    nextStateD (CNfa.compile k false P) (denseRows (CNfa.compile k false P) dd) anch fuel sid b h =
      CNfa.nextState (CNfa.compile k false P) anch fuel sid b h :=
  nextStateD_eq (L1cDense_follow k P dd) anch fuel sid b h

/-- the record that reads through the dense rows is the record that scans the sparse lists -/
theorem L1cDense_toAut (k : MatchKind) (P : List (List UInt8)) (dd : Nat) (hasPre : Bool) :
    (CNfa.compile k false P).toAutD (denseRows (CNfa.compile k false P) dd) k P hasPre =
      (CNfa.compile k false P).toAut k P hasPre := by
  have : (fun (anch : Bool) (sid : Nat) (b : UInt8) =>
      (nextStateD (CNfa.compile k false P) (denseRows (CNfa.compile k false P) dd) anch
        ((CNfa.compile k false P).size + 1) sid b 0).1) =
      fun anch sid b =>
        (CNfa.nextState (CNfa.compile k false P) anch ((CNfa.compile k false P).size + 1) sid b 0).1 := by
    funext anch sid b
    rw [L1cDense_nextState]
  unfold CNfa.toAutD
  rw [this]
  rfl

/-- the state ids reached are equal, from every state and on every input -/
theorem L1cDense_run (k : MatchKind) (P : List (List UInt8)) (dd : Nat) (hasPre anch : Bool)
    (sid : Nat) (w : List UInt8) :
    ((CNfa.compile k false P).toAutD (denseRows (CNfa.compile k false P) dd) k P hasPre).runFrom
        anch sid w =
      ((CNfa.compile k false P).toAut k P hasPre).runFrom anch sid w := by
  rw [L1cDense_toAut]

/-- … so the dense-row automaton is observationally equivalent to the ideal automaton -/
theorem L1cDense_obsEquiv (k : MatchKind) (P : List (List UInt8)) (dd : Nat) (hasPre anch : Bool) :
    ObsEquiv ((CNfa.compile k false P).toAutD (denseRows (CNfa.compile k false P) dd) k P hasPre)
      (ideal k P .both hasPre) false anch (if anch then CNfa.SA else CNfa.SU) (.at []) := by
  rw [L1cDense_toAut]
  exact L1c_obsEquiv k P hasPre anch

theorem L1cDense_startEquiv (k : MatchKind) (P : List (List UInt8)) (dd : Nat) (hasPre anch : Bool) :
    StartEquiv ((CNfa.compile k false P).toAutD (denseRows (CNfa.compile k false P) dd) k P hasPre)
      (ideal k P .both hasPre) false anch := by
  rw [L1cDense_toAut]
  exact L1c_startEquiv k P hasPre anch

/-- it follows exactly `Ideal.hops` failure links at every reachable state -/
theorem L1cDense_hops (k : MatchKind) (P : List (List UInt8)) (dd : Nat) (hasPre : Bool)
    (w : List UInt8) (c : UInt8) :
    (nextStateD (CNfa.compile k false P) (denseRows (CNfa.compile k false P) dd) false
        ((CNfa.compile k false P).size + 1)
        (((CNfa.compile k false P).toAutD (denseRows (CNfa.compile k false P) dd) k P hasPre).runFrom
          false CNfa.SU w) c 0).2 =
      Ideal.hops k (patSet k P) false ((ideal k P .both hasPre).runFrom false (.at []) w) c := by
  rw [L1cDense_nextState, L1cDense_run]
  exact L1c_hops k P hasPre w c

/-- every search result transfers -/
theorem L1cDense_find (k : MatchKind) (P : List (List UInt8)) (dd : Nat) (hasPre : Bool)
    (pre : Option (Prefilter UInt8)) (i : Input UInt8) :
    tryFindFwd ((CNfa.compile k false P).toAutD (denseRows (CNfa.compile k false P) dd) k P hasPre)
        pre i =
      tryFindFwd (ideal k P .both hasPre) pre i := by
  rw [L1cDense_toAut]
  exact L1c_find k P hasPre pre i

theorem L1cDense_iter (k : MatchKind) (P : List (List UInt8)) (dd : Nat) (hasPre : Bool)
    (pre : Option (Prefilter UInt8)) (i : Input UInt8) :
    findIter ((CNfa.compile k false P).toAutD (denseRows (CNfa.compile k false P) dd) k P hasPre)
        pre i =
      findIter (ideal k P .both hasPre) pre i := by
  rw [L1cDense_toAut]
  exact L1c_iter k P hasPre pre i

theorem L1cDense_overlap (k : MatchKind) (P : List (List UInt8)) (dd : Nat) (hasPre : Bool)
    (pre : Option (Prefilter UInt8)) (i : Input UInt8) (n : Nat) :
    ovlCalls ((CNfa.compile k false P).toAutD (denseRows (CNfa.compile k false P) dd) k P hasPre)
        pre i n OState.start =
      ovlCalls (ideal k P .both hasPre) pre i n OState.start := by
  rw [L1cDense_toAut]
  exact L1c_overlap k P hasPre pre i n

/-! ## non-vacuity: `[1, 2]`, `[2]` (states 4 = `1`, 5 = `12`, 6 = `2`; classes `0,1,2,rest`)

With dense depth 1 the start states and the depth-0 nodes `1`, `2` get rows, `12` stays sparse;
`FAIL` (= 1) fills the classes without an edge. -/

set_option maxRecDepth 1000000

example : (denseRows (CNfa.compile .std false [[1, 2], [2]]) 1).toList =
    [none, none, some #[2, 4, 6, 2], some #[1, 4, 6, 1], some #[1, 1, 5, 1], none,
      some #[1, 1, 1, 1]] := by decide +kernel

/-- byte 7 is in class 3; at the node `1` the row says `FAIL`, and `next_state` follows one
failure link to the start state -/
example :
    followD (CNfa.compile .std false [[1, 2], [2]])
        (denseRows (CNfa.compile .std false [[1, 2], [2]]) 1) 4 7 = CNfa.FAIL ∧
      nextStateD (CNfa.compile .std false [[1, 2], [2]])
        (denseRows (CNfa.compile .std false [[1, 2], [2]]) 1) false 8 4 7 0 = (2, 1) := by
  decide +kernel

end AcVerif
