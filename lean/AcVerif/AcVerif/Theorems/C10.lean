import AcVerif.Proofs.SpanSpec
import AcVerif.Engine.Find
/-!
# C10 – searching a span is searching the sub-slice

Specification level: the occurrences / answers for the span `[s, e]` of `hay`
are exactly those of the whole sub-slice `hay[s..e)`, translated by `s`; bytes
outside the span are irrelevant.

The hypotheses `_he : e ≤ hay.length` are kept for fidelity with the property
text (a valid span) but are not used: `IsOcc` only ever reads `hay[s..e)`, and
`take e` of a shorter haystack is the haystack.  `hse : s ≤ e` *is* needed for
the slice theorems (with `s = e + 1` the slice is empty and has the empty
occurrence at 0, the span has none – that case is `C10_done`).
-/
namespace AcVerif
variable {σ α : Type}

/-- occurrences in the span [s,e] of hay = occurrences in the whole sub-slice hay[s..e), shifted by s -/
theorem C10_occ_slice (P : List (List α)) (hay : List α) (s e : Nat) (hse : s ≤ e)
    (_he : e ≤ hay.length) (m : Mat) :
    IsOcc P ((hay.take e).drop s) 0 (e - s) m ↔ IsOcc P hay s e (m.shift s) :=
  EngP.occ_slice P hay s e hse m

/-- … and every occurrence in the span is such a shift -/
theorem C10_occ_slice_surj (P : List (List α)) (hay : List α) (s e : Nat) (_hse : s ≤ e)
    (_he : e ≤ hay.length) (m : Mat) (h : IsOcc P hay s e m) : ∃ m' : Mat, m = m'.shift s :=
  EngP.occ_slice_surj P hay s e m h

/-- bytes outside the span are irrelevant (the two haystacks may even have different lengths) -/
theorem C10_occ_frame (P : List (List α)) (hay hay' : List α) (s e : Nat)
    (_he : e ≤ hay.length) (_he' : e ≤ hay'.length)
    (hsame : (hay.take e).drop s = (hay'.take e).drop s) (m : Mat) :
    IsOcc P hay s e m ↔ IsOcc P hay' s e m :=
  EngP.occ_frame P hay hay' s e hsame m

/-- every occurrence lies inside the span -/
theorem C10_occ_inside (P : List (List α)) (hay : List α) (s e : Nat) (m : Mat)
    (h : IsOcc P hay s e m) : s ≤ m.start ∧ m.start ≤ m.stop ∧ m.stop ≤ e :=
  EngP.occ_inside P hay s e m h

/-- an input whose start is one past its end has no occurrence … -/
theorem C10_done_spec (P : List (List α)) (hay : List α) (s e : Nat) (h : s = e + 1) (m : Mat) :
    ¬ IsOcc P hay s e m := by
  intro hm
  have := EngP.occ_inside P hay s e m hm
  omega

/-- … and the search answers none for every automaton that supports the requested anchoring mode -/
theorem C10_done (A : Aut σ α) (pre : Option (Prefilter α)) (i : Input α) (h : i.s = i.e + 1)
    (hst : (A.start i.anch).isSome) :
    tryFindFwd A pre i = .ok none := by
  have hd : i.isDone = true := by simp [Input.isDone, h]
  obtain ⟨sid, hs⟩ := Option.isSome_iff_exists.mp hst
  simp [tryFindFwd, hd, hs]

/-- … while an automaton that does not support the requested anchoring mode rejects the
input, exactly as it does for a non-empty span (rejection does not depend on the span) -/
theorem C10_done_rejected (A : Aut σ α) (pre : Option (Prefilter α)) (i : Input α)
    (h : i.s = i.e + 1) (hst : A.start i.anch = none) :
    tryFindFwd A pre i =
      .error (if i.anch then .invalidInputAnchored else .invalidInputUnanchored) := by
  have hd : i.isDone = true := by simp [Input.isDone, h]
  simp [tryFindFwd, hd, hst]

/-- lifted to the three `IsFind` answers -/
theorem C10_find_slice (k : MatchKind) (P : List (List α)) (hay : List α) (s e : Nat)
    (hse : s ≤ e) (_he : e ≤ hay.length) (anch : Bool) (r : Option Mat) :
    IsFind k P ((hay.take e).drop s) 0 (e - s) anch r ↔
      IsFind k P hay s e anch (r.map (·.shift s)) :=
  EngP.find_slice k P hay s e hse anch r

theorem C10_find_frame (k : MatchKind) (P : List (List α)) (hay hay' : List α) (s e : Nat)
    (_he : e ≤ hay.length) (_he' : e ≤ hay'.length)
    (hsame : (hay.take e).drop s = (hay'.take e).drop s) (anch : Bool) (r : Option Mat) :
    IsFind k P hay s e anch r ↔ IsFind k P hay' s e anch r :=
  EngP.find_frame k P hay hay' s e hsame anch r

/-- … and to `IsOverlapList` -/
theorem C10_overlap_slice (P : List (List α)) (hay : List α) (s e : Nat) (hse : s ≤ e)
    (_he : e ≤ hay.length) (anch : Bool) (l : List Mat) :
    IsOverlapList P ((hay.take e).drop s) 0 (e - s) anch l ↔
      IsOverlapList P hay s e anch (l.map (·.shift s)) :=
  EngP.overlap_slice P hay s e hse anch l

theorem C10_overlap_frame (P : List (List α)) (hay hay' : List α) (s e : Nat)
    (_he : e ≤ hay.length) (_he' : e ≤ hay'.length)
    (hsame : (hay.take e).drop s = (hay'.take e).drop s) (anch : Bool) (l : List Mat) :
    IsOverlapList P hay s e anch l ↔ IsOverlapList P hay' s e anch l :=
  EngP.overlap_frame P hay hay' s e hsame anch l

end AcVerif

