import AcVerif.Proofs.BuildCheckedTop
import AcVerif.Proofs.BuildCheckedWf
import AcVerif.Proofs.ContigShuffle
/-!
# C20, first half – "every pattern collection builds" – with the error paths of the builders

`AcVerif/BuildChecked.lean` adds to the transcribed builders the range checks of the real code
(`StateID::new`, `PatternID::new`, `SmallIndex::new`), parameterised by `Limits` (defaults: the
crate's constants on 32/64-bit targets), and transcribes the fallback chain of
`AhoCorasickBuilder::build` / `build_auto`.

* `C20_build_nnc_ok_iff`: the checked noncontiguous build succeeds **iff** the pattern count, the
  pattern lengths and the final lengths of `states`, `sparse`, `matches` (and the last `dense`
  allocation) are within the limits, and then it returns exactly `CNfa.compile`.
* `C20_build_contig_ok_iff`, `C20_build_dfa_ok_iff`: the same for the other two builders.
* `C20_build_ok_nnc`, `C20_build_ok_contig`, `C20_build_ok_dfa`, `C20_build_ok`: explicit sufficient
  conditions in terms of the number of patterns and their total length;
  `C20_build_ok_default`: with the real limits, every collection of at most 1000 patterns with at
  most 10^6 bytes in total builds, in every configuration.
* `C20_build_auto_total`: with `kind(None)` the build fails only if the noncontiguous build fails,
  with the same error; otherwise the searcher is the first of DFA (if tried) / contiguous /
  noncontiguous whose checked build succeeds, and it is the unchecked transcription.
* `C20_build_err_pattern_too_long`, `C20_build_err_pattern_id`, `C20_build_err_state_id`: when the
  noncontiguous build fails, per error kind, exactly.
* `C20_build_sizes`, `C20_shuffle_unwraps_safe`, `C20_dfa_shl_never_fails`, `C20_dfa_shl_no_wrap`:
  side conditions of the real code that are panics, not errors (`with_state_ids` asserts, the
  `unwrap`s of `shuffle`, `checked_shl`), shown unreachable.
* `C20_build_nnc_ok_iff_min`: `states.len()` is never the binding constraint
  (`states.len() + 509 ≤ sparse.len()`).
-/
namespace AcVerif
open CNfa BuildP

/-! ## success, exactly -/

/-- The checked noncontiguous build succeeds iff every test that the real code performs passes, and
the tests collapse to: number of patterns, every pattern length, and the final lengths of the
vectors.  On success the result is the unchecked transcription. -/
theorem C20_build_nnc_ok_iff (L : Limits) (k : MatchKind) (fold : Bool) (dd : Nat)
    (P : List (List UInt8)) (n : CNfa) :
    compileChecked L k fold dd P = .ok n ↔
      n = compile k fold P ∧
      P.length ≤ L.patternIdLimit ∧ (∀ p ∈ P, p.length ≤ L.smallIndexMax) ∧
      (compile k fold P).size ≤ L.stateIdLimit ∧
      sparseLen (buildTrie k fold P) ≤ L.stateIdLimit ∧
      matchesLen (compile k fold P) ≤ L.stateIdLimit ∧
      denseAllocOk L (compile k fold P) dd = true := by
  rw [compile_ok_iff]
  unfold TrieFits PostOk
  rw [size_compile]
  have hm := matchesLen_trie_le_compile k fold P
  constructor
  · rintro ⟨h0, h1, h2, ⟨h3, h4, _⟩, h6, h7⟩
    exact ⟨h0, h1, h2, h3, h4, h6, h7⟩
  · rintro ⟨h0, h1, h2, h3, h4, h6, h7⟩
    exact ⟨h0, h1, h2, ⟨h3, h4, by omega⟩, h6, h7⟩

/-- on success the result is `CNfa.compile` -/
theorem C20_build_nnc_eq {L : Limits} {k : MatchKind} {fold : Bool} {dd : Nat}
    {P : List (List UInt8)} {n : CNfa} (h : compileChecked L k fold dd P = .ok n) :
    n = compile k fold P :=
  ((C20_build_nnc_ok_iff L k fold dd P n).1 h).1

/-- A successfully built noncontiguous NFA has at most `LIMIT` states, `sparse` and `matches`
entries: the `assert!(len <= LIMIT)` of `with_state_ids()` / `StateID::iter` (primitives.rs:648) in
the later builders and in `Debug` cannot fire. -/
theorem C20_build_sizes {L : Limits} {k : MatchKind} {fold : Bool} {dd : Nat}
    {P : List (List UInt8)} {n : CNfa} (h : compileChecked L k fold dd P = .ok n) :
    4 ≤ n.size ∧ n.size ≤ L.stateIdLimit ∧ matchesLen n ≤ L.stateIdLimit ∧
      P.length ≤ L.patternIdLimit := by
  obtain ⟨rfl, h1, _, h3, _, h5, _⟩ := (C20_build_nnc_ok_iff L k fold dd P n).1 h
  exact ⟨(size_compile_bounds k fold P).1, h3, h5, h1⟩

/-- `states.len() + 509 ≤ sparse.len()` (every trie state that is not a child of the unanchored
start state comes with a fresh `sparse` entry, and the preamble has `769 = 4 + 256 + 509` of them):
the `alloc_state` test can never be the one that fails, and the success condition needs no bound on
the number of states. -/
theorem C20_build_nnc_ok_iff_min (L : Limits) (k : MatchKind) (fold : Bool) (dd : Nat)
    (P : List (List UInt8)) (n : CNfa) :
    compileChecked L k fold dd P = .ok n ↔
      n = compile k fold P ∧
      P.length ≤ L.patternIdLimit ∧ (∀ p ∈ P, p.length ≤ L.smallIndexMax) ∧
      sparseLen (buildTrie k fold P) ≤ L.stateIdLimit ∧
      matchesLen (compile k fold P) ≤ L.stateIdLimit ∧
      denseAllocOk L (compile k fold P) dd = true := by
  rw [C20_build_nnc_ok_iff]
  have := size_compile_lt_sparseLen k fold P
  constructor
  · rintro ⟨h0, h1, h2, _, h4, h5, h6⟩; exact ⟨h0, h1, h2, h4, h5, h6⟩
  · rintro ⟨h0, h1, h2, h4, h5, h6⟩; exact ⟨h0, h1, h2, by omega, h4, h5, h6⟩

/-- The `unwrap`s of `Compiler::shuffle` and `densify` cannot panic after a successful build:
`StateID::new(i).unwrap()` for `i < states.len()` (noncontiguous.rs:1434, :1513),
`StateID::new(next_avail.one_more()).unwrap()` (:1445; the new value is at most the final
`next_avail ≤ states.len()`), and `next_avail.checked_sub(1 | 2 | 3).unwrap()` followed by
`StateID::new(..).unwrap()` (:1474-1483) need `3 ≤ next_avail ≤ states.len() < LIMIT`.  The strict
inequality is not implied by the `alloc_state` test alone (which allows `states.len() = LIMIT`); it
holds because `sparse` overflows 509 entries earlier. -/
theorem C20_shuffle_unwraps_safe {L : Limits} {k : MatchKind} {fold : Bool} {dd : Nat}
    {P : List (List UInt8)} {n : CNfa} (h : compileChecked L k fold dd P = .ok n) :
    n.size + 509 ≤ L.stateIdLimit ∧ 4 ≤ (shuffleOrder n).2 ∧ (shuffleOrder n).2 ≤ n.size ∧
      (shuffleOrder n).2 < L.stateIdLimit := by
  obtain ⟨rfl, _, _, _, h4, _, _⟩ := (C20_build_nnc_ok_iff L k fold dd P n).1 h
  have h1 := size_compile_lt_sparseLen k fold P
  have hS := L1eP.shufOK (compile k fold P) (size_compile_bounds k fold P).1
  have h2 : 4 ≤ (shuffleOrder (compile k fold P)).2 := hS.na_ge
  have h3 : (shuffleOrder (compile k fold P)).2 ≤ (compile k fold P).size := hS.na_le
  exact ⟨by omega, h2, h3, by omega⟩

/-! ## explicit sufficient conditions -/

/-- Sufficient for the noncontiguous build, in terms of the number of patterns `|P|` and their total
length `Σ = totalLen P`:
* `states.len() ≤ 4 + Σ`;
* `sparse.len() ≤ 769 + c·Σ` with `c = 2` under ASCII case folding, else `1`
  (`1 + 3·256` entries of the preamble, then at most `c` per new trie state);
* `matches.len() ≤ 1 + |P|·(states.len() - 2)` (no state lists a pattern twice; `DEAD` and `FAIL`
  list none);
* `dense`: at most `states.len()` rows of at most 256 entries (none when `dense_depth = 0`). -/
structure NncFits (L : Limits) (fold : Bool) (dd : Nat) (P : List (List UInt8)) : Prop where
  npats : P.length ≤ L.patternIdLimit
  plen : ∀ p ∈ P, p.length ≤ L.smallIndexMax
  sparse : 769 + foldC fold * totalLen P ≤ L.stateIdLimit
  matches_ : 1 + P.length * (2 + totalLen P) ≤ L.stateIdLimit
  dense : dd = 0 ∨ 256 * (4 + totalLen P) < L.stateIdLimit

theorem C20_build_ok_nnc {L : Limits} {fold : Bool} {dd : Nat} {P : List (List UInt8)}
    (k : MatchKind) (h : NncFits L fold dd P) :
    compileChecked L k fold dd P = .ok (compile k fold P) := by
  rw [C20_build_nnc_ok_iff]
  have hs := size_compile_bounds k fold P
  have ht := buildTrie_sizes k fold P
  have hc : 0 < foldC fold := by unfold foldC; split <;> omega
  have hsp := h.sparse
  refine ⟨rfl, h.npats, h.plen, ?_, ?_, ?_, ?_⟩
  · have : totalLen P ≤ foldC fold * totalLen P := Nat.le_mul_of_pos_left _ hc
    omega
  · omega
  · have h1 := matchesLen_compile_le k fold P
    have h2 : P.length * ((compile k fold P).size - 2) ≤ P.length * (2 + totalLen P) :=
      Nat.mul_le_mul_left _ (by omega)
    have := h.matches_
    omega
  · unfold denseAllocOk
    rcases h.dense with h0 | h0
    · subst h0; rw [denseCount_zero]; rfl
    · simp only [Bool.or_eq_true, beq_iff_eq, decide_eq_true_eq]
      right
      have h1 := denseCount_le (compile k fold P) dd
      have h2 := nncAlphabetLen_le (compile k fold P)
      have h3 : (denseCount (compile k fold P) dd - 1) * nncAlphabetLen (compile k fold P) ≤
          (3 + totalLen P) * 256 :=
        Nat.mul_le_mul (by omega) h2
      omega

/-- Sufficient for the contiguous NFA: `repr.len() ≤ (259 + c)·states.len()` when no state has more
than `c` matches (a state takes at most 2 header words, 256 dense entries or 32 + 127 sparse words,
one match-count word and its matches). -/
theorem C20_build_ok_contig (L : Limits) (n : CNfa) (dd : Nat) (bc hp : Bool) (c : Nat)
    (hc : ∀ sid, (n.getD sid {}).matches_.length ≤ c)
    (h : (259 + c) * n.size ≤ L.stateIdLimit + 1) :
    buildContigChecked L n dd bc hp = .ok (buildContig n dd bc hp) := by
  rw [buildContigChecked_eq, if_pos]
  apply contigAllocOk_of_repr L n dd bc hp
  have := repr_size_le n dd bc hp c hc
  omega

/-- … for a compiled pattern list: `(259 + |P|)·(4 + Σ) ≤ LIMIT + 1` -/
theorem C20_build_ok_contig_compile (L : Limits) (k : MatchKind) (fold : Bool)
    (P : List (List UInt8)) (dd : Nat) (bc hp : Bool)
    (h : (259 + P.length) * (4 + totalLen P) ≤ L.stateIdLimit + 1) :
    buildContigChecked L (compile k fold P) dd bc hp = .ok (buildContig (compile k fold P) dd bc hp) := by
  apply C20_build_ok_contig L _ dd bc hp P.length (matches_length_le k fold P)
  have := (size_compile_bounds k fold P).2
  have : (259 + P.length) * (compile k fold P).size ≤ (259 + P.length) * (4 + totalLen P) :=
    Nat.mul_le_mul_left _ this
  omega

/-- Sufficient for the DFA: at most `2·states.len()` rows of stride at most 256 -/
theorem C20_build_ok_dfa (L : Limits) (n : CNfa) (sk : StartKind) (bc hp : Bool)
    (h : 512 * n.size ≤ L.stateIdLimit) (h0 : 0 < n.size) :
    buildDfaChecked L n sk bc hp = .ok (buildDfaIds n sk bc hp) := by
  rw [buildDfaChecked_eq, if_pos]
  unfold DfaFits
  have h1 := shiftLeft_le_256 (buildDfaIds n sk bc hp).stateLen _ (buildDfaIds_stride2_le n sk bc hp)
  have h2 := buildDfaIds_stateLen_le n sk bc hp
  have h3 : (buildDfaIds n sk bc hp).stateLen * 256 ≤ 2 * n.size * 256 := Nat.mul_le_mul_right _ h2
  have h4 : 0 < 1 <<< (buildDfaIds n sk bc hp).stride2 := by
    rw [Nat.shiftLeft_eq, Nat.one_mul]; exact Nat.two_pow_pos _
  omega

/-- The contiguous build succeeds iff the offset at which the *last* state is written is a valid
`StateID` (the offsets tested at contiguous.rs:696 increase), and then returns `buildContig`.
`offAt n dd bc i` is the number of words written before the state at shuffled position `i`. -/
theorem C20_build_contig_ok_iff (L : Limits) (n : CNfa) (dd : Nat) (bc hp : Bool) (h3 : 3 ≤ n.size)
    (c : ContigM) :
    buildContigChecked L n dd bc hp = .ok c ↔
      c = buildContig n dd bc hp ∧ L1eP.offAt n dd bc (n.size - 1) < L.stateIdLimit := by
  rw [buildContigChecked_eq, ← contigAllocOk_iff_last L n dd bc h3]
  by_cases h : contigAllocOk L n dd bc = true
  · rw [if_pos h]
    constructor
    · intro e; cases e; exact ⟨rfl, h⟩
    · rintro ⟨rfl, _⟩; rfl
  · rw [if_neg h]
    constructor
    · intro e; cases e
    · rintro ⟨_, h'⟩; exact absurd h' h

/-- The DFA build succeeds iff the id of the last state, `(state_len - 1) << stride2`, is a valid
`StateID`, and then returns `buildDfaIds`. -/
theorem C20_build_dfa_ok_iff (L : Limits) (n : CNfa) (sk : StartKind) (bc hp : Bool) (d : DfaI) :
    buildDfaChecked L n sk bc hp = .ok d ↔
      d = buildDfaIds n sk bc hp ∧
      ((buildDfaIds n sk bc hp).stateLen <<< (buildDfaIds n sk bc hp).stride2) -
        (1 <<< (buildDfaIds n sk bc hp).stride2) < L.stateIdLimit := by
  rw [buildDfaChecked_eq]
  by_cases h : DfaFits L n sk bc hp
  · rw [if_pos h]
    constructor
    · intro e; cases e; exact ⟨rfl, h⟩
    · rintro ⟨rfl, _⟩; rfl
  · rw [if_neg h]
    constructor
    · intro e; cases e
    · rintro ⟨_, h'⟩; exact absurd h' h

/-- the kind `AhoCorasickBuilder::build` ends up with when no build fails -/
def chosenKind (cfg : BuildCfg) (npats : Nat) : AcKind :=
  match cfg.kind with
  | some kd => kd
  | none => if tryDfa cfg npats then .dfa else .contiguous

/-- **Every collection within explicit bounds builds**, and the searcher is the unchecked
transcription of the kind the configuration asks for (automatic choice: a DFA for at most
`autoDfaLimit` patterns unless both start kinds are requested, else the contiguous NFA).  The
contiguous bound is only needed when a contiguous NFA is built, the DFA bound only when a DFA is. -/
theorem C20_build_ok (L : Limits) (cfg : BuildCfg) (P : List (List UInt8))
    (hn : NncFits L cfg.fold cfg.nncDenseDepth P)
    (hc : chosenKind cfg P.length = .contiguous →
      (259 + P.length) * (4 + totalLen P) ≤ L.stateIdLimit + 1)
    (hd : chosenKind cfg P.length = .dfa → 512 * (4 + totalLen P) ≤ L.stateIdLimit) :
    buildChecked L cfg P = .ok (buildUnchecked cfg P (chosenKind cfg P.length)) := by
  rw [buildChecked_eq, C20_build_ok_nnc cfg.matchKind hn]
  have hs := size_compile_bounds cfg.matchKind cfg.fold P
  have hdfa : chosenKind cfg P.length = .dfa →
      DfaFits L (compile cfg.matchKind cfg.fold P) cfg.startKind cfg.byteClasses cfg.hasPre := by
    intro hk
    have h1 := C20_build_ok_dfa L (compile cfg.matchKind cfg.fold P) cfg.startKind cfg.byteClasses
      cfg.hasPre (by have := hd hk; omega) (by omega)
    rw [buildDfaChecked_eq] at h1
    by_cases hf : DfaFits L (compile cfg.matchKind cfg.fold P) cfg.startKind cfg.byteClasses cfg.hasPre
    · exact hf
    · rw [if_neg hf] at h1; cases h1
  have hcon : chosenKind cfg P.length = .contiguous →
      contigAllocOk L (compile cfg.matchKind cfg.fold P) cfg.contigDenseDepth cfg.byteClasses = true := by
    intro hk
    have h1 := C20_build_ok_contig_compile L cfg.matchKind cfg.fold P cfg.contigDenseDepth
      cfg.byteClasses cfg.hasPre (hc hk)
    rw [buildContigChecked_eq] at h1
    by_cases hf : contigAllocOk L (compile cfg.matchKind cfg.fold P) cfg.contigDenseDepth
        cfg.byteClasses = true
    · exact hf
    · rw [if_neg hf] at h1; cases h1
  unfold chosenKind at hdfa hcon ⊢
  unfold buildUnchecked
  cases hk : cfg.kind with
  | none =>
    simp only [hk] at hdfa hcon ⊢
    unfold autoChoice
    by_cases ht : tryDfa cfg P.length = true
    · simp only [ht, if_true, true_and] at hdfa hcon ⊢
      rw [if_pos (hdfa trivial)]
    · simp only [ht, if_false, false_and, Bool.false_eq_true] at hdfa hcon ⊢
      rw [if_pos (hcon trivial)]
  | some kd =>
    simp only [hk] at hdfa hcon ⊢
    cases kd with
    | noncontiguous => rfl
    | contiguous => simp only [if_pos (hcon rfl)]
    | dfa => simp only [if_pos (hdfa rfl)]

theorem length_le_totalLen {P : List (List UInt8)} {p : List UInt8} (h : p ∈ P) :
    p.length ≤ totalLen P := by
  induction P with
  | nil => cases h
  | cons q P ih =>
    simp only [totalLen, List.map_cons, List.sum_cons] at ih ⊢
    rcases List.mem_cons.1 h with rfl | h
    · omega
    · have := ih h; omega

/-- With the real limits (`StateID::LIMIT = 2^31 - 1`): every collection of at most 1000 patterns
with at most 10^6 bytes in total builds, whatever the match kind, case folding, start kind, requested
kind, dense depths and byte-class setting. -/
theorem C20_build_ok_default (cfg : BuildCfg) (P : List (List UInt8))
    (hP : P.length ≤ 1000) (hT : totalLen P ≤ 1000000) :
    buildChecked {} cfg P = .ok (buildUnchecked cfg P (chosenKind cfg P.length)) := by
  apply C20_build_ok
  · have hc : foldC cfg.fold ≤ 2 := by unfold foldC; split <;> omega
    have h1 : foldC cfg.fold * totalLen P ≤ 2 * 1000000 := Nat.mul_le_mul hc hT
    have h2 : P.length * (2 + totalLen P) ≤ 1000 * (2 + 1000000) :=
      Nat.mul_le_mul hP (by omega)
    exact
      { npats := by show P.length ≤ 2147483647; omega
        plen := fun p hp => by
          have := length_le_totalLen hp
          show p.length ≤ 2147483646; omega
        sparse := by show _ ≤ 2147483647; omega
        matches_ := by show _ ≤ 2147483647; omega
        dense := Or.inr (by show _ < 2147483647; omega) }
  · intro _
    have h2 : (259 + P.length) * (4 + totalLen P) ≤ (259 + 1000) * (4 + 1000000) :=
      Nat.mul_le_mul (by omega) (by omega)
    show _ ≤ 2147483647 + 1; omega
  · intro _
    show _ ≤ 2147483647; omega

/-! ## the fallback chain of `build_auto` -/

/-- With `kind(None)`, `AhoCorasickBuilder::build` is the noncontiguous build followed by an
infallible choice: the error (if any) is the error of the noncontiguous build; otherwise the
searcher is the DFA if it is tried (`start_kind != Both` and at most `autoDfaLimit` patterns) and its
table fits, else the contiguous NFA if all its state offsets fit, else the noncontiguous NFA – each
being the unchecked transcription built from `CNfa.compile`. -/
theorem C20_build_auto_total (L : Limits) (cfg : BuildCfg) (P : List (List UInt8))
    (hk : cfg.kind = none) :
    buildChecked L cfg P =
      match compileChecked L cfg.matchKind cfg.fold cfg.nncDenseDepth P with
      | .error e => .error e
      | .ok n =>
        .ok (if tryDfa cfg P.length = true ∧ DfaFits L n cfg.startKind cfg.byteClasses cfg.hasPre then
            .dfa (buildDfaIds n cfg.startKind cfg.byteClasses cfg.hasPre)
          else if contigAllocOk L n cfg.contigDenseDepth cfg.byteClasses = true then
            .contig (buildContig n cfg.contigDenseDepth cfg.byteClasses cfg.hasPre)
          else builtNnc cfg n) := by
  rw [buildChecked_eq]
  cases compileChecked L cfg.matchKind cfg.fold cfg.nncDenseDepth P with
  | error e => rfl
  | ok n => simp only [hk]; rfl

/-- … it fails only if the noncontiguous build fails, and with the same error -/
theorem C20_build_auto_err_iff (L : Limits) (cfg : BuildCfg) (P : List (List UInt8))
    (hk : cfg.kind = none) (e : BuildErr) :
    buildChecked L cfg P = .error e ↔
      compileChecked L cfg.matchKind cfg.fold cfg.nncDenseDepth P = .error e := by
  rw [C20_build_auto_total L cfg P hk]
  cases compileChecked L cfg.matchKind cfg.fold cfg.nncDenseDepth P with
  | error e' => simp
  | ok n => simp

/-- … and otherwise it succeeds, with the first kind of the chain whose checked build succeeds -/
theorem C20_build_auto_kind (L : Limits) (cfg : BuildCfg) (P : List (List UInt8))
    (hk : cfg.kind = none) {n : CNfa}
    (hn : compileChecked L cfg.matchKind cfg.fold cfg.nncDenseDepth P = .ok n) :
    ∃ b, buildChecked L cfg P = .ok b ∧
      b.kind =
        if tryDfa cfg P.length = true ∧
            errOf (buildDfaChecked L n cfg.startKind cfg.byteClasses cfg.hasPre) = none then .dfa
        else if errOf (buildContigChecked L n cfg.contigDenseDepth cfg.byteClasses cfg.hasPre) = none
          then .contiguous
        else .noncontiguous := by
  rw [C20_build_auto_total L cfg P hk, hn]
  refine ⟨_, rfl, ?_⟩
  rw [buildDfaChecked_eq, buildContigChecked_eq]
  by_cases hd : DfaFits L n cfg.startKind cfg.byteClasses cfg.hasPre
  · by_cases ht : tryDfa cfg P.length = true
    · simp only [hd, ht, and_self, if_true, errOf]; rfl
    · by_cases hc : contigAllocOk L n cfg.contigDenseDepth cfg.byteClasses = true
      · simp only [hd, ht, hc, if_true, errOf, false_and, if_false, Bool.false_eq_true]; rfl
      · simp only [hd, ht, hc, if_true, errOf, false_and, if_false, Bool.false_eq_true,
          reduceCtorEq]; rfl
  · by_cases hc : contigAllocOk L n cfg.contigDenseDepth cfg.byteClasses = true
    · simp only [hd, hc, if_true, errOf, and_false, if_false, reduceCtorEq]; rfl
    · simp only [hd, hc, errOf, and_false, if_false, reduceCtorEq]; rfl

/-- with an explicit kind the error of the requested builder is returned -/
theorem C20_build_explicit (L : Limits) (cfg : BuildCfg) (P : List (List UInt8)) (kd : AcKind)
    (hk : cfg.kind = some kd) {n : CNfa}
    (hn : compileChecked L cfg.matchKind cfg.fold cfg.nncDenseDepth P = .ok n) :
    buildChecked L cfg P =
      match kd with
      | .noncontiguous => .ok (builtNnc cfg n)
      | .contiguous =>
        (buildContigChecked L n cfg.contigDenseDepth cfg.byteClasses cfg.hasPre).map .contig
      | .dfa => (buildDfaChecked L n cfg.startKind cfg.byteClasses cfg.hasPre).map .dfa := by
  rw [buildChecked_eq, hn]
  simp only [hk]
  cases kd with
  | noncontiguous => rfl
  | contiguous => simp only; rw [buildContigChecked_eq]; split <;> rfl
  | dfa => simp only; rw [buildDfaChecked_eq]; split <;> rfl

/-! ## failure of the noncontiguous build, per error kind -/

/-- `PatternTooLong(i, len)`: pattern `i` is the first problem – its id fits, it is too long, the
earlier patterns are short enough and the trie of the earlier patterns fits. -/
theorem C20_build_err_pattern_too_long (L : Limits) (k : MatchKind) (fold : Bool) (dd : Nat)
    (P : List (List UInt8)) (i len : Nat) :
    compileChecked L k fold dd P = .error (.patternTooLong i len) ↔
      ∃ h : i < P.length, i < L.patternIdLimit ∧ len = P[i].length ∧ L.smallIndexMax < len ∧
        (∀ p ∈ P.take i, p.length ≤ L.smallIndexMax) ∧
        TrieFits L (buildTrie k fold (P.take i)) := by
  rw [compile_error_iff]
  constructor
  · rintro (⟨_, h⟩ | ⟨j, hj, _, hlen, hfit, herr⟩ | ⟨_, _, _, _, h⟩)
    · cases h
    · rw [trieStepChecked_error_iff] at herr
      rcases herr with ⟨_, h⟩ | ⟨h1, h2, h3⟩ | ⟨_, _, h⟩
      · cases h
      · simp only [BuildErr.patternTooLong.injEq] at h3
        obtain ⟨rfl, rfl⟩ := h3
        exact ⟨hj, h1, rfl, by simp only at h2; omega, hlen, hfit⟩
      · cases h
    · cases h
  · rintro ⟨hi, h1, rfl, h3, hlen, hfit⟩
    refine Or.inr (Or.inl ⟨i, hi, Nat.le_of_lt h1, hlen, hfit, ?_⟩)
    rw [trieStepChecked_error_iff]
    exact Or.inr (Or.inl ⟨h1, by simp only; omega, rfl⟩)

/-- `PatternIDOverflow`: there are more than `patternIdLimit` patterns and the first
`patternIdLimit` of them build. -/
theorem C20_build_err_pattern_id (L : Limits) (k : MatchKind) (fold : Bool) (dd : Nat)
    (P : List (List UInt8)) :
    compileChecked L k fold dd P = .error .patternIdOverflow ↔
      L.patternIdLimit < P.length ∧
        (∀ p ∈ P.take L.patternIdLimit, p.length ≤ L.smallIndexMax) ∧
        TrieFits L (buildTrie k fold (P.take L.patternIdLimit)) := by
  rw [compile_error_iff]
  constructor
  · rintro (⟨_, h⟩ | ⟨j, hj, hle, hlen, hfit, herr⟩ | ⟨_, _, _, _, h⟩)
    · cases h
    · rw [trieStepChecked_error_iff] at herr
      rcases herr with ⟨h1, _⟩ | ⟨_, _, h⟩ | ⟨_, _, h⟩
      · simp only at h1
        have : j = L.patternIdLimit := by omega
        subst this
        exact ⟨hj, hlen, hfit⟩
      · cases h
      · cases h
    · cases h
  · rintro ⟨h1, hlen, hfit⟩
    refine Or.inr (Or.inl ⟨L.patternIdLimit, h1, Nat.le_refl _, hlen, hfit, ?_⟩)
    rw [trieStepChecked_error_iff]
    exact Or.inl ⟨by simp, rfl⟩

/-- `StateIDOverflow`: the preamble does not fit; or the patterns up to and including some pattern
`i` pass their tests, the trie of the first `i` patterns fits and the trie of the first `i + 1` does
not; or `build_trie` succeeds and `matches` / `dense` overflow in a later phase. -/
theorem C20_build_err_state_id (L : Limits) (k : MatchKind) (fold : Bool) (dd : Nat)
    (P : List (List UInt8)) :
    compileChecked L k fold dd P = .error .stateIdOverflow ↔
      ¬ TrieFits L init ∨
      (∃ i, i < P.length ∧ i < L.patternIdLimit ∧
        (∀ p ∈ P.take (i + 1), p.length ≤ L.smallIndexMax) ∧
        TrieFits L (buildTrie k fold (P.take i)) ∧
        ¬ TrieFits L (buildTrie k fold (P.take (i + 1)))) ∨
      (P.length ≤ L.patternIdLimit ∧ (∀ p ∈ P, p.length ≤ L.smallIndexMax) ∧
        TrieFits L (buildTrie k fold P) ∧
        ¬ (matchesLen (compile k fold P) ≤ L.stateIdLimit ∧
            denseAllocOk L (compile k fold P) dd = true)) := by
  rw [compile_error_iff]
  constructor
  · rintro (⟨h, _⟩ | ⟨j, hj, _, hlen, hfit, herr⟩ | ⟨h1, h2, h3, h4, _⟩)
    · exact Or.inl h
    · rw [trieStepChecked_error_iff] at herr
      rcases herr with ⟨_, h⟩ | ⟨_, _, h⟩ | ⟨hp, hnf, _⟩
      · cases h
      · cases h
      · rw [buildTrie_take_succ k fold P j hj] at hnf
        refine Or.inr (Or.inl ⟨j, hj, hp.1, ?_, hfit, hnf⟩)
        intro p hp'
        rw [List.take_succ_eq_append_getElem hj, List.mem_append] at hp'
        rcases hp' with hp' | hp'
        · exact hlen p hp'
        · rw [List.mem_singleton] at hp'; subst hp'; exact hp.2
    · exact Or.inr (Or.inr ⟨h1, h2, h3, h4⟩)
  · rintro (h | ⟨j, hj, h1, hlen, hfit, hnf⟩ | ⟨h1, h2, h3, h4⟩)
    · exact Or.inl ⟨h, rfl⟩
    · refine Or.inr (Or.inl ⟨j, hj, Nat.le_of_lt h1, ?_, hfit, ?_⟩)
      · intro p hp
        apply hlen p
        rw [List.take_succ_eq_append_getElem hj, List.mem_append]
        exact Or.inl hp
      · rw [trieStepChecked_error_iff]
        refine Or.inr (Or.inr ⟨⟨h1, ?_⟩, ?_, rfl⟩)
        · apply hlen
          rw [List.take_succ_eq_append_getElem hj, List.mem_append]
          exact Or.inr (List.mem_singleton.2 rfl)
        · rw [buildTrie_take_succ k fold P j hj]; exact hnf
    · exact Or.inr (Or.inr ⟨h1, h2, h3, h4, rfl⟩)

/-! ## side conditions of the DFA builder that are not errors -/

/-- `state_len.checked_shl(stride2)` (dfa.rs:463) is never `None`: `stride2 ≤ 8 < usize::BITS` -/
theorem C20_dfa_shl_never_fails (n : CNfa) (sk : StartKind) (bc hp : Bool) :
    (buildDfaIds n sk bc hp).stride2 < usizeBits := by
  have := buildDfaIds_stride2_le n sk bc hp
  unfold usizeBits; omega

/-- … and with the real limits it loses no bit on a 64-bit target, so `trans_len` is the product the
model uses: `state_len << stride2 < 2^64` for every successfully built noncontiguous NFA -/
theorem C20_dfa_shl_no_wrap {k : MatchKind} {fold : Bool} {dd : Nat} {P : List (List UInt8)}
    {n : CNfa} (h : compileChecked {} k fold dd P = .ok n) (sk : StartKind) (bc hp : Bool) :
    (buildDfaIds n sk bc hp).stateLen <<< (buildDfaIds n sk bc hp).stride2 < 2 ^ 64 := by
  have hs := (C20_build_sizes h).2.1
  have h1 := shiftLeft_le_256 (buildDfaIds n sk bc hp).stateLen _ (buildDfaIds_stride2_le n sk bc hp)
  have h2 := buildDfaIds_stateLen_le n sk bc hp
  have h3 : (buildDfaIds n sk bc hp).stateLen * 256 ≤ 2 * n.size * 256 := Nat.mul_le_mul_right _ h2
  have h4 : n.size ≤ 2147483647 := hs
  omega

/-! ## non-vacuity: small artificial limits (the preamble alone needs 769 `sparse` entries) -/

/-- two patterns: 7 states, 770 `sparse` entries, 4 `matches` entries -/
def exP : List (List UInt8) := [[97, 98], [98]]

/-- builds with the real limits (automatic choice: a DFA) … -/
example : (buildChecked {} {} exP).toOption.map Built.kind = some .dfa := by decide +kernel

/-- … and with `LIMIT = 770`, but not with `LIMIT = 769` (`sparse`) -/
example : errOf (compileChecked { stateIdLimit := 770 } .std false 3 exP) = none := by
  decide +kernel
example : errOf (compileChecked { stateIdLimit := 769 } .std false 3 exP) =
    some .stateIdOverflow := by decide +kernel

/-- the preamble alone overflows below 769 -/
example : errOf (compileChecked { stateIdLimit := 10 } .std false 3 []) = some .stateIdOverflow := by
  decide +kernel

/-- a second pattern when only one id is available -/
example : errOf (compileChecked { patternIdLimit := 1 } .std false 3 exP) =
    some .patternIdOverflow := by decide +kernel

/-- a pattern longer than `SmallIndex::MAX` – the error names the first such pattern -/
example : errOf (compileChecked { smallIndexMax := 1 } .std false 3 exP) =
    some (.patternTooLong 0 2) := by decide +kernel

/-- order of the tests: pattern 1 is too long *and* has no id; the id test comes first -/
example : errOf (compileChecked { patternIdLimit := 1, smallIndexMax := 2 } .std false 3
    [[97], [97, 98, 99]]) = some .patternIdOverflow := by decide +kernel

/-- an explicitly requested DFA whose table (7 states × 256) exceeds the limit is an error … -/
example : errOf (buildChecked { stateIdLimit := 1000 }
    { byteClasses := false, contigDenseDepth := 0, kind := some .dfa } exP) =
    some .stateIdOverflow := by decide +kernel

/-- … the automatic choice falls back to the contiguous NFA (last state at offset 782) … -/
example : (buildChecked { stateIdLimit := 1000 } { byteClasses := false, contigDenseDepth := 0 }
    exP).toOption.map Built.kind = some .contiguous := by decide +kernel

/-- … and, when that does not fit either, to the noncontiguous NFA -/
example : (buildChecked { stateIdLimit := 780 } { byteClasses := false, contigDenseDepth := 0 }
    exP).toOption.map Built.kind = some .noncontiguous := by decide +kernel

end AcVerif
