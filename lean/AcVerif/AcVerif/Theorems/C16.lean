import AcVerif.Proofs.RecipeEq
import AcVerif.Table
/-!
# C16 – the search loop documented for implementors of the `Automaton` trait
computes exactly the built-in forward search, for every automaton record
-/
namespace AcVerif
variable {σ α : Type}

theorem C16_recipe_eq_find (A : Aut σ α) (hay : List α) :
    recipe A hay = tryFindFwd A none
      { hay := hay, s := 0, e := hay.length, anch := false, earliest := false,
        valid := ⟨Nat.le_refl _, Nat.zero_le _⟩ } :=
  EngP.recipe_eq_find A hay

end AcVerif


/-! ## The local contract check is sound for every reachable state -/
namespace AcVerif

/-- states the dump describes -/
def Table.Valid (T : Table) (q : Nat) : Prop := q < T.states.size

theorem contractOk_state {T : Table} (h : T.contractOk = true) {q : Nat} (hq : q < T.states.size) :
    let st := T.states[q]
    st.tNo.size = 256 ∧ st.tYes.size = 256 ∧
    (∀ i (hi : i < st.tNo.size), st.tNo[i] < T.states.size) ∧
    (∀ i (hi : i < st.tYes.size), st.tYes[i] < T.states.size) ∧
    (st.dead = true → (∀ i (hi : i < st.tNo.size), T.flag (·.dead) st.tNo[i] = true) ∧
                      (∀ i (hi : i < st.tYes.size), T.flag (·.dead) st.tYes[i] = true)) ∧
    ((st.dead = true ∨ st.isMatch = true) → st.special = true) ∧
    (st.special = true → st.dead = true ∨ st.isMatch = true ∨ st.isStart = true) ∧
    (st.isMatch = true ↔ st.pats ≠ []) ∧
    (∀ p ∈ st.pats, p < T.npat) := by
  unfold Table.contractOk at h
  simp only [Bool.and_eq_true, Array.all_eq_true, beq_iff_eq, decide_eq_true_eq,
    Bool.or_eq_true, Bool.not_eq_eq_eq_not, Bool.not_true, List.all_eq_true] at h
  have hs := h.2 q hq
  obtain ⟨⟨⟨⟨⟨⟨⟨⟨⟨h1, h2⟩, h3⟩, h4⟩, h5⟩, h6⟩, h7⟩, _h8⟩, h9⟩, h10⟩ := hs
  refine ⟨h1, h2, h3, h4, ?_, ?_, ?_, ?_, h10⟩
  · intro hd
    rcases h5 with h5 | h5
    · simp [hd] at h5
    · exact h5
  · intro hdm
    rcases h6 with h6 | h6
    · rcases hdm with hd | hm
      · simp [hd] at h6
      · simp [hm] at h6
    · exact h6
  · intro hsp
    rcases h7 with h7 | h7
    · simp [hsp] at h7
    · rcases h7 with (h7 | h7) | h7
      · exact Or.inl h7
      · exact Or.inr (Or.inl h7)
      · exact Or.inr (Or.inr h7)
  · cases hp : (T.states[q]).pats <;> simp_all

/-- successors of a dumped state are dumped states, for every byte and either
anchoring argument -/
theorem contractOk_next {T : Table} (h : T.contractOk = true) (anch : Bool) {q : Nat}
    (hq : q < T.states.size) (c : UInt8) : T.next anch q c < T.states.size := by
  have hs := contractOk_state h hq
  simp only at hs
  obtain ⟨h1, h2, h3, h4, _⟩ := hs
  unfold Table.next
  rw [Array.getElem?_eq_getElem hq]
  simp only
  have hc : c.toNat < 256 := c.toNat_lt
  cases anch
  · simp only [Bool.false_eq_true, ↓reduceIte]
    have : c.toNat < (T.states[q]).tNo.size := by omega
    rw [Array.getD_eq_getD_getElem?, Array.getElem?_eq_getElem this]
    exact h3 _ this
  · simp only [↓reduceIte]
    have : c.toNat < (T.states[q]).tYes.size := by omega
    rw [Array.getD_eq_getD_getElem?, Array.getElem?_eq_getElem this]
    exact h4 _ this

/-- **C16, contract.**  If the local check passes, every state reachable from
a dumped state by any byte string under either anchoring argument is a dumped
state – hence satisfies all the local conditions of `contractOk_state`:
dead and match states are special, a special state is dead, match or start, a
match state lists at least one pattern and only valid pattern ids. -/
theorem C16_contract_reachable {T : Table} (h : T.contractOk = true) (anch : Bool) {q : Nat}
    (hq : q < T.states.size) (w : List UInt8) :
    T.toAut.runFrom anch q w < T.states.size := by
  induction w generalizing q with
  | nil => exact hq
  | cons c w ih => exact ih (contractOk_next h anch hq c)

/-- the start states are dumped states -/
theorem C16_contract_start {T : Table} (h : T.contractOk = true) (anch : Bool) (q : Nat)
    (hs : T.toAut.start anch = some q) : q < T.states.size := by
  unfold Table.contractOk at h
  simp only [Bool.and_eq_true] at h
  obtain ⟨⟨⟨hn, hy⟩, _⟩, _⟩ := h
  cases anch
  · simp only [Table.toAut, Bool.false_eq_true, ↓reduceIte] at hs
    rw [hs] at hn; simpa using hn
  · simp only [Table.toAut, ↓reduceIte] at hs
    rw [hs] at hy; simpa using hy

/-- the dead state is absorbing along every word -/
theorem C16_dead_absorbing {T : Table} (h : T.contractOk = true) (anch : Bool) {q : Nat}
    (hq : q < T.states.size) (hd : T.flag (·.dead) q = true) (w : List UInt8) :
    T.flag (·.dead) (T.toAut.runFrom anch q w) = true := by
  induction w generalizing q with
  | nil => exact hd
  | cons c w ih =>
    have hs := contractOk_state h hq
    simp only at hs
    obtain ⟨h1, h2, _, _, h5, _⟩ := hs
    have hdq : (T.states[q]).dead = true := by
      simpa [Table.flag, Array.getElem?_eq_getElem hq] using hd
    obtain ⟨hno, hyes⟩ := h5 hdq
    have hc : c.toNat < 256 := c.toNat_lt
    refine ih (contractOk_next h anch hq c) ?_
    show T.flag (·.dead) (T.next anch q c) = true
    unfold Table.next
    rw [Array.getElem?_eq_getElem hq]
    cases anch
    · simp only [Bool.false_eq_true, ↓reduceIte]
      have : c.toNat < (T.states[q]).tNo.size := by omega
      rw [Array.getD_eq_getD_getElem?, Array.getElem?_eq_getElem this]
      exact hno _ this
    · simp only [↓reduceIte]
      have : c.toNat < (T.states[q]).tYes.size := by omega
      rw [Array.getD_eq_getD_getElem?, Array.getElem?_eq_getElem this]
      exact hyes _ this

end AcVerif
