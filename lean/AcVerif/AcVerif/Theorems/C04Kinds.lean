import AcVerif.Theorems.L1c
import AcVerif.Theorems.L1d
import AcVerif.Theorems.L1e
/-!
# C04 for ALL pattern lists, on the transcriptions of the three builders

`L1c`, `L1d`, `L1e` prove that the transcribed noncontiguous compiler, DFA
builder and contiguous encoder each produce an automaton observationally
equivalent to the ideal automaton, for every pattern list (case folding off).
Composed: the three representations – for every dense depth, byte-class
setting and prefilter flag – give identical results from every engine
function on every input.  (The per-instance certificates tie the
transcriptions to the real builders; these theorems make the agreement of the
*algorithms* unconditional.)
-/
namespace AcVerif

/-- noncontiguous NFA = contiguous NFA (any dense depth / byte classes): non-overlapping search,
any prefilter function, any input -/
theorem C04_kinds_find_nfa (k : MatchKind) (P : List (List UInt8)) (hasPre bc : Bool) (dd : Nat)
    (hP : P.length < 2147483648) (pre : Option (Prefilter UInt8)) (i : Input UInt8) :
    tryFindFwd ((buildContig (CNfa.compile k false P) dd bc hasPre).toAut k P hasPre) pre i =
      tryFindFwd ((CNfa.compile k false P).toAut k P hasPre) pre i :=
  (L1e_find k P hasPre bc dd hP pre i).trans (L1c_find k P hasPre pre i).symm

/-- DFA with `StartKind::Both` = noncontiguous NFA -/
theorem C04_kinds_find_dfa (k : MatchKind) (P : List (List UInt8)) (hasPre bc : Bool)
    (pre : Option (Prefilter UInt8)) (i : Input UInt8) :
    tryFindFwd ((buildDfa (CNfa.compile k false P) .both bc).toAut k P hasPre) pre i =
      tryFindFwd ((CNfa.compile k false P).toAut k P hasPre) pre i :=
  (L1d_find k P hasPre bc .both pre i).trans (L1c_find k P hasPre pre i).symm

/-- the iterator -/
theorem C04_kinds_iter (k : MatchKind) (P : List (List UInt8)) (hasPre bc bc' : Bool) (dd : Nat)
    (hP : P.length < 2147483648) (pre : Option (Prefilter UInt8)) (i : Input UInt8) :
    findIter ((buildContig (CNfa.compile k false P) dd bc hasPre).toAut k P hasPre) pre i =
      findIter ((buildDfa (CNfa.compile k false P) .both bc').toAut k P hasPre) pre i :=
  (L1e_iter k P hasPre bc dd hP pre i).trans (L1d_iter k P hasPre bc' .both pre i).symm

/-- stepwise overlapping search: every prefix of the call history agrees -/
theorem C04_kinds_overlap (k : MatchKind) (P : List (List UInt8)) (hasPre bc bc' : Bool) (dd : Nat)
    (hP : P.length < 2147483648) (pre : Option (Prefilter UInt8)) (i : Input UInt8) (n : Nat) :
    ovlCalls ((buildContig (CNfa.compile k false P) dd bc hasPre).toAut k P hasPre) pre i n OState.start =
      ovlCalls ((buildDfa (CNfa.compile k false P) .both bc').toAut k P hasPre) pre i n OState.start :=
  (L1e_overlap k P hasPre bc dd hP pre i n).trans (L1d_overlap k P hasPre bc' .both pre i n).symm

/-- a DFA built for one anchoring mode agrees with the `Both` DFA on the mode it supports, and
rejects the other: it equals the ideal automaton with that start kind -/
theorem C04_kinds_dfa_startkind (k : MatchKind) (P : List (List UInt8)) (hasPre bc : Bool)
    (sk : StartKind) (pre : Option (Prefilter UInt8)) (i : Input UInt8) :
    tryFindFwd ((buildDfa (CNfa.compile k false P) sk bc).toAut k P hasPre) pre i =
      tryFindFwd (ideal k P sk hasPre) pre i :=
  L1d_find k P hasPre bc sk pre i

end AcVerif
