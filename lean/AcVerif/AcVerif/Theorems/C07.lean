import AcVerif.Proofs.StreamIdeal
/-!
# C07 – stream search = in-memory iterator

On the ideal standard automaton, for every stream `data`, every read schedule
(each `read` call returning at least one byte while data remain) and every
buffer capacity `min + spare` (`spare ≥ 1`) or `max (min * minFactor) defaultCap`
– any constants leaving one byte of room beyond `min` (`hcap`; the `_default`,
`_factor`, `_spare` corollaries discharge it) –
`StreamFindIter` yields exactly the matches of the in-memory `FindIter` on the
whole stream, reports no I/O error, and never calls `read` with an empty
buffer.  Since each `findAt` answer is *the* `IsFind .std` answer (`C02_find`),
the stream is tied to the specification's iterator (`C07_stream_spec`).

The proof is the invariant of `StreamChunkIter` (`StreamP.Inv`, preserved by
every branch of `next`: `StreamP.next_post`) and `StreamP.spec_mats`.
-/
namespace AcVerif
open AcVerif.StreamP AcVerif.StdP
variable {α : Type} [DecidableEq α]

theorem C07_stream_eq_iter (P : List (List α)) (_hP : P ≠ []) (hne : ∀ p ∈ P, p ≠ [])
    (sk : StartKind) (hsk : supportsAnch sk false) (data : List α) (sched : List Nat)
    (hs : ∀ x ∈ sched, 1 ≤ x) (spare : Option Nat) (minFactor defaultCap : Nat)
    (hcap : (Buffer.new (α := α) (ideal .std P sk false).maxLen spare minFactor defaultCap).min <
        (Buffer.new (α := α) (ideal .std P sk false).maxLen spare minFactor defaultCap).cap) :
    ∃ ms,
      findIter (ideal .std P sk false) none
        { hay := data, s := 0, e := data.length, anch := false, earliest := false,
          valid := ⟨Nat.le_refl _, Nat.zero_le _⟩ } = .ok ms ∧
      streamFind (ideal .std P sk false) { data := data, sched := sched } spare
        minFactor defaultCap = .ok (ms, false, 0) := by
  obtain ⟨it, cs, err, hnew, hd, hsp, he, _⟩ :=
    stream_master P sk hsk hne data sched hs spare minFactor defaultCap hcap none
  have herr := he rfl
  subst herr
  have H := hyp_ideal P sk hsk hne data sched hs spare minFactor defaultCap hcap
  have hm := (spec_mats H.FOK hsp (Nat.zero_le _)).2 rfl
  refine ⟨_, findIter_eq P sk hsk data, ?_⟩
  rw [iter_findAt P sk hsk hne data, ← hm]
  simp only [streamFind, hnew, hd]
  rfl

/-- the stream yields the specification's iterator over *the* standard answers -/
theorem C07_stream_spec (P : List (List α)) (_hP : P ≠ []) (hne : ∀ p ∈ P, p ≠ [])
    (sk : StartKind) (hsk : supportsAnch sk false) (data : List α) (sched : List Nat)
    (hs : ∀ x ∈ sched, 1 ≤ x) (spare : Option Nat) (minFactor defaultCap : Nat)
    (hcap : (Buffer.new (α := α) (ideal .std P sk false).maxLen spare minFactor defaultCap).min <
        (Buffer.new (α := α) (ideal .std P sk false).maxLen spare minFactor defaultCap).cap) :
    ∃ F : Nat → Option Mat,
      (∀ st, st ≤ data.length + 1 → IsFind .std P data st data.length false (F st)) ∧
      streamFind (ideal .std P sk false) { data := data, sched := sched } spare
        minFactor defaultCap = .ok (iterSpec F 0 data.length, false, 0) := by
  obtain ⟨ms, h1, h2⟩ :=
    C07_stream_eq_iter P _hP hne sk hsk data sched hs spare minFactor defaultCap hcap
  refine ⟨findAt (ideal .std P sk false) none (whole data),
    fun st hst => findAt_isFind P sk hsk data st hst, ?_⟩
  rw [findIter_eq P sk hsk data] at h1
  cases h1
  exact h2

/-! ## corollaries: the default constants, any factor `≥ 2`, explicit spare room -/

/-- the default constants (factor 8, 64 KiB) -/
theorem C07_stream_eq_iter_default (P : List (List α)) (_hP : P ≠ []) (hne : ∀ p ∈ P, p ≠ [])
    (sk : StartKind) (hsk : supportsAnch sk false) (data : List α) (sched : List Nat)
    (hs : ∀ x ∈ sched, 1 ≤ x) (spare : Option Nat) :
    ∃ ms,
      findIter (ideal .std P sk false) none
        { hay := data, s := 0, e := data.length, anch := false, earliest := false,
          valid := ⟨Nat.le_refl _, Nat.zero_le _⟩ } = .ok ms ∧
      streamFind (ideal .std P sk false) { data := data, sched := sched } spare =
        .ok (ms, false, 0) :=
  C07_stream_eq_iter P _hP hne sk hsk data sched hs spare 8 (64 * 1024) (hcap_default _ spare)

/-- production-shaped capacity `max (min * minFactor) defaultCap`, any `minFactor ≥ 2` -/
theorem C07_stream_eq_iter_factor (P : List (List α)) (_hP : P ≠ []) (hne : ∀ p ∈ P, p ≠ [])
    (sk : StartKind) (hsk : supportsAnch sk false) (data : List α) (sched : List Nat)
    (hs : ∀ x ∈ sched, 1 ≤ x) (minFactor defaultCap : Nat) (hf : 2 ≤ minFactor) :
    ∃ ms,
      findIter (ideal .std P sk false) none
        { hay := data, s := 0, e := data.length, anch := false, earliest := false,
          valid := ⟨Nat.le_refl _, Nat.zero_le _⟩ } = .ok ms ∧
      streamFind (ideal .std P sk false) { data := data, sched := sched } none
        minFactor defaultCap = .ok (ms, false, 0) :=
  C07_stream_eq_iter P _hP hne sk hsk data sched hs none minFactor defaultCap
    (hcap_factor _ minFactor defaultCap hf)

/-- explicit spare room `min + max 1 sp`, whatever the constants -/
theorem C07_stream_eq_iter_spare (P : List (List α)) (_hP : P ≠ []) (hne : ∀ p ∈ P, p ≠ [])
    (sk : StartKind) (hsk : supportsAnch sk false) (data : List α) (sched : List Nat)
    (hs : ∀ x ∈ sched, 1 ≤ x) (sp minFactor defaultCap : Nat) :
    ∃ ms,
      findIter (ideal .std P sk false) none
        { hay := data, s := 0, e := data.length, anch := false, earliest := false,
          valid := ⟨Nat.le_refl _, Nat.zero_le _⟩ } = .ok ms ∧
      streamFind (ideal .std P sk false) { data := data, sched := sched } (some sp)
        minFactor defaultCap = .ok (ms, false, 0) :=
  C07_stream_eq_iter P _hP hne sk hsk data sched hs (some sp) minFactor defaultCap
    (hcap_spare _ sp minFactor defaultCap)

theorem C07_stream_spec_default (P : List (List α)) (_hP : P ≠ []) (hne : ∀ p ∈ P, p ≠ [])
    (sk : StartKind) (hsk : supportsAnch sk false) (data : List α) (sched : List Nat)
    (hs : ∀ x ∈ sched, 1 ≤ x) (spare : Option Nat) :
    ∃ F : Nat → Option Mat,
      (∀ st, st ≤ data.length + 1 → IsFind .std P data st data.length false (F st)) ∧
      streamFind (ideal .std P sk false) { data := data, sched := sched } spare =
        .ok (iterSpec F 0 data.length, false, 0) :=
  C07_stream_spec P _hP hne sk hsk data sched hs spare 8 (64 * 1024) (hcap_default _ spare)

theorem C07_stream_spec_factor (P : List (List α)) (_hP : P ≠ []) (hne : ∀ p ∈ P, p ≠ [])
    (sk : StartKind) (hsk : supportsAnch sk false) (data : List α) (sched : List Nat)
    (hs : ∀ x ∈ sched, 1 ≤ x) (minFactor defaultCap : Nat) (hf : 2 ≤ minFactor) :
    ∃ F : Nat → Option Mat,
      (∀ st, st ≤ data.length + 1 → IsFind .std P data st data.length false (F st)) ∧
      streamFind (ideal .std P sk false) { data := data, sched := sched } none
        minFactor defaultCap = .ok (iterSpec F 0 data.length, false, 0) :=
  C07_stream_spec P _hP hne sk hsk data sched hs none minFactor defaultCap
    (hcap_factor _ minFactor defaultCap hf)

theorem C07_stream_spec_spare (P : List (List α)) (_hP : P ≠ []) (hne : ∀ p ∈ P, p ≠ [])
    (sk : StartKind) (hsk : supportsAnch sk false) (data : List α) (sched : List Nat)
    (hs : ∀ x ∈ sched, 1 ≤ x) (sp minFactor defaultCap : Nat) :
    ∃ F : Nat → Option Mat,
      (∀ st, st ≤ data.length + 1 → IsFind .std P data st data.length false (F st)) ∧
      streamFind (ideal .std P sk false) { data := data, sched := sched } (some sp)
        minFactor defaultCap = .ok (iterSpec F 0 data.length, false, 0) :=
  C07_stream_spec P _hP hne sk hsk data sched hs (some sp) minFactor defaultCap
    (hcap_spare _ sp minFactor defaultCap)

/-! ## non-vacuity: a match split across reads, capacity `min + 1` -/

/-- the hypotheses are satisfiable -/
example : ∃ ms,
    findIter (ideal .std [[1, 2, 3], [3, 4]] .both false) none
      { hay := [0, 1, 2, 3, 4, 1, 2, 3], s := 0, e := 8, anch := false, earliest := false,
        valid := ⟨Nat.le_refl _, Nat.zero_le _⟩ } = .ok ms ∧
    streamFind (ideal .std [[1, 2, 3], [3, 4]] .both false)
      { data := [0, 1, 2, 3, 4, 1, 2, 3], sched := [2, 1, 3, 1] } (some 1) = .ok (ms, false, 0) :=
  C07_stream_eq_iter_default [[1, 2, 3], [3, 4]] (by decide) (by decide) .both (Or.inl rfl)
    [0, 1, 2, 3, 4, 1, 2, 3] [2, 1, 3, 1] (by decide) (some 1)

/-- the general theorem's `hcap` is satisfiable with non-default constants
(factor 2, default capacity 0: a 6-byte buffer for `min = 3`) -/
example : ∃ ms,
    findIter (ideal .std [[1, 2, 3], [3, 4]] .both false) none
      { hay := [0, 1, 2, 3, 4, 1, 2, 3], s := 0, e := 8, anch := false, earliest := false,
        valid := ⟨Nat.le_refl _, Nat.zero_le _⟩ } = .ok ms ∧
    streamFind (ideal .std [[1, 2, 3], [3, 4]] .both false)
      { data := [0, 1, 2, 3, 4, 1, 2, 3], sched := [2, 1, 3, 1] } none 2 0 = .ok (ms, false, 0) :=
  C07_stream_eq_iter [[1, 2, 3], [3, 4]] (by decide) (by decide) .both (Or.inl rfl)
    [0, 1, 2, 3, 4, 1, 2, 3] [2, 1, 3, 1] (by decide) none 2 0 (by decide)

/-- `hcap` is needed: with factor 1 and default capacity 0 the buffer has no
room beyond `min` and the hypothesis is false -/
example :
    ¬ ((Buffer.new (α := Nat) (ideal .std [[1, 2, 3], [3, 4]] .both false).maxLen none 1 0).min <
      (Buffer.new (α := Nat) (ideal .std [[1, 2, 3], [3, 4]] .both false).maxLen none 1 0).cap) := by
  decide

/-- reads of 2, 1, 3, 1, … bytes into a 4-byte buffer: `[1,2,3]` arrives in two reads -/
example : streamFind (ideal .std [[1, 2, 3], [3, 4]] .both false)
    { data := [0, 1, 2, 3, 4, 1, 2, 3], sched := [2, 1, 3, 1] } (some 1) =
    .ok ([⟨0, 1, 4⟩, ⟨0, 5, 8⟩], false, 0) := by rfl

/-- one byte per read -/
example : streamFind (ideal .std [[1, 2, 3], [3, 4]] .both false)
    { data := [0, 1, 2, 3, 4, 1, 2, 3], sched := [1, 1, 1, 1, 1, 1, 1, 1, 1, 1] } (some 1) =
    .ok ([⟨0, 1, 4⟩, ⟨0, 5, 8⟩], false, 0) := by rfl

end AcVerif
