import AcVerif.Proofs.DfaBothSim
import AcVerif.Theorems.L1c
/-!
# L1d – the transcribed DFA builder agrees with the NFA it was built from, and with the ideal automaton

`buildDfa N sk byteClasses` (`dfa::Builder::build_from_noncontiguous`: byte classes from the
`ByteClassSet` of the trie or singletons, `sparse_iter`, resolution of `FAIL` entries through
`nnfa.next_state(Anchored::No, fail, byte)`, one row per state for the start kinds `Unanchored` /
`Anchored`, interleaved unanchored / anchored rows with remap tables for `Both`) applied to the
compiled noncontiguous NFA `N = CNfa.compile k false P` is, for **every** pattern list, match
kind, start kind and both settings of `byte_classes`, observationally equivalent to `N`
(`L1d_obsEquiv_*`) and hence (with L1c) to the ideal automaton (`L1d_ideal`, `L1d_startEquiv`);
it supports exactly the anchoring modes of its start kind (`L1d_start`).  So every search result
transfers (`L1d_find`, `L1d_overlap`, `L1d_overlap_iter`, `L1d_iter`), including the error for an
unsupported anchoring mode.

Structure of the proof (`AcVerif/Proofs/Dfa*.lean`, namespace `AcVerif.L1dP`):
`classOK_marks` (two different bytes of a class are both absent from the trie),
`follow_cong_VU/VA`, `nextState_cong` (byte classes are a congruence of the NFA on live states),
`sparseIter_spec`, `row_fold`, `rowU_spec`/`rowA_spec` (a row holds `next_state`),
`remFold_spec`/`rowsFold_spec` (closed form of the remap tables and of the interleaved arrays),
`both_stepU/A`, `both_obsU/A` (simulation on the ids `fU s` / `fA s`).
-/
namespace AcVerif
open AcVerif.L1cP AcVerif.L1dP AcVerif.CNfa

variable {σ τ υ α : Type}

theorem ObsEquiv.trans {A : Aut σ α} {B : Aut τ α} {C : Aut υ α} {first anch : Bool} {a : σ}
    {b : τ} {c : υ} (h1 : ObsEquiv A B first anch a b) (h2 : ObsEquiv B C first anch b c) :
    ObsEquiv A C first anch a c := fun w => (h1 w).trans (h2 w)

/-! ## DFA = NFA -/

/-- start kind `Unanchored`: the DFA equals the NFA observationally (unanchored searches) -/
theorem L1d_obsEquiv_unanchored (k : MatchKind) (P : List (List UInt8)) (hasPre bc : Bool) :
    ObsEquiv ((buildDfa (CNfa.compile k false P) .unanchored bc).toAut k P hasPre)
      ((CNfa.compile k false P).toAut k P hasPre) false false CNfa.SU CNfa.SU := by
  rw [buildDfa_unanchored]
  exact buildOne_obsEquivU k P hasPre (classOK_clsOf _ bc)

/-- start kind `Anchored`: the DFA equals the NFA observationally (anchored searches) -/
theorem L1d_obsEquiv_anchored (k : MatchKind) (P : List (List UInt8)) (hasPre bc : Bool) :
    ObsEquiv ((buildDfa (CNfa.compile k false P) .anchored bc).toAut k P hasPre)
      ((CNfa.compile k false P).toAut k P hasPre) false true CNfa.SA CNfa.SA := by
  rw [buildDfa_anchored]
  exact buildOne_obsEquivA k P hasPre (classOK_clsOf _ bc)

/-- start kind `Both`: the DFA has a start state for either mode, observationally equal to the
NFA's start state of that mode -/
theorem L1d_obsEquiv_both (k : MatchKind) (P : List (List UInt8)) (hasPre bc : Bool) (anch : Bool) :
    ∃ s0, ((buildDfa (CNfa.compile k false P) .both bc).toAut k P hasPre).start anch = some s0 ∧
      ObsEquiv ((buildDfa (CNfa.compile k false P) .both bc).toAut k P hasPre)
        ((CNfa.compile k false P).toAut k P hasPre) false anch s0
        (if anch then CNfa.SA else CNfa.SU) := by
  obtain ⟨L, hFS⟩ := compile_spec k P
  rw [buildDfa_both]
  cases anch with
  | false =>
    exact ⟨2, both_startU (classOf := clsOf (CNfa.compile k false P) bc) (nc := ncOf (CNfa.compile k false P) bc) hFS, both_obsEquivU k P hasPre (classOK_clsOf _ bc)⟩
  | true =>
    exact ⟨3, both_startA (classOf := clsOf (CNfa.compile k false P) bc) (nc := ncOf (CNfa.compile k false P) bc) hFS, both_obsEquivA k P hasPre (classOK_clsOf _ bc)⟩

/-! ## the start states -/

/-- unsupported anchoring modes are rejected by the DFA exactly like the ideal automaton with that
start kind -/
theorem L1d_start (k : MatchKind) (P : List (List UInt8)) (hasPre bc : Bool) (sk : StartKind)
    (anch : Bool) :
    (((buildDfa (CNfa.compile k false P) sk bc).toAut k P hasPre).start anch).isSome ↔
      supportsAnch sk anch := by
  cases sk with
  | unanchored =>
    cases anch
    · exact ⟨fun _ => Or.inr (Or.inl ⟨rfl, rfl⟩), fun _ => rfl⟩
    · refine ⟨fun h => (by cases h), fun h => ?_⟩
      rcases h with h | ⟨_, h⟩ | ⟨h, _⟩ <;> cases h
  | anchored =>
    cases anch
    · refine ⟨fun h => (by cases h), fun h => ?_⟩
      rcases h with h | ⟨h, _⟩ | ⟨_, h⟩ <;> cases h
    · exact ⟨fun _ => Or.inr (Or.inr ⟨rfl, rfl⟩), fun _ => rfl⟩
  | both =>
    obtain ⟨s0, h0, _⟩ := L1d_obsEquiv_both k P hasPre bc anch
    rw [h0]
    exact ⟨fun _ => Or.inl rfl, fun _ => rfl⟩

theorem L1d_start_none (k : MatchKind) (P : List (List UInt8)) (hasPre bc : Bool) (sk : StartKind)
    (anch : Bool) (h : ¬ supportsAnch sk anch) :
    ((buildDfa (CNfa.compile k false P) sk bc).toAut k P hasPre).start anch = none := by
  cases hs : ((buildDfa (CNfa.compile k false P) sk bc).toAut k P hasPre).start anch with
  | none => rfl
  | some x =>
    exact absurd ((L1d_start k P hasPre bc sk anch).1 (by rw [hs]; rfl)) h

/-- a DFA never follows a failure link at search time: `next` is a table lookup, the same for both
anchoring modes -/
theorem L1d_next_ignores_anch (d : DfaM) (k : MatchKind) (P : List (List UInt8)) (hasPre a b : Bool)
    (q : Nat) (c : UInt8) :
    (d.toAut k P hasPre).next a q c = (d.toAut k P hasPre).next b q c := rfl

/-! ## DFA = ideal automaton -/

/-- the start kind of the ideal automaton only matters for `start` -/
theorem ideal_obs_run_sk (k : MatchKind) (P : List (List UInt8)) (sk : StartKind) (hasPre anch : Bool)
    (w : List UInt8) : ∀ q : St UInt8,
    (ideal k P sk hasPre).obs false ((ideal k P sk hasPre).runFrom anch q w) =
      (ideal k P .both hasPre).obs false ((ideal k P .both hasPre).runFrom anch q w) := by
  induction w with
  | nil => intro q; rfl
  | cons c w ih => intro q; exact ih (Ideal.next k (patSet k P) anch q c)

theorem ObsEquiv.ideal_sk {A : Aut σ UInt8} {k : MatchKind} {P : List (List UInt8)} {hasPre : Bool}
    {anch : Bool} {a : σ} {q : St UInt8} (sk : StartKind)
    (h : ObsEquiv A (ideal k P .both hasPre) false anch a q) :
    ObsEquiv A (ideal k P sk hasPre) false anch a q :=
  fun w => (h w).trans (ideal_obs_run_sk k P sk hasPre anch w q).symm

/-- the DFA's start state of a supported mode is observationally equivalent to the ideal start
state -/
theorem L1d_obsEquiv_ideal (k : MatchKind) (P : List (List UInt8)) (hasPre bc : Bool)
    (sk : StartKind) (anch : Bool) (h : supportsAnch sk anch) :
    ∃ s0, ((buildDfa (CNfa.compile k false P) sk bc).toAut k P hasPre).start anch = some s0 ∧
      ObsEquiv ((buildDfa (CNfa.compile k false P) sk bc).toAut k P hasPre)
        (ideal k P sk hasPre) false anch s0 (.at []) := by
  cases sk with
  | unanchored =>
    have ha : anch = false := by
      rcases h with h | ⟨_, h⟩ | ⟨h, _⟩
      · cases h
      · exact h
      · cases h
    subst ha
    exact ⟨CNfa.SU, rfl,
      ((L1d_obsEquiv_unanchored k P hasPre bc).trans (L1c_obsEquiv k P hasPre false)).ideal_sk _⟩
  | anchored =>
    have ha : anch = true := by
      rcases h with h | ⟨h, _⟩ | ⟨_, h⟩
      · cases h
      · cases h
      · exact h
    subst ha
    exact ⟨CNfa.SA, rfl,
      ((L1d_obsEquiv_anchored k P hasPre bc).trans (L1c_obsEquiv k P hasPre true)).ideal_sk _⟩
  | both =>
    obtain ⟨s0, h0, h1⟩ := L1d_obsEquiv_both k P hasPre bc anch
    exact ⟨s0, h0, h1.trans (L1c_obsEquiv k P hasPre anch)⟩

/-- `StartEquiv` with the ideal automaton of the same start kind, for **every** anchoring mode:
equivalent start states if the mode is supported, both reject it otherwise -/
theorem L1d_startEquiv (k : MatchKind) (P : List (List UInt8)) (hasPre bc : Bool) (sk : StartKind)
    (anch : Bool) :
    StartEquiv ((buildDfa (CNfa.compile k false P) sk bc).toAut k P hasPre) (ideal k P sk hasPre)
      false anch := by
  unfold StartEquiv
  by_cases h : supportsAnch sk anch
  · obtain ⟨s0, h0, h1⟩ := L1d_obsEquiv_ideal k P hasPre bc sk anch h
    have hB : (ideal k P sk hasPre).start anch = some (.at []) := by
      rcases h with h | ⟨h, h'⟩ | ⟨h, h'⟩
      · subst h; cases anch <;> rfl
      · subst h; subst h'; rfl
      · subst h; subst h'; rfl
    rw [h0, hB]
    exact h1
  · have hA := L1d_start_none k P hasPre bc sk anch h
    have hB : (ideal k P sk hasPre).start anch = none := by
      cases sk with
      | unanchored =>
        cases anch
        · exact absurd (Or.inr (Or.inl ⟨rfl, rfl⟩)) h
        · rfl
      | anchored =>
        cases anch
        · rfl
        · exact absurd (Or.inr (Or.inr ⟨rfl, rfl⟩)) h
      | both => exact absurd (Or.inl rfl) h
    rw [hA, hB]
    trivial

/-- composed with L1c: the DFA is observationally equivalent to the ideal automaton -/
theorem L1d_ideal (k : MatchKind) (P : List (List UInt8)) (hasPre bc : Bool) (sk : StartKind)
    (anch : Bool) (_h : supportsAnch sk anch) :
    StartEquiv ((buildDfa (CNfa.compile k false P) sk bc).toAut k P hasPre) (ideal k P sk hasPre)
      false anch :=
  L1d_startEquiv k P hasPre bc sk anch

/-! ## corollaries: every search result transfers (for every input: a supported anchoring mode
gives the ideal automaton's result, an unsupported one the same error) -/

theorem L1d_find (k : MatchKind) (P : List (List UInt8)) (hasPre bc : Bool) (sk : StartKind)
    (pre : Option (Prefilter UInt8)) (i : Input UInt8) :
    tryFindFwd ((buildDfa (CNfa.compile k false P) sk bc).toAut k P hasPre) pre i =
      tryFindFwd (ideal k P sk hasPre) pre i :=
  C04_find_transfer _ _ pre i rfl (fun _ => rfl)
    (C04_StartEquiv_false_true _ _ _ (L1d_startEquiv k P hasPre bc sk i.anch))

/-- the error case made explicit -/
theorem L1d_find_unsupported (k : MatchKind) (P : List (List UInt8)) (hasPre bc : Bool)
    (sk : StartKind) (pre : Option (Prefilter UInt8)) (i : Input UInt8)
    (h : ¬ supportsAnch sk i.anch) (hd : i.isDone = true) :
    tryFindFwd ((buildDfa (CNfa.compile k false P) sk bc).toAut k P hasPre) pre i =
      .error (if i.anch then .invalidInputAnchored else .invalidInputUnanchored) := by
  have hA := L1d_start_none k P hasPre bc sk i.anch h
  unfold tryFindFwd
  rw [if_pos hd, hA]

theorem L1d_iter (k : MatchKind) (P : List (List UInt8)) (hasPre bc : Bool) (sk : StartKind)
    (pre : Option (Prefilter UInt8)) (i : Input UInt8) :
    findIter ((buildDfa (CNfa.compile k false P) sk bc).toAut k P hasPre) pre i =
      findIter (ideal k P sk hasPre) pre i :=
  C04_iter_transfer _ _ pre i rfl (fun _ => rfl)
    (C04_StartEquiv_false_true _ _ _ (L1d_startEquiv k P hasPre bc sk i.anch))

theorem L1d_overlap (k : MatchKind) (P : List (List UInt8)) (hasPre bc : Bool) (sk : StartKind)
    (pre : Option (Prefilter UInt8)) (i : Input UInt8) (n : Nat) :
    ovlCalls ((buildDfa (CNfa.compile k false P) sk bc).toAut k P hasPre) pre i n OState.start =
      ovlCalls (ideal k P sk hasPre) pre i n OState.start :=
  C04_overlap_transfer ((buildDfa (CNfa.compile k false P) sk bc).toAut k P hasPre)
    (ideal k P sk hasPre) pre i rfl (fun _ => rfl) (L1d_startEquiv k P hasPre bc sk i.anch) n

theorem L1d_overlap_iter (k : MatchKind) (P : List (List UInt8)) (hasPre bc : Bool) (sk : StartKind)
    (pre : Option (Prefilter UInt8)) (i : Input UInt8) (fuel : Nat) :
    ovlIterAux ((buildDfa (CNfa.compile k false P) sk bc).toAut k P hasPre) pre i fuel OState.start =
      ovlIterAux (ideal k P sk hasPre) pre i fuel OState.start :=
  C04_overlap_iter_transfer ((buildDfa (CNfa.compile k false P) sk bc).toAut k P hasPre)
    (ideal k P sk hasPre) pre i rfl (fun _ => rfl) (L1d_startEquiv k P hasPre bc sk i.anch) fuel

/-- … and the DFA meets the specification (standard semantics, C02) -/
theorem L1d_find_std (P : List (List UInt8)) (bc : Bool) (sk : StartKind) (i : Input UInt8)
    (h : supportsAnch sk i.anch) :
    ∃ r, tryFindFwd ((buildDfa (CNfa.compile .std false P) sk bc).toAut .std P false) none i =
        .ok r ∧ IsFind .std P i.hay i.s i.e i.anch r := by
  rw [L1d_find]
  exact C02_find P sk i h

/-! ## non-vacuity: `[1, 2]`, `[2]`, start kind `Both`, byte classes on

NFA states: 4 = `1`, 5 = `12`, 6 = `2`.  Classes: `0 ↦ 0`, `1 ↦ 1`, `2 ↦ 2`, everything else `3`.
DFA ids: 0 dead, 1 fail, 2 / 3 the start states, then (unanchored, anchored) = (4, 5) for `1`,
(6, 7) for `12`, (8, 9) for `2`. -/

set_option maxRecDepth 1000000

/-- the anchored row of the node `1`: only the trie edge `2 ↦ 12` (anchored id 7), all else dead -/
example : ((buildDfa (CNfa.compile .std false [[1, 2], [2]]) .both true).rows.getD 5 #[]).toList =
    [0, 0, 7, 0] := by decide

/-- the unanchored row of the node `12`: byte `1` leads to `1` (id 4) through two failure links
resolved at build time, byte `2` to `2` (id 8), everything else to the unanchored start (id 2) -/
example : ((buildDfa (CNfa.compile .std false [[1, 2], [2]]) .both true).rows.getD 6 #[]).toList =
    [2, 4, 8, 2] := by decide +kernel

/-- the start states, and the match lists of the two copies of `12` -/
example : (buildDfa (CNfa.compile .std false [[1, 2], [2]]) .both true).startU = some 2 ∧
    (buildDfa (CNfa.compile .std false [[1, 2], [2]]) .both true).startA = some 3 ∧
    (buildDfa (CNfa.compile .std false [[1, 2], [2]]) .both true).matches_.toList =
      [[], [], [], [], [], [], [0, 1], [0, 1], [1], [1]] := by decide +kernel

end AcVerif
