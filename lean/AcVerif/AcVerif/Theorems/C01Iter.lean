import AcVerif.Theorems.C01
import AcVerif.Theorems.C20
import AcVerif.Proofs.IterFacts
/-!
# C01 / C09 – the non-overlapping iterator of the leftmost kinds

`find_iter` on the ideal leftmost automaton yields exactly the specification's
iterator over THE leftmost-longest / leftmost-first answers of the restarted
searches (both anchoring modes): repeat the search from the end of the
previous match; an empty match at the previous match's end is replaced by the
search from one position later.
-/
namespace AcVerif
open AcVerif.MiscP
variable {α : Type} [DecidableEq α]

private theorem start_isSome (k : MatchKind) (P : List (List α)) (sk : StartKind) (anch : Bool)
    (h : supportsAnch sk anch) : ((ideal k P sk false).start anch).isSome = true := by
  obtain ⟨q, hq⟩ := (C20_start_kind k P sk false anch).2 h
  rw [hq]; rfl

theorem C01_iter_ll (P : List (List α)) (sk : StartKind) (i : Input α)
    (he : i.earliest = false) (h : supportsAnch sk i.anch) :
    ∃ F, (∀ st, st ≤ i.e + 1 → IsFind .ll P i.hay st i.e i.anch (F st)) ∧
      findIter (ideal .ll P sk false) none i = .ok (iterSpec F i.s i.e) :=
  findIter_spec (ideal .ll P sk false) i .ll P (start_isSome .ll P sk i.anch h)
    (fun st hst => LmP.find_ll P sk { i with s := st, valid := ⟨i.valid.1, hst⟩ } he h)

theorem C01_iter_lf (P : List (List α)) (sk : StartKind) (i : Input α)
    (he : i.earliest = false) (h : supportsAnch sk i.anch) :
    ∃ F, (∀ st, st ≤ i.e + 1 → IsFind .lf P i.hay st i.e i.anch (F st)) ∧
      findIter (ideal .lf P sk false) none i = .ok (iterSpec F i.s i.e) :=
  findIter_spec (ideal .lf P sk false) i .lf P (start_isSome .lf P sk i.anch h)
    (fun st hst => LmP.find_lf P sk { i with s := st, valid := ⟨i.valid.1, hst⟩ } he h)

/-- the yielded list: occurrences inside the span, strictly increasing ends, non-overlapping -/
theorem C01_iter_props (k : MatchKind) (hk : k = .ll ∨ k = .lf) (P : List (List α))
    (sk : StartKind) (i : Input α) (he : i.earliest = false) (h : supportsAnch sk i.anch) :
    ∃ l, findIter (ideal k P sk false) none i = .ok l ∧
      (∀ m ∈ l, IsOcc P i.hay i.s i.e m) ∧
      l.Pairwise (fun a b => a.stop < b.stop) ∧
      l.Pairwise (fun a b => a.stop ≤ b.start) := by
  rcases hk with rfl | rfl
  · obtain ⟨F, hF, hl⟩ := C01_iter_ll P sk i he h
    exact ⟨_, hl, fun m hm => (iter_occ hF i.valid.2 m hm).1, iter_sorted hF i.valid.2,
      iter_nonoverlap hF i.valid.2⟩
  · obtain ⟨F, hF, hl⟩ := C01_iter_lf P sk i he h
    exact ⟨_, hl, fun m hm => (iter_occ hF i.valid.2 m hm).1, iter_sorted hF i.valid.2,
      iter_nonoverlap hF i.valid.2⟩

end AcVerif
