import AcVerif.Proofs.AlphabetCompile
import AcVerif.Proofs.DfaBase
import AcVerif.BuildChecked
/-!
# L1-alphabet – the byte classes of `util/alphabet.rs` are the abstract `classOfMarks ∘ marksOf`

`DfaModel.lean` describes byte classes abstractly: `trieBytes N` (the bytes `build_trie` inserts),
`marksOf` (boundary marks `b - 1` and `b`), `classOfMarks marks b` (the number of marks below
`b`); `buildDfa`, `buildContig`, `denseRows`, `buildDfaIds` use them.  `AcVerif/Alphabet.lean`
transcribes the code that really computes the classes (`ByteSet` on `[u128; 2]`, `ByteClassSet`,
the `byte_classes()` loop with its two `unwrap`s, `ByteClasses`) and the one caller of `set_range`
(`build_trie`).  For **all** inputs:

* `contains_add`, `contains_empty`: the bit arithmetic (`byte / 128`, `byte % 128`, `1 << bit`,
  `|=`, `& … > 0`) implements a set of bytes; `bucket_in_bounds`, `bit_in_word`: the array index
  is 0 or 1 and the shift stays below 128;
* `setRange_spec`, `setRange_marks`, `setRange_marks_perm`: `set_range(start, end)` adds exactly
  `end` and (if `start > 0`) `start - 1`; after `set_range(b, b)` for every `b` of a list – in any
  order – the set is `marksOf` of the list;
* `byteClasses_eq`: for a set that is `marks`, `byte_classes()` returns (no `unwrap` fires, the
  loop ends within 256 rounds), `get b = classOfMarks marks b`, class 0 at byte 0, monotone,
  consecutive (a step of exactly one at a mark, none otherwise), and
  `alphabet_len = classOfMarks marks 255 + 1 ≤ 256`;
* `stride2_spec`: `stride2()` (through `next_power_of_two` / `leading_zeros` / `trailing_zeros`)
  does not overflow, `alphabet_len ≤ 2^stride2`, `stride2` is minimal, `stride = 2^stride2`, and
  it is `stride2Of` of `DfaIds.lean`;
* `singletons_get`: `ByteClasses::singletons()` is the identity with `alphabet_len = 256`,
  `stride2 = 8` (the `classOf`/`alphabetLen` that the models use when `byte_classes = false`);
* `L1Alphabet_trie`: for every match kind, both settings of `ascii_case_insensitive` and every
  pattern list, `build_trie` instrumented with its byte set builds the trie of `CNfa.buildTrie`,
  the byte set holds exactly `marksOf (trieBytes N)` for `N = CNfa.compile k fold P`, and
  `self.nfa.byte_classes = self.byteset.byte_classes()` is exactly the `classOf` /
  `alphabetLen` / `stride2Of` that `buildDfa`, `buildContig`, `denseRows` and `buildDfaIds` use.
  This holds although under leftmost-first a skipped pattern still marks the bytes walked before
  the skip: those are edges already (`addPatternBS_fresh`).
* `seeded_*`: the seeded variant `if start > 1` of `set_range` loses the mark 0 of byte 1, so
  0x00 and 0x01 share a class when only 0x01 is inserted (the real code separates them) – the
  universal `setRange_marks` fails for it, not just an instance.
-/
namespace AcVerif
open AcVerif.CNfa AcVerif.Alphabet AcVerif.AlphaP

/-! ## `ByteSet` -/

/-- `add` inserts exactly the given byte -/
theorem contains_add (s : ByteSet) (b c : UInt8) :
    (s.add b).contains c = true ↔ c = b ∨ s.contains c = true :=
  AlphaP.contains_add s b c

theorem contains_empty (c : UInt8) : ByteSet.empty.contains c = false :=
  AlphaP.contains_empty c

/-- `self.bits.0[usize::from(byte / 128)]` is in bounds -/
theorem bucket_in_bounds (b : UInt8) : (b / 128).toNat < 2 := bucket_lt_two b

/-- `1 << (byte % 128)` does not overflow the `u128` -/
theorem bit_in_word (b : UInt8) : (b % 128).toNat < 128 := bit_lt b

/-! ## `ByteClassSet::set_range` -/

theorem setRange_spec (s : ByteClassSet) (start end_ m : UInt8) :
    (s.setRange start end_).set.contains m = true ↔
      s.set.contains m = true ∨ m = end_ ∨ (0 < start ∧ m = start - 1) :=
  contains_setRange_gen s start end_ m

/-- after `set_range(b, b)` for every `b` of `bytes` the set is `marksOf bytes` -/
theorem setRange_marks (bytes : List UInt8) (m : UInt8) :
    (ByteClassSet.empty.feed bytes).set.contains m = true ↔ m ∈ marksOf bytes := by
  rw [contains_feed]
  have : ByteClassSet.empty.set.contains m = false := AlphaP.contains_empty m
  rw [this]; simp

/-- … in any order -/
theorem setRange_marks_perm {bytes bytes' : List UInt8} (h : bytes.Perm bytes') (m : UInt8) :
    (ByteClassSet.empty.feed bytes').set.contains m = true ↔ m ∈ marksOf bytes := by
  rw [setRange_marks, mem_marksOf, mem_marksOf]
  constructor
  · rintro ⟨c, hc, hm⟩; exact ⟨c, h.mem_iff.2 hc, hm⟩
  · rintro ⟨c, hc, hm⟩; exact ⟨c, h.mem_iff.1 hc, hm⟩

/-! ## `ByteClassSet::byte_classes` -/

/-- the transcribed loop computes `classOfMarks`; none of the `unwrap`s fires -/
theorem byteClasses_eq (s : ByteClassSet) (marks : List UInt8)
    (h : ∀ m, s.set.contains m = true ↔ m ∈ marks) :
    ∃ bc, s.byteClasses = some bc ∧
      (∀ b, (bc.get b).toNat = classOfMarks marks b) ∧
      bc.get 0 = 0 ∧
      (∀ b b', b ≤ b' → bc.get b ≤ bc.get b') ∧
      (∀ b, b < 255 → (bc.get (b + 1)).toNat = (bc.get b).toNat + if b ∈ marks then 1 else 0) ∧
      (∀ b, b < 255 → (bc.get (b + 1)).toNat ≤ (bc.get b).toNat + 1) ∧
      bc.alphabetLen = classOfMarks marks 255 + 1 ∧ bc.alphabetLen ≤ 256 := by
  obtain ⟨bc, hbc, _, hget⟩ := byteClasses_spec s marks h
  have hstep : ∀ b : UInt8, b < 255 →
      (bc.get (b + 1)).toNat = (bc.get b).toNat + if b ∈ marks then 1 else 0 := by
    intro b hb
    have hb' : b.toNat < 255 := UInt8.lt_iff_toNat_lt.1 hb
    rw [hget, hget, classOfMarks_eq_cnt, classOfMarks_eq_cnt, toNat_succ b (by omega), cnt_succ]
    have e : b.toNat.toUInt8 = b := by simp
    simp only [e, List.contains_iff_mem]
  refine ⟨bc, hbc, hget, ?_, ?_, hstep, ?_, ?_, ?_⟩
  · apply UInt8.toNat_inj.1
    rw [hget]; rfl
  · intro b b' hbb
    rw [UInt8.le_iff_toNat_le, hget, hget]
    exact L1dP.classOfMarks_mono marks (UInt8.le_iff_toNat_le.1 hbb)
  · intro b hb
    rw [hstep b hb]
    split <;> omega
  · unfold ByteClasses.alphabetLen; rw [hget]
  · unfold ByteClasses.alphabetLen
    have := (bc.get 255).toNat_lt
    omega

/-! ## `ByteClasses::stride2` -/

theorem stride2_table : ∀ a, a < 257 → 1 ≤ a →
    (nextPowerOfTwo a).map trailingZeros64 = some (stride2Of a) ∧ a ≤ 2 ^ stride2Of a ∧
      (stride2Of a = 0 ∨ 2 ^ (stride2Of a - 1) < a) := by
  decide +kernel

/-- `stride2()` is the least exponent `s` with `alphabet_len ≤ 2^s`, i.e. `stride2Of` -/
theorem stride2_spec (bc : ByteClasses) :
    ∃ s, bc.stride2 = some s ∧ s = stride2Of bc.alphabetLen ∧ bc.alphabetLen ≤ 2 ^ s ∧
      (s = 0 ∨ 2 ^ (s - 1) < bc.alphabetLen) ∧ bc.stride = some (2 ^ s) := by
  have h1 : bc.alphabetLen < 257 := by
    unfold ByteClasses.alphabetLen
    have := (bc.get 255).toNat_lt
    omega
  have h2 : 1 ≤ bc.alphabetLen := by unfold ByteClasses.alphabetLen; omega
  obtain ⟨t1, t2, t3⟩ := stride2_table bc.alphabetLen h1 h2
  refine ⟨stride2Of bc.alphabetLen, t1, rfl, t2, t3, ?_⟩
  unfold ByteClasses.stride
  have : bc.stride2 = some (stride2Of bc.alphabetLen) := t1
  rw [this, Option.map_some, Nat.one_shiftLeft]

/-! ## `ByteClasses::singletons` -/

theorem singletons_prefix : ∀ n, n ≤ 256 →
    ((List.range n).foldl (fun (classes : ByteClasses) b => classes.set b.toUInt8 b.toUInt8)
        ByteClasses.empty).arr.size = 256 ∧
    ∀ j, j < n →
      ((List.range n).foldl (fun (classes : ByteClasses) b => classes.set b.toUInt8 b.toUInt8)
        ByteClasses.empty).arr.getD j 0 = j.toUInt8 := by
  intro n
  induction n with
  | zero => intro _; exact ⟨size_empty, fun j hj => by omega⟩
  | succ n ih =>
    intro hn
    obtain ⟨h1, h2⟩ := ih (by omega)
    rw [List.range_succ, List.foldl_append]
    simp only [List.foldl_cons, List.foldl_nil]
    refine ⟨by rw [size_set]; exact h1, ?_⟩
    intro j hj
    rw [getD_set _ _ _ h1]
    have hn' : n.toUInt8.toNat = n := by
      simp only [Nat.toUInt8, UInt8.toNat_ofNat']
      exact Nat.mod_eq_of_lt (by omega)
    rw [hn']
    by_cases e : j = n
    · rw [if_pos e, e]
    · rw [if_neg e]; exact h2 j (by omega)

/-- `singletons()` maps every byte to itself -/
theorem singletons_get :
    (∀ b, ByteClasses.singletons.get b = b) ∧ ByteClasses.singletons.alphabetLen = 256 ∧
      ByteClasses.singletons.stride2 = some 8 ∧ ByteClasses.singletons.isSingleton = true := by
  have hg : ∀ b, ByteClasses.singletons.get b = b := by
    intro b
    unfold ByteClasses.get ByteClasses.singletons
    rw [(singletons_prefix 256 (Nat.le_refl _)).2 b.toNat b.toNat_lt]
    simp
  have ha : ByteClasses.singletons.alphabetLen = 256 := by
    unfold ByteClasses.alphabetLen; rw [hg]; rfl
  refine ⟨hg, ha, ?_, ?_⟩
  · unfold ByteClasses.stride2; rw [ha]; decide +kernel
  · unfold ByteClasses.isSingleton; rw [ha]; rfl

/-! ## the composed statement -/

/-- The byte classes that the crate computes for the noncontiguous NFA are the `classOf` of the
models.  `buildTrieBS` is `build_trie` carrying `self.byteset`; `nfaByteClasses` is
`self.byteset.byte_classes()` right after it. -/
theorem L1Alphabet_trie (k : MatchKind) (fold : Bool) (P : List (List UInt8)) :
    let N := CNfa.compile k fold P
    let marks := marksOf (trieBytes N)
    (buildTrieBS k fold P).1 = CNfa.buildTrie k fold P ∧
    (∀ m, (buildTrieBS k fold P).2.set.contains m = true ↔ m ∈ marks) ∧
    ∃ bc, nfaByteClasses k fold P = some bc ∧
      (∀ b, (bc.get b).toNat = classOfMarks marks b) ∧
      bc.alphabetLen = classOfMarks marks 255 + 1 ∧
      bc.stride2 = some (stride2Of (classOfMarks marks 255 + 1)) := by
  intro N marks
  have hm := byteset_marks k fold P
  obtain ⟨bc, h1, h2, _, _, _, _, h3, _⟩ := byteClasses_eq (buildTrieBS k fold P).2 marks hm
  refine ⟨buildTrieBS_fst k fold P, hm, bc, h1, h2, h3, ?_⟩
  obtain ⟨s, hs1, hs2, _⟩ := stride2_spec bc
  rw [hs1, hs2, h3]

/-- the same, phrased on the models: the class map and the alphabet length of `buildDfa` /
`buildContig` / `buildDfaIds` (`byte_classes = true`) are those of the crate's `ByteClasses` -/
theorem L1Alphabet_classOf (k : MatchKind) (fold : Bool) (P : List (List UInt8)) :
    ∃ bc, nfaByteClasses k fold P = some bc ∧
      (fun b => (bc.get b).toNat) = classOfMarks (marksOf (trieBytes (CNfa.compile k fold P))) ∧
      bc.alphabetLen = nncAlphabetLen (CNfa.compile k fold P) := by
  obtain ⟨_, _, bc, h1, h2, h3, _⟩ := L1Alphabet_trie k fold P
  exact ⟨bc, h1, funext h2, h3⟩

/-! ## the seeded defect (`if start > 1`) -/

/-- with only 0x01 inserted the seeded `set_range` never marks byte 0 … -/
theorem seeded_loses_mark :
    (ByteClassSet.empty.feedSeeded [1]).set.contains 0 = false ∧
      (ByteClassSet.empty.feed [1]).set.contains 0 = true := by
  decide

/-- … so `byte_classes()` puts 0x00 and 0x01 into one class; the real code separates them -/
theorem seeded_merges :
    (ByteClassSet.empty.feedSeeded [1]).byteClasses.map (fun c => (c.get 0, c.get 1, c.get 2)) =
      some (0, 0, 1) ∧
    (ByteClassSet.empty.feed [1]).byteClasses.map (fun c => (c.get 0, c.get 1, c.get 2)) =
      some (0, 1, 2) := by
  decide +kernel

/-- hence the universal statement `setRange_marks` is false for the seeded variant -/
theorem seeded_refutes_marks :
    ¬ ∀ (bytes : List UInt8) (m : UInt8),
      (ByteClassSet.empty.feedSeeded bytes).set.contains m = true ↔ m ∈ marksOf bytes := by
  intro h
  have h1 := (h [1] 0).2 (by decide)
  rw [seeded_loses_mark.1] at h1
  exact absurd h1 (by simp)

end AcVerif

#print axioms AcVerif.contains_add
#print axioms AcVerif.contains_empty
#print axioms AcVerif.setRange_marks
#print axioms AcVerif.setRange_marks_perm
#print axioms AcVerif.byteClasses_eq
#print axioms AcVerif.stride2_spec
#print axioms AcVerif.singletons_get
#print axioms AcVerif.L1Alphabet_trie
#print axioms AcVerif.L1Alphabet_classOf
#print axioms AcVerif.seeded_loses_mark
#print axioms AcVerif.seeded_merges
#print axioms AcVerif.seeded_refutes_marks
