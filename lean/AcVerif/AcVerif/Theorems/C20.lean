import AcVerif.Ideal
import AcVerif.Proofs.Common
import AcVerif.Proofs.Meta
/-!
# C20 – metadata accessors of the searcher

For the ideal automaton of pattern list `P` (any match kind, start kind and
prefilter flag): `patterns_len`, `pattern_len(pid)`, `match_kind`,
`min_pattern_len` / `max_pattern_len` and which anchoring modes have a start
state (`start_kind`).
-/
namespace AcVerif
open AcVerif.MiscP
variable {α : Type} [DecidableEq α]

theorem C20_patterns_len (k : MatchKind) (P : List (List α)) (sk : StartKind) (hasPre : Bool) :
    (ideal k P sk hasPre).patternsLen = P.length := rfl

theorem C20_pattern_len (k : MatchKind) (P : List (List α)) (sk : StartKind) (hasPre : Bool)
    (i : Nat) : (ideal k P sk hasPre).patLen i = (P[i]?.getD []).length := by
  show (P.getD i []).length = _
  rw [List.getD_eq_getElem?_getD]

theorem C20_pattern_len' (k : MatchKind) (P : List (List α)) (sk : StartKind) (hasPre : Bool)
    (i : Nat) : (ideal k P sk hasPre).patLen i = (P.getD i []).length := rfl

/-- in particular, for a valid id it is the length of that pattern -/
theorem C20_pattern_len_valid (k : MatchKind) (P : List (List α)) (sk : StartKind)
    (hasPre : Bool) (i : Nat) (h : i < P.length) :
    (ideal k P sk hasPre).patLen i = (P[i]).length := by
  rw [C20_pattern_len k P sk hasPre i, List.getElem?_eq_getElem h]; rfl

theorem C20_kind (k : MatchKind) (P : List (List α)) (sk : StartKind) (hasPre : Bool) :
    (ideal k P sk hasPre).kind = k := rfl

/-- `min_pattern_len` / `max_pattern_len` bound every pattern length and, for a
non-empty pattern list, are attained.  (`min_pattern_len` starts at
`usize::MAX`; it is attained provided the lengths fit in a `usize`.) -/
theorem C20_min_max (k : MatchKind) (P : List (List α)) (sk : StartKind) (hasPre : Bool) :
    (∀ p ∈ P, (ideal k P sk hasPre).minLen ≤ p.length ∧
        p.length ≤ (ideal k P sk hasPre).maxLen) ∧
    (P ≠ [] → ∃ p ∈ P, p.length = (ideal k P sk hasPre).maxLen) ∧
    (P ≠ [] → (∀ p ∈ P, p.length < 2 ^ 64) →
      ∃ p ∈ P, p.length = (ideal k P sk hasPre).minLen) := by
  have hmin : (ideal k P sk hasPre).minLen =
      (P.map List.length).foldl min 18446744073709551615 := rfl
  have hmax : (ideal k P sk hasPre).maxLen = (P.map List.length).foldl max 0 := rfl
  rw [hmin, hmax]
  refine ⟨fun p hp => ⟨foldl_min_le _ _ _ (List.mem_map_of_mem hp),
    le_foldl_max _ _ _ (List.mem_map_of_mem hp)⟩, fun hne => ?_, fun hne hlt => ?_⟩
  · rcases foldl_max_mem (P.map List.length) 0 with h | h
    · cases P with
      | nil => exact absurd rfl hne
      | cons p P' =>
        refine ⟨p, List.mem_cons_self, ?_⟩
        have := le_foldl_max ((p :: P').map List.length) 0 p.length
          (List.mem_map_of_mem List.mem_cons_self)
        omega
    · obtain ⟨p, hp, hl⟩ := List.mem_map.mp h
      exact ⟨p, hp, hl⟩
  · rcases foldl_min_mem (P.map List.length) 18446744073709551615 with h | h
    · cases P with
      | nil => exact absurd rfl hne
      | cons p P' =>
        refine ⟨p, List.mem_cons_self, ?_⟩
        have h1 := foldl_min_le ((p :: P').map List.length) 18446744073709551615 p.length
          (List.mem_map_of_mem List.mem_cons_self)
        have h2 := hlt p List.mem_cons_self
        omega
    · obtain ⟨p, hp, hl⟩ := List.mem_map.mp h
      exact ⟨p, hp, hl⟩

/-- a start state exists exactly for the anchoring modes the start kind supports -/
theorem C20_start_kind (k : MatchKind) (P : List (List α)) (sk : StartKind) (hasPre : Bool)
    (anch : Bool) :
    (∃ q, (ideal k P sk hasPre).start anch = some q) ↔ supportsAnch sk anch := by
  cases sk <;> cases anch <;> simp [ideal, supportsAnch]

/-- … and it is the root -/
theorem C20_start_root (k : MatchKind) (P : List (List α)) (sk : StartKind) (hasPre : Bool)
    (anch : Bool) (h : supportsAnch sk anch) :
    (ideal k P sk hasPre).start anch = some (.at []) := by
  cases sk <;> cases anch <;> simp_all [ideal, supportsAnch]

/-! ## non-vacuity -/

example : (ideal .lf [[1, 2, 3], [4], [5, 6]] .both true).minLen = 1 ∧
    (ideal .lf [[1, 2, 3], [4], [5, 6]] .both true).maxLen = 3 := by decide

end AcVerif
