import AcVerif.Theorems.C02
import AcVerif.Proofs.IterFacts
/-!
# C02 – standard semantics, the non-overlapping iterator

`find_iter` on the ideal standard automaton (no prefilter) yields exactly the
specification's iterator `iterSpec` over *the* standard answers of the
restarted searches: repeat the search from the end of the previous match; an
empty match at the previous match's end is replaced by the search from one
position later.  Consequences (from `Proofs/IterFacts.lean`): the yielded
matches are occurrences with strictly increasing ends, each starts at or after
the end of the previous one, and the iterator's bound on the number of matches
is never reached.
-/
namespace AcVerif
open AcVerif.StdP AcVerif.MiscP
variable {α : Type} [DecidableEq α]

theorem C02_iter (P : List (List α)) (sk : StartKind) (i : Input α)
    (h : supportsAnch sk i.anch) :
    ∃ F, (∀ st, st ≤ i.e + 1 → IsFind .std P i.hay st i.e i.anch (F st)) ∧
      findIter (ideal .std P sk false) none i = .ok (iterSpec F i.s i.e) :=
  findIter_spec (ideal .std P sk false) i .std P (by rw [ideal_start P h]; rfl)
    (fun st hst => C02_find P sk { i with s := st, valid := ⟨i.valid.1, hst⟩ } h)

/-- the yielded list: occurrences, strictly increasing ends, non-overlapping -/
theorem C02_iter_props (P : List (List α)) (sk : StartKind) (i : Input α)
    (h : supportsAnch sk i.anch) :
    ∃ l, findIter (ideal .std P sk false) none i = .ok l ∧
      (∀ m ∈ l, IsOcc P i.hay i.s i.e m) ∧
      l.Pairwise (fun a b => a.stop < b.stop) ∧
      l.Pairwise (fun a b => a.stop ≤ b.start) := by
  obtain ⟨F, hF, hl⟩ := C02_iter P sk i h
  exact ⟨_, hl, fun m hm => (iter_occ hF i.valid.2 m hm).1, iter_sorted hF i.valid.2,
    iter_nonoverlap hF i.valid.2⟩

/-! ## non-vacuity -/

private def ex1 : Input Nat := ⟨[0, 1, 2, 1, 2], 0, 5, false, false, by decide⟩

example : ∃ F, (∀ st, st ≤ ex1.e + 1 → IsFind .std [[1, 2], [2]] ex1.hay st ex1.e ex1.anch (F st)) ∧
    findIter (ideal .std [[1, 2], [2]] .both false) none ex1 = .ok (iterSpec F ex1.s ex1.e) :=
  C02_iter _ _ ex1 (Or.inl rfl)

end AcVerif
