import AcVerif.Proofs.NfaIdsTop
import AcVerif.Proofs.NfaIdsDense
import AcVerif.Proofs.NfaIdsRemapper
import AcVerif.Theorems.L1c
import AcVerif.Theorems.L1cFold
import AcVerif.Theorems.L1cDense
import AcVerif.Theorems.C16All
/-!
# L1c-ids – the noncontiguous NFA *as stored* (shuffled ids, `Special` id ranges) agrees with the
compiled NFA and the ideal automaton, and never reads out of bounds

`buildNfaIds N hasPre` (`AcVerif/NfaIds.lean`) is what `noncontiguous::Compiler::compile` returns:
the states of `N = CNfa.compile k fold P` permuted by `shuffle` (`DEAD, FAIL, MATCH…, START-U,
START-A, NON-MATCH…`), every stored id (transition targets, failure links, dense rows) rewritten by
`Remapper::remap`, and the four `Special` ids; `is_special` / `is_match` / `is_dead` / `is_start`
are id comparisons, `next_state` is the `follow_transition` / failure-link loop on the stored
states.  For **every** pattern list `P`, match kind `k`, both anchoring modes, with or without
prefilter, and `M = buildNfaIds (CNfa.compile k false P) hasPre`:

* `L1cIds_run`: the run of `M` is the image of the run of `N` under the id map `pos`
  (`shufflePos`), and its start ids are the images of `SU` / `SA`;
* `L1cIds_obsEquiv`, `L1cIds_obsEquiv_ideal`, `L1cIds_startEquiv`: the start state of `M.toAut` is
  observationally equivalent (flags and *ordered* match lists after every input) to that of
  `N.toAut` and hence (L1c) to the ideal automaton `ideal k P .both hasPre`;
* `L1cIds_find`, `L1cIds_iter`, `L1cIds_overlap`, `L1cIds_overlap_iter`: every engine result
  transfers; `L1cIds_find_std`: … and meets the specification;
* `L1cIds_special_contract`: at every reachable id `q`:
  `is_special q ⇔ is_dead q ∨ is_match q ∨ (prefilter ∧ is_start q)`; the id-range test
  `is_match q` coincides with the per-state flag `states[q].matches ≠ []`; the dead state is
  absorbing in either mode;
* `L1cIds_inbounds`: at every reachable `q`: `q < states.len()`; the bounds-checked `next_state`
  (`NfaI.next?`: every `states[sid]` along the failure chain is checked, and the loop must return
  within `states.len() + 1` iterations) returns exactly what the unchecked one returns; the match
  list read is in bounds and holds pattern ids `< P.length`;
* `L1cIds_isMatch_all`, `L1cIds_isMatch_fail`: for **every** id `q < states.len()` other than
  `FAIL` – reachable or not – `is_match q ⇔ states[q].matches ≠ []`; and `is_match(FAIL)` is `true`
  although `FAIL` is no match state (the "N.B." in the crate's `is_match`; `FAIL` is never
  returned by `start_state` / `next_state`, which is part of `L1cIds_run`: `pos s ≠ FAIL`);
* `L1cIds_remapper`: the cycle-chasing loop of `Remapper::remap` (`remapperMap`), run on the
  `map` vector that `Remapper::swap` maintains (= `shuffleOrder`), yields exactly the inverse
  table `shufflePos` that `buildNfaIds` rewrites the ids with;
* `L1cIds_dense_toAut` (+ `_obsEquiv`, `_startEquiv`, `_find`): reading transitions through the
  *stored* dense rows (`buildDenseIds`: the rows of `densify`, permuted and remapped) gives the
  same automaton record, for every dense depth;
* `L1cIdsFold_*`: the same for `ascii_case_insensitive` (`CNfa.compile k true P`) against the
  specification of L1cFold (the ideal automaton of the folded patterns fed folded bytes).

The model was compared with the crate itself (`format!("{:?}", nfa)` – every state with its id,
failure link, transitions, match list and indicator – plus `next_state` in both modes on every id
and byte, the four flags, `match_pattern`, `start_state`) on 14 pattern lists × 3 match kinds ×
prefilter on/off × case folding on/off × dense depth 0/2 (336 automata): identical, up to the three
failure links described in `NfaIds.lean`.  Three of the dumps are reproduced at the end.

Structure of the proof (`AcVerif/Proofs/NfaIds*.lean`, namespace `AcVerif.L1cIdsP`):
`idStates_getD` (the state stored at `pos s` is `remapState pos N[s]`), `follow_ids`,
`nextState_ids`, `next?_ids` (the loops commute with `pos`), `NLive` (what is needed of `N`) with
`NLive.next` / `.isMatch` / `.isSpecial` / `.obs` / `.run` / `.contract`, `FC` / `NLive_of_FC`
(both `FS` and `FSf` provide it; the bound on the loop comes from the potential lemma
`CostP.step_potential`), `followD_stored`, `orbit_closes` / `remapperMap_inv`.
-/
namespace AcVerif
open AcVerif.L1cP AcVerif.L1dP AcVerif.L1eP AcVerif.L1dIdsP AcVerif.L1cIdsP AcVerif.L1cFoldP
open AcVerif.DenseP AcVerif.CNfa

/-! ## the interface to the compiled automaton -/

/-- the compiled NFA provides `NLive` on the states related to the ideal automaton -/
theorem L1cIds_live (k : MatchKind) (P : List (List UInt8)) (anch : Bool) :
    ∃ L, FS k (patSet k P) L (CNfa.compile k false P) ∧
      NLive (CNfa.compile k false P) anch (RelV L anch) := by
  obtain ⟨L, hFS⟩ := compile_spec k P
  exact ⟨L, hFS, NLive_of_FC (FC_of_FS hFS) anch⟩

theorem L1cIdsFold_live (k : MatchKind) (P : List (List UInt8)) (anch : Bool) :
    ∃ L, FSf k (patSet k (P.map (·.map foldByte))) L (CNfa.compile k true P) ∧
      NLive (CNfa.compile k true P) anch (RelV L anch) := by
  obtain ⟨L, hFS⟩ := compile_spec_f k P
  exact ⟨L, hFS, NLive_of_FC (FC_of_FSf hFS) anch⟩

/-! ## the run, as the image of the run of the compiled NFA -/

/-- the start ids are the images of the start states, and after any input the stored NFA is at
the image of the state the compiled NFA is at – which is never `FAIL` and lies inside the table -/
theorem L1cIds_run (k : MatchKind) (P : List (List UInt8)) (fold hasPre anch : Bool)
    (w : List UInt8) :
    let N := CNfa.compile k fold P
    let M := buildNfaIds N hasPre
    (M.toAut k P hasPre).start anch = some (posOf N (if anch then SA else SU)) ∧
      (M.toAut k P hasPre).runFrom anch (posOf N (if anch then SA else SU)) w =
        posOf N ((N.toAut k P hasPre).runFrom anch (if anch then SA else SU) w) ∧
      (M.toAut k P hasPre).runFrom anch (posOf N (if anch then SA else SU)) w ≠ FAIL ∧
      (M.toAut k P hasPre).runFrom anch (posOf N (if anch then SA else SU)) w < M.states.size := by
  intro N M
  have key : ∀ V, NLive N anch V → _ := fun V (hL : NLive N anch V) =>
    And.intro (hL.toAut_start hasPre k P) (hL.run hasPre k P w _ hL.start)
  have main : ∃ V, NLive N anch V := by
    cases fold
    · obtain ⟨L, _, hL⟩ := L1cIds_live k P anch; exact ⟨_, hL⟩
    · obtain ⟨L, _, hL⟩ := L1cIdsFold_live k P anch; exact ⟨_, hL⟩
  obtain ⟨V, hL⟩ := main
  obtain ⟨h0, hv, hr⟩ := key V hL
  have hr' : (M.toAut k P hasPre).runFrom anch (posOf N (if anch then SA else SU)) w =
      posOf N ((N.toAut k P hasPre).runFrom anch (if anch then SA else SU) w) := hr
  refine ⟨h0, hr', ?_, ?_⟩
  · rw [hr']
    exact posOf_ne_one hL.shuf (hL.lt _ hv) (hL.ne1 _ hv)
  · rw [hr']
    exact hL.pos_lt hasPre hv

/-! ## stored NFA = compiled NFA = ideal automaton -/

/-- the start state of the stored NFA is observationally equivalent to that of the compiled NFA -/
theorem L1cIds_obsEquiv (k : MatchKind) (P : List (List UInt8)) (hasPre anch : Bool) :
    ObsEquiv ((buildNfaIds (CNfa.compile k false P) hasPre).toAut k P hasPre)
      ((CNfa.compile k false P).toAut k P hasPre) false anch
      (if anch then (buildNfaIds (CNfa.compile k false P) hasPre).startA
        else (buildNfaIds (CNfa.compile k false P) hasPre).startU)
      (if anch then CNfa.SA else CNfa.SU) := by
  obtain ⟨L, _, hL⟩ := L1cIds_live k P anch
  exact hL.obsEquiv_start hasPre k P

theorem L1cIds_obsEquiv_ideal (k : MatchKind) (P : List (List UInt8)) (hasPre anch : Bool) :
    ObsEquiv ((buildNfaIds (CNfa.compile k false P) hasPre).toAut k P hasPre)
      (ideal k P .both hasPre) false anch
      (if anch then (buildNfaIds (CNfa.compile k false P) hasPre).startA
        else (buildNfaIds (CNfa.compile k false P) hasPre).startU) (.at []) :=
  fun w => (L1cIds_obsEquiv k P hasPre anch w).trans (L1c_obsEquiv k P hasPre anch w)

/-- hence `StartEquiv` with the ideal automaton, for both anchoring modes -/
theorem L1cIds_startEquiv (k : MatchKind) (P : List (List UInt8)) (hasPre anch : Bool) :
    StartEquiv ((buildNfaIds (CNfa.compile k false P) hasPre).toAut k P hasPre)
      (ideal k P .both hasPre) false anch := by
  have h := L1cIds_obsEquiv_ideal k P hasPre anch
  unfold StartEquiv
  have hA : ((buildNfaIds (CNfa.compile k false P) hasPre).toAut k P hasPre).start anch =
      some (if anch then (buildNfaIds (CNfa.compile k false P) hasPre).startA
        else (buildNfaIds (CNfa.compile k false P) hasPre).startU) := rfl
  have hB : (ideal k P .both hasPre).start anch = some (.at []) := by cases anch <;> rfl
  rw [hA, hB]
  exact h

/-! ## corollaries: every search result transfers -/

theorem L1cIds_find (k : MatchKind) (P : List (List UInt8)) (hasPre : Bool)
    (pre : Option (Prefilter UInt8)) (i : Input UInt8) :
    tryFindFwd ((buildNfaIds (CNfa.compile k false P) hasPre).toAut k P hasPre) pre i =
      tryFindFwd (ideal k P .both hasPre) pre i :=
  C04_find_transfer _ _ pre i rfl (fun _ => rfl)
    (C04_StartEquiv_false_true _ _ _ (L1cIds_startEquiv k P hasPre i.anch))

theorem L1cIds_iter (k : MatchKind) (P : List (List UInt8)) (hasPre : Bool)
    (pre : Option (Prefilter UInt8)) (i : Input UInt8) :
    findIter ((buildNfaIds (CNfa.compile k false P) hasPre).toAut k P hasPre) pre i =
      findIter (ideal k P .both hasPre) pre i :=
  C04_iter_transfer _ _ pre i rfl (fun _ => rfl)
    (C04_StartEquiv_false_true _ _ _ (L1cIds_startEquiv k P hasPre i.anch))

theorem L1cIds_overlap (k : MatchKind) (P : List (List UInt8)) (hasPre : Bool)
    (pre : Option (Prefilter UInt8)) (i : Input UInt8) (n : Nat) :
    ovlCalls ((buildNfaIds (CNfa.compile k false P) hasPre).toAut k P hasPre) pre i n
        OState.start =
      ovlCalls (ideal k P .both hasPre) pre i n OState.start :=
  C04_overlap_transfer ((buildNfaIds (CNfa.compile k false P) hasPre).toAut k P hasPre)
    (ideal k P .both hasPre) pre i rfl (fun _ => rfl) (L1cIds_startEquiv k P hasPre i.anch) n

theorem L1cIds_overlap_iter (k : MatchKind) (P : List (List UInt8)) (hasPre : Bool)
    (pre : Option (Prefilter UInt8)) (i : Input UInt8) (fuel : Nat) :
    ovlIterAux ((buildNfaIds (CNfa.compile k false P) hasPre).toAut k P hasPre) pre i fuel
        OState.start =
      ovlIterAux (ideal k P .both hasPre) pre i fuel OState.start :=
  C04_overlap_iter_transfer ((buildNfaIds (CNfa.compile k false P) hasPre).toAut k P hasPre)
    (ideal k P .both hasPre) pre i rfl (fun _ => rfl) (L1cIds_startEquiv k P hasPre i.anch) fuel

/-- … and the stored NFA meets the specification (standard semantics, C02) -/
theorem L1cIds_find_std (P : List (List UInt8)) (i : Input UInt8) :
    ∃ r, tryFindFwd ((buildNfaIds (CNfa.compile .std false P) false).toAut .std P false) none i =
        .ok r ∧ IsFind .std P i.hay i.s i.e i.anch r := by
  rw [L1cIds_find]
  exact C02_find P .both i (Or.inl rfl)

/-! ## the `is_special` contract -/

/-- at every id reachable from a start state: `is_special` holds exactly for the dead state, the
match states and (with a prefilter) the start states; the id-range test `is_match` is the
per-state flag; every transition of the dead state leads to the dead state, in either mode -/
theorem L1cIds_special_contract (k : MatchKind) (P : List (List UInt8)) (hasPre anch : Bool)
    (s0 : Nat)
    (hs : ((buildNfaIds (CNfa.compile k false P) hasPre).toAut k P hasPre).start anch = some s0)
    (w : List UInt8) :
    let M := buildNfaIds (CNfa.compile k false P) hasPre
    let q := (M.toAut k P hasPre).runFrom anch s0 w
    (M.isSpecial q = true ↔
        (M.isDead q = true ∨ M.isMatch q = true ∨ (hasPre = true ∧ M.isStart q = true))) ∧
      (M.isMatch q = true ↔ (M.states.getD q {}).matches_ ≠ []) ∧
      (M.isDead q = true → ∀ a b, M.next a (M.states.size + 1) q b = 0) := by
  obtain ⟨L, _, hL⟩ := L1cIds_live k P anch
  exact hL.special_contract hasPre k P s0 hs w

/-! ## every read is in bounds -/

/-- at every id `q` reachable from a start state: `q` indexes `states`; for every byte the
bounds-checked `next_state` returns what the unchecked one returns (no `states[·]` read along the
failure chain is out of range, and the loop returns within `states.len() + 1` iterations); the
match-list read is in bounds and yields valid pattern ids -/
theorem L1cIds_inbounds (k : MatchKind) (P : List (List UInt8)) (hasPre anch : Bool) (s0 : Nat)
    (hs : ((buildNfaIds (CNfa.compile k false P) hasPre).toAut k P hasPre).start anch = some s0)
    (w : List UInt8) :
    let M := buildNfaIds (CNfa.compile k false P) hasPre
    let q := (M.toAut k P hasPre).runFrom anch s0 w
    q < M.states.size ∧
      (∀ b, M.next? anch (M.states.size + 1) q b = some (M.next anch (M.states.size + 1) q b)) ∧
      M.matchList? q = some (M.matchList q) ∧ ∀ p ∈ M.matchList q, p < P.length := by
  obtain ⟨L, hFS, hL⟩ := L1cIds_live k P anch
  refine hL.inbounds hasPre k P ?_ s0 hs w
  rintro s ⟨q, hr⟩ p hp
  rw [Rel_mats hFS hr] at hp
  exact mem_out_lt hp

/-! ## all ids, reachable or not -/

/-- for every id of the table other than `FAIL`, `is_match` (an id comparison) is the per-state
flag -/
theorem L1cIds_isMatch_all (k : MatchKind) (P : List (List UInt8)) (fold hasPre : Bool) (q : Nat)
    (hq : q < (buildNfaIds (CNfa.compile k fold P) hasPre).states.size) (h1 : q ≠ CNfa.FAIL) :
    (buildNfaIds (CNfa.compile k fold P) hasPre).isMatch q = true ↔
      ((buildNfaIds (CNfa.compile k fold P) hasPre).states.getD q {}).matches_ ≠ [] := by
  cases fold
  · obtain ⟨L, _, hL⟩ := L1cIds_live k P false
    exact isMatch_all hL.shuf hL.mm hL.dead_mats hasPre hq h1
  · obtain ⟨L, _, hL⟩ := L1cIdsFold_live k P false
    exact isMatch_all hL.shuf hL.mm hL.dead_mats hasPre hq h1

/-- … whereas `is_match(FAIL)` is `true`: `max_match_id ≥ 1` always (it *is* `1 = FAIL` when no
pattern is given).  Harmless: `FAIL` is never reached (`L1cIds_run`). -/
theorem L1cIds_isMatch_fail (k : MatchKind) (P : List (List UInt8)) (fold hasPre : Bool) :
    (buildNfaIds (CNfa.compile k fold P) hasPre).isMatch CNfa.FAIL = true := by
  cases fold
  · obtain ⟨L, _, hL⟩ := L1cIds_live k P false
    exact isMatch_fail hL.shuf hasPre
  · obtain ⟨L, _, hL⟩ := L1cIdsFold_live k P false
    exact isMatch_fail hL.shuf hasPre

/-! ## `Remapper::remap` -/

/-- the cycle-chasing loop of `Remapper::remap`, run on the swapped `map` vector, computes the
inverse table through which `buildNfaIds` rewrites every stored id -/
theorem L1cIds_remapper (k : MatchKind) (P : List (List UInt8)) (fold : Bool) :
    remapperMap (shuffleOrder (CNfa.compile k fold P)).1 =
      shufflePos (CNfa.compile k fold P) (shuffleOrder (CNfa.compile k fold P)).1 := by
  cases fold
  · obtain ⟨L, _, hL⟩ := L1cIds_live k P false
    exact remapperMap_shuffle hL.four
  · obtain ⟨L, _, hL⟩ := L1cIdsFold_live k P false
    exact remapperMap_shuffle hL.four

/-! ## the stored dense rows -/

/-- the record that reads transitions through the stored dense rows is the record that scans the
stored sparse lists, for every dense depth -/
theorem L1cIds_dense_toAut (k : MatchKind) (P : List (List UInt8)) (dd : Nat) (hasPre : Bool) :
    (buildNfaIds (CNfa.compile k false P) hasPre).toAutD (nClass (CNfa.compile k false P))
        (buildDenseIds (CNfa.compile k false P) dd) k P hasPre =
      (buildNfaIds (CNfa.compile k false P) hasPre).toAut k P hasPre := by
  obtain ⟨L, _, hL⟩ := L1cIds_live k P false
  exact toAutD_stored hL.shuf hasPre dd (L1cDense_follow k P dd) k P

/-- `follow_transition` through the stored rows agrees with the stored sparse lists at every id -/
theorem L1cIds_dense_follow (k : MatchKind) (P : List (List UInt8)) (dd : Nat) (hasPre : Bool)
    (q : Nat) (b : UInt8) :
    (buildNfaIds (CNfa.compile k false P) hasPre).followD (nClass (CNfa.compile k false P))
        (buildDenseIds (CNfa.compile k false P) dd) q b =
      CNfa.follow (buildNfaIds (CNfa.compile k false P) hasPre).states q b := by
  obtain ⟨L, _, hL⟩ := L1cIds_live k P false
  exact followD_stored hL.shuf hasPre dd (L1cDense_follow k P dd) q b

theorem L1cIds_dense_obsEquiv (k : MatchKind) (P : List (List UInt8)) (dd : Nat)
    (hasPre anch : Bool) :
    ObsEquiv ((buildNfaIds (CNfa.compile k false P) hasPre).toAutD
        (nClass (CNfa.compile k false P)) (buildDenseIds (CNfa.compile k false P) dd) k P hasPre)
      (ideal k P .both hasPre) false anch
      (if anch then (buildNfaIds (CNfa.compile k false P) hasPre).startA
        else (buildNfaIds (CNfa.compile k false P) hasPre).startU) (.at []) := by
  rw [L1cIds_dense_toAut]
  exact L1cIds_obsEquiv_ideal k P hasPre anch

theorem L1cIds_dense_startEquiv (k : MatchKind) (P : List (List UInt8)) (dd : Nat)
    (hasPre anch : Bool) :
    StartEquiv ((buildNfaIds (CNfa.compile k false P) hasPre).toAutD
        (nClass (CNfa.compile k false P)) (buildDenseIds (CNfa.compile k false P) dd) k P hasPre)
      (ideal k P .both hasPre) false anch := by
  rw [L1cIds_dense_toAut]
  exact L1cIds_startEquiv k P hasPre anch

theorem L1cIds_dense_find (k : MatchKind) (P : List (List UInt8)) (dd : Nat) (hasPre : Bool)
    (pre : Option (Prefilter UInt8)) (i : Input UInt8) :
    tryFindFwd ((buildNfaIds (CNfa.compile k false P) hasPre).toAutD
        (nClass (CNfa.compile k false P)) (buildDenseIds (CNfa.compile k false P) dd) k P hasPre)
        pre i =
      tryFindFwd (ideal k P .both hasPre) pre i := by
  rw [L1cIds_dense_toAut]
  exact L1cIds_find k P hasPre pre i

/-! ## `ascii_case_insensitive` -/

theorem L1cIdsFold_obsEquiv (k : MatchKind) (P : List (List UInt8)) (hasPre anch : Bool) :
    ObsEquiv ((buildNfaIds (CNfa.compile k true P) hasPre).toAut k P hasPre)
      ((CNfa.compile k true P).toAut k P hasPre) false anch
      (if anch then (buildNfaIds (CNfa.compile k true P) hasPre).startA
        else (buildNfaIds (CNfa.compile k true P) hasPre).startU)
      (if anch then CNfa.SA else CNfa.SU) := by
  obtain ⟨L, _, hL⟩ := L1cIdsFold_live k P anch
  exact hL.obsEquiv_start hasPre k P

theorem L1cIdsFold_obsEquiv_ideal (k : MatchKind) (P : List (List UInt8)) (hasPre anch : Bool) :
    ObsEquiv ((buildNfaIds (CNfa.compile k true P) hasPre).toAut k P hasPre)
      ((ideal k (P.map (·.map foldByte)) .both hasPre).comap foldByte) false anch
      (if anch then (buildNfaIds (CNfa.compile k true P) hasPre).startA
        else (buildNfaIds (CNfa.compile k true P) hasPre).startU) (.at []) :=
  fun w => (L1cIdsFold_obsEquiv k P hasPre anch w).trans (L1cFold_obsEquiv k P hasPre anch w)

theorem L1cIdsFold_startEquiv (k : MatchKind) (P : List (List UInt8)) (hasPre anch : Bool) :
    StartEquiv ((buildNfaIds (CNfa.compile k true P) hasPre).toAut k P hasPre)
      ((ideal k (P.map (·.map foldByte)) .both hasPre).comap foldByte) false anch := by
  have h := L1cIdsFold_obsEquiv_ideal k P hasPre anch
  unfold StartEquiv
  have hA : ((buildNfaIds (CNfa.compile k true P) hasPre).toAut k P hasPre).start anch =
      some (if anch then (buildNfaIds (CNfa.compile k true P) hasPre).startA
        else (buildNfaIds (CNfa.compile k true P) hasPre).startU) := rfl
  have hB : ((ideal k (P.map (·.map foldByte)) .both hasPre).comap foldByte).start anch =
      some (.at []) := by cases anch <;> rfl
  rw [hA, hB]
  exact h

theorem L1cIdsFold_patLen (k : MatchKind) (P : List (List UInt8)) (hasPre : Bool) (pid : Nat) :
    ((buildNfaIds (CNfa.compile k true P) hasPre).toAut k P hasPre).patLen pid =
      ((ideal k (P.map (·.map foldByte)) .both hasPre).comap foldByte).patLen pid :=
  L1cFold_patLen k P hasPre pid

theorem L1cIdsFold_kind (k : MatchKind) (P : List (List UInt8)) (hasPre : Bool) :
    ((buildNfaIds (CNfa.compile k true P) hasPre).toAut k P hasPre).kind =
      ((ideal k (P.map (·.map foldByte)) .both hasPre).comap foldByte).kind := rfl

theorem L1cIdsFold_find (k : MatchKind) (P : List (List UInt8)) (hasPre : Bool)
    (pre : Option (Prefilter UInt8)) (i : Input UInt8) :
    tryFindFwd ((buildNfaIds (CNfa.compile k true P) hasPre).toAut k P hasPre) pre i =
      tryFindFwd ((ideal k (P.map (·.map foldByte)) .both hasPre).comap foldByte) pre i :=
  C04_find_transfer _ _ pre i (L1cIdsFold_kind k P hasPre) (L1cIdsFold_patLen k P hasPre)
    (C04_StartEquiv_false_true _ _ _ (L1cIdsFold_startEquiv k P hasPre i.anch))

theorem L1cIdsFold_iter (k : MatchKind) (P : List (List UInt8)) (hasPre : Bool)
    (pre : Option (Prefilter UInt8)) (i : Input UInt8) :
    findIter ((buildNfaIds (CNfa.compile k true P) hasPre).toAut k P hasPre) pre i =
      findIter ((ideal k (P.map (·.map foldByte)) .both hasPre).comap foldByte) pre i :=
  C04_iter_transfer _ _ pre i (L1cIdsFold_kind k P hasPre) (L1cIdsFold_patLen k P hasPre)
    (C04_StartEquiv_false_true _ _ _ (L1cIdsFold_startEquiv k P hasPre i.anch))

theorem L1cIdsFold_overlap (k : MatchKind) (P : List (List UInt8)) (hasPre : Bool)
    (pre : Option (Prefilter UInt8)) (i : Input UInt8) (n : Nat) :
    ovlCalls ((buildNfaIds (CNfa.compile k true P) hasPre).toAut k P hasPre) pre i n
        OState.start =
      ovlCalls ((ideal k (P.map (·.map foldByte)) .both hasPre).comap foldByte) pre i n
        OState.start :=
  C04_overlap_transfer _ _ pre i (L1cIdsFold_kind k P hasPre) (L1cIdsFold_patLen k P hasPre)
    (L1cIdsFold_startEquiv k P hasPre i.anch) n

theorem L1cIdsFold_overlap_iter (k : MatchKind) (P : List (List UInt8)) (hasPre : Bool)
    (pre : Option (Prefilter UInt8)) (i : Input UInt8) (fuel : Nat) :
    ovlIterAux ((buildNfaIds (CNfa.compile k true P) hasPre).toAut k P hasPre) pre i fuel
        OState.start =
      ovlIterAux ((ideal k (P.map (·.map foldByte)) .both hasPre).comap foldByte) pre i fuel
        OState.start :=
  C04_overlap_iter_transfer _ _ pre i (L1cIdsFold_kind k P hasPre) (L1cIdsFold_patLen k P hasPre)
    (L1cIdsFold_startEquiv k P hasPre i.anch) fuel

theorem L1cIdsFold_special_contract (k : MatchKind) (P : List (List UInt8)) (hasPre anch : Bool)
    (s0 : Nat)
    (hs : ((buildNfaIds (CNfa.compile k true P) hasPre).toAut k P hasPre).start anch = some s0)
    (w : List UInt8) :
    let M := buildNfaIds (CNfa.compile k true P) hasPre
    let q := (M.toAut k P hasPre).runFrom anch s0 w
    (M.isSpecial q = true ↔
        (M.isDead q = true ∨ M.isMatch q = true ∨ (hasPre = true ∧ M.isStart q = true))) ∧
      (M.isMatch q = true ↔ (M.states.getD q {}).matches_ ≠ []) ∧
      (M.isDead q = true → ∀ a b, M.next a (M.states.size + 1) q b = 0) := by
  obtain ⟨L, _, hL⟩ := L1cIdsFold_live k P anch
  exact hL.special_contract hasPre k P s0 hs w

theorem L1cIdsFold_inbounds (k : MatchKind) (P : List (List UInt8)) (hasPre anch : Bool) (s0 : Nat)
    (hs : ((buildNfaIds (CNfa.compile k true P) hasPre).toAut k P hasPre).start anch = some s0)
    (w : List UInt8) :
    let M := buildNfaIds (CNfa.compile k true P) hasPre
    let q := (M.toAut k P hasPre).runFrom anch s0 w
    q < M.states.size ∧
      (∀ b, M.next? anch (M.states.size + 1) q b = some (M.next anch (M.states.size + 1) q b)) ∧
      M.matchList? q = some (M.matchList q) ∧ ∀ p ∈ M.matchList q, p < P.length := by
  obtain ⟨L, hFS, hL⟩ := L1cIdsFold_live k P anch
  refine hL.inbounds hasPre k P ?_ s0 hs w
  rintro s ⟨q, hr⟩ p hp
  rw [Rel_mats_f hFS hr] at hp
  have := mem_out_lt hp
  rwa [List.length_map] at this

/-! ## non-vacuity: three automata as the crate builds them

(the values below were read off `format!("{:?}", nfa)` and the `Automaton` methods of the NFA built
by the crate itself) -/

set_option maxRecDepth 1000000

/-- `"a"`, `"ab"`, `"b"`, standard semantics, no prefilter.  Pre-shuffle: 4 = `a`, 5 = `ab`,
6 = `b`.  Stored: 0 dead, 1 fail, 2 = `ab` (failure link 3, matches 1, 2), 3 = `b`, 4 = `a` (edge
`b → 2`), 5 unanchored start, 6 anchored start; `max_match_id = max_special_id = 4`.  (The failure
links of states 0, 1, 5 are `0` in the crate, see `NfaIds.lean`.) -/
example :
    let M := buildNfaIds (CNfa.compile .std false [[97], [97, 98], [98]]) false
    (M.states.toList.map fun s => (s.fail, s.matches_)) =
        [(5, []), (5, []), (3, [1, 2]), (5, [2]), (5, [0]), (5, []), (0, [])] ∧
      (M.states.toList.map fun s => s.trans.filter fun t => decide (97 ≤ t.1.toNat ∧ t.1.toNat ≤ 99))
        = [[(97, 0), (98, 0), (99, 0)], [], [], [], [(98, 2)], [(97, 4), (98, 3), (99, 5)],
            [(97, 4), (98, 3), (99, 1)]] ∧
      (M.maxSpecialId, M.maxMatchId, M.startU, M.startA) = (4, 4, 5, 6) ∧
      -- a search: after `a b` the NFA is at id 2 (`ab`), a match state listing patterns 1 and 2;
      -- from there `a` follows two failure links (2 → 3 → 5) and takes the start state's edge
      (M.toAut .std [[97], [97, 98], [98]] false).runFrom false 5 [97, 98] = 2 ∧
      M.nextState false 8 2 97 0 = (4, 2) ∧ M.next? false 8 2 97 = some 4 ∧
      M.isMatch 2 = true ∧ M.isSpecial 2 = true ∧ M.isSpecial 5 = false ∧
      M.matchList? 2 = some [1, 2] ∧ M.matchList? 7 = none ∧ M.next? false 8 7 97 = none ∧
      -- `FAIL` passes the id-range test although it has no matches
      M.isMatch 1 = true ∧ M.matchList 1 = [] ∧
      -- the remapper loop computes `pos`
      remapperMap (shuffleOrder (CNfa.compile .std false [[97], [97, 98], [98]])).1 =
        #[0, 1, 5, 6, 4, 2, 3] := by
  decide +kernel

/-- the same patterns with a prefilter: only `max_special_id` changes, to the anchored start id -/
example :
    let M := buildNfaIds (CNfa.compile .std false [[97], [97, 98], [98]]) true
    (M.maxSpecialId, M.maxMatchId, M.startU, M.startA) = (6, 4, 5, 6) ∧
      M.isSpecial 5 = true ∧ M.isSpecial 6 = true ∧ M.isMatch 5 = false := by
  decide +kernel

/-- `"ab"`, `""`, `"b"`, standard semantics: the start states are match states (the empty
pattern), so `max_match_id` is the anchored start id and *every* state is a match state -/
example :
    let M := buildNfaIds (CNfa.compile .std false [[97, 98], [], [98]]) false
    (M.states.toList.map fun s => (s.fail, s.matches_)) =
        [(5, []), (5, []), (3, [0, 2, 1]), (5, [2, 1]), (5, [1]), (5, [1]), (0, [1])] ∧
      (M.maxSpecialId, M.maxMatchId, M.startU, M.startA) = (6, 6, 5, 6) ∧
      M.isMatch 5 = true ∧ M.isStart 5 = true := by
  decide +kernel

/-- no patterns at all: nothing is moved, `max_match_id = max_special_id = 1 = FAIL` -/
example :
    let M := buildNfaIds (CNfa.compile .std false []) false
    (M.states.size, M.maxSpecialId, M.maxMatchId, M.startU, M.startA) = (4, 1, 1, 2, 3) ∧
      M.isSpecial 2 = false ∧ M.isMatch 1 = true := by
  decide +kernel

/-- `""`, `"a"`, leftmost-first: `"a"` is never added to the trie; both start states are match
states and, after `close_start_state_loop_for_leftmost`, the unanchored one leads to `DEAD` -/
example :
    let M := buildNfaIds (CNfa.compile .lf false [[], [97]]) false
    (M.states.toList.map fun s => (s.fail, s.matches_)) = [(2, []), (2, []), (2, [0]), (0, [0])] ∧
      (M.maxSpecialId, M.maxMatchId, M.startU, M.startA) = (3, 3, 2, 3) ∧
      M.next false 5 2 97 = 0 ∧ M.next true 5 3 97 = 0 := by
  decide +kernel

/-- the stored dense rows of the first automaton at dense depth 1 (classes: below `a`, `a`, `b`,
above `b`): the rows of the start states and of the depth-0 nodes `a` (id 4), `b` (id 3), remapped.
(The crate does not print its rows; in the comparison they were exercised through `next_state`,
dense depth 2, on every id and byte.) -/
example :
    (buildDenseIds (CNfa.compile .std false [[97], [97, 98], [98]]) 1).toList =
      [none, none, none, some #[1, 1, 1, 1], some #[1, 1, 2, 1], some #[5, 4, 3, 5],
        some #[1, 4, 3, 1]] := by
  decide +kernel

end AcVerif
