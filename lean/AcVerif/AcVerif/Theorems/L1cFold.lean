import AcVerif.Proofs.CompilerFoldFinal
import AcVerif.Theorems.L1c
import AcVerif.Theorems.C11
import AcVerif.Theorems.C11Leftmost
/-!
# L1c (fold) – the noncontiguous-NFA compiler with `ascii_case_insensitive(true)`

`CNfa.compile k true P` inserts the patterns AS GIVEN, doubling every new trie edge on `b` by an
edge on `oppositeAsciiCase b` to the same node, and runs the failure phase with its `seen` set.
For **every** pattern list `P`, match kind `k` and both anchoring modes the result, run by
`CNfa.nextState` on the RAW input bytes, is observationally equivalent to the specification of the
case-insensitive searcher (C11): the ideal automaton of the FOLDED patterns fed FOLDED bytes,
`(ideal k (P.map (·.map foldByte)) .both hasPre).comap foldByte` – equal flags and equal *ordered*
match lists after every byte string (`L1cFold_obsEquiv`, `L1cFold_startEquiv`), and `next_state`
follows exactly `Ideal.hops` failure links (`L1cFold_hops`, `L1cFold_next`).  Hence every engine
result transfers (`L1cFold_find`, `L1cFold_iter`, `L1cFold_overlap`, `L1cFold_overlap_iter`) and
the compiled automaton meets the specification read on folded patterns and folded haystack
(`L1cFold_find_std`, `L1cFold_find_ll`, `L1cFold_find_lf`, `L1cFold_overlap_calls`).

Structure of the proof (`AcVerif/Proofs/CompilerFold*.lean`, namespace `AcVerif.L1cFoldP`): the
nodes are named by the folded strings (`nu`/`sidOf` of the `fold = false` development);
`buildTrie_fold_spec` (trie invariant `TIf`: the edge to `u ++ [foldByte b]` is taken on `b`, match
list of a node = ids of the kept patterns whose FOLD is the node's string, leftmost-first skipping
= `keepLF` of the folded patterns), `PBf_startPhase`, `fillFailure_spec_f` (the data invariant `FI`
and the queue invariants `QI`/`QI'` of the `fold = false` proof are re-used unchanged; the `seen`
set is characterised by `SeenI`: it holds exactly the ids of the nodes already enqueued, so the
second edge to a child is skipped – the queue ORDER may differ from the one of the folded trie, the
specification-level invariants do not depend on it), `compile_spec_f` (final specification `FSf`),
`run_step_f`/`Rel_step_f`/`Rel_mats_f` (simulation, relation `L1cP.Rel`).
-/
namespace AcVerif
open AcVerif.L1cP AcVerif.L1cFoldP AcVerif.CNfa

/-- pattern lengths agree (folding keeps lengths), as the engine transfer theorems require -/
theorem L1cFold_patLen (k : MatchKind) (P : List (List UInt8)) (hasPre : Bool) (pid : Nat) :
    ((CNfa.compile k true P).toAut k P hasPre).patLen pid =
      ((ideal k (P.map (·.map foldByte)) .both hasPre).comap foldByte).patLen pid :=
  (C11_ids P pid).2.symm

theorem L1cFold_kind (k : MatchKind) (P : List (List UInt8)) (hasPre : Bool) :
    ((CNfa.compile k true P).toAut k P hasPre).kind =
      ((ideal k (P.map (·.map foldByte)) .both hasPre).comap foldByte).kind := rfl

/-- the final specification of the automaton compiled with `fold = true`, over the folded
patterns -/
theorem L1cFold_compile_spec (k : MatchKind) (P : List (List UInt8)) :
    ∃ L, FSf k (patSet k (P.map (·.map foldByte))) L (CNfa.compile k true P) :=
  compile_spec_f k P

set_option maxRecDepth 100000 in
/-- the simulation: related states stay related along every input (the compiled automaton reads
the raw bytes, the ideal automaton of the folded patterns reads them folded) -/
theorem L1cFold_sim (k : MatchKind) (P : List (List UInt8)) (hasPre : Bool) (anch : Bool)
    {L : List (List UInt8)}
    (hFS : FSf k (patSet k (P.map (·.map foldByte))) L (CNfa.compile k true P)) :
    ∀ (w : List UInt8) (sid : Nat) (q : St UInt8), Rel L anch sid q →
      Rel L anch (((CNfa.compile k true P).toAut k P hasPre).runFrom anch sid w)
        (((ideal k (P.map (·.map foldByte)) .both hasPre).comap foldByte).runFrom anch q w)
  | [], _, _, hr => hr
  | c :: w, _, _, hr => L1cFold_sim k P hasPre anch hFS w _ _ (Rel_step_f hFS anch hr c)

theorem L1cFold_obs_of_rel (k : MatchKind) (P : List (List UInt8)) (hasPre : Bool) (anch : Bool)
    {L : List (List UInt8)}
    (hFS : FSf k (patSet k (P.map (·.map foldByte))) L (CNfa.compile k true P))
    {sid : Nat} {q : St UInt8} (hr : Rel L anch sid q) :
    ((CNfa.compile k true P).toAut k P hasPre).obs false sid =
      ((ideal k (P.map (·.map foldByte)) .both hasPre).comap foldByte).obs false q := by
  have hm := Rel_mats_f hFS hr
  have hd := Rel_dead_iff hr
  have hs := Rel_start_iff hr
  have hq0 : q = .dead → Ideal.out k (patSet k (P.map (·.map foldByte))) q = [] := by
    intro e; subst e; cases k <;> rfl
  have hmatch : ((sid != CNfa.DEAD) &&
      !(Ideal.out k (patSet k (P.map (·.map foldByte))) q).isEmpty) =
      !(Ideal.out k (patSet k (P.map (·.map foldByte))) q).isEmpty := by
    have hne : (sid != CNfa.DEAD) = !(q == St.dead) := by
      show (!(sid == CNfa.DEAD)) = _
      rw [hd]
    rw [hne]
    cases hq : (q == St.dead)
    · simp
    · have : q = .dead := by simpa using hq
      rw [hq0 this]; simp
  show Obs.mk _ _ _ _ = Obs.mk _ _ _ _
  simp only [CNfa.toAut, ideal, Aut.comap, CNfa.isMatch, Bool.false_eq_true, if_false]
  rw [hm, hmatch, hd, hs]

/-- the automaton compiled with `fold = true` and the case-insensitive ideal automaton are
observationally equivalent from their start states: equal flags and equal ORDERED match lists
after every byte string, for both anchoring modes -/
theorem L1cFold_obsEquiv (k : MatchKind) (P : List (List UInt8)) (hasPre : Bool) (anch : Bool) :
    ObsEquiv ((CNfa.compile k true P).toAut k P hasPre)
      ((ideal k (P.map (·.map foldByte)) .both hasPre).comap foldByte) false anch
      (if anch then CNfa.SA else CNfa.SU) (.at []) := by
  obtain ⟨L, hFS⟩ := L1cFold_compile_spec k P
  intro w
  have h0 : Rel L anch (if anch then CNfa.SA else CNfa.SU) (.at []) := by
    simp only [Rel, if_true]
  exact L1cFold_obs_of_rel k P hasPre anch hFS (L1cFold_sim k P hasPre anch hFS w _ _ h0)

/-- hence `StartEquiv`, so every engine result transfers (`C04_*_transfer` apply) -/
theorem L1cFold_startEquiv (k : MatchKind) (P : List (List UInt8)) (hasPre : Bool) (anch : Bool) :
    StartEquiv ((CNfa.compile k true P).toAut k P hasPre)
      ((ideal k (P.map (·.map foldByte)) .both hasPre).comap foldByte) false anch := by
  have h := L1cFold_obsEquiv k P hasPre anch
  unfold StartEquiv
  have hA : ((CNfa.compile k true P).toAut k P hasPre).start anch =
      some (if anch then CNfa.SA else CNfa.SU) := rfl
  have hB : ((ideal k (P.map (·.map foldByte)) .both hasPre).comap foldByte).start anch =
      some (.at []) := by cases anch <;> rfl
  rw [hA, hB]
  exact h

/-- the number of failure links followed by `next_state` on the raw byte `c` equals the ideal
chain length on `foldByte c`, at every reachable state -/
theorem L1cFold_hops (k : MatchKind) (P : List (List UInt8)) (hasPre : Bool) (w : List UInt8)
    (c : UInt8) :
    (CNfa.nextState (CNfa.compile k true P) false ((CNfa.compile k true P).size + 1)
        (((CNfa.compile k true P).toAut k P hasPre).runFrom false CNfa.SU w) c 0).2 =
      Ideal.hops k (patSet k (P.map (·.map foldByte))) false
        (((ideal k (P.map (·.map foldByte)) .both hasPre).comap foldByte).runFrom false
          (.at []) w) (foldByte c) := by
  obtain ⟨L, hFS⟩ := L1cFold_compile_spec k P
  have h0 : Rel L false CNfa.SU (.at []) := by simp [Rel]
  have hr := L1cFold_sim k P hasPre false hFS w _ _ h0
  rw [step_unanch_f hFS hr c]

/-- … and the state it returns is the model's next state -/
theorem L1cFold_next (k : MatchKind) (P : List (List UInt8)) (hasPre : Bool) (w : List UInt8)
    (c : UInt8) :
    ∃ L, FSf k (patSet k (P.map (·.map foldByte))) L (CNfa.compile k true P) ∧
      (CNfa.nextState (CNfa.compile k true P) false ((CNfa.compile k true P).size + 1)
        (((CNfa.compile k true P).toAut k P hasPre).runFrom false CNfa.SU w) c 0).1 =
      sidOf L (Ideal.next k (patSet k (P.map (·.map foldByte))) false
        (((ideal k (P.map (·.map foldByte)) .both hasPre).comap foldByte).runFrom false
          (.at []) w) (foldByte c)) := by
  obtain ⟨L, hFS⟩ := L1cFold_compile_spec k P
  have h0 : Rel L false CNfa.SU (.at []) := by simp [Rel]
  have hr := L1cFold_sim k P hasPre false hFS w _ _ h0
  exact ⟨L, hFS, by rw [step_unanch_f hFS hr c]⟩

/-! ## corollaries: every search result transfers -/

theorem L1cFold_find (k : MatchKind) (P : List (List UInt8)) (hasPre : Bool)
    (pre : Option (Prefilter UInt8)) (i : Input UInt8) :
    tryFindFwd ((CNfa.compile k true P).toAut k P hasPre) pre i =
      tryFindFwd ((ideal k (P.map (·.map foldByte)) .both hasPre).comap foldByte) pre i :=
  C04_find_transfer _ _ pre i (L1cFold_kind k P hasPre) (L1cFold_patLen k P hasPre)
    (C04_StartEquiv_false_true _ _ _ (L1cFold_startEquiv k P hasPre i.anch))

theorem L1cFold_iter (k : MatchKind) (P : List (List UInt8)) (hasPre : Bool)
    (pre : Option (Prefilter UInt8)) (i : Input UInt8) :
    findIter ((CNfa.compile k true P).toAut k P hasPre) pre i =
      findIter ((ideal k (P.map (·.map foldByte)) .both hasPre).comap foldByte) pre i :=
  C04_iter_transfer _ _ pre i (L1cFold_kind k P hasPre) (L1cFold_patLen k P hasPre)
    (C04_StartEquiv_false_true _ _ _ (L1cFold_startEquiv k P hasPre i.anch))

theorem L1cFold_overlap (k : MatchKind) (P : List (List UInt8)) (hasPre : Bool)
    (pre : Option (Prefilter UInt8)) (i : Input UInt8) (n : Nat) :
    ovlCalls ((CNfa.compile k true P).toAut k P hasPre) pre i n OState.start =
      ovlCalls ((ideal k (P.map (·.map foldByte)) .both hasPre).comap foldByte) pre i n
        OState.start :=
  C04_overlap_transfer _ _ pre i
    (L1cFold_kind k P hasPre) (L1cFold_patLen k P hasPre) (L1cFold_startEquiv k P hasPre i.anch) n

theorem L1cFold_overlap_iter (k : MatchKind) (P : List (List UInt8)) (hasPre : Bool)
    (pre : Option (Prefilter UInt8)) (i : Input UInt8) (fuel : Nat) :
    ovlIterAux ((CNfa.compile k true P).toAut k P hasPre) pre i fuel OState.start =
      ovlIterAux ((ideal k (P.map (·.map foldByte)) .both hasPre).comap foldByte) pre i fuel
        OState.start :=
  C04_overlap_iter_transfer _ _ pre i
    (L1cFold_kind k P hasPre) (L1cFold_patLen k P hasPre) (L1cFold_startEquiv k P hasPre i.anch)
    fuel

/-! ## … and the compiled case-insensitive automaton meets the specification (C11): occurrences are
read on the folded patterns and the folded haystack -/

/-- standard semantics (C02 through C11) -/
theorem L1cFold_find_std (P : List (List UInt8)) (i : Input UInt8) :
    ∃ r, tryFindFwd ((CNfa.compile .std true P).toAut .std P false) none i = .ok r ∧
      IsFind .std (P.map (·.map foldByte)) (i.hay.map foldByte) i.s i.e i.anch r := by
  rw [L1cFold_find]
  exact C11_find_std P .both i (Or.inl rfl)

/-- leftmost-longest (C01 through C11), both anchoring modes -/
theorem L1cFold_find_ll (P : List (List UInt8)) (i : Input UInt8) (he : i.earliest = false) :
    ∃ r, tryFindFwd ((CNfa.compile .ll true P).toAut .ll P false) none i = .ok r ∧
      IsFind .ll (P.map (·.map foldByte)) (i.hay.map foldByte) i.s i.e i.anch r := by
  rw [L1cFold_find]
  exact C11_find_ll P .both i he (Or.inl rfl)

/-- leftmost-first (C01 through C11), both anchoring modes -/
theorem L1cFold_find_lf (P : List (List UInt8)) (i : Input UInt8) (he : i.earliest = false) :
    ∃ r, tryFindFwd ((CNfa.compile .lf true P).toAut .lf P false) none i = .ok r ∧
      IsFind .lf (P.map (·.map foldByte)) (i.hay.map foldByte) i.s i.e i.anch r := by
  rw [L1cFold_find]
  exact C11_find_lf P .both i he (Or.inl rfl)

/-- overlapping search (C03 through C11) -/
theorem L1cFold_overlap_calls (P : List (List UInt8)) (i : Input UInt8) :
    ∃ l, IsOverlapList (P.map (·.map foldByte)) (i.hay.map foldByte) i.s i.e i.anch l ∧
      ∀ n, ovlCalls ((CNfa.compile .std true P).toAut .std P false) none i n OState.start =
        (l.take n).map (fun m => Except.ok (some m)) ++
          List.replicate (n - l.length) (Except.ok none) := by
  obtain ⟨l, h1, h2⟩ := C11_overlap_std P .both i (Or.inl rfl)
  exact ⟨l, h1, fun n => by rw [L1cFold_overlap]; exact h2 n⟩

/-! ## non-vacuity: patterns `"aB"`, `"Ab"` – one shared leaf listing both ids, two edges per level
(`A`/`a` from the start state, `B`/`b` from the node `a`) -/

set_option maxRecDepth 100000

/-- six states: 4 = `a`, 5 = `ab` (names = folded strings) -/
example : (CNfa.compile .std true [[0x61, 0x42], [0x41, 0x62]]).size = 6 := by decide

/-- the start state leaves itself on `A` and `a` only, both to state 4; state 4 has exactly the
edges `B`, `b`, both to state 5; state 5 has none -/
example :
    (((CNfa.compile .std true [[0x61, 0x42], [0x41, 0x62]]).getD 2 {}).trans.filter
        (fun x => x.2 != 2)) = [(0x41, 4), (0x61, 4)] ∧
      ((CNfa.compile .std true [[0x61, 0x42], [0x41, 0x62]]).getD 4 {}).trans =
        [(0x42, 5), (0x62, 5)] ∧
      ((CNfa.compile .std true [[0x61, 0x42], [0x41, 0x62]]).getD 5 {}).trans = [] := by
  decide

/-- failure links and match lists: the shared leaf lists BOTH pattern ids -/
example : ((CNfa.compile .std true [[0x61, 0x42], [0x41, 0x62]]).toList.map
    fun s => (s.fail, s.matches_)) =
    [(2, []), (2, []), (2, []), (0, []), (2, []), (2, [0, 1])] := by decide

/-- leftmost-first with folding: `"A"` shadows `"ab"` (skipped: its fold `a` is a proper prefix),
`"Ba"` is kept -/
example : ((CNfa.compile .lf true [[0x41], [0x61, 0x62], [0x42, 0x61]]).toList.map
    fun s => (s.fail, s.matches_)) =
    [(2, []), (2, []), (2, []), (0, []), (0, [0]), (2, []), (0, [2])] := by decide

/-- run time: `"xAB"` read raw ends in the leaf; so does `"ab"` -/
example :
    ((CNfa.compile .std true [[0x61, 0x42], [0x41, 0x62]]).toAut .std
        [[0x61, 0x42], [0x41, 0x62]] false).runFrom false CNfa.SU [0x78, 0x41, 0x42] = 5 ∧
    ((CNfa.compile .std true [[0x61, 0x42], [0x41, 0x62]]).toAut .std
        [[0x61, 0x42], [0x41, 0x62]] false).runFrom false CNfa.SU [0x61, 0x62] = 5 := by decide

end AcVerif
