import AcVerif.Proofs.PreTransparent
import AcVerif.Proofs.PreSound
/-!
# C05 – prefilters are transparent

Part A (`C05_transparent`, `C05_find_*`): on the ideal automaton the search that
consults *any* sound prefilter (`PrefilterSound`) returns exactly what the
prefilter-free search returns, hence THE `IsFind` answer.

Part B (`C05_memmem_sound`, `C05_start_sound`, `C05_rare_sound`, `C05_packed_sound`,
`C05_builder_gates`, `C05_builder_sound`, `C05_builder_transparent`): every prefilter the
builder model can return is sound, for every frequency table, constant set and CPU feature
combination (the packed one relative to property C06).

Case-insensitive variants (`C05_transparent_fold`, `C05_start_sound_fold`,
`C05_rare_sound_fold`, `C05_builder_sound_fold`, `C05_builder_transparent_fold`): the automaton
reads the haystack through `foldByte`, the prefilter reads the raw haystack.
-/
namespace AcVerif
open AcVerif.PreP
variable {α : Type} [DecidableEq α]

/-- The engine with a sound prefilter equals the engine without.
`hne`: the real builder disables every prefilter when a pattern is empty.
`he`: in earliest mode on a leftmost searcher a confirming prefilter returns the normal match
instead of the earliest one (documented difference), so that case is excluded. -/
theorem C05_transparent (k : MatchKind) (P : List (List α)) (hne : ∀ p ∈ P, p ≠ [])
    (pre : Prefilter α) (hs : PrefilterSound k P pre) (sk : StartKind) (i : Input α)
    (he : k = .std ∨ i.earliest = false) (h : supportsAnch sk i.anch) :
    tryFindFwd (ideal k P sk true) (some pre) i = tryFindFwd (ideal k P sk false) none i := by
  have hs' : PrefilterSoundAt k P (pre i.hay) (i.hay.map id) := by
    rw [List.map_id]; exact hs.at i.hay
  exact transparent_comap k P hne pre sk id i hs' he h

/-- standard semantics: with a sound prefilter the engine returns THE answer -/
theorem C05_find_std (P : List (List α)) (hne : ∀ p ∈ P, p ≠ []) (pre : Prefilter α)
    (hs : PrefilterSound .std P pre) (sk : StartKind) (i : Input α)
    (h : supportsAnch sk i.anch) :
    ∃ r, tryFindFwd (ideal .std P sk true) (some pre) i = .ok r ∧
      IsFind .std P i.hay i.s i.e i.anch r := by
  obtain ⟨r, h1, h2⟩ := C02_find P sk i h
  exact ⟨r, (C05_transparent .std P hne pre hs sk i (Or.inl rfl) h).trans h1, h2⟩

/-- leftmost-longest semantics: with a sound prefilter the engine returns THE answer -/
theorem C05_find_ll (P : List (List α)) (hne : ∀ p ∈ P, p ≠ []) (pre : Prefilter α)
    (hs : PrefilterSound .ll P pre) (sk : StartKind) (i : Input α) (he : i.earliest = false)
    (h : supportsAnch sk i.anch) :
    ∃ r, tryFindFwd (ideal .ll P sk true) (some pre) i = .ok r ∧
      IsFind .ll P i.hay i.s i.e i.anch r := by
  obtain ⟨r, h1, h2⟩ := LmP.find_ll P sk i he h
  exact ⟨r, (C05_transparent .ll P hne pre hs sk i (Or.inr he) h).trans h1, h2⟩

/-- leftmost-first semantics: with a sound prefilter the engine returns THE answer -/
theorem C05_find_lf (P : List (List α)) (hne : ∀ p ∈ P, p ≠ []) (pre : Prefilter α)
    (hs : PrefilterSound .lf P pre) (sk : StartKind) (i : Input α) (he : i.earliest = false)
    (h : supportsAnch sk i.anch) :
    ∃ r, tryFindFwd (ideal .lf P sk true) (some pre) i = .ok r ∧
      IsFind .lf P i.hay i.s i.e i.anch r := by
  obtain ⟨r, h1, h2⟩ := LmP.find_lf P sk i he h
  exact ⟨r, (C05_transparent .lf P hne pre hs sk i (Or.inr he) h).trans h1, h2⟩

/-! ## Part B: the modelled prefilters are sound (case-sensitive builder)

For every frequency table `freq`, every constant set `K` and every CPU feature combination. -/

/-- `memmem`: chosen only for a single pattern; its first occurrence is the answer under all
three semantics -/
theorem C05_memmem_sound (K : Consts) (k : MatchKind) (freq : UInt8 → Nat)
    (pats : List (List UInt8)) (avx2 ssse3 : Bool) (hne : ∀ p ∈ pats, p ≠ []) (ch : PreChoice)
    (hb : buildPrefilter K k false freq pats avx2 ssse3 = some ch) (needle : List UInt8)
    (hch : ch = .memmem needle) :
    pats = [needle] ∧ PrefilterSound k pats ch.findIn := by
  subst hch
  obtain ⟨_, _, hm⟩ := build_cases hb
  have := PreBuilder.foldl_memOne K freq pats hne k false needle hm
  subst this
  exact ⟨rfl, memmem_sound k needle⟩

/-- start bytes: every pattern starts with a listed byte -/
theorem C05_start_sound (K : Consts) (k : MatchKind) (freq : UInt8 → Nat)
    (pats : List (List UInt8)) (avx2 ssse3 : Bool) (hne : ∀ p ∈ pats, p ≠ []) (ch : PreChoice)
    (hb : buildPrefilter K k false freq pats avx2 ssse3 = some ch) (bs : List UInt8)
    (hch : ch = .startBytes bs) :
    (∀ p ∈ pats, ∃ b ∈ bs, p.head? = some b) ∧ PrefilterSound k pats ch.findIn := by
  subst hch
  obtain ⟨_, hs⟩ := build_cases hb
  simp only at hs
  obtain ⟨_, _, _, hst, _, _⟩ := PreBuilder.foldl_nonempty K freq pats hne (PreBuilder.new k false) rfl
  rw [hst] at hs
  obtain ⟨hc, rfl⟩ := StartBytesB.build_some hs
  have hcov : ∀ p ∈ pats, ∃ b ∈ sortedBytes
      (pats.foldl (StartBytesB.add freq) (PreBuilder.new k false).start).set, p.head? = some b := by
    intro p hp
    cases p with
    | nil => exact absurd rfl (hne _ hp)
    | cons x t =>
      exact ⟨x, mem_sortedBytes.2 ((StartBytesB.foldl_spec freq pats _).2 hc _ hp x rfl).1, rfl⟩
  exact ⟨hcov, startBytes_sound k pats _ hcov⟩

/-- rare bytes: every pattern contains a listed byte, and the offset table bounds every position
of every byte of every pattern -/
theorem C05_rare_sound (K : Consts) (k : MatchKind) (freq : UInt8 → Nat)
    (pats : List (List UInt8)) (avx2 ssse3 : Bool) (hne : ∀ p ∈ pats, p ≠ []) (ch : PreChoice)
    (hb : buildPrefilter K k false freq pats avx2 ssse3 = some ch) (bs : List UInt8)
    (offs : UInt8 → Nat) (hch : ch = .rareBytes bs offs) :
    (∀ p ∈ pats, ∃ j : Nat, ∃ b ∈ bs, p[j]? = some b) ∧
    (∀ p ∈ pats, ∀ (j : Nat) (b : UInt8), p[j]? = some b → j ≤ offs b) ∧
    PrefilterSound k pats ch.findIn := by
  subst hch
  obtain ⟨_, hs⟩ := build_cases hb
  simp only at hs
  obtain ⟨hs, rfl⟩ := hs
  obtain ⟨_, _, _, _, hra, _⟩ := PreBuilder.foldl_nonempty K freq pats hne (PreBuilder.new k false) rfl
  rw [hra] at hs ⊢
  obtain ⟨hav, _, rfl⟩ := RareBytesB.build_some hs
  have hsp := (RareBytesB.foldl_spec freq pats (PreBuilder.new k false).rare).2 hav
  have hcov : ∀ p ∈ pats, ∃ j : Nat, ∃ b ∈ sortedBytes
      (pats.foldl (RareBytesB.add freq) (PreBuilder.new k false).rare).rareSet, p[j]? = some b := by
    intro p hp
    obtain ⟨_, y, hy, hy'⟩ := hsp p hp (hne p hp)
    obtain ⟨j, hj, hjy⟩ := List.getElem_of_mem hy
    exact ⟨j, y, mem_sortedBytes.2 hy', by rw [← hjy]; exact List.getElem?_eq_getElem hj⟩
  have hoff : ∀ p ∈ pats, ∀ (j : Nat) (b : UInt8), p[j]? = some b →
      j ≤ (pats.foldl (RareBytesB.add freq) (PreBuilder.new k false).rare).offsets b :=
    fun p hp j b hj => ((hsp p hp (hne p hp)).1 j b hj).1
  exact ⟨hcov, hoff, rareBytes_sound k pats _ _ hcov hoff⟩

/-- packed: sound as soon as the packed searcher returns THE answer (property C06, proved
separately) -/
theorem C05_packed_sound (k : MatchKind) (pats : List (List UInt8)) (srch : PackedSearcher)
    (hC06 : ∀ hay s e, s ≤ e → e ≤ hay.length →
      IsFind k pats hay s e false (srch.findIn hay s e)) :
    PrefilterSound k pats (PreChoice.packed srch).findIn where
  none_sound := by
    intro hay s e he hse h m hm
    simp only [PreChoice.findIn] at h
    split at h
    · rename_i hn
      have := hC06 hay s e hse he
      rw [hn] at this
      exact this m ⟨hm, fun h => by cases h⟩
    · cases h
  pos_sound := by
    intro hay s e i _ _ h
    simp only [PreChoice.findIn] at h
    split at h <;> cases h
  mtch_sound := by
    intro hay s e m he hse h
    simp only [PreChoice.findIn] at h
    split at h
    · cases h
    · rename_i m' hm'
      injection h with h
      subst h
      have := hC06 hay s e hse he
      rw [hm'] at this
      exact this

/-- the builder's gates: an empty pattern disables every prefilter; a case-insensitive builder
never chooses `memmem` or the packed searcher; a standard-semantics builder never chooses the
packed searcher -/
theorem C05_builder_gates (K : Consts) (k : MatchKind) (fold : Bool) (freq : UInt8 → Nat)
    (pats : List (List UInt8)) (avx2 ssse3 : Bool) :
    ([] ∈ pats → buildPrefilter K k fold freq pats avx2 ssse3 = none) ∧
    (∀ ch, buildPrefilter K k fold freq pats avx2 ssse3 = some ch →
      (fold = true → (∀ n, ch ≠ .memmem n) ∧ (∀ s, ch ≠ .packed s)) ∧
      (k = .std → ∀ s, ch ≠ .packed s)) := by
  constructor
  · intro h
    have := PreBuilder.foldl_empty K freq pats h (PreBuilder.new k fold)
    unfold buildPrefilter
    rw [build_eq]
    simp [this]
  · intro ch hb
    by_cases hemp : [] ∈ pats
    · have := PreBuilder.foldl_empty K freq pats hemp (PreBuilder.new k fold)
      obtain ⟨hen, _⟩ := build_cases hb
      rw [this] at hen; cases hen
    · have hne : ∀ p ∈ pats, p ≠ [] := fun p hp h => hemp (h ▸ hp)
      obtain ⟨_, hf, hk, _⟩ := PreBuilder.foldl_nonempty K freq pats hne (PreBuilder.new k fold) rfl
      have hf' : (pats.foldl (PreBuilder.add K freq) (PreBuilder.new k fold)).fold = fold := hf
      have hk' : (pats.foldl (PreBuilder.add K freq) (PreBuilder.new k fold)).kind = k := hk
      obtain ⟨_, hc⟩ := build_cases hb
      refine ⟨fun hfold => ⟨?_, ?_⟩, fun hstd => ?_⟩
      · rintro n rfl
        simp only at hc
        rw [hf', hfold] at hc
        cases hc.1
      · rintro s rfl
        simp only at hc
        rw [hf', hfold] at hc
        cases hc.1
      · rintro s rfl
        simp only at hc
        rw [hk'] at hc
        exact hc.2 hstd

end AcVerif

/-! ## Part B, case-insensitive builder (`fold = true`)

The searcher is then `(ideal k (pats folded) …).comap foldByte`: the automaton reads the
haystack through the fold while the prefilter reads the raw haystack.  Soundness is relative to
the occurrences of the folded patterns in the folded haystack (`PrefilterSoundAt`), which is
what the transparency theorem `C05_transparent_fold` consumes. -/
namespace AcVerif
open AcVerif.PreP

/-- transparency for the case-insensitive searcher -/
theorem C05_transparent_fold (k : MatchKind) (P : List (List UInt8)) (hne : ∀ p ∈ P, p ≠ [])
    (pre : Prefilter UInt8)
    (hs : ∀ hay, PrefilterSoundAt k (P.map (·.map foldByte)) (pre hay) (hay.map foldByte))
    (sk : StartKind) (i : Input UInt8)
    (he : k = .std ∨ i.earliest = false) (h : supportsAnch sk i.anch) :
    tryFindFwd ((ideal k (P.map (·.map foldByte)) sk true).comap foldByte) (some pre) i =
      tryFindFwd ((ideal k (P.map (·.map foldByte)) sk false).comap foldByte) none i := by
  refine transparent_comap k _ ?_ pre sk foldByte i (hs i.hay) he h
  intro p' hp'
  obtain ⟨p, hp, rfl⟩ := List.mem_map.1 hp'
  intro h0
  exact hne p hp (List.map_eq_nil_iff.1 h0)

/-- start bytes, case-insensitive: every pattern's first byte is listed in both cases -/
theorem C05_start_sound_fold (K : Consts) (k : MatchKind) (freq : UInt8 → Nat)
    (pats : List (List UInt8)) (avx2 ssse3 : Bool) (hne : ∀ p ∈ pats, p ≠ []) (ch : PreChoice)
    (hb : buildPrefilter K k true freq pats avx2 ssse3 = some ch) (bs : List UInt8)
    (hch : ch = .startBytes bs) :
    (∀ p ∈ pats, ∃ b, p.head? = some b ∧ b ∈ bs ∧ oppositeAsciiCase b ∈ bs) ∧
    ∀ hay, PrefilterSoundAt k (pats.map (·.map foldByte)) (ch.findIn hay) (hay.map foldByte) := by
  subst hch
  obtain ⟨_, hs⟩ := build_cases hb
  simp only at hs
  obtain ⟨_, _, _, hst, _, _⟩ := PreBuilder.foldl_nonempty K freq pats hne (PreBuilder.new k true) rfl
  rw [hst] at hs
  obtain ⟨hc, rfl⟩ := StartBytesB.build_some hs
  have hcov : ∀ p ∈ pats, ∃ b, p.head? = some b ∧
      b ∈ sortedBytes (pats.foldl (StartBytesB.add freq) (PreBuilder.new k true).start).set ∧
      oppositeAsciiCase b ∈
        sortedBytes (pats.foldl (StartBytesB.add freq) (PreBuilder.new k true).start).set := by
    intro p hp
    cases p with
    | nil => exact absurd rfl (hne _ hp)
    | cons x t =>
      have := (StartBytesB.foldl_spec freq pats _).2 hc _ hp x rfl
      exact ⟨x, rfl, mem_sortedBytes.2 this.1, mem_sortedBytes.2 (this.2 rfl)⟩
  exact ⟨hcov, startBytes_sound_fold k pats _ hcov⟩

/-- rare bytes, case-insensitive: every pattern contains a byte listed in both cases, and the
offset table bounds every position of every byte of every pattern, in both cases -/
theorem C05_rare_sound_fold (K : Consts) (k : MatchKind) (freq : UInt8 → Nat)
    (pats : List (List UInt8)) (avx2 ssse3 : Bool) (hne : ∀ p ∈ pats, p ≠ []) (ch : PreChoice)
    (hb : buildPrefilter K k true freq pats avx2 ssse3 = some ch) (bs : List UInt8)
    (offs : UInt8 → Nat) (hch : ch = .rareBytes bs offs) :
    (∀ p ∈ pats, ∃ (j : Nat) (b : UInt8), p[j]? = some b ∧ b ∈ bs ∧ oppositeAsciiCase b ∈ bs) ∧
    (∀ p ∈ pats, ∀ (j : Nat) (b : UInt8), p[j]? = some b →
      j ≤ offs b ∧ j ≤ offs (oppositeAsciiCase b)) ∧
    ∀ hay, PrefilterSoundAt k (pats.map (·.map foldByte)) (ch.findIn hay) (hay.map foldByte) := by
  subst hch
  obtain ⟨_, hs⟩ := build_cases hb
  simp only at hs
  obtain ⟨hs, rfl⟩ := hs
  obtain ⟨_, _, _, _, hra, _⟩ := PreBuilder.foldl_nonempty K freq pats hne (PreBuilder.new k true) rfl
  rw [hra] at hs ⊢
  obtain ⟨hav, _, rfl⟩ := RareBytesB.build_some hs
  obtain ⟨⟨hfold, _⟩, hsp⟩ := RareBytesB.foldl_spec freq pats (PreBuilder.new k true).rare
  have hsp := hsp hav
  have hcl : RareClosed (pats.foldl (RareBytesB.add freq) (PreBuilder.new k true).rare) :=
    RareBytesB.foldl_closed freq pats _ (fun _ y hy => by cases hy)
  have hcov : ∀ p ∈ pats, ∃ (j : Nat) (b : UInt8), p[j]? = some b ∧
      b ∈ sortedBytes (pats.foldl (RareBytesB.add freq) (PreBuilder.new k true).rare).rareSet ∧
      oppositeAsciiCase b ∈
        sortedBytes (pats.foldl (RareBytesB.add freq) (PreBuilder.new k true).rare).rareSet := by
    intro p hp
    obtain ⟨_, y, hy, hy'⟩ := hsp p hp (hne p hp)
    obtain ⟨j, hj, hjy⟩ := List.getElem_of_mem hy
    exact ⟨j, y, by rw [← hjy]; exact List.getElem?_eq_getElem hj, mem_sortedBytes.2 hy',
      mem_sortedBytes.2 (hcl hfold y hy')⟩
  have hoff : ∀ p ∈ pats, ∀ (j : Nat) (b : UInt8), p[j]? = some b →
      j ≤ (pats.foldl (RareBytesB.add freq) (PreBuilder.new k true).rare).offsets b ∧
      j ≤ (pats.foldl (RareBytesB.add freq) (PreBuilder.new k true).rare).offsets
        (oppositeAsciiCase b) :=
    fun p hp j b hj =>
      ⟨((hsp p hp (hne p hp)).1 j b hj).1, ((hsp p hp (hne p hp)).1 j b hj).2 rfl⟩
  exact ⟨hcov, hoff, rareBytes_sound_fold k pats _ _ hcov hoff⟩

end AcVerif

/-! ## the builder's choice, end to end -/
namespace AcVerif
open AcVerif.PreP

/-- every prefilter the case-sensitive builder can return is sound (the packed one given C06) -/
theorem C05_builder_sound (K : Consts) (k : MatchKind) (freq : UInt8 → Nat)
    (pats : List (List UInt8)) (avx2 ssse3 : Bool) (hne : ∀ p ∈ pats, p ≠ []) (ch : PreChoice)
    (hb : buildPrefilter K k false freq pats avx2 ssse3 = some ch)
    (hC06 : ∀ srch, ch = .packed srch → ∀ hay s e, s ≤ e → e ≤ hay.length →
      IsFind k pats hay s e false (srch.findIn hay s e)) :
    PrefilterSound k pats ch.findIn := by
  cases hch : ch with
  | memmem needle =>
    exact hch ▸ (C05_memmem_sound K k freq pats avx2 ssse3 hne ch hb needle hch).2
  | startBytes bs =>
    exact hch ▸ (C05_start_sound K k freq pats avx2 ssse3 hne ch hb bs hch).2
  | rareBytes bs offs =>
    exact hch ▸ (C05_rare_sound K k freq pats avx2 ssse3 hne ch hb bs offs hch).2.2
  | packed srch => exact C05_packed_sound k pats srch (hC06 srch hch)

/-- the searcher with the prefilter chosen by the builder equals the searcher without -/
theorem C05_builder_transparent (K : Consts) (k : MatchKind) (freq : UInt8 → Nat)
    (pats : List (List UInt8)) (avx2 ssse3 : Bool) (hne : ∀ p ∈ pats, p ≠ []) (ch : PreChoice)
    (hb : buildPrefilter K k false freq pats avx2 ssse3 = some ch)
    (hC06 : ∀ srch, ch = .packed srch → ∀ hay s e, s ≤ e → e ≤ hay.length →
      IsFind k pats hay s e false (srch.findIn hay s e))
    (sk : StartKind) (i : Input UInt8) (he : k = .std ∨ i.earliest = false)
    (h : supportsAnch sk i.anch) :
    tryFindFwd (ideal k pats sk true) (some ch.findIn) i =
      tryFindFwd (ideal k pats sk false) none i :=
  C05_transparent k pats hne _ (C05_builder_sound K k freq pats avx2 ssse3 hne ch hb hC06) sk i he h

/-- every prefilter the case-insensitive builder can return is sound, unconditionally (it is
never `memmem` nor packed) -/
theorem C05_builder_sound_fold (K : Consts) (k : MatchKind) (freq : UInt8 → Nat)
    (pats : List (List UInt8)) (avx2 ssse3 : Bool) (hne : ∀ p ∈ pats, p ≠ []) (ch : PreChoice)
    (hb : buildPrefilter K k true freq pats avx2 ssse3 = some ch) (hay : List UInt8) :
    PrefilterSoundAt k (pats.map (·.map foldByte)) (ch.findIn hay) (hay.map foldByte) := by
  have hg := ((C05_builder_gates K k true freq pats avx2 ssse3).2 ch hb).1 rfl
  cases hch : ch with
  | memmem needle => exact absurd hch (hg.1 needle)
  | startBytes bs =>
    exact hch ▸ (C05_start_sound_fold K k freq pats avx2 ssse3 hne ch hb bs hch).2 hay
  | rareBytes bs offs =>
    exact hch ▸ (C05_rare_sound_fold K k freq pats avx2 ssse3 hne ch hb bs offs hch).2.2 hay
  | packed srch => exact absurd hch (hg.2 srch)

/-- the case-insensitive searcher with the prefilter chosen by the builder equals the one
without -/
theorem C05_builder_transparent_fold (K : Consts) (k : MatchKind) (freq : UInt8 → Nat)
    (pats : List (List UInt8)) (avx2 ssse3 : Bool) (hne : ∀ p ∈ pats, p ≠ []) (ch : PreChoice)
    (hb : buildPrefilter K k true freq pats avx2 ssse3 = some ch)
    (sk : StartKind) (i : Input UInt8) (he : k = .std ∨ i.earliest = false)
    (h : supportsAnch sk i.anch) :
    tryFindFwd ((ideal k (pats.map (·.map foldByte)) sk true).comap foldByte) (some ch.findIn) i =
      tryFindFwd ((ideal k (pats.map (·.map foldByte)) sk false).comap foldByte) none i :=
  C05_transparent_fold k pats hne _
    (C05_builder_sound_fold K k freq pats avx2 ssse3 hne ch hb) sk i he h

end AcVerif

/-! ## non-vacuity -/
namespace AcVerif

/-- a concrete sound prefilter: the start-byte prefilter for `[[1,2],[1,3]]` -/
example : PrefilterSound .lf [[1, 2], [1, 3]] (PreChoice.startBytes [1]).findIn :=
  PreP.startBytes_sound .lf _ _ (by decide)

/-- ... and it is the one the builder model chooses (here with all ranks equal) -/
example : (buildPrefilter {} .lf false (fun _ => 0) [[1, 2], [1, 3]] false false).map
    PreChoice.name = some "start1" := by decide

private def exJ : Input UInt8 := ⟨[0, 0, 0, 1, 3, 1, 2], 0, 7, false, false, by decide⟩

/-- the prefilter jumps: the initial call skips to position 3 -/
example : (PreChoice.startBytes [1]).findIn exJ.hay exJ.s exJ.e = .pos 3 := by decide

/-- the search with the (jumping) prefilter returns the leftmost match -/
example : tryFindFwd (ideal .lf [[1, 2], [1, 3]] .both true)
    (some (PreChoice.startBytes [1]).findIn) exJ = .ok (some ⟨1, 3, 5⟩) := by
  rw [C05_transparent .lf _ (by decide) _ (PreP.startBytes_sound .lf _ _ (by decide)) .both exJ
    (Or.inr rfl) (Or.inl rfl)]
  rw [LmP.tryFind_ideal .lf (Or.inr rfl) _ .both exJ (Or.inl rfl) (by decide)]
  rfl

/-- a rare-byte prefilter chosen by the builder (ranks = byte values): start bytes `200`, `201`
are not ASCII, the rare set is `{1}` with offset `1` -/
example : (buildPrefilter {} .lf false (fun b => b.toNat) [[200, 1], [201, 1]] false false).map
    PreChoice.name = some "rare1" := by decide

private def rareOffs : UInt8 → Nat := fun b => if b == 1 then 1 else 0

private theorem rareCov : ∀ p ∈ ([[200, 1], [201, 1]] : List (List UInt8)),
    ∃ j : Nat, ∃ b ∈ ([1] : List UInt8), p[j]? = some b := by
  intro p hp
  simp only [List.mem_cons, List.not_mem_nil, or_false] at hp
  rcases hp with rfl | rfl <;> exact ⟨1, 1, by simp, rfl⟩

private theorem rareOff : ∀ p ∈ ([[200, 1], [201, 1]] : List (List UInt8)),
    ∀ (j : Nat) (b : UInt8), p[j]? = some b → j ≤ rareOffs b := by
  intro p hp j b hj
  simp only [List.mem_cons, List.not_mem_nil, or_false] at hp
  rcases hp with rfl | rfl <;>
  · match j, hj with
    | 0, _ => exact Nat.zero_le _
    | 1, hj =>
      simp only [List.getElem?_cons_succ, List.getElem?_cons_zero, Option.some.injEq] at hj
      subst hj; decide
    | j + 2, hj => simp at hj

example : PrefilterSound .lf [[200, 1], [201, 1]] (PreChoice.rareBytes [1] rareOffs).findIn :=
  PreP.rareBytes_sound .lf _ _ _ rareCov rareOff

private def exR : Input UInt8 := ⟨[0, 0, 201, 1, 0], 0, 5, false, false, by decide⟩

/-- the rare byte `1` is found at 3 and the candidate is moved back by its offset -/
example : (PreChoice.rareBytes [1] rareOffs).findIn exR.hay exR.s exR.e = .pos 2 := by decide

example : tryFindFwd (ideal .lf [[200, 1], [201, 1]] .both true)
    (some (PreChoice.rareBytes [1] rareOffs).findIn) exR = .ok (some ⟨1, 2, 4⟩) := by
  rw [C05_transparent .lf _ (by decide) _
    (PreP.rareBytes_sound .lf _ _ _ rareCov rareOff) .both exR (Or.inr rfl) (Or.inl rfl)]
  rw [LmP.tryFind_ideal .lf (Or.inr rfl) _ .both exR (Or.inl rfl) (by decide)]
  rfl

/-- a single pattern: `memmem`, which confirms the match itself -/
example : (buildPrefilter {} .ll false (fun _ => 0) [[1, 3]] false false).map
    PreChoice.name = some "memmem" := by decide

example : (PreChoice.memmem [1, 3]).findIn exJ.hay exJ.s exJ.e = .mtch ⟨0, 3, 5⟩ := by decide

/-- case-insensitive: pattern `"ab"`, the start set holds `A` and `a` -/
example : (buildPrefilter {} .lf true (fun _ => 0) [[0x61, 0x62]] false false).map
    PreChoice.name = some "start2" := by decide

private def exF : Input UInt8 := ⟨[0x78, 0x78, 0x41, 0x62], 0, 4, false, false, by decide⟩

example : (PreChoice.startBytes [0x41, 0x61]).findIn exF.hay exF.s exF.e = .pos 2 := by decide

example : tryFindFwd ((ideal .lf ([[0x61, 0x62]].map (·.map foldByte)) .both true).comap foldByte)
    (some (PreChoice.startBytes [0x41, 0x61]).findIn) exF = .ok (some ⟨0, 2, 4⟩) := by
  rw [C05_transparent_fold .lf [[0x61, 0x62]] (by decide) _
    (PreP.startBytes_sound_fold .lf _ _ (by decide)) .both exF (Or.inr rfl) (Or.inl rfl)]
  rw [MiscP.tryFindFwd_comap,
    LmP.tryFind_ideal .lf (Or.inr rfl) _ .both (exF.mapHay foldByte) (Or.inl rfl) (by decide)]
  rfl

end AcVerif
