import AcVerif.Proofs.PreScanBounds
import AcVerif.Proofs.PreBuilderFacts
import AcVerif.Theorems.C06
import AcVerif.Ideal
/-!
# C19 – the prefilter work of one search is linear in the span

`findScan A pre i` (AcVerif/PreScan.lean) is the total haystack extent the prefilter answers of
one non-overlapping search account for.  For ANY automaton record `A`:

* `C19_prescan_le`: a prefilter whose answers stay inside the span it is given (`PreWithin`) and
  that never mixes candidates with confirmed matches (`PreUniform`: it never answers `.pos`, or
  it never answers `.mtch`) does at most `i.e - i.s` work.
* `C19_prescan_le_len`: `PreWithin` and confirmed matches at most `L` long (`PreMtchLen L`):
  at most `(i.e - i.s) + L * (i.e - i.s - 2)` (attained for `L = 1`).  The in-loop branch resumes at `m.start` while the
  stretch is counted up to `m.stop`, so consecutive stretches may overlap by one match.
* `C19_prescan_le_quad`: `PreWithin` alone: `2 * work ≤ n * (n + 1)` with `n = i.e - i.s`.
* `C19_prescan_mixed_exceeds`, `C19_prescan_unbounded_len_quadratic`,
  `C19_prescan_needs_within_*`: the linear bound is FALSE under `PreWithin` alone (a prefilter
  answering `.pos` first and `.mtch` inside the loop), the quadratic bound is attained, and
  every clause of `PreWithin` is needed.
* `C19_choice_uniform`, `C19_builder_within`, `C19_builder_prescan_le`: every prefilter of the
  builder model satisfies both hypotheses, unconditionally (any patterns, frequency table,
  constants, CPU features, case-insensitive or not), hence `findScan ≤ i.e - i.s`.
-/
namespace AcVerif
open AcVerif.ScanP
variable {σ α : Type}

/-- the answers stay inside the span the prefilter is given (`a ≤ e ≤ |hay|`, as in every call
of the search loops) -/
def PreWithin (pre : Option (Prefilter α)) : Prop :=
  ∀ p, pre = some p → ∀ (hay : List α) (a e : Nat), a ≤ e → e ≤ hay.length →
    match p hay a e with
    | .none => True
    | .pos i => a ≤ i ∧ i ≤ e
    | .mtch m => m.stop ≤ e

/-- the prefilter never reports a candidate, or it never confirms a match -/
def PreUniform (pre : Option (Prefilter α)) : Prop :=
  ∀ p, pre = some p →
    (∀ hay a e j, p hay a e ≠ .pos j) ∨ (∀ hay a e m, p hay a e ≠ .mtch m)

/-- confirmed matches are at most `L` long -/
def PreMtchLen (L : Nat) (pre : Option (Prefilter α)) : Prop :=
  ∀ p, pre = some p → ∀ hay a e m, p hay a e = .mtch m → m.stop ≤ m.start + L

theorem PreWithin.loopOk {pre : Option (Prefilter α)} (hw : PreWithin pre) {L : Nat}
    (hl : PreMtchLen L pre) (hay : List α) (e : Nat) (he : e ≤ hay.length) :
    LoopOk L pre hay e := by
  intro p hp a hae
  have h := hw p hp hay a e hae he
  cases hc : p hay a e with
  | none => trivial
  | pos i => rw [hc] at h; exact h.2
  | mtch m => rw [hc] at h; exact ⟨h, hl p hp hay a e m hc⟩

theorem PreWithin.loopIn {pre : Option (Prefilter α)} (hw : PreWithin pre)
    (hay : List α) (e : Nat) (he : e ≤ hay.length) : LoopIn pre hay e := by
  intro p hp a hae
  have h := hw p hp hay a e hae he
  cases hc : p hay a e with
  | none => trivial
  | pos i => rw [hc] at h; exact h.2
  | mtch m => rw [hc] at h; exact h

/-- Prefilter work with confirmed matches of bounded length: one match length of overlap per
in-loop call after the first two calls (the initial call has nothing before it to overlap with,
and the first in-loop call either repeats the initial call or starts where its stretch ended). -/
theorem C19_prescan_le_len (A : Aut σ α) (pre : Option (Prefilter α)) (L : Nat)
    (hpre : PreWithin pre) (hlen : PreMtchLen L pre) (i : Input α) :
    findScan A pre i ≤ (i.e - i.s) + L * (i.e - i.s - 2) := by
  refine findScan_le_of A pre i _ ?_ ?_ ?_
  · intro p _ _ _
    exact Nat.le_add_right _ _
  · intro p m hp hse hc
    have h := hpre p hp i.hay i.s i.e hse i.valid.1
    rw [hc] at h
    exact Nat.le_trans (show m.stop - i.s ≤ i.e - i.s by omega) (Nat.le_add_right _ _)
  · intro p j hp hse hc earliest sid
    have h := hpre p hp i.hay i.s i.e hse i.valid.1
    rw [hc] at h
    have hok := hpre.loopOk hlen i.hay i.e i.valid.1
    rcases Nat.eq_or_lt_of_le h.1 with hjs | hjs
    · -- the loop starts at `i.s`: its first call is the initial call again
      subst hjs
      refine Nat.le_trans (scanLoop_le_first A i.hay i.s i.e i.valid.1 pre L hok false earliest
        sid i.s (i.s - i.s) ?_) ?_
      · intro p' hp'
        rw [hp] at hp'
        cases hp'
        exact hc
      · unfold scanBound
        rw [show i.e - i.s - 1 - 1 = i.e - i.s - 2 by omega]
        omega
    · refine Nat.le_trans (scanLoop_le A i.hay i.s i.e i.valid.1 pre L hok false earliest _ sid j
        (j - i.s) rfl) ?_
      unfold scanBound
      have : L * (i.e - j - 1) ≤ L * (i.e - i.s - 2) := Nat.mul_le_mul_left L (by omega)
      omega

/-- **C19, prefilter work.**  For any automaton record, the extents of the prefilter answers of
one search sum to at most the length of the span. -/
theorem C19_prescan_le (A : Aut σ α) (pre : Option (Prefilter α)) (hpre : PreWithin pre)
    (huni : PreUniform pre) (i : Input α) :
    findScan A pre i ≤ i.e - i.s := by
  cases hp0 : pre with
  | none =>
    refine findScan_le_of A none i _ ?_ ?_ ?_ <;> intro p <;> intros <;> contradiction
  | some p =>
    rw [← hp0]
    rcases huni p hp0 with hnp | hnm
    · -- never a candidate: the loop is not entered
      refine findScan_le_of A pre i _ ?_ ?_ ?_
      · intro _ _ _ _; exact Nat.le_refl _
      · intro p' m hp' hse hc
        have h := hpre p' hp' i.hay i.s i.e hse i.valid.1
        rw [hc] at h
        show m.stop - i.s ≤ i.e - i.s
        omega
      · intro p' j hp' _ hc
        rw [hp0] at hp'
        cases hp'
        exact absurd hc (hnp _ _ _ _)
    · -- never a confirmed match: `PreMtchLen 0`
      have hl : PreMtchLen 0 pre := by
        intro p' hp' hay a e m hc
        rw [hp0] at hp'
        cases hp'
        exact absurd hc (hnm _ _ _ _)
      have := C19_prescan_le_len A pre 0 hpre hl i
      simpa using this

/-- `PreWithin` alone: quadratic. -/
theorem C19_prescan_le_quad (A : Aut σ α) (pre : Option (Prefilter α)) (hpre : PreWithin pre)
    (i : Input α) :
    2 * findScan A pre i ≤ (i.e - i.s) * (i.e - i.s + 1) := by
  suffices h : findScan A pre i ≤ (i.e - i.s) * (i.e - i.s + 1) / 2 by
    have := Nat.mul_div_le ((i.e - i.s) * (i.e - i.s + 1)) 2
    omega
  have hdiv : ∀ x : Nat, 2 * x ≤ (i.e - i.s) * (i.e - i.s + 1) →
      x ≤ (i.e - i.s) * (i.e - i.s + 1) / 2 := by
    intro x hx
    rw [Nat.le_div_iff_mul_le (by decide)]
    omega
  refine findScan_le_of A pre i _ ?_ ?_ ?_
  · intro p _ _ _
    apply hdiv
    have := tri_step (n := i.e - i.s) (n' := 0) (x := i.e - i.s)
    rcases Nat.eq_zero_or_pos (i.e - i.s) with h0 | hpos
    · rw [h0]; decide
    · have := this (by omega) (Nat.le_refl _)
      omega
  · intro p m hp hse hc
    have h := hpre p hp i.hay i.s i.e hse i.valid.1
    rw [hc] at h
    apply hdiv
    rcases Nat.eq_zero_or_pos (i.e - i.s) with h0 | hpos
    · have : m.stop - i.s = 0 := by omega
      rw [this]; exact Nat.zero_le _
    · have := tri_step (n := i.e - i.s) (n' := 0) (x := m.stop - i.s) (by omega) (by omega)
      omega
  · intro p j hp hse hc earliest sid
    have h := hpre p hp i.hay i.s i.e hse i.valid.1
    rw [hc] at h
    apply hdiv
    have h1 := scanLoop_le_quad A i.hay i.s i.e i.valid.1 pre
      (hpre.loopIn i.hay i.e i.valid.1) false earliest _ sid j (j - i.s) rfl
    refine Nat.le_trans h1 ?_
    -- 2 (j - s) + (e - j)(e - j + 1) ≤ (e - s)(e - s + 1)
    rcases Nat.eq_zero_or_pos (j - i.s) with h0 | hpos
    · have : i.e - j = i.e - i.s := by omega
      rw [h0, this]; omega
    · have := tri_step (n := i.e - i.s) (n' := i.e - j) (x := j - i.s) (by omega) (by omega)
      omega

end AcVerif

/-! ## the prefilters of the builder model -/
namespace AcVerif
open AcVerif.ScanP AcVerif.PreP
variable {σ : Type}

/-- `memmem` and the packed searcher only confirm matches; the byte-set prefilters only report
candidates.  (True of every `PreChoice`, whatever built it.) -/
theorem C19_choice_uniform (c : PreChoice) : PreUniform (some c.findIn) := by
  intro p hp
  injection hp with hp
  subst hp
  cases c with
  | memmem needle =>
    left; intro hay a e j h
    simp only [PreChoice.findIn] at h
    split at h <;> cases h
  | startBytes bs =>
    right; intro hay a e m h
    simp only [PreChoice.findIn] at h
    split at h <;> cases h
  | rareBytes bs offs =>
    right; intro hay a e m h
    simp only [PreChoice.findIn] at h
    split at h <;> cases h
  | packed srch =>
    left; intro hay a e j h
    simp only [PreChoice.findIn] at h
    split at h <;> cases h

/-- the answers of a `PreChoice` stay inside the span; for the packed searcher this is what
remains to be shown of its `find_in` -/
theorem C19_choice_within (c : PreChoice)
    (hpk : ∀ srch, c = .packed srch → ∀ hay a e m, a ≤ e → e ≤ hay.length →
      srch.findIn hay a e = some m → m.stop ≤ e) : PreWithin (some c.findIn) := by
  intro p hp hay a e hae he
  injection hp with hp
  subst hp
  cases c with
  | memmem needle =>
    simp only [PreChoice.findIn]
    cases hm : memmemIn needle hay a e with
    | none => trivial
    | some q => exact (memmemIn_some hm).2.1
  | startBytes bs =>
    simp only [PreChoice.findIn]
    cases hm : memchrIn bs.contains hay a e with
    | none => trivial
    | some q =>
      obtain ⟨h1, h2, _⟩ := memchrIn_some hm
      exact ⟨h1, Nat.le_of_lt h2⟩
  | rareBytes bs offs =>
    simp only [PreChoice.findIn]
    cases hm : memchrIn bs.contains hay a e with
    | none => trivial
    | some q =>
      obtain ⟨h1, h2, _⟩ := memchrIn_some hm
      simp only
      omega
  | packed srch =>
    simp only [PreChoice.findIn]
    cases hm : srch.findIn hay a e with
    | none => trivial
    | some m => exact hpk srch rfl hay a e m hae he hm

/-- a packed searcher that `packed::Builder::build` returns is `PackedSearcher.new` of a
nonempty list of nonempty patterns -/
theorem packedBuild_some {K : Consts} {kind : PKind} {ps : List PBytes} {force only256 onlyFat}
    {patlimit avx2 ssse3 : Bool} {s : PackedSearcher}
    (h : packedBuild K kind ps force only256 onlyFat patlimit avx2 ssse3 = some s) :
    ps ≠ [] ∧ (∀ p ∈ ps, p ≠ []) ∧ ∃ v, s = PackedSearcher.new kind ps v := by
  unfold packedBuild at h
  split at h
  · cases h
  · rename_i hc
    simp only [Bool.or_eq_true, decide_eq_true_eq, List.any_eq_true, List.isEmpty_iff,
      not_or, not_exists, not_and] at hc
    obtain ⟨⟨_, h2⟩, h3⟩ := hc
    refine ⟨h3, fun p hp => h2 p hp, ?_⟩
    split at h
    · injection h with h; exact ⟨none, h.symm⟩
    · simp only at h
      split at h
      · cases h
      · rename_i v _
        injection h with h; exact ⟨some v, h.symm⟩

/-- a packed prefilter returned by `prefilter::Builder::build` came out of `packedBuild` -/
theorem build_packed_shape {K : Consts} {b : PreBuilder} {avx2 ssse3 : Bool} {s : PackedSearcher}
    (h : PreBuilder.build K b avx2 ssse3 = some (.packed s)) :
    ∃ kind ps, packedBuild K kind ps none none none true avx2 ssse3 = some s := by
  have hT : (packedTriple K b avx2 ssse3).1 = some (.packed s) →
      ∃ kind ps, packedBuild K kind ps none none none true avx2 ssse3 = some s := by
    intro hT
    unfold packedTriple at hT
    split at hT
    · cases hT
    · split at hT
      · cases hT
      · rename_i pk _
        split at hT
        · cases hT
        · rename_i ps _
          simp only [Option.map_eq_some_iff] at hT
          obtain ⟨s', hs', hinj⟩ := hT
          injection hinj with hinj
          subst hinj
          exact ⟨pk, ps, hs'⟩
  rw [build_eq] at h
  split at h
  · cases h
  · split at h
    · cases h
    · simp only at h
      split at h
      · split at h
        · exact hT h
        · split at h
          · cases h
          · split at h <;> cases h
      · split at h
        · exact hT h
        · cases h
      · split at h
        · exact hT h
        · cases h
      · split at h
        · cases h
        · exact hT h

/-- **Every prefilter of the builder model keeps its answers inside the span and never mixes
candidates with confirmed matches** – for every pattern list (empty patterns included: the
builder then returns no prefilter), frequency table, constant set, CPU feature combination,
match kind, case-insensitive or not. -/
theorem C19_builder_within (K : Consts) (k : MatchKind) (fold : Bool) (freq : UInt8 → Nat)
    (pats : List (List UInt8)) (avx2 ssse3 : Bool) (ch : PreChoice)
    (hb : buildPrefilter K k fold freq pats avx2 ssse3 = some ch) :
    PreWithin (some ch.findIn) ∧ PreUniform (some ch.findIn) := by
  refine ⟨C19_choice_within ch ?_, C19_choice_uniform ch⟩
  intro srch hch hay a e m hae he hm
  subst hch
  obtain ⟨kind, ps, hpb⟩ := build_packed_shape hb
  obtain ⟨hne, hnz, v, rfl⟩ := packedBuild_some hpb
  exact (C15_packed_match_wf kind ps hne hnz v hay a e ⟨hae, he⟩ m hm).2.2.2

/-- the same for the prefilter as the searcher carries it (`none` when the builder declines) -/
theorem C19_builder_within' (K : Consts) (k : MatchKind) (fold : Bool) (freq : UInt8 → Nat)
    (pats : List (List UInt8)) (avx2 ssse3 : Bool) :
    PreWithin ((buildPrefilter K k fold freq pats avx2 ssse3).map PreChoice.findIn) ∧
    PreUniform ((buildPrefilter K k fold freq pats avx2 ssse3).map PreChoice.findIn) := by
  cases hb : buildPrefilter K k fold freq pats avx2 ssse3 with
  | none =>
    constructor
    · intro p hp; cases hp
    · intro p hp; cases hp
  | some ch => exact C19_builder_within K k fold freq pats avx2 ssse3 ch hb

/-- **C19 for the builder's prefilters**: whatever the automaton record, the prefilter work of
one search is at most the span length. -/
theorem C19_builder_prescan_le (K : Consts) (k : MatchKind) (fold : Bool) (freq : UInt8 → Nat)
    (pats : List (List UInt8)) (avx2 ssse3 : Bool) (ch : PreChoice)
    (hb : buildPrefilter K k fold freq pats avx2 ssse3 = some ch)
    (A : Aut σ UInt8) (i : Input UInt8) :
    findScan A (some ch.findIn) i ≤ i.e - i.s :=
  have h := C19_builder_within K k fold freq pats avx2 ssse3 ch hb
  C19_prescan_le A _ h.1 h.2 i

theorem C19_builder_prescan_le' (K : Consts) (k : MatchKind) (fold : Bool) (freq : UInt8 → Nat)
    (pats : List (List UInt8)) (avx2 ssse3 : Bool) (A : Aut σ UInt8) (i : Input UInt8) :
    findScan A ((buildPrefilter K k fold freq pats avx2 ssse3).map PreChoice.findIn) i ≤
      i.e - i.s :=
  have h := C19_builder_within' K k fold freq pats avx2 ssse3
  C19_prescan_le A _ h.1 h.2 i

end AcVerif

/-! ## non-vacuity, exactness, necessity

The automaton is `ideal .std [[1, 2], [3]] .unanchored true`; on a haystack of zeros it stays in
its start state, so the prefilter is consulted at every position the loop visits.  The counter is
ghost state (`findScan` returns only a number), so there is nothing to prove about the search
result. -/
namespace AcVerif
open AcVerif.ScanP

private def exA : Aut (St UInt8) UInt8 := ideal .std [[1, 2], [3]] .unanchored true

private def zeros6 : Input UInt8 := ⟨[0, 0, 0, 0, 0, 0], 0, 6, false, false, by decide⟩
private def zeros5 : Input UInt8 := ⟨[0, 0, 0, 0, 0], 0, 5, false, false, by decide⟩
private def zeros26 : Input UInt8 := ⟨[0, 0, 0, 0, 0, 0], 2, 6, false, false, by decide⟩

/-- a candidate two bytes further on, as long as there is room -/
private def stepPre : Prefilter UInt8 := fun _ a e => if a + 2 ≤ e then .pos (a + 2) else .none

private theorem stepPre_ok : PreWithin (some stepPre) ∧ PreUniform (some stepPre) := by
  constructor
  · intro p hp hay a e hae he
    injection hp with hp; subst hp
    unfold stepPre
    by_cases h : a + 2 ≤ e
    · rw [if_pos h]; exact ⟨by omega, h⟩
    · rw [if_neg h]; trivial
  · intro p hp
    injection hp with hp; subst hp
    right; intro hay a e m h
    unfold stepPre at h
    split at h <;> cases h

/-- three prefilter calls (at 0, 2 and 4), stretches `0..2`, `2..4`, `4..6`: the total is the
span length exactly – `C19_prescan_le` is tight -/
theorem C19_prescan_exact :
    PreWithin (some stepPre) ∧ PreUniform (some stepPre) ∧
    findScan exA (some stepPre) zeros6 = 6 ∧ zeros6.e - zeros6.s = 6 :=
  ⟨stepPre_ok.1, stepPre_ok.2, by decide +kernel, rfl⟩

private def hay013 : Input UInt8 := ⟨[0, 0, 1, 0, 0, 3], 0, 6, false, false, by decide⟩

/-- the start-byte prefilter of the builder model (it is what the builder chooses for these
patterns): calls at 0 (candidate 2) and 3 (candidate 5), the search ends with the match of `[3]`;
the bytes the automaton walks between a candidate and its next start state are not prefilter
work -/
theorem C19_prescan_startBytes :
    (buildPrefilter {} .std false (fun _ => 0) [[1, 2], [3]] false false).map PreChoice.name =
      some "start2" ∧
    findScan exA (some (PreChoice.startBytes [1, 3]).findIn) hay013 = 4 ∧
    hay013.e - hay013.s = 6 :=
  ⟨by decide, by decide +kernel, rfl⟩

/-! ### every clause of `PreWithin` is needed -/

/-- a candidate beyond the end of the span -/
private def farPre : Prefilter UInt8 := fun _ _ e => .pos (e + 3)

theorem C19_prescan_needs_within_pos_upper :
    PreUniform (some farPre) ∧ findScan exA (some farPre) zeros6 = 9 ∧ zeros6.e - zeros6.s = 6 :=
  ⟨fun p hp => by
      injection hp with hp; subst hp
      exact Or.inr (fun _ _ _ _ h => by cases h),
    by decide +kernel, rfl⟩

/-- a candidate before the start of the span (only on the initial call `2..6`; every other answer
is inside its span): the loop starts at 0 and its first call reports the stretch `0..6` -/
private def backPre : Prefilter UInt8 := fun _ a _ => if a = 2 then .pos 0 else .none

theorem C19_prescan_needs_within_pos_lower :
    PreUniform (some backPre) ∧
    (∀ hay a e j, backPre hay a e = .pos j → j ≤ e) ∧
    findScan exA (some backPre) zeros26 = 6 ∧ zeros26.e - zeros26.s = 4 := by
  refine ⟨?_, ?_, by decide +kernel, rfl⟩
  · intro p hp
    injection hp with hp; subst hp
    right; intro hay a e m h
    unfold backPre at h
    split at h <;> cases h
  · intro hay a e j h
    unfold backPre at h
    split at h
    · injection h with h; omega
    · cases h

/-- a confirmed match ending beyond the span -/
private def farMtch : Prefilter UInt8 := fun _ _ e => .mtch ⟨0, e, e + 3⟩

theorem C19_prescan_needs_within_mtch :
    PreUniform (some farMtch) ∧ findScan exA (some farMtch) zeros6 = 9 ∧
    zeros6.e - zeros6.s = 6 :=
  ⟨fun p hp => by
      injection hp with hp; subst hp
      exact Or.inl (fun _ _ _ _ h => by cases h),
    by decide +kernel, rfl⟩

/-! ### `PreWithin` alone is not enough: candidates first, confirmed matches inside the loop -/

/-- a candidate on the call at 0, then confirmed matches of length ≤ 1 starting one byte after
the start of the span -/
private def mixPre : Prefilter UInt8 := fun _ a e =>
  if a = 0 then (if 1 ≤ e then .pos 1 else .none) else .mtch ⟨0, a + 1, min (a + 2) e⟩

private theorem mixPre_ok : PreWithin (some mixPre) ∧ PreMtchLen 1 (some mixPre) := by
  constructor
  · intro p hp hay a e hae he
    injection hp with hp; subst hp
    unfold mixPre
    by_cases h0 : a = 0
    · rw [if_pos h0]
      by_cases h : 1 ≤ e
      · rw [if_pos h]; exact ⟨by omega, h⟩
      · rw [if_neg h]; trivial
    · rw [if_neg h0]; exact Nat.min_le_right _ _
  · intro p hp hay a e m h
    injection hp with hp; subst hp
    unfold mixPre at h
    split at h
    · split at h <;> cases h
    · injection h with h
      subst h
      exact Nat.min_le_left _ _

/-- The linear bound `i.e - i.s` is FALSE under `PreWithin` alone: the in-loop branch resumes at
`m.start` and counts up to `m.stop`.  Calls at 1, 2, 3, 4 report the stretches `1..3`, `2..4`,
`3..5`, `4..5`; with the initial stretch `0..1` the total is `8 = 5 + 1 * (5 - 2)`: the bound of
`C19_prescan_le_len` is attained. -/
theorem C19_prescan_mixed_exceeds :
    PreWithin (some mixPre) ∧ PreMtchLen 1 (some mixPre) ∧
    findScan exA (some mixPre) zeros5 = 8 ∧ zeros5.e - zeros5.s = 5 :=
  ⟨mixPre_ok.1, mixPre_ok.2, by decide +kernel, rfl⟩

theorem C19_prescan_not_le_of_within :
    ¬ ∀ (A : Aut (St UInt8) UInt8) (pre : Option (Prefilter UInt8)), PreWithin pre →
        ∀ i : Input UInt8, findScan A pre i ≤ i.e - i.s := by
  intro h
  have := h exA (some mixPre) mixPre_ok.1 zeros5
  rw [C19_prescan_mixed_exceeds.2.2.1] at this
  exact absurd this (by decide)

/-- confirmed matches reaching to the end of the span -/
private def quadPre : Prefilter UInt8 := fun _ a e =>
  if a = 0 then (if 1 ≤ e then .pos 1 else .none) else .mtch ⟨0, a + 1, e⟩

/-- without a length bound the work is quadratic: stretches `0..1`, `1..5`, `2..5`, `3..5`,
`4..5`, total `11 = 1 + 5 * 4 / 2` (the bound of `C19_prescan_le_quad` is `15`, the bound of
`C19_prescan_le_len` for `L = 1` would be `8`) -/
theorem C19_prescan_unbounded_len_quadratic :
    PreWithin (some quadPre) ∧ findScan exA (some quadPre) zeros5 = 11 ∧
    zeros5.e - zeros5.s = 5 := by
  refine ⟨?_, by decide +kernel, rfl⟩
  intro p hp hay a e hae he
  injection hp with hp; subst hp
  unfold quadPre
  by_cases h0 : a = 0
  · rw [if_pos h0]
    by_cases h : 1 ≤ e
    · rw [if_pos h]; exact ⟨by omega, h⟩
    · rw [if_neg h]; trivial
  · rw [if_neg h0]; exact Nat.le_refl _

end AcVerif
