import AcVerif.Proofs.Std
/-!
# C02 – standard semantics, non-overlapping search

On the ideal standard automaton (no prefilter) `try_find_fwd` succeeds for
every supported anchoring mode and returns *the* standard answer: among the
admissible occurrences the one ending first, then the longest, then the one
supplied first (`IsFind .std`); `none` iff there is no admissible occurrence.
-/
namespace AcVerif
open AcVerif.StdP
variable {α : Type} [DecidableEq α]

theorem C02_find (P : List (List α)) (sk : StartKind) (i : Input α)
    (h : supportsAnch sk i.anch) :
    ∃ r, tryFindFwd (ideal .std P sk false) none i = .ok r ∧
         IsFind .std P i.hay i.s i.e i.anch r := by
  cases hd : i.isDone with
  | true =>
    refine ⟨none, by simp [tryFindFwd, hd, ideal_start P h], ?_⟩
    rintro m ⟨⟨p, _, h1, h2, h3, _⟩, _⟩
    simp only [Input.isDone, decide_eq_true_eq] at hd
    omega
  | false =>
    exact ⟨_, tryFindFwd_eq (stdLike_ideal P sk) i (ideal_start P h) hd,
      isFind_head (isOverlapList_allMatches P sk i hd)⟩

/-! ## non-vacuity: concrete instances (nested, duplicate and empty patterns)

`tryFindFwd` is defined by well-founded recursion, which `decide` cannot
unfold; the instances are evaluated through `tryFindFwd_eq` (the loop equals
the head of the structural `allMatches`) and closed by `rfl`. -/

private def ex1 : Input Nat := ⟨[0, 1, 2], 0, 3, false, false, by decide⟩
private def ex2 : Input Nat := ⟨[0, 1, 2], 1, 3, true, false, by decide⟩

/-- the hypotheses of `C02_find` are satisfiable -/
example : ∃ r, tryFindFwd (ideal .std [[1, 2], [2], []] .both false) none ex1 = .ok r ∧
    IsFind .std [[1, 2], [2], []] ex1.hay ex1.s ex1.e ex1.anch r :=
  C02_find _ _ ex1 (Or.inl rfl)

/-- the empty pattern matches at the span start -/
example : tryFindFwd (ideal .std [[1, 2], [2], []] .both false) none ex1 =
    .ok (some ⟨2, 0, 0⟩) := by
  rw [tryFindFwd_eq (stdLike_ideal _ _) ex1 (q0 := .at []) rfl rfl]; rfl

/-- earliest end, then longest, then first supplied (duplicates `[2]`, `[2]`) -/
example : tryFindFwd (ideal .std [[2], [1, 2], [2]] .both false) none ex1 =
    .ok (some ⟨1, 1, 3⟩) := by
  rw [tryFindFwd_eq (stdLike_ideal _ _) ex1 (q0 := .at []) rfl rfl]; rfl

/-- anchored at 1: `[2]` does not start at the span start; `[1]` (first of two copies) does -/
example : tryFindFwd (ideal .std [[2], [1, 2], [1], [1]] .anchored false) none ex2 =
    .ok (some ⟨2, 1, 2⟩) := by
  rw [tryFindFwd_eq (stdLike_ideal _ _) ex2 (q0 := .at []) rfl rfl]; rfl

/-- anchored, nothing starts at the span start -/
example : tryFindFwd (ideal .std [[2], [0, 1]] .both false) none ex2 = .ok none := by
  rw [tryFindFwd_eq (stdLike_ideal _ _) ex2 (q0 := .at []) rfl rfl]; rfl

end AcVerif
