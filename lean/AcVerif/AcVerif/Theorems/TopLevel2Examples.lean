import AcVerif.Theorems.TopLevel2
import AcVerif.Theorems.TopLevelExamples
/-!
# The capstone, part 2, non-vacuity: concrete searchers, built, streamed and searched

* the hypotheses of `Top_capstone2` / `TopB_capstone2` are satisfiable;
* `try_stream_replace_all` evaluated by the kernel on the searcher the build returns (a DFA, reads
  of 2, 1, 3, 1, … bytes into a 4-byte buffer, a match split across two reads): the output, the
  panic for a table of the wrong length, a writer that accepts 4 bytes, a reader that fails at its
  fourth call – and the same from the theorems;
* earliest mode on a leftmost-longest searcher: `"a"` at `[1, 2)` where the normal search reports
  `"abc"` at `[1, 4)` (`Top_find_earliest` is not vacuous: the two answers differ);
* a span versus the sub-slice; the errors of a leftmost searcher's stream and overlapping methods.
-/
namespace AcVerif
open AcVerif.TopP AcVerif.BuildP

set_option maxRecDepth 1000000

/-! ## 1. `[1,2,3]`, `[3,4]`; standard; automatic choice (a DFA); stream replace -/

def sxCfg : BuildCfg := {}
def sxPats : List (List UInt8) := [[1, 2, 3], [3, 4]]
def sxData : List UInt8 := [0, 1, 2, 3, 4, 1, 2, 3]
def sxRdr : Reader UInt8 := { data := sxData, sched := [2, 1, 3, 1] }

/-- what a stream replace returned, as a comparable value: `none` = `MatchError`,
`some none` = panic, `some (some (written bytes, no I/O error, empty reads))` -/
def outOf : Except MatchErr (OrPanic (Writer UInt8 × Bool × Nat)) →
    Option (Option (List UInt8 × Bool × Nat))
  | .error _ => none
  | .ok .panic => some none
  | .ok (.ret (w, ok, er)) => some (some (w.out, ok, er))

example : ∃ s, acBuild {} sxCfg none sxPats = .ok s ∧ s.kind = chosenKind sxCfg sxPats.length ∧
    TopSpec sxCfg sxPats s ∧ TopSpec2 sxCfg sxPats s :=
  Top_capstone2 sxCfg sxPats (by decide) (by decide)

example : ∃ s, acBuildP {} {} sxCfg (fun _ => 0) false false sxPats = .ok s ∧
    s.kind = chosenKind sxCfg sxPats.length ∧ TopSpec sxCfg sxPats s ∧ TopSpec2 sxCfg sxPats s :=
  TopB_capstone2 {} sxCfg (fun _ => 0) false false sxPats (by decide) (by decide)

/-- evaluated: each `[1,2,3]` replaced by `[9]`; a table of one entry for two patterns panics; a
writer accepting 2 bytes gets `[0, 9]` and reports the error -/
example (s : Searcher) (hs : acBuild {} sxCfg none sxPats = .ok s) :
    outOf (topStreamReplaceAll s sxRdr (some 1) {} [[9], [8]]) =
      some (some ([0, 9, 4, 9], true, 0)) ∧
    outOf (topStreamReplaceAll s sxRdr (some 1) {} [[9]]) = some none ∧
    outOf (topStreamReplaceAll s sxRdr (some 1) { limit := some 2 } [[9], [8]]) =
      some (some ([0, 9], false, 0)) ∧
    (topStreamFind s { sxRdr with failAt := some 3 } (some 1)).toOption =
      some ([⟨0, 1, 4⟩], true, 0) := by
  rw [acBuild_small sxCfg sxPats (by decide) (by decide)] at hs
  cases hs
  decide +kernel

/-- the same output from the theorem: it is what `try_replace_all_bytes` returns -/
example (s : Searcher) (hs : acBuild {} sxCfg none sxPats = .ok s) :
    ∃ out, topReplaceAllBytes s sxData [[9], [8]] = .ok out ∧
      topStreamReplaceAll s sxRdr (some 1) {} [[9], [8]] = .ok (.ret ({ out := out }, true, 0)) := by
  obtain ⟨ms, out, _, h2, h3, _⟩ := (Top_stream_replace_all sxCfg sxPats hs rfl (by decide)
    (Or.inr (Or.inl ⟨rfl, rfl⟩)) sxData [2, 1, 3, 1] (by decide) (some 1) 8 (64 * 1024)
    (StreamP.hcap_default _ _) [[9], [8]]).1 rfl
  exact ⟨out, h2, h3⟩

/-! ## 2. `"a"`, `"abc"`; leftmost-longest; earliest mode; a span -/

def exCfg : BuildCfg := { matchKind := .ll, startKind := .both, kind := some .contiguous }
def exPats : List (List UInt8) := [[97], [97, 98, 99]]
/-- haystack `"xabcx"`, the span `[1, 5]` -/
def exI : Input UInt8 := ⟨[120, 97, 98, 99, 120], 1, 5, false, false, by decide⟩

/-- earliest mode stops at `"a"`, the normal search extends to `"abc"`; on the sub-slice the same
answers translated by `-1` -/
example (s : Searcher) (hs : acBuild {} exCfg none exPats = .ok s) :
    topFind s { exI with earliest := true } = .ok (some ⟨0, 1, 2⟩) ∧
    topFind s exI = .ok (some ⟨1, 1, 4⟩) ∧
    topFind s exI.slice = .ok (some ⟨1, 0, 3⟩) := by
  rw [acBuild_small exCfg exPats (by decide) (by decide)] at hs
  cases hs
  rw [topFind_eq_S _ rfl, topFind_eq_S _ rfl, topFind_eq_S _ rfl]
  decide +kernel

/-- `Top_find_earliest` and `Top_find_span` instantiated -/
example (s : Searcher) (hs : acBuild {} exCfg none exPats = .ok s) :
    (∃ r r', topFind s { exI with earliest := true } = .ok r ∧ topFind s exI = .ok r' ∧
      r.isSome = r'.isSome) ∧
    (∃ r, topFind s exI.slice = .ok r ∧ topFind s exI = .ok (r.map (·.shift 1))) := by
  obtain ⟨r, r', h1, h2, _, h4, _⟩ := Top_find_earliest exCfg exPats hs (by decide) exI
    (Or.inl rfl)
  exact ⟨⟨r, r', h1, h2, h4⟩,
    (Top_find_span exCfg exPats hs exI (by decide)).1 (Or.inl rfl) (Or.inr rfl)⟩

/-- a leftmost searcher rejects the stream and overlapping methods, whatever the stream, the state
and the automaton kind (`Top_rejection_iff`, `gate` evaluated) -/
example (s : Searcher) (hs : acBuild {} exCfg none exPats = .ok s) (rdr : Reader UInt8)
    (i : Input UInt8) (hi : i.anch = false) (st : OState Nat) :
    matchErrOf (topStreamFind s rdr none) = some .unsupportedStream ∧
    matchErrOf (topOvlCall s i st) = some .unsupportedOverlapping ∧
    matchErrOf (topFind s i) = none := by
  have h := Top_rejection_iff exCfg exPats hs
  refine ⟨h.streamFind rdr none 8 (64 * 1024), ?_, ?_⟩
  · rw [h.overlapping i st, hi]; decide
  · rw [h.find i, hi]; decide

end AcVerif
