import AcVerif.Theorems.C05
import AcVerif.Theorems.C03
import AcVerif.Proofs.PreResumedIdeal
import AcVerif.Proofs.PreResumedCex
/-!
# C05 – prefilters are transparent, resumed searches

`C05_transparent` (Theorems/C05.lean) is about one non-overlapping search.  Here:

* `C05_iter_transparent`: the non-overlapping iterator (`FindIter`) with a sound prefilter
  yields exactly what it yields without one (all three semantics);
* `C05_overlap_transparent`, `C05_overlap_iter_transparent`: the stepwise overlapping search
  (`try_find_overlapping_fwd` called repeatedly on one `OverlappingState`, and
  `FindOverlappingIter`) under a prefilter that is sound *for the overlapping loop*
  (`PrefilterSoundOvl`: `None` means no occurrence in the span, a candidate / confirmed match at
  `i` means no occurrence of the span starts before `i`);
* `C05_overlap_needs_start_soundness`: `PrefilterSound .std` alone does NOT suffice – a
  confirming prefilter that returns the earliest-*ending* occurrence makes the overlapping
  search lose a match (formal counterexample);
* `C05_overlap_transparent_of_sound`, `…_of_leftmost`, `…_single`: `PrefilterSound` plus what is
  missing (confirmed matches are leftmost; or sound for a leftmost semantics; or one pattern);
* `C05_builder_sound_ovl`, `C05_builder_overlap_transparent`, `C05_builder_overlap_iter_transparent`:
  the prefilter the (case-sensitive) builder model chooses under standard semantics is sound for
  the overlapping loop, for every frequency table, constant set and CPU feature combination –
  it never confirms matches unless there is a single pattern;
* `…_fold`: the same for the case-insensitive searcher (automaton reading through `foldByte`).
-/
namespace AcVerif
open AcVerif.PreP AcVerif.PreP2
variable {α : Type} [DecidableEq α]

/-- the non-overlapping iterator with a sound prefilter yields exactly what it yields without
one -/
theorem C05_iter_transparent (k : MatchKind) (P : List (List α)) (hne : ∀ p ∈ P, p ≠ [])
    (pre : Prefilter α) (hs : PrefilterSound k P pre) (sk : StartKind) (i : Input α)
    (he : k = .std ∨ i.earliest = false) (h : supportsAnch sk i.anch) :
    findIter (ideal k P sk true) (some pre) i = findIter (ideal k P sk false) none i :=
  findIter_transparent k P hne pre hs sk i he h

/-- every search of the iterator, taken alone (`self.input.set_start(start); self.search()`) -/
theorem C05_findAt_transparent (k : MatchKind) (P : List (List α)) (hne : ∀ p ∈ P, p ≠ [])
    (pre : Prefilter α) (hs : PrefilterSound k P pre) (sk : StartKind) (i : Input α)
    (he : k = .std ∨ i.earliest = false) (h : supportsAnch sk i.anch) (start : Nat) :
    findAt (ideal k P sk true) (some pre) i start = findAt (ideal k P sk false) none i start :=
  congrFun (findAt_transparent k P hne pre hs sk i he h) start

/-! ## stepwise overlapping search -/

/-- Stepwise overlapping search (standard semantics): every prefix of the call history reports
the same matches with the prefilter as without. -/
theorem C05_overlap_transparent (P : List (List α)) (hne : ∀ p ∈ P, p ≠ []) (pre : Prefilter α)
    (hs : PrefilterSoundOvl P pre) (sk : StartKind) (i : Input α) (h : supportsAnch sk i.anch)
    (n : Nat) :
    ovlCalls (ideal .std P sk true) (some pre) i n OState.start =
      ovlCalls (ideal .std P sk false) none i n OState.start :=
  ovlCalls_transparent P hne pre hs sk i h n OState.start

/-- ... and from ANY overlapping state, not only the initial one (the two runs do not stay in the
same state, but from a common state they report the same matches) -/
theorem C05_overlap_transparent_from (P : List (List α)) (hne : ∀ p ∈ P, p ≠ [])
    (pre : Prefilter α) (hs : PrefilterSoundOvl P pre) (sk : StartKind) (i : Input α)
    (h : supportsAnch sk i.anch) (n : Nat) (st : OState (St α)) :
    ovlCalls (ideal .std P sk true) (some pre) i n st =
      ovlCalls (ideal .std P sk false) none i n st :=
  ovlCalls_transparent P hne pre hs sk i h n st

/-- `FindOverlappingIter`, for every fuel -/
theorem C05_overlap_iter_transparent (P : List (List α)) (hne : ∀ p ∈ P, p ≠ [])
    (pre : Prefilter α) (hs : PrefilterSoundOvl P pre) (sk : StartKind) (i : Input α)
    (h : supportsAnch sk i.anch) (fuel : Nat) :
    ovlIterAux (ideal .std P sk true) (some pre) i fuel OState.start =
      ovlIterAux (ideal .std P sk false) none i fuel OState.start :=
  ovlIterAux_transparent P hne pre hs sk i h fuel OState.start

/-- with the prefilter the calls report THE overlapping enumeration, then `None` for ever -/
theorem C05_overlap_calls (P : List (List α)) (hne : ∀ p ∈ P, p ≠ []) (pre : Prefilter α)
    (hs : PrefilterSoundOvl P pre) (sk : StartKind) (i : Input α) (h : supportsAnch sk i.anch) :
    ∃ l, IsOverlapList P i.hay i.s i.e i.anch l ∧
      ∀ n, ovlCalls (ideal .std P sk true) (some pre) i n OState.start =
        (l.take n).map (fun m => Except.ok (some m)) ++
          List.replicate (n - l.length) (Except.ok none) := by
  obtain ⟨l, h1, h2⟩ := C03_calls P sk i h
  exact ⟨l, h1, fun n => (C05_overlap_transparent P hne pre hs sk i h n).trans (h2 n)⟩

/-! ### from `PrefilterSound` -/

/-- `PrefilterSound .std` plus: a confirmed match is leftmost in its span -/
theorem C05_overlap_transparent_of_sound (P : List (List α)) (hne : ∀ p ∈ P, p ≠ [])
    (pre : Prefilter α) (hs : PrefilterSound .std P pre)
    (hm : ∀ hay s e m, e ≤ hay.length → s ≤ e → pre hay s e = .mtch m →
      ∀ m', IsOcc P hay s e m' → m.start ≤ m'.start)
    (sk : StartKind) (i : Input α) (h : supportsAnch sk i.anch) (n fuel : Nat) :
    ovlCalls (ideal .std P sk true) (some pre) i n OState.start =
        ovlCalls (ideal .std P sk false) none i n OState.start ∧
      ovlIterAux (ideal .std P sk true) (some pre) i fuel OState.start =
        ovlIterAux (ideal .std P sk false) none i fuel OState.start :=
  ⟨C05_overlap_transparent P hne pre (hs.ovl hm) sk i h n,
    C05_overlap_iter_transparent P hne pre (hs.ovl hm) sk i h fuel⟩

/-- a prefilter that never confirms matches: `PrefilterSound .std` suffices -/
theorem C05_overlap_transparent_of_no_mtch (P : List (List α)) (hne : ∀ p ∈ P, p ≠ [])
    (pre : Prefilter α) (hs : PrefilterSound .std P pre)
    (hm : ∀ hay s e m, pre hay s e ≠ .mtch m)
    (sk : StartKind) (i : Input α) (h : supportsAnch sk i.anch) (n fuel : Nat) :
    ovlCalls (ideal .std P sk true) (some pre) i n OState.start =
        ovlCalls (ideal .std P sk false) none i n OState.start ∧
      ovlIterAux (ideal .std P sk true) (some pre) i fuel OState.start =
        ovlIterAux (ideal .std P sk false) none i fuel OState.start :=
  C05_overlap_transparent_of_sound P hne pre hs
    (fun hay s e m _ _ hp => absurd hp (hm hay s e m)) sk i h n fuel

/-- a prefilter that is sound for a leftmost semantics -/
theorem C05_overlap_transparent_of_leftmost (k : MatchKind) (hk : k = .lf ∨ k = .ll)
    (P : List (List α)) (hne : ∀ p ∈ P, p ≠ []) (pre : Prefilter α) (hs : PrefilterSound k P pre)
    (sk : StartKind) (i : Input α) (h : supportsAnch sk i.anch) (n fuel : Nat) :
    ovlCalls (ideal .std P sk true) (some pre) i n OState.start =
        ovlCalls (ideal .std P sk false) none i n OState.start ∧
      ovlIterAux (ideal .std P sk true) (some pre) i fuel OState.start =
        ovlIterAux (ideal .std P sk false) none i fuel OState.start :=
  ⟨C05_overlap_transparent P hne pre (hs.ovl_of_leftmost hk) sk i h n,
    C05_overlap_iter_transparent P hne pre (hs.ovl_of_leftmost hk) sk i h fuel⟩

/-- a single pattern: `PrefilterSound .std` suffices -/
theorem C05_overlap_transparent_single (p : List α) (hne : p ≠ []) (pre : Prefilter α)
    (hs : PrefilterSound .std [p] pre) (sk : StartKind) (i : Input α)
    (h : supportsAnch sk i.anch) (n fuel : Nat) :
    ovlCalls (ideal .std [p] sk true) (some pre) i n OState.start =
        ovlCalls (ideal .std [p] sk false) none i n OState.start ∧
      ovlIterAux (ideal .std [p] sk true) (some pre) i fuel OState.start =
        ovlIterAux (ideal .std [p] sk false) none i fuel OState.start := by
  have hne' : ∀ q ∈ [p], q ≠ [] := by
    intro q hq; rw [List.mem_singleton.1 hq]; exact hne
  exact ⟨C05_overlap_transparent [p] hne' pre hs.ovl_of_single sk i h n,
    C05_overlap_iter_transparent [p] hne' pre hs.ovl_of_single sk i h fuel⟩

/-! ### `PrefilterSound .std` alone is not enough -/

/-- A prefilter that is sound for the standard non-overlapping search (`PrefilterSound .std`)
and makes the overlapping search lose a match: patterns `[1,2,3]`, `[2]`, haystack `[0,1,2,3]`,
the prefilter confirms `[2]` at `2..3` (the occurrence that ends first); the loop jumps to `2`
and never reports `[1,2,3]` at `1..4`. -/
theorem C05_overlap_needs_start_soundness :
    ∃ (P : List (List Nat)) (pre : Prefilter Nat) (i : Input Nat),
      (∀ p ∈ P, p ≠ []) ∧ PrefilterSound .std P pre ∧ supportsAnch .both i.anch ∧
      ovlCalls (ideal .std P .both true) (some pre) i 3 OState.start =
        [.ok (some ⟨1, 2, 3⟩), .ok none, .ok none] ∧
      ovlCalls (ideal .std P .both false) none i 3 OState.start =
        [.ok (some ⟨1, 2, 3⟩), .ok (some ⟨0, 1, 4⟩), .ok none] ∧
      ovlIterAux (ideal .std P .both true) (some pre) i 5 OState.start = [⟨1, 2, 3⟩] ∧
      ovlIterAux (ideal .std P .both false) none i 5 OState.start = [⟨1, 2, 3⟩, ⟨0, 1, 4⟩] :=
  ⟨cexP, cexPre, cexI, by decide, cexPre_sound, Or.inl rfl, cex_calls_pre, cex_calls_nopre,
    cex_iter_pre, cex_iter_nopre⟩

/-- the statement with `PrefilterSound .std` as only hypothesis is false -/
theorem C05_overlap_not_transparent_std :
    ¬ ∀ (P : List (List Nat)) (_ : ∀ p ∈ P, p ≠ []) (pre : Prefilter Nat)
        (_ : PrefilterSound .std P pre) (sk : StartKind) (i : Input Nat)
        (_ : supportsAnch sk i.anch) (n : Nat),
        ovlCalls (ideal .std P sk true) (some pre) i n OState.start =
          ovlCalls (ideal .std P sk false) none i n OState.start := by
  intro hall
  have := hall cexP (by decide) cexPre cexPre_sound .both cexI (Or.inl rfl) 3
  rw [cex_calls_pre, cex_calls_nopre] at this
  simp at this

end AcVerif

/-! ## the builder's choice under standard semantics -/
namespace AcVerif
open AcVerif.PreP AcVerif.PreP2

/-- Every prefilter the case-sensitive builder can return for a standard-semantics searcher is
sound for the overlapping loop: it is never the packed searcher (`C05_builder_gates`), `memmem`
is only chosen for a single pattern, and the byte-set prefilters never confirm matches. -/
theorem C05_builder_sound_ovl (K : Consts) (freq : UInt8 → Nat) (pats : List (List UInt8))
    (avx2 ssse3 : Bool) (hne : ∀ p ∈ pats, p ≠ []) (ch : PreChoice)
    (hb : buildPrefilter K .std false freq pats avx2 ssse3 = some ch) :
    PrefilterSoundOvl pats ch.findIn := by
  cases hch : ch with
  | memmem needle =>
    obtain ⟨hp, hs⟩ := C05_memmem_sound K .std freq pats avx2 ssse3 hne ch hb needle hch
    rw [hch] at hs
    subst hp
    exact hs.ovl_of_single
  | startBytes bs =>
    obtain ⟨hcov, _⟩ := C05_start_sound K .std freq pats avx2 ssse3 hne ch hb bs hch
    exact (startBytes_sound .ll pats bs hcov).ovl_of_leftmost (Or.inr rfl)
  | rareBytes bs offs =>
    obtain ⟨hcov, hoff, _⟩ := C05_rare_sound K .std freq pats avx2 ssse3 hne ch hb bs offs hch
    exact (rareBytes_sound .ll pats bs offs hcov hoff).ovl_of_leftmost (Or.inr rfl)
  | packed srch =>
    exact absurd hch (((C05_builder_gates K .std false freq pats avx2 ssse3).2 ch hb).2 rfl srch)

/-- the standard searcher with the prefilter chosen by the builder: the stepwise overlapping
search reports the same call history as the searcher without prefilter -/
theorem C05_builder_overlap_transparent (K : Consts) (freq : UInt8 → Nat)
    (pats : List (List UInt8)) (avx2 ssse3 : Bool) (hne : ∀ p ∈ pats, p ≠ []) (ch : PreChoice)
    (hb : buildPrefilter K .std false freq pats avx2 ssse3 = some ch)
    (sk : StartKind) (i : Input UInt8) (h : supportsAnch sk i.anch) (n : Nat) :
    ovlCalls (ideal .std pats sk true) (some ch.findIn) i n OState.start =
      ovlCalls (ideal .std pats sk false) none i n OState.start :=
  C05_overlap_transparent pats hne _ (C05_builder_sound_ovl K freq pats avx2 ssse3 hne ch hb)
    sk i h n

theorem C05_builder_overlap_iter_transparent (K : Consts) (freq : UInt8 → Nat)
    (pats : List (List UInt8)) (avx2 ssse3 : Bool) (hne : ∀ p ∈ pats, p ≠ []) (ch : PreChoice)
    (hb : buildPrefilter K .std false freq pats avx2 ssse3 = some ch)
    (sk : StartKind) (i : Input UInt8) (h : supportsAnch sk i.anch) (fuel : Nat) :
    ovlIterAux (ideal .std pats sk true) (some ch.findIn) i fuel OState.start =
      ovlIterAux (ideal .std pats sk false) none i fuel OState.start :=
  C05_overlap_iter_transparent pats hne _
    (C05_builder_sound_ovl K freq pats avx2 ssse3 hne ch hb) sk i h fuel

/-- the non-overlapping iterator with the prefilter chosen by the builder (any semantics; the
packed searcher relative to C06) -/
theorem C05_builder_iter_transparent (K : Consts) (k : MatchKind) (freq : UInt8 → Nat)
    (pats : List (List UInt8)) (avx2 ssse3 : Bool) (hne : ∀ p ∈ pats, p ≠ []) (ch : PreChoice)
    (hb : buildPrefilter K k false freq pats avx2 ssse3 = some ch)
    (hC06 : ∀ srch, ch = .packed srch → ∀ hay s e, s ≤ e → e ≤ hay.length →
      IsFind k pats hay s e false (srch.findIn hay s e))
    (sk : StartKind) (i : Input UInt8) (he : k = .std ∨ i.earliest = false)
    (h : supportsAnch sk i.anch) :
    findIter (ideal k pats sk true) (some ch.findIn) i = findIter (ideal k pats sk false) none i :=
  C05_iter_transparent k pats hne _ (C05_builder_sound K k freq pats avx2 ssse3 hne ch hb hC06)
    sk i he h

/-! ## case-insensitive searcher (`fold = true`)

The automaton reads the haystack through `foldByte`, the prefilter reads the raw haystack and is
sound relative to the folded patterns in the folded haystack. -/

theorem foldPats_ne_nil {P : List (List UInt8)} (hne : ∀ p ∈ P, p ≠ []) :
    ∀ p' ∈ P.map (·.map foldByte), p' ≠ [] := by
  intro p' hp'
  obtain ⟨p, hp, rfl⟩ := List.mem_map.1 hp'
  intro h0
  exact hne p hp (List.map_eq_nil_iff.1 h0)

/-- the non-overlapping iterator of the case-insensitive searcher -/
theorem C05_iter_transparent_fold (k : MatchKind) (P : List (List UInt8)) (hne : ∀ p ∈ P, p ≠ [])
    (pre : Prefilter UInt8)
    (hs : ∀ hay, PrefilterSoundAt k (P.map (·.map foldByte)) (pre hay) (hay.map foldByte))
    (sk : StartKind) (i : Input UInt8)
    (he : k = .std ∨ i.earliest = false) (h : supportsAnch sk i.anch) :
    findIter ((ideal k (P.map (·.map foldByte)) sk true).comap foldByte) (some pre) i =
      findIter ((ideal k (P.map (·.map foldByte)) sk false).comap foldByte) none i :=
  findIter_transparent_comap k _ (foldPats_ne_nil hne) pre sk foldByte i (hs i.hay) he h

/-- the stepwise overlapping search of the case-insensitive searcher -/
theorem C05_overlap_transparent_fold (P : List (List UInt8)) (hne : ∀ p ∈ P, p ≠ [])
    (pre : Prefilter UInt8)
    (hs : ∀ hay, PrefilterSoundOvlAt (P.map (·.map foldByte)) (pre hay) (hay.map foldByte))
    (sk : StartKind) (i : Input UInt8) (h : supportsAnch sk i.anch) (n fuel : Nat) :
    ovlCalls ((ideal .std (P.map (·.map foldByte)) sk true).comap foldByte) (some pre) i n
        OState.start =
      ovlCalls ((ideal .std (P.map (·.map foldByte)) sk false).comap foldByte) none i n
        OState.start ∧
    ovlIterAux ((ideal .std (P.map (·.map foldByte)) sk true).comap foldByte) (some pre) i fuel
        OState.start =
      ovlIterAux ((ideal .std (P.map (·.map foldByte)) sk false).comap foldByte) none i fuel
        OState.start :=
  ⟨ovlCalls_transparent_comap _ (foldPats_ne_nil hne) pre sk foldByte i (hs i.hay) h n _,
    ovlIterAux_transparent_comap _ (foldPats_ne_nil hne) pre sk foldByte i (hs i.hay) h fuel _⟩

/-- every prefilter the case-insensitive builder can return for a standard-semantics searcher is
sound for the overlapping loop (it is a byte-set prefilter: it never confirms matches) -/
theorem C05_builder_sound_ovl_fold (K : Consts) (freq : UInt8 → Nat) (pats : List (List UInt8))
    (avx2 ssse3 : Bool) (hne : ∀ p ∈ pats, p ≠ []) (ch : PreChoice)
    (hb : buildPrefilter K .std true freq pats avx2 ssse3 = some ch) (hay : List UInt8) :
    PrefilterSoundOvlAt (pats.map (·.map foldByte)) (ch.findIn hay) (hay.map foldByte) := by
  have hg := ((C05_builder_gates K .std true freq pats avx2 ssse3).2 ch hb).1 rfl
  cases hch : ch with
  | memmem needle => exact absurd hch (hg.1 needle)
  | startBytes bs =>
    obtain ⟨hcov, _⟩ := C05_start_sound_fold K .std freq pats avx2 ssse3 hne ch hb bs hch
    exact (startBytes_sound_fold .ll pats bs hcov hay).ovl_of_leftmost (Or.inr rfl)
  | rareBytes bs offs =>
    obtain ⟨hcov, hoff, _⟩ :=
      C05_rare_sound_fold K .std freq pats avx2 ssse3 hne ch hb bs offs hch
    exact (rareBytes_sound_fold .ll pats bs offs hcov hoff hay).ovl_of_leftmost (Or.inr rfl)
  | packed srch => exact absurd hch (hg.2 srch)

/-- the case-insensitive standard searcher with the prefilter chosen by the builder: stepwise
overlapping search and overlapping iterator -/
theorem C05_builder_overlap_transparent_fold (K : Consts) (freq : UInt8 → Nat)
    (pats : List (List UInt8)) (avx2 ssse3 : Bool) (hne : ∀ p ∈ pats, p ≠ []) (ch : PreChoice)
    (hb : buildPrefilter K .std true freq pats avx2 ssse3 = some ch)
    (sk : StartKind) (i : Input UInt8) (h : supportsAnch sk i.anch) (n fuel : Nat) :
    ovlCalls ((ideal .std (pats.map (·.map foldByte)) sk true).comap foldByte) (some ch.findIn) i n
        OState.start =
      ovlCalls ((ideal .std (pats.map (·.map foldByte)) sk false).comap foldByte) none i n
        OState.start ∧
    ovlIterAux ((ideal .std (pats.map (·.map foldByte)) sk true).comap foldByte) (some ch.findIn)
        i fuel OState.start =
      ovlIterAux ((ideal .std (pats.map (·.map foldByte)) sk false).comap foldByte) none i fuel
        OState.start :=
  C05_overlap_transparent_fold pats hne _
    (C05_builder_sound_ovl_fold K freq pats avx2 ssse3 hne ch hb) sk i h n fuel

/-- the case-insensitive non-overlapping iterator with the prefilter chosen by the builder -/
theorem C05_builder_iter_transparent_fold (K : Consts) (k : MatchKind) (freq : UInt8 → Nat)
    (pats : List (List UInt8)) (avx2 ssse3 : Bool) (hne : ∀ p ∈ pats, p ≠ []) (ch : PreChoice)
    (hb : buildPrefilter K k true freq pats avx2 ssse3 = some ch)
    (sk : StartKind) (i : Input UInt8) (he : k = .std ∨ i.earliest = false)
    (h : supportsAnch sk i.anch) :
    findIter ((ideal k (pats.map (·.map foldByte)) sk true).comap foldByte) (some ch.findIn) i =
      findIter ((ideal k (pats.map (·.map foldByte)) sk false).comap foldByte) none i :=
  C05_iter_transparent_fold k pats hne _
    (C05_builder_sound_fold K k freq pats avx2 ssse3 hne ch hb) sk i he h

/-! ## non-vacuity -/

/-- a concrete `PrefilterSoundOvl` prefilter: the start-byte prefilter for `[[1,2],[1,3]]` -/
example : PrefilterSoundOvl [[1, 2], [1, 3]] (PreChoice.startBytes [1]).findIn :=
  (PreP.startBytes_sound .ll _ _ (by decide)).ovl_of_leftmost (Or.inr rfl)

/-- the builder picks it under standard semantics -/
example : (buildPrefilter {} .std false (fun _ => 0) [[1, 2], [1, 3]] false false).map
    PreChoice.name = some "start1" := by decide

private def exO : Input UInt8 := ⟨[0, 0, 0, 1, 3, 1, 2], 0, 7, false, false, by decide⟩

/-- the prefilter jumps (from position 0 to position 3) ... -/
example : (PreChoice.startBytes [1]).findIn exO.hay 0 exO.e = .pos 3 := by decide

/-- ... and the overlapping iterator still yields every match -/
example : ovlIterAux (ideal .std [[1, 2], [1, 3]] .both true)
    (some (PreChoice.startBytes [1]).findIn) exO 9 OState.start = [⟨1, 3, 5⟩, ⟨0, 5, 7⟩] := by
  rw [C05_overlap_iter_transparent _ (by decide) _
    ((PreP.startBytes_sound .ll _ _ (by decide)).ovl_of_leftmost (Or.inr rfl)) .both exO
    (Or.inl rfl)]
  decide +kernel

end AcVerif
