import AcVerif.Proofs.LmTop
import AcVerif.Proofs.Earliest
import AcVerif.Theorems.C02
/-!
# C14 – earliest mode on the leftmost match kinds

With `earliest = true` the search reports a genuine admissible occurrence, it
reports one exactly when the normal search does, and it never ends later than
the normal match.
-/
namespace AcVerif
variable {α : Type} [DecidableEq α]

theorem C14_earliest (k : MatchKind) (hk : k = .ll ∨ k = .lf) (P : List (List α))
    (sk : StartKind) (i : Input α) (h : supportsAnch sk i.anch) :
    ∃ r r', tryFindFwd (ideal k P sk false) none { i with earliest := true } = .ok r ∧
      tryFindFwd (ideal k P sk false) none { i with earliest := false } = .ok r' ∧
      r.isSome = r'.isSome ∧
      ∀ m, r = some m → IsOccA P i.hay i.s i.e i.anch m ∧
        ∀ m', r' = some m' → m.stop ≤ m'.stop := by
  obtain ⟨r, h1, hocc⟩ := LmP.find_isOcc k hk P sk { i with earliest := true } h
  obtain ⟨r', h2, _⟩ := LmP.find_isOcc k hk P sk { i with earliest := false } h
  have hkind : (ideal k P sk false).kind ≠ .std := by
    rcases hk with rfl | rfl <;> simp [ideal]
  obtain ⟨h3, h4⟩ := LmP.tryFind_earliest_cmp _ hkind i r r' h1 h2
  exact ⟨r, r', h1, h2, h3, fun m hm => ⟨hocc m hm, fun m' hm' => h4 m m' hm hm'⟩⟩

omit [DecidableEq α] in
/-- an `IsFind` answer exists iff some admissible occurrence exists -/
theorem isFind_isSome_iff {k : MatchKind} {P : List (List α)} {hay : List α} {s e : Nat}
    {anch : Bool} {r : Option Mat} (h : IsFind k P hay s e anch r) :
    r.isSome = true ↔ ∃ m, IsOccA P hay s e anch m := by
  cases r with
  | none => simp only [Option.isSome_none, Bool.false_eq_true, false_iff, not_exists]; exact h
  | some m => simp only [Option.isSome_some, true_iff]; exact ⟨m, h.1⟩

/-- `is_match` (a search in earliest mode) is true iff some pattern occurs in the span,
respecting anchoring – leftmost kinds -/
theorem C14_is_match_leftmost (k : MatchKind) (hk : k = .ll ∨ k = .lf) (P : List (List α))
    (sk : StartKind) (i : Input α) (h : supportsAnch sk i.anch) :
    ∃ r, tryFindFwd (ideal k P sk false) none { i with earliest := true } = .ok r ∧
      (r.isSome = true ↔ ∃ m, IsOccA P i.hay i.s i.e i.anch m) := by
  obtain ⟨r, r', h1, h2, h3, _⟩ := C14_earliest k hk P sk i h
  refine ⟨r, h1, ?_⟩
  rw [h3]
  rcases hk with rfl | rfl
  · obtain ⟨r'', h2', hf⟩ := LmP.find_ll P sk { i with earliest := false } rfl h
    rw [h2] at h2'; cases h2'
    exact isFind_isSome_iff hf
  · obtain ⟨r'', h2', hf⟩ := LmP.find_lf P sk { i with earliest := false } rfl h
    rw [h2] at h2'; cases h2'
    exact isFind_isSome_iff hf

/-- … and for the standard kind (where every search is in earliest mode) -/
theorem C14_is_match_std (P : List (List α)) (sk : StartKind) (i : Input α)
    (h : supportsAnch sk i.anch) :
    ∃ r, tryFindFwd (ideal .std P sk false) none { i with earliest := true } = .ok r ∧
      (r.isSome = true ↔ ∃ m, IsOccA P i.hay i.s i.e i.anch m) := by
  obtain ⟨r, h1, hf⟩ := C02_find P sk { i with earliest := true } h
  exact ⟨r, h1, isFind_isSome_iff hf⟩

/-! Non-vacuity (evaluation through the proved structural form `findQ`): earliest mode stops
at `[1]` while the normal leftmost-longest search extends to `[1,2,3]`. -/

example : tryFindFwd (ideal .ll [[1], [1, 2, 3], [1], [2]] .both false) none
    { hay := [0, 1, 2, 3], s := 0, e := 4, earliest := true, valid := by decide } =
    .ok (some ⟨0, 1, 2⟩) := by
  rw [LmP.tryFind_ideal _ (Or.inl rfl) _ _ _ (Or.inl rfl) (by decide)]; rfl

example : tryFindFwd (ideal .ll [[1], [1, 2, 3], [1], [2]] .both false) none
    { hay := [0, 1, 2, 3], s := 0, e := 4, earliest := false, valid := by decide } =
    .ok (some ⟨1, 1, 4⟩) := by
  rw [LmP.tryFind_ideal _ (Or.inl rfl) _ _ _ (Or.inl rfl) (by decide)]; rfl

/-- with an empty pattern the earliest match is the empty one at the span start -/
example : tryFindFwd (ideal .lf [[1, 2], [], [1, 2]] .both false) none
    { hay := [1, 2, 3], s := 0, e := 3, anch := true, earliest := true, valid := by decide } =
    .ok (some ⟨1, 0, 0⟩) := by
  rw [LmP.tryFind_ideal _ (Or.inr rfl) _ _ _ (Or.inl rfl) (by decide)]; rfl

end AcVerif
