import AcVerif.ContigChecked
import AcVerif.Proofs.ContigSafeStep
import AcVerif.Theorems.C16All
/-!
# L1eSafe – no search on the contiguous NFA indexes `repr` out of range (C15, memory side)

`ContigModel.lean` reads the `u32` words of the contiguous NFA with the totalised `getD i 0`; the
Rust code (`nfa/contiguous.rs`) indexes the vector and panics when an index is out of range.
`ContigChecked.lean` repeats `next_state`, `match_len` and `match_pattern` with every read done
through `repr[i]?` (one checked read per Rust index expression, see the table there).  Here: for
**every** pattern list `P`, match kind, dense depth, both settings of `byte_classes`, with or
without prefilter, both anchoring modes, and the state `q` reached from the start state after
**any** byte string `w`:

* `L1eSafe_state_in_range`: `q` and `q + 1` are valid indices of `repr` (the kind word and the
  failure link of a state), and `q ≠ 1`.  State ids of the contiguous NFA are offsets into `repr`;
  `DEAD = 0` IS an offset (a dense state all of whose transitions are `DEAD` is written at offset
  0), whereas `FAIL = 1` is not the offset of any state and is never reached – it only occurs as
  the "no transition" sentinel inside dense rows.
* `L1eSafe_next`: for every byte `b` the checked `next_state` with fuel `repr.size + 1` returns
  `some` of the totalised transition: no index is out of range along the whole failure chain
  (kind word, dense entry, the class-word slice `repr[o + 2..][..classes_len]`, the target word
  `repr[trans_offset + i * 4 + j]`, the failure link `repr[o + 1]`), and the loop terminates
  within `repr.size + 1` iterations.  The subtle read is the target word of a sparse state: the
  last class word is padded by repeating the last class, and the target slots of padding lanes
  lie beyond the `trans_len` targets (in the match words or in the NEXT state, or beyond the end
  of `repr` for the last state); `sparseIdx_spec` shows the scan always stops at a real lane.
* `L1eSafe_match_reads`: at a match state (`is_match(q)`) all reads of `match_len` and of
  `match_pattern(q, i)` for every `i < match_len(q)` are in range;
  `L1eSafe_match` (`P.length < 2^31`, the `PatternID` limit): moreover the list is non-empty and
  every id is `< P.length` (so `pattern_lens[pid]` is in range).
* `L1eSafe_inbounds`: all of the above in one statement.

Only `compile k false P` (no ASCII case folding) is covered: the L1e layer has no simulation for
the folded NFA (`contig_run`, `step_same`, `stOK_live` are proved from `FS`, not `FSf`).  The
parts `ContigSafeScan` / `ContigSafeDecode` do not depend on the NFA at all.
-/
namespace AcVerif
open AcVerif.L1cP AcVerif.L1dP AcVerif.L1eP AcVerif.CNfa

/-- the reachable state is `newId` of a live state of the noncontiguous NFA -/
theorem L1eSafe_reach (k : MatchKind) (P : List (List UInt8)) (hasPre bc : Bool) (dd : Nat)
    (anch : Bool) (s0 : Nat)
    (hs : ((buildContig (CNfa.compile k false P) dd bc hasPre).toAut k P hasPre).start anch = some s0)
    (w : List UInt8) :
    ∃ L q' s, FS k (patSet k P) L (CNfa.compile k false P) ∧ FX L (CNfa.compile k false P) ∧
      Rel L anch s q' ∧
      ((buildContig (CNfa.compile k false P) dd bc hasPre).toAut k P hasPre).runFrom anch s0 w =
        cNewId (CNfa.compile k false P) dd bc s := by
  obtain ⟨L, q', hFS, hX, h1, h2⟩ := L1e_run k P hasPre bc dd anch w
  have e : s0 = if anch then (buildContig (CNfa.compile k false P) dd bc hasPre).startA
      else (buildContig (CNfa.compile k false P) dd bc hasPre).startU :=
    (Option.some.inj hs).symm
  exact ⟨L, q', _, hFS, hX, h1, by rw [e]; exact h2⟩

/-- **state ids are valid offsets.**  The kind word `repr[q]` and the failure link `repr[q + 1]`
of every reachable state exist, and `q` is never the `FAIL` sentinel `1`. -/
theorem L1eSafe_state_in_range (k : MatchKind) (P : List (List UInt8)) (hasPre bc : Bool) (dd : Nat)
    (anch : Bool) (s0 : Nat)
    (hs : ((buildContig (CNfa.compile k false P) dd bc hasPre).toAut k P hasPre).start anch = some s0)
    (w : List UInt8) :
    let M := buildContig (CNfa.compile k false P) dd bc hasPre
    let q := (M.toAut k P hasPre).runFrom anch s0 w
    q < M.repr.size ∧ q + 1 < M.repr.size ∧ q ≠ CNfa.FAIL := by
  intro M q
  obtain ⟨L, q', s, hFS, hX, h1, h2⟩ := L1eSafe_reach k P hasPre bc dd anch s0 hs w
  have hv := (LvA_of_Rel h1).lv
  have hlt : q + 1 < M.repr.size := by
    show Aut.runFrom _ anch s0 w + 1 < (buildContig _ dd bc hasPre).repr.size
    rw [h2, buildContig_eq]
    exact live_lt_size dd bc hFS hv
  refine ⟨by omega, hlt, ?_⟩
  show Aut.runFrom _ anch s0 w ≠ _
  rw [h2]
  exact cNewId_ne_one (shufOK _ hFS.four_le_size) dd bc (hv.ne_fail hFS)

/-- **`next_state` never indexes out of range.**  On every reachable state and every byte the
bounds-checked `next_state` (fuel `repr.size + 1`) succeeds and returns the transition of the
totalised model. -/
theorem L1eSafe_next (k : MatchKind) (P : List (List UInt8)) (hasPre bc : Bool) (dd : Nat)
    (anch : Bool) (s0 : Nat)
    (hs : ((buildContig (CNfa.compile k false P) dd bc hasPre).toAut k P hasPre).start anch = some s0)
    (w : List UInt8) (b : UInt8) :
    let M := buildContig (CNfa.compile k false P) dd bc hasPre
    let A := M.toAut k P hasPre
    M.nextState? anch (M.repr.size + 1) (A.runFrom anch s0 w) b =
      some (A.next anch (A.runFrom anch s0 w) b) := by
  intro M A
  obtain ⟨L, q', s, hFS, hX, h1, h2⟩ := L1eSafe_reach k P hasPre bc dd anch s0 hs w
  show M.nextState? anch (M.repr.size + 1) (Aut.runFrom _ anch s0 w) b =
    some (M.nextState anch (M.repr.size + 1) (Aut.runFrom _ anch s0 w) b (0, 0)).1
  rw [h2]
  show (buildContig _ dd bc hasPre).nextState? anch ((buildContig _ dd bc hasPre).repr.size + 1) _ b =
    some ((buildContig _ dd bc hasPre).nextState anch ((buildContig _ dd bc hasPre).repr.size + 1) _ b (0, 0)).1
  rw [buildContig_eq]
  exact next?_live dd bc hasPre hFS hX anch b (LvA_of_Rel h1)

/-- a reachable state that reports `is_match` is `newId` of a state with a non-empty match list -/
theorem L1eSafe_match_state (k : MatchKind) (P : List (List UInt8)) (hasPre bc : Bool) (dd : Nat)
    {L : List (List UInt8)} (hFS : FS k (patSet k P) L (CNfa.compile k false P)) {s : Nat}
    (hv : Lv L s)
    (hm : ((buildContig (CNfa.compile k false P) dd bc hasPre).toAut k P hasPre).isMatch
      (cNewId (CNfa.compile k false P) dd bc s) = true) :
    ((CNfa.compile k false P).getD s {}).matches_ ≠ [] := by
  have hS := shufOK _ hFS.four_le_size
  have hfm := flag_match hS dd bc hasPre (FS_isMatch_SU_SA hFS) (FS_isMatch_dead hFS)
    (hv.lt_size hFS) (hv.ne_fail hFS)
  rw [buildContig_eq] at hm
  have hm' : (cNewId (CNfa.compile k false P) dd bc s != 0 &&
      decide (cNewId (CNfa.compile k false P) dd bc s ≤
        (cBuild (CNfa.compile k false P) dd bc hasPre).maxMatchId)) = true := hm
  simp only [Bool.and_eq_true, bne_iff_ne, ne_eq, decide_eq_true_eq] at hm'
  have := (hfm.1 hm').2
  unfold CNfa.isMatch at this
  intro e
  rw [e] at this
  simp at this

/-- **`match_len` / `match_pattern` never index out of range.**  At a reachable match state all
reads of the match words are in range (no hypothesis on the number of patterns). -/
theorem L1eSafe_match_reads (k : MatchKind) (P : List (List UInt8)) (hasPre bc : Bool) (dd : Nat)
    (anch : Bool) (s0 : Nat)
    (hs : ((buildContig (CNfa.compile k false P) dd bc hasPre).toAut k P hasPre).start anch = some s0)
    (w : List UInt8) :
    let M := buildContig (CNfa.compile k false P) dd bc hasPre
    let A := M.toAut k P hasPre
    A.isMatch (A.runFrom anch s0 w) = true →
      M.matchList? (A.runFrom anch s0 w) = some (M.matchList (A.runFrom anch s0 w)) := by
  intro M A hm
  obtain ⟨L, q', s, hFS, hX, h1, h2⟩ := L1eSafe_reach k P hasPre bc dd anch s0 hs w
  have hv := (LvA_of_Rel h1).lv
  have hm2 : A.isMatch (cNewId (CNfa.compile k false P) dd bc s) = true := by
    rw [← h2]; exact hm
  have hne := L1eSafe_match_state k P hasPre bc dd hFS hv hm2
  show M.matchList? (Aut.runFrom _ anch s0 w) = some (M.matchList (Aut.runFrom _ anch s0 w))
  rw [h2]
  show (buildContig _ dd bc hasPre).matchList? _ = some ((buildContig _ dd bc hasPre).matchList _)
  rw [buildContig_eq]
  exact matchList?_live dd bc hasPre hFS hv hne

/-- … and (with at most `2^31 - 1` patterns, the `PatternID` limit) the decoded list is non-empty
and holds valid pattern ids, so `pattern_lens[pid]` is in range as well -/
theorem L1eSafe_match (k : MatchKind) (P : List (List UInt8)) (hasPre bc : Bool) (dd : Nat)
    (hP : P.length < 2147483648) (anch : Bool) (s0 : Nat)
    (hs : ((buildContig (CNfa.compile k false P) dd bc hasPre).toAut k P hasPre).start anch = some s0)
    (w : List UInt8) :
    let M := buildContig (CNfa.compile k false P) dd bc hasPre
    let A := M.toAut k P hasPre
    A.isMatch (A.runFrom anch s0 w) = true →
      M.matchList? (A.runFrom anch s0 w) = some (M.matchList (A.runFrom anch s0 w)) ∧
        M.matchList (A.runFrom anch s0 w) ≠ [] ∧
        ∀ p ∈ M.matchList (A.runFrom anch s0 w), p < P.length := by
  intro M A hm
  refine ⟨L1eSafe_match_reads k P hasPre bc dd anch s0 hs w hm, ?_⟩
  obtain ⟨L, q', s, hFS, hX, h1, h2⟩ := L1eSafe_reach k P hasPre bc dd anch s0 hs w
  have hv := (LvA_of_Rel h1).lv
  have hm2 : A.isMatch (cNewId (CNfa.compile k false P) dd bc s) = true := by
    rw [← h2]; exact hm
  have hne := L1eSafe_match_state k P hasPre bc dd hFS hv hm2
  have hlen : ((CNfa.compile k false P).getD s {}).matches_.length < 2147483648 := by
    rw [Rel_mats hFS h1]
    have := out_length_le k P q'
    omega
  have hl : M.matchList (A.runFrom anch s0 w) = ((CNfa.compile k false P).getD s {}).matches_ := by
    show M.matchList (Aut.runFrom _ anch s0 w) = _
    rw [h2]
    show (buildContig _ dd bc hasPre).matchList _ = _
    rw [buildContig_eq]
    exact matchList_live dd bc hasPre hFS hv hne hlen
  rw [hl]
  refine ⟨hne, ?_⟩
  intro p hp
  rw [Rel_mats hFS h1] at hp
  exact mem_out_lt hp

/-- **every read is in bounds** (the contiguous NFA's counterpart of `L1dIds_inbounds`) -/
theorem L1eSafe_inbounds (k : MatchKind) (P : List (List UInt8)) (hasPre bc : Bool) (dd : Nat)
    (hP : P.length < 2147483648) (anch : Bool) (s0 : Nat)
    (hs : ((buildContig (CNfa.compile k false P) dd bc hasPre).toAut k P hasPre).start anch = some s0)
    (w : List UInt8) :
    let M := buildContig (CNfa.compile k false P) dd bc hasPre
    let A := M.toAut k P hasPre
    let q := A.runFrom anch s0 w
    (∀ b, M.nextState? anch (M.repr.size + 1) q b = some (A.next anch q b)) ∧
      q + 1 < M.repr.size ∧ q ≠ CNfa.FAIL ∧
      (A.isMatch q = true →
        M.matchList? q = some (M.matchList q) ∧ M.matchList q ≠ [] ∧
          ∀ p ∈ M.matchList q, p < P.length) := by
  intro M A q
  have h1 := L1eSafe_state_in_range k P hasPre bc dd anch s0 hs w
  exact ⟨fun b => L1eSafe_next k P hasPre bc dd anch s0 hs w b, h1.2.1, h1.2.2,
    L1eSafe_match k P hasPre bc dd hP anch s0 hs w⟩

/-! ## non-vacuity: `[1, 2]`, `[2]` (dense depth 0, byte classes on, no prefilter)

`repr` has 29 words (see `L1e.lean`): offset 0 dead (dense), 6 the node `12` (sparse, no
transition, matches `0, 1`), 11 the node `2` (sparse, inline match `1`), 14 / 20 the start states
(dense), 26 the node `1` (`KIND_ONE`, the LAST state). -/

set_option maxRecDepth 1000000

/-- the checked functions succeed on reachable states … -/
example :
    let m := buildContig (CNfa.compile .std false [[1, 2], [2]]) 0 true false
    m.repr.size = 29 ∧
      m.nextState? false (m.repr.size + 1) 6 1 = some 26 ∧   -- two failure links, then `1`
      m.nextState? false (m.repr.size + 1) 26 2 = some 6 ∧   -- `KIND_ONE`: reads `repr[28]`, the last word
      m.nextState? true (m.repr.size + 1) 26 1 = some 0 ∧    -- anchored: no failure link is read
      m.matchList? 6 = some [0, 1] ∧ m.matchList? 11 = some [1] := by
  decide +kernel

/-- … and they do detect out-of-range indices: a state id beyond the end (`29 = repr.size`), the
middle of a state used as a state id (`repr[28] = 6` is read as a sparse state with 6
transitions, whose class-word slice `repr[30..32]` is out of range), `match_len` on the non-match
state 26 (`KIND_ONE = 254`: read as a sparse state with 254 transitions, `state[2 + 64 + 254]` is
far beyond the end: the Rust code would panic – the documented "unspecified behaviour" of
`match_len` on non-match states; it is only called under `is_match`), and too little fuel (the
failure chain 6 → 11 → 14 needs three iterations). -/
example :
    let m := buildContig (CNfa.compile .std false [[1, 2], [2]]) 0 true false
    m.nextState? false (m.repr.size + 1) 29 1 = none ∧
      m.nextState? false (m.repr.size + 1) 28 1 = none ∧
      m.matchList? 26 = none ∧ m.matchList? 29 = none ∧
      m.nextState? false 2 6 1 = none := by
  decide +kernel

/-! ## why the sparse scan needs a proof: `[1, 2]`, `[1, 3]`

Classes `0, 1, 2, 3` for the bytes `0 … 3`, `4` for the rest.  The node `1` is the LAST state
(offset 27 of 32 words): `[2, 13, 0x03030302, 7, 10]` – two transitions, classes `2, 3` packed
into one word and padded with `3, 3`.  The targets of lanes 0 and 1 are `repr[30]`, `repr[31]`;
the target slots of the padding lanes 2 and 3 would be `repr[32]`, `repr[33]`: beyond the end of
the vector.  The scan never gets there because lane 1 (the real `3`) matches first. -/

example :
    let m := buildContig (CNfa.compile .std false [[1, 2], [1, 3]]) 0 true false
    m.repr.size = 32 ∧ (m.repr.toList.drop 27 = [2, 13, 50529026, 7, 10]) ∧
      m.nextState? false (m.repr.size + 1) 27 2 = some 7 ∧
      m.nextState? false (m.repr.size + 1) 27 3 = some 10 ∧     -- reads `repr[31]`, the last word
      m.repr[27 + 2 + 1 + 2]? = none ∧ m.repr[27 + 2 + 1 + 3]? = none ∧  -- the padding lanes' slots
      m.nextState? false (m.repr.size + 1) 27 7 = some 13 := by  -- no lane matches: failure link
  decide +kernel

/-- the next state is again in range (`L1eSafe_state_in_range` after `w ++ [b]`) -/
theorem L1eSafe_next_in_range (k : MatchKind) (P : List (List UInt8)) (hasPre bc : Bool) (dd : Nat)
    (anch : Bool) (s0 : Nat)
    (hs : ((buildContig (CNfa.compile k false P) dd bc hasPre).toAut k P hasPre).start anch = some s0)
    (w : List UInt8) (b : UInt8) :
    let M := buildContig (CNfa.compile k false P) dd bc hasPre
    let A := M.toAut k P hasPre
    A.next anch (A.runFrom anch s0 w) b + 1 < M.repr.size := by
  intro M A
  have h := (L1eSafe_state_in_range k P hasPre bc dd anch s0 hs (w ++ [b])).2.1
  rw [Aut.runFrom_append] at h
  exact h

end AcVerif
