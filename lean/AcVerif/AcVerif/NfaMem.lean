/-!
# L1c-mem: the linked-list memory layer of the noncontiguous NFA

`AcVerif/Compiler.lean` transcribes the noncontiguous NFA compiler over an
abstract state (`CState`: a sorted association list of transitions and a list
of pattern ids).  The Rust `NFA` (`src/nfa/noncontiguous.rs`) stores both as
*linked lists inside shared vectors*:

* `State { sparse, dense, matches, fail, depth }` (lines 712-750): `sparse` is
  the head link into `nfa.sparse`, `matches` the head link into `nfa.matches`;
* `nfa.sparse : Vec<Transition { byte, next, link }>` (lines 773-777);
* `nfa.matches : Vec<Match { pid, link }>` (lines 810-813);
* index 0 of both side vectors is a dummy (`Compiler::compile`, lines 972-973),
  so `link == 0` ends a list.

This file transcribes that layer: same walk order, same early exits, same
writes.  Loops are fuel bounded with `fuel = vector size + 1`.

Transcribed: `alloc_state`, `alloc_transition`, `alloc_match`, `iter_trans`,
`iter_matches`, `next_link`, `follow_transition_sparse`, `add_transition`,
`init_full_state`, `add_match`, `copy_matches`, `State::is_match`, and the three
places where the compiler itself walks a list and writes `next` in place
(`add_unanchored_start_state_loop`, `close_start_state_loop_for_leftmost`,
`set_anchored_start_state`), plus the preamble of `Compiler::compile`.
The refinement theorems are in `AcVerif/Theorems/L1cMem.lean`.

Not modelled (and why):
* `StateID::new(len)` overflow errors in `alloc_*` / `copy_matches`: ids are `Nat`;
* the `dense` table (`State::dense`, lines 387-391 of `add_transition`):
  `add_transition` and `init_full_state` only run before `densify`, when every
  `dense` is zero;
* out-of-bounds panics of `self.sparse[i]` / `self.matches[i]`: reads use `getD`
  with the `Default` value, writes are `setIfInBounds`.  Under the representation
  invariant of `AcVerif/Theorems/L1cMem.lean` every access is in bounds.
-/
namespace AcVerif

/-- `State` (lines 712-750) without `dense` -/
structure MState where
  sparse : Nat := 0
  matches_ : Nat := 0
  fail : Nat := 0
  depth : Nat := 0
deriving Repr, Inhabited, DecidableEq

/-- `Transition` (lines 773-777); the default is `Transition::default()` -/
structure MTrans where
  byte : UInt8 := 0
  next : Nat := 0
  link : Nat := 0
deriving Repr, Inhabited, DecidableEq

/-- `Match` (lines 810-813); the default is `Match::default()` -/
structure MMatch where
  pid : Nat := 0
  link : Nat := 0
deriving Repr, Inhabited, DecidableEq

structure MemNfa where
  states : Array MState
  sparse : Array MTrans
  matches_ : Array MMatch
deriving Repr, Inhabited, DecidableEq

namespace MemNfa

/-- `NFA::FAIL` (line 221) -/
def FAIL : Nat := 1

/-- the `NFA` value of `Compiler::new` (lines 948-960) after the two dummy pushes
`self.nfa.sparse.push(Transition::default())`, `self.nfa.matches.push(Match::default())`
of `Compiler::compile` (lines 972-973) -/
def empty : MemNfa := { states := #[], sparse := #[{}], matches_ := #[{}] }

/-- `self.states[i]` -/
def st (m : MemNfa) (i : Nat) : MState := m.states.getD i {}
/-- `self.sparse[i]` -/
def tr (m : MemNfa) (i : Nat) : MTrans := m.sparse.getD i {}
/-- `self.matches[i]` -/
def mt (m : MemNfa) (i : Nat) : MMatch := m.matches_.getD i {}

/-- `self.sparse[i] = t` -/
def setTr (m : MemNfa) (i : Nat) (t : MTrans) : MemNfa :=
  { m with sparse := m.sparse.setIfInBounds i t }
/-- `self.matches[i] = x` -/
def setMt (m : MemNfa) (i : Nat) (x : MMatch) : MemNfa :=
  { m with matches_ := m.matches_.setIfInBounds i x }
/-- `self.states[i] = s` -/
def setSt (m : MemNfa) (i : Nat) (s : MState) : MemNfa :=
  { m with states := m.states.setIfInBounds i s }

/-- `alloc_state` (lines 568-585); `fail` is the value of
`self.special.start_unanchored_id` at the time of the call (which is still `0` for
the first three states, see `Compiler::compile` lines 979-987) -/
def allocState (m : MemNfa) (depth fail : Nat) : MemNfa × Nat :=
  ({ m with states := m.states.push { sparse := 0, matches_ := 0, fail := fail, depth := depth } },
    m.states.size)

/-- `alloc_transition` (lines 527-533) -/
def allocTransition (m : MemNfa) : MemNfa × Nat :=
  ({ m with sparse := m.sparse.push {} }, m.sparse.size)

/-- `alloc_match` (lines 537-543) -/
def allocMatch (m : MemNfa) : MemNfa × Nat :=
  ({ m with matches_ := m.matches_.push {} }, m.matches_.size)

/-! ## iteration -/

/-- the closure of `iter_trans` (lines 286-293): `link` is its captured variable -/
def iterTransGo (m : MemNfa) : Nat → Nat → List (UInt8 × Nat)
  | 0, _ => []
  | fuel + 1, link =>
    if link = 0 then []
    else
      let t := m.tr link
      (t.byte, t.next) :: iterTransGo m fuel t.link

/-- `iter_trans(sid)` (lines 281-294), as the list of `(byte, next)` it yields -/
def iterTrans (m : MemNfa) (sid : Nat) : List (UInt8 × Nat) :=
  iterTransGo m (m.sparse.size + 1) (m.st sid).sparse

/-- the closure of `iter_matches` (lines 302-309) -/
def iterMatchesGo (m : MemNfa) : Nat → Nat → List Nat
  | 0, _ => []
  | fuel + 1, link =>
    if link = 0 then []
    else
      let x := m.mt link
      x.pid :: iterMatchesGo m fuel x.link

/-- `iter_matches(sid)` (lines 297-310), as the list of pattern ids it yields -/
def iterMatches (m : MemNfa) (sid : Nat) : List Nat :=
  iterMatchesGo m (m.matches_.size + 1) (m.st sid).matches_

/-! ## `follow_transition_sparse` -/

/-- the `for t in self.iter_trans(sid)` loop of `follow_transition_sparse`
(lines 365-373): leaves the loop at the first `t` with `byte <= t.byte` -/
def followGo (m : MemNfa) (byte : UInt8) : Nat → Nat → Nat
  | 0, _ => FAIL
  | fuel + 1, link =>
    if link = 0 then FAIL
    else
      let t := m.tr link
      if byte ≤ t.byte then
        if byte = t.byte then t.next else FAIL
      else followGo m byte fuel t.link

/-- `follow_transition_sparse(sid, byte)` (lines 364-374) -/
def followTransitionSparse (m : MemNfa) (sid : Nat) (byte : UInt8) : Nat :=
  followGo m byte (m.sparse.size + 1) (m.st sid).sparse

/-! ## `add_transition` -/

/-- the `while link_next != 0 && byte > self.sparse[link_next].byte` loop
(lines 409-413); returns `(link_prev, link_next)` -/
def addTransWalk (m : MemNfa) (byte : UInt8) : Nat → Nat → Nat → Nat × Nat
  | 0, lp, ln => (lp, ln)
  | fuel + 1, lp, ln =>
    if ln ≠ 0 ∧ (m.tr ln).byte < byte then addTransWalk m byte fuel ln (m.tr ln).link
    else (lp, ln)

/-- `add_transition(prev, byte, next)` (lines 381-423), minus the `dense` update
(lines 387-391).  The `assert_eq!` of line 419 cannot fail: the loop left with
`link_next != 0`, `!(byte > b)` and the `if` with `!(byte < b)`. -/
def addTransition (m : MemNfa) (prev : Nat) (byte : UInt8) (next : Nat) : MemNfa :=
  let head := (m.st prev).sparse                                             -- 393
  if head = 0 ∨ byte < (m.tr head).byte then                                 -- 394
    let (m, newLink) := m.allocTransition                                    -- 395
    let m := m.setTr newLink { byte := byte, next := next, link := head }    -- 396
    m.setSt prev { m.st prev with sparse := newLink }                        -- 397
  else if byte = (m.tr head).byte then                                       -- 399
    m.setTr head { m.tr head with next := next }                             -- 400
  else
    let (lp, ln) := addTransWalk m byte (m.sparse.size + 1) head (m.tr head).link  -- 408-413
    if ln = 0 ∨ byte < (m.tr ln).byte then                                   -- 414
      let (m, link) := m.allocTransition                                     -- 415
      let m := m.setTr link { byte := byte, next := next, link := ln }       -- 416
      m.setTr lp { m.tr lp with link := link }                               -- 417
    else
      m.setTr ln { m.tr ln with next := next }                               -- 420

/-! ## `init_full_state` -/

/-- one round of the `for byte in 0..=255` loop (lines 451-461); the accumulator is
`(nfa, prev_link)` -/
def initFullStep (prev next : Nat) (acc : MemNfa × Nat) (byte : Nat) : MemNfa × Nat :=
  let (m, prevLink) := acc
  let (m, newLink) := m.allocTransition                                          -- 452
  let m := m.setTr newLink { byte := byte.toUInt8, next := next, link := 0 }     -- 453-454
  let m :=
    if prevLink = 0 then m.setSt prev { m.st prev with sparse := newLink }       -- 456
    else m.setTr prevLink { m.tr prevLink with link := newLink }                 -- 458
  (m, newLink)                                                                   -- 460

/-- `init_full_state(prev, next)` (lines 435-463).  The two `assert_eq!`s (lines
440-449: not dense, `self.states[prev].sparse == 0`) are preconditions of the
theorems; `initFullState?` checks the second one. -/
def initFullState (m : MemNfa) (prev next : Nat) : MemNfa :=
  ((List.range 256).foldl (initFullStep prev next) (m, 0)).1

/-- `init_full_state` with the assertion of lines 445-449 (`none` = panic) -/
def initFullState? (m : MemNfa) (prev next : Nat) : Option MemNfa :=
  if (m.st prev).sparse = 0 then some (m.initFullState prev next) else none

/-! ## `add_match`, `copy_matches` -/

/-- `while self.matches[link].link != 0 { link = self.matches[link].link }`
(lines 473-475 and 497-499).  Started at `link = 0` it reads the dummy entry
`self.matches[0]`, whose link is `0`, and stays at `0`. -/
def tailWalk (m : MemNfa) : Nat → Nat → Nat
  | 0, link => link
  | fuel + 1, link =>
    if (m.mt link).link ≠ 0 then tailWalk m fuel (m.mt link).link else link

/-- `add_match(sid, pid)` (lines 466-484) -/
def addMatch (m : MemNfa) (sid pid : Nat) : MemNfa :=
  let head := (m.st sid).matches_                                          -- 471
  let link := tailWalk m (m.matches_.size + 1) head                        -- 472-475
  let (m, newLink) := m.allocMatch                                         -- 476
  let m := m.setMt newLink { m.mt newLink with pid := pid }                -- 477
  if link = 0 then m.setSt sid { m.st sid with matches_ := newLink }       -- 479
  else m.setMt link { m.mt link with link := newLink }                     -- 481

/-- the `while link_src != 0` loop of `copy_matches` (lines 501-521); the loop
variables are `(nfa, link_dst, link_src)` -/
def copyLoop (dst : Nat) : Nat → MemNfa → Nat → Nat → MemNfa
  | 0, m, _, _ => m
  | fuel + 1, m, linkDst, linkSrc =>
    if linkSrc = 0 then m
    else
      let newLink := m.matches_.size                                               -- 502-508
      let m := { m with matches_ := m.matches_.push { pid := (m.mt linkSrc).pid, link := 0 } }  -- 509-512
      let m :=
        if linkDst = 0 then m.setSt dst { m.st dst with matches_ := newLink }      -- 514
        else m.setMt linkDst { m.mt linkDst with link := newLink }                 -- 516
      copyLoop dst fuel m newLink (m.mt linkSrc).link                              -- 519-520

/-- `copy_matches(src, dst)` (lines 490-523).  The fuel of the copy loop is taken
from the vector *before* the loop: the source list lives in that part.  (With
`src == dst` and a non-empty list the Rust loop chases its own tail and only stops
at the `StateID` overflow error; the compiler never calls it that way.) -/
def copyMatches (m : MemNfa) (src dst : Nat) : MemNfa :=
  let headDst := (m.st dst).matches_                                       -- 495
  let linkDst := tailWalk m (m.matches_.size + 1) headDst                  -- 496-499
  copyLoop dst (m.matches_.size + 1) m linkDst (m.st src).matches_         -- 500-521

/-- `State::is_match` (lines 754-756) -/
def isMatch (m : MemNfa) (sid : Nat) : Bool := (m.st sid).matches_ != 0

/-! ## the compiler's in-place rewrites of `next` (they walk the lists with `next_link`) -/

/-- `NFA::DEAD` (line 214) -/
def DEAD : Nat := 0

/-- `next_link(sid, prev)` (lines 322-334) -/
def nextLink (m : MemNfa) (sid : Nat) (prev : Option Nat) : Option Nat :=
  let link := match prev with
    | none => (m.st sid).sparse
    | some p => (m.tr p).link
  if link = 0 then none else some link

/-- `while let Some(link) = self.nfa.next_link(sid, prev_link) { prev_link = Some(link);
if self.nfa.sparse[link].next() == old { self.nfa.sparse[link].next = new; } }`:
the loops of `add_unanchored_start_state_loop` (lines 1610-1616) and of
`close_start_state_loop_for_leftmost` (lines 1636-1647, without the `dense` write) -/
def replaceNextGo (sid old new : Nat) : Nat → MemNfa → Option Nat → MemNfa
  | 0, m, _ => m
  | fuel + 1, m, prevLink =>
    match m.nextLink sid prevLink with
    | none => m
    | some link =>
      let m := if (m.tr link).next = old then m.setTr link { m.tr link with next := new } else m
      replaceNextGo sid old new fuel m (some link)

/-- `add_unanchored_start_state_loop` (lines 1608-1617) -/
def addUnanchoredStartStateLoop (m : MemNfa) (startUid : Nat) : MemNfa :=
  replaceNextGo startUid FAIL startUid (m.sparse.size + 1) m none

/-- `close_start_state_loop_for_leftmost` (lines 1631-1649); `leftmost` is
`self.builder.match_kind.is_leftmost()` -/
def closeStartStateLoopForLeftmost (m : MemNfa) (startUid : Nat) (leftmost : Bool) : MemNfa :=
  if leftmost && m.isMatch startUid then
    replaceNextGo startUid startUid DEAD (m.sparse.size + 1) m none
  else m

/-- the lock-step loop of `set_anchored_start_state` (lines 1576-1587); `none` is the
`unreachable!()` of line 1582 (the two lists have different lengths) -/
def copyNextGo (startUid startAid : Nat) : Nat → MemNfa → Option Nat → Option Nat → Option MemNfa
  | 0, m, _, _ => some m
  | fuel + 1, m, uprev, aprev =>
    match m.nextLink startUid uprev, m.nextLink startAid aprev with
    | some ulink, some alink =>
      copyNextGo startUid startAid fuel
        (m.setTr alink { m.tr alink with next := (m.tr ulink).next }) (some ulink) (some alink)
    | none, none => some m
    | _, _ => none

/-- `set_anchored_start_state` (lines 1572-1597) -/
def setAnchoredStartState (m : MemNfa) (startUid startAid : Nat) : Option MemNfa :=
  match copyNextGo startUid startAid (m.sparse.size + 1) m none none with
  | none => none
  | some m =>
    let m := m.copyMatches startUid startAid                               -- 1588
    some (m.setSt startAid { m.st startAid with fail := DEAD })            -- 1595

/-- `self.nfa.states[sid].fail = f` (lines 1316, 1372, 1380) -/
def setFail (m : MemNfa) (sid f : Nat) : MemNfa := m.setSt sid { m.st sid with fail := f }

/-! ## the preamble of `Compiler::compile` (lines 972-994) -/

/-- the four `alloc_state(0)` calls (lines 979-987), `init_unanchored_start_state`
(lines 1560-1566) and `add_dead_state_loop` (lines 1654-1657) -/
def init : MemNfa :=
  let m := empty
  let m := (m.allocState 0 0).1      -- DEAD; `special.start_unanchored_id` is still 0
  let m := (m.allocState 0 0).1      -- FAIL
  let m := (m.allocState 0 0).1      -- unanchored start = 2 (assigned after the call)
  let m := (m.allocState 0 2).1      -- anchored start = 3
  let m := m.initFullState 2 FAIL
  let m := m.initFullState 3 FAIL
  m.initFullState 0 0

end MemNfa
end AcVerif
