import AcVerif.Aut
/-!
# L1: the ideal Aho-Corasick automaton, in closed form

States are the prefixes of the (kept) patterns, as strings, plus `dead`.
`goto`, failure and output are not *constructed* (no BFS, no queue): they are
*defined* by what they mean.

* `lsp w` – the longest suffix of `w` that is a prefix of some pattern.
* standard step: `u --c--> lsp (u ++ [c])`; output of `u`: every pattern that
  is a suffix of `u`, longest first, then supply order.
* anchored step: trie edges only, otherwise `dead`.
* leftmost step/output: as standard, except that a fallback which would drop
  the start of an occurrence already seen inside `u` leads to `dead`
  (`blocked`), and only the leftmost-longest pattern of a state is listed.

`Q` is the list of kept patterns with their ids: all of them for standard and
leftmost-longest, and for leftmost-first those without an earlier supplied
proper prefix (`build_trie`'s `saw_match` rule).
-/
namespace AcVerif
variable {α : Type} [DecidableEq α]

/-- kept patterns with their ids -/
abbrev PatSet (α : Type) := List (List α × Nat)

/-- all patterns, with ids -/
def enumPats (P : List (List α)) : PatSet α := P.zipIdx

/-- leftmost-first: drop a pattern when an earlier supplied pattern is a proper prefix of it -/
def keepLF (P : List (List α)) (q : List α × Nat) : Bool :=
  !(List.range q.2).any fun i =>
    match P[i]? with
    | some p' => p'.isPrefixOf q.1 && decide (p'.length < q.1.length)
    | none => false

def patSet (k : MatchKind) (P : List (List α)) : PatSet α :=
  match k with
  | .lf => (enumPats P).filter (keepLF P)
  | _ => enumPats P

/-- `u` is a prefix of some kept pattern (i.e. a trie node) -/
def isPref (Q : PatSet α) (u : List α) : Bool := Q.any fun q => u.isPrefixOf q.1

/-- longest suffix of `w` that is a trie node (`[]` if none) -/
def lsp (Q : PatSet α) : List α → List α
  | [] => []
  | c :: t => if isPref Q (c :: t) then c :: t else lsp Q t

/-- some kept pattern occurs entirely inside `u` starting before position `k`
(the empty pattern occurs at every position) -/
def blocked (Q : PatSet α) (u : List α) (k : Nat) : Bool :=
  (List.range k).any fun st => Q.any fun q => q.1.isPrefixOf (u.drop st)

/-- ids of the kept patterns equal to `v`, in supply order -/
def idsOf (Q : PatSet α) (v : List α) : List Nat := (Q.filter fun q => q.1 = v).map (·.2)

/-- standard output: every kept pattern that is a suffix of `u`, longest first -/
def outStd (Q : PatSet α) (u : List α) : List Nat :=
  (List.range (u.length + 1)).flatMap fun k => idsOf Q (u.drop k)

/-- leftmost output: the longest suffix pattern, unless an occurrence inside `u` starts earlier -/
def outLm (Q : PatSet α) (u : List α) : List Nat :=
  match (List.range (u.length + 1)).find? fun k => Q.any fun q => q.1 = u.drop k with
  | none => []
  | some k => if blocked Q u k then [] else idsOf Q (u.drop k)

inductive St (α : Type) where
  | dead
  | at (u : List α)
deriving DecidableEq, Repr

def stepStd (Q : PatSet α) (u : List α) (c : α) : St α := .at (lsp Q (u ++ [c]))

def stepAnch (Q : PatSet α) (u : List α) (c : α) : St α :=
  if isPref Q (u ++ [c]) then .at (u ++ [c]) else .dead

def stepLm (Q : PatSet α) (u : List α) (c : α) : St α :=
  if isPref Q (u ++ [c]) then .at (u ++ [c])
  else
    let v := lsp Q (u ++ [c])
    if blocked Q u (u.length + 1 - v.length) then .dead else .at v

def Ideal.next (k : MatchKind) (Q : PatSet α) (anch : Bool) : St α → α → St α
  | .dead, _ => .dead
  | .at u, c =>
    if anch then stepAnch Q u c
    else match k with
      | .std => stepStd Q u c
      | _ => stepLm Q u c

def Ideal.out (k : MatchKind) (Q : PatSet α) : St α → List Nat
  | .dead => []
  | .at u => match k with
    | .std => outStd Q u
    | _ => outLm Q u

/-- The ideal automaton for pattern list `P` under semantics `k`, supporting
the start kinds in `sk`, with `hasPre` telling whether a prefilter is attached
(which only affects which states are flagged special). -/
def ideal (k : MatchKind) (P : List (List α)) (sk : StartKind) (hasPre : Bool) :
    Aut (St α) α :=
  let Q := patSet k P
  { start := fun anch =>
      match sk, anch with
      | .unanchored, true => none
      | .anchored, false => none
      | _, _ => some (.at [])
    next := Ideal.next k Q
    isDead := fun q => q == .dead
    isMatch := fun q => !(Ideal.out k Q q).isEmpty
    isStart := fun q => q == .at []
    isSpecial := fun q => q == .dead || !(Ideal.out k Q q).isEmpty || (hasPre && q == .at [])
    mpats := Ideal.out k Q
    patLen := fun pid => (P.getD pid []).length
    patternsLen := P.length
    -- `min_pattern_len` starts at `usize::MAX` (64-bit) and is lowered by each pattern
    minLen := (P.map List.length).foldl min 18446744073709551615
    maxLen := (P.map List.length).foldl max 0
    kind := k
    hasPre := hasPre }

end AcVerif
