import AcVerif.Ideal
import AcVerif.Engine.Find
/-!
# Work counters (C19)

The NFA `next_state` loops follow failure links until a state with a
transition on the byte is reached.  In the ideal automaton the failure link of
a non-root node `u` is `lsp (tail u)` (leftmost kinds: the dead state when an
occurrence inside `u` would be dropped); the root and the dead state have a
transition on every byte.  `hops` is the number of failure-link traversals of
one `next_state` call; `findCost` is `findLoop` on the ideal automaton with two
counters threaded through (number of `next_state` calls, total `hops`).
-/
namespace AcVerif
variable {α : Type} [DecidableEq α]

/-- failure target of a non-root trie node under standard semantics -/
def failStd (Q : PatSet α) (u : List α) : List α := lsp Q u.tail

/-- number of failure-link traversals of `next_state(Anchored::No, u, c)`;
`fuel` ≥ `u.length` (each hop shortens the node) -/
def hops (k : MatchKind) (Q : PatSet α) (c : α) : Nat → List α → Nat
  | 0, _ => 0
  | fuel + 1, u =>
    if isPref Q (u ++ [c]) then 0
    else if u = [] then 0          -- the start state has a transition on every byte
    else
      let v := failStd Q u
      if k != .std && blocked Q u (u.length - v.length) then 1   -- failure link is the dead state
      else 1 + hops k Q c fuel v

/-- failure-link traversals of one `next_state` call from a model state -/
def Ideal.hops (k : MatchKind) (Q : PatSet α) (anch : Bool) (q : St α) (c : α) : Nat :=
  match q with
  | .dead => 0
  | .at u => if anch then 0 else AcVerif.hops k Q c u.length u

structure Cost where
  transitions : Nat := 0
  fails : Nat := 0
deriving Repr, DecidableEq

/-- `findLoop` over the ideal automaton `A = ideal k P sk hasPre` (possibly
with its input mapped through `g`, for case folding) with the two counters -/
def findCost (k : MatchKind) (Q : PatSet α) (A : Aut (St α) α) (g : α → α) (hay : List α)
    (s e : Nat) (he : e ≤ hay.length)
    (pre : Option (Prefilter α)) (anch earliest : Bool)
    (sid : St α) (at_ : Nat) (mat : Option Mat) (cost : Cost) : Option Mat × Cost :=
  if h : at_ < e then
    let c := hay[at_]'(Nat.lt_of_lt_of_le h he)
    let cost := { transitions := cost.transitions + 1,
                  fails := cost.fails + Ideal.hops k Q anch sid (g c) }
    let sid := A.next anch sid c
    if A.isSpecial sid then
      if A.isDead sid then (mat, cost)
      else if A.isMatch sid then
        let m := getMatch A sid 0 (at_ + 1)
        if !(anch && decide (m.start > s)) then
          if earliest then (some m, cost)
          else findCost k Q A g hay s e he pre anch earliest sid (at_ + 1) (some m) cost
        else findCost k Q A g hay s e he pre anch earliest sid (at_ + 1) mat cost
      else
        match pre with
        | some p =>
          match (p hay at_ e).intoOption with
          | Option.none => (Option.none, cost)
          | some i =>
            if i > at_ then findCost k Q A g hay s e he pre anch earliest sid i mat cost
            else findCost k Q A g hay s e he pre anch earliest sid (at_ + 1) mat cost
        | Option.none => findCost k Q A g hay s e he pre anch earliest sid (at_ + 1) mat cost
    else findCost k Q A g hay s e he pre anch earliest sid (at_ + 1) mat cost
  else (mat, cost)
termination_by e - at_
decreasing_by all_goals omega

end AcVerif
