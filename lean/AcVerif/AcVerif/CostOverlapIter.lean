import AcVerif.CostOverlap
/-!
# Totals of the per-call work counters (C19)

`totalTransitions` / `totalFails` add up the counters of the successful calls of a call sequence
(`ovlCallsCost`); `ovlIterCost` is the overlapping ITERATOR (`ovlIterAux`: call until a call reports
nothing, or fails) with the reported match and the counters of every call it makes, including
the last one (which reports nothing but may well have fed bytes to the automaton).
-/
namespace AcVerif
namespace CostP
variable {α : Type} [DecidableEq α]

/-- sum of the `transitions` counters of the successful calls -/
def totalTransitions (cs : List (Except MatchErr Cost)) : Nat :=
  (cs.filterMap (fun r => match r with
    | .ok c => some c.transitions
    | .error _ => Option.none)).sum

/-- sum of the `fails` counters of the successful calls -/
def totalFails (cs : List (Except MatchErr Cost)) : Nat :=
  (cs.filterMap (fun r => match r with
    | .ok c => some c.fails
    | .error _ => Option.none)).sum

/-- `FindOverlappingIter` (`ovlIterAux`) with the counters of each call it makes: the iterator
never calls again after a call that reports nothing (or fails) -/
def ovlIterCost (k : MatchKind) (Q : PatSet α) (A : Aut (St α) α) (g : α → α)
    (pre : Option (Prefilter α)) (i : Input α) : Nat → OState (St α) → List (Option Mat × Cost)
  | 0, _ => []
  | n + 1, st =>
    match tryOvlCost k Q A g pre i st with
    | .error _ => []
    | .ok (st', c) =>
      match st'.mat with
      | Option.none => [(Option.none, c)]
      | some m => (some m, c) :: ovlIterCost k Q A g pre i n st'

end CostP
end AcVerif
