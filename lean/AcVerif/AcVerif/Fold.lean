import AcVerif.Aut
/-!
# ASCII case folding (C11)
-/
namespace AcVerif

/-- `A`–`Z` map to `a`–`z`; every other byte is fixed -/
def foldByte (b : UInt8) : UInt8 := if 0x41 ≤ b ∧ b ≤ 0x5A then b + 32 else b

/-- `opposite_ascii_case` in `util/alphabet.rs` -/
def oppositeAsciiCase (b : UInt8) : UInt8 :=
  if 0x41 ≤ b ∧ b ≤ 0x5A then b ||| 0x20
  else if 0x61 ≤ b ∧ b ≤ 0x7A then b &&& 0xDF
  else b

variable {σ α : Type}

/-- feed every input symbol through `g` first -/
def Aut.comap (A : Aut σ α) (g : α → α) : Aut σ α :=
  { A with next := fun anch q c => A.next anch q (g c) }

end AcVerif
