import AcVerif.Aut
/-!
# Dumped real automata (`Table`) as instances of `Aut`, and the local
contract check of C16.
-/
namespace AcVerif

structure TState where
  special : Bool
  dead : Bool
  isMatch : Bool
  isStart : Bool
  pats : List Nat
  tNo : Array Nat
  tYes : Array Nat
  fails : Array Nat
deriving Repr, Inhabited

structure Table where
  states : Array TState
  startNo : Option Nat
  startYes : Option Nat
  patLens : Array Nat
  npat : Nat
  minLen : Nat
  maxLen : Nat
  kind : MatchKind
  hasPre : Bool
deriving Repr, Inhabited

def Table.next (T : Table) (anch : Bool) (q : Nat) (c : UInt8) : Nat :=
  match T.states[q]? with
  | none => q
  | some st => (if anch then st.tYes else st.tNo).getD c.toNat q

def Table.flag (T : Table) (f : TState → Bool) (q : Nat) : Bool :=
  match T.states[q]? with
  | none => false
  | some st => f st

def Table.toAut (T : Table) : Aut Nat UInt8 where
  start := fun anch => if anch then T.startYes else T.startNo
  next := T.next
  isSpecial := T.flag (·.special)
  isDead := T.flag (·.dead)
  isMatch := T.flag (·.isMatch)
  isStart := T.flag (·.isStart)
  mpats := fun q => match T.states[q]? with | none => [] | some st => st.pats
  patLen := fun pid => T.patLens.getD pid 0
  patternsLen := T.npat
  minLen := T.minLen
  maxLen := T.maxLen
  kind := T.kind
  hasPre := T.hasPre

/-- all 256 byte values -/
def allBytes : List UInt8 := (List.range 256).map (·.toUInt8)

theorem mem_allBytes (c : UInt8) : c ∈ allBytes := by
  unfold allBytes
  rw [List.mem_map]
  exact ⟨c.toNat, List.mem_range.mpr c.toNat_lt, by simp⟩

/-- C16, local form: for every dumped state, all 256 bytes and both anchoring
arguments: the successor is a dumped state; the dead state is absorbing; dead
and match states are special; a special state is dead, match or start; a
match state lists at least one pattern and every listed id is a valid
pattern id (a non-match state lists none); and the start states are dumped
states. -/
def Table.contractOk (T : Table) : Bool :=
  let n := T.states.size
  (match T.startNo with | none => true | some q => decide (q < n)) &&
  (match T.startYes with | none => true | some q => decide (q < n)) &&
  T.patLens.size == T.npat &&
  T.states.all fun st =>
    st.tNo.size == 256 && st.tYes.size == 256 &&
    st.tNo.all (fun q => decide (q < n)) && st.tYes.all (fun q => decide (q < n)) &&
    (!st.dead || (st.tNo.all (fun q => T.flag (·.dead) q) && st.tYes.all (fun q => T.flag (·.dead) q))) &&
    (!(st.dead || st.isMatch) || st.special) &&
    (!st.special || (st.dead || st.isMatch || st.isStart)) &&
    (!(st.dead && st.isMatch)) &&
    (st.isMatch == !st.pats.isEmpty) &&
    st.pats.all (fun p => decide (p < T.npat))

end AcVerif
