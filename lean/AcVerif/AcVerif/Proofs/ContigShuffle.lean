import AcVerif.Proofs.ContigDefs
namespace AcVerif.L1eP
open AcVerif AcVerif.CNfa

/-! # L1e proofs, part 1: the shuffle is a permutation with the expected layout (`ShufOK`) -/

/-- the `swap` closure of `shuffleOrder` -/
def swp (o : Array Nat) (i j : Nat) : Array Nat := (o.set! i (o.getD j 0)).set! j (o.getD i 0)

theorem swp_size (o : Array Nat) (i j : Nat) : (swp o i j).size = o.size := by
  simp [swp, Array.set!]

theorem swp_getD_right (o : Array Nat) (i j : Nat) (hj : j < o.size) :
    (swp o i j).getD j 0 = o.getD i 0 := by
  unfold swp
  rw [L1dP.getD_set!, if_pos]
  refine ⟨rfl, ?_⟩
  simpa [Array.set!] using hj

theorem swp_getD_left (o : Array Nat) (i j : Nat) (hi : i < o.size) :
    (swp o i j).getD i 0 = o.getD j 0 := by
  unfold swp
  rw [L1dP.getD_set!]
  by_cases h : j = i
  · subst h
    split <;> simp_all
  · rw [if_neg (fun hh => h hh.1), L1dP.getD_set!, if_pos ⟨rfl, hi⟩]

theorem swp_getD_other (o : Array Nat) (i j k : Nat) (hi : k ≠ i) (hj : k ≠ j) :
    (swp o i j).getD k 0 = o.getD k 0 := by
  unfold swp
  rw [L1dP.getD_set!, if_neg (fun hh => hj hh.1.symm), L1dP.getD_set!,
    if_neg (fun hh => hi hh.1.symm)]

/-- `o` is a bijection of `0 .. sz-1` -/
structure Perm (o : Array Nat) (sz : Nat) : Prop where
  size : o.size = sz
  lt : ∀ j, j < sz → o.getD j 0 < sz
  inj : ∀ j k, j < sz → k < sz → o.getD j 0 = o.getD k 0 → j = k
  surj : ∀ s, s < sz → ∃ j, j < sz ∧ o.getD j 0 = s

theorem range_getD (m j : Nat) (h : j < m) : (Array.range m).getD j 0 = j := by
  simp [Array.getD, h]

theorem perm_range (m : Nat) : Perm (Array.range m) m where
  size := by simp
  lt := fun j hj => by rw [range_getD m j hj]; exact hj
  inj := fun j k hj hk h => by rwa [range_getD m j hj, range_getD m k hk] at h
  surj := fun s hs => ⟨s, hs, range_getD m s hs⟩

theorem perm_swp {o : Array Nat} {sz : Nat} (hp : Perm o sz) (i j : Nat) (hi : i < sz) (hj : j < sz) :
    Perm (swp o i j) sz := by
  have hi' : i < o.size := by rw [hp.size]; exact hi
  have hj' : j < o.size := by rw [hp.size]; exact hj
  -- value at any position, as a value of `o` at the transposed position
  have key : ∀ k, k < sz → ∃ k', k' < sz ∧ (swp o i j).getD k 0 = o.getD k' 0 ∧
      (k' = i → k = j) ∧ (k' = j → k = i) ∧ (k' ≠ i → k' ≠ j → k = k') := by
    intro k hk
    by_cases h1 : k = j
    · subst h1
      exact ⟨i, hi, swp_getD_right o i k hj', fun _ => rfl, fun h => h.symm, fun h _ => absurd rfl h⟩
    · by_cases h2 : k = i
      · subst h2
        exact ⟨j, hj, swp_getD_left o k j hi', fun h => absurd h.symm h1, fun _ => rfl,
          fun _ h => absurd rfl h⟩
      · exact ⟨k, hk, swp_getD_other o i j k h2 h1, fun h => absurd h h2, fun h => absurd h h1,
          fun _ _ => rfl⟩
  refine ⟨by rw [swp_size]; exact hp.size, ?_, ?_, ?_⟩
  · intro k hk
    obtain ⟨k', hk', e, _⟩ := key k hk
    rw [e]; exact hp.lt k' hk'
  · intro a b ha hb hab
    obtain ⟨a', ha', ea, a1, a2, a3⟩ := key a ha
    obtain ⟨b', hb', eb, b1, b2, b3⟩ := key b hb
    rw [ea, eb] at hab
    have := hp.inj a' b' ha' hb' hab
    subst this
    by_cases h1 : a' = i
    · rw [a1 h1, b1 h1]
    · by_cases h2 : a' = j
      · rw [a2 h2, b2 h2]
      · rw [a3 h1 h2, b3 h1 h2]
  · intro s hs
    obtain ⟨k, hk, e⟩ := hp.surj s hs
    by_cases h1 : k = i
    · subst h1
      exact ⟨j, hj, by rw [swp_getD_right o k j hj']; exact e⟩
    · by_cases h2 : k = j
      · subst h2
        exact ⟨i, hi, by rw [swp_getD_left o i k hi']; exact e⟩
      · exact ⟨k, hk, by rw [swp_getD_other o i j k h1 h2]; exact e⟩

/-! ## the main loop -/

def stepF (n : CNfa) (acc : Array Nat × Nat) (i : Nat) : Array Nat × Nat :=
  if i < 4 then acc
  else if CNfa.isMatch n (acc.1.getD i 0) then (swp acc.1 i acc.2, acc.2 + 1) else acc

def loopF (n : CNfa) (k : Nat) : Array Nat × Nat :=
  (List.range k).foldl (stepF n) (Array.range n.size, 4)

theorem shuffleOrder_eq (n : CNfa) :
    shuffleOrder n = (swp (swp (loopF n n.size).1 3 ((loopF n n.size).2 - 1)) 2
      ((loopF n n.size).2 - 2), (loopF n n.size).2) := rfl

theorem loopF_succ (n : CNfa) (k : Nat) : loopF n (k + 1) = stepF n (loopF n k) k := by
  unfold loopF
  rw [List.range_succ, List.foldl_append]
  rfl

structure Inv (n : CNfa) (i : Nat) (o : Array Nat) (na : Nat) : Prop where
  perm : Perm o n.size
  na_ge : 4 ≤ na
  na_le : na ≤ i ∨ na = 4
  low : ∀ j, j < 4 → o.getD j 0 = j
  high : ∀ j, i ≤ j → j < n.size → o.getD j 0 = j
  mat : ∀ j, 4 ≤ j → j < na → CNfa.isMatch n (o.getD j 0) = true
  nomat : ∀ j, na ≤ j → j < i → CNfa.isMatch n (o.getD j 0) = false

theorem inv_zero (n : CNfa) (h4 : 4 ≤ n.size) : Inv n 0 (Array.range n.size) 4 where
  perm := perm_range _
  na_ge := Nat.le_refl _
  na_le := Or.inr rfl
  low := fun j hj => range_getD _ _ (by omega)
  high := fun j _ hj => range_getD _ _ hj
  mat := fun j h1 h2 => by omega
  nomat := fun j h1 h2 => by omega

theorem inv_step (n : CNfa) (i : Nat) (o : Array Nat) (na : Nat) (hi : i < n.size)
    (h : Inv n i o na) : Inv n (i + 1) (stepF n (o, na) i).1 (stepF n (o, na) i).2 := by
  unfold stepF
  by_cases h4 : i < 4
  · rw [if_pos h4]
    have hna : na = 4 := by
      rcases h.na_le with h1 | h1
      · have := h.na_ge; omega
      · exact h1
    exact ⟨h.perm, h.na_ge, Or.inr hna, h.low, fun j hj hs => h.high j (by omega) hs, h.mat,
      fun j h1 h2 => by omega⟩
  · rw [if_neg h4]
    have hoi : o.getD i 0 = i := h.high i (Nat.le_refl _) hi
    simp only [hoi]
    have hge := h.na_ge
    have hnai : na ≤ i := by rcases h.na_le with h1 | h1 <;> omega
    by_cases hm : CNfa.isMatch n i = true
    · rw [if_pos hm]
      have hsz := h.perm.size
      refine ⟨perm_swp h.perm i na hi (by omega), by simp only; omega, Or.inl (by simp only; omega),
        ?_, ?_, ?_, ?_⟩
      · intro j hj
        simp only
        rw [swp_getD_other o i na j (by omega) (by omega)]
        exact h.low j hj
      · intro j hj hs
        simp only
        rw [swp_getD_other o i na j (by omega) (by omega)]
        exact h.high j (by omega) hs
      · intro j h1 h2
        simp only at h2 ⊢
        by_cases hj : j = na
        · subst hj
          rw [swp_getD_right o i j (by omega), hoi]; exact hm
        · rw [swp_getD_other o i na j (by omega) hj]
          exact h.mat j h1 (by omega)
      · intro j h1 h2
        simp only at h1 h2 ⊢
        by_cases hj : j = i
        · subst hj
          rw [swp_getD_left o j na (by omega)]
          exact h.nomat na (Nat.le_refl _) (by omega)
        · rw [swp_getD_other o i na j hj (by omega)]
          exact h.nomat j (by omega) (by omega)
    · rw [if_neg hm]
      refine ⟨h.perm, h.na_ge, Or.inl (by simp only; omega), h.low,
        fun j hj hs => h.high j (by omega) hs, h.mat, ?_⟩
      intro j h1 h2
      simp only at h1 h2 ⊢
      by_cases hj : j = i
      · subst hj
        rw [hoi]; simpa using hm
      · exact h.nomat j h1 (by omega)

theorem inv_loop (n : CNfa) (h4 : 4 ≤ n.size) :
    ∀ k, k ≤ n.size → Inv n k (loopF n k).1 (loopF n k).2 := by
  intro k
  induction k with
  | zero => intro _; exact inv_zero n h4
  | succ k ih =>
    intro hk
    rw [loopF_succ]
    exact inv_step n k _ _ (by omega) (ih (by omega))

/-! ## the two final swaps -/

/-- what the layout needs of `(order, nextAvail)` -/
structure FinOK (n : CNfa) (ord : Array Nat) (na : Nat) : Prop where
  perm : Perm ord n.size
  na_ge : 4 ≤ na
  na_le : na ≤ n.size
  v0 : ord.getD 0 0 = 0
  v1 : ord.getD 1 0 = 1
  vSU : ord.getD (na - 2) 0 = 2
  vSA : ord.getD (na - 1) 0 = 3
  mat : ∀ j, 2 ≤ j → j + 3 ≤ na → CNfa.isMatch n (ord.getD j 0) = true
  nomat : ∀ j, na ≤ j → j < n.size → CNfa.isMatch n (ord.getD j 0) = false

theorem finOK_of_inv (n : CNfa) (h4 : 4 ≤ n.size) (o : Array Nat) (na : Nat)
    (h : Inv n n.size o na) : FinOK n (swp (swp o 3 (na - 1)) 2 (na - 2)) na := by
  have hge := h.na_ge
  have hle : na ≤ n.size := by rcases h.na_le with h1 | h1 <;> omega
  have hsz := h.perm.size
  have p1 : Perm (swp o 3 (na - 1)) n.size := perm_swp h.perm 3 (na - 1) (by omega) (by omega)
  have hsz1 := p1.size
  have p2 := perm_swp p1 2 (na - 2) (by omega) (by omega)
  refine ⟨p2, hge, hle, ?_, ?_, ?_, ?_, ?_, ?_⟩
  · rw [swp_getD_other _ _ _ _ (by omega) (by omega), swp_getD_other _ _ _ _ (by omega) (by omega)]
    exact h.low 0 (by omega)
  · rw [swp_getD_other _ _ _ _ (by omega) (by omega), swp_getD_other _ _ _ _ (by omega) (by omega)]
    exact h.low 1 (by omega)
  · rw [swp_getD_right _ _ _ (by omega), swp_getD_other _ _ _ _ (by omega) (by omega)]
    exact h.low 2 (by omega)
  · rw [swp_getD_other _ _ _ _ (by omega) (by omega), swp_getD_right _ _ _ (by omega)]
    exact h.low 3 (by omega)
  · intro j h1 h2
    by_cases hj2 : j = 2
    · subst hj2
      rw [swp_getD_left _ _ _ (by omega)]
      by_cases hna : na = 5
      · subst hna
        rw [swp_getD_left _ _ _ (by omega)]
        exact h.mat 4 (by omega) (by omega)
      · rw [swp_getD_other _ _ _ _ (by omega) (by omega)]
        exact h.mat _ (by omega) (by omega)
    · rw [swp_getD_other _ _ _ _ hj2 (by omega)]
      by_cases hj3 : j = 3
      · subst hj3
        rw [swp_getD_left _ _ _ (by omega)]
        exact h.mat _ (by omega) (by omega)
      · rw [swp_getD_other _ _ _ _ hj3 (by omega)]
        exact h.mat _ (by omega) (by omega)
  · intro j h1 h2
    rw [swp_getD_other _ _ _ _ (by omega) (by omega), swp_getD_other _ _ _ _ (by omega) (by omega)]
    exact h.nomat j h1 h2

theorem finOK (n : CNfa) (h4 : 4 ≤ n.size) : FinOK n (cOrder n) (cNa n) := by
  have e1 : cOrder n = swp (swp (loopF n n.size).1 3 ((loopF n n.size).2 - 1)) 2
      ((loopF n n.size).2 - 2) := by unfold cOrder; rw [shuffleOrder_eq]
  have e2 : cNa n = (loopF n n.size).2 := by unfold cNa; rw [shuffleOrder_eq]
  rw [e1, e2]
  exact finOK_of_inv n h4 (loopF n n.size).1 (loopF n n.size).2
    (inv_loop n h4 n.size (Nat.le_refl _))

/-! ## the inverse table -/

def posF (ord : Array Nat) (sz k : Nat) : Array Nat :=
  (List.range k).foldl (fun (p : Array Nat) i => p.set! (ord.getD i 0) i) (Array.replicate sz 0)

theorem posF_succ (ord : Array Nat) (sz k : Nat) :
    posF ord sz (k + 1) = (posF ord sz k).set! (ord.getD k 0) k := by
  unfold posF
  rw [List.range_succ, List.foldl_append]
  rfl

theorem posF_size (ord : Array Nat) (sz k : Nat) : (posF ord sz k).size = sz := by
  induction k with
  | zero => simp [posF]
  | succ k ih => rw [posF_succ]; simpa [Array.set!] using ih

theorem posF_inv {ord : Array Nat} {sz : Nat} (hp : Perm ord sz) :
    ∀ k, k ≤ sz → ∀ i, i < k → (posF ord sz k).getD (ord.getD i 0) 0 = i := by
  intro k
  induction k with
  | zero => intro _ i hi; omega
  | succ k ih =>
    intro hk i hi
    rw [posF_succ, L1dP.getD_set!, posF_size]
    by_cases hik : i = k
    · subst hik
      rw [if_pos ⟨rfl, hp.lt i (by omega)⟩]
    · rw [if_neg]
      · exact ih (by omega) i (by omega)
      · intro hh
        exact hik (hp.inj k i (by omega) (by omega) hh.1).symm

theorem cPos_eq (n : CNfa) : cPos n = posF (cOrder n) n.size n.size := rfl

theorem shufOK (n : CNfa) (h4 : 4 ≤ n.size) : ShufOK n := by
  have F := finOK n h4
  have hp := F.perm
  have hge := F.na_ge
  have hle := F.na_le
  have po : ∀ i, i < n.size → (cPos n).getD ((cOrder n).getD i 0) 0 = i := by
    intro i hi
    rw [cPos_eq]
    exact posF_inv hp n.size (Nat.le_refl _) i hi
  -- every old id has a position
  have ex : ∀ s, s < n.size → (cPos n).getD s 0 < n.size ∧
      (cOrder n).getD ((cPos n).getD s 0) 0 = s := by
    intro s hs
    obtain ⟨j, hj, e⟩ := hp.surj s hs
    have := po j hj
    rw [e] at this
    rw [this]
    exact ⟨hj, e⟩
  -- the position of a value is determined
  have uniq : ∀ i s, i < n.size → (cOrder n).getD i 0 = s → (cPos n).getD s 0 = i := by
    intro i s hi e
    rw [← e]; exact po i hi
  refine ⟨hp.size, by rw [cPos_eq, posF_size], hp.lt, fun s hs => (ex s hs).1,
    fun s hs => (ex s hs).2, po, hge, hle, uniq 0 0 (by omega) F.v0, uniq 1 1 (by omega) F.v1,
    uniq _ 2 (by omega) F.vSU, uniq _ 3 (by omega) F.vSA, ?_, ?_⟩
  · intro s h1 h2 hm
    obtain ⟨hlt, e⟩ := ex s h2
    generalize (cPos n).getD s 0 = p at hlt e ⊢
    by_cases c0 : p = 0
    · subst c0; rw [F.v0] at e; omega
    by_cases c1 : p = 1
    · subst c1; rw [F.v1] at e; omega
    by_cases c2 : p = cNa n - 2
    · subst c2; rw [F.vSU] at e; omega
    by_cases c3 : p = cNa n - 1
    · subst c3; rw [F.vSA] at e; omega
    by_cases c4 : cNa n ≤ p
    · have := F.nomat p c4 hlt
      rw [e, hm] at this; cases this
    omega
  · intro s h1 h2 hm
    obtain ⟨hlt, e⟩ := ex s h2
    generalize (cPos n).getD s 0 = p at hlt e ⊢
    by_cases c0 : p = 0
    · subst c0; rw [F.v0] at e; omega
    by_cases c1 : p = 1
    · subst c1; rw [F.v1] at e; omega
    by_cases c2 : p = cNa n - 2
    · subst c2; rw [F.vSU] at e; omega
    by_cases c3 : p = cNa n - 1
    · subst c3; rw [F.vSA] at e; omega
    by_cases c4 : cNa n ≤ p
    · exact c4
    have := F.mat p (by omega) (by omega)
    rw [e, hm] at this; cases this


end AcVerif.L1eP
