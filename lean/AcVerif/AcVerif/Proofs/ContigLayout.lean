import AcVerif.Proofs.ContigBase
import AcVerif.Proofs.ContigScan
/-!
# L1e proofs, part 3: the layout of `buildContig`

`cOffsets` in closed form (prefix sums of the state sizes), `cRepr` as a concatenation, the slice
of `repr` at `newId s` is `State::write` of state `s`, and the order of the new ids.
-/
namespace AcVerif.L1eP
open AcVerif AcVerif.CNfa AcVerif.L1cP AcVerif.L1dP

/-! ## the size of a written state does not depend on the remap table -/

theorem wTail_def (st : CState) : wTail st =
    if st.matches_.isEmpty then [] else match st.matches_ with
      | [pid] => [2147483648 + pid]
      | ms => ms.length :: ms := rfl

theorem writeState_cases (st : CState) (fd : Bool) :
    (fd = true ∨ 127 < st.trans.length) ∨
      (fd = false ∧ st.trans.length ≤ 127 ∧ ∃ b t, st.trans = [(b, t)] ∧ st.matches_ = []) ∨
      (fd = false ∧ st.trans.length ≤ 127 ∧ ¬ (st.trans.length = 1 ∧ st.matches_ = [])) := by
  by_cases h : fd = true ∨ 127 < st.trans.length
  · exact Or.inl h
  · have h1 : fd = false := by
      cases fd
      · rfl
      · exact absurd (Or.inl rfl) h
    have h2 : st.trans.length ≤ 127 := by
      have : ¬ 127 < st.trans.length := fun e => h (Or.inr e)
      omega
    right
    by_cases h3 : st.trans.length = 1 ∧ st.matches_ = []
    · left
      refine ⟨h1, h2, ?_⟩
      obtain ⟨h3, h4⟩ := h3
      match hh : st.trans, h3 with
      | [(b, t)], _ => exact ⟨b, t, rfl, h4⟩
    · exact Or.inr ⟨h1, h2, h3⟩

theorem writeState_length_congr (classOf : UInt8 → Nat) (al : Nat) (st : CState)
    (f g : Nat → Nat) (fd : Bool) :
    (writeState classOf al st f fd).length = (writeState classOf al st g fd).length := by
  rcases writeState_cases st fd with h | ⟨h1, _, b, t, h3, h4⟩ | ⟨h1, h2, h3⟩
  · rw [writeState_dense _ _ _ _ _ h, writeState_dense _ _ _ _ _ h]
    simp only [List.length_append, Array.length_toList, denseRow_size, List.length_cons,
      List.length_nil]
  · rw [writeState_one _ _ _ _ _ h1 b t h3 h4, writeState_one _ _ _ _ _ h1 b t h3 h4]
    rfl
  · rw [writeState_sparse _ _ _ _ _ h1 h2 h3, writeState_sparse _ _ _ _ _ h1 h2 h3]
    simp only [List.length_append, List.length_map, List.length_cons, List.length_nil]

theorem writeState_length_ge (classOf : UInt8 → Nat) (al : Nat) (st : CState)
    (f : Nat → Nat) (fd : Bool) : 2 ≤ (writeState classOf al st f fd).length := by
  rcases writeState_cases st fd with h | ⟨h1, _, b, t, h3, h4⟩ | ⟨h1, h2, h3⟩
  · rw [writeState_dense _ _ _ _ _ h]
    simp only [List.length_append, List.length_cons, List.length_nil]
    omega
  · rw [writeState_one _ _ _ _ _ h1 b t h3 h4]
    simp
  · rw [writeState_sparse _ _ _ _ _ h1 h2 h3]
    simp only [List.length_append, List.length_cons, List.length_nil]
    omega

/-! ## sizes and offsets -/

/-- the number of words of the state at position `i` (`FAIL` is not written) -/
def sizeAt (n : CNfa) (dd : Nat) (bc : Bool) (i : Nat) : Nat :=
  if i == FAIL then 0 else (cW n dd bc (fun t => t) i).length

/-- the offset of position `i` -/
def offAt (n : CNfa) (dd : Nat) (bc : Bool) (i : Nat) : Nat := psum (sizeAt n dd bc) i

theorem cW_length (n : CNfa) (dd : Nat) (bc : Bool) (f g : Nat → Nat) (i : Nat) :
    (cW n dd bc f i).length = (cW n dd bc g i).length :=
  writeState_length_congr _ _ _ f g _

theorem sizeAt_ge (n : CNfa) (dd : Nat) (bc : Bool) {i : Nat} (h : i ≠ 1) : 2 ≤ sizeAt n dd bc i := by
  unfold sizeAt
  have : (i == FAIL) = false := by simpa [FAIL] using h
  rw [this]
  exact writeState_length_ge _ _ _ _ _

theorem sizeAt_one (n : CNfa) (dd : Nat) (bc : Bool) : sizeAt n dd bc 1 = 0 := rfl

theorem cSizes_getD (n : CNfa) (dd : Nat) (bc : Bool) {i : Nat} (h : i < n.size) :
    (cSizes n dd bc).getD i 0 = sizeAt n dd bc i := by
  unfold cSizes sizeAt
  simp [List.getD_eq_getElem?_getD, h]

theorem cOffsets_eq (n : CNfa) (dd : Nat) (bc : Bool) :
    cOffsets n dd bc =
      ((List.range n.size).map fun i => if i == FAIL then FAIL else offAt n dd bc i).toArray := by
  unfold cOffsets
  rw [offs_fold]
  show ((List.range n.size).map _).toArray = _
  congr 1
  apply List.map_congr_left
  intro i hi
  have hi := List.mem_range.1 hi
  by_cases e : (i == FAIL) = true
  · simp only [e, if_true]
  · simp only [e, Bool.false_eq_true, if_false]
    unfold offAt
    apply psum_congr
    intro j hj
    by_cases e' : (j == FAIL) = true
    · have : j = 1 := by simpa [FAIL] using e'
      subst this; rfl
    · simp only [e', Bool.false_eq_true, if_false]
      exact cSizes_getD n dd bc (by omega)

theorem cOffsets_getD (n : CNfa) (dd : Nat) (bc : Bool) {i : Nat} (h : i < n.size) :
    (cOffsets n dd bc).getD i 0 = if i = 1 then 1 else offAt n dd bc i := by
  rw [cOffsets_eq, getD_map_range_list _ _ _ _ h]
  by_cases e : i = 1
  · subst e; rfl
  · have : (i == FAIL) = false := by simpa [FAIL] using e
    rw [this, if_neg e]; rfl

theorem cOffsets_getD_ge (n : CNfa) (dd : Nat) (bc : Bool) {i : Nat} (h : n.size ≤ i) :
    (cOffsets n dd bc).getD i 0 = 0 := by
  rw [cOffsets_eq, getD_map_range_list_ge _ _ _ _ h]

theorem offAt_zero (n : CNfa) (dd : Nat) (bc : Bool) : offAt n dd bc 0 = 0 := rfl

theorem offAt_lt (n : CNfa) (dd : Nat) (bc : Bool) {i j : Nat} (h : i < j) (h1 : i ≠ 1) :
    offAt n dd bc i + 2 ≤ offAt n dd bc j := by
  have := psum_succ_le (sizeAt n dd bc) h
  have := sizeAt_ge n dd bc h1
  unfold offAt; omega

theorem offAt_le_iff (n : CNfa) (dd : Nat) (bc : Bool) {i j : Nat} (_hi : i ≠ 1) (hj : j ≠ 1) :
    offAt n dd bc i ≤ offAt n dd bc j ↔ i ≤ j := by
  constructor
  · intro h
    by_cases e : i ≤ j
    · exact e
    · have := offAt_lt n dd bc (show j < i by omega) hj
      omega
  · intro h
    exact psum_mono _ h

/-! ## `repr` -/

theorem cRepr_eq (n : CNfa) (dd : Nat) (bc : Bool) :
    cRepr n dd bc = ((List.range n.size).flatMap fun i =>
      if i == FAIL then [] else cW n dd bc (cNewId n dd bc) i).toArray := by
  unfold cRepr
  exact repr_fold _ _

theorem lenF_eq (n : CNfa) (dd : Nat) (bc : Bool) :
    (fun i => (if i == FAIL then [] else cW n dd bc (cNewId n dd bc) i).length) = sizeAt n dd bc := by
  funext i
  unfold sizeAt
  by_cases e : (i == FAIL) = true
  · simp only [e, if_true, List.length_nil]
  · simp only [e, Bool.false_eq_true, if_false]
    exact cW_length _ _ _ _ _ _

theorem cRepr_size (n : CNfa) (dd : Nat) (bc : Bool) : (cRepr n dd bc).size = offAt n dd bc n.size := by
  rw [cRepr_eq, List.size_toArray, flat_length, lenF_eq]; rfl

/-- the words of position `i ≠ FAIL` start at `offAt i` -/
theorem cRepr_slice (n : CNfa) (dd : Nat) (bc : Bool) {i : Nat} (hi : i < n.size) (h1 : i ≠ 1)
    {j : Nat} (hj : j < (cW n dd bc (cNewId n dd bc) i).length) :
    (cRepr n dd bc).getD (offAt n dd bc i + j) 0 = (cW n dd bc (cNewId n dd bc) i).getD j 0 := by
  have hF : (if i == FAIL then [] else cW n dd bc (cNewId n dd bc) i) = cW n dd bc (cNewId n dd bc) i := by
    have : (i == FAIL) = false := by simpa [FAIL] using h1
    rw [this]; rfl
  have := flat_getD (fun i => if i == FAIL then [] else cW n dd bc (cNewId n dd bc) i) n.size 0 i j hi
    (by rw [hF]; exact hj)
  rw [lenF_eq, hF] at this
  rw [cRepr_eq]
  unfold offAt
  simpa [Array.getD_eq_getD_getElem?, List.getD_eq_getElem?_getD] using this

theorem size_le_repr (n : CNfa) (dd : Nat) (bc : Bool) : n.size ≤ (cRepr n dd bc).size + 1 := by
  rw [cRepr_size]
  apply psum_ge
  intro i _ h1
  have := sizeAt_ge n dd bc h1
  omega

end AcVerif.L1eP
