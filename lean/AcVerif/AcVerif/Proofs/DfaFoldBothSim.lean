import AcVerif.Proofs.DfaFoldOne
import AcVerif.Proofs.DfaBothSim
/-!
# L1d (fold) proofs, part 3: the `Both` DFA built from the NFA compiled with
`ascii_case_insensitive` simulates it in either anchoring mode

Port of the `FS`-dependent part of `Proofs/DfaBothSim.lean` to `FSf` (`remFold_spec`,
`rowsFold_spec`, `fU`, `fA` of `Proofs/DfaBoth.lean` are re-used unchanged).
-/
namespace AcVerif.L1dFoldP
open AcVerif AcVerif.CNfa AcVerif.L1cP AcVerif.L1dP AcVerif.L1cFoldP

/-! ## the special rows as `foldSet`s -/

section
variable {k : MatchKind} {Q : PatSet UInt8} {L : List (List UInt8)} {N : CNfa}
variable {classOf : UInt8 → Nat} {nc : Nat}

theorem _root_.AcVerif.L1dP.VU.cases_f (h : FSf k Q L N) {s : Nat} (hv : VU L s) : s = 0 ∨ s = 2 ∨ 4 ≤ s := by
  rcases hv with e | ⟨u, hu, e⟩
  · exact Or.inl e
  · rcases hu with e' | hm
    · subst e'; rw [nu_nil] at e; exact Or.inr (Or.inl e)
    · exact Or.inr (Or.inr (e ▸ nu_ge (h.ne_nil hm)))

theorem _root_.AcVerif.L1dP.VA.cases_f (h : FSf k Q L N) {s : Nat} (hv : VA L s) : s = 0 ∨ s = 3 ∨ 4 ≤ s := by
  rcases hv with e | e | ⟨u, hm, e⟩
  · exact Or.inl e
  · exact Or.inr (Or.inl e)
  · exact Or.inr (Or.inr (e ▸ nu_ge (h.ne_nil hm)))

/-! ## row entries -/

/-- the row of the unanchored start state -/
theorem su_entry_f (h : FSf k Q L N) (hC : ClassOK N classOf nc) (b : UInt8)
    (hlt : follow N 2 b < N.size) :
    (sRowM N classOf nc (remFold N.size).1 2).getD (classOf b) 0 =
      fU (nextState N false (N.size + 1) 2 b 0).1 := by
  rw [sRowM_eq]
  refine (row_fold N 2 classOf
    (fun r => some (if follow N 2 r == FAIL then 0 else (remFold N.size).1.getD (follow N 2 r) 0))
    ?_ _ ?_ _ b ?_ 0).trans ?_
  · intro b b' hc
    rw [follow_cong_VU_f h hC VU_su hc]
  · intro r; rfl
  · rw [Array.size_replicate]; exact hC.lt b
  · have hf : follow N 2 b ≠ FAIL := follow_su_ne_fail_f h b
    have : (follow N 2 b == FAIL) = false := by simpa using hf
    rw [nextState_stop N false N.size 2 b 0 hf]
    simp only [this, Bool.false_eq_true, if_false, Option.getD_some]
    exact remU_getD N hlt

/-- the row of the anchored start state -/
theorem sa_entry_f (h : FSf k Q L N) (hC : ClassOK N classOf nc) (b : UInt8)
    (hlt : follow N 3 b ≠ FAIL → follow N 3 b < N.size) :
    (sRowM N classOf nc (remFold N.size).2.1 3).getD (classOf b) 0 =
      fA (nextState N true (N.size + 1) 3 b 0).1 := by
  rw [sRowM_eq]
  refine (row_fold N 3 classOf
    (fun r => some (if follow N 3 r == FAIL then 0 else (remFold N.size).2.1.getD (follow N 3 r) 0))
    ?_ _ ?_ _ b ?_ 0).trans ?_
  · intro b b' hc
    rw [follow_cong_VA_f h hC VA_sa hc]
  · intro r; rfl
  · rw [Array.size_replicate]; exact hC.lt b
  · rw [anch_entry]
    by_cases hf : follow N 3 b = FAIL
    · have : (follow N 3 b == FAIL) = true := by simpa using hf
      simp only [this, if_true, Option.getD_some]; rfl
    · have : (follow N 3 b == FAIL) = false := by simpa using hf
      simp only [this, Bool.false_eq_true, if_false, Option.getD_some]
      exact remA_getD N (hlt hf)

/-- the anchored row of a trie node -/
theorem node_entryA_f (h : FSf k Q L N) (hC : ClassOK N classOf nc) {s : Nat} (hv : VA L s)
    (b : UInt8) (hlt : follow N s b ≠ FAIL → follow N s b < N.size) :
    (aRowM N classOf nc (remFold N.size).2.1 s).getD (classOf b) 0 =
      fA (nextState N true (N.size + 1) s b 0).1 := by
  rw [aRowM_eq]
  refine (row_fold N s classOf
    (fun r => if follow N s r == FAIL then none else some ((remFold N.size).2.1.getD (follow N s r) 0))
    ?_ _ ?_ _ b ?_ 0).trans ?_
  · intro b b' hc
    rw [follow_cong_VA_f h hC hv hc]
  · intro r; rfl
  · rw [Array.size_replicate]; exact hC.lt b
  · rw [anch_entry]
    by_cases hf : follow N s b = FAIL
    · have : (follow N s b == FAIL) = true := by simpa using hf
      simp only [this, if_true, Option.getD_none]
      rw [getD_replicate' _ _ _ (hC.lt b)]; rfl
    · have : (follow N s b == FAIL) = false := by simpa using hf
      simp only [this, Bool.false_eq_true, if_false, Option.getD_some]
      exact remA_getD N (hlt hf)

/-- the unanchored row of a trie node -/
theorem node_entryU_f (h : FSf k Q L N) (hC : ClassOK N classOf nc) {s : Nat} (hv : VU L s)
    (b : UInt8) (hlt : (nextState N false (N.size + 1) s b 0).1 < N.size) :
    (uRowM N classOf nc (remFold N.size).1 s).getD (classOf b) 0 =
      fU (nextState N false (N.size + 1) s b 0).1 := by
  unfold uRowM
  rw [getD_map' _ _ 0 0 (by rw [dfaRow_size]; exact hC.lt b), rowU_spec_f h hC hv b 0]
  exact remU_getD N hlt

/-! ## one step of the `Both` DFA -/

theorem both_stepU_f (h : FSf k Q L N) (hC : ClassOK N classOf nc) (P : List (List UInt8))
    (hasPre a : Bool) {s : Nat} {q : St UInt8} (hr : Rel L false s q) (b : UInt8) :
    ((buildBoth N classOf nc).toAut k P hasPre).next a (fU s) b =
      fU ((N.toAut k P hasPre).next false s b) := by
  have hv := VU_of_Rel hr
  have hnext : VU L (nextState N false (N.size + 1) s b 0).1 := VU_of_Rel (Rel_step_f h false hr b)
  have hlt := hnext.lt_size_f h
  have hI := rowsFold_spec N classOf nc (remFold N.size).1 (remFold N.size).2.1 N.size
  have h4 := h.four_le_size
  rw [buildBoth_next]
  show _ = fU (nextState N false (N.size + 1) s b 0).1
  rcases hv.cases_f h with e | e | e
  · subst e
    rw [show fU 0 = 0 from rfl, (hI.dead 0 (by omega) (by omega)).1,
      getD_replicate' _ _ _ (hC.lt b)]
    show 0 = fU (nextState N false (N.size + 1) DEAD b 0).1
    rw [nextState_dead N false _ b 0 (h.goto_dead b)]
    rfl
  · subst e
    rw [show fU 2 = 2 from rfl, (hI.su (by omega)).1]
    apply su_entry_f h hC b
    rw [nextState_stop N false N.size 2 b 0 (follow_su_ne_fail_f h b)] at hlt
    exact hlt
  · have hfu : fU s = 2 * s - 4 := by
      unfold fU; rw [if_neg (by omega), cnt_of_ge e]
    rw [hfu, (hI.node s (hv.lt_size_f h) e).1]
    exact node_entryU_f h hC hv b hlt

theorem both_stepA_f (h : FSf k Q L N) (hC : ClassOK N classOf nc) (P : List (List UInt8))
    (hasPre a : Bool) {s : Nat} {q : St UInt8} (hr : Rel L true s q) (b : UInt8) :
    ((buildBoth N classOf nc).toAut k P hasPre).next a (fA s) b =
      fA ((N.toAut k P hasPre).next true s b) := by
  have hv := VA_of_Rel hr
  have hnext : VA L (nextState N true (N.size + 1) s b 0).1 := VA_of_Rel (Rel_step_f h true hr b)
  have hlt : follow N s b ≠ FAIL → follow N s b < N.size := by
    intro hf
    have := hnext.lt_size_f h
    rw [nextState_stop N true N.size s b 0 hf] at this
    exact this
  have hI := rowsFold_spec N classOf nc (remFold N.size).1 (remFold N.size).2.1 N.size
  have h4 := h.four_le_size
  rw [buildBoth_next]
  show _ = fA (nextState N true (N.size + 1) s b 0).1
  rcases hv.cases_f h with e | e | e
  · subst e
    rw [show fA 0 = 0 from rfl, (hI.dead 0 (by omega) (by omega)).1,
      getD_replicate' _ _ _ (hC.lt b)]
    show 0 = fA (nextState N true (N.size + 1) DEAD b 0).1
    rw [nextState_dead N true _ b 0 (h.goto_dead b)]
    rfl
  · subst e
    rw [show fA 3 = 3 from rfl, (hI.sa (by omega)).1]
    exact sa_entry_f h hC b hlt
  · have hfa : fA s = 2 * s - 3 := by
      unfold fA; rw [if_neg (by omega), if_neg (by omega)]
    rw [hfa, (hI.node s (hv.lt_size_f h) e).2.1]
    exact node_entryA_f h hC hv b hlt

/-! ## observations -/

theorem both_startU_f (h : FSf k Q L N) : (buildBoth N classOf nc).startU = some 2 := by
  show some ((remFold N.size).1.getD SU 0) = some 2
  rw [remU_getD N (by have := h.four_le_size; simp only [SU]; omega)]; rfl

theorem both_startA_f (h : FSf k Q L N) : (buildBoth N classOf nc).startA = some 3 := by
  show some ((remFold N.size).2.1.getD SA 0) = some 3
  rw [remA_getD N (by have := h.four_le_size; simp only [SA]; omega)]; rfl

theorem both_matsU_f (h : FSf k Q L N) {s : Nat} (hv : VU L s) :
    (buildBoth N classOf nc).matches_.getD (fU s) [] = (N.getD s {}).matches_ := by
  have hI := rowsFold_spec N classOf nc (remFold N.size).1 (remFold N.size).2.1 N.size
  have h4 := h.four_le_size
  rw [buildBoth_mats]
  rcases hv.cases_f h with e | e | e
  · subst e
    rw [show fU 0 = 0 from rfl, (hI.dead 0 (by omega) (by omega)).2]
    exact h.mats_dead.symm
  · subst e
    rw [show fU 2 = 2 from rfl, (hI.su (by omega)).2]
  · have hfu : fU s = 2 * s - 4 := by
      unfold fU; rw [if_neg (by omega), cnt_of_ge e]
    rw [hfu, (hI.node s (hv.lt_size_f h) e).2.2.1]

theorem both_matsA_f (h : FSf k Q L N) {s : Nat} (hv : VA L s) :
    (buildBoth N classOf nc).matches_.getD (fA s) [] = (N.getD s {}).matches_ := by
  have hI := rowsFold_spec N classOf nc (remFold N.size).1 (remFold N.size).2.1 N.size
  have h4 := h.four_le_size
  rw [buildBoth_mats]
  rcases hv.cases_f h with e | e | e
  · subst e
    rw [show fA 0 = 0 from rfl, (hI.dead 0 (by omega) (by omega)).2]
    exact h.mats_dead.symm
  · subst e
    rw [show fA 3 = 3 from rfl, (hI.sa (by omega)).2]
  · have hfa : fA s = 2 * s - 3 := by
      unfold fA; rw [if_neg (by omega), if_neg (by omega)]
    rw [hfa, (hI.node s (hv.lt_size_f h) e).2.2.2]

theorem both_obsU_f (h : FSf k Q L N) (P : List (List UInt8)) (hasPre : Bool) {s : Nat}
    (hv : VU L s) :
    ((buildBoth N classOf nc).toAut k P hasPre).obs false (fU s) =
      (N.toAut k P hasPre).obs false s := by
  have hm := both_matsU_f (classOf := classOf) (nc := nc) h hv
  have hsU := both_startU_f (classOf := classOf) (nc := nc) h
  have hsA := both_startA_f (classOf := classOf) (nc := nc) h
  show Obs.mk _ _ _ _ = Obs.mk _ _ _ _
  simp only [DfaM.toAut, CNfa.toAut, CNfa.isMatch, Bool.false_eq_true, if_false, hm, hsU, hsA]
  have hd : (fU s == (buildBoth N classOf nc).dead) = (s == DEAD) := by
    show (fU s == 0) = (s == 0)
    rcases hv.cases_f h with e | e | e
    · subst e; rfl
    · subst e; rfl
    · have hfu : fU s = 2 * s - 4 := by
        unfold fU; rw [if_neg (by omega), cnt_of_ge e]
      rw [hfu]
      have e1 : (2 * s - 4 == 0) = false := by simp; omega
      have e2 : (s == 0) = false := by simp; omega
      rw [e1, e2]
  have hst : (some (fU s) == some 2 || some (fU s) == some 3) = (s == SU || s == SA) := by
    show _ = (s == 2 || s == 3)
    rcases hv.cases_f h with e | e | e
    · subst e; rfl
    · subst e; rfl
    · have hfu : fU s = 2 * s - 4 := by
        unfold fU; rw [if_neg (by omega), cnt_of_ge e]
      rw [hfu]
      have e1 : (some (2 * s - 4) == some 2) = false := by simp; omega
      have e2 : (some (2 * s - 4) == some 3) = false := by simp; omega
      have e3 : (s == 2) = false := by simp; omega
      have e4 : (s == 3) = false := by simp; omega
      rw [e1, e2, e3, e4]
  have hne : (fU s != (buildBoth N classOf nc).dead) = (s != DEAD) := by
    show (!(fU s == _)) = !(s == DEAD)
    rw [hd]
  rw [hd, hst, hne]

theorem both_obsA_f (h : FSf k Q L N) (P : List (List UInt8)) (hasPre : Bool) {s : Nat}
    (hv : VA L s) :
    ((buildBoth N classOf nc).toAut k P hasPre).obs false (fA s) =
      (N.toAut k P hasPre).obs false s := by
  have hm := both_matsA_f (classOf := classOf) (nc := nc) h hv
  have hsU := both_startU_f (classOf := classOf) (nc := nc) h
  have hsA := both_startA_f (classOf := classOf) (nc := nc) h
  show Obs.mk _ _ _ _ = Obs.mk _ _ _ _
  simp only [DfaM.toAut, CNfa.toAut, CNfa.isMatch, Bool.false_eq_true, if_false, hm, hsU, hsA]
  have hd : (fA s == (buildBoth N classOf nc).dead) = (s == DEAD) := by
    show (fA s == 0) = (s == 0)
    rcases hv.cases_f h with e | e | e
    · subst e; rfl
    · subst e; rfl
    · have hfa : fA s = 2 * s - 3 := by
        unfold fA; rw [if_neg (by omega), if_neg (by omega)]
      rw [hfa]
      have e1 : (2 * s - 3 == 0) = false := by simp; omega
      have e2 : (s == 0) = false := by simp; omega
      rw [e1, e2]
  have hst : (some (fA s) == some 2 || some (fA s) == some 3) = (s == SU || s == SA) := by
    show _ = (s == 2 || s == 3)
    rcases hv.cases_f h with e | e | e
    · subst e; rfl
    · subst e; rfl
    · have hfa : fA s = 2 * s - 3 := by
        unfold fA; rw [if_neg (by omega), if_neg (by omega)]
      rw [hfa]
      have e1 : (some (2 * s - 3) == some 2) = false := by simp; omega
      have e2 : (some (2 * s - 3) == some 3) = false := by simp; omega
      have e3 : (s == 2) = false := by simp; omega
      have e4 : (s == 3) = false := by simp; omega
      rw [e1, e2, e3, e4]
  have hne : (fA s != (buildBoth N classOf nc).dead) = (s != DEAD) := by
    show (!(fA s == _)) = !(s == DEAD)
    rw [hd]
  rw [hd, hst, hne]

end

/-! ## the runs -/

theorem both_runU_f (k : MatchKind) (P : List (List UInt8)) (hasPre : Bool)
    {L : List (List UInt8)} (hFS : FSf k (patSet k (P.map (·.map foldByte))) L (CNfa.compile k true P))
    {classOf : UInt8 → Nat} {nc : Nat} (hC : ClassOK (CNfa.compile k true P) classOf nc) :
    ∀ (w : List UInt8) (s : Nat) (q : St UInt8), Rel L false s q →
      ∃ q', Rel L false (((CNfa.compile k true P).toAut k P hasPre).runFrom false s w) q' ∧
        ((buildBoth (CNfa.compile k true P) classOf nc).toAut k P hasPre).runFrom false (fU s) w =
          fU (((CNfa.compile k true P).toAut k P hasPre).runFrom false s w)
  | [], _, q, hr => ⟨q, hr, rfl⟩
  | c :: w, s, _, hr => by
    have hstep := both_stepU_f hFS hC P hasPre false hr c
    obtain ⟨q', h1, h2⟩ := both_runU_f k P hasPre hFS hC w _ _ (Rel_step_f hFS false hr c)
    refine ⟨q', h1, ?_⟩
    show Aut.runFrom _ false (Aut.next _ false (fU s) c) w = _
    rw [hstep]
    exact h2

theorem both_runA_f (k : MatchKind) (P : List (List UInt8)) (hasPre : Bool)
    {L : List (List UInt8)} (hFS : FSf k (patSet k (P.map (·.map foldByte))) L (CNfa.compile k true P))
    {classOf : UInt8 → Nat} {nc : Nat} (hC : ClassOK (CNfa.compile k true P) classOf nc) :
    ∀ (w : List UInt8) (s : Nat) (q : St UInt8), Rel L true s q →
      ∃ q', Rel L true (((CNfa.compile k true P).toAut k P hasPre).runFrom true s w) q' ∧
        ((buildBoth (CNfa.compile k true P) classOf nc).toAut k P hasPre).runFrom true (fA s) w =
          fA (((CNfa.compile k true P).toAut k P hasPre).runFrom true s w)
  | [], _, q, hr => ⟨q, hr, rfl⟩
  | c :: w, s, _, hr => by
    have hstep := both_stepA_f hFS hC P hasPre true hr c
    obtain ⟨q', h1, h2⟩ := both_runA_f k P hasPre hFS hC w _ _ (Rel_step_f hFS true hr c)
    refine ⟨q', h1, ?_⟩
    show Aut.runFrom _ true (Aut.next _ true (fA s) c) w = _
    rw [hstep]
    exact h2

theorem both_obsEquivU_f (k : MatchKind) (P : List (List UInt8)) (hasPre : Bool)
    {classOf : UInt8 → Nat} {nc : Nat} (hC : ClassOK (CNfa.compile k true P) classOf nc) :
    ObsEquiv ((buildBoth (CNfa.compile k true P) classOf nc).toAut k P hasPre)
      ((CNfa.compile k true P).toAut k P hasPre) false false 2 SU := by
  obtain ⟨L, hFS⟩ := compile_spec_f k P
  intro w
  have h0 : Rel L false SU (.at []) := by simp [Rel]
  obtain ⟨q', h1, h2⟩ := both_runU_f k P hasPre hFS hC w _ _ h0
  have : ((buildBoth (CNfa.compile k true P) classOf nc).toAut k P hasPre).runFrom false 2 w =
      fU (((CNfa.compile k true P).toAut k P hasPre).runFrom false SU w) := h2
  rw [this]
  exact both_obsU_f hFS P hasPre (VU_of_Rel h1)

theorem both_obsEquivA_f (k : MatchKind) (P : List (List UInt8)) (hasPre : Bool)
    {classOf : UInt8 → Nat} {nc : Nat} (hC : ClassOK (CNfa.compile k true P) classOf nc) :
    ObsEquiv ((buildBoth (CNfa.compile k true P) classOf nc).toAut k P hasPre)
      ((CNfa.compile k true P).toAut k P hasPre) false true 3 SA := by
  obtain ⟨L, hFS⟩ := compile_spec_f k P
  intro w
  have h0 : Rel L true SA (.at []) := by simp [Rel]
  obtain ⟨q', h1, h2⟩ := both_runA_f k P hasPre hFS hC w _ _ h0
  have : ((buildBoth (CNfa.compile k true P) classOf nc).toAut k P hasPre).runFrom true 3 w =
      fA (((CNfa.compile k true P).toAut k P hasPre).runFrom true SA w) := h2
  rw [this]
  exact both_obsA_f hFS P hasPre (VA_of_Rel h1)

end AcVerif.L1dFoldP
