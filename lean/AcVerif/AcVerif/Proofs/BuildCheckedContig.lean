import AcVerif.Proofs.BuildCheckedBase
import AcVerif.Proofs.ContigLayout
/-!
# C20 build proofs, part 3: the checks of the contiguous NFA and the DFA builder

* `contigOffsets` is the offsets table computed inside `buildContig` (`L1eP.cOffsets`), hence the
  start of the state at shuffled position `i ≠ FAIL` is the prefix sum `offAt i`;
* all `StateID::new(dst.len())` tests pass iff the offset of the *last* state is below the limit;
  in particular when `repr.len() ≤ limit`;
* a state is written with at most `260 + (number of its matches)` words;
* the DFA test, and `stride2 ≤ 8`.
-/
namespace AcVerif.BuildP
open AcVerif AcVerif.CNfa AcVerif.L1eP AcVerif.L1dP

theorem contigOffsets_eq (n : CNfa) (dd : Nat) (bc : Bool) :
    contigOffsets n dd bc = cOffsets n dd bc := by
  unfold contigOffsets cOffsets cSizes cW cOrder clsOf ncOf
  rcases shuffleOrder n with ⟨o, na⟩
  rfl

/-- the table used for the checks is the one `buildContig` uses for its ids -/
theorem buildContig_startA (n : CNfa) (dd : Nat) (bc hp : Bool) :
    (buildContig n dd bc hp).startA = (contigOffsets n dd bc).getD ((shuffleOrder n).2 - 1) 0 := by
  rw [buildContig_eq, contigOffsets_eq]; rfl

theorem buildContig_repr_size (n : CNfa) (dd : Nat) (bc hp : Bool) :
    (buildContig n dd bc hp).repr.size = offAt n dd bc n.size := by
  rw [buildContig_eq]; exact cRepr_size n dd bc

theorem contigAllocOk_iff (L : Limits) (n : CNfa) (dd : Nat) (bc : Bool) :
    contigAllocOk L n dd bc = true ↔
      ∀ i, i < n.size → i ≠ 1 → offAt n dd bc i < L.stateIdLimit := by
  unfold contigAllocOk
  rw [List.all_eq_true, contigOffsets_eq]
  constructor
  · intro h i hi h1
    have := h i (List.mem_range.2 hi)
    rw [cOffsets_getD n dd bc hi, if_neg h1] at this
    have e : (i == FAIL) = false := by simpa [FAIL] using h1
    simpa [e] using this
  · intro h i hi
    have hi := List.mem_range.1 hi
    by_cases h1 : i = 1
    · subst h1; rfl
    · have e : (i == FAIL) = false := by simpa [FAIL] using h1
      rw [cOffsets_getD n dd bc hi, if_neg h1, e]
      simpa using h i hi h1

/-- the tests are on increasing offsets: all pass iff the one for the last state does -/
theorem contigAllocOk_iff_last (L : Limits) (n : CNfa) (dd : Nat) (bc : Bool) (h3 : 3 ≤ n.size) :
    contigAllocOk L n dd bc = true ↔ offAt n dd bc (n.size - 1) < L.stateIdLimit := by
  rw [contigAllocOk_iff]
  constructor
  · intro h; exact h (n.size - 1) (by omega) (by omega)
  · intro h i hi _
    have : offAt n dd bc i ≤ offAt n dd bc (n.size - 1) := psum_mono _ (by omega)
    omega

/-- … in particular when the whole `repr` vector is no longer than the limit -/
theorem contigAllocOk_of_repr (L : Limits) (n : CNfa) (dd : Nat) (bc hp : Bool)
    (h : (buildContig n dd bc hp).repr.size ≤ L.stateIdLimit + 1) :
    contigAllocOk L n dd bc = true := by
  rw [contigAllocOk_iff]
  intro i hi h1
  rw [buildContig_repr_size] at h
  have := offAt_lt n dd bc hi h1
  omega

/-! ## how long a written state can be -/

theorem ncOf_le (n : CNfa) (bc : Bool) : ncOf n bc ≤ 256 := by
  unfold ncOf clsOf
  cases bc
  · simp only [Bool.false_eq_true, if_false]; decide
  · simp only [if_true]
    unfold classOfMarks
    have := List.length_filter_le (fun m => (marksOf (trieBytes n)).contains m.toUInt8)
      (List.range (255 : UInt8).toNat)
    rw [List.length_range] at this
    have e : (255 : UInt8).toNat = 255 := by decide
    omega

theorem wTail_length_le (st : CState) : (wTail st).length ≤ 1 + st.matches_.length := by
  unfold wTail
  split
  · simp
  · split
    · simp
    · simp only [List.length_cons]; omega

theorem u32Len_le (k : Nat) : u32Len k ≤ k / 4 + 1 := by
  unfold u32Len; split <;> omega

theorem writeState_length_le (classOf : UInt8 → Nat) (al : Nat) (st : CState) (f : Nat → Nat)
    (fd : Bool) (hal : al ≤ 256) :
    (writeState classOf al st f fd).length ≤ 259 + st.matches_.length := by
  have ht := wTail_length_le st
  rcases writeState_cases st fd with h | ⟨h1, _, b, t, h3, h4⟩ | ⟨h1, h2, h3⟩
  · rw [writeState_dense _ _ _ _ _ h]
    simp only [List.length_append, Array.length_toList, denseRow_size, List.length_cons,
      List.length_nil]
    omega
  · rw [writeState_one _ _ _ _ _ h1 b t h3 h4]
    simp only [List.length_cons, List.length_nil]; omega
  · rw [writeState_sparse _ _ _ _ _ h1 h2 h3]
    simp only [List.length_append, List.length_map, List.length_cons, List.length_nil]
    rw [chunks_length _ _ (by simp)]
    simp only [List.length_map]
    have := u32Len_le st.trans.length
    omega

theorem psum_le_mul (g : Nat → Nat) (c : Nat) :
    ∀ k, (∀ i, i < k → g i ≤ c) → psum g k ≤ c * k
  | 0, _ => by simp [psum]
  | k + 1, h => by
    have := psum_le_mul g c k (fun i hi => h i (by omega))
    have := h k (by omega)
    simp only [psum, Nat.mul_add, Nat.mul_one]
    omega

theorem sizeAt_le (n : CNfa) (dd : Nat) (bc : Bool) (c : Nat)
    (hc : ∀ sid, (n.getD sid {}).matches_.length ≤ c) (i : Nat) : sizeAt n dd bc i ≤ 259 + c := by
  unfold sizeAt
  split
  · omega
  · unfold cW
    have := writeState_length_le (clsOf n bc) (ncOf n bc) (n.getD ((cOrder n).getD i 0) {})
      (fun t => t) (decide ((storedDepths n).getD ((cOrder n).getD i 0) 0 < dd)) (ncOf_le n bc)
    have := hc ((cOrder n).getD i 0)
    omega

/-- `repr.len()` is at most `(259 + c)·states.len()` when no state has more than `c` matches -/
theorem repr_size_le (n : CNfa) (dd : Nat) (bc hp : Bool) (c : Nat)
    (hc : ∀ sid, (n.getD sid {}).matches_.length ≤ c) :
    (buildContig n dd bc hp).repr.size ≤ (259 + c) * n.size := by
  rw [buildContig_repr_size]
  exact psum_le_mul _ _ _ (fun i _ => sizeAt_le n dd bc c hc i)

/-! ## the DFA -/

theorem stride2Of_le (alen : Nat) : stride2Of alen ≤ 8 := by
  unfold stride2Of
  cases h : (List.range 9).find? fun k => decide (alen ≤ 2 ^ k) with
  | none => simp
  | some k =>
    have := List.mem_of_find?_eq_some h
    have := List.mem_range.1 this
    simp only [Option.getD_some]; omega

theorem buildDfaIds_stride2 (n : CNfa) (sk : StartKind) (bc hp : Bool) :
    (buildDfaIds n sk bc hp).stride2 = stride2Of (ncOf n bc) := by
  unfold buildDfaIds ncOf clsOf
  cases sk <;> rfl

theorem buildDfaIds_stateLen (n : CNfa) (sk : StartKind) (bc hp : Bool) :
    (buildDfaIds n sk bc hp).stateLen =
      match sk with
      | .both => 2 * n.size - 4
      | _ => n.size := by
  unfold buildDfaIds
  cases sk <;> rfl

theorem buildDfaIds_stride2_le (n : CNfa) (sk : StartKind) (bc hp : Bool) :
    (buildDfaIds n sk bc hp).stride2 ≤ 8 := by
  rw [buildDfaIds_stride2]; exact stride2Of_le _

theorem buildDfaIds_stateLen_le (n : CNfa) (sk : StartKind) (bc hp : Bool) :
    (buildDfaIds n sk bc hp).stateLen ≤ 2 * n.size := by
  rw [buildDfaIds_stateLen]
  cases sk <;> simp only <;> omega

theorem shiftLeft_le_256 (a s : Nat) (hs : s ≤ 8) : a <<< s ≤ a * 256 := by
  rw [Nat.shiftLeft_eq]
  have : 2 ^ s ≤ 2 ^ 8 := Nat.pow_le_pow_right (by decide) hs
  exact Nat.mul_le_mul_left a this

end AcVerif.BuildP
