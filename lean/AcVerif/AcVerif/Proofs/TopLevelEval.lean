import AcVerif.Proofs.TopLevelApi
import AcVerif.Proofs.Struct
/-!
# Capstone, non-vacuity support: a structurally recursive form of `topFind`

`findLoop` is a well-founded recursion, which the kernel cannot evaluate.  `tryFindS` is
`try_find_fwd` (no prefilter) with the loop replaced by its structural form `findS`
(`findLoop_eq_findS`); `topFind_eq_S` lets concrete instances of the top-level function be
evaluated by `decide +kernel`.
-/
namespace AcVerif.TopP
open AcVerif
variable {σ α : Type}

/-- `try_find_fwd_imp` without prefilter, structural loop -/
def findImpS (A : Aut σ α) (i : Input α) (anch earliest : Bool) : Except MatchErr (Option Mat) :=
  match A.start i.anch with
  | none => .error (if i.anch then .invalidInputAnchored else .invalidInputUnanchored)
  | some sid =>
    let mat0 := if A.isMatch sid then some (getMatch A sid 0 i.s) else none
    if A.isMatch sid && earliest then .ok mat0
    else .ok (findS A i.s anch earliest sid i.s mat0 ((i.hay.take i.e).drop i.s))

theorem findImp_eq_S (A : Aut σ α) (i : Input α) (anch earliest : Bool) :
    findImp A i none anch earliest = findImpS A i anch earliest := by
  unfold findImp findImpS
  cases A.start i.anch with
  | none => rfl
  | some sid => simp only [findLoop_eq_findS]

/-- `try_find_fwd` without prefilter, structural loop -/
def tryFindS (A : Aut σ α) (i : Input α) : Except MatchErr (Option Mat) :=
  if i.isDone then
    match A.start i.anch with
    | none => .error (if i.anch then .invalidInputAnchored else .invalidInputUnanchored)
    | some _ => .ok none
  else findImpS A i i.anch (A.kind == .std || i.earliest)

theorem tryFindFwd_eq_S (A : Aut σ α) (i : Input α) : tryFindFwd A none i = tryFindS A i := by
  unfold tryFindFwd tryFindS
  by_cases hd : i.isDone = true
  · simp only [hd, if_true]
    cases A.start i.anch <;> rfl
  · simp only [hd, Bool.false_eq_true, if_false]
    cases ha : i.anch
    · simp only [Bool.false_eq_true, if_false]; rw [findImp_eq_S]
    · simp only [if_true]; rw [findImp_eq_S]

/-- `AhoCorasick::try_find` on a searcher without prefilter, structural loop -/
def topFindS (s : Searcher) (i : Input UInt8) : Except MatchErr (Option Mat) :=
  match anchoredGate s.cfg.startKind i.anch with
  | some e => .error e
  | none => tryFindS s.aut i

theorem topFind_eq_S (s : Searcher) (hpre : s.pre = none) (i : Input UInt8) :
    topFind s i = topFindS s i := by
  unfold topFind topFindS
  rw [hpre, tryFindFwd_eq_S]
  cases anchoredGate s.cfg.startKind i.anch <;> rfl

end AcVerif.TopP
